import TexSoupProofs.Reader.ArgsFirst
/-!
# Core A, part 4: the conservation invariant, by induction on the fuel
-/
namespace TexSoup

theorem consAt_zero (skip0 : List Str) : ConsAt skip0 0 := by
  refine ⟨?_, ?_, ?_, ?_, ?_, ?_, ?_, ?_, ?_, ?_, ?_, ?_⟩ <;> intros <;>
    simp_all [readExpr, readItem, readMathEnv, readMathBody, readEnv, readEnvBody, readCommand,
      readArgs, readArgOpt, readArgReq, readArg, readArgBody]

theorem isCloser_gclose (k : GKind) : IsCloser k.close := by
  cases k
  · exact .inr (.inl rfl)
  · exact .inl rfl

theorem Hyp.afterSpacer {skip0 : List Str} {ts : List Tok} {o : Tok} {r : List Tok}
    (hy : Hyp skip0 ts) (hs : (readSpacer ts).2 = o :: r) : Hyp skip0 (o :: r) := by
  obtain ⟨pre, hp⟩ := readSpacer_suffix ts
  rw [hs] at hp
  rw [hp] at hy
  exact hy.suffix

theorem noSkip : ∀ x, memStr x [] = true → memStr x skip0 = true := by
  intro x h; simp [memStr] at h

theorem readCommand_named {f : Nat} {tol : Bool} {mode : Mode} {ts : List Tok} {n : Tok}
    {args : List Expr} {ts1 : List Tok}
    (h : readCommand f (-1) (-1) tol mode ts = .ok ((n, args), ts1))
    (hn : n.text = sBegin ∨ n.text = sEnd) :
    ∃ r g, ts = n :: r ∧ readArgs g (-1) (-1) tol mode r = .ok (args, ts1) := by
  cases f with
  | zero => simp [readCommand] at h
  | succ g =>
    unfold readCommand at h
    cases ts with
    | nil =>
      simp only at h
      obtain ⟨args', ts2, _, h⟩ := Res.bind_eq_ok.mp h
      simp only [Except.ok.injEq, Prod.mk.injEq] at h
      obtain ⟨⟨rfl, rfl⟩, rfl⟩ := h
      rcases hn with hn | hn <;> simp [sBegin, sEnd] at hn
    | cons n' r =>
      simp only at h
      obtain ⟨args', ts2, ha, h⟩ := Res.bind_eq_ok.mp h
      simp only [Except.ok.injEq, Prod.mk.injEq] at h
      obtain ⟨⟨rfl, rfl⟩, rfl⟩ := h
      refine ⟨r, g, rfl, ?_⟩
      rcases hn with hn | hn
      · rw [hn, cmdSig_begin, cmdMode_begin] at ha; exact ha
      · rw [hn, cmdSig_end, cmdMode_end] at ha; exact ha

/-- the look-ahead of `read_env`: a command named `end` read with signature (1, 0) -/
theorem readCommand_end {f : Nat} {tol : Bool} {mode : Mode} {ts : List Tok} {n : Tok}
    {args : List Expr} {ts1 : List Tok}
    (h : readCommand f 1 0 tol mode ts = .ok ((n, args), ts1)) (hn : n.text = sEnd) :
    ∃ r g, ts = n :: r ∧ readArgs g 1 0 tol mode r = .ok (args, ts1) := by
  cases f with
  | zero => simp [readCommand] at h
  | succ g =>
    unfold readCommand at h
    cases ts with
    | nil =>
      simp only at h
      obtain ⟨args', ts2, _, h⟩ := Res.bind_eq_ok.mp h
      simp only [Except.ok.injEq, Prod.mk.injEq] at h
      obtain ⟨⟨rfl, rfl⟩, rfl⟩ := h
      simp [sEnd] at hn
    | cons n' r =>
      simp only at h
      obtain ⟨args', ts2, ha, h⟩ := Res.bind_eq_ok.mp h
      simp only [Except.ok.injEq, Prod.mk.injEq] at h
      obtain ⟨⟨rfl, rfl⟩, rfl⟩ := h
      refine ⟨r, g, rfl, ?_⟩
      rw [hn, cmdMode_end] at ha
      simpa [cmdSig] using ha

theorem readArgOpt_zero {g : Nat} {tol : Bool} {mode : Mode} {ts : List Tok}
    {r : (List Expr × Int) × List Tok} (h : readArgOpt g 0 tol mode ts = .ok r) : r = (([], 0), ts) := by
  cases g with
  | zero => simp [readArgOpt] at h
  | succ g' =>
    unfold readArgOpt at h
    rw [if_pos (by decide)] at h
    exact (Except.ok.inj h).symm

theorem readArgReq_zero {g : Nat} {tol : Bool} {mode : Mode} {ts : List Tok}
    {r : (List Expr × Int) × List Tok} (h : readArgReq g 0 tol mode ts = .ok r) : r = (([], 0), ts) := by
  cases g with
  | zero => simp [readArgReq] at h
  | succ g' =>
    unfold readArgReq at h
    rw [if_pos (by decide)] at h
    exact (Except.ok.inj h).symm

/-- one mandatory argument: either nothing could be read (no token left after the spacer) or
exactly one argument was read -/
theorem readArgReq_one {g : Nat} {tol : Bool} {mode : Mode} {ts : List Tok} {gs : List Expr}
    {n' : Int} {rest : List Tok} (h : readArgReq g 1 tol mode ts = .ok ((gs, n'), rest)) :
    (gs = [] ∧ n' = 1 ∧ rest = ts ∧ (readSpacer ts).2 = []) ∨ (∃ x, gs = [x] ∧ n' = 0) := by
  cases g with
  | zero => simp [readArgReq] at h
  | succ g' =>
    unfold readArgReq at h
    rw [if_neg (by decide)] at h
    cases hs : (readSpacer ts).2 with
    | nil =>
      rw [hs] at h
      simp only [Except.ok.injEq, Prod.mk.injEq] at h
      obtain ⟨⟨rfl, rfl⟩, rfl⟩ := h
      exact .inl ⟨rfl, rfl, rfl, rfl⟩
    | cons o r =>
      rw [hs] at h
      simp only at h
      right
      -- every branch ends with `readArgReq g' (1 - 1)`, which reads nothing
      have fin : ∀ (x : Expr) (tsx : List Tok),
          ((readArgReq g' (1 - 1) tol mode tsx).bind fun gn ts2 =>
            (Except.ok ((x :: gn.1, gn.2), ts2) : Res (List Expr × Int))) = .ok ((gs, n'), rest) →
          ∃ x, gs = [x] ∧ n' = 0 := by
        intro x tsx hx
        obtain ⟨⟨gl, gi⟩, ts2', hr, hx⟩ := Res.bind_eq_ok.mp hx
        have hz := readArgReq_zero hr
        simp only [Prod.mk.injEq] at hz
        obtain ⟨⟨hgl, hgi⟩, _⟩ := hz
        simp only [Except.ok.injEq, Prod.mk.injEq] at hx
        obtain ⟨⟨hgs, hn⟩, _⟩ := hx
        exact ⟨x, by rw [← hgs, hgl], by rw [← hn, hgi]⟩
      by_cases hb : (o.cat == TC.GroupBegin) = true
      · rw [if_pos hb] at h
        obtain ⟨x, tsx, _, hk⟩ := Res.bind_eq_ok.mp h
        exact fin x tsx hk
      · rw [if_neg hb] at h
        rw [if_pos (by decide)] at h
        by_cases hesc : (o.cat == TC.Escape) = true
        · rw [if_pos hesc] at h
          obtain ⟨na, tsx, _, hk⟩ := Res.bind_eq_ok.mp h
          exact fin _ tsx hk
        · rw [if_neg hesc] at h
          exact fin _ r h

/-- signature (1, 0) yields at most one argument -/
theorem readArgs_one {g : Nat} {tol : Bool} {mode : Mode} {ts : List Tok} {args : List Expr}
    {rest : List Tok} (h : readArgs g 1 0 tol mode ts = .ok (args, rest)) : args.length ≤ 1 := by
  cases g with
  | zero => simp [readArgs] at h
  | succ g1 =>
    unfold readArgs at h
    rw [if_neg (by decide)] at h
    obtain ⟨⟨a1, n1⟩, ts1, h1, hA⟩ := Res.bind_eq_ok.mp h
    clear h
    have hz1 := readArgOpt_zero h1
    simp only [Prod.mk.injEq] at hz1
    obtain ⟨⟨ha1, hn1⟩, hts1⟩ := hz1
    obtain ⟨⟨a2, n2⟩, ts2, h2, hB⟩ := Res.bind_eq_ok.mp hA
    clear hA
    obtain ⟨⟨a3, n3⟩, ts3, h3, hC⟩ := Res.bind_eq_ok.mp hB
    clear hB
    obtain ⟨⟨a4, n4⟩, ts4, h4, hD⟩ := Res.bind_eq_ok.mp hC
    clear hC
    simp only [Except.ok.injEq, Prod.mk.injEq] at hD
    obtain ⟨hargs, _⟩ := hD
    simp only at h3 h4
    have e3 : a3 = [] ∧ ts3 = ts2 := by
      by_cases hb : nextIs TC.BracketBegin ts2 = true
      · rw [if_pos hb, hn1] at h3
        have hz := readArgOpt_zero h3
        simp only [Prod.mk.injEq] at hz
        exact ⟨hz.1.1, hz.2⟩
      · rw [if_neg hb] at h3
        simp only [Except.ok.injEq, Prod.mk.injEq] at h3
        exact ⟨h3.1.1.symm, h3.2.symm⟩
    obtain ⟨ha3, hts3⟩ := e3
    rw [hts1] at h2
    have e4 : a2.length + a4.length ≤ 1 := by
      rcases readArgReq_one h2 with ⟨ha2, hn2, hts2, hs⟩ | ⟨x, ha2, hn2⟩
      · have hg : nextIs TC.GroupBegin ts3 = false := by
          cases hn : nextIs TC.GroupBegin ts3 with
          | false => rfl
          | true =>
            obtain ⟨o, r3, hs', _⟩ := nextIs_readSpacer (by decide) hn
            rw [hts3, hts2, hs] at hs'; cases hs'
        rw [hg] at h4
        simp only [Bool.false_eq_true, if_false, Except.ok.injEq, Prod.mk.injEq] at h4
        rw [ha2, ← h4.1.1]; simp
      · have ha4 : a4 = [] := by
          by_cases hb : nextIs TC.GroupBegin ts3 = true
          · rw [if_pos hb, hn2] at h4
            have hz := readArgReq_zero h4
            simp only [Prod.mk.injEq] at hz
            exact hz.1.1
          · rw [if_neg hb] at h4
            simp only [Except.ok.injEq, Prod.mk.injEq] at h4
            exact h4.1.1.symm
        rw [ha2, ha4]; simp
    rw [← hargs, ha1, ha3]
    simp only [List.nil_append, List.length_append]
    exact e4

theorem readSkipEnv_shape {name : Str} {args : List Expr} {pos : Int} {ts : List Tok} {e : Expr}
    {rest : List Tok} (h : readSkipEnv name args pos ts = .ok (e, rest)) :
    ∃ body bpos, e = .nenv name args [.text body bpos] pos := by
  unfold readSkipEnv at h
  cases hb : skipBody (endMarker name) ts with
  | mk b r =>
    rw [hb] at h
    simp only at h
    by_cases hs : bufStartsWith (endMarker name) r = true
    · rw [if_pos hs] at h
      simp only [Except.ok.injEq, Prod.mk.injEq] at h
      exact ⟨_, _, h.1.symm⟩
    · rw [if_neg hs] at h; cases h

theorem readEnv_shape {f : Nat} {name : Str} {args : List Expr} {pos : Int} {skip : List Str}
    {tol : Bool} {mode : Mode} {ts : List Tok} {e : Expr} {rest : List Tok}
    (h : readEnv f name args pos skip tol mode ts = .ok (e, rest)) :
    ∃ body, e = .nenv name args body pos := by
  cases f with
  | zero => simp [readEnv] at h
  | succ g =>
    unfold readEnv at h
    obtain ⟨⟨body, ea⟩, ts1, hb, h⟩ := Res.bind_eq_ok.mp h
    by_cases herr : envError name ea = true
    · rw [if_pos herr] at h
      by_cases ht : tol = true
      · rw [if_pos ht] at h
        simp only [Except.ok.injEq, Prod.mk.injEq] at h
        exact ⟨_, h.1.symm⟩
      · rw [if_neg ht] at h; cases h
    · rw [if_neg herr] at h
      cases ts1 with
      | nil => cases h
      | cons t0 r0 =>
        simp only at h
        obtain ⟨na, ts2, ha, h⟩ := Res.bind_eq_ok.mp h
        simp only [Except.ok.injEq, Prod.mk.injEq] at h
        exact ⟨_, h.1.symm⟩

theorem envError_false {name : Str} {ea : Option (List Expr)} (h : envError name ea = false) :
    ∃ a0 as, ea = some (a0 :: as) ∧ a0.string = name := by
  match ea, h with
  | none, h => simp [envError] at h
  | some [], h => simp [envError] at h
  | some (a0 :: as), h => exact ⟨a0, as, rfl, by simpa [envError] using h⟩

section
variable (skip0 : List Str) (f : Nat) (ih : ConsAt skip0 f)
include ih

theorem cs_readArgBody : ∀ k tol mode ts es rest, readArgBody (f+1) k tol mode ts = .ok (es, rest) →
    Hyp skip0 ts → noBareL es = true → Cons tol ts (serL es ++ k.close) rest := by
  intro k tol mode ts es rest h hy hnb
  obtain ⟨cE, cI, cME, cMB, cEnv, cEB, cC, cAs, cAO, cAR, cA, cAB⟩ := ih
  unfold readArgBody at h
  cases ts with
  | nil =>
    simp only at h
    by_cases ht : tol = true
    · rw [if_pos ht] at h
      simp only [Except.ok.injEq, Prod.mk.injEq] at h
      obtain ⟨rfl, rfl⟩ := h
      simpa [serL] using Cons.closer (Cons.refl (tol := tol) []) k.close ht (isCloser_gclose k)
    · rw [if_neg ht] at h; cases h
  | cons t r =>
    simp only at h
    by_cases hend : (t.cat == k.tokEnd) = true
    · rw [if_pos hend] at h
      simp only [Except.ok.injEq, Prod.mk.injEq] at h
      obtain ⟨rfl, rfl⟩ := h
      have htx := text_of_gkindEnd (hy.shaped t (by simp)) hend
      refine ⟨[t], rfl, ?_⟩
      simpa [serL, htx] using Del.single (tol := tol) t
    · rw [if_neg hend] at h
      obtain ⟨e, ts1, he, h⟩ := Res.bind_eq_ok.mp h
      obtain ⟨es', ts2, hb, h⟩ := Res.bind_eq_ok.mp h
      simp only [Except.ok.injEq, Prod.mk.injEq] at h
      obtain ⟨rfl, rfl⟩ := h
      simp only [noBareL, Bool.and_eq_true] at hnb
      have c1 := cE _ _ _ _ _ _ he hy noSkip hnb.1
      have c2 := cAB _ _ _ _ _ _ hb (hy.ofCons c1) hnb.2
      simpa [serL, List.append_assoc] using c1.trans c2

theorem cs_readArg : ∀ k pos tol mode ts e rest, readArg (f+1) k pos tol mode ts = .ok (e, rest) →
    Hyp skip0 ts →
    ∃ body, e = .group k body pos ∧ (noBareL body = true → Cons tol ts (serL body ++ k.close) rest) := by
  intro k pos tol mode ts e rest h hy
  obtain ⟨cE, cI, cME, cMB, cEnv, cEB, cC, cAs, cAO, cAR, cA, cAB⟩ := ih
  unfold readArg at h
  obtain ⟨body, ts1, hb, h⟩ := Res.bind_eq_ok.mp h
  simp only [Except.ok.injEq, Prod.mk.injEq] at h
  obtain ⟨rfl, rfl⟩ := h
  exact ⟨body, rfl, fun hnb => cAB _ _ _ _ _ _ hb hy hnb⟩

/-- a group read after the optional spacer: conservation from the spacer on -/
theorem group_after_spacer {tol : Bool} {mode : Mode} {ts : List Tok} {o : Tok} {r : List Tok}
    {k : GKind} {g : Expr} {ts1 : List Tok} {as : List Expr}
    (hy : Hyp skip0 ts) (hs : (readSpacer ts).2 = o :: r) (hk : gkindOfBegin o.cat = some k)
    (hg : readArg f k o.pos tol mode r = .ok (g, ts1)) (hnb : noBareA (g :: as) = true) :
    Cons tol ts (ser g) ts1 ∧ noBareA as = true := by
  obtain ⟨cE, cI, cME, cMB, cEnv, cEB, cC, cAs, cAO, cAR, cA, cAB⟩ := ih
  have hy' := hy.afterSpacer hs
  obtain ⟨body, rfl, hc⟩ := cA _ _ _ _ _ _ _ hg hy'.tail
  simp only [noBareA, Bool.and_eq_true] at hnb
  have c1 := hc hnb.1.2
  have c2 := Cons.dropSpacer hs (isOpener_of_gkind hk) c1
  rw [text_of_gkindBegin (hy'.shaped o (by simp)) hk] at c2
  exact ⟨by simpa [ser] using c2, hnb.2⟩

theorem cs_readArgOpt : ∀ n tol mode ts gs n' rest, readArgOpt (f+1) n tol mode ts = .ok ((gs, n'), rest) →
    Hyp skip0 ts → noBareA gs = true → Cons tol ts (serL gs) rest := by
  intro n tol mode ts gs n' rest h hy hnb
  have ih' := ih
  obtain ⟨cE, cI, cME, cMB, cEnv, cEB, cC, cAs, cAO, cAR, cA, cAB⟩ := ih
  unfold readArgOpt at h
  by_cases h0 : (n == 0) = true
  · rw [if_pos h0] at h
    simp only [Except.ok.injEq, Prod.mk.injEq] at h
    obtain ⟨⟨rfl, rfl⟩, rfl⟩ := h
    exact Cons.refl _
  · rw [if_neg h0] at h
    cases hs : (readSpacer ts).2 with
    | nil =>
      rw [hs] at h
      simp only [Except.ok.injEq, Prod.mk.injEq] at h
      obtain ⟨⟨rfl, rfl⟩, rfl⟩ := h
      exact Cons.refl _
    | cons o r =>
      rw [hs] at h
      simp only at h
      by_cases hb : (o.cat == TC.BracketBegin) = true
      · rw [if_pos hb] at h
        obtain ⟨g, ts1, hg, h⟩ := Res.bind_eq_ok.mp h
        obtain ⟨gn, ts2, hn, h⟩ := Res.bind_eq_ok.mp h
        simp only [Except.ok.injEq, Prod.mk.injEq] at h
        obtain ⟨⟨rfl, rfl⟩, rfl⟩ := h
        have hk : gkindOfBegin o.cat = some .bracket := by
          have : o.cat = TC.BracketBegin := by simpa using hb
          rw [this]; rfl
        obtain ⟨c1, hnb'⟩ := group_after_spacer skip0 f ih' hy hs hk hg hnb
        have c2 := cAO _ _ _ _ _ _ _ hn (hy.ofCons c1) hnb'
        simpa [serL] using c1.trans c2
      · rw [if_neg hb] at h
        simp only [Except.ok.injEq, Prod.mk.injEq] at h
        obtain ⟨⟨rfl, rfl⟩, rfl⟩ := h
        exact Cons.refl _

theorem cs_readArgReq : ∀ n tol mode ts gs n' rest, readArgReq (f+1) n tol mode ts = .ok ((gs, n'), rest) →
    Hyp skip0 ts → noBareA gs = true → Cons tol ts (serL gs) rest := by
  intro n tol mode ts gs n' rest h hy hnb
  have ih' := ih
  obtain ⟨cE, cI, cME, cMB, cEnv, cEB, cC, cAs, cAO, cAR, cA, cAB⟩ := ih
  unfold readArgReq at h
  by_cases h0 : (n == 0) = true
  · rw [if_pos h0] at h
    simp only [Except.ok.injEq, Prod.mk.injEq] at h
    obtain ⟨⟨rfl, rfl⟩, rfl⟩ := h
    exact Cons.refl _
  · rw [if_neg h0] at h
    cases hs : (readSpacer ts).2 with
    | nil =>
      rw [hs] at h
      simp only [Except.ok.injEq, Prod.mk.injEq] at h
      obtain ⟨⟨rfl, rfl⟩, rfl⟩ := h
      exact Cons.refl _
    | cons o r =>
      rw [hs] at h
      simp only at h
      by_cases hb : (o.cat == TC.GroupBegin) = true
      · rw [if_pos hb] at h
        obtain ⟨g, ts1, hg, h⟩ := Res.bind_eq_ok.mp h
        obtain ⟨gn, ts2, hn, h⟩ := Res.bind_eq_ok.mp h
        simp only [Except.ok.injEq, Prod.mk.injEq] at h
        obtain ⟨⟨rfl, rfl⟩, rfl⟩ := h
        have hk : gkindOfBegin o.cat = some .brace := by
          have : o.cat = TC.GroupBegin := by simpa using hb
          rw [this]; rfl
        obtain ⟨c1, hnb'⟩ := group_after_spacer skip0 f ih' hy hs hk hg hnb
        have c2 := cAR _ _ _ _ _ _ _ hn (hy.ofCons c1) hnb'
        simpa [serL] using c1.trans c2
      · rw [if_neg hb] at h
        by_cases hpos : n > 0
        · rw [if_pos hpos] at h
          by_cases hesc : (o.cat == TC.Escape) = true
          · rw [if_pos hesc] at h
            obtain ⟨na, ts1, hc, h⟩ := Res.bind_eq_ok.mp h
            obtain ⟨gn, ts2, hn, h⟩ := Res.bind_eq_ok.mp h
            simp only [Except.ok.injEq, Prod.mk.injEq] at h
            obtain ⟨⟨rfl, rfl⟩, rfl⟩ := h
            simp [noBareA] at hnb
          · rw [if_neg hesc] at h
            obtain ⟨gn, ts2, hn, h⟩ := Res.bind_eq_ok.mp h
            simp only [Except.ok.injEq, Prod.mk.injEq] at h
            obtain ⟨⟨rfl, rfl⟩, rfl⟩ := h
            simp [noBareA] at hnb
        · rw [if_neg hpos] at h
          simp only [Except.ok.injEq, Prod.mk.injEq] at h
          obtain ⟨⟨rfl, rfl⟩, rfl⟩ := h
          exact Cons.refl _

theorem cs_readArgs : ∀ nreq nopt tol mode ts args rest, readArgs (f+1) nreq nopt tol mode ts = .ok (args, rest) →
    Hyp skip0 ts → noBareA args = true → Cons tol ts (serL args) rest := by
  intro nreq nopt tol mode ts args rest h hy hnb
  obtain ⟨cE, cI, cME, cMB, cEnv, cEB, cC, cAs, cAO, cAR, cA, cAB⟩ := ih
  unfold readArgs at h
  by_cases h0 : (nreq == 0 && nopt == 0) = true
  · rw [if_pos h0] at h
    simp only [Except.ok.injEq, Prod.mk.injEq] at h
    obtain ⟨rfl, rfl⟩ := h
    exact Cons.refl _
  · rw [if_neg h0] at h
    obtain ⟨⟨g1, n1⟩, ts1, h1, h⟩ := Res.bind_eq_ok.mp h
    obtain ⟨⟨g2, n2⟩, ts2, h2, h⟩ := Res.bind_eq_ok.mp h
    obtain ⟨⟨g3, n3⟩, ts3, h3, h⟩ := Res.bind_eq_ok.mp h
    obtain ⟨⟨g4, n4⟩, ts4, h4, h⟩ := Res.bind_eq_ok.mp h
    simp only [Except.ok.injEq, Prod.mk.injEq] at h
    obtain ⟨rfl, rfl⟩ := h
    simp only [noBareA_append, Bool.and_eq_true] at hnb
    obtain ⟨hb1, hb2, hb3, hb4⟩ := hnb
    have c1 := cAO _ _ _ _ _ _ _ h1 hy hb1
    have hy1 := hy.ofCons c1
    have c2 := cAR _ _ _ _ _ _ _ h2 hy1 hb2
    have hy2 := hy1.ofCons c2
    have c3 : Cons tol ts2 (serL g3) ts3 := by
      by_cases hb : nextIs TC.BracketBegin ts2 = true
      · rw [if_pos hb] at h3; exact cAO _ _ _ _ _ _ _ h3 hy2 hb3
      · rw [if_neg hb] at h3
        simp only [Except.ok.injEq, Prod.mk.injEq] at h3
        obtain ⟨⟨rfl, _⟩, rfl⟩ := h3
        exact Cons.refl _
    have hy3 := hy2.ofCons c3
    have c4 : Cons tol ts3 (serL g4) ts4 := by
      by_cases hb : nextIs TC.GroupBegin ts3 = true
      · rw [if_pos hb] at h4; exact cAR _ _ _ _ _ _ _ h4 hy3 hb4
      · rw [if_neg hb] at h4
        simp only [Except.ok.injEq, Prod.mk.injEq] at h4
        obtain ⟨⟨rfl, _⟩, rfl⟩ := h4
        exact Cons.refl _
    simpa [serL_append, List.append_assoc] using (c1.trans (c2.trans (c3.trans c4)))

theorem cs_readCommand : ∀ nreq nopt tol mode ts n args rest,
    readCommand (f+1) nreq nopt tol mode ts = .ok ((n, args), rest) → Hyp skip0 ts →
    (noBareA args = true → Cons tol ts (n.text ++ serL args) rest) ∧
    (ts.head? = some n ∨ (ts = [] ∧ n.text = [])) := by
  intro nreq nopt tol mode ts n args rest h hy
  obtain ⟨cE, cI, cME, cMB, cEnv, cEB, cC, cAs, cAO, cAR, cA, cAB⟩ := ih
  unfold readCommand at h
  cases ts with
  | nil =>
    simp only at h
    obtain ⟨args', ts2, ha, h⟩ := Res.bind_eq_ok.mp h
    simp only [Except.ok.injEq, Prod.mk.injEq] at h
    obtain ⟨⟨rfl, rfl⟩, rfl⟩ := h
    exact ⟨fun hnb => by simpa using cAs _ _ _ _ _ _ _ ha hy hnb, .inr ⟨rfl, rfl⟩⟩
  | cons n' r =>
    simp only at h
    obtain ⟨args', ts2, ha, h⟩ := Res.bind_eq_ok.mp h
    simp only [Except.ok.injEq, Prod.mk.injEq] at h
    obtain ⟨⟨rfl, rfl⟩, rfl⟩ := h
    exact ⟨fun hnb => Cons.cons _ (cAs _ _ _ _ _ _ _ ha hy.tail hnb), .inl rfl⟩

theorem cs_readMathBody : ∀ k tol ts es rest, readMathBody (f+1) k tol ts = .ok (es, rest) →
    Hyp skip0 ts → noBareL es = true → Cons tol ts (serL es) rest := by
  intro k tol ts es rest h hy hnb
  obtain ⟨cE, cI, cME, cMB, cEnv, cEB, cC, cAs, cAO, cAR, cA, cAB⟩ := ih
  unfold readMathBody at h
  cases ts with
  | nil =>
    simp only [Except.ok.injEq, Prod.mk.injEq] at h
    obtain ⟨rfl, rfl⟩ := h
    exact Cons.refl _
  | cons t r =>
    simp only at h
    by_cases hend : (t.cat == k.tokEnd) = true
    · rw [if_pos hend] at h
      simp only [Except.ok.injEq, Prod.mk.injEq] at h
      obtain ⟨rfl, rfl⟩ := h
      exact Cons.refl _
    · rw [if_neg hend] at h
      obtain ⟨e, ts1, he, h⟩ := Res.bind_eq_ok.mp h
      obtain ⟨es', ts2, hb, h⟩ := Res.bind_eq_ok.mp h
      simp only [Except.ok.injEq, Prod.mk.injEq] at h
      obtain ⟨rfl, rfl⟩ := h
      simp only [noBareL, Bool.and_eq_true] at hnb
      have c1 := cE _ _ _ _ _ _ he hy noSkip hnb.1
      have c2 := cMB _ _ _ _ _ hb (hy.ofCons c1) hnb.2
      simpa [serL] using c1.trans c2

theorem cs_readMathEnv : ∀ k pos tol ts e rest, readMathEnv (f+1) k pos tol ts = .ok (e, rest) →
    Hyp skip0 ts →
    ∃ body, e = .math k body pos ∧ (noBareL body = true → Cons tol ts (serL body ++ k.close) rest) := by
  intro k pos tol ts e rest h hy
  obtain ⟨cE, cI, cME, cMB, cEnv, cEB, cC, cAs, cAO, cAR, cA, cAB⟩ := ih
  unfold readMathEnv at h
  obtain ⟨body, ts1, hb, h⟩ := Res.bind_eq_ok.mp h
  cases ts1 with
  | nil => cases h
  | cons t r =>
    simp only at h
    by_cases hend : (t.cat == k.tokEnd) = true
    · rw [if_pos hend] at h
      simp only [Except.ok.injEq, Prod.mk.injEq] at h
      obtain ⟨rfl, rfl⟩ := h
      refine ⟨body, rfl, fun hnb => ?_⟩
      have c1 := cMB _ _ _ _ _ hb hy hnb
      have hy1 := hy.ofCons c1
      have htx := text_of_mkindEnd (hy1.shaped t (by simp)) hend
      have c2 : Cons tol (t :: r) k.close r := ⟨[t], rfl, by rw [← htx]; exact Del.single t⟩
      exact c1.trans c2
    · rw [if_neg hend] at h; cases h

theorem cs_readItem : ∀ ts es rest, readItem (f+1) ts = .ok (es, rest) → Hyp skip0 ts →
    noBareL es = true → Cons false ts (serL es) rest := by
  intro ts es rest h hy hnb
  obtain ⟨cE, cI, cME, cMB, cEnv, cEB, cC, cAs, cAO, cAR, cA, cAB⟩ := ih
  unfold readItem at h
  have step : ∀ t r, ((readExpr f [] false .nonMath (t :: r)).bind fun e ts1 =>
        (readItem f ts1).bind fun es ts2 => .ok (e :: es, ts2)) = .ok (es, rest) →
      Hyp skip0 (t :: r) → Cons false (t :: r) (serL es) rest := by
    intro t r h hy
    obtain ⟨e, ts1, he, h⟩ := Res.bind_eq_ok.mp h
    obtain ⟨es', ts2, hb, h⟩ := Res.bind_eq_ok.mp h
    simp only [Except.ok.injEq, Prod.mk.injEq] at h
    obtain ⟨rfl, rfl⟩ := h
    simp only [noBareL, Bool.and_eq_true] at hnb
    have c1 := cE _ _ _ _ _ _ he hy noSkip hnb.1
    have c2 := cI _ _ _ hb (hy.ofCons c1) hnb.2
    simpa [serL] using c1.trans c2
  cases ts with
  | nil =>
    simp only [Except.ok.injEq, Prod.mk.injEq] at h
    obtain ⟨rfl, rfl⟩ := h
    exact Cons.refl _
  | cons t r =>
    simp only at h
    by_cases hesc : (t.cat == TC.Escape) = true
    · rw [if_pos hesc] at h
      obtain ⟨na, ts', hc, h⟩ := Res.bind_eq_ok.mp h
      by_cases hend : (na.1.text == sEnd || na.1.text == sItem) = true
      · rw [if_pos hend] at h
        simp only [Except.ok.injEq, Prod.mk.injEq] at h
        obtain ⟨rfl, rfl⟩ := h
        exact Cons.refl _
      · rw [if_neg hend] at h
        exact step t r h hy
    · rw [if_neg hesc] at h
      by_cases hge : (t.cat == TC.GroupEnd) = true
      · rw [if_pos hge] at h
        simp only [Except.ok.injEq, Prod.mk.injEq] at h
        obtain ⟨rfl, rfl⟩ := h
        exact Cons.refl _
      · rw [if_neg hge] at h
        exact step t r h hy

theorem cs_readEnvBody : ∀ skip tol mode ts es ea rest,
    readEnvBody (f+1) skip tol mode ts = .ok ((es, ea), rest) → Hyp skip0 ts →
    (∀ x, memStr x skip = true → memStr x skip0 = true) → noBareL es = true →
    Cons tol ts (serL es) rest ∧
    (∀ eargs, ea = some eargs → ∃ esc n r g rest', rest = esc :: n :: r ∧ esc.cat = .Escape ∧
        n.text = sEnd ∧ readCommand g 1 0 tol mode (n :: r) = .ok ((n, eargs), rest')) := by
  intro skip tol mode ts es ea rest h hy hsk hnb
  obtain ⟨cE, cI, cME, cMB, cEnv, cEB, cC, cAs, cAO, cAR, cA, cAB⟩ := ih
  unfold readEnvBody at h
  have step : ∀ t r, ((readExpr f skip tol mode (t :: r)).bind fun e ts1 =>
        (readEnvBody f skip tol mode ts1).bind fun be ts2 => .ok ((e :: be.1, be.2), ts2))
        = .ok ((es, ea), rest) → Hyp skip0 (t :: r) →
      Cons tol (t :: r) (serL es) rest ∧
      (∀ eargs, ea = some eargs → ∃ esc n r g rest', rest = esc :: n :: r ∧ esc.cat = .Escape ∧
        n.text = sEnd ∧ readCommand g 1 0 tol mode (n :: r) = .ok ((n, eargs), rest')) := by
    intro t r h hy
    obtain ⟨e, ts1, he, h⟩ := Res.bind_eq_ok.mp h
    obtain ⟨⟨bes, bea⟩, ts2, hb, h⟩ := Res.bind_eq_ok.mp h
    simp only [Except.ok.injEq, Prod.mk.injEq] at h
    obtain ⟨⟨rfl, rfl⟩, rfl⟩ := h
    simp only [noBareL, Bool.and_eq_true] at hnb
    have c1 := cE _ _ _ _ _ _ he hy hsk hnb.1
    obtain ⟨c2, hea⟩ := cEB _ _ _ _ _ _ _ hb (hy.ofCons c1) hsk hnb.2
    exact ⟨by simpa [serL] using c1.trans c2, hea⟩
  cases ts with
  | nil =>
    simp only [Except.ok.injEq, Prod.mk.injEq] at h
    obtain ⟨⟨rfl, rfl⟩, rfl⟩ := h
    exact ⟨Cons.refl _, by intro _ h'; cases h'⟩
  | cons t r =>
    simp only at h
    by_cases hesc : (t.cat == TC.Escape) = true
    · rw [if_pos hesc] at h
      obtain ⟨⟨n, eargs⟩, ts', hc, h⟩ := Res.bind_eq_ok.mp h
      by_cases hend : (n.text == sEnd) = true
      · rw [if_pos hend] at h
        simp only [Except.ok.injEq, Prod.mk.injEq] at h
        obtain ⟨⟨rfl, rfl⟩, rfl⟩ := h
        refine ⟨Cons.refl _, ?_⟩
        intro eargs' h'
        simp only [Option.some.injEq] at h'
        subst h'
        have hn : n.text = sEnd := by simpa using hend
        obtain ⟨r', g, rfl, _⟩ := readCommand_end hc hn
        exact ⟨t, n, r', f, ts', rfl, by simpa using hesc, hn, hc⟩
      · rw [if_neg hend] at h
        exact step t r h hy
    · rw [if_neg hesc] at h
      exact step t r h hy

theorem cs_readEnv : ∀ name args pos skip tol mode ts e rest,
    readEnv (f+1) name args pos skip tol mode ts = .ok (e, rest) → Hyp skip0 ts →
    (∀ x, memStr x skip = true → memStr x skip0 = true) →
    ∃ body, e = .nenv name args body pos ∧
      (noBareL body = true → Cons tol ts (serL body ++ endMarker name) rest) := by
  intro name args pos skip tol mode ts e rest h hy hsk
  have ih' := ih
  obtain ⟨cE, cI, cME, cMB, cEnv, cEB, cC, cAs, cAO, cAR, cA, cAB⟩ := ih
  unfold readEnv at h
  obtain ⟨⟨body, ea⟩, ts1, hb, h⟩ := Res.bind_eq_ok.mp h
  by_cases herr : envError name ea = true
  · rw [if_pos herr] at h
    by_cases ht : tol = true
    · rw [if_pos ht] at h
      simp only [Except.ok.injEq, Prod.mk.injEq] at h
      obtain ⟨rfl, rfl⟩ := h
      refine ⟨body, rfl, fun hnb => ?_⟩
      obtain ⟨c1, _⟩ := cEB _ _ _ _ _ _ _ hb hy hsk hnb
      exact c1.closer _ ht (.inr (.inr ⟨name, rfl⟩))
    · rw [if_neg ht] at h; cases h
  · rw [if_neg herr] at h
    cases ts1 with
    | nil => cases h
    | cons t0 r0 =>
      simp only at h
      obtain ⟨na, ts2, ha, h⟩ := Res.bind_eq_ok.mp h
      simp only [Except.ok.injEq, Prod.mk.injEq] at h
      obtain ⟨rfl, rfl⟩ := h
      refine ⟨body, rfl, fun hnb => ?_⟩
      obtain ⟨c1, hea⟩ := cEB _ _ _ _ _ _ _ hb hy hsk hnb
      obtain ⟨a0, as', rfl, hname⟩ := envError_false (by simpa using herr)
      obtain ⟨esc, n, r, g', rest', hrest, hesc, hn, hpeek⟩ := hea _ rfl
      simp only [List.cons.injEq] at hrest
      obtain ⟨rfl, rfl⟩ := hrest
      -- the consumption re-reads what the look-ahead read
      have hdet := readCommand_fuel_det ha hpeek
      simp only [Prod.mk.injEq] at hdet
      obtain ⟨rfl, rfl⟩ := hdet
      have hy1 := hy.ofCons c1
      obtain ⟨r', g'', hr', hargs⟩ := readCommand_end hpeek hn
      simp only [List.cons.injEq, true_and] at hr'
      subst hr'
      obtain ⟨⟨b, p, rfl⟩, _, hnb0⟩ := hy1.envPlain [] t0 n r rfl hesc (.inr hn) _ _ _ _ _ _ _ _ hargs
      have hone := readArgs_one hargs
      have has : as' = [] := by
        cases as' with
        | nil => rfl
        | cons x xs => simp at hone
      subst has
      obtain ⟨cc, _⟩ := cC _ _ _ _ _ _ _ _ ha hy1.tail
      have c3 := Cons.cons t0 (cc hnb0)
      have hesc' : (t0.cat == TC.Escape) = true := by simpa using hesc
      rw [text_of_escape (hy1.shaped t0 (by simp)) hesc', hn] at c3
      have hser : [92] ++ (sEnd ++ serL [Expr.group .brace b p]) = endMarker name := by
        simp only [Expr.string, Expr.body] at hname
        simp [serL, ser, GKind.open, GKind.close, endMarker, strEnd_eq, hname]
      rw [hser] at c3
      exact c1.trans c3

theorem cs_readExpr : ∀ skip tol mode ts e rest, readExpr (f+1) skip tol mode ts = .ok (e, rest) →
    Hyp skip0 ts → (∀ x, memStr x skip = true → memStr x skip0 = true) → noBare e = true →
    Cons tol ts (ser e) rest := by
  intro skip tol mode ts e rest h hy hsk hnb
  obtain ⟨cE, cI, cME, cMB, cEnv, cEB, cC, cAs, cAO, cAR, cA, cAB⟩ := ih
  unfold readExpr at h
  cases ts with
  | nil => cases h
  | cons c ts =>
    simp only at h
    have hsc := hy.shaped c (by simp)
    cases hk : mkindOfBegin c.cat with
    | some k =>
      rw [hk] at h
      simp only at h
      obtain ⟨body, rfl, hc⟩ := cME _ _ _ _ _ _ h hy.tail
      have c1 := Cons.cons c (hc (by simpa [noBare] using hnb))
      rw [text_of_mkindBegin hsc hk] at c1
      simpa [ser] using c1
    | none =>
      rw [hk] at h
      simp only at h
      by_cases hesc : (c.cat == TC.Escape) = true
      · rw [if_pos hesc] at h
        obtain ⟨⟨n, args⟩, ts1, hc, h⟩ := Res.bind_eq_ok.mp h
        obtain ⟨cc, hhead⟩ := cC _ _ _ _ _ _ _ _ hc hy.tail
        have hctx := text_of_escape hsc hesc
        have hstrip : strip n.text = n.text := by
          rcases hhead with hh | ⟨_, hh⟩
          · cases ts with
            | nil => simp at hh
            | cons n' r =>
              simp only [List.head?_cons, Option.some.injEq] at hh
              subst hh
              exact hy.escOK [] c n' r rfl (by simpa using hesc)
          · rw [hh]; decide
        simp only at h
        by_cases hitem : (n.text == sItem) = true
        · rw [if_pos hitem] at h
          by_cases hm : (mode == Mode.math) = true
          · rw [if_pos hm] at h; cases h
          · rw [if_neg hm] at h
            obtain ⟨body, ts2, hi, h⟩ := Res.bind_eq_ok.mp h
            simp only [Except.ok.injEq, Prod.mk.injEq] at h
            obtain ⟨rfl, rfl⟩ := h
            simp only [noBare, Bool.and_eq_true] at hnb
            have c1 := Cons.cons c (cc hnb.1)
            have c2 := (cI _ _ _ hi (hy.ofCons c1) hnb.2).mono (tol := tol)
            have c3 := c1.trans c2
            rw [hctx] at c3
            simpa [ser, hstrip, List.append_assoc] using c3
        · rw [if_neg hitem] at h
          by_cases hb : (n.text == sBegin && mode != Mode.special) = true
          · rw [if_pos hb] at h
            have hn : n.text = sBegin := by
              simp only [Bool.and_eq_true, beq_iff_eq] at hb; exact hb.1
            cases args with
            | nil => cases h
            | cons a0 as =>
              simp only at h
              obtain ⟨r', g, hts, hargs⟩ := readCommand_named hc (.inl hn)
              subst hts
              obtain ⟨⟨b, p, rfl⟩, hst, hnb0⟩ := hy.envPlain [] c n r' rfl (by simpa using hesc) (.inl hn)
                _ _ _ _ _ _ _ _ hargs
              have hname : strip (Expr.group .brace b p).string = serL b := by
                rw [hst]; rfl
              rw [hname] at h
              -- the tokens of `\begin{name}` and the further arguments
              have head : ∀ as', noBareA as' = true → as' = as →
                  Cons tol (c :: n :: r') (strBegin ++ (serL b ++ (125 :: serL as))) ts1 := by
                intro as' hnba has
                subst has
                have hnbA : noBareA (Expr.group .brace b p :: as') = true := by
                  simp only [noBareA, Bool.and_eq_true] at hnb0 ⊢
                  exact ⟨hnb0.1, hnba⟩
                have c1 := Cons.cons c (cc hnbA)
                rw [hctx, hn] at c1
                simpa [serL, ser, GKind.open, GKind.close, strBegin_eq, List.append_assoc] using c1
              by_cases hs : memStr (serL b) skip = true
              · rw [if_pos hs] at h
                obtain ⟨body, bpos, rfl⟩ := readSkipEnv_shape h
                simp only [noBare, Bool.and_eq_true] at hnb
                have c1 := head as hnb.1 rfl
                obtain ⟨body', bpos', hshape, c2⟩ := readSkipEnv_cons (tol := tol) h
                  (hy.ofCons c1) (hsk _ hs)
                simp only [Expr.nenv.injEq, List.cons.injEq, Expr.text.injEq, and_true, true_and] at hshape
                obtain ⟨rfl, rfl⟩ := hshape
                simpa [ser, serL, endMarker, List.append_assoc] using c1.trans c2
              · rw [if_neg hs] at h
                obtain ⟨body, rfl⟩ := readEnv_shape h
                simp only [noBare, Bool.and_eq_true] at hnb
                have c1 := head as hnb.1 rfl
                obtain ⟨body', hshape, c2⟩ := cEnv _ _ _ _ _ _ _ _ _ h (hy.ofCons c1) hsk
                simp only [Expr.nenv.injEq, true_and, and_true] at hshape
                subst hshape
                simpa [ser, endMarker, List.append_assoc] using c1.trans (c2 hnb.2)
          · rw [if_neg hb] at h
            simp only [Except.ok.injEq, Prod.mk.injEq] at h
            obtain ⟨rfl, rfl⟩ := h
            simp only [noBare, Bool.and_eq_true] at hnb
            have c1 := Cons.cons c (cc hnb.1)
            rw [hctx] at c1
            simpa [ser, hstrip, serL] using c1
      · rw [if_neg hesc] at h
        by_cases hg : (c.cat == TC.GroupBegin) = true
        · rw [if_pos hg] at h
          obtain ⟨body, rfl, hc⟩ := cA _ _ _ _ _ _ _ h hy.tail
          have c1 := Cons.cons c (hc (by simpa [noBare] using hnb))
          have hk' : gkindOfBegin c.cat = some .brace := by
            have : c.cat = TC.GroupBegin := by simpa using hg
            rw [this]; rfl
          rw [text_of_gkindBegin hsc hk'] at c1
          simpa [ser] using c1
        · rw [if_neg hg] at h
          simp only [Except.ok.injEq, Prod.mk.injEq] at h
          obtain ⟨rfl, rfl⟩ := h
          exact ⟨[c], rfl, by simpa [ser] using Del.single (tol := tol) c⟩

end

end TexSoup
