import TexSoupProofs.Reader.Progress
import TexSoupProofs.Properties.C19
/-!
# `parseFuel` always suffices: the model never returns `Err.fuel`

Potential: a call of reader `fn` on `n` remaining tokens needs fuel `3 * n + b fn` with

* `b = 1` : `readExpr`, `readArgOpt`, `readArgReq`
* `b = 2` : `readItem`, `readMathBody`, `readEnvBody`, `readArgBody`, `readArgs`
* `b = 3` : `readMathEnv`, `readEnv`, `readArg`, `readCommand`

Every call made by a reader at fuel `f + 1` is at fuel `f`, either on the same token list by a
callee with a smaller `b`, or on a list that is at least one token shorter (by `Progress`).
-/
namespace TexSoup

/-- With fuel at least `3 * (number of tokens) + b`, no reader function runs out of fuel. -/
def FuelEnoughAt (f : Nat) : Prop :=
  (∀ skip tol mode ts, 3 * ts.length + 1 ≤ f → readExpr f skip tol mode ts ≠ .error .fuel) ∧
  (∀ ts, 3 * ts.length + 2 ≤ f → readItem f ts ≠ .error .fuel) ∧
  (∀ k pos tol ts, 3 * ts.length + 3 ≤ f → readMathEnv f k pos tol ts ≠ .error .fuel) ∧
  (∀ k tol ts, 3 * ts.length + 2 ≤ f → readMathBody f k tol ts ≠ .error .fuel) ∧
  (∀ name args pos skip tol mode ts, 3 * ts.length + 3 ≤ f →
      readEnv f name args pos skip tol mode ts ≠ .error .fuel) ∧
  (∀ skip tol mode ts, 3 * ts.length + 2 ≤ f → readEnvBody f skip tol mode ts ≠ .error .fuel) ∧
  (∀ nreq nopt tol mode ts, 3 * ts.length + 3 ≤ f →
      readCommand f nreq nopt tol mode ts ≠ .error .fuel) ∧
  (∀ nreq nopt tol mode ts, 3 * ts.length + 2 ≤ f →
      readArgs f nreq nopt tol mode ts ≠ .error .fuel) ∧
  (∀ n tol mode ts, 3 * ts.length + 1 ≤ f → readArgOpt f n tol mode ts ≠ .error .fuel) ∧
  (∀ n tol mode ts, 3 * ts.length + 1 ≤ f → readArgReq f n tol mode ts ≠ .error .fuel) ∧
  (∀ k pos tol mode ts, 3 * ts.length + 3 ≤ f → readArg f k pos tol mode ts ≠ .error .fuel) ∧
  (∀ k tol mode ts, 3 * ts.length + 2 ≤ f → readArgBody f k tol mode ts ≠ .error .fuel)

theorem fuelEnoughAt_zero : FuelEnoughAt 0 := by
  refine ⟨?_, ?_, ?_, ?_, ?_, ?_, ?_, ?_, ?_, ?_, ?_, ?_⟩ <;> intros <;> omega

/-- arithmetic side conditions: lengths of conses, then linear arithmetic -/
local macro "len" : tactic =>
  `(tactic| first | omega | (simp only [List.length_cons, List.length_nil] at *; omega))

section
variable (f : Nat) (ih : FuelEnoughAt f)
include ih

theorem fe_readExpr : ∀ skip tol mode ts, 3 * ts.length + 1 ≤ f + 1 →
    readExpr (f+1) skip tol mode ts ≠ .error .fuel := by
  intro skip tol mode ts hf h
  obtain ⟨eE, eI, eME, eMB, eEnv, eEB, eC, eAs, eAO, eAR, eA, eAB⟩ := ih
  unfold readExpr at h
  cases ts with
  | nil => cases h
  | cons c ts =>
    simp only at h
    simp only [List.length_cons] at hf
    cases hk : mkindOfBegin c.cat with
    | some k =>
      rw [hk] at h
      simp only at h
      exact eME _ _ _ _ (by omega) h
    | none =>
      rw [hk] at h
      simp only at h
      by_cases hesc : (c.cat == TC.Escape) = true
      · rw [if_pos hesc] at h
        rcases Res.bind_eq_error.mp h with h | ⟨na, ts1, hc, h⟩
        · exact eC _ _ _ _ _ (by omega) h
        · have l1 := (readCommand_suf hc).length_le
          by_cases hitem : (na.1.text == sItem) = true
          · rw [if_pos hitem] at h
            by_cases hm : (mode == Mode.math) = true
            · rw [if_pos hm] at h; cases h
            · rw [if_neg hm] at h
              rcases Res.bind_eq_error.mp h with h | ⟨body, ts2, hi, h⟩
              · exact eI _ (by omega) h
              · cases h
          · rw [if_neg hitem] at h
            by_cases hb : (na.1.text == sBegin && mode != Mode.special) = true
            · rw [if_pos hb] at h
              cases hargs : na.2 with
              | nil => rw [hargs] at h; cases h
              | cons a0 as =>
                rw [hargs] at h
                simp only at h
                by_cases hs : memStr (strip a0.string) skip = true
                · rw [if_pos hs] at h
                  cases readSkipEnv_error h
                · rw [if_neg hs] at h
                  exact eEnv _ _ _ _ _ _ _ (by omega) h
            · rw [if_neg hb] at h; cases h
      · rw [if_neg hesc] at h
        by_cases hg : (c.cat == TC.GroupBegin) = true
        · rw [if_pos hg] at h
          exact eA _ _ _ _ _ (by omega) h
        · rw [if_neg hg] at h; cases h

theorem fe_readItem : ∀ ts, 3 * ts.length + 2 ≤ f + 1 → readItem (f+1) ts ≠ .error .fuel := by
  intro ts hf h
  obtain ⟨eE, eI, eME, eMB, eEnv, eEB, eC, eAs, eAO, eAR, eA, eAB⟩ := ih
  unfold readItem at h
  have step : ∀ t r, 3 * (t :: r).length + 2 ≤ f + 1 →
      ((readExpr f [] false .nonMath (t :: r)).bind fun e ts1 =>
        (readItem f ts1).bind fun es ts2 => .ok (e :: es, ts2)) ≠ .error .fuel := by
    intro t r hf h
    rcases Res.bind_eq_error.mp h with h | ⟨e, ts1, he, h⟩
    · exact eE _ _ _ _ (by omega) h
    · have l1 := readExpr_length_lt he
      rcases Res.bind_eq_error.mp h with h | ⟨es, ts2, hb, h⟩
      · exact eI _ (by omega) h
      · cases h
  cases ts with
  | nil => cases h
  | cons t r =>
    simp only at h
    by_cases hesc : (t.cat == TC.Escape) = true
    · rw [if_pos hesc] at h
      rcases Res.bind_eq_error.mp h with h | ⟨na, ts', hc, h⟩
      · exact eC _ _ _ _ _ (by len) h
      · by_cases hend : (na.1.text == sEnd || na.1.text == sItem) = true
        · rw [if_pos hend] at h; cases h
        · rw [if_neg hend] at h
          exact step t r hf h
    · rw [if_neg hesc] at h
      by_cases hge : (t.cat == TC.GroupEnd) = true
      · rw [if_pos hge] at h; cases h
      · rw [if_neg hge] at h
        exact step t r hf h

theorem fe_readMathEnv : ∀ k pos tol ts, 3 * ts.length + 3 ≤ f + 1 →
    readMathEnv (f+1) k pos tol ts ≠ .error .fuel := by
  intro k pos tol ts hf h
  obtain ⟨eE, eI, eME, eMB, eEnv, eEB, eC, eAs, eAO, eAR, eA, eAB⟩ := ih
  unfold readMathEnv at h
  rcases Res.bind_eq_error.mp h with h | ⟨body, ts1, hb, h⟩
  · exact eMB _ _ _ (by omega) h
  · cases ts1 with
    | nil => cases h
    | cons t r =>
      simp only at h
      by_cases hend : (t.cat == k.tokEnd) = true
      · rw [if_pos hend] at h; cases h
      · rw [if_neg hend] at h; cases h

theorem fe_readMathBody : ∀ k tol ts, 3 * ts.length + 2 ≤ f + 1 →
    readMathBody (f+1) k tol ts ≠ .error .fuel := by
  intro k tol ts hf h
  obtain ⟨eE, eI, eME, eMB, eEnv, eEB, eC, eAs, eAO, eAR, eA, eAB⟩ := ih
  unfold readMathBody at h
  cases ts with
  | nil => cases h
  | cons t r =>
    simp only at h
    by_cases hend : (t.cat == k.tokEnd) = true
    · rw [if_pos hend] at h; cases h
    · rw [if_neg hend] at h
      rcases Res.bind_eq_error.mp h with h | ⟨e, ts1, he, h⟩
      · exact eE _ _ _ _ (by omega) h
      · have l1 := readExpr_length_lt he
        rcases Res.bind_eq_error.mp h with h | ⟨es, ts2, hb, h⟩
        · exact eMB _ _ _ (by omega) h
        · cases h

theorem fe_readEnv : ∀ name args pos skip tol mode ts, 3 * ts.length + 3 ≤ f + 1 →
    readEnv (f+1) name args pos skip tol mode ts ≠ .error .fuel := by
  intro name args pos skip tol mode ts hf h
  obtain ⟨eE, eI, eME, eMB, eEnv, eEB, eC, eAs, eAO, eAR, eA, eAB⟩ := ih
  unfold readEnv at h
  rcases Res.bind_eq_error.mp h with h | ⟨be, ts1, hb, h⟩
  · exact eEB _ _ _ _ (by omega) h
  · have s1 := readEnvBody_suf hb
    by_cases herr : envError name be.2 = true
    · rw [if_pos herr] at h
      by_cases ht : tol = true
      · rw [if_pos ht] at h; cases h
      · rw [if_neg ht] at h; cases h
    · rw [if_neg herr] at h
      cases ts1 with
      | nil => cases h
      | cons t1 r1 =>
        simp only at h
        have l1 := s1.length_le
        simp only [List.length_cons] at l1
        rcases Res.bind_eq_error.mp h with h | ⟨x, ts2, ha, h⟩
        · exact eC _ _ _ _ _ (by omega) h
        · cases h

theorem fe_readEnvBody : ∀ skip tol mode ts, 3 * ts.length + 2 ≤ f + 1 →
    readEnvBody (f+1) skip tol mode ts ≠ .error .fuel := by
  intro skip tol mode ts hf h
  obtain ⟨eE, eI, eME, eMB, eEnv, eEB, eC, eAs, eAO, eAR, eA, eAB⟩ := ih
  unfold readEnvBody at h
  have step : ∀ t r, 3 * (t :: r).length + 2 ≤ f + 1 →
      ((readExpr f skip tol mode (t :: r)).bind fun e ts1 =>
        (readEnvBody f skip tol mode ts1).bind fun be ts2 => .ok ((e :: be.1, be.2), ts2))
        ≠ .error .fuel := by
    intro t r hf h
    rcases Res.bind_eq_error.mp h with h | ⟨e, ts1, he, h⟩
    · exact eE _ _ _ _ (by omega) h
    · have l1 := readExpr_length_lt he
      rcases Res.bind_eq_error.mp h with h | ⟨be, ts2, hb, h⟩
      · exact eEB _ _ _ _ (by omega) h
      · cases h
  cases ts with
  | nil => cases h
  | cons t r =>
    simp only at h
    by_cases hesc : (t.cat == TC.Escape) = true
    · rw [if_pos hesc] at h
      rcases Res.bind_eq_error.mp h with h | ⟨na, ts', hc, h⟩
      · exact eC _ _ _ _ _ (by len) h
      · by_cases hend : (na.1.text == sEnd) = true
        · rw [if_pos hend] at h; cases h
        · rw [if_neg hend] at h
          exact step t r hf h
    · rw [if_neg hesc] at h
      exact step t r hf h

theorem fe_readCommand : ∀ nreq nopt tol mode ts, 3 * ts.length + 3 ≤ f + 1 →
    readCommand (f+1) nreq nopt tol mode ts ≠ .error .fuel := by
  intro nreq nopt tol mode ts hf h
  obtain ⟨eE, eI, eME, eMB, eEnv, eEB, eC, eAs, eAO, eAR, eA, eAB⟩ := ih
  unfold readCommand at h
  cases ts with
  | nil =>
    simp only at h
    rcases Res.bind_eq_error.mp h with h | ⟨args, ts2, ha, h⟩
    · exact eAs _ _ _ _ _ (by len) h
    · cases h
  | cons n r =>
    simp only at h
    rcases Res.bind_eq_error.mp h with h | ⟨args, ts2, ha, h⟩
    · exact eAs _ _ _ _ _ (by len) h
    · cases h

theorem fe_readArgs : ∀ nreq nopt tol mode ts, 3 * ts.length + 2 ≤ f + 1 →
    readArgs (f+1) nreq nopt tol mode ts ≠ .error .fuel := by
  intro nreq nopt tol mode ts hf h
  obtain ⟨eE, eI, eME, eMB, eEnv, eEB, eC, eAs, eAO, eAR, eA, eAB⟩ := ih
  unfold readArgs at h
  by_cases h0 : (nreq == 0 && nopt == 0) = true
  · rw [if_pos h0] at h; cases h
  · rw [if_neg h0] at h
    rcases Res.bind_eq_error.mp h with h | ⟨an1, ts1, h1, h⟩
    · exact eAO _ _ _ _ (by omega) h
    have l1 := (readArgOpt_suf h1).length_le
    rcases Res.bind_eq_error.mp h with h | ⟨an2, ts2, h2, h⟩
    · exact eAR _ _ _ _ (by omega) h
    have l2 := (readArgReq_suf h2).length_le
    rcases Res.bind_eq_error.mp h with h | ⟨an3, ts3, h3, h⟩
    · by_cases hb : nextIs TC.BracketBegin ts2 = true
      · rw [if_pos hb] at h; exact eAO _ _ _ _ (by omega) h
      · rw [if_neg hb] at h; cases h
    have l3 : ts3.length ≤ ts2.length := by
      by_cases hb : nextIs TC.BracketBegin ts2 = true
      · rw [if_pos hb] at h3; exact (readArgOpt_suf h3).length_le
      · rw [if_neg hb] at h3
        simp only [Except.ok.injEq, Prod.mk.injEq] at h3
        obtain ⟨_, rfl⟩ := h3
        exact Nat.le_refl _
    rcases Res.bind_eq_error.mp h with h | ⟨an4, ts4, h4, h⟩
    · by_cases hb : nextIs TC.GroupBegin ts3 = true
      · rw [if_pos hb] at h; exact eAR _ _ _ _ (by omega) h
      · rw [if_neg hb] at h; cases h
    cases h

theorem fe_readArgOpt : ∀ n tol mode ts, 3 * ts.length + 1 ≤ f + 1 →
    readArgOpt (f+1) n tol mode ts ≠ .error .fuel := by
  intro n tol mode ts hf h
  obtain ⟨eE, eI, eME, eMB, eEnv, eEB, eC, eAs, eAO, eAR, eA, eAB⟩ := ih
  unfold readArgOpt at h
  by_cases h0 : (n == 0) = true
  · rw [if_pos h0] at h; cases h
  · rw [if_neg h0] at h
    cases hs : (readSpacer ts).2 with
    | nil => rw [hs] at h; cases h
    | cons o r =>
      rw [hs] at h
      simp only at h
      have l0 := (Suf.afterSpacer hs).length_lt
      by_cases hb : (o.cat == TC.BracketBegin) = true
      · rw [if_pos hb] at h
        rcases Res.bind_eq_error.mp h with h | ⟨g, ts1, hg, h⟩
        · exact eA _ _ _ _ _ (by omega) h
        have l1 := (readArg_suf hg).length_le
        rcases Res.bind_eq_error.mp h with h | ⟨gn, ts2, hn, h⟩
        · exact eAO _ _ _ _ (by omega) h
        cases h
      · rw [if_neg hb] at h; cases h

theorem fe_readArgReq : ∀ n tol mode ts, 3 * ts.length + 1 ≤ f + 1 →
    readArgReq (f+1) n tol mode ts ≠ .error .fuel := by
  intro n tol mode ts hf h
  obtain ⟨eE, eI, eME, eMB, eEnv, eEB, eC, eAs, eAO, eAR, eA, eAB⟩ := ih
  unfold readArgReq at h
  by_cases h0 : (n == 0) = true
  · rw [if_pos h0] at h; cases h
  · rw [if_neg h0] at h
    cases hs : (readSpacer ts).2 with
    | nil => rw [hs] at h; cases h
    | cons o r =>
      rw [hs] at h
      simp only at h
      have l0 := (Suf.afterSpacer hs).length_lt
      by_cases hb : (o.cat == TC.GroupBegin) = true
      · rw [if_pos hb] at h
        rcases Res.bind_eq_error.mp h with h | ⟨g, ts1, hg, h⟩
        · exact eA _ _ _ _ _ (by omega) h
        have l1 := (readArg_suf hg).length_le
        rcases Res.bind_eq_error.mp h with h | ⟨gn, ts2, hn, h⟩
        · exact eAR _ _ _ _ (by omega) h
        cases h
      · rw [if_neg hb] at h
        by_cases hpos : n > 0
        · rw [if_pos hpos] at h
          by_cases hesc : (o.cat == TC.Escape) = true
          · rw [if_pos hesc] at h
            rcases Res.bind_eq_error.mp h with h | ⟨na, ts1, hc, h⟩
            · exact eC _ _ _ _ _ (by omega) h
            have l1 := (readCommand_suf hc).length_le
            rcases Res.bind_eq_error.mp h with h | ⟨gn, ts2, hn, h⟩
            · exact eAR _ _ _ _ (by omega) h
            cases h
          · rw [if_neg hesc] at h
            rcases Res.bind_eq_error.mp h with h | ⟨gn, ts2, hn, h⟩
            · exact eAR _ _ _ _ (by omega) h
            cases h
        · rw [if_neg hpos] at h; cases h

theorem fe_readArg : ∀ k pos tol mode ts, 3 * ts.length + 3 ≤ f + 1 →
    readArg (f+1) k pos tol mode ts ≠ .error .fuel := by
  intro k pos tol mode ts hf h
  obtain ⟨eE, eI, eME, eMB, eEnv, eEB, eC, eAs, eAO, eAR, eA, eAB⟩ := ih
  unfold readArg at h
  rcases Res.bind_eq_error.mp h with h | ⟨body, ts1, hb, h⟩
  · exact eAB _ _ _ _ (by omega) h
  · cases h

theorem fe_readArgBody : ∀ k tol mode ts, 3 * ts.length + 2 ≤ f + 1 →
    readArgBody (f+1) k tol mode ts ≠ .error .fuel := by
  intro k tol mode ts hf h
  obtain ⟨eE, eI, eME, eMB, eEnv, eEB, eC, eAs, eAO, eAR, eA, eAB⟩ := ih
  unfold readArgBody at h
  cases ts with
  | nil =>
    simp only at h
    by_cases ht : tol = true
    · rw [if_pos ht] at h; cases h
    · rw [if_neg ht] at h; cases h
  | cons t r =>
    simp only at h
    by_cases hend : (t.cat == k.tokEnd) = true
    · rw [if_pos hend] at h; cases h
    · rw [if_neg hend] at h
      rcases Res.bind_eq_error.mp h with h | ⟨e, ts1, he, h⟩
      · exact eE _ _ _ _ (by omega) h
      have l1 := readExpr_length_lt he
      rcases Res.bind_eq_error.mp h with h | ⟨es, ts2, hb, h⟩
      · exact eAB _ _ _ _ (by omega) h
      cases h

end

/-- The potential bounds the fuel needed by every reader function. -/
theorem fuelEnoughAt (f : Nat) : FuelEnoughAt f := by
  induction f with
  | zero => exact fuelEnoughAt_zero
  | succ f ih =>
    exact ⟨fe_readExpr f ih, fe_readItem f ih, fe_readMathEnv f ih, fe_readMathBody f ih,
      fe_readEnv f ih, fe_readEnvBody f ih, fe_readCommand f ih, fe_readArgs f ih,
      fe_readArgOpt f ih, fe_readArgReq f ih, fe_readArg f ih, fe_readArgBody f ih⟩

/-- `read_tex` needs fuel `3 * n + 2` on `n` tokens. -/
theorem readTex_fuel_enough : ∀ f skip tol ts, 3 * ts.length + 2 ≤ f →
    readTex f skip tol ts ≠ .error .fuel := by
  intro f
  induction f with
  | zero => intro skip tol ts hf; omega
  | succ f ih =>
    intro skip tol ts hf h
    unfold readTex at h
    cases ts with
    | nil => cases h
    | cons t r =>
      simp only at h
      cases he : readExpr f skip tol .nonMath (t :: r) with
      | error e =>
        rw [he] at h
        simp only [Except.error.injEq] at h
        subst h
        exact (fuelEnoughAt f).1 _ _ _ _ (by omega) he
      | ok v =>
        obtain ⟨e, ts1⟩ := v
        rw [he] at h
        simp only at h
        have l1 := readExpr_length_lt he
        cases hr : readTex f skip tol ts1 with
        | error e' =>
          rw [hr] at h
          simp only [Except.error.injEq] at h
          subst h
          exact ih _ _ _ (by omega) hr
        | ok es' => rw [hr] at h; cases h

/-- `parseFuel` always suffices: `parse` never reports that the model ran out of fuel. -/
theorem parse_no_fuel (tol : Bool) (skip : List Str) (s : Str) :
    parse tol skip s ≠ .error .fuel := by
  intro h
  unfold parse at h
  obtain ⟨ts, ht⟩ := tokenize_total s
  rw [ht] at h
  simp only at h
  exact readTex_fuel_enough _ _ _ _ (by unfold parseFuel; omega) h

end TexSoup
