import TexSoupProofs.Reader.NoInternal
import TexSoupProofs.Reader.Classify
import TexSoupProofs.Reader.Leaves
/-!
# Strict success implies that no brace is left open (counting invariant)

`opens ts` / `closes ts` count the `GroupBegin` / `GroupEnd` tokens of `ts`. If a strict reader
returns `rest` on input `ts`, the consumed prefix has at least as many closers as openers:
`opens ts + closes rest ≤ closes ts + opens rest` (the prefix is never named; both counts are
additive, so this is `opens c ≤ closes c` for `ts = c ++ rest`). `readArgBody .brace`, which is
entered after its opener was consumed, consumes one more closer than openers.

The invariant needs the token after an escape not to be a `{` (it is consumed as a command
name) and verbatim-like environments not to be entered (`readSkipEnv` consumes raw tokens).
Both are token-level conditions collected in `WellNamed`.
-/
namespace TexSoup

/-! ## 1. A token-level condition on what follows an escape -/

/-- Every `Escape` token that is not the last token is followed by `n :: r` with `P n r`. -/
def EscAfter (P : Tok → List Tok → Prop) (ts : List Tok) : Prop :=
  ∀ pre esc n r, ts = pre ++ esc :: n :: r → esc.cat = TC.Escape → P n r

theorem EscAfter.suf {P : Tok → List Tok → Prop} {ts rest : List Tok} (h : EscAfter P ts)
    (hs : Suf ts rest) : EscAfter P rest := by
  obtain ⟨c, rfl⟩ := hs
  intro pre esc n r he
  exact h (c ++ pre) esc n r (by rw [he, List.append_assoc])

theorem EscAfter.tail {P : Tok → List Tok → Prop} {t : Tok} {ts : List Tok}
    (h : EscAfter P (t :: ts)) : EscAfter P ts := h.suf Suf.tail

theorem EscAfter.head {P : Tok → List Tok → Prop} {esc n : Tok} {r : List Tok}
    (h : EscAfter P (esc :: n :: r)) (hc : esc.cat = TC.Escape) : P n r := h [] esc n r rfl hc

theorem EscAfter.mono {P Q : Tok → List Tok → Prop} {ts : List Tok} (hPQ : ∀ n r, P n r → Q n r)
    (h : EscAfter P ts) : EscAfter Q ts :=
  fun pre esc n r he hc => hPQ _ _ (h pre esc n r he hc)

/-- Boolean check of `EscAfter`. -/
def escAfterB (p : Tok → List Tok → Bool) : List Tok → Bool
  | [] => true
  | esc :: r =>
    (match r with
      | n :: r' => !(esc.cat == TC.Escape) || p n r'
      | [] => true) && escAfterB p r

theorem escAfterB_sound (p : Tok → List Tok → Bool) : ∀ ts, escAfterB p ts = true →
    EscAfter (fun n r => p n r = true) ts := by
  intro ts
  induction ts with
  | nil => intro _ pre esc n r he; simp at he
  | cons t ts ih =>
    intro h pre esc n r he hc
    simp only [escAfterB, Bool.and_eq_true] at h
    cases pre with
    | nil =>
      simp only [List.nil_append, List.cons.injEq] at he
      obtain ⟨rfl, rfl⟩ := he
      have h1 := h.1
      simp only [hc, beq_self_eq_true, Bool.not_true, Bool.false_or] at h1
      exact h1
    | cons u pre =>
      simp only [List.cons_append, List.cons.injEq] at he
      exact ih h.2 pre esc n r he.2 hc

/-- After a name token spelling `begin`: an optional spacer, `{`, one leaf token `x` that is
not `}`, and `}` – and `x` does not spell a verbatim-like environment name of `skip`. -/
def beginNamedB (skip : List Str) (n : Tok) (r : List Tok) : Bool :=
  !(n.text == sBegin) ||
  match (readSpacer r).2 with
  | o :: x :: cl :: _ =>
    o.cat == TC.GroupBegin && isLeafTok x && x.cat != TC.GroupEnd && cl.cat == TC.GroupEnd &&
      !(memStr (strip x.text) skip)
  | _ => false

/-- `beginNamedB skip` holds after every escape: no `\begin` without `{name}`, and no
verbatim-like environment of `skip` is ever entered. -/
def BeginNamed (skip : List Str) (ts : List Tok) : Prop :=
  EscAfter (fun n r => beginNamedB skip n r = true) ts

/-- The token after an escape is a name (neither `{` nor another escape), and `\begin` is
followed by `{name}` with a single-token name outside `skip`. -/
def nameOKB (skip : List Str) (n : Tok) (r : List Tok) : Bool :=
  n.cat != TC.GroupBegin && n.cat != TC.Escape && beginNamedB skip n r

/-- `nameOKB skip` holds after every escape. -/
def WellNamed (skip : List Str) (ts : List Tok) : Prop :=
  EscAfter (fun n r => nameOKB skip n r = true) ts

/-- Boolean check of `WellNamed`. -/
def wellNamedB (skip : List Str) (ts : List Tok) : Bool := escAfterB (nameOKB skip) ts

theorem wellNamedB_sound {skip : List Str} {ts : List Tok} (h : wellNamedB skip ts = true) :
    WellNamed skip ts := escAfterB_sound _ _ h

theorem WellNamed.beginNamed {skip : List Str} {ts : List Tok} (hy : WellNamed skip ts) :
    BeginNamed skip ts :=
  EscAfter.mono (fun n r h => by
    simp only [nameOKB, Bool.and_eq_true] at h; exact h.2) hy

theorem BeginNamed.suf {skip : List Str} {ts rest : List Tok} (h : BeginNamed skip ts)
    (hs : Suf ts rest) : BeginNamed skip rest := EscAfter.suf h hs

theorem WellNamed.of_parts {skip : List Str} {ts : List Tok}
    (h1 : EscAfter (fun n _ => n.cat ≠ TC.GroupBegin ∧ n.cat ≠ TC.Escape) ts)
    (h2 : BeginNamed skip ts) : WellNamed skip ts := by
  intro pre esc n r he hc
  have a := h1 pre esc n r he hc
  have b := h2 pre esc n r he hc
  simp only [nameOKB, Bool.and_eq_true, bne_iff_ne, ne_eq]
  exact ⟨⟨a.1, a.2⟩, b⟩

theorem WellNamed.nameCat {skip : List Str} {c n : Tok} {r : List Tok}
    (hy : WellNamed skip (c :: n :: r)) (hc : c.cat = TC.Escape) :
    n.cat ≠ TC.GroupBegin ∧ n.cat ≠ TC.Escape := by
  have h := EscAfter.head hy hc
  simp only [nameOKB, Bool.and_eq_true, bne_iff_ne, ne_eq] at h
  exact ⟨h.1.1, h.1.2⟩

/-- the head condition that `readCommand` needs, for the tokens after an escape -/
theorem WellNamed.headCat {skip : List Str} {c : Tok} {ts : List Tok}
    (hy : WellNamed skip (c :: ts)) (hc : c.cat = TC.Escape) :
    ∀ n r, ts = n :: r → n.cat ≠ TC.GroupBegin ∧ n.cat ≠ TC.Escape := by
  intro n r hts
  subst hts
  exact hy.nameCat hc

/-! ## 2. `\begin{name}` always yields the argument `{name}` -/

/-- `{`-less reading of `x }` after the opener: the group `{x}`. -/
theorem readArg_single_leaf {g : Nat} {pos : Int} {tol : Bool} {mode : Mode} {x cl : Tok}
    {r : List Tok} {a : Expr} {rest : List Tok} (hx : isLeafTok x = true)
    (hxe : x.cat ≠ TC.GroupEnd) (hcl : cl.cat = TC.GroupEnd)
    (h : readArg g .brace pos tol mode (x :: cl :: r) = .ok (a, rest)) :
    a = .group .brace [leafOf x] pos := by
  cases g with
  | zero => simp [readArg] at h
  | succ g1 =>
    unfold readArg at h
    obtain ⟨body, ts1, hb, h⟩ := Res.bind_eq_ok.mp h
    simp only [Except.ok.injEq, Prod.mk.injEq] at h
    obtain ⟨rfl, _⟩ := h
    cases g1 with
    | zero => simp [readArgBody] at hb
    | succ g2 =>
      unfold readArgBody at hb
      simp only at hb
      rw [if_neg (by simpa [GKind.tokEnd] using hxe)] at hb
      obtain ⟨e, ts2, he, hb⟩ := Res.bind_eq_ok.mp hb
      obtain ⟨es, ts3, hes, hb⟩ := Res.bind_eq_ok.mp hb
      simp only [Except.ok.injEq, Prod.mk.injEq] at hb
      obtain ⟨rfl, _⟩ := hb
      cases g2 with
      | zero => simp [readExpr] at he
      | succ g3 =>
        rw [readExpr_leaf _ _ _ _ _ _ hx] at he
        simp only [Except.ok.injEq, Prod.mk.injEq] at he
        obtain ⟨rfl, rfl⟩ := he
        unfold readArgBody at hes
        simp only at hes
        rw [if_pos (by simp [GKind.tokEnd, hcl])] at hes
        simp only [Except.ok.injEq, Prod.mk.injEq] at hes
        obtain ⟨rfl, _⟩ := hes
        rfl

/-- `read_args` with the open signature on `{x}…` returns `{x}` as its first argument. -/
theorem readArgs_begin_first {g : Nat} {tol : Bool} {mode : Mode} {r : List Tok}
    {args : List Expr} {rest : List Tok} {o x cl : Tok} {r' : List Tok}
    (h : readArgs g (-1) (-1) tol mode r = .ok (args, rest))
    (hs : (readSpacer r).2 = o :: x :: cl :: r') (ho : o.cat = TC.GroupBegin)
    (hx : isLeafTok x = true) (hxe : x.cat ≠ TC.GroupEnd) (hcl : cl.cat = TC.GroupEnd) :
    ∃ as, args = .group .brace [leafOf x] o.pos :: as := by
  cases g with
  | zero => simp [readArgs] at h
  | succ g1 =>
    unfold readArgs at h
    rw [if_neg (by decide)] at h
    obtain ⟨⟨gs1, n1⟩, ts1, h1, h⟩ := Res.bind_eq_ok.mp h
    obtain ⟨⟨gs2, n2⟩, ts2, h2, h⟩ := Res.bind_eq_ok.mp h
    obtain ⟨an3, ts3, h3, h⟩ := Res.bind_eq_ok.mp h
    obtain ⟨an4, ts4, h4, h⟩ := Res.bind_eq_ok.mp h
    simp only [Except.ok.injEq, Prod.mk.injEq] at h
    obtain ⟨hargs, _⟩ := h
    rcases readArgOpt_first h1 with ⟨rfl, hts1, _, _⟩ | ⟨o', r3, g', ts', a, gs', hs', hk, _, _⟩
    · subst hts1
      rcases readArgReq_first h2 with ⟨_, _, _, hno⟩ | ⟨o', r3, g', ts', a, gs', hs', hk, ha, rfl⟩
      · exact absurd ho (hno o _ hs)
      · rw [hs] at hs'
        simp only [List.cons.injEq] at hs'
        obtain ⟨rfl, rfl⟩ := hs'
        have := readArg_single_leaf hx hxe hcl ha
        subst this
        exact ⟨_, by rw [← hargs]; rfl⟩
    · rw [hs] at hs'
      simp only [List.cons.injEq] at hs'
      obtain ⟨rfl, _⟩ := hs'
      rw [ho] at hk
      cases hk

theorem memStr_false_of_sub {x : Str} {skip skip0 : List Str}
    (hsk : ∀ y, memStr y skip = true → memStr y skip0 = true) (h : memStr x skip0 = false) :
    memStr x skip = false := by
  cases hm : memStr x skip with
  | false => rfl
  | true => rw [hsk x hm] at h; cases h

/-- Under `BeginNamed`, the command `\begin` has a first argument, and it does not name a
verbatim-like environment. -/
theorem begin_args {skip0 : List Str} {f : Nat} {tol : Bool} {mode : Mode} {c n : Tok}
    {ts : List Tok} {args : List Expr} {ts1 : List Tok}
    (hy : BeginNamed skip0 (c :: ts)) (hesc : c.cat = TC.Escape)
    (hc : readCommand f (-1) (-1) tol mode ts = .ok ((n, args), ts1)) (hn : n.text = sBegin) :
    ∃ a0 as, args = a0 :: as ∧ memStr (strip a0.string) skip0 = false := by
  obtain ⟨r, g, rfl, ha⟩ := readCommand_named hc (.inl hn)
  have h := EscAfter.head hy hesc
  simp only [beginNamedB, Bool.or_eq_true, Bool.not_eq_true',
    beq_eq_false_iff_ne, ne_eq] at h
  rcases h with h2 | h2
  · exact absurd hn h2
  · cases hs : (readSpacer r).2 with
    | nil => rw [hs] at h2; cases h2
    | cons o l1 =>
      cases l1 with
      | nil => rw [hs] at h2; cases h2
      | cons x l2 =>
        cases l2 with
        | nil => rw [hs] at h2; cases h2
        | cons cl r' =>
          rw [hs] at h2
          simp only [Bool.and_eq_true, beq_iff_eq, bne_iff_ne, ne_eq, Bool.not_eq_true'] at h2
          obtain ⟨⟨⟨⟨ho, hx⟩, hxe⟩, hcl⟩, hmem⟩ := h2
          obtain ⟨as, rfl⟩ := readArgs_begin_first ha hs ho hx hxe hcl
          refine ⟨_, as, rfl, ?_⟩
          simpa [Expr.string, Expr.body, leafOf, serL, ser] using hmem

/-! ## 3. Counting braces -/

/-- number of `{` tokens -/
def opens : List Tok → Nat
  | [] => 0
  | t :: r => (if t.cat = TC.GroupBegin then 1 else 0) + opens r

/-- number of `}` tokens -/
def closes : List Tok → Nat
  | [] => 0
  | t :: r => (if t.cat = TC.GroupEnd then 1 else 0) + closes r

theorem opens_cons_eq {t : Tok} (r : List Tok) (h : t.cat = TC.GroupBegin) :
    opens (t :: r) = opens r + 1 := by simp [opens, h]; omega
theorem opens_cons_ne {t : Tok} (r : List Tok) (h : t.cat ≠ TC.GroupBegin) :
    opens (t :: r) = opens r := by simp [opens, h]
theorem closes_cons_eq {t : Tok} (r : List Tok) (h : t.cat = TC.GroupEnd) :
    closes (t :: r) = closes r + 1 := by simp [closes, h]; omega
theorem closes_cons_ne {t : Tok} (r : List Tok) (h : t.cat ≠ TC.GroupEnd) :
    closes (t :: r) = closes r := by simp [closes, h]
theorem closes_cons_le (t : Tok) (r : List Tok) : closes r ≤ closes (t :: r) := by
  simp [closes]

theorem opens_append (a b : List Tok) : opens (a ++ b) = opens a + opens b := by
  induction a with
  | nil => simp [opens]
  | cons t r ih => simp only [List.cons_append, opens, ih]; omega

theorem closes_append (a b : List Tok) : closes (a ++ b) = closes a + closes b := by
  induction a with
  | nil => simp [closes]
  | cons t r ih => simp only [List.cons_append, closes, ih]; omega

theorem readSpacer_opens (ts : List Tok) : opens (readSpacer ts).2 = opens ts := by
  cases ts with
  | nil => rfl
  | cons t r =>
    simp only [readSpacer]
    by_cases hsp : (t.cat == TC.MergedSpacer) = true
    · rw [if_pos hsp]
      have : t.cat = TC.MergedSpacer := by simpa using hsp
      rw [opens_cons_ne r (by rw [this]; decide)]
    · rw [if_neg hsp]

theorem readSpacer_closes (ts : List Tok) : closes (readSpacer ts).2 = closes ts := by
  cases ts with
  | nil => rfl
  | cons t r =>
    simp only [readSpacer]
    by_cases hsp : (t.cat == TC.MergedSpacer) = true
    · rw [if_pos hsp]
      have : t.cat = TC.MergedSpacer := by simpa using hsp
      rw [closes_cons_ne r (by rw [this]; decide)]
    · rw [if_neg hsp]

theorem mkind_ne_groupBegin {c : TC} {k : MKind} (h : mkindOfBegin c = some k) :
    c ≠ TC.GroupBegin := by
  intro hc; rw [hc] at h; cases h

/-- one more closer is owed by a brace group -/
def gw : GKind → Nat
  | .brace => 1
  | .bracket => 0

/-- The counting invariant for every strict reader function at fuel `f`. `skip0` is the skip
list of the top-level call. -/
def BalAt (skip0 : List Str) (f : Nat) : Prop :=
  (∀ skip mode ts e rest, readExpr f skip false mode ts = .ok (e, rest) → WellNamed skip0 ts →
      (∀ x, memStr x skip = true → memStr x skip0 = true) →
      opens ts + closes rest ≤ closes ts + opens rest) ∧
  (∀ ts es rest, readItem f ts = .ok (es, rest) → WellNamed skip0 ts →
      opens ts + closes rest ≤ closes ts + opens rest) ∧
  (∀ k pos ts e rest, readMathEnv f k pos false ts = .ok (e, rest) → WellNamed skip0 ts →
      opens ts + closes rest ≤ closes ts + opens rest) ∧
  (∀ k ts es rest, readMathBody f k false ts = .ok (es, rest) → WellNamed skip0 ts →
      opens ts + closes rest ≤ closes ts + opens rest) ∧
  (∀ name args pos skip mode ts e rest,
      readEnv f name args pos skip false mode ts = .ok (e, rest) → WellNamed skip0 ts →
      (∀ x, memStr x skip = true → memStr x skip0 = true) →
      opens ts + closes rest ≤ closes ts + opens rest) ∧
  (∀ skip mode ts be rest, readEnvBody f skip false mode ts = .ok (be, rest) →
      WellNamed skip0 ts → (∀ x, memStr x skip = true → memStr x skip0 = true) →
      opens ts + closes rest ≤ closes ts + opens rest) ∧
  (∀ nreq nopt mode ts na rest, readCommand f nreq nopt false mode ts = .ok (na, rest) →
      WellNamed skip0 ts → (∀ n r, ts = n :: r → n.cat ≠ TC.GroupBegin ∧ n.cat ≠ TC.Escape) →
      opens ts + closes rest ≤ closes ts + opens rest) ∧
  (∀ nreq nopt mode ts args rest, readArgs f nreq nopt false mode ts = .ok (args, rest) →
      WellNamed skip0 ts → opens ts + closes rest ≤ closes ts + opens rest) ∧
  (∀ n mode ts gn rest, readArgOpt f n false mode ts = .ok (gn, rest) → WellNamed skip0 ts →
      opens ts + closes rest ≤ closes ts + opens rest) ∧
  (∀ n mode ts gn rest, readArgReq f n false mode ts = .ok (gn, rest) → WellNamed skip0 ts →
      opens ts + closes rest ≤ closes ts + opens rest) ∧
  (∀ k pos mode ts e rest, readArg f k pos false mode ts = .ok (e, rest) → WellNamed skip0 ts →
      opens ts + closes rest + gw k ≤ closes ts + opens rest) ∧
  (∀ k mode ts es rest, readArgBody f k false mode ts = .ok (es, rest) → WellNamed skip0 ts →
      opens ts + closes rest + gw k ≤ closes ts + opens rest)

theorem balAt_zero (skip0 : List Str) : BalAt skip0 0 := by
  refine ⟨?_, ?_, ?_, ?_, ?_, ?_, ?_, ?_, ?_, ?_, ?_, ?_⟩ <;> intros <;>
    simp_all [readExpr, readItem, readMathEnv, readMathBody, readEnv, readEnvBody, readCommand,
      readArgs, readArgOpt, readArgReq, readArg, readArgBody]

section
variable (skip0 : List Str) (f : Nat) (ih : BalAt skip0 f)
include ih

theorem bl_readExpr : ∀ skip mode ts e rest, readExpr (f+1) skip false mode ts = .ok (e, rest) →
    WellNamed skip0 ts → (∀ x, memStr x skip = true → memStr x skip0 = true) →
    opens ts + closes rest ≤ closes ts + opens rest := by
  intro skip mode ts e rest h hy hsk
  obtain ⟨bE, bI, bME, bMB, bEnv, bEB, bC, bAs, bAO, bAR, bA, bAB⟩ := ih
  unfold readExpr at h
  cases ts with
  | nil => cases h
  | cons c ts =>
    simp only at h
    have hcl := closes_cons_le c ts
    cases hk : mkindOfBegin c.cat with
    | some k =>
      rw [hk] at h
      simp only at h
      have i1 := bME _ _ _ _ _ h hy.tail
      rw [opens_cons_ne ts (mkind_ne_groupBegin hk)]
      omega
    | none =>
      rw [hk] at h
      simp only at h
      by_cases hesc : (c.cat == TC.Escape) = true
      · rw [if_pos hesc] at h
        have hcE : c.cat = TC.Escape := by simpa using hesc
        rw [opens_cons_ne ts (by rw [hcE]; decide)]
        obtain ⟨⟨n, args⟩, ts1, hc, h⟩ := Res.bind_eq_ok.mp h
        have i1 := bC _ _ _ _ _ _ hc hy.tail (hy.headCat hcE)
        have y1 := hy.tail.suf (readCommand_suf hc)
        simp only at h
        by_cases hitem : (n.text == sItem) = true
        · rw [if_pos hitem] at h
          by_cases hm : (mode == Mode.math) = true
          · rw [if_pos hm] at h; cases h
          · rw [if_neg hm] at h
            obtain ⟨body, ts2, hi, h⟩ := Res.bind_eq_ok.mp h
            simp only [Except.ok.injEq, Prod.mk.injEq] at h
            obtain ⟨_, rfl⟩ := h
            have i2 := bI _ _ _ hi y1
            omega
        · rw [if_neg hitem] at h
          by_cases hb : (n.text == sBegin && mode != Mode.special) = true
          · rw [if_pos hb] at h
            have hn : n.text = sBegin := by
              simp only [Bool.and_eq_true, beq_iff_eq] at hb; exact hb.1
            obtain ⟨a0, as, rfl, hmem⟩ := begin_args hy.beginNamed hcE hc hn
            simp only at h
            rw [if_neg (by rw [memStr_false_of_sub hsk hmem]; decide)] at h
            have i2 := bEnv _ _ _ _ _ _ _ _ h y1 hsk
            omega
          · rw [if_neg hb] at h
            simp only [Except.ok.injEq, Prod.mk.injEq] at h
            obtain ⟨_, rfl⟩ := h
            omega
      · rw [if_neg hesc] at h
        by_cases hg : (c.cat == TC.GroupBegin) = true
        · rw [if_pos hg] at h
          have hcG : c.cat = TC.GroupBegin := by simpa using hg
          have i1 := bA _ _ _ _ _ _ h hy.tail
          simp only [gw] at i1
          rw [opens_cons_eq ts hcG, closes_cons_ne ts (by rw [hcG]; decide)]
          omega
        · rw [if_neg hg] at h
          simp only [Except.ok.injEq, Prod.mk.injEq] at h
          obtain ⟨_, rfl⟩ := h
          rw [opens_cons_ne _ (by simpa using hg)]
          omega

theorem bl_readItem : ∀ ts es rest, readItem (f+1) ts = .ok (es, rest) → WellNamed skip0 ts →
    opens ts + closes rest ≤ closes ts + opens rest := by
  intro ts es rest h hy
  obtain ⟨bE, bI, bME, bMB, bEnv, bEB, bC, bAs, bAO, bAR, bA, bAB⟩ := ih
  unfold readItem at h
  have step : ∀ t r, WellNamed skip0 (t :: r) →
      ((readExpr f [] false .nonMath (t :: r)).bind fun e ts1 =>
        (readItem f ts1).bind fun es ts2 => .ok (e :: es, ts2)) = .ok (es, rest) →
      opens (t :: r) + closes rest ≤ closes (t :: r) + opens rest := by
    intro t r hy h
    obtain ⟨e, ts1, he, h⟩ := Res.bind_eq_ok.mp h
    obtain ⟨es', ts2, hb, h⟩ := Res.bind_eq_ok.mp h
    simp only [Except.ok.injEq, Prod.mk.injEq] at h
    obtain ⟨_, rfl⟩ := h
    have i1 := bE _ _ _ _ _ he hy noSkip
    have i2 := bI _ _ _ hb (hy.suf (readExpr_ssuf he).suf)
    omega
  cases ts with
  | nil =>
    simp only [Except.ok.injEq, Prod.mk.injEq] at h
    obtain ⟨_, rfl⟩ := h
    omega
  | cons t r =>
    simp only at h
    by_cases hesc : (t.cat == TC.Escape) = true
    · rw [if_pos hesc] at h
      obtain ⟨na, ts', hc, h⟩ := Res.bind_eq_ok.mp h
      by_cases hend : (na.1.text == sEnd || na.1.text == sItem) = true
      · rw [if_pos hend] at h
        simp only [Except.ok.injEq, Prod.mk.injEq] at h
        obtain ⟨_, rfl⟩ := h
        omega
      · rw [if_neg hend] at h
        exact step t r hy h
    · rw [if_neg hesc] at h
      by_cases hge : (t.cat == TC.GroupEnd) = true
      · rw [if_pos hge] at h
        simp only [Except.ok.injEq, Prod.mk.injEq] at h
        obtain ⟨_, rfl⟩ := h
        omega
      · rw [if_neg hge] at h
        exact step t r hy h

theorem bl_readMathEnv : ∀ k pos ts e rest, readMathEnv (f+1) k pos false ts = .ok (e, rest) →
    WellNamed skip0 ts → opens ts + closes rest ≤ closes ts + opens rest := by
  intro k pos ts e rest h hy
  obtain ⟨bE, bI, bME, bMB, bEnv, bEB, bC, bAs, bAO, bAR, bA, bAB⟩ := ih
  unfold readMathEnv at h
  obtain ⟨body, ts1, hb, h⟩ := Res.bind_eq_ok.mp h
  have i1 := bMB _ _ _ _ hb hy
  cases ts1 with
  | nil => cases h
  | cons t r =>
    simp only at h
    by_cases hend : (t.cat == k.tokEnd) = true
    · rw [if_pos hend] at h
      simp only [Except.ok.injEq, Prod.mk.injEq] at h
      obtain ⟨_, hr⟩ := h
      subst hr
      have hne : t.cat ≠ TC.GroupBegin := by
        have : t.cat = k.tokEnd := by simpa using hend
        rw [this]; cases k <;> decide
      rw [opens_cons_ne _ hne] at i1
      have := closes_cons_le t r
      omega
    · rw [if_neg hend] at h; cases h

theorem bl_readMathBody : ∀ k ts es rest, readMathBody (f+1) k false ts = .ok (es, rest) →
    WellNamed skip0 ts → opens ts + closes rest ≤ closes ts + opens rest := by
  intro k ts es rest h hy
  obtain ⟨bE, bI, bME, bMB, bEnv, bEB, bC, bAs, bAO, bAR, bA, bAB⟩ := ih
  unfold readMathBody at h
  cases ts with
  | nil =>
    simp only [Except.ok.injEq, Prod.mk.injEq] at h
    obtain ⟨_, rfl⟩ := h
    omega
  | cons t r =>
    simp only at h
    by_cases hend : (t.cat == k.tokEnd) = true
    · rw [if_pos hend] at h
      simp only [Except.ok.injEq, Prod.mk.injEq] at h
      obtain ⟨_, rfl⟩ := h
      omega
    · rw [if_neg hend] at h
      obtain ⟨e, ts1, he, h⟩ := Res.bind_eq_ok.mp h
      obtain ⟨es', ts2, hb, h⟩ := Res.bind_eq_ok.mp h
      simp only [Except.ok.injEq, Prod.mk.injEq] at h
      obtain ⟨_, rfl⟩ := h
      have i1 := bE _ _ _ _ _ he hy noSkip
      have i2 := bMB _ _ _ _ hb (hy.suf (readExpr_ssuf he).suf)
      omega

theorem bl_readEnv : ∀ name args pos skip mode ts e rest,
    readEnv (f+1) name args pos skip false mode ts = .ok (e, rest) → WellNamed skip0 ts →
    (∀ x, memStr x skip = true → memStr x skip0 = true) →
    opens ts + closes rest ≤ closes ts + opens rest := by
  intro name args pos skip mode ts e rest h hy hsk
  obtain ⟨bE, bI, bME, bMB, bEnv, bEB, bC, bAs, bAO, bAR, bA, bAB⟩ := ih
  unfold readEnv at h
  obtain ⟨⟨body, ea⟩, ts1, hb, h⟩ := Res.bind_eq_ok.mp h
  have i1 := bEB _ _ _ _ _ hb hy hsk
  have y1 : WellNamed skip0 ts1 := hy.suf (readEnvBody_suf hb)
  simp only at h
  by_cases herr : envError name ea = true
  · rw [if_pos herr, if_neg Bool.false_ne_true] at h; cases h
  · rw [if_neg herr] at h
    obtain ⟨a0, as', rfl, _⟩ := envError_false (by simpa using herr)
    obtain ⟨esc, n, r, g, rest', rfl, hesc, _, _⟩ := readEnvBody_some _ _ _ _ _ _ _ _ hb
    simp only at h
    obtain ⟨x, ts2, hc, h⟩ := Res.bind_eq_ok.mp h
    simp only [Except.ok.injEq, Prod.mk.injEq] at h
    obtain ⟨_, rfl⟩ := h
    have i2 := bC _ _ _ _ _ _ hc y1.tail (y1.headCat hesc)
    rw [opens_cons_ne _ (by rw [hesc]; decide), closes_cons_ne _ (by rw [hesc]; decide)] at i1
    omega

theorem bl_readEnvBody : ∀ skip mode ts be rest,
    readEnvBody (f+1) skip false mode ts = .ok (be, rest) → WellNamed skip0 ts →
    (∀ x, memStr x skip = true → memStr x skip0 = true) →
    opens ts + closes rest ≤ closes ts + opens rest := by
  intro skip mode ts be rest h hy hsk
  obtain ⟨bE, bI, bME, bMB, bEnv, bEB, bC, bAs, bAO, bAR, bA, bAB⟩ := ih
  unfold readEnvBody at h
  have step : ∀ t r, WellNamed skip0 (t :: r) →
      ((readExpr f skip false mode (t :: r)).bind fun e ts1 =>
        (readEnvBody f skip false mode ts1).bind fun be ts2 => .ok ((e :: be.1, be.2), ts2))
        = .ok (be, rest) →
      opens (t :: r) + closes rest ≤ closes (t :: r) + opens rest := by
    intro t r hy h
    obtain ⟨e, ts1, he, h⟩ := Res.bind_eq_ok.mp h
    obtain ⟨be', ts2, hb, h⟩ := Res.bind_eq_ok.mp h
    simp only [Except.ok.injEq, Prod.mk.injEq] at h
    obtain ⟨_, rfl⟩ := h
    have i1 := bE _ _ _ _ _ he hy hsk
    have i2 := bEB _ _ _ _ _ hb (hy.suf (readExpr_ssuf he).suf) hsk
    omega
  cases ts with
  | nil =>
    simp only [Except.ok.injEq, Prod.mk.injEq] at h
    obtain ⟨_, rfl⟩ := h
    omega
  | cons t r =>
    simp only at h
    by_cases hesc : (t.cat == TC.Escape) = true
    · rw [if_pos hesc] at h
      obtain ⟨na, ts', hc, h⟩ := Res.bind_eq_ok.mp h
      by_cases hend : (na.1.text == sEnd) = true
      · rw [if_pos hend] at h
        simp only [Except.ok.injEq, Prod.mk.injEq] at h
        obtain ⟨_, rfl⟩ := h
        omega
      · rw [if_neg hend] at h
        exact step t r hy h
    · rw [if_neg hesc] at h
      exact step t r hy h

theorem bl_readCommand : ∀ nreq nopt mode ts na rest,
    readCommand (f+1) nreq nopt false mode ts = .ok (na, rest) → WellNamed skip0 ts →
    (∀ n r, ts = n :: r → n.cat ≠ TC.GroupBegin ∧ n.cat ≠ TC.Escape) →
    opens ts + closes rest ≤ closes ts + opens rest := by
  intro nreq nopt mode ts na rest h hy hhead
  obtain ⟨bE, bI, bME, bMB, bEnv, bEB, bC, bAs, bAO, bAR, bA, bAB⟩ := ih
  unfold readCommand at h
  cases ts with
  | nil =>
    simp only at h
    obtain ⟨args', ts2, ha, h⟩ := Res.bind_eq_ok.mp h
    simp only [Except.ok.injEq, Prod.mk.injEq] at h
    obtain ⟨_, rfl⟩ := h
    exact bAs _ _ _ _ _ _ ha hy
  | cons n r =>
    simp only at h
    obtain ⟨args', ts2, ha, h⟩ := Res.bind_eq_ok.mp h
    simp only [Except.ok.injEq, Prod.mk.injEq] at h
    obtain ⟨_, rfl⟩ := h
    have i1 := bAs _ _ _ _ _ _ ha hy.tail
    rw [opens_cons_ne _ (hhead n r rfl).1]
    have := closes_cons_le n r
    omega

theorem bl_readArgs : ∀ nreq nopt mode ts args rest,
    readArgs (f+1) nreq nopt false mode ts = .ok (args, rest) → WellNamed skip0 ts →
    opens ts + closes rest ≤ closes ts + opens rest := by
  intro nreq nopt mode ts args rest h hy
  obtain ⟨bE, bI, bME, bMB, bEnv, bEB, bC, bAs, bAO, bAR, bA, bAB⟩ := ih
  unfold readArgs at h
  by_cases h0 : (nreq == 0 && nopt == 0) = true
  · rw [if_pos h0] at h
    simp only [Except.ok.injEq, Prod.mk.injEq] at h
    obtain ⟨_, rfl⟩ := h
    omega
  · rw [if_neg h0] at h
    obtain ⟨an1, ts1, h1, h⟩ := Res.bind_eq_ok.mp h
    obtain ⟨an2, ts2, h2, h⟩ := Res.bind_eq_ok.mp h
    obtain ⟨an3, ts3, h3, h⟩ := Res.bind_eq_ok.mp h
    obtain ⟨an4, ts4, h4, h⟩ := Res.bind_eq_ok.mp h
    simp only [Except.ok.injEq, Prod.mk.injEq] at h
    obtain ⟨_, rfl⟩ := h
    have i1 := bAO _ _ _ _ _ h1 hy
    have y1 := hy.suf (readArgOpt_suf h1)
    have i2 := bAR _ _ _ _ _ h2 y1
    have y2 := y1.suf (readArgReq_suf h2)
    have i3 : opens ts2 + closes ts3 ≤ closes ts2 + opens ts3 ∧ WellNamed skip0 ts3 := by
      by_cases hb : nextIs TC.BracketBegin ts2 = true
      · rw [if_pos hb] at h3
        exact ⟨bAO _ _ _ _ _ h3 y2, y2.suf (readArgOpt_suf h3)⟩
      · rw [if_neg hb] at h3
        simp only [Except.ok.injEq, Prod.mk.injEq] at h3
        obtain ⟨_, rfl⟩ := h3
        exact ⟨by omega, y2⟩
    have i4 : opens ts3 + closes ts4 ≤ closes ts3 + opens ts4 := by
      by_cases hb : nextIs TC.GroupBegin ts3 = true
      · rw [if_pos hb] at h4; exact bAR _ _ _ _ _ h4 i3.2
      · rw [if_neg hb] at h4
        simp only [Except.ok.injEq, Prod.mk.injEq] at h4
        obtain ⟨_, rfl⟩ := h4
        omega
    omega

theorem bl_readArgOpt : ∀ n mode ts gn rest, readArgOpt (f+1) n false mode ts = .ok (gn, rest) →
    WellNamed skip0 ts → opens ts + closes rest ≤ closes ts + opens rest := by
  intro n mode ts gn rest h hy
  obtain ⟨bE, bI, bME, bMB, bEnv, bEB, bC, bAs, bAO, bAR, bA, bAB⟩ := ih
  unfold readArgOpt at h
  by_cases h0 : (n == 0) = true
  · rw [if_pos h0] at h
    simp only [Except.ok.injEq, Prod.mk.injEq] at h
    obtain ⟨_, rfl⟩ := h
    omega
  · rw [if_neg h0] at h
    cases hs : (readSpacer ts).2 with
    | nil =>
      rw [hs] at h
      simp only [Except.ok.injEq, Prod.mk.injEq] at h
      obtain ⟨_, rfl⟩ := h
      omega
    | cons o r =>
      rw [hs] at h
      simp only at h
      have so := readSpacer_opens ts
      have sc := readSpacer_closes ts
      rw [hs] at so sc
      have y0 := hy.suf (Suf.afterSpacer hs).suf
      by_cases hb : (o.cat == TC.BracketBegin) = true
      · rw [if_pos hb] at h
        have hoB : o.cat = TC.BracketBegin := by simpa using hb
        obtain ⟨g, ts1, hg, h⟩ := Res.bind_eq_ok.mp h
        obtain ⟨gn', ts2, hn, h⟩ := Res.bind_eq_ok.mp h
        simp only [Except.ok.injEq, Prod.mk.injEq] at h
        obtain ⟨_, rfl⟩ := h
        have i1 := bA _ _ _ _ _ _ hg y0
        simp only [gw] at i1
        have i2 := bAO _ _ _ _ _ hn (y0.suf (readArg_suf hg))
        rw [opens_cons_ne _ (by rw [hoB]; decide)] at so
        rw [closes_cons_ne _ (by rw [hoB]; decide)] at sc
        omega
      · rw [if_neg hb] at h
        simp only [Except.ok.injEq, Prod.mk.injEq] at h
        obtain ⟨_, rfl⟩ := h
        omega

theorem bl_readArgReq : ∀ n mode ts gn rest, readArgReq (f+1) n false mode ts = .ok (gn, rest) →
    WellNamed skip0 ts → opens ts + closes rest ≤ closes ts + opens rest := by
  intro n mode ts gn rest h hy
  obtain ⟨bE, bI, bME, bMB, bEnv, bEB, bC, bAs, bAO, bAR, bA, bAB⟩ := ih
  unfold readArgReq at h
  by_cases h0 : (n == 0) = true
  · rw [if_pos h0] at h
    simp only [Except.ok.injEq, Prod.mk.injEq] at h
    obtain ⟨_, rfl⟩ := h
    omega
  · rw [if_neg h0] at h
    cases hs : (readSpacer ts).2 with
    | nil =>
      rw [hs] at h
      simp only [Except.ok.injEq, Prod.mk.injEq] at h
      obtain ⟨_, rfl⟩ := h
      omega
    | cons o r =>
      rw [hs] at h
      simp only at h
      have so := readSpacer_opens ts
      have sc := readSpacer_closes ts
      rw [hs] at so sc
      have yo : WellNamed skip0 (o :: r) := by
        have := hy.suf (readSpacer_suf ts); rw [hs] at this; exact this
      have y0 := yo.tail
      have hcl := closes_cons_le o r
      by_cases hb : (o.cat == TC.GroupBegin) = true
      · rw [if_pos hb] at h
        have hoG : o.cat = TC.GroupBegin := by simpa using hb
        obtain ⟨g, ts1, hg, h⟩ := Res.bind_eq_ok.mp h
        obtain ⟨gn', ts2, hn, h⟩ := Res.bind_eq_ok.mp h
        simp only [Except.ok.injEq, Prod.mk.injEq] at h
        obtain ⟨_, rfl⟩ := h
        have i1 := bA _ _ _ _ _ _ hg y0
        simp only [gw] at i1
        have i2 := bAR _ _ _ _ _ hn (y0.suf (readArg_suf hg))
        rw [opens_cons_eq _ hoG] at so
        rw [closes_cons_ne _ (by rw [hoG]; decide)] at sc
        omega
      · rw [if_neg hb] at h
        rw [opens_cons_ne _ (by simpa using hb)] at so
        by_cases hpos : n > 0
        · rw [if_pos hpos] at h
          by_cases hesc : (o.cat == TC.Escape) = true
          · rw [if_pos hesc] at h
            have hoE : o.cat = TC.Escape := by simpa using hesc
            obtain ⟨na, ts1, hc, h⟩ := Res.bind_eq_ok.mp h
            obtain ⟨gn', ts2, hn, h⟩ := Res.bind_eq_ok.mp h
            simp only [Except.ok.injEq, Prod.mk.injEq] at h
            obtain ⟨_, rfl⟩ := h
            have i1 := bC _ _ _ _ _ _ hc y0 (yo.headCat hoE)
            have i2 := bAR _ _ _ _ _ hn (y0.suf (readCommand_suf hc))
            omega
          · rw [if_neg hesc] at h
            obtain ⟨gn', ts2, hn, h⟩ := Res.bind_eq_ok.mp h
            simp only [Except.ok.injEq, Prod.mk.injEq] at h
            obtain ⟨_, rfl⟩ := h
            have i2 := bAR _ _ _ _ _ hn y0
            omega
        · rw [if_neg hpos] at h
          simp only [Except.ok.injEq, Prod.mk.injEq] at h
          obtain ⟨_, rfl⟩ := h
          omega

theorem bl_readArg : ∀ k pos mode ts e rest, readArg (f+1) k pos false mode ts = .ok (e, rest) →
    WellNamed skip0 ts → opens ts + closes rest + gw k ≤ closes ts + opens rest := by
  intro k pos mode ts e rest h hy
  obtain ⟨bE, bI, bME, bMB, bEnv, bEB, bC, bAs, bAO, bAR, bA, bAB⟩ := ih
  unfold readArg at h
  obtain ⟨body, ts1, hb, h⟩ := Res.bind_eq_ok.mp h
  simp only [Except.ok.injEq, Prod.mk.injEq] at h
  obtain ⟨_, rfl⟩ := h
  exact bAB _ _ _ _ _ hb hy

theorem bl_readArgBody : ∀ k mode ts es rest, readArgBody (f+1) k false mode ts = .ok (es, rest) →
    WellNamed skip0 ts → opens ts + closes rest + gw k ≤ closes ts + opens rest := by
  intro k mode ts es rest h hy
  obtain ⟨bE, bI, bME, bMB, bEnv, bEB, bC, bAs, bAO, bAR, bA, bAB⟩ := ih
  unfold readArgBody at h
  cases ts with
  | nil =>
    simp only at h
    rw [if_neg Bool.false_ne_true] at h; cases h
  | cons t r =>
    simp only at h
    by_cases hend : (t.cat == k.tokEnd) = true
    · rw [if_pos hend] at h
      simp only [Except.ok.injEq, Prod.mk.injEq] at h
      obtain ⟨_, rfl⟩ := h
      have hte : t.cat = k.tokEnd := by simpa using hend
      cases k with
      | brace =>
        simp only [GKind.tokEnd] at hte
        rw [opens_cons_ne _ (by rw [hte]; decide), closes_cons_eq _ hte]
        simp only [gw]; omega
      | bracket =>
        simp only [GKind.tokEnd] at hte
        rw [opens_cons_ne _ (by rw [hte]; decide), closes_cons_ne _ (by rw [hte]; decide)]
        simp only [gw]; omega
    · rw [if_neg hend] at h
      obtain ⟨e, ts1, he, h⟩ := Res.bind_eq_ok.mp h
      obtain ⟨es', ts2, hb, h⟩ := Res.bind_eq_ok.mp h
      simp only [Except.ok.injEq, Prod.mk.injEq] at h
      obtain ⟨_, rfl⟩ := h
      have i1 := bE _ _ _ _ _ he hy noSkip
      have i2 := bAB _ _ _ _ _ hb (hy.suf (readExpr_ssuf he).suf)
      omega

end

/-- The counting invariant holds at every fuel. -/
theorem balAt (skip0 : List Str) (f : Nat) : BalAt skip0 f := by
  induction f with
  | zero => exact balAt_zero skip0
  | succ f ih =>
    exact ⟨bl_readExpr skip0 f ih, bl_readItem skip0 f ih, bl_readMathEnv skip0 f ih,
      bl_readMathBody skip0 f ih, bl_readEnv skip0 f ih, bl_readEnvBody skip0 f ih,
      bl_readCommand skip0 f ih, bl_readArgs skip0 f ih, bl_readArgOpt skip0 f ih,
      bl_readArgReq skip0 f ih, bl_readArg skip0 f ih, bl_readArgBody skip0 f ih⟩

/-- Strict `read_tex` succeeds only if the buffer has at least as many `}` as `{`. -/
theorem readTex_balanced (skip0 : List Str) : ∀ f ts es, readTex f skip0 false ts = .ok es →
    WellNamed skip0 ts → opens ts ≤ closes ts := by
  intro f
  induction f with
  | zero => intro ts es h; simp [readTex] at h
  | succ f ih =>
    intro ts es h hy
    unfold readTex at h
    cases ts with
    | nil => simp [opens, closes]
    | cons t r =>
      simp only at h
      cases he : readExpr f skip0 false .nonMath (t :: r) with
      | error e => rw [he] at h; cases h
      | ok v =>
        obtain ⟨e, ts1⟩ := v
        rw [he] at h
        simp only at h
        cases hr : readTex f skip0 false ts1 with
        | error e' => rw [hr] at h; cases h
        | ok es' =>
          have i1 := (balAt skip0 f).1 _ _ _ _ _ he hy (fun _ hx => hx)
          have i2 := ih _ _ hr (hy.suf (readExpr_ssuf he).suf)
          omega

/-- Strict `parse` succeeds only if the token list has at least as many `}` as `{`. -/
theorem parse_balanced (skip : List Str) (s : Str) (ts : List Tok) (es : List Expr)
    (ht : tokenize s = some ts) (hy : WellNamed (Tables.skipEnvNames ++ skip) ts)
    (h : parse false skip s = .ok es) : opens ts ≤ closes ts := by
  unfold parse at h
  rw [ht] at h
  exact readTex_balanced _ _ _ _ h hy

/-! ## 4. Evaluation helpers (results of `parse` have no decidable equality) -/

/-- the result is the given error -/
def isErrB {α : Type} (e : Err) : Except Err α → Bool
  | .error e' => e' == e
  | .ok _ => false

/-- the result is a success -/
def isOkB {α : Type} : Except Err α → Bool
  | .error _ => false
  | .ok _ => true

theorem isErrB_sound {α : Type} {e : Err} {x : Except Err α} (h : isErrB e x = true) :
    x = .error e := by
  cases x with
  | error e' => simp only [isErrB, beq_iff_eq] at h; rw [h]
  | ok v => cases h

theorem isOkB_sound {α : Type} {x : Except Err α} (h : isOkB x = true) : ∃ v, x = .ok v := by
  cases x with
  | error e' => cases h
  | ok v => exact ⟨v, rfl⟩

end TexSoup
