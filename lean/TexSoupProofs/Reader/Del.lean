import TexSoupProofs.Reader.Basic
/-!
# Core A, part 1: the conservation relation `Del` and the hypotheses of the invariant
-/
namespace TexSoup

/-- `{` or `[`. -/
def isOpener (t : Tok) : Bool := t.cat == .GroupBegin || t.cat == .BracketBegin

/-- Text that tolerant parsing may invent: `}`, `]`, `\end{name}`. -/
def IsCloser (s : Str) : Prop := s = [125] ∨ s = [93] ∨ ∃ name, s = endMarker name

/-- `Del tol ts out`: `out` is the concatenated text of `ts`, except that `MergedSpacer`
tokens standing directly before an opening brace/bracket may be missing and – only when
`tol = true` – closing delimiters may have been inserted. -/
inductive Del (tol : Bool) : List Tok → Str → Prop
  | nil : Del tol [] []
  | keep (t : Tok) {ts : List Tok} {out : Str} : Del tol ts out → Del tol (t :: ts) (t.text ++ out)
  | drop (t o : Tok) {ts : List Tok} {out : Str} : t.cat = .MergedSpacer → isOpener o = true →
      Del tol (o :: ts) out → Del tol (t :: o :: ts) out
  | ins (s : Str) {ts : List Tok} {out : Str} : tol = true → IsCloser s → Del tol ts out →
      Del tol ts (s ++ out)

theorem Del.append {tol : Bool} {a b : List Tok} {x y : Str} (h1 : Del tol a x) (h2 : Del tol b y) :
    Del tol (a ++ b) (x ++ y) := by
  induction h1 with
  | nil => simpa using h2
  | keep t _ ih => simpa [List.append_assoc] using Del.keep t ih
  | drop t o hs ho _ ih => exact Del.drop t o hs ho (by simpa using ih)
  | ins s ht hc _ ih => simpa [List.append_assoc] using Del.ins s ht hc ih

theorem Del.mono {tol : Bool} {a : List Tok} {x : Str} (h : Del false a x) : Del tol a x := by
  induction h with
  | nil => exact .nil
  | keep t _ ih => exact .keep t ih
  | drop t o hs ho _ ih => exact .drop t o hs ho ih
  | ins s ht _ _ _ => cases ht

theorem Del.single {tol : Bool} (t : Tok) : Del tol [t] t.text := by
  simpa using Del.keep (tol := tol) t Del.nil

theorem Del.closer {tol : Bool} (s : Str) (ht : tol = true) (hc : IsCloser s) : Del tol [] s := by
  simpa using Del.ins s ht hc Del.nil

/-- Strict derivations never insert: the output is a sublist-style erasure of the input. -/
theorem Del.strict_length {a : List Tok} {x : Str} (h : Del false a x) : x.length ≤ (flat a).length := by
  induction h with
  | nil => simp [flat]
  | keep t _ ih => simp [flat]; omega
  | drop t o _ _ _ ih => simp [flat] at ih ⊢; omega
  | ins s ht _ _ _ => cases ht

/-- "consumed a prefix `c` of `ts`, leaving `rest`, and `c` serialises to `out`". -/
def Cons (tol : Bool) (ts : List Tok) (out : Str) (rest : List Tok) : Prop :=
  ∃ c, ts = c ++ rest ∧ Del tol c out

theorem Cons.refl {tol : Bool} (ts : List Tok) : Cons tol ts [] ts := ⟨[], rfl, .nil⟩

theorem Cons.trans {tol : Bool} {ts mid rest : List Tok} {x y : Str}
    (h1 : Cons tol ts x mid) (h2 : Cons tol mid y rest) : Cons tol ts (x ++ y) rest := by
  obtain ⟨c1, rfl, d1⟩ := h1
  obtain ⟨c2, rfl, d2⟩ := h2
  exact ⟨c1 ++ c2, by simp, d1.append d2⟩

theorem Cons.cons {tol : Bool} (t : Tok) {ts rest : List Tok} {x : Str} (h : Cons tol ts x rest) :
    Cons tol (t :: ts) (t.text ++ x) rest := by
  obtain ⟨c, rfl, d⟩ := h
  exact ⟨t :: c, rfl, .keep t d⟩

theorem Cons.mono {tol : Bool} {ts rest : List Tok} {x : Str} (h : Cons false ts x rest) :
    Cons tol ts x rest := by
  obtain ⟨c, rfl, d⟩ := h
  exact ⟨c, rfl, d.mono⟩

theorem Cons.closer {tol : Bool} {ts rest : List Tok} {x : Str} (h : Cons tol ts x rest) (s : Str)
    (ht : tol = true) (hc : IsCloser s) : Cons tol ts (x ++ s) rest := by
  obtain ⟨c, rfl, d⟩ := h
  exact ⟨c, rfl, by simpa using d.append (Del.closer s ht hc)⟩

/-- what `read_spacer` skipped may be dropped when an opener follows -/
theorem Cons.dropSpacer {tol : Bool} {ts : List Tok} {o : Tok} {r rest : List Tok} {x : Str}
    (hs : (readSpacer ts).2 = o :: r) (ho : isOpener o = true) (h : Cons tol r x rest) :
    Cons tol ts (o.text ++ x) rest := by
  obtain ⟨c, rfl, d⟩ := h
  cases ts with
  | nil => simp [readSpacer] at hs
  | cons t r0 =>
    simp only [readSpacer] at hs
    by_cases hsp : (t.cat == TC.MergedSpacer) = true
    · rw [if_pos hsp] at hs
      simp only at hs
      subst hs
      exact ⟨t :: o :: c, rfl, .drop t o (by simpa using hsp) ho (.keep o d)⟩
    · rw [if_neg hsp] at hs
      simp only [List.cons.injEq] at hs
      obtain ⟨rfl, rfl⟩ := hs
      exact ⟨t :: c, rfl, .keep t d⟩

/-- the tokens `read_spacer` leaves are a suffix of its input -/
theorem readSpacer_suffix (ts : List Tok) : ∃ pre, ts = pre ++ (readSpacer ts).2 := by
  cases ts with
  | nil => exact ⟨[], rfl⟩
  | cons t r =>
    simp only [readSpacer]
    by_cases hsp : (t.cat == TC.MergedSpacer) = true
    · rw [if_pos hsp]; exact ⟨[t], rfl⟩
    · rw [if_neg hsp]; exact ⟨[], rfl⟩

end TexSoup
