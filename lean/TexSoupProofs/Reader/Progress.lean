import TexSoupProofs.Reader.ConsHelpers
/-!
# Progress: every reader returns a suffix of its input; `readExpr` consumes at least one token

`Suf ts rest`  : `rest` is a suffix of `ts`;
`SSuf ts rest` : `rest` is a proper suffix of `ts` (at least one token was consumed).
-/
namespace TexSoup

/-- `rest` is what remains of `ts` after a prefix `c` was consumed. -/
def Suf (ts rest : List Tok) : Prop := ∃ c, ts = c ++ rest

/-- `rest` is what remains of `ts` after a non-empty prefix `t :: c` was consumed. -/
def SSuf (ts rest : List Tok) : Prop := ∃ t c, ts = t :: (c ++ rest)

theorem Suf.refl (ts : List Tok) : Suf ts ts := ⟨[], rfl⟩

theorem Suf.trans {a b c : List Tok} (h1 : Suf a b) (h2 : Suf b c) : Suf a c := by
  obtain ⟨x, rfl⟩ := h1
  obtain ⟨y, rfl⟩ := h2
  exact ⟨x ++ y, by rw [List.append_assoc]⟩

theorem Suf.cons (t : Tok) {ts rest : List Tok} (h : Suf ts rest) : SSuf (t :: ts) rest := by
  obtain ⟨x, rfl⟩ := h
  exact ⟨t, x, rfl⟩

theorem Suf.tail {t : Tok} {r : List Tok} : Suf (t :: r) r := ⟨[t], rfl⟩

theorem SSuf.suf {ts rest : List Tok} (h : SSuf ts rest) : Suf ts rest := by
  obtain ⟨t, c, rfl⟩ := h
  exact ⟨t :: c, rfl⟩

theorem SSuf.trans_suf {a b c : List Tok} (h1 : SSuf a b) (h2 : Suf b c) : SSuf a c := by
  obtain ⟨t, x, rfl⟩ := h1
  obtain ⟨y, rfl⟩ := h2
  exact ⟨t, x ++ y, by rw [List.append_assoc]⟩

theorem Suf.trans_ssuf {a b c : List Tok} (h1 : Suf a b) (h2 : SSuf b c) : SSuf a c := by
  obtain ⟨x, rfl⟩ := h1
  obtain ⟨t, y, rfl⟩ := h2
  cases x with
  | nil => exact ⟨t, y, rfl⟩
  | cons u x => exact ⟨u, x ++ t :: y, by simp⟩

theorem Suf.length_le {ts rest : List Tok} (h : Suf ts rest) : rest.length ≤ ts.length := by
  obtain ⟨x, rfl⟩ := h
  simp

theorem SSuf.length_lt {ts rest : List Tok} (h : SSuf ts rest) : rest.length < ts.length := by
  obtain ⟨t, x, rfl⟩ := h
  simp only [List.length_cons, List.length_append]
  omega

theorem SSuf.ne_nil {ts rest : List Tok} (h : SSuf ts rest) : ts ≠ [] := by
  obtain ⟨t, x, rfl⟩ := h
  exact List.cons_ne_nil _ _

theorem Suf.drop (n : Nat) {ts rest : List Tok} (h : Suf ts rest) : Suf ts (rest.drop n) := by
  obtain ⟨x, rfl⟩ := h
  exact ⟨x ++ rest.take n, by rw [List.append_assoc, List.take_append_drop]⟩

theorem readSpacer_suf (ts : List Tok) : Suf ts (readSpacer ts).2 := readSpacer_suffix ts

/-- what remains after the optional spacer and one more token -/
theorem Suf.afterSpacer {ts : List Tok} {o : Tok} {r : List Tok}
    (hs : (readSpacer ts).2 = o :: r) : SSuf ts r := by
  have h := readSpacer_suf ts
  rw [hs] at h
  exact h.trans_ssuf (Suf.cons o (Suf.refl r))

/-- `read_skip_env` returns a suffix of its input. -/
theorem readSkipEnv_suf {name : Str} {args : List Expr} {pos : Int} {ts : List Tok} {e : Expr}
    {rest : List Tok} (h : readSkipEnv name args pos ts = .ok (e, rest)) : Suf ts rest := by
  unfold readSkipEnv at h
  cases hb : skipBody (endMarker name) ts with
  | mk b r =>
    rw [hb] at h
    simp only at h
    have hsplit := skipBody_split _ _ _ _ hb
    by_cases hs : bufStartsWith (endMarker name) r = true
    · rw [if_pos hs] at h
      simp only [Except.ok.injEq, Prod.mk.injEq] at h
      obtain ⟨_, rfl⟩ := h
      exact Suf.drop 5 ⟨b, hsplit⟩
    · rw [if_neg hs] at h; cases h

/-- `read_skip_env` raises nothing but `EOFError`. -/
theorem readSkipEnv_error {name : Str} {args : List Expr} {pos : Int} {ts : List Tok} {e : Err}
    (h : readSkipEnv name args pos ts = .error e) : e = .eof := by
  unfold readSkipEnv at h
  cases hb : skipBody (endMarker name) ts with
  | mk b r =>
    rw [hb] at h
    simp only at h
    by_cases hs : bufStartsWith (endMarker name) r = true
    · rw [if_pos hs] at h; cases h
    · rw [if_neg hs] at h
      simp only [Except.error.injEq] at h
      exact h.symm

/-- The progress invariant for every reader function at fuel `f`. -/
def ProgressAt (f : Nat) : Prop :=
  (∀ skip tol mode ts e rest, readExpr f skip tol mode ts = .ok (e, rest) → SSuf ts rest) ∧
  (∀ ts es rest, readItem f ts = .ok (es, rest) → Suf ts rest) ∧
  (∀ k pos tol ts e rest, readMathEnv f k pos tol ts = .ok (e, rest) → Suf ts rest) ∧
  (∀ k tol ts es rest, readMathBody f k tol ts = .ok (es, rest) → Suf ts rest) ∧
  (∀ name args pos skip tol mode ts e rest,
      readEnv f name args pos skip tol mode ts = .ok (e, rest) → Suf ts rest) ∧
  (∀ skip tol mode ts be rest, readEnvBody f skip tol mode ts = .ok (be, rest) → Suf ts rest) ∧
  (∀ nreq nopt tol mode ts na rest, readCommand f nreq nopt tol mode ts = .ok (na, rest) →
      Suf ts rest ∧ (ts ≠ [] → SSuf ts rest)) ∧
  (∀ nreq nopt tol mode ts args rest, readArgs f nreq nopt tol mode ts = .ok (args, rest) →
      Suf ts rest) ∧
  (∀ n tol mode ts gn rest, readArgOpt f n tol mode ts = .ok (gn, rest) → Suf ts rest) ∧
  (∀ n tol mode ts gn rest, readArgReq f n tol mode ts = .ok (gn, rest) → Suf ts rest) ∧
  (∀ k pos tol mode ts e rest, readArg f k pos tol mode ts = .ok (e, rest) → Suf ts rest) ∧
  (∀ k tol mode ts es rest, readArgBody f k tol mode ts = .ok (es, rest) → Suf ts rest)

theorem progressAt_zero : ProgressAt 0 := by
  refine ⟨?_, ?_, ?_, ?_, ?_, ?_, ?_, ?_, ?_, ?_, ?_, ?_⟩ <;> intros <;>
    simp_all [readExpr, readItem, readMathEnv, readMathBody, readEnv, readEnvBody, readCommand,
      readArgs, readArgOpt, readArgReq, readArg, readArgBody]

section
variable (f : Nat) (ih : ProgressAt f)
include ih

theorem pg_readExpr : ∀ skip tol mode ts e rest, readExpr (f+1) skip tol mode ts = .ok (e, rest) →
    SSuf ts rest := by
  intro skip tol mode ts e rest h
  obtain ⟨pE, pI, pME, pMB, pEnv, pEB, pC, pAs, pAO, pAR, pA, pAB⟩ := ih
  unfold readExpr at h
  cases ts with
  | nil => cases h
  | cons c ts =>
    simp only at h
    cases hk : mkindOfBegin c.cat with
    | some k =>
      rw [hk] at h
      simp only at h
      exact Suf.cons c (pME _ _ _ _ _ _ h)
    | none =>
      rw [hk] at h
      simp only at h
      by_cases hesc : (c.cat == TC.Escape) = true
      · rw [if_pos hesc] at h
        obtain ⟨na, ts1, hc, h⟩ := Res.bind_eq_ok.mp h
        have s1 : SSuf (c :: ts) ts1 := Suf.cons c (pC _ _ _ _ _ _ _ hc).1
        by_cases hitem : (na.1.text == sItem) = true
        · rw [if_pos hitem] at h
          by_cases hm : (mode == Mode.math) = true
          · rw [if_pos hm] at h; cases h
          · rw [if_neg hm] at h
            obtain ⟨body, ts2, hi, h⟩ := Res.bind_eq_ok.mp h
            simp only [Except.ok.injEq, Prod.mk.injEq] at h
            obtain ⟨_, rfl⟩ := h
            exact s1.trans_suf (pI _ _ _ hi)
        · rw [if_neg hitem] at h
          by_cases hb : (na.1.text == sBegin && mode != Mode.special) = true
          · rw [if_pos hb] at h
            cases hargs : na.2 with
            | nil => rw [hargs] at h; cases h
            | cons a0 as =>
              rw [hargs] at h
              simp only at h
              by_cases hs : memStr (strip a0.string) skip = true
              · rw [if_pos hs] at h
                exact s1.trans_suf (readSkipEnv_suf h)
              · rw [if_neg hs] at h
                exact s1.trans_suf (pEnv _ _ _ _ _ _ _ _ _ h)
          · rw [if_neg hb] at h
            simp only [Except.ok.injEq, Prod.mk.injEq] at h
            obtain ⟨_, rfl⟩ := h
            exact s1
      · rw [if_neg hesc] at h
        by_cases hg : (c.cat == TC.GroupBegin) = true
        · rw [if_pos hg] at h
          exact Suf.cons c (pA _ _ _ _ _ _ _ h)
        · rw [if_neg hg] at h
          simp only [Except.ok.injEq, Prod.mk.injEq] at h
          obtain ⟨_, rfl⟩ := h
          exact Suf.cons c (Suf.refl _)

theorem pg_readItem : ∀ ts es rest, readItem (f+1) ts = .ok (es, rest) → Suf ts rest := by
  intro ts es rest h
  obtain ⟨pE, pI, pME, pMB, pEnv, pEB, pC, pAs, pAO, pAR, pA, pAB⟩ := ih
  unfold readItem at h
  have step : ∀ t r, ((readExpr f [] false .nonMath (t :: r)).bind fun e ts1 =>
        (readItem f ts1).bind fun es ts2 => .ok (e :: es, ts2)) = .ok (es, rest) →
      Suf (t :: r) rest := by
    intro t r h
    obtain ⟨e, ts1, he, h⟩ := Res.bind_eq_ok.mp h
    obtain ⟨es', ts2, hb, h⟩ := Res.bind_eq_ok.mp h
    simp only [Except.ok.injEq, Prod.mk.injEq] at h
    obtain ⟨_, rfl⟩ := h
    exact (pE _ _ _ _ _ _ he).suf.trans (pI _ _ _ hb)
  cases ts with
  | nil =>
    simp only [Except.ok.injEq, Prod.mk.injEq] at h
    obtain ⟨_, rfl⟩ := h
    exact Suf.refl _
  | cons t r =>
    simp only at h
    by_cases hesc : (t.cat == TC.Escape) = true
    · rw [if_pos hesc] at h
      obtain ⟨na, ts', hc, h⟩ := Res.bind_eq_ok.mp h
      by_cases hend : (na.1.text == sEnd || na.1.text == sItem) = true
      · rw [if_pos hend] at h
        simp only [Except.ok.injEq, Prod.mk.injEq] at h
        obtain ⟨_, rfl⟩ := h
        exact Suf.refl _
      · rw [if_neg hend] at h
        exact step t r h
    · rw [if_neg hesc] at h
      by_cases hge : (t.cat == TC.GroupEnd) = true
      · rw [if_pos hge] at h
        simp only [Except.ok.injEq, Prod.mk.injEq] at h
        obtain ⟨_, rfl⟩ := h
        exact Suf.refl _
      · rw [if_neg hge] at h
        exact step t r h

theorem pg_readMathEnv : ∀ k pos tol ts e rest, readMathEnv (f+1) k pos tol ts = .ok (e, rest) →
    Suf ts rest := by
  intro k pos tol ts e rest h
  obtain ⟨pE, pI, pME, pMB, pEnv, pEB, pC, pAs, pAO, pAR, pA, pAB⟩ := ih
  unfold readMathEnv at h
  obtain ⟨body, ts1, hb, h⟩ := Res.bind_eq_ok.mp h
  cases ts1 with
  | nil => cases h
  | cons t r =>
    simp only at h
    by_cases hend : (t.cat == k.tokEnd) = true
    · rw [if_pos hend] at h
      simp only [Except.ok.injEq, Prod.mk.injEq] at h
      obtain ⟨_, rfl⟩ := h
      exact (pMB _ _ _ _ _ hb).trans Suf.tail
    · rw [if_neg hend] at h; cases h

theorem pg_readMathBody : ∀ k tol ts es rest, readMathBody (f+1) k tol ts = .ok (es, rest) →
    Suf ts rest := by
  intro k tol ts es rest h
  obtain ⟨pE, pI, pME, pMB, pEnv, pEB, pC, pAs, pAO, pAR, pA, pAB⟩ := ih
  unfold readMathBody at h
  cases ts with
  | nil =>
    simp only [Except.ok.injEq, Prod.mk.injEq] at h
    obtain ⟨_, rfl⟩ := h
    exact Suf.refl _
  | cons t r =>
    simp only at h
    by_cases hend : (t.cat == k.tokEnd) = true
    · rw [if_pos hend] at h
      simp only [Except.ok.injEq, Prod.mk.injEq] at h
      obtain ⟨_, rfl⟩ := h
      exact Suf.refl _
    · rw [if_neg hend] at h
      obtain ⟨e, ts1, he, h⟩ := Res.bind_eq_ok.mp h
      obtain ⟨es', ts2, hb, h⟩ := Res.bind_eq_ok.mp h
      simp only [Except.ok.injEq, Prod.mk.injEq] at h
      obtain ⟨_, rfl⟩ := h
      exact (pE _ _ _ _ _ _ he).suf.trans (pMB _ _ _ _ _ hb)

theorem pg_readEnv : ∀ name args pos skip tol mode ts e rest,
    readEnv (f+1) name args pos skip tol mode ts = .ok (e, rest) → Suf ts rest := by
  intro name args pos skip tol mode ts e rest h
  obtain ⟨pE, pI, pME, pMB, pEnv, pEB, pC, pAs, pAO, pAR, pA, pAB⟩ := ih
  unfold readEnv at h
  obtain ⟨be, ts1, hb, h⟩ := Res.bind_eq_ok.mp h
  have s1 := pEB _ _ _ _ _ _ hb
  by_cases herr : envError name be.2 = true
  · rw [if_pos herr] at h
    by_cases ht : tol = true
    · rw [if_pos ht] at h
      simp only [Except.ok.injEq, Prod.mk.injEq] at h
      obtain ⟨_, rfl⟩ := h
      exact s1
    · rw [if_neg ht] at h; cases h
  · rw [if_neg herr] at h
    cases ts1 with
    | nil => cases h
    | cons t1 r1 =>
      simp only at h
      obtain ⟨na, ts2, hc, h⟩ := Res.bind_eq_ok.mp h
      simp only [Except.ok.injEq, Prod.mk.injEq] at h
      obtain ⟨_, rfl⟩ := h
      exact (s1.trans Suf.tail).trans (pC _ _ _ _ _ _ _ hc).1

theorem pg_readEnvBody : ∀ skip tol mode ts be rest,
    readEnvBody (f+1) skip tol mode ts = .ok (be, rest) → Suf ts rest := by
  intro skip tol mode ts be rest h
  obtain ⟨pE, pI, pME, pMB, pEnv, pEB, pC, pAs, pAO, pAR, pA, pAB⟩ := ih
  unfold readEnvBody at h
  have step : ∀ t r, ((readExpr f skip tol mode (t :: r)).bind fun e ts1 =>
        (readEnvBody f skip tol mode ts1).bind fun be ts2 => .ok ((e :: be.1, be.2), ts2))
        = .ok (be, rest) → Suf (t :: r) rest := by
    intro t r h
    obtain ⟨e, ts1, he, h⟩ := Res.bind_eq_ok.mp h
    obtain ⟨be', ts2, hb, h⟩ := Res.bind_eq_ok.mp h
    simp only [Except.ok.injEq, Prod.mk.injEq] at h
    obtain ⟨_, rfl⟩ := h
    exact (pE _ _ _ _ _ _ he).suf.trans (pEB _ _ _ _ _ _ hb)
  cases ts with
  | nil =>
    simp only [Except.ok.injEq, Prod.mk.injEq] at h
    obtain ⟨_, rfl⟩ := h
    exact Suf.refl _
  | cons t r =>
    simp only at h
    by_cases hesc : (t.cat == TC.Escape) = true
    · rw [if_pos hesc] at h
      obtain ⟨na, ts', hc, h⟩ := Res.bind_eq_ok.mp h
      by_cases hend : (na.1.text == sEnd) = true
      · rw [if_pos hend] at h
        simp only [Except.ok.injEq, Prod.mk.injEq] at h
        obtain ⟨_, rfl⟩ := h
        exact Suf.refl _
      · rw [if_neg hend] at h
        exact step t r h
    · rw [if_neg hesc] at h
      exact step t r h

theorem pg_readCommand : ∀ nreq nopt tol mode ts na rest,
    readCommand (f+1) nreq nopt tol mode ts = .ok (na, rest) →
    Suf ts rest ∧ (ts ≠ [] → SSuf ts rest) := by
  intro nreq nopt tol mode ts na rest h
  obtain ⟨pE, pI, pME, pMB, pEnv, pEB, pC, pAs, pAO, pAR, pA, pAB⟩ := ih
  unfold readCommand at h
  cases ts with
  | nil =>
    simp only at h
    obtain ⟨args', ts2, ha, h⟩ := Res.bind_eq_ok.mp h
    simp only [Except.ok.injEq, Prod.mk.injEq] at h
    obtain ⟨_, rfl⟩ := h
    exact ⟨pAs _ _ _ _ _ _ _ ha, fun hne => absurd rfl hne⟩
  | cons n r =>
    simp only at h
    obtain ⟨args', ts2, ha, h⟩ := Res.bind_eq_ok.mp h
    simp only [Except.ok.injEq, Prod.mk.injEq] at h
    obtain ⟨_, rfl⟩ := h
    have s := Suf.cons n (pAs _ _ _ _ _ _ _ ha)
    exact ⟨s.suf, fun _ => s⟩

theorem pg_readArgs : ∀ nreq nopt tol mode ts args rest,
    readArgs (f+1) nreq nopt tol mode ts = .ok (args, rest) → Suf ts rest := by
  intro nreq nopt tol mode ts args rest h
  obtain ⟨pE, pI, pME, pMB, pEnv, pEB, pC, pAs, pAO, pAR, pA, pAB⟩ := ih
  unfold readArgs at h
  by_cases h0 : (nreq == 0 && nopt == 0) = true
  · rw [if_pos h0] at h
    simp only [Except.ok.injEq, Prod.mk.injEq] at h
    obtain ⟨_, rfl⟩ := h
    exact Suf.refl _
  · rw [if_neg h0] at h
    obtain ⟨an1, ts1, h1, h⟩ := Res.bind_eq_ok.mp h
    obtain ⟨an2, ts2, h2, h⟩ := Res.bind_eq_ok.mp h
    obtain ⟨an3, ts3, h3, h⟩ := Res.bind_eq_ok.mp h
    obtain ⟨an4, ts4, h4, h⟩ := Res.bind_eq_ok.mp h
    simp only [Except.ok.injEq, Prod.mk.injEq] at h
    obtain ⟨_, rfl⟩ := h
    have s1 := pAO _ _ _ _ _ _ h1
    have s2 := pAR _ _ _ _ _ _ h2
    have s3 : Suf ts2 ts3 := by
      by_cases hb : nextIs TC.BracketBegin ts2 = true
      · rw [if_pos hb] at h3; exact pAO _ _ _ _ _ _ h3
      · rw [if_neg hb] at h3
        simp only [Except.ok.injEq, Prod.mk.injEq] at h3
        obtain ⟨_, rfl⟩ := h3
        exact Suf.refl _
    have s4 : Suf ts3 ts4 := by
      by_cases hb : nextIs TC.GroupBegin ts3 = true
      · rw [if_pos hb] at h4; exact pAR _ _ _ _ _ _ h4
      · rw [if_neg hb] at h4
        simp only [Except.ok.injEq, Prod.mk.injEq] at h4
        obtain ⟨_, rfl⟩ := h4
        exact Suf.refl _
    exact s1.trans (s2.trans (s3.trans s4))

theorem pg_readArgOpt : ∀ n tol mode ts gn rest, readArgOpt (f+1) n tol mode ts = .ok (gn, rest) →
    Suf ts rest := by
  intro n tol mode ts gn rest h
  obtain ⟨pE, pI, pME, pMB, pEnv, pEB, pC, pAs, pAO, pAR, pA, pAB⟩ := ih
  unfold readArgOpt at h
  by_cases h0 : (n == 0) = true
  · rw [if_pos h0] at h
    simp only [Except.ok.injEq, Prod.mk.injEq] at h
    obtain ⟨_, rfl⟩ := h
    exact Suf.refl _
  · rw [if_neg h0] at h
    cases hs : (readSpacer ts).2 with
    | nil =>
      rw [hs] at h
      simp only [Except.ok.injEq, Prod.mk.injEq] at h
      obtain ⟨_, rfl⟩ := h
      exact Suf.refl _
    | cons o r =>
      rw [hs] at h
      simp only at h
      by_cases hb : (o.cat == TC.BracketBegin) = true
      · rw [if_pos hb] at h
        obtain ⟨g, ts1, hg, h⟩ := Res.bind_eq_ok.mp h
        obtain ⟨gn', ts2, hn, h⟩ := Res.bind_eq_ok.mp h
        simp only [Except.ok.injEq, Prod.mk.injEq] at h
        obtain ⟨_, rfl⟩ := h
        exact ((Suf.afterSpacer hs).suf.trans (pA _ _ _ _ _ _ _ hg)).trans (pAO _ _ _ _ _ _ hn)
      · rw [if_neg hb] at h
        simp only [Except.ok.injEq, Prod.mk.injEq] at h
        obtain ⟨_, rfl⟩ := h
        exact Suf.refl _

theorem pg_readArgReq : ∀ n tol mode ts gn rest, readArgReq (f+1) n tol mode ts = .ok (gn, rest) →
    Suf ts rest := by
  intro n tol mode ts gn rest h
  obtain ⟨pE, pI, pME, pMB, pEnv, pEB, pC, pAs, pAO, pAR, pA, pAB⟩ := ih
  unfold readArgReq at h
  by_cases h0 : (n == 0) = true
  · rw [if_pos h0] at h
    simp only [Except.ok.injEq, Prod.mk.injEq] at h
    obtain ⟨_, rfl⟩ := h
    exact Suf.refl _
  · rw [if_neg h0] at h
    cases hs : (readSpacer ts).2 with
    | nil =>
      rw [hs] at h
      simp only [Except.ok.injEq, Prod.mk.injEq] at h
      obtain ⟨_, rfl⟩ := h
      exact Suf.refl _
    | cons o r =>
      rw [hs] at h
      simp only at h
      have s0 : Suf ts r := (Suf.afterSpacer hs).suf
      by_cases hb : (o.cat == TC.GroupBegin) = true
      · rw [if_pos hb] at h
        obtain ⟨g, ts1, hg, h⟩ := Res.bind_eq_ok.mp h
        obtain ⟨gn', ts2, hn, h⟩ := Res.bind_eq_ok.mp h
        simp only [Except.ok.injEq, Prod.mk.injEq] at h
        obtain ⟨_, rfl⟩ := h
        exact (s0.trans (pA _ _ _ _ _ _ _ hg)).trans (pAR _ _ _ _ _ _ hn)
      · rw [if_neg hb] at h
        by_cases hpos : n > 0
        · rw [if_pos hpos] at h
          by_cases hesc : (o.cat == TC.Escape) = true
          · rw [if_pos hesc] at h
            obtain ⟨na, ts1, hc, h⟩ := Res.bind_eq_ok.mp h
            obtain ⟨gn', ts2, hn, h⟩ := Res.bind_eq_ok.mp h
            simp only [Except.ok.injEq, Prod.mk.injEq] at h
            obtain ⟨_, rfl⟩ := h
            exact (s0.trans (pC _ _ _ _ _ _ _ hc).1).trans (pAR _ _ _ _ _ _ hn)
          · rw [if_neg hesc] at h
            obtain ⟨gn', ts2, hn, h⟩ := Res.bind_eq_ok.mp h
            simp only [Except.ok.injEq, Prod.mk.injEq] at h
            obtain ⟨_, rfl⟩ := h
            exact s0.trans (pAR _ _ _ _ _ _ hn)
        · rw [if_neg hpos] at h
          simp only [Except.ok.injEq, Prod.mk.injEq] at h
          obtain ⟨_, rfl⟩ := h
          exact Suf.refl _

theorem pg_readArg : ∀ k pos tol mode ts e rest, readArg (f+1) k pos tol mode ts = .ok (e, rest) →
    Suf ts rest := by
  intro k pos tol mode ts e rest h
  obtain ⟨pE, pI, pME, pMB, pEnv, pEB, pC, pAs, pAO, pAR, pA, pAB⟩ := ih
  unfold readArg at h
  obtain ⟨body, ts1, hb, h⟩ := Res.bind_eq_ok.mp h
  simp only [Except.ok.injEq, Prod.mk.injEq] at h
  obtain ⟨_, rfl⟩ := h
  exact pAB _ _ _ _ _ _ hb

theorem pg_readArgBody : ∀ k tol mode ts es rest, readArgBody (f+1) k tol mode ts = .ok (es, rest) →
    Suf ts rest := by
  intro k tol mode ts es rest h
  obtain ⟨pE, pI, pME, pMB, pEnv, pEB, pC, pAs, pAO, pAR, pA, pAB⟩ := ih
  unfold readArgBody at h
  cases ts with
  | nil =>
    simp only at h
    by_cases ht : tol = true
    · rw [if_pos ht] at h
      simp only [Except.ok.injEq, Prod.mk.injEq] at h
      obtain ⟨_, rfl⟩ := h
      exact Suf.refl _
    · rw [if_neg ht] at h; cases h
  | cons t r =>
    simp only at h
    by_cases hend : (t.cat == k.tokEnd) = true
    · rw [if_pos hend] at h
      simp only [Except.ok.injEq, Prod.mk.injEq] at h
      obtain ⟨_, rfl⟩ := h
      exact Suf.tail
    · rw [if_neg hend] at h
      obtain ⟨e, ts1, he, h⟩ := Res.bind_eq_ok.mp h
      obtain ⟨es', ts2, hb, h⟩ := Res.bind_eq_ok.mp h
      simp only [Except.ok.injEq, Prod.mk.injEq] at h
      obtain ⟨_, rfl⟩ := h
      exact (pE _ _ _ _ _ _ he).suf.trans (pAB _ _ _ _ _ _ hb)

end

/-- Progress holds at every fuel. -/
theorem progressAt (f : Nat) : ProgressAt f := by
  induction f with
  | zero => exact progressAt_zero
  | succ f ih =>
    exact ⟨pg_readExpr f ih, pg_readItem f ih, pg_readMathEnv f ih, pg_readMathBody f ih,
      pg_readEnv f ih, pg_readEnvBody f ih, pg_readCommand f ih, pg_readArgs f ih,
      pg_readArgOpt f ih, pg_readArgReq f ih, pg_readArg f ih, pg_readArgBody f ih⟩

/-! ### The individual facts, in suffix form and in length form -/

theorem readExpr_ssuf {f skip tol mode ts e rest}
    (h : readExpr f skip tol mode ts = .ok (e, rest)) : SSuf ts rest :=
  (progressAt f).1 _ _ _ _ _ _ h
theorem readItem_suf {f ts es rest} (h : readItem f ts = .ok (es, rest)) : Suf ts rest :=
  (progressAt f).2.1 _ _ _ h
theorem readMathEnv_suf {f k pos tol ts e rest}
    (h : readMathEnv f k pos tol ts = .ok (e, rest)) : Suf ts rest :=
  (progressAt f).2.2.1 _ _ _ _ _ _ h
theorem readMathBody_suf {f k tol ts es rest}
    (h : readMathBody f k tol ts = .ok (es, rest)) : Suf ts rest :=
  (progressAt f).2.2.2.1 _ _ _ _ _ h
theorem readEnv_suf {f name args pos skip tol mode ts e rest}
    (h : readEnv f name args pos skip tol mode ts = .ok (e, rest)) : Suf ts rest :=
  (progressAt f).2.2.2.2.1 _ _ _ _ _ _ _ _ _ h
theorem readEnvBody_suf {f skip tol mode ts be rest}
    (h : readEnvBody f skip tol mode ts = .ok (be, rest)) : Suf ts rest :=
  (progressAt f).2.2.2.2.2.1 _ _ _ _ _ _ h
theorem readCommand_suf {f nreq nopt tol mode ts na rest}
    (h : readCommand f nreq nopt tol mode ts = .ok (na, rest)) : Suf ts rest :=
  ((progressAt f).2.2.2.2.2.2.1 _ _ _ _ _ _ _ h).1
theorem readCommand_ssuf {f nreq nopt tol mode ts na rest}
    (h : readCommand f nreq nopt tol mode ts = .ok (na, rest)) (hne : ts ≠ []) : SSuf ts rest :=
  ((progressAt f).2.2.2.2.2.2.1 _ _ _ _ _ _ _ h).2 hne
theorem readArgs_suf {f nreq nopt tol mode ts args rest}
    (h : readArgs f nreq nopt tol mode ts = .ok (args, rest)) : Suf ts rest :=
  (progressAt f).2.2.2.2.2.2.2.1 _ _ _ _ _ _ _ h
theorem readArgOpt_suf {f n tol mode ts gn rest}
    (h : readArgOpt f n tol mode ts = .ok (gn, rest)) : Suf ts rest :=
  (progressAt f).2.2.2.2.2.2.2.2.1 _ _ _ _ _ _ h
theorem readArgReq_suf {f n tol mode ts gn rest}
    (h : readArgReq f n tol mode ts = .ok (gn, rest)) : Suf ts rest :=
  (progressAt f).2.2.2.2.2.2.2.2.2.1 _ _ _ _ _ _ h
theorem readArg_suf {f k pos tol mode ts e rest}
    (h : readArg f k pos tol mode ts = .ok (e, rest)) : Suf ts rest :=
  (progressAt f).2.2.2.2.2.2.2.2.2.2.1 _ _ _ _ _ _ _ h
theorem readArgBody_suf {f k tol mode ts es rest}
    (h : readArgBody f k tol mode ts = .ok (es, rest)) : Suf ts rest :=
  (progressAt f).2.2.2.2.2.2.2.2.2.2.2 _ _ _ _ _ _ h

/-- `read_expr` consumes at least one token. -/
theorem readExpr_length_lt {f skip tol mode ts e rest}
    (h : readExpr f skip tol mode ts = .ok (e, rest)) : rest.length < ts.length :=
  (readExpr_ssuf h).length_lt

/-- `read_command` on a non-empty buffer consumes at least one token. -/
theorem readCommand_length_lt {f nreq nopt tol mode ts na rest}
    (h : readCommand f nreq nopt tol mode ts = .ok (na, rest)) (hne : ts ≠ []) :
    rest.length < ts.length :=
  (readCommand_ssuf h hne).length_lt

end TexSoup
