import TexSoupProofs.Reader.Basic
/-!
# What the reader returns in math mode it also returns in non-math mode

Math mode only *forbids* (`\item`); it never changes a result. So a call that succeeds in math
mode succeeds with the same result in non-math mode – for every reader function that takes a
mode, every fuel and both tolerance values.
-/
namespace TexSoup

theorem cmdMode_math_cases (n : Str) :
    (cmdMode n .math = .special ∧ cmdMode n .nonMath = .special) ∨
    (cmdMode n .math = .math ∧ cmdMode n .nonMath = .nonMath) := by
  unfold cmdMode
  by_cases h : memStr n Tables.specialCommands = true
  · left; simp [h]
  · right; simp [h]

def MathToNonAt (f : Nat) : Prop :=
  (∀ skip tol ts r, readExpr f skip tol .math ts = .ok r → readExpr f skip tol .nonMath ts = .ok r) ∧
  (∀ name args pos skip tol ts r, readEnv f name args pos skip tol .math ts = .ok r →
      readEnv f name args pos skip tol .nonMath ts = .ok r) ∧
  (∀ skip tol ts r, readEnvBody f skip tol .math ts = .ok r → readEnvBody f skip tol .nonMath ts = .ok r) ∧
  (∀ nreq nopt tol ts r, readCommand f nreq nopt tol .math ts = .ok r →
      readCommand f nreq nopt tol .nonMath ts = .ok r) ∧
  (∀ nreq nopt tol ts r, readArgs f nreq nopt tol .math ts = .ok r →
      readArgs f nreq nopt tol .nonMath ts = .ok r) ∧
  (∀ n tol ts r, readArgOpt f n tol .math ts = .ok r → readArgOpt f n tol .nonMath ts = .ok r) ∧
  (∀ n tol ts r, readArgReq f n tol .math ts = .ok r → readArgReq f n tol .nonMath ts = .ok r) ∧
  (∀ k pos tol ts r, readArg f k pos tol .math ts = .ok r → readArg f k pos tol .nonMath ts = .ok r) ∧
  (∀ k tol ts r, readArgBody f k tol .math ts = .ok r → readArgBody f k tol .nonMath ts = .ok r)

theorem mathToNonAt_zero : MathToNonAt 0 := by
  refine ⟨?_, ?_, ?_, ?_, ?_, ?_, ?_, ?_, ?_⟩ <;> intros <;>
    simp_all [readExpr, readEnv, readEnvBody, readCommand, readArgs, readArgOpt, readArgReq, readArg,
      readArgBody]

section
variable (f : Nat) (ih : MathToNonAt f)
include ih

theorem mm_readExpr : ∀ skip tol ts r, readExpr (f+1) skip tol .math ts = .ok r →
    readExpr (f+1) skip tol .nonMath ts = .ok r := by
  intro skip tol ts r h
  obtain ⟨hE, hEnv, hEB, hC, hAs, hAO, hAR, hA, hAB⟩ := ih
  unfold readExpr at h ⊢
  cases ts with
  | nil => simp at h
  | cons c ts =>
    simp only at h ⊢
    cases hk : mkindOfBegin c.cat with
    | some k => rw [hk] at h; exact h
    | none =>
      rw [hk] at h
      simp only at h ⊢
      by_cases hesc : (c.cat == TC.Escape) = true
      · rw [if_pos hesc] at h ⊢
        obtain ⟨na, ts1, hc, h⟩ := Res.bind_eq_ok.mp h
        rw [hC _ _ _ _ _ hc]
        simp only [Res.bind_ok]
        by_cases hitem : (na.1.text == sItem) = true
        · rw [if_pos hitem] at h; simp at h
        · rw [if_neg hitem] at h ⊢
          by_cases hb : (na.1.text == sBegin) = true
          · simp only [hb, Bool.true_and] at h ⊢
            rw [if_pos (by decide)] at h ⊢
            cases hargs : na.2 with
            | nil => rw [hargs] at h; simp at h
            | cons a0 as =>
              rw [hargs] at h
              simp only at h ⊢
              by_cases hs : memStr (strip a0.string) skip = true
              · rw [if_pos hs] at h ⊢; exact h
              · rw [if_neg hs] at h ⊢
                by_cases hm : memStr (strip a0.string) Tables.mathEnvNames = true
                · rw [if_pos hm] at h ⊢; exact h
                · rw [if_neg hm] at h ⊢; exact hEnv _ _ _ _ _ _ _ h
          · have hb' : (na.1.text == sBegin) = false := by simpa using hb
            simp only [hb', Bool.false_and] at h ⊢
            exact h
      · rw [if_neg hesc] at h ⊢
        exact h

theorem mm_readEnv : ∀ name args pos skip tol ts r, readEnv (f+1) name args pos skip tol .math ts = .ok r →
    readEnv (f+1) name args pos skip tol .nonMath ts = .ok r := by
  intro name args pos skip tol ts r h
  obtain ⟨hE, hEnv, hEB, hC, hAs, hAO, hAR, hA, hAB⟩ := ih
  unfold readEnv at h ⊢
  obtain ⟨be, ts1, hb, h⟩ := Res.bind_eq_ok.mp h
  rw [hEB _ _ _ _ hb]
  simp only [Res.bind_ok]
  by_cases herr : envError name be.2 = true
  · rw [if_pos herr] at h ⊢; exact h
  · rw [if_neg herr] at h ⊢
    cases ts1 with
    | nil => exact h
    | cons t0 r0 =>
      simp only at h ⊢
      obtain ⟨na, ts2, ha, h⟩ := Res.bind_eq_ok.mp h
      rw [hC _ _ _ _ _ ha]
      exact h

theorem mm_readEnvBody : ∀ skip tol ts r, readEnvBody (f+1) skip tol .math ts = .ok r →
    readEnvBody (f+1) skip tol .nonMath ts = .ok r := by
  intro skip tol ts r h
  obtain ⟨hE, hEnv, hEB, hC, hAs, hAO, hAR, hA, hAB⟩ := ih
  unfold readEnvBody at h ⊢
  cases ts with
  | nil => exact h
  | cons t r' =>
    simp only at h ⊢
    by_cases hesc : (t.cat == TC.Escape) = true
    · rw [if_pos hesc] at h ⊢
      obtain ⟨na, ts', hc, h⟩ := Res.bind_eq_ok.mp h
      rw [hC _ _ _ _ _ hc]; simp only [Res.bind_ok]
      by_cases hend : (na.1.text == sEnd) = true
      · rw [if_pos hend] at h ⊢; exact h
      · rw [if_neg hend] at h ⊢
        obtain ⟨e, ts1, he, h⟩ := Res.bind_eq_ok.mp h
        rw [hE _ _ _ _ he]; simp only [Res.bind_ok]
        obtain ⟨be, ts2, hb, h⟩ := Res.bind_eq_ok.mp h
        rw [hEB _ _ _ _ hb]; simp only [Res.bind_ok]; exact h
    · rw [if_neg hesc] at h ⊢
      obtain ⟨e, ts1, he, h⟩ := Res.bind_eq_ok.mp h
      rw [hE _ _ _ _ he]; simp only [Res.bind_ok]
      obtain ⟨be, ts2, hb, h⟩ := Res.bind_eq_ok.mp h
      rw [hEB _ _ _ _ hb]; simp only [Res.bind_ok]; exact h

theorem mm_readCommand : ∀ nreq nopt tol ts r, readCommand (f+1) nreq nopt tol .math ts = .ok r →
    readCommand (f+1) nreq nopt tol .nonMath ts = .ok r := by
  intro nreq nopt tol ts r h
  obtain ⟨hE, hEnv, hEB, hC, hAs, hAO, hAR, hA, hAB⟩ := ih
  unfold readCommand at h ⊢
  cases ts with
  | nil =>
    simp only at h ⊢
    obtain ⟨args, ts2, ha, h⟩ := Res.bind_eq_ok.mp h
    rcases cmdMode_math_cases [] with ⟨h1, h2⟩ | ⟨h1, h2⟩
    · rw [h1] at ha; rw [h2, ha]; exact h
    · rw [h1] at ha; rw [h2, hAs _ _ _ _ _ ha]; exact h
  | cons n r' =>
    simp only at h ⊢
    obtain ⟨args, ts2, ha, h⟩ := Res.bind_eq_ok.mp h
    rcases cmdMode_math_cases n.text with ⟨h1, h2⟩ | ⟨h1, h2⟩
    · rw [h1] at ha; rw [h2, ha]; exact h
    · rw [h1] at ha; rw [h2, hAs _ _ _ _ _ ha]; exact h

theorem mm_readArgs : ∀ nreq nopt tol ts r, readArgs (f+1) nreq nopt tol .math ts = .ok r →
    readArgs (f+1) nreq nopt tol .nonMath ts = .ok r := by
  intro nreq nopt tol ts r h
  obtain ⟨hE, hEnv, hEB, hC, hAs, hAO, hAR, hA, hAB⟩ := ih
  unfold readArgs at h ⊢
  by_cases h0 : (nreq == 0 && nopt == 0) = true
  · rw [if_pos h0] at h ⊢; exact h
  · rw [if_neg h0] at h ⊢
    obtain ⟨an1, ts1, h1, h⟩ := Res.bind_eq_ok.mp h
    rw [hAO _ _ _ _ h1]; simp only [Res.bind_ok]
    obtain ⟨an2, ts2, h2, h⟩ := Res.bind_eq_ok.mp h
    rw [hAR _ _ _ _ h2]; simp only [Res.bind_ok]
    obtain ⟨an3, ts3, h3, h⟩ := Res.bind_eq_ok.mp h
    have h3' : (if nextIs TC.BracketBegin ts2 = true then readArgOpt f an1.2 tol .nonMath ts2
        else Except.ok (([], an1.2), ts2)) = Except.ok (an3, ts3) := by
      by_cases hb : nextIs TC.BracketBegin ts2 = true
      · rw [if_pos hb] at h3 ⊢; exact hAO _ _ _ _ h3
      · rw [if_neg hb] at h3 ⊢; exact h3
    rw [h3']; simp only [Res.bind_ok]
    obtain ⟨an4, ts4, h4, h⟩ := Res.bind_eq_ok.mp h
    have h4' : (if nextIs TC.GroupBegin ts3 = true then readArgReq f an2.2 tol .nonMath ts3
        else Except.ok (([], an2.2), ts3)) = Except.ok (an4, ts4) := by
      by_cases hb : nextIs TC.GroupBegin ts3 = true
      · rw [if_pos hb] at h4 ⊢; exact hAR _ _ _ _ h4
      · rw [if_neg hb] at h4 ⊢; exact h4
    rw [h4']; simp only [Res.bind_ok]; exact h

theorem mm_readArgOpt : ∀ n tol ts r, readArgOpt (f+1) n tol .math ts = .ok r →
    readArgOpt (f+1) n tol .nonMath ts = .ok r := by
  intro n tol ts r h
  obtain ⟨hE, hEnv, hEB, hC, hAs, hAO, hAR, hA, hAB⟩ := ih
  unfold readArgOpt at h ⊢
  by_cases h0 : (n == 0) = true
  · rw [if_pos h0] at h ⊢; exact h
  · rw [if_neg h0] at h ⊢
    cases hs : (readSpacer ts).2 with
    | nil => rw [hs] at h; exact h
    | cons o r' =>
      rw [hs] at h
      simp only at h ⊢
      by_cases hb : (o.cat == TC.BracketBegin) = true
      · rw [if_pos hb] at h ⊢
        obtain ⟨g, ts1, hg, h⟩ := Res.bind_eq_ok.mp h
        rw [hA _ _ _ _ _ hg]; simp only [Res.bind_ok]
        obtain ⟨gn, ts2, hn, h⟩ := Res.bind_eq_ok.mp h
        rw [hAO _ _ _ _ hn]; simp only [Res.bind_ok]; exact h
      · rw [if_neg hb] at h ⊢; exact h

theorem mm_readArgReq : ∀ n tol ts r, readArgReq (f+1) n tol .math ts = .ok r →
    readArgReq (f+1) n tol .nonMath ts = .ok r := by
  intro n tol ts r h
  obtain ⟨hE, hEnv, hEB, hC, hAs, hAO, hAR, hA, hAB⟩ := ih
  unfold readArgReq at h ⊢
  by_cases h0 : (n == 0) = true
  · rw [if_pos h0] at h ⊢; exact h
  · rw [if_neg h0] at h ⊢
    cases hs : (readSpacer ts).2 with
    | nil => rw [hs] at h; exact h
    | cons o r' =>
      rw [hs] at h
      simp only at h ⊢
      by_cases hb : (o.cat == TC.GroupBegin) = true
      · rw [if_pos hb] at h ⊢
        obtain ⟨g, ts1, hg, h⟩ := Res.bind_eq_ok.mp h
        rw [hA _ _ _ _ _ hg]; simp only [Res.bind_ok]
        obtain ⟨gn, ts2, hn, h⟩ := Res.bind_eq_ok.mp h
        rw [hAR _ _ _ _ hn]; simp only [Res.bind_ok]; exact h
      · rw [if_neg hb] at h ⊢
        by_cases hpos : n > 0
        · rw [if_pos hpos] at h ⊢
          by_cases hesc : (o.cat == TC.Escape) = true
          · rw [if_pos hesc] at h ⊢
            obtain ⟨na, ts1, hc, h⟩ := Res.bind_eq_ok.mp h
            rw [hC _ _ _ _ _ hc]; simp only [Res.bind_ok]
            obtain ⟨gn, ts2, hn, h⟩ := Res.bind_eq_ok.mp h
            rw [hAR _ _ _ _ hn]; simp only [Res.bind_ok]; exact h
          · rw [if_neg hesc] at h ⊢
            obtain ⟨gn, ts2, hn, h⟩ := Res.bind_eq_ok.mp h
            rw [hAR _ _ _ _ hn]; simp only [Res.bind_ok]; exact h
        · rw [if_neg hpos] at h ⊢; exact h

theorem mm_readArg : ∀ k pos tol ts r, readArg (f+1) k pos tol .math ts = .ok r →
    readArg (f+1) k pos tol .nonMath ts = .ok r := by
  intro k pos tol ts r h
  obtain ⟨hE, hEnv, hEB, hC, hAs, hAO, hAR, hA, hAB⟩ := ih
  unfold readArg at h ⊢
  obtain ⟨body, ts1, hb, h⟩ := Res.bind_eq_ok.mp h
  rw [hAB _ _ _ _ hb]; exact h

theorem mm_readArgBody : ∀ k tol ts r, readArgBody (f+1) k tol .math ts = .ok r →
    readArgBody (f+1) k tol .nonMath ts = .ok r := by
  intro k tol ts r h
  obtain ⟨hE, hEnv, hEB, hC, hAs, hAO, hAR, hA, hAB⟩ := ih
  unfold readArgBody at h ⊢
  cases ts with
  | nil => exact h
  | cons t r' =>
    simp only at h ⊢
    by_cases hend : (t.cat == k.tokEnd) = true
    · rw [if_pos hend] at h ⊢; exact h
    · rw [if_neg hend] at h ⊢
      obtain ⟨e, ts1, he, h⟩ := Res.bind_eq_ok.mp h
      rw [hE _ _ _ _ he]; simp only [Res.bind_ok]
      obtain ⟨es, ts2, hb, h⟩ := Res.bind_eq_ok.mp h
      rw [hAB _ _ _ _ hb]; simp only [Res.bind_ok]; exact h

end

theorem mathToNonAt (f : Nat) : MathToNonAt f := by
  induction f with
  | zero => exact mathToNonAt_zero
  | succ f ih =>
    exact ⟨mm_readExpr f ih, mm_readEnv f ih, mm_readEnvBody f ih, mm_readCommand f ih, mm_readArgs f ih,
      mm_readArgOpt f ih, mm_readArgReq f ih, mm_readArg f ih, mm_readArgBody f ih⟩

/-- A group that can be read as an argument in math mode is read the same in non-math mode. -/
theorem readArg_math_nonMath {f : Nat} {k : GKind} {pos : Int} {tol : Bool} {ts : List Tok}
    {r : Expr × List Tok} (h : readArg f k pos tol .math ts = .ok r) :
    readArg f k pos tol .nonMath ts = .ok r := (mathToNonAt f).2.2.2.2.2.2.2.1 _ _ _ _ _ h

end TexSoup
