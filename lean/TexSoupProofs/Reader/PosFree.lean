import TexSoupProofs.Reader.Basic
/-!
# The reader only copies positions

Reading a token list whose positions have all been reset to `0` gives the result of reading
the original list with all positions reset (`shape`): no decision of any reader function looks
at a position. Hence two token lists that agree in texts and categories are read to trees of
the same shape (`readTex_same_keys`).

`shape` resets every position taken from a token to `0`; the default position `-1` of nodes
that were made up (`'{%s}' % token`, an empty verbatim body at the end of input) stays `-1`.
-/
namespace TexSoup

/-- a token without its position -/
def zt (t : Tok) : Tok := { t with pos := 0 }

/-- a position without its value: `-1` (made up) stays, everything else becomes `0` -/
def zp (p : Int) : Int := if p < 0 then p else 0

mutual
/-- The tree without its positions. -/
def shape : Expr → Expr
  | .text s p => .text s (zp p)
  | .cmd n a b p => .cmd n (shapeL a) (shapeL b) (zp p)
  | .nenv n a b p => .nenv n (shapeL a) (shapeL b) (zp p)
  | .math k b p => .math k (shapeL b) (zp p)
  | .group k b p => .group k (shapeL b) (zp p)
def shapeL : List Expr → List Expr
  | [] => []
  | e :: es => shape e :: shapeL es
end

@[simp] theorem zt_text (t : Tok) : (zt t).text = t.text := rfl
@[simp] theorem zt_cat (t : Tok) : (zt t).cat = t.cat := rfl
@[simp] theorem zt_pos (t : Tok) : (zt t).pos = 0 := rfl
@[simp] theorem zp_nat (n : Nat) : zp (n : Int) = 0 := by
  unfold zp; rw [if_neg (by omega)]
@[simp] theorem zp_neg_one : zp (-1) = -1 := by decide
@[simp] theorem zp_zero : zp 0 = 0 := by decide

@[simp] theorem shapeL_nil : shapeL [] = [] := by simp [shapeL]
@[simp] theorem shapeL_cons (e : Expr) (es : List Expr) : shapeL (e :: es) = shape e :: shapeL es := by
  simp [shapeL]

theorem shapeL_append (a b : List Expr) : shapeL (a ++ b) = shapeL a ++ shapeL b := by
  induction a with
  | nil => simp
  | cons e es ih => simp [ih]

mutual
/-- Serialisation does not look at positions. -/
theorem ser_shape : ∀ e : Expr, ser (shape e) = ser e
  | .text s p => by simp [shape, ser]
  | .cmd n a b p => by simp [shape, ser, serL_shapeL a, serL_shapeL b]
  | .nenv n a b p => by simp [shape, ser, serL_shapeL a, serL_shapeL b]
  | .math k b p => by simp [shape, ser, serL_shapeL b]
  | .group k b p => by simp [shape, ser, serL_shapeL b]
theorem serL_shapeL : ∀ es : List Expr, serL (shapeL es) = serL es
  | [] => by simp [serL]
  | e :: es => by simp [serL, ser_shape e, serL_shapeL es]
end

theorem string_shape (e : Expr) : (shape e).string = e.string := by
  cases e <;> simp [shape, Expr.string, Expr.body, serL_shapeL, serL]

/-- equal shapes serialise equally -/
theorem serL_of_shapeL_eq {a b : List Expr} (h : shapeL a = shapeL b) : serL a = serL b := by
  rw [← serL_shapeL a, ← serL_shapeL b, h]

theorem flat_map_zt (ts : List Tok) : flat (ts.map zt) = flat ts := by
  induction ts with
  | nil => rfl
  | cons t r ih => simp [flat, ih]

theorem bufStartsWith_map_zt (s : Str) (ts : List Tok) :
    bufStartsWith s (ts.map zt) = bufStartsWith s ts := by
  unfold bufStartsWith
  rw [← List.map_take, flat_map_zt]

theorem skipBody_map_zt (mk : Str) : ∀ ts : List Tok,
    skipBody mk (ts.map zt) = ((skipBody mk ts).1.map zt, (skipBody mk ts).2.map zt) := by
  intro ts
  induction ts with
  | nil => simp [skipBody]
  | cons t r ih =>
    have hb := bufStartsWith_map_zt mk (t :: r)
    simp only [List.map_cons] at hb ⊢
    unfold skipBody
    rw [hb]
    by_cases h : bufStartsWith mk (t :: r) = true
    · simp [h]
    · simp only [h, Bool.false_eq_true, if_false]
      rw [ih]
      rfl

theorem readSpacer_map_zt (ts : List Tok) :
    readSpacer (ts.map zt) = ((readSpacer ts).1, (readSpacer ts).2.map zt) := by
  cases ts with
  | nil => rfl
  | cons t r =>
    simp only [List.map_cons, readSpacer, zt_cat]
    by_cases h : (t.cat == TC.MergedSpacer) = true <;> simp [h]

theorem nextIs_map_zt (c : TC) (ts : List Tok) : nextIs c (ts.map zt) = nextIs c ts := by
  cases ts <;> simp [nextIs]

/-- The result of a reader with positions erased. -/
def Res.mapZ {α : Type} (g : α → α) (x : Res α) : Res α :=
  match x with
  | .error e => .error e
  | .ok (a, ts) => .ok (g a, ts.map zt)

@[simp] theorem Res.mapZ_ok {α : Type} (g : α → α) (a : α) (ts : List Tok) :
    Res.mapZ g (.ok (a, ts)) = .ok (g a, ts.map zt) := rfl
@[simp] theorem Res.mapZ_error {α : Type} (g : α → α) (e : Err) :
    Res.mapZ g (.error e : Res α) = .error e := rfl

/-- sequencing commutes with erasing positions -/
theorem Res.bind_mapZ {α β : Type} {x : Res α} {g : α → α} {g' : β → β}
    {k k' : α → List Tok → Res β}
    (h : ∀ a ts, k (g a) (ts.map zt) = (k' a ts).mapZ g') :
    (x.mapZ g).bind k = (x.bind k').mapZ g' := by
  cases x with
  | error e => rfl
  | ok v => obtain ⟨a, ts⟩ := v; exact h a ts

theorem readSkipEnv_zt (name : Str) (args : List Expr) (pos : Int) (ts : List Tok) :
    readSkipEnv name (shapeL args) (zp pos) (ts.map zt) =
      (readSkipEnv name args pos ts).mapZ shape := by
  unfold readSkipEnv
  rw [skipBody_map_zt]
  simp only [bufStartsWith_map_zt]
  by_cases h : bufStartsWith (endMarker name) (skipBody (endMarker name) ts).2 = true
  · simp only [h, if_true, Res.mapZ_ok, flat_map_zt, shape, shapeL_cons, shapeL_nil, List.map_drop]
    cases ts <;> simp
  · simp only [h, Bool.false_eq_true, if_false, Res.mapZ_error]

/-- The statement for all reader functions at one fuel. -/
def PosFreeAt (f : Nat) : Prop :=
  (∀ skip tol mode ts, readExpr f skip tol mode (ts.map zt) = (readExpr f skip tol mode ts).mapZ shape) ∧
  (∀ ts, readItem f (ts.map zt) = (readItem f ts).mapZ shapeL) ∧
  (∀ k pos tol ts, readMathEnv f k (zp pos) tol (ts.map zt) = (readMathEnv f k pos tol ts).mapZ shape) ∧
  (∀ k tol ts, readMathBody f k tol (ts.map zt) = (readMathBody f k tol ts).mapZ shapeL) ∧
  (∀ name args pos skip tol mode ts, readEnv f name (shapeL args) (zp pos) skip tol mode (ts.map zt) =
      (readEnv f name args pos skip tol mode ts).mapZ shape) ∧
  (∀ skip tol mode ts, readEnvBody f skip tol mode (ts.map zt) =
      (readEnvBody f skip tol mode ts).mapZ fun be => (shapeL be.1, be.2.map shapeL)) ∧
  (∀ nreq nopt tol mode ts, readCommand f nreq nopt tol mode (ts.map zt) =
      (readCommand f nreq nopt tol mode ts).mapZ fun na => (zt na.1, shapeL na.2)) ∧
  (∀ nreq nopt tol mode ts, readArgs f nreq nopt tol mode (ts.map zt) =
      (readArgs f nreq nopt tol mode ts).mapZ shapeL) ∧
  (∀ n tol mode ts, readArgOpt f n tol mode (ts.map zt) =
      (readArgOpt f n tol mode ts).mapZ fun gn => (shapeL gn.1, gn.2)) ∧
  (∀ n tol mode ts, readArgReq f n tol mode (ts.map zt) =
      (readArgReq f n tol mode ts).mapZ fun gn => (shapeL gn.1, gn.2)) ∧
  (∀ k pos tol mode ts, readArg f k (zp pos) tol mode (ts.map zt) =
      (readArg f k pos tol mode ts).mapZ shape) ∧
  (∀ k tol mode ts, readArgBody f k tol mode (ts.map zt) = (readArgBody f k tol mode ts).mapZ shapeL)

theorem posFreeAt_zero : PosFreeAt 0 := by
  refine ⟨?_, ?_, ?_, ?_, ?_, ?_, ?_, ?_, ?_, ?_, ?_, ?_⟩ <;> intros <;>
    simp [readExpr, readItem, readMathEnv, readMathBody, readEnv, readEnvBody, readCommand,
      readArgs, readArgOpt, readArgReq, readArg, readArgBody]

theorem zt_pos_cast (c : Tok) : ((zt c).pos : Int) = zp (c.pos : Int) := by
  rw [zp_nat]; rfl

section
variable (f : Nat) (ih : PosFreeAt f)
include ih

theorem pf_readExpr : ∀ skip tol mode ts,
    readExpr (f+1) skip tol mode (ts.map zt) = (readExpr (f+1) skip tol mode ts).mapZ shape := by
  intro skip tol mode ts
  obtain ⟨hE, hI, hME, hMB, hEnv, hEB, hC, hAs, hAO, hAR, hA, hAB⟩ := ih
  cases ts with
  | nil => unfold readExpr; rfl
  | cons c ts =>
    simp only [List.map_cons]
    unfold readExpr
    dsimp only [zt_cat, zt_text]
    simp only [zt_pos_cast]
    cases hk : mkindOfBegin c.cat with
    | some k => exact hME k c.pos tol ts
    | none =>
      simp only
      by_cases hesc : (c.cat == TC.Escape) = true
      · simp only [hesc, if_true]; rw [hC]
        refine Res.bind_mapZ ?_
        intro na ts1
        dsimp only [zt_text]
        by_cases hitem : (na.1.text == sItem) = true
        · simp only [hitem, if_true]
          by_cases hm : (mode == Mode.math) = true
          · simp only [hm, if_true]; rfl
          · simp only [hm, Bool.false_eq_true, if_false]; rw [hI]
            refine Res.bind_mapZ ?_
            intro body ts2
            simp [shape]
        · simp only [hitem, Bool.false_eq_true, if_false]
          by_cases hb : (na.1.text == sBegin && mode != Mode.special) = true
          · simp only [hb, if_true]
            cases hargs : na.2 with
            | nil => simp
            | cons a0 as =>
              simp only [shapeL_cons, string_shape]
              by_cases hs : memStr (strip a0.string) skip = true
              · simp only [hs, if_true]; exact readSkipEnv_zt _ _ _ _
              · simp only [hs, Bool.false_eq_true, if_false]; exact hEnv _ _ _ _ _ _ _
          · simp only [hb, Bool.false_eq_true, if_false]
            simp [shape]
      · simp only [hesc, Bool.false_eq_true, if_false]
        by_cases hg : (c.cat == TC.GroupBegin) = true
        · simp only [hg, if_true]; exact hA _ _ _ _ _
        · simp only [hg, Bool.false_eq_true, if_false]; simp [shape]

theorem pf_readItem : ∀ ts, readItem (f+1) (ts.map zt) = (readItem (f+1) ts).mapZ shapeL := by
  intro ts
  obtain ⟨hE, hI, hME, hMB, hEnv, hEB, hC, hAs, hAO, hAR, hA, hAB⟩ := ih
  cases ts with
  | nil => unfold readItem; rfl
  | cons t r =>
    have hcons : zt t :: List.map zt r = List.map zt (t :: r) := rfl
    simp only [List.map_cons]
    unfold readItem
    dsimp only [zt_cat]
    have hloop : ((readExpr f [] false Mode.nonMath (zt t :: List.map zt r)).bind fun e ts1 =>
          (readItem f ts1).bind fun es ts2 => Except.ok (e :: es, ts2)) =
        ((readExpr f [] false Mode.nonMath (t :: r)).bind fun e ts1 =>
          (readItem f ts1).bind fun es ts2 => Except.ok (e :: es, ts2)).mapZ shapeL := by
      rw [hcons, hE]
      refine Res.bind_mapZ ?_
      intro e ts1
      rw [hI]
      refine Res.bind_mapZ ?_
      intro es ts2
      simp
    by_cases hesc : (t.cat == TC.Escape) = true
    · simp only [hesc, if_true]; rw [hC]
      refine Res.bind_mapZ ?_
      intro na ts1
      dsimp only [zt_text]
      by_cases hend : (na.1.text == sEnd || na.1.text == sItem) = true
      · simp only [hend, if_true]; simp
      · simp only [hend, Bool.false_eq_true, if_false]; exact hloop
    · simp only [hesc, Bool.false_eq_true, if_false]
      by_cases hge : (t.cat == TC.GroupEnd) = true
      · simp only [hge, if_true]; simp
      · simp only [hge, Bool.false_eq_true, if_false]; exact hloop

theorem pf_readMathEnv : ∀ k pos tol ts,
    readMathEnv (f+1) k (zp pos) tol (ts.map zt) = (readMathEnv (f+1) k pos tol ts).mapZ shape := by
  intro k pos tol ts
  obtain ⟨hE, hI, hME, hMB, hEnv, hEB, hC, hAs, hAO, hAR, hA, hAB⟩ := ih
  unfold readMathEnv
  rw [hMB]
  refine Res.bind_mapZ ?_
  intro body ts1
  cases ts1 with
  | nil => rfl
  | cons t r =>
    simp only [List.map_cons, zt_cat]
    by_cases h : (t.cat == k.tokEnd) = true
    · simp only [h, if_true]; simp [shape]
    · simp only [h, Bool.false_eq_true, if_false]; rfl

theorem pf_readMathBody : ∀ k tol ts,
    readMathBody (f+1) k tol (ts.map zt) = (readMathBody (f+1) k tol ts).mapZ shapeL := by
  intro k tol ts
  obtain ⟨hE, hI, hME, hMB, hEnv, hEB, hC, hAs, hAO, hAR, hA, hAB⟩ := ih
  cases ts with
  | nil => unfold readMathBody; rfl
  | cons t r =>
    have hcons : zt t :: List.map zt r = List.map zt (t :: r) := rfl
    simp only [List.map_cons]
    unfold readMathBody
    dsimp only [zt_cat]
    by_cases h : (t.cat == k.tokEnd) = true
    · simp only [h, if_true]; simp
    · simp only [h, Bool.false_eq_true, if_false]; rw [hcons, hE]
      refine Res.bind_mapZ ?_
      intro e ts1
      rw [hMB]
      refine Res.bind_mapZ ?_
      intro es ts2
      simp

theorem pf_readEnv : ∀ name args pos skip tol mode ts,
    readEnv (f+1) name (shapeL args) (zp pos) skip tol mode (ts.map zt) =
      (readEnv (f+1) name args pos skip tol mode ts).mapZ shape := by
  intro name args pos skip tol mode ts
  obtain ⟨hE, hI, hME, hMB, hEnv, hEB, hC, hAs, hAO, hAR, hA, hAB⟩ := ih
  unfold readEnv
  rw [hEB]
  refine Res.bind_mapZ ?_
  intro be ts1
  have herr : envError name (Option.map shapeL be.2) = envError name be.2 := by
    cases h : be.2 with
    | none => rfl
    | some l =>
      cases l with
      | nil => rfl
      | cons a0 as => simp [envError, string_shape]
  simp only [herr]
  by_cases he : envError name be.2 = true
  · simp only [he, if_true]
    cases tol <;> simp [shape]
  · simp only [he, Bool.false_eq_true, if_false]
    cases ts1 with
    | nil => rfl
    | cons t0 r0 =>
      simp only [List.map_cons]
      rw [hC]
      refine Res.bind_mapZ ?_
      intro na ts2
      simp [shape]

theorem pf_readEnvBody : ∀ skip tol mode ts,
    readEnvBody (f+1) skip tol mode (ts.map zt) =
      (readEnvBody (f+1) skip tol mode ts).mapZ fun be => (shapeL be.1, be.2.map shapeL) := by
  intro skip tol mode ts
  obtain ⟨hE, hI, hME, hMB, hEnv, hEB, hC, hAs, hAO, hAR, hA, hAB⟩ := ih
  cases ts with
  | nil => unfold readEnvBody; rfl
  | cons t r =>
    have hcons : zt t :: List.map zt r = List.map zt (t :: r) := rfl
    simp only [List.map_cons]
    unfold readEnvBody
    dsimp only [zt_cat]
    have hloop : ((readExpr f skip tol mode (zt t :: List.map zt r)).bind fun e ts1 =>
          (readEnvBody f skip tol mode ts1).bind fun be ts2 => Except.ok ((e :: be.1, be.2), ts2)) =
        ((readExpr f skip tol mode (t :: r)).bind fun e ts1 =>
          (readEnvBody f skip tol mode ts1).bind fun be ts2 =>
            Except.ok ((e :: be.1, be.2), ts2)).mapZ fun be => (shapeL be.1, be.2.map shapeL) := by
      rw [hcons, hE]
      refine Res.bind_mapZ ?_
      intro e ts1
      rw [hEB]
      refine Res.bind_mapZ ?_
      intro be ts2
      simp
    by_cases hesc : (t.cat == TC.Escape) = true
    · simp only [hesc, if_true]; rw [hC]
      refine Res.bind_mapZ ?_
      intro na ts1
      dsimp only [zt_text]
      by_cases hend : (na.1.text == sEnd) = true
      · simp only [hend, if_true]; simp
      · simp only [hend, Bool.false_eq_true, if_false]; exact hloop
    · simp only [hesc, Bool.false_eq_true, if_false]; exact hloop

theorem pf_readCommand : ∀ nreq nopt tol mode ts,
    readCommand (f+1) nreq nopt tol mode (ts.map zt) =
      (readCommand (f+1) nreq nopt tol mode ts).mapZ fun na => (zt na.1, shapeL na.2) := by
  intro nreq nopt tol mode ts
  obtain ⟨hE, hI, hME, hMB, hEnv, hEB, hC, hAs, hAO, hAR, hA, hAB⟩ := ih
  cases ts with
  | nil =>
    unfold readCommand
    simp only [List.map_nil]
    have := hAs (cmdSig nreq nopt []).1 (cmdSig nreq nopt []).2 tol (cmdMode [] mode) []
    simp only [List.map_nil] at this
    cases hr : readArgs f (cmdSig nreq nopt []).1 (cmdSig nreq nopt []).2 tol (cmdMode [] mode) [] with
    | error e => rfl
    | ok v =>
      obtain ⟨args, ts2⟩ := v
      rw [hr] at this
      simp only [Res.mapZ_ok, Except.ok.injEq, Prod.mk.injEq] at this
      simp only [Res.bind_ok, Res.mapZ_ok]
      rw [← this.1, ← this.2]
      rfl
  | cons n r =>
    simp only [List.map_cons]
    unfold readCommand
    dsimp only [zt_text]
    rw [hAs]
    refine Res.bind_mapZ ?_
    intro args ts2
    rfl

theorem pf_readArgs : ∀ nreq nopt tol mode ts,
    readArgs (f+1) nreq nopt tol mode (ts.map zt) = (readArgs (f+1) nreq nopt tol mode ts).mapZ shapeL := by
  intro nreq nopt tol mode ts
  obtain ⟨hE, hI, hME, hMB, hEnv, hEB, hC, hAs, hAO, hAR, hA, hAB⟩ := ih
  unfold readArgs
  by_cases h0 : (nreq == 0 && nopt == 0) = true
  · simp only [h0, if_true]; simp
  · simp only [h0, Bool.false_eq_true, if_false]; rw [hAO]
    refine Res.bind_mapZ ?_
    intro an1 ts1
    rw [hAR]
    refine Res.bind_mapZ ?_
    intro an2 ts2
    have h3 : (if nextIs TC.BracketBegin (List.map zt ts2) = true then readArgOpt f an1.2 tol mode (List.map zt ts2)
        else Except.ok (([], an1.2), List.map zt ts2)) =
        (if nextIs TC.BracketBegin ts2 = true then readArgOpt f an1.2 tol mode ts2
          else Except.ok (([], an1.2), ts2)).mapZ fun gn => (shapeL gn.1, gn.2) := by
      rw [nextIs_map_zt]
      by_cases hb : nextIs TC.BracketBegin ts2 = true
      · simp only [hb, if_true]; exact hAO _ _ _ _
      · simp only [hb, Bool.false_eq_true, if_false]; simp
    simp only
    rw [h3]
    refine Res.bind_mapZ ?_
    intro an3 ts3
    have h4 : (if nextIs TC.GroupBegin (List.map zt ts3) = true then readArgReq f an2.2 tol mode (List.map zt ts3)
        else Except.ok (([], an2.2), List.map zt ts3)) =
        (if nextIs TC.GroupBegin ts3 = true then readArgReq f an2.2 tol mode ts3
          else Except.ok (([], an2.2), ts3)).mapZ fun gn => (shapeL gn.1, gn.2) := by
      rw [nextIs_map_zt]
      by_cases hb : nextIs TC.GroupBegin ts3 = true
      · simp only [hb, if_true]; exact hAR _ _ _ _
      · simp only [hb, Bool.false_eq_true, if_false]; simp
    simp only
    rw [h4]
    refine Res.bind_mapZ ?_
    intro an4 ts4
    simp [shapeL_append]

theorem pf_readArgOpt : ∀ n tol mode ts,
    readArgOpt (f+1) n tol mode (ts.map zt) =
      (readArgOpt (f+1) n tol mode ts).mapZ fun gn => (shapeL gn.1, gn.2) := by
  intro n tol mode ts
  obtain ⟨hE, hI, hME, hMB, hEnv, hEB, hC, hAs, hAO, hAR, hA, hAB⟩ := ih
  unfold readArgOpt
  by_cases h0 : (n == 0) = true
  · simp only [h0, if_true]; simp
  · simp only [h0, Bool.false_eq_true, if_false]; rw [readSpacer_map_zt]
    cases hs : (readSpacer ts).2 with
    | nil => simp
    | cons o r =>
      simp only [List.map_cons, zt_cat, zt_pos_cast]
      by_cases hb : (o.cat == TC.BracketBegin) = true
      · simp only [hb, if_true]; rw [hA]
        refine Res.bind_mapZ ?_
        intro g ts1
        rw [hAO]
        refine Res.bind_mapZ ?_
        intro gn ts2
        simp
      · simp only [hb, Bool.false_eq_true, if_false]; simp

theorem pf_readArgReq : ∀ n tol mode ts,
    readArgReq (f+1) n tol mode (ts.map zt) =
      (readArgReq (f+1) n tol mode ts).mapZ fun gn => (shapeL gn.1, gn.2) := by
  intro n tol mode ts
  obtain ⟨hE, hI, hME, hMB, hEnv, hEB, hC, hAs, hAO, hAR, hA, hAB⟩ := ih
  unfold readArgReq
  by_cases h0 : (n == 0) = true
  · simp only [h0, if_true]; simp
  · simp only [h0, Bool.false_eq_true, if_false]; rw [readSpacer_map_zt]
    cases hs : (readSpacer ts).2 with
    | nil => simp
    | cons o r =>
      simp only [List.map_cons, zt_cat, zt_text, zt_pos_cast]
      by_cases hb : (o.cat == TC.GroupBegin) = true
      · simp only [hb, if_true]; rw [hA]
        refine Res.bind_mapZ ?_
        intro g ts1
        rw [hAR]
        refine Res.bind_mapZ ?_
        intro gn ts2
        simp
      · simp only [hb, Bool.false_eq_true, if_false]
        by_cases hpos : n > 0
        · simp only [hpos, if_true]
          by_cases hesc : (o.cat == TC.Escape) = true
          · simp only [hesc, if_true]; rw [hC]
            refine Res.bind_mapZ ?_
            intro na ts1
            rw [hAR]
            refine Res.bind_mapZ ?_
            intro gn ts2
            simp [shape]
          · simp only [hesc, Bool.false_eq_true, if_false]; rw [hAR]
            refine Res.bind_mapZ ?_
            intro gn ts2
            simp [shape]
        · simp only [hpos, if_false]; simp

theorem pf_readArg : ∀ k pos tol mode ts,
    readArg (f+1) k (zp pos) tol mode (ts.map zt) = (readArg (f+1) k pos tol mode ts).mapZ shape := by
  intro k pos tol mode ts
  obtain ⟨hE, hI, hME, hMB, hEnv, hEB, hC, hAs, hAO, hAR, hA, hAB⟩ := ih
  unfold readArg
  rw [hAB]
  refine Res.bind_mapZ ?_
  intro body ts1
  simp [shape]

theorem pf_readArgBody : ∀ k tol mode ts,
    readArgBody (f+1) k tol mode (ts.map zt) = (readArgBody (f+1) k tol mode ts).mapZ shapeL := by
  intro k tol mode ts
  obtain ⟨hE, hI, hME, hMB, hEnv, hEB, hC, hAs, hAO, hAR, hA, hAB⟩ := ih
  cases ts with
  | nil => unfold readArgBody; cases tol <;> rfl
  | cons t r =>
    have hcons : zt t :: List.map zt r = List.map zt (t :: r) := rfl
    simp only [List.map_cons]
    unfold readArgBody
    dsimp only [zt_cat]
    by_cases h : (t.cat == k.tokEnd) = true
    · simp only [h, if_true]; simp
    · simp only [h, Bool.false_eq_true, if_false]; rw [hcons, hE]
      refine Res.bind_mapZ ?_
      intro e ts1
      rw [hAB]
      refine Res.bind_mapZ ?_
      intro es ts2
      simp

end

theorem posFreeAt (f : Nat) : PosFreeAt f := by
  induction f with
  | zero => exact posFreeAt_zero
  | succ f ih =>
    exact ⟨pf_readExpr f ih, pf_readItem f ih, pf_readMathEnv f ih, pf_readMathBody f ih,
      pf_readEnv f ih, pf_readEnvBody f ih, pf_readCommand f ih, pf_readArgs f ih,
      pf_readArgOpt f ih, pf_readArgReq f ih, pf_readArg f ih, pf_readArgBody f ih⟩

/-- `read_tex` on position-free tokens gives the position-free tree. -/
theorem readTex_zt : ∀ (f : Nat) (skip : List Str) (tol : Bool) (ts : List Tok),
    readTex f skip tol (ts.map zt) = (readTex f skip tol ts).map shapeL := by
  intro f
  induction f with
  | zero => intro skip tol ts; rfl
  | succ f ih =>
    intro skip tol ts
    cases ts with
    | nil => unfold readTex; rfl
    | cons t r =>
      have hcons : zt t :: List.map zt r = List.map zt (t :: r) := rfl
      simp only [List.map_cons]
      unfold readTex
      simp only
      rw [hcons, (posFreeAt f).1]
      cases he : readExpr f skip tol Mode.nonMath (t :: r) with
      | error e => rfl
      | ok v =>
        obtain ⟨e, ts1⟩ := v
        simp only [Res.mapZ_ok]
        rw [ih]
        cases readTex f skip tol ts1 with
        | error e' => rfl
        | ok es => simp [Except.map]

/-- **Token lists that agree in texts and categories are read to trees of the same shape**
(and one is read successfully iff the other is, with the same diagnostic). -/
theorem readTex_same_keys {f : Nat} {skip : List Str} {tol : Bool} {ts ts' : List Tok}
    (h : ts.map zt = ts'.map zt) :
    (readTex f skip tol ts).map shapeL = (readTex f skip tol ts').map shapeL := by
  rw [← readTex_zt, ← readTex_zt, h]

end TexSoup
