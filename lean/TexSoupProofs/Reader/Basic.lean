import TexSoupModel.Read
/-!
# Basic lemmas about the reader combinators
-/
namespace TexSoup

@[simp] theorem Res.bind_ok {α β : Type} (a : α) (ts : List Tok) (k : α → List Tok → Res β) :
    Res.bind (.ok (a, ts)) k = k a ts := rfl

@[simp] theorem Res.bind_error {α β : Type} (e : Err) (k : α → List Tok → Res β) :
    Res.bind (.error e : Res α) k = .error e := rfl

theorem Res.bind_eq_ok {α β : Type} {x : Res α} {k : α → List Tok → Res β} {r : β × List Tok} :
    x.bind k = .ok r ↔ ∃ a ts, x = .ok (a, ts) ∧ k a ts = .ok r := by
  cases x with
  | error e => simp
  | ok v =>
    obtain ⟨a, ts⟩ := v
    simp only [Res.bind_ok, Except.ok.injEq, Prod.mk.injEq, reduceCtorEq, false_or]
    constructor
    · intro h; exact ⟨a, ts, ⟨rfl, rfl⟩, h⟩
    · rintro ⟨a', ts', ⟨rfl, rfl⟩, h⟩; exact h

theorem Res.bind_eq_error {α β : Type} {x : Res α} {k : α → List Tok → Res β} {e : Err} :
    x.bind k = .error e ↔ x = .error e ∨ ∃ a ts, x = .ok (a, ts) ∧ k a ts = .error e := by
  cases x with
  | error e' => simp
  | ok v =>
    obtain ⟨a, ts⟩ := v
    simp only [Res.bind_ok, Except.ok.injEq, Prod.mk.injEq, reduceCtorEq, false_or]
    constructor
    · intro h; exact ⟨a, ts, ⟨rfl, rfl⟩, h⟩
    · rintro ⟨a', ts', ⟨rfl, rfl⟩, h⟩; exact h

end TexSoup
