import TexSoupProofs.EditLemmas
/-!
# Edit lemmas, part 2: what `getAt` sees after an edit (untouched nodes, re-indexing)
-/
namespace TexSoup.Edit

/-! ## What `getAt` sees after an edit -/

theorem sameHolder_holderList {e : Expr} {s st : Step} (h : s.sameHolder st = true) :
    holderList e s = holderList e st := by
  cases s <;> cases st <;> simp_all [Step.sameHolder, holderList]

theorem sameHolder_eq {s st : Step} (h : s.sameHolder st = true) (hi : s.idx = st.idx) : s = st := by
  cases s <;> cases st <;> simp_all [Step.sameHolder, Step.idx]

theorem sameHolder_refl (s : Step) : s.sameHolder s = true := by
  cases s <;> simp [Step.sameHolder]

theorem sameHolder_withIdx (s : Step) (j : Nat) : (s.withIdx j).sameHolder s = true := by
  cases s <;> simp [Step.sameHolder, Step.withIdx]

theorem idx_withIdx (s : Step) (j : Nat) : (s.withIdx j).idx = j := by
  cases s <;> simp [Step.withIdx, Step.idx]

theorem withIdx_idx (s : Step) : s.withIdx s.idx = s := by
  cases s <;> simp [Step.withIdx, Step.idx]

/-- Children of a node after an edit of one of its holders. -/
theorem stepGet_editHolder {e e' : Expr} {st : Step} {l l' : List Expr}
    {g : Nat → List Expr → Option (List Expr)}
    (hl : holderList e st = some l) (hg : g st.idx l = some l')
    (he : editHolder e st g = some e') (s : Step) :
    stepGet e' s = if s.sameHolder st then l'[s.idx]? else stepGet e s := by
  obtain ⟨C, D, _, _, hedit⟩ := holder_frame hl
  obtain ⟨e'', he'', _, hl', hb, ha⟩ := hedit g l' hg
  rw [he] at he''; injection he'' with he''; subst he''
  by_cases hs : s.sameHolder st = true
  · rw [if_pos hs, holderList_stepGet (by rw [sameHolder_holderList hs]; exact hl')]
  · rw [if_neg hs]
    -- a different holder: untouched
    cases st with
    | body j =>
      simp only [holderList] at hl
      split at hl
      · rename_i hbody
        injection hl with hl; subst hl
        simp only [editHolder, Step.idx] at he hg
        rw [hg] at he; injection he with he; subst he
        cases s with
        | body j' => simp [Step.sameHolder] at hs
        | arg i' j' => simp [stepGet]
      · cases hl
    | arg i j =>
      simp only [holderList] at hl
      split at hl
      · rename_i a hai
        split at hl
        · injection hl with hl; subst hl
          simp only [editHolder, Step.idx, hai] at he hg
          rw [hg] at he; injection he with he; subst he
          have hA := hasArgs_of_args_get hai
          cases s with
          | body j' => simp [stepGet]
          | arg i' j' =>
            have hne : i ≠ i' := by
              intro h; subst h; simp [Step.sameHolder] at hs
            simp [stepGet, hA, hne]
        · cases hl
      · cases hl

/-- Below the edited node. -/
theorem getAt_updAt_below {q : Path} {f : Expr → Option Expr} : ∀ {e e' y y' : Expr},
    getAt e q = some y → f y = some y' → updAt e q f = some e' →
    ∀ r, getAt e' (q ++ r) = getAt y' r := by
  intro e e' y y' h hf hu r
  obtain ⟨_, _, _, _, hupd⟩ := updAt_frame h
  obtain ⟨e'', he'', _, hget⟩ := hupd f y' hf
  rw [hu] at he''; injection he'' with he''; subst he''
  rw [getAt_append, hget]

/-- Paths that leave the path to the edited node are not affected. -/
theorem getAt_updAt_diverge {q : Path} {f : Expr → Option Expr} : ∀ {e e' : Expr} {r : Path},
    updAt e q f = some e' → ¬ q <+: r → ¬ r <+: q → getAt e' r = getAt e r := by
  induction q with
  | nil => intro e e' r _ h; exact absurd List.nil_prefix h
  | cons st q ih =>
    intro e e' r hu h1 h2
    cases r with
    | nil => exact absurd List.nil_prefix h2
    | cons s r =>
      rw [updAt_cons] at hu
      split at hu
      · rename_i x hx
        split at hu
        · rename_i x' hx'
          obtain ⟨l, hl, hlx⟩ := stepGet_holder hx
          have hsg := stepGet_editHolder (g := fun j l => some (l.set j x')) hl rfl hu
          rw [getAt_cons, getAt_cons, hsg s]
          by_cases hs : s = st
          · subst hs
            have hj : s.idx < l.length := (List.getElem?_eq_some_iff.mp hlx).1
            simp only [sameHolder_refl, if_true, List.getElem?_set, hj, hx]
            apply ih hx'
            · intro hp; exact h1 (by simpa using hp)
            · intro hp; exact h2 (by simpa using hp)
          · by_cases hsh : s.sameHolder st = true
            · have hne : st.idx ≠ s.idx := fun h => hs (sameHolder_eq hsh h.symm)
              rw [if_pos hsh, List.getElem?_set, if_neg hne,
                ← holderList_stepGet (by rw [sameHolder_holderList hsh]; exact hl)]
            · rw [if_neg hsh]
        · cases hu
      · cases hu

/-- Re-indexing of a path after `d` elements at place `st` of the node at `q` have been
replaced by `n` elements: siblings after the edit point move by `n - d`. -/
def reindex : Path → Step → Nat → Nat → Path → Path
  | [], st, d, n, s :: rest =>
    if s.sameHolder st && st.idx + d ≤ s.idx then s.withIdx (s.idx - d + n) :: rest else s :: rest
  | [], _, _, _, [] => []
  | t :: q, st, d, n, s :: rest => if s = t then s :: reindex q st d n rest else s :: rest
  | _ :: _, _, _, _, [] => []

/-- `r` is neither the node at `q` or one of its ancestors, nor one of the `d` removed
elements (or below one). -/
def untouched : Path → Step → Nat → Path → Bool
  | [], st, d, s :: _ => !(s.sameHolder st && st.idx ≤ s.idx && s.idx < st.idx + d)
  | [], _, _, [] => false
  | t :: q, st, d, s :: rest => if s = t then untouched q st d rest else true
  | _ :: _, _, _, [] => false

theorem getElem?_spliceList_before {l ns : List Expr} {j d i : Nat} (hj : j ≤ l.length) (hi : i < j) :
    (spliceList j d ns l)[i]? = l[i]? := by
  unfold spliceList
  rw [List.getElem?_append_left (by rw [List.length_take]; omega), List.getElem?_take_of_lt hi]

theorem getElem?_spliceList_after {l ns : List Expr} {j d i : Nat} (hj : j + d ≤ l.length)
    (hi : j + d ≤ i) : (spliceList j d ns l)[i - d + ns.length]? = l[i]? := by
  unfold spliceList
  have hlt : (l.take j).length = j := by rw [List.length_take]; omega
  rw [List.getElem?_append_right (by omega), hlt, List.getElem?_append_right (by omega),
    List.getElem?_drop]
  congr 1; omega

theorem getElem?_spliceList_new {l ns : List Expr} {j d m : Nat} (hj : j ≤ l.length)
    (hm : m < ns.length) : (spliceList j d ns l)[j + m]? = ns[m]? := by
  unfold spliceList
  have hlt : (l.take j).length = j := by rw [List.length_take]; omega
  rw [List.getElem?_append_right (by omega), hlt, List.getElem?_append_left (by omega)]
  congr 1; omega

/-- Nodes that are not touched by a structural edit are found, unchanged, at the re-indexed
path. -/
theorem getAt_holderSplice {q : Path} {st : Step} {d : Nat} {ns : List Expr} :
    ∀ {e e' y : Expr} {l : List Expr} {r : Path},
    getAt e q = some y → holderList y st = some l → st.idx + d ≤ l.length →
    updAt e q (holderSpliceF st d ns) = some e' → untouched q st d r = true →
    getAt e' (reindex q st d ns.length r) = getAt e r := by
  induction q with
  | nil =>
    intro e e' y l r h hl hd hu hr
    simp only [getAt] at h; injection h with h; subst h
    cases r with
    | nil => simp [untouched] at hr
    | cons s rest =>
      simp only [updAt, holderSpliceF] at hu
      have hsg := stepGet_editHolder (l' := spliceList st.idx d ns l) hl (by simp [hd]) hu
      simp only [untouched] at hr
      simp only [reindex]
      by_cases hsh : s.sameHolder st = true
      · have hse : stepGet e s = l[s.idx]? :=
          holderList_stepGet (by rw [sameHolder_holderList hsh]; exact hl)
        by_cases hafter : st.idx + d ≤ s.idx
        · simp only [hsh, hafter, decide_true, Bool.and_self, if_true]
          rw [getAt_cons, getAt_cons, hsg, if_pos (by rw [← hsh]; cases s <;> cases st <;> simp [Step.withIdx, Step.sameHolder]),
            idx_withIdx, getElem?_spliceList_after hd hafter, hse]
        · simp only [hsh, hafter, decide_false, Bool.and_false, Bool.false_eq_true, ↓reduceIte]
          simp only [hsh, Bool.true_and, Bool.not_eq_true', Bool.and_eq_false_iff,
            decide_eq_false_iff_not] at hr
          have hbefore : s.idx < st.idx := by omega
          rw [getAt_cons, getAt_cons, hsg, if_pos hsh,
            getElem?_spliceList_before (by omega) hbefore, hse]
      · simp only [hsh, Bool.false_and, Bool.false_eq_true, ↓reduceIte]
        rw [getAt_cons, getAt_cons, hsg, if_neg hsh]
  | cons t q ih =>
    intro e e' y l r h hl hd hu hr
    cases r with
    | nil => simp [untouched] at hr
    | cons s rest =>
      rw [getAt_cons] at h
      rw [updAt_cons] at hu
      split at h
      · rename_i x hx
        simp only [hx] at hu
        split at hu
        · rename_i x' hx'
          obtain ⟨lt, hlt, hltx⟩ := stepGet_holder hx
          have hsg := stepGet_editHolder (g := fun j l => some (l.set j x')) hlt rfl hu
          have hj : t.idx < lt.length := (List.getElem?_eq_some_iff.mp hltx).1
          simp only [reindex, untouched] at hr ⊢
          by_cases hs : s = t
          · subst hs
            simp only [if_true] at hr ⊢
            rw [getAt_cons, getAt_cons, hsg, hx]
            simp only [sameHolder_refl, if_true, List.getElem?_set, hj]
            exact ih h hl hd hx' hr
          · simp only [hs, if_false]
            rw [getAt_cons, getAt_cons, hsg]
            by_cases hsh : s.sameHolder t = true
            · have hne : t.idx ≠ s.idx := fun h => hs (sameHolder_eq hsh h.symm)
              rw [if_pos hsh, List.getElem?_set, if_neg hne,
                ← holderList_stepGet (by rw [sameHolder_holderList hsh]; exact hlt)]
            · rw [if_neg hsh]
        · cases hu
      · cases h

/-- The inserted material is found at the edit point. -/
theorem getAt_holderSplice_new {q : Path} {st : Step} {d : Nat} {ns : List Expr}
    {e e' y : Expr} {l : List Expr}
    (h : getAt e q = some y) (hl : holderList y st = some l) (hd : st.idx + d ≤ l.length)
    (hu : updAt e q (holderSpliceF st d ns) = some e') (m : Nat) (hm : m < ns.length) :
    getAt e' (q ++ [st.withIdx (st.idx + m)]) = ns[m]? := by
  obtain ⟨_, _, _, _, y', hy', _, hl', _⟩ := holderSplice_frame d ns hl hd
  rw [getAt_updAt_below h hy' hu, getAt_singleton,
    holderList_stepGet (by rw [sameHolder_holderList (sameHolder_withIdx st _)]; exact hl'),
    idx_withIdx, getElem?_spliceList_new (by omega) hm]

end TexSoup.Edit
