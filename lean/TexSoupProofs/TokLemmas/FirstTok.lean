import TexSoupProofs.TokLemmas.Pass
import TexSoupProofs.TokLemmas.FirstMatch
/-!
# What the first pass returns for given leading characters

These lemmas unfold `pass Tables.tokenizerOrder` completely, so they depend on the generated
registration order.
-/
namespace TexSoup

/-! ## When a single tokenizer declines -/

section skips
variable (pt : Option TC) (prev : Option Ch) (c0 : Ch) (r : Str)

theorem escapedSymbols_skip (h : catOf c0 ≠ .Escape) :
    runTk .escapedSymbols pt prev (c0 :: r) = .skip 0 := by
  cases r <;> simp [runTk, h]

theorem comment_skip (h : catOf c0 ≠ .Comment) :
    runTk .comment pt prev (c0 :: r) = .skip 0 := by
  simp [runTk_comment, h]

theorem mathSymSwitch_skip (h : catOf c0 ≠ .MathSwitch) :
    runTk .mathSymSwitch pt prev (c0 :: r) = .skip 0 := by
  simp [runTk, h]

theorem mathAsymSwitch_skip (h : catOf c0 ≠ .Escape) :
    runTk .mathAsymSwitch pt prev (c0 :: r) = .skip 0 := by
  cases r <;> simp [runTk, h]

theorem lineBreak_skip (h : catOf c0 ≠ .Escape) :
    runTk .lineBreak pt prev (c0 :: r) = .skip 0 := by
  cases r <;> simp [runTk, h]

theorem ignore_skip (h : isIgnored (catOf c0) = false) :
    runTk .ignore pt prev (c0 :: r) = .skip 0 := by
  simp [runTk, countWhile, h]

theorem spacerRun_zero (h1 : catOf c0 ≠ .Spacer) (h2 : catOf c0 ≠ .EndOfLine) :
    spacerRun (c0 :: r) = 0 := by
  have hs : isSpacerCh c0 = false := by simp [isSpacerCh, h1]
  simp [spacerRun, countWhile, hs, h2]

theorem spacers_skip (h1 : catOf c0 ≠ .Spacer) (h2 : catOf c0 ≠ .EndOfLine) :
    runTk .spacers pt prev (c0 :: r) = .skip 0 := by
  simp [runTk, spacerRun_zero c0 r h1 h2]

theorem symbols_skip (h : symbolOf (catOf c0) = none) :
    runTk .symbols pt prev (c0 :: r) = .skip 0 := by
  simp [runTk, h]

theorem punctuation_skip_of_prev (h : ∀ p ∈ prev, catOf p ≠ .Escape) (rest : Str) :
    runTk .punctuationCommandName pt prev rest = .skip 0 := by
  cases prev with
  | none => simp [runTk]
  | some p => simp [runTk, h p rfl]

theorem commandName_skip_of_prev (h : ∀ p ∈ prev, catOf p ≠ .Escape) (rest : Str) :
    runTk .commandName pt prev rest = .skip 0 := by
  cases prev with
  | none => simp [runTk]
  | some p => cases rest <;> simp [runTk, h p rfl]

end skips

/-! ## Stepping through a pass -/

theorem pass_cons_of_skip {k : TkName} {ks : List TkName} {pt : Option TC} {prev : Option Ch}
    {pos : Nat} {c0 : Ch} {r : Str} (h : runTk k pt prev (c0 :: r) = .skip 0) :
    pass (k :: ks) pt ⟨prev, pos, c0 :: r⟩ = pass ks pt ⟨prev, pos, c0 :: r⟩ := by
  simp [pass, h]

theorem pass_cons_of_tok {k : TkName} {ks : List TkName} {pt : Option TC} {prev : Option Ch}
    {pos : Nat} {rest : Str} {n : Nat} {c : TC} (h : runTk k pt prev rest = .tok n c) :
    pass (k :: ks) pt ⟨prev, pos, rest⟩ =
      .tok ⟨rest.take n, pos, c⟩ ((⟨prev, pos, rest⟩ : TSt).adv n) := by
  simp [pass, h]

/-! ## Slicing helpers -/

theorem take_one_add_countWhile (p : Ch → Bool) (c0 : Ch) (r : Str) :
    (c0 :: r).take (1 + countWhile p r) = c0 :: r.takeWhile p := by
  rw [Nat.add_comm, List.take_succ_cons, take_countWhile]

theorem adv_one_add_countWhile (p : Ch → Bool) (prev : Option Ch) (pos : Nat) (c0 : Ch) (r : Str) :
    (⟨prev, pos, c0 :: r⟩ : TSt).adv (1 + countWhile p r) =
      ⟨lastD (r.takeWhile p) (some c0), pos + (1 + (r.takeWhile p).length), r.dropWhile p⟩ := by
  simp only [TSt.adv, take_one_add_countWhile, lastD_cons, List.length_cons]
  rw [Nat.add_comm 1 (countWhile p r), List.drop_succ_cons, drop_countWhile]
  simp [Nat.add_comm]

/-! ## First-token lemmas -/

/-- (a) An escape followed by an escapable character is one `EscapedComment` token. -/
theorem pass_escaped (pt : Option TC) (prev : Option Ch) (pos : Nat) (c0 c1 : Ch) (r : Str)
    (h0 : catOf c0 = .Escape) (h1 : isEscapable (catOf c1) = true) :
    pass Tables.tokenizerOrder pt ⟨prev, pos, c0 :: c1 :: r⟩ =
      .tok ⟨[c0, c1], pos, .EscapedComment⟩ ⟨some c1, pos + 2, r⟩ := by
  simp [Tables.tokenizerOrder, pass, runTk, h0, h1, TSt.adv, lastD]

/-- (b) A comment character starts a `Comment` token that runs up to (not including) the next
end-of-line character. -/
theorem pass_comment (pt : Option TC) (prev : Option Ch) (pos : Nat) (c0 : Ch) (r : Str)
    (h0 : catOf c0 = .Comment) :
    pass Tables.tokenizerOrder pt ⟨prev, pos, c0 :: r⟩ =
      .tok ⟨c0 :: r.takeWhile (fun c => catOf c != .EndOfLine), pos, .Comment⟩
        ⟨lastD (r.takeWhile (fun c => catOf c != .EndOfLine)) (some c0),
         pos + (1 + (r.takeWhile (fun c => catOf c != .EndOfLine)).length),
         r.dropWhile (fun c => catOf c != .EndOfLine)⟩ := by
  have he := escapedSymbols_skip pt prev c0 r (by rw [h0]; decide)
  simp only [Tables.tokenizerOrder, pass, he, TSt.adv_zero, List.isEmpty_cons, runTk_comment, h0,
    beq_self_eq_true, if_true, take_one_add_countWhile, adv_one_add_countWhile]
  simp

/-- (c₁) Two math-switch characters are one `DisplayMathSwitch` token. -/
theorem pass_mathSwitch_two (pt : Option TC) (prev : Option Ch) (pos : Nat) (c0 c1 : Ch) (r : Str)
    (h0 : catOf c0 = .MathSwitch) (h1 : catOf c1 = .MathSwitch) :
    pass Tables.tokenizerOrder pt ⟨prev, pos, c0 :: c1 :: r⟩ =
      .tok ⟨[c0, c1], pos, .DisplayMathSwitch⟩ ⟨some c1, pos + 2, r⟩ := by
  have he := escapedSymbols_skip pt prev c0 (c1 :: r) (by rw [h0]; decide)
  have hc := comment_skip pt prev c0 (c1 :: r) (by rw [h0]; decide)
  have ht : runTk .mathSymSwitch pt prev (c0 :: c1 :: r) = .tok 2 .DisplayMathSwitch := by
    simp [runTk, h0, h1]
  rw [Tables.tokenizerOrder, pass_cons_of_skip he, pass_cons_of_skip hc, pass_cons_of_tok ht]
  simp [TSt.adv, lastD]

/-- (c₂) A math-switch character not followed by another one is a `MathSwitch` token. -/
theorem pass_mathSwitch_one (pt : Option TC) (prev : Option Ch) (pos : Nat) (c0 : Ch) (r : Str)
    (h0 : catOf c0 = .MathSwitch) (h1 : ∀ c1 ∈ r.head?, catOf c1 ≠ .MathSwitch) :
    pass Tables.tokenizerOrder pt ⟨prev, pos, c0 :: r⟩ =
      .tok ⟨[c0], pos, .MathSwitch⟩ ⟨some c0, pos + 1, r⟩ := by
  have he := escapedSymbols_skip pt prev c0 r (by rw [h0]; decide)
  have hc := comment_skip pt prev c0 r (by rw [h0]; decide)
  have ht : runTk .mathSymSwitch pt prev (c0 :: r) = .tok 1 .MathSwitch := by
    cases r with
    | nil => simp [runTk, h0]
    | cons c1 r =>
      have h1' : catOf c1 ≠ .MathSwitch := h1 c1 rfl
      simp [runTk, h0, h1']
  rw [Tables.tokenizerOrder, pass_cons_of_skip he, pass_cons_of_skip hc, pass_cons_of_tok ht]
  simp [TSt.adv, lastD]

/-- `asymSwitch` answers only for brackets and parentheses, none of which is escapable. -/
theorem asymSwitch_not_escapable {cc : CC} {t : TC} (h : asymSwitch cc = some t) :
    isEscapable cc = false := by
  cases cc <;> simp [asymSwitch] at h <;> rfl

/-- (d) An escape followed by `[`, `]`, `(`, `)` is the corresponding math-group token. -/
theorem pass_asymSwitch (pt : Option TC) (prev : Option Ch) (pos : Nat) (c0 c1 : Ch) (r : Str)
    (t : TC) (h0 : catOf c0 = .Escape) (h1 : asymSwitch (catOf c1) = some t) :
    pass Tables.tokenizerOrder pt ⟨prev, pos, c0 :: c1 :: r⟩ =
      .tok ⟨[c0, c1], pos, t⟩ ⟨some c1, pos + 2, r⟩ := by
  have hne := asymSwitch_not_escapable h1
  have he : runTk .escapedSymbols pt prev (c0 :: c1 :: r) = .skip 0 := by simp [runTk, h0, hne]
  have hc := comment_skip pt prev c0 (c1 :: r) (by rw [h0]; decide)
  have hm := mathSymSwitch_skip pt prev c0 (c1 :: r) (by rw [h0]; decide)
  have ht : runTk .mathAsymSwitch pt prev (c0 :: c1 :: r) = .tok 2 t := by simp [runTk, h0, h1]
  rw [Tables.tokenizerOrder, pass_cons_of_skip he, pass_cons_of_skip hc, pass_cons_of_skip hm,
    pass_cons_of_tok ht]
  simp [TSt.adv, lastD]

/-- (e) A brace or square bracket is a one-character token of the corresponding kind. -/
theorem pass_symbol (pt : Option TC) (prev : Option Ch) (pos : Nat) (c0 : Ch) (r : Str) (t : TC)
    (h0 : catOf c0 ≠ .Escape) (hs : symbolOf (catOf c0) = some t) :
    pass Tables.tokenizerOrder pt ⟨prev, pos, c0 :: r⟩ =
      .tok ⟨[c0], pos, t⟩ ⟨some c0, pos + 1, r⟩ := by
  have hcat : catOf c0 ≠ .Comment ∧ catOf c0 ≠ .MathSwitch ∧ isIgnored (catOf c0) = false ∧
      catOf c0 ≠ .Spacer ∧ catOf c0 ≠ .EndOfLine := by
    cases hc : catOf c0 <;> simp [hc, symbolOf] at hs h0 <;> simp [isIgnored]
  obtain ⟨h1, h2, h3, h4, h5⟩ := hcat
  have ht : runTk .symbols pt prev (c0 :: r) = .tok 1 t := by simp [runTk, hs]
  rw [Tables.tokenizerOrder, pass_cons_of_skip (escapedSymbols_skip _ _ _ _ h0),
    pass_cons_of_skip (comment_skip _ _ _ _ h1), pass_cons_of_skip (mathSymSwitch_skip _ _ _ _ h2),
    pass_cons_of_skip (mathAsymSwitch_skip _ _ _ _ h0), pass_cons_of_skip (lineBreak_skip _ _ _ _ h0),
    pass_cons_of_skip (ignore_skip _ _ _ _ h3), pass_cons_of_skip (spacers_skip _ _ _ _ h4 h5),
    pass_cons_of_tok ht]
  simp [TSt.adv, lastD]

/-- (f) An escape that starts neither an escaped symbol nor a math group is a one-character
`Escape` token. -/
theorem pass_escape (pt : Option TC) (prev : Option Ch) (pos : Nat) (c0 : Ch) (r : Str)
    (h0 : catOf c0 = .Escape)
    (h1 : ∀ c1 ∈ r.head?, isEscapable (catOf c1) = false ∧ asymSwitch (catOf c1) = none) :
    pass Tables.tokenizerOrder pt ⟨prev, pos, c0 :: r⟩ =
      .tok ⟨[c0], pos, .Escape⟩ ⟨some c0, pos + 1, r⟩ := by
  have hc := comment_skip pt prev c0 r (by rw [h0]; decide)
  have hm := mathSymSwitch_skip pt prev c0 r (by rw [h0]; decide)
  have hi := ignore_skip pt prev c0 r (by rw [h0]; rfl)
  have hsp := spacers_skip pt prev c0 r (by rw [h0]; decide) (by rw [h0]; decide)
  have ht : runTk .symbols pt prev (c0 :: r) = .tok 1 .Escape := by simp [runTk, h0, symbolOf]
  have h3 : runTk .escapedSymbols pt prev (c0 :: r) = .skip 0 ∧
      runTk .mathAsymSwitch pt prev (c0 :: r) = .skip 0 ∧
      runTk .lineBreak pt prev (c0 :: r) = .skip 0 := by
    cases r with
    | nil => simp [runTk]
    | cons c1 r =>
      obtain ⟨h2, h3⟩ := h1 c1 rfl
      have h4 : catOf c1 ≠ .Escape := by
        intro h; rw [h] at h2; cases h2
      simp [runTk, h0, h2, h3, h4]
  rw [Tables.tokenizerOrder, pass_cons_of_skip h3.1, pass_cons_of_skip hc, pass_cons_of_skip hm,
    pass_cons_of_skip h3.2.1, pass_cons_of_skip h3.2.2, pass_cons_of_skip hi,
    pass_cons_of_skip hsp, pass_cons_of_tok ht]
  simp [TSt.adv, lastD]

/-- Common part of (g)/(h): with a letter in front, every tokenizer before
`punctuation_command_name` declines. -/
theorem pass_letter_prefix (pt : Option TC) (prev : Option Ch) (pos : Nat) (c0 : Ch) (r : Str)
    (h0 : catOf c0 = .Letter) :
    pass Tables.tokenizerOrder pt ⟨prev, pos, c0 :: r⟩ =
      pass [.punctuationCommandName, .commandName, .string] pt ⟨prev, pos, c0 :: r⟩ := by
  rw [Tables.tokenizerOrder,
    pass_cons_of_skip (escapedSymbols_skip pt prev c0 r (by rw [h0]; decide)),
    pass_cons_of_skip (comment_skip pt prev c0 r (by rw [h0]; decide)),
    pass_cons_of_skip (mathSymSwitch_skip pt prev c0 r (by rw [h0]; decide)),
    pass_cons_of_skip (mathAsymSwitch_skip pt prev c0 r (by rw [h0]; decide)),
    pass_cons_of_skip (lineBreak_skip pt prev c0 r (by rw [h0]; decide)),
    pass_cons_of_skip (ignore_skip pt prev c0 r (by rw [h0]; rfl)),
    pass_cons_of_skip (spacers_skip pt prev c0 r (by rw [h0]; decide) (by rw [h0]; decide)),
    pass_cons_of_skip (symbols_skip pt prev c0 r (by rw [h0]; rfl))]

/-- (g) After an escape, a letter that does not start a sizing command starts a `CommandName`
token made of the longest run of letters and `*`. -/
theorem pass_commandName (pt : Option TC) (p : Ch) (pos : Nat) (c0 : Ch) (r : Str)
    (hp : catOf p = .Escape) (h0 : catOf c0 = .Letter)
    (hfm : firstMatch Tables.punctuationCommands (c0 :: r) = none) :
    pass Tables.tokenizerOrder pt ⟨some p, pos, c0 :: r⟩ =
      .tok ⟨c0 :: r.takeWhile (fun c => isLetterCh c || c == 42), pos, .CommandName⟩
        ⟨lastD (r.takeWhile (fun c => isLetterCh c || c == 42)) (some c0),
         pos + (1 + (r.takeWhile (fun c => isLetterCh c || c == 42)).length),
         r.dropWhile (fun c => isLetterCh c || c == 42)⟩ := by
  have hs : runTk .punctuationCommandName pt (some p) (c0 :: r) = .skip 0 := by
    simp [runTk, hp, hfm]
  have ht : runTk .commandName pt (some p) (c0 :: r) =
      .tok (1 + countWhile (fun c => isLetterCh c || c == 42) r) .CommandName := by
    simp [runTk, hp, h0]
  rw [pass_letter_prefix pt (some p) pos c0 r h0, pass_cons_of_skip hs, pass_cons_of_tok ht,
    take_one_add_countWhile, adv_one_add_countWhile]

/-- Every sizing command starts with a letter. -/
theorem punctuationCommands_head_letter :
    ∀ q ∈ Tables.punctuationCommands, q.head?.map catOf = some CC.Letter := by
  decide +kernel

/-- (h) After an escape, a sizing command (`\left(`, `\Big\{`, …) is one
`PunctuationCommandName` token. -/
theorem pass_punctuation (pt : Option TC) (p : Ch) (pos : Nat) (point r : Str)
    (hp : catOf p = .Escape) (hm : point ∈ Tables.punctuationCommands) :
    pass Tables.tokenizerOrder pt ⟨some p, pos, point ++ r⟩ =
      .tok ⟨point, pos, .PunctuationCommandName⟩
        ⟨lastD point (some p), pos + point.length, r⟩ := by
  have hfm : firstMatch Tables.punctuationCommands (point ++ r) = some point :=
    (firstMatch_eq_some_iff punctuationCommands_prefixFree').2 ⟨hm, isPrefix_iff.2 ⟨r, rfl⟩⟩
  have ht : runTk .punctuationCommandName pt (some p) (point ++ r) =
      .tok point.length .PunctuationCommandName := by
    simp [runTk, hp, hfm]
  have hh := punctuationCommands_head_letter point hm
  cases point with
  | nil => simp at hh
  | cons c0 q =>
    simp only [List.head?_cons, Option.map_some, Option.some.injEq] at hh
    rw [List.cons_append] at ht ⊢
    rw [pass_letter_prefix pt (some p) pos c0 (q ++ r) hh, pass_cons_of_tok ht]
    simp [TSt.adv]

end TexSoup
