import TexSoupProofs.TokLemmas
import TexSoupProofs.TokLemmas.SkipPlain
/-!
# Tokenizer inverse, part 1: the remaining first-token lemmas and the live categories

* `pass_text`, `pass_spacer` — when a pass returns one `Text` / `MergedSpacer` token with a
  given text;
* `pass_live` — a pass never returns `LineBreak`, `SizeCommand`, `Spacer`, `ParenBegin`,
  `ParenEnd`.
-/
namespace TexSoup

/-! ## List helpers: a run followed by something whose head ends the run -/

theorem countWhile_all {p : Ch → Bool} {a : Str} (ha : ∀ x ∈ a, p x = true) :
    countWhile p a = a.length := by
  induction a with
  | nil => rfl
  | cons x a ih =>
    simp only [countWhile, ha x (by simp), if_true, List.length_cons]
    rw [ih fun y hy => ha y (by simp [hy])]

theorem countWhile_append_of_head {p : Ch → Bool} {a w : Str} (ha : ∀ x ∈ a, p x = true)
    (hw : ∀ c ∈ w.head?, p c = false) : countWhile p (a ++ w) = a.length := by
  cases w with
  | nil => rw [List.append_nil]; exact countWhile_all ha
  | cons c r => exact countWhile_append_all r ha (hw c rfl)

theorem takeWhile_append_of_head {p : Ch → Bool} {a w : Str} (ha : ∀ x ∈ a, p x = true)
    (hw : ∀ c ∈ w.head?, p c = false) : (a ++ w).takeWhile p = a := by
  induction a with
  | nil =>
    cases w with
    | nil => rfl
    | cons c r => simp [hw c rfl]
  | cons x a ih =>
    simp only [List.cons_append, List.takeWhile_cons, ha x (by simp), if_true]
    rw [ih fun y hy => ha y (by simp [hy])]

theorem dropWhile_append_of_head {p : Ch → Bool} {a w : Str} (ha : ∀ x ∈ a, p x = true)
    (hw : ∀ c ∈ w.head?, p c = false) : (a ++ w).dropWhile p = w := by
  induction a with
  | nil =>
    cases w with
    | nil => rfl
    | cons c r => simp [hw c rfl]
  | cons x a ih =>
    simp only [List.cons_append, List.dropWhile_cons, ha x (by simp), if_true]
    rw [ih fun y hy => ha y (by simp [hy])]

theorem head_dropWhile_not (p : Ch → Bool) (l : Str) : ∀ c ∈ (l.dropWhile p).head?, p c = false := by
  induction l with
  | nil => simp
  | cons x l ih =>
    simp only [List.dropWhile_cons]
    split
    · exact ih
    · rename_i hx
      intro c hc
      simp only [List.head?_cons, Option.mem_def, Option.some.injEq] at hc
      subst hc
      simpa using hx

theorem spacerRun_append_of_head (a : Str) {w : Str}
    (hw : ∀ c ∈ w.head?, catOf c ≠ .Spacer ∧ catOf c ≠ .EndOfLine) :
    spacerRun (a ++ w) = spacerRun a := by
  cases w with
  | nil => rw [List.append_nil]
  | cons c r => exact spacerRun_append_stop a r (hw c rfl).1 (hw c rfl).2

/-! ## `tokenize_spacers` in normal form -/

/-- The head of the list is a `Letter` or `Other` character. -/
def headIsLO : Str → Bool
  | c :: _ => catOf c == .Letter || catOf c == .Other
  | [] => false

theorem headIsLO_eq_false_iff {w : Str} :
    headIsLO w = false ↔ ∀ c ∈ w.head?, catOf c ≠ .Letter ∧ catOf c ≠ .Other := by
  cases w with
  | nil => simp [headIsLO]
  | cons c r => simp [headIsLO]

theorem headIsLO_append {a : Str} (w : Str) (h : headIsLO a = true) : headIsLO (a ++ w) = true := by
  cases a with
  | nil => simp [headIsLO] at h
  | cons c r => simpa [headIsLO] using h

theorem runTk_spacers_eq (pt : Option TC) (prev : Option Ch) (rest : Str) :
    runTk .spacers pt prev rest =
      if headIsLO (rest.drop (spacerRun rest)) then .skip 0
      else if spacerRun rest == 0 then .skip 0
      else .tok (spacerRun rest) .MergedSpacer := by
  simp only [runTk]
  generalize spacerRun rest = n
  cases rest.drop n <;> simp [headIsLO]

/-- `tokenize_spacers` leaves `text` alone: no leading blank run, or the run is followed by a
`Letter`/`Other` character inside `text`. -/
def textSpacerOK (text : Str) : Bool :=
  spacerRun text == 0 || headIsLO (text.drop (spacerRun text))

theorem textSpacerOK_of_head {c : Ch} {r : Str} (h1 : catOf c ≠ .Spacer)
    (h2 : catOf c ≠ .EndOfLine) : textSpacerOK (c :: r) = true := by
  simp [textSpacerOK, spacerRun_zero c r h1 h2]

theorem spacers_skip_of_ok (pt : Option TC) (prev : Option Ch) {text w : Str}
    (hok : textSpacerOK text = true) (hw : ∀ c ∈ w.head?, isStringStop (catOf c) = true) :
    runTk .spacers pt prev (text ++ w) = .skip 0 := by
  have hrun : spacerRun (text ++ w) = spacerRun text :=
    spacerRun_append_of_head text fun c hc =>
      ⟨(stop_not_plain (hw c hc)).1, (stop_not_plain (hw c hc)).2.1⟩
  rw [runTk_spacers_eq, hrun]
  simp only [textSpacerOK, Bool.or_eq_true, beq_iff_eq] at hok
  rcases hok with h0 | h1
  · simp [h0]
  · rw [List.drop_append_of_le_length (spacerRun_le text), headIsLO_append w h1]
    simp

/-! ## When the name tokenizers decline because of the first character -/

theorem firstMatch_none_of_head {c0 : Ch} (r : Str) (h : catOf c0 ≠ .Letter) :
    firstMatch Tables.punctuationCommands (c0 :: r) = none := by
  rw [firstMatch_none]
  intro q hq
  have hh := punctuationCommands_head_letter q hq
  cases q with
  | nil => simp at hh
  | cons a q' =>
    simp only [List.head?_cons, Option.map_some, Option.some.injEq] at hh
    have : a ≠ c0 := by rintro rfl; exact h hh
    simp [isPrefix, this]

theorem punctuation_skip_of_head (pt : Option TC) (prev : Option Ch) {c0 : Ch} (r : Str)
    (h : catOf c0 ≠ .Letter) : runTk .punctuationCommandName pt prev (c0 :: r) = .skip 0 := by
  cases prev with
  | none => simp [runTk]
  | some p =>
    simp only [runTk, firstMatch_none_of_head r h]
    split <;> rfl

theorem commandName_skip_of_head (pt : Option TC) (prev : Option Ch) {c0 : Ch} (r : Str)
    (h : catOf c0 ≠ .Letter) : runTk .commandName pt prev (c0 :: r) = .skip 0 := by
  cases prev with
  | none => simp [runTk]
  | some p => simp [runTk, h]

/-- Is the character before the cursor an escape character? -/
def prevEsc : Option Ch → Bool
  | some p => catOf p == .Escape
  | none => false

theorem prevEsc_false {prev : Option Ch} (h : prevEsc prev = false) :
    ∀ p ∈ prev, catOf p ≠ .Escape := by
  intro p hp
  cases hp
  simpa [prevEsc] using h

theorem prevEsc_true {prev : Option Ch} (h : prevEsc prev = true) :
    ∃ p, prev = some p ∧ catOf p = .Escape := by
  cases prev with
  | none => simp [prevEsc] at h
  | some p => exact ⟨p, rfl, by simpa [prevEsc] using h⟩

/-! ## `first_text` and `first_spacer` -/

/-- A run of non-stop characters, maximal, not claimed by `spacers` or by the name tokenizers,
is one `Text` token. -/
theorem pass_text (pt : Option TC) (prev : Option Ch) (pos : Nat) {text : Str} (w : Str)
    (hne : text ≠ []) (hall : ∀ c ∈ text, isStringStop (catOf c) = false)
    (hign : ∀ c ∈ text.head?, isIgnored (catOf c) = false)
    (hsp : textSpacerOK text = true)
    (hprev : prevEsc prev = true → ∀ c ∈ text.head?, catOf c ≠ .Letter)
    (hw : ∀ c ∈ w.head?, isStringStop (catOf c) = true) :
    pass Tables.tokenizerOrder pt ⟨prev, pos, text ++ w⟩ =
      .tok ⟨text, pos, .Text⟩ ⟨lastD text prev, pos + text.length, w⟩ := by
  obtain ⟨c0, nm, rfl⟩ := List.exists_cons_of_ne_nil hne
  have hs0 := hall c0 (by simp)
  have hi0 := hign c0 rfl
  have hR : (c0 :: nm) ++ w = c0 :: (nm ++ w) := rfl
  have hRne : (c0 :: nm) ++ w ≠ [] := by simp
  have hcat : catOf c0 ≠ .Escape ∧ catOf c0 ≠ .Comment ∧ catOf c0 ≠ .MathSwitch ∧
      symbolOf (catOf c0) = none := by
    cases h : catOf c0 <;> simp [h, isStringStop, symbolOf] at hs0 ⊢
  obtain ⟨k1, k2, k3, k4⟩ := hcat
  have e1 := escapedSymbols_skip pt prev c0 (nm ++ w) k1
  have e2 := comment_skip pt prev c0 (nm ++ w) k2
  have e3 := mathSymSwitch_skip pt prev c0 (nm ++ w) k3
  have e4 := mathAsymSwitch_skip pt prev c0 (nm ++ w) k1
  have e5 := lineBreak_skip pt prev c0 (nm ++ w) k1
  have e6 := ignore_skip pt prev c0 (nm ++ w) hi0
  have e7 := spacers_skip_of_ok pt prev hsp hw
  have e8 := symbols_skip pt prev c0 (nm ++ w) k4
  have e9 : runTk .punctuationCommandName pt prev (c0 :: (nm ++ w)) = .skip 0 := by
    cases hpe : prevEsc prev with
    | false => exact punctuation_skip_of_prev pt prev (prevEsc_false hpe) _
    | true => exact punctuation_skip_of_head pt prev _ (hprev hpe c0 rfl)
  have e10 : runTk .commandName pt prev (c0 :: (nm ++ w)) = .skip 0 := by
    cases hpe : prevEsc prev with
    | false => exact commandName_skip_of_prev pt prev (prevEsc_false hpe) _
    | true => exact commandName_skip_of_head pt prev _ (hprev hpe c0 rfl)
  rw [← hR] at e1 e2 e3 e4 e5 e6 e8 e9 e10
  have hcount : countWhile (fun x => !isStringStop (catOf x)) ((c0 :: nm) ++ w) =
      (c0 :: nm).length :=
    countWhile_append_of_head (fun x hx => by simp [hall x hx])
      (fun c hc => by simp [hw c hc])
  have e11 : runTk .string pt prev ((c0 :: nm) ++ w) = .tok (c0 :: nm).length .Text := by
    simp only [runTk, hcount]
    simp
  rw [Tables.tokenizerOrder, pass_cons_of_skip' hRne e1, pass_cons_of_skip' hRne e2,
    pass_cons_of_skip' hRne e3, pass_cons_of_skip' hRne e4, pass_cons_of_skip' hRne e5,
    pass_cons_of_skip' hRne e6, pass_cons_of_skip' hRne e7, pass_cons_of_skip' hRne e8,
    pass_cons_of_skip' hRne e9, pass_cons_of_skip' hRne e10, pass_cons_of_tok e11, adv_append,
    List.take_left' rfl]

/-- Blanks, at most one end of line, blanks – as far as `tokenize_spacers` goes – not followed
by a `Letter`/`Other` character, is one `MergedSpacer` token. -/
theorem pass_spacer (pt : Option TC) (prev : Option Ch) (pos : Nat) {text : Str} (w : Str)
    (hne : text ≠ []) (hrun : spacerRun (text ++ w) = text.length)
    (hw : ∀ c ∈ w.head?, catOf c ≠ .Letter ∧ catOf c ≠ .Other) :
    pass Tables.tokenizerOrder pt ⟨prev, pos, text ++ w⟩ =
      .tok ⟨text, pos, .MergedSpacer⟩ ⟨lastD text prev, pos + text.length, w⟩ := by
  obtain ⟨c0, nm, rfl⟩ := List.exists_cons_of_ne_nil hne
  have hR : (c0 :: nm) ++ w = c0 :: (nm ++ w) := rfl
  have hRne : (c0 :: nm) ++ w ≠ [] := by simp
  have hhead : catOf c0 = .Spacer ∨ catOf c0 = .EndOfLine := by
    by_cases h1 : catOf c0 = .Spacer
    · exact Or.inl h1
    · by_cases h2 : catOf c0 = .EndOfLine
      · exact Or.inr h2
      · have := spacerRun_zero c0 (nm ++ w) h1 h2
        rw [← hR, hrun] at this
        simp at this
  have hcat : catOf c0 ≠ .Escape ∧ catOf c0 ≠ .Comment ∧ catOf c0 ≠ .MathSwitch ∧
      isIgnored (catOf c0) = false := by
    rcases hhead with h | h <;> simp [h, isIgnored]
  obtain ⟨k1, k2, k3, k4⟩ := hcat
  have e1 := escapedSymbols_skip pt prev c0 (nm ++ w) k1
  have e2 := comment_skip pt prev c0 (nm ++ w) k2
  have e3 := mathSymSwitch_skip pt prev c0 (nm ++ w) k3
  have e4 := mathAsymSwitch_skip pt prev c0 (nm ++ w) k1
  have e5 := lineBreak_skip pt prev c0 (nm ++ w) k1
  have e6 := ignore_skip pt prev c0 (nm ++ w) k4
  rw [← hR] at e1 e2 e3 e4 e5 e6
  have e7 : runTk .spacers pt prev ((c0 :: nm) ++ w) = .tok (c0 :: nm).length .MergedSpacer := by
    rw [runTk_spacers_eq, hrun, List.drop_left' rfl, headIsLO_eq_false_iff.2 hw]
    simp
  rw [Tables.tokenizerOrder, pass_cons_of_skip' hRne e1, pass_cons_of_skip' hRne e2,
    pass_cons_of_skip' hRne e3, pass_cons_of_skip' hRne e4, pass_cons_of_skip' hRne e5,
    pass_cons_of_skip' hRne e6, pass_cons_of_tok e7, adv_append, List.take_left' rfl]

/-! ## Live categories -/

/-- The sixteen token categories the tokenizer can emit. -/
def liveCat : TC → Bool
  | .LineBreak | .SizeCommand | .Spacer | .ParenBegin | .ParenEnd => false
  | _ => true

theorem runTk_live {k : TkName} {pt : Option TC} {prev : Option Ch} {rest : Str} {n : Nat}
    {c : TC} (hk : k ≠ .lineBreak) (h : runTk k pt prev rest = .tok n c) : liveCat c = true := by
  cases k <;> simp only [runTk] at h
  case lineBreak => exact absurd rfl hk
  case mathAsymSwitch =>
    split at h
    · rename_i c0 c1 r
      split at h
      · cases hc : catOf c1 <;> simp only [hc, asymSwitch] at h <;> cases h <;> rfl
      · cases h
    · cases h
  case symbols =>
    split at h
    · rename_i c0 r
      cases hc : catOf c0 <;> simp only [hc, symbolOf] at h <;> cases h <;> rfl
    · cases h
  all_goals (repeat' split at h) <;> cases h <;> rfl

/-- `tokenize_line_break` is dead code: `\\` is always claimed by `escaped_symbols` first. -/
theorem lineBreak_dead {pt : Option TC} {prev : Option Ch} {rest : Str} {m n : Nat} {c : TC}
    (he : runTk .escapedSymbols pt prev rest = .skip m)
    (hl : runTk .lineBreak pt prev rest = .tok n c) : False := by
  simp only [runTk] at he hl
  split at hl
  · rename_i c0 c1 r
    split at hl
    · rename_i h
      simp only [Bool.and_eq_true, beq_iff_eq] at h
      simp [h.1, h.2, isEscapable] at he
    · cases hl
  · cases hl

theorem pass_tok_any {ks : List TkName} {pt : Option TC} {st st' : TSt} {t : Tok}
    (h : pass ks pt st = .tok t st') :
    ∃ k ∈ ks, ∃ n prev rest, runTk k pt prev rest = .tok n t.cat := by
  induction ks generalizing st with
  | nil => simp [pass] at h
  | cons k ks ih =>
    simp only [pass] at h
    split at h
    · rename_i n c hk
      cases h
      exact ⟨k, by simp, n, _, _, hk⟩
    · split at h
      · cases h
      · obtain ⟨k', hk', r⟩ := ih h
        exact ⟨k', by simp [hk'], r⟩

theorem pass_cons_tok_cases {k : TkName} {ks : List TkName} {pt : Option TC} {st st' : TSt}
    {t : Tok} (hk : k ≠ .ignore) (h : pass (k :: ks) pt st = .tok t st') :
    (∃ n, runTk k pt st.prev st.rest = .tok n t.cat) ∨
    ((∃ m, runTk k pt st.prev st.rest = .skip m) ∧ pass ks pt st = .tok t st') := by
  simp only [pass] at h
  split at h
  · rename_i n c hr
    cases h
    exact Or.inl ⟨n, hr⟩
  · rename_i m hr
    have := runTk_skip_zero hk hr
    subst this
    simp only [TSt.adv_zero] at h
    split at h
    · cases h
    · exact Or.inr ⟨⟨0, hr⟩, h⟩

/-- A pass of `next_token` only returns tokens of the sixteen live categories. -/
theorem pass_live {pt : Option TC} {st st' : TSt} {t : Tok}
    (h : pass Tables.tokenizerOrder pt st = .tok t st') : liveCat t.cat = true := by
  rw [Tables.tokenizerOrder] at h
  rcases pass_cons_tok_cases (by decide) h with ⟨n, h1⟩ | ⟨⟨m, he⟩, h⟩
  · exact runTk_live (by decide) h1
  rcases pass_cons_tok_cases (by decide) h with ⟨n, h1⟩ | ⟨_, h⟩
  · exact runTk_live (by decide) h1
  rcases pass_cons_tok_cases (by decide) h with ⟨n, h1⟩ | ⟨_, h⟩
  · exact runTk_live (by decide) h1
  rcases pass_cons_tok_cases (by decide) h with ⟨n, h1⟩ | ⟨_, h⟩
  · exact runTk_live (by decide) h1
  rcases pass_cons_tok_cases (by decide) h with ⟨n, h1⟩ | ⟨_, h⟩
  · exact (lineBreak_dead he h1).elim
  obtain ⟨k, hk, n, prev, rest, hr⟩ := pass_tok_any h
  refine runTk_live ?_ hr
  rintro rfl
  simp at hk

end TexSoup
