import TexSoupProofs.TokLemmas.InverseFirst
/-!
# Tokenizer inverse, part 2: `TokOK`, `Separated`, and `tokenize (flat ts) = ts`

`TokOK prev t w` is the local condition – by category of `t` – under which a pass of
`next_token` on `t.text ++ w`, with `prev` the character before the cursor, returns exactly
the token `t` and leaves `w`.  `Separated` chains it along a token list.
-/
namespace TexSoup

/-! ## Shapes of token texts (decidable replacements for `∃ c, text = [c] ∧ …`) -/

/-- `text = [c]` with `P c`. -/
def TxtOne (P : Ch → Prop) : Str → Prop
  | [c] => P c
  | _ => False

/-- `text = [a, b]` with `P a b`. -/
def TxtTwo (P : Ch → Ch → Prop) : Str → Prop
  | [a, b] => P a b
  | _ => False

/-- `text = c :: r` with `P c r`. -/
def TxtMany (P : Ch → Str → Prop) : Str → Prop
  | c :: r => P c r
  | [] => False

theorem txtOne_iff {P : Ch → Prop} {text : Str} : TxtOne P text ↔ ∃ c, text = [c] ∧ P c := by
  unfold TxtOne
  split
  · simp
  · rename_i h
    constructor
    · exact False.elim
    · rintro ⟨c, rfl, _⟩; exact h c rfl

theorem txtTwo_iff {P : Ch → Ch → Prop} {text : Str} :
    TxtTwo P text ↔ ∃ a b, text = [a, b] ∧ P a b := by
  unfold TxtTwo
  split
  · rename_i a b
    exact ⟨fun h => ⟨a, b, rfl, h⟩, fun ⟨_, _, he, h⟩ => by cases he; exact h⟩
  · rename_i h
    constructor
    · exact False.elim
    · rintro ⟨a, b, rfl, _⟩; exact h a b rfl

theorem txtMany_iff {P : Ch → Str → Prop} {text : Str} :
    TxtMany P text ↔ ∃ c r, text = c :: r ∧ P c r := by
  cases text with
  | nil => simp [TxtMany]
  | cons c r =>
    exact ⟨fun h => ⟨c, r, rfl, h⟩, fun ⟨_, _, he, h⟩ => by cases he; exact h⟩

instance {P : Ch → Prop} [DecidablePred P] (text : Str) : Decidable (TxtOne P text) := by
  unfold TxtOne; split <;> infer_instance

instance {P : Ch → Ch → Prop} [∀ a b, Decidable (P a b)] (text : Str) : Decidable (TxtTwo P text) := by
  unfold TxtTwo; split <;> infer_instance

instance {P : Ch → Str → Prop} [∀ a b, Decidable (P a b)] (text : Str) :
    Decidable (TxtMany P text) := by
  unfold TxtMany; split <;> infer_instance

/-! ## The local condition -/

/-- `TokOK'` on text and category (positions play no role). -/
def TokOK' (prev : Option Ch) (text : Str) (cat : TC) (w : Str) : Prop :=
  match cat with
  | .Escape => TxtOne (fun c0 => catOf c0 = .Escape ∧
      ∀ c1 ∈ w.head?, isEscapable (catOf c1) = false ∧ asymSwitch (catOf c1) = none) text
  | .GroupBegin => TxtOne (fun c0 => catOf c0 = .GroupBegin) text
  | .GroupEnd => TxtOne (fun c0 => catOf c0 = .GroupEnd) text
  | .BracketBegin => TxtOne (fun c0 => catOf c0 = .BracketBegin) text
  | .BracketEnd => TxtOne (fun c0 => catOf c0 = .BracketEnd) text
  | .MathSwitch => TxtOne (fun c0 => catOf c0 = .MathSwitch ∧
      ∀ c1 ∈ w.head?, catOf c1 ≠ .MathSwitch) text
  | .DisplayMathSwitch => TxtTwo (fun c0 c1 => catOf c0 = .MathSwitch ∧ catOf c1 = .MathSwitch) text
  | .EscapedComment => TxtTwo (fun c0 c1 => catOf c0 = .Escape ∧ isEscapable (catOf c1) = true) text
  | .MathGroupBegin => TxtTwo (fun c0 c1 => catOf c0 = .Escape ∧ catOf c1 = .ParenBegin) text
  | .MathGroupEnd => TxtTwo (fun c0 c1 => catOf c0 = .Escape ∧ catOf c1 = .ParenEnd) text
  | .DisplayMathGroupBegin =>
      TxtTwo (fun c0 c1 => catOf c0 = .Escape ∧ catOf c1 = .BracketBegin) text
  | .DisplayMathGroupEnd => TxtTwo (fun c0 c1 => catOf c0 = .Escape ∧ catOf c1 = .BracketEnd) text
  | .Comment => TxtMany (fun c0 body => catOf c0 = .Comment ∧ (∀ c ∈ body, catOf c ≠ .EndOfLine) ∧
      ∀ c ∈ w.head?, catOf c = .EndOfLine) text
  | .MergedSpacer => text ≠ [] ∧ spacerRun (text ++ w) = text.length ∧
      ∀ c ∈ w.head?, catOf c ≠ .Letter ∧ catOf c ≠ .Other
  | .PunctuationCommandName => prevEsc prev = true ∧ text ∈ Tables.punctuationCommands
  | .CommandName => prevEsc prev = true ∧
      TxtMany (fun c0 body => catOf c0 = .Letter ∧
        ∀ c ∈ body, (isLetterCh c || c == 42) = true) text ∧
      (∀ c ∈ w.head?, (isLetterCh c || c == 42) = false) ∧
      firstMatch Tables.punctuationCommands (text ++ w) = none
  | .Text => TxtMany (fun c0 _ => isIgnored (catOf c0) = false ∧
        (prevEsc prev = true → catOf c0 ≠ .Letter)) text ∧
      (∀ c ∈ text, isStringStop (catOf c) = false) ∧ textSpacerOK text = true ∧
      ∀ c ∈ w.head?, isStringStop (catOf c) = true
  | _ => False

instance (prev : Option Ch) (text : Str) (cat : TC) (w : Str) :
    Decidable (TokOK' prev text cat w) := by
  unfold TokOK'; split <;> infer_instance

/-- The local separation condition for token `t` with `prev` before it and `w` after it. -/
def TokOK (prev : Option Ch) (t : Tok) (w : Str) : Prop := TokOK' prev t.text t.cat w

instance (prev : Option Ch) (t : Tok) (w : Str) : Decidable (TokOK prev t w) := by
  unfold TokOK; infer_instance

theorem tokOK'_nonempty {prev : Option Ch} {text : Str} {cat : TC} {w : Str}
    (h : TokOK' prev text cat w) : text ≠ [] := by
  cases cat <;> simp only [TokOK'] at h
  all_goals first
    | (obtain ⟨c, rfl, _⟩ := txtOne_iff.1 h; simp)
    | (obtain ⟨a, b, rfl, _⟩ := txtTwo_iff.1 h; simp)
    | (obtain ⟨c, r, rfl, _⟩ := txtMany_iff.1 h; simp)
    | (obtain ⟨c, r, rfl, _⟩ := txtMany_iff.1 h.1; simp)
    | (obtain ⟨c, r, rfl, _⟩ := txtMany_iff.1 h.2.1; simp)
    | exact h.1
    | exact punctuationCommands_nonempty _ h.2
    | exact h.elim

/-- **Local correctness.**  Under `TokOK'`, a pass returns exactly this token. -/
theorem tokOK'_pass (pt : Option TC) (prev : Option Ch) (pos : Nat) {text : Str} {cat : TC}
    {w : Str} (h : TokOK' prev text cat w) :
    pass Tables.tokenizerOrder pt ⟨prev, pos, text ++ w⟩ =
      .tok ⟨text, pos, cat⟩ ⟨lastD text prev, pos + text.length, w⟩ := by
  cases cat <;> simp only [TokOK'] at h
  case Escape =>
    obtain ⟨c0, rfl, h0, h1⟩ := txtOne_iff.1 h
    exact pass_escape pt prev pos c0 w h0 h1
  case GroupBegin =>
    obtain ⟨c0, rfl, h0⟩ := txtOne_iff.1 h
    exact pass_symbol pt prev pos c0 w _ (by rw [h0]; decide) (by rw [h0]; rfl)
  case GroupEnd =>
    obtain ⟨c0, rfl, h0⟩ := txtOne_iff.1 h
    exact pass_symbol pt prev pos c0 w _ (by rw [h0]; decide) (by rw [h0]; rfl)
  case BracketBegin =>
    obtain ⟨c0, rfl, h0⟩ := txtOne_iff.1 h
    exact pass_symbol pt prev pos c0 w _ (by rw [h0]; decide) (by rw [h0]; rfl)
  case BracketEnd =>
    obtain ⟨c0, rfl, h0⟩ := txtOne_iff.1 h
    exact pass_symbol pt prev pos c0 w _ (by rw [h0]; decide) (by rw [h0]; rfl)
  case MathSwitch =>
    obtain ⟨c0, rfl, h0, h1⟩ := txtOne_iff.1 h
    exact pass_mathSwitch_one pt prev pos c0 w h0 h1
  case DisplayMathSwitch =>
    obtain ⟨c0, c1, rfl, h0, h1⟩ := txtTwo_iff.1 h
    exact pass_mathSwitch_two pt prev pos c0 c1 w h0 h1
  case EscapedComment =>
    obtain ⟨c0, c1, rfl, h0, h1⟩ := txtTwo_iff.1 h
    exact pass_escaped pt prev pos c0 c1 w h0 h1
  case MathGroupBegin =>
    obtain ⟨c0, c1, rfl, h0, h1⟩ := txtTwo_iff.1 h
    exact pass_asymSwitch pt prev pos c0 c1 w _ h0 (by rw [h1]; rfl)
  case MathGroupEnd =>
    obtain ⟨c0, c1, rfl, h0, h1⟩ := txtTwo_iff.1 h
    exact pass_asymSwitch pt prev pos c0 c1 w _ h0 (by rw [h1]; rfl)
  case DisplayMathGroupBegin =>
    obtain ⟨c0, c1, rfl, h0, h1⟩ := txtTwo_iff.1 h
    exact pass_asymSwitch pt prev pos c0 c1 w _ h0 (by rw [h1]; rfl)
  case DisplayMathGroupEnd =>
    obtain ⟨c0, c1, rfl, h0, h1⟩ := txtTwo_iff.1 h
    exact pass_asymSwitch pt prev pos c0 c1 w _ h0 (by rw [h1]; rfl)
  case Comment =>
    obtain ⟨c0, body, rfl, h0, hb, hw⟩ := txtMany_iff.1 h
    have hb' : ∀ x ∈ body, (fun c => catOf c != CC.EndOfLine) x = true := by
      intro x hx; simpa using hb x hx
    have hw' : ∀ c ∈ w.head?, (fun c => catOf c != CC.EndOfLine) c = false := by
      intro c hc; simpa using hw c hc
    rw [List.cons_append, pass_comment pt prev pos c0 (body ++ w) h0,
      takeWhile_append_of_head hb' hw', dropWhile_append_of_head hb' hw', lastD_cons,
      List.length_cons, Nat.add_comm 1]
  case MergedSpacer =>
    exact pass_spacer pt prev pos w h.1 h.2.1 h.2.2
  case PunctuationCommandName =>
    obtain ⟨p, rfl, hp⟩ := prevEsc_true h.1
    exact pass_punctuation pt p pos text w hp h.2
  case CommandName =>
    obtain ⟨hpe, hm, hw, hfm⟩ := h
    obtain ⟨p, rfl, hp⟩ := prevEsc_true hpe
    obtain ⟨c0, body, rfl, h0, hb⟩ := txtMany_iff.1 hm
    rw [List.cons_append] at hfm ⊢
    rw [pass_commandName pt p pos c0 (body ++ w) hp h0 hfm,
      takeWhile_append_of_head hb hw, dropWhile_append_of_head hb hw, lastD_cons,
      List.length_cons, Nat.add_comm 1]
  case Text =>
    obtain ⟨hm, hall, hsp, hw⟩ := h
    obtain ⟨c0, body, rfl, hi, hpl⟩ := txtMany_iff.1 hm
    exact pass_text pt prev pos w (by simp) hall
      (by intro c hc; cases hc; exact hi) hsp
      (by intro hpe c hc; cases hc; exact hpl hpe) hw
  all_goals exact h.elim

theorem TokOK.pass_eq (pt : Option TC) (prev : Option Ch) (pos : Nat) {t : Tok} {w : Str}
    (h : TokOK prev t w) :
    pass Tables.tokenizerOrder pt ⟨prev, pos, t.text ++ w⟩ =
      .tok ⟨t.text, pos, t.cat⟩ ⟨lastD t.text prev, pos + t.text.length, w⟩ :=
  tokOK'_pass pt prev pos h

/-! ## Chains -/

/-- Every token is `TokOK` in its context: `prev` = last character of what precedes (or the
given one), `w` = the joined texts of what follows. -/
def Separated : Option Ch → List Tok → Prop
  | _, [] => True
  | prev, t :: r => t.text ≠ [] ∧ TokOK prev t (flat r) ∧ Separated (lastD t.text prev) r

instance decSeparated : (prev : Option Ch) → (ts : List Tok) → Decidable (Separated prev ts)
  | _, [] => isTrue trivial
  | prev, t :: r =>
    have := decSeparated (lastD t.text prev) r
    by unfold Separated; infer_instance

/-- Recompute the positions as running offsets starting at `p`. -/
def reposition : Nat → List Tok → List Tok
  | _, [] => []
  | p, t :: r => { t with pos := p } :: reposition (p + t.text.length) r

/-- The positions are the running offsets starting at `p`. -/
def Positioned : Nat → List Tok → Prop
  | _, [] => True
  | p, t :: r => t.pos = p ∧ Positioned (p + t.text.length) r

instance decPositioned : (p : Nat) → (ts : List Tok) → Decidable (Positioned p ts)
  | _, [] => isTrue trivial
  | p, t :: r =>
    have := decPositioned (p + t.text.length) r
    by unfold Positioned; infer_instance

theorem reposition_of_positioned {p : Nat} {ts : List Tok} (h : Positioned p ts) :
    reposition p ts = ts := by
  induction ts generalizing p with
  | nil => rfl
  | cons t r ih =>
    obtain ⟨h1, h2⟩ := h
    simp only [reposition, ih h2]
    cases t; cases h1; rfl

theorem flat_reposition (p : Nat) (ts : List Tok) : flat (reposition p ts) = flat ts := by
  induction ts generalizing p with
  | nil => rfl
  | cons t r ih => simp [reposition, flat, ih]

theorem positioned_reposition (p : Nat) (ts : List Tok) : Positioned p (reposition p ts) := by
  induction ts generalizing p with
  | nil => trivial
  | cons t r ih => exact ⟨rfl, ih _⟩

/-- **The loop on a separated list.** -/
theorem tokLoop_inverse {ts : List Tok} {prev : Option Ch} (hsep : Separated prev ts)
    (f : Nat) (pt : Option TC) (pos : Nat) (hf : (flat ts).length < f) :
    tokLoop f pt ⟨prev, pos, flat ts⟩ = some (reposition pos ts) := by
  induction ts generalizing prev f pt pos with
  | nil =>
    cases f with
    | zero => omega
    | succ f => simp [tokLoop, flat, reposition]
  | cons t r ih =>
    obtain ⟨hne, hok, hrest⟩ := hsep
    cases f with
    | zero => omega
    | succ f =>
      have he : (t.text ++ flat r).isEmpty = false := by
        cases h : t.text with
        | nil => exact absurd h hne
        | cons c x => rfl
      simp only [flat, List.length_append] at hf
      have hpos : 0 < t.text.length := List.length_pos_iff.2 hne
      simp only [tokLoop, flat, he, Bool.false_eq_true, if_false, TokOK.pass_eq pt prev pos hok]
      rw [ih hrest f (some t.cat) (pos + t.text.length) (by omega)]
      rfl

end TexSoup
