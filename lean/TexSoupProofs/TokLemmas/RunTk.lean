import TexSoupProofs.TokLemmas.Basic
/-!
# One tokenizer call: how many characters it may consume

* a produced token has between 1 and `rest.length` characters;
* a `None` answer advances only over ignored characters (and only `ignore` advances).
-/
namespace TexSoup

/-- No entry of the generated sizing-command table is empty. -/
theorem punctuationCommands_nonempty : ∀ p ∈ Tables.punctuationCommands, p ≠ [] := by
  decide +kernel

/-- `TokenCode` and `CategoryCodes` are different enumerations whose numeric values do not
collide at `Comment`: the guard `prev.category != CC.Comment` of `tokenize_line_comment`
is always true. -/
theorem tcValue_ne_ccComment (t : TC) : (Tables.tcValue t != Tables.ccValue .Comment) = true := by
  cases t <;> decide

theorem spacerRun_le (rest : Str) : spacerRun rest ≤ rest.length := by
  unfold spacerRun
  simp only []
  have h1 := countWhile_le isSpacerCh rest
  generalize countWhile isSpacerCh rest = n1 at *
  have hlen : (rest.drop n1).length = rest.length - n1 := by simp
  generalize rest.drop n1 = r1 at *
  cases r1 with
  | nil => simp only [List.length_nil] at hlen; simp [countWhile]; omega
  | cons c r =>
    simp only [List.length_cons] at hlen
    by_cases hc : (catOf c == CC.EndOfLine) = true
    · have := countWhile_le isSpacerCh r
      simp only [hc, if_true, List.drop_succ_cons, List.drop_zero]
      omega
    · have := countWhile_le isSpacerCh (c :: r)
      simp only [List.length_cons] at this
      simp only [hc, Bool.false_eq_true, if_false, List.drop_zero]
      omega

/-- A token returned by any tokenizer is non-empty and fits into the remaining input. -/
theorem runTk_tok {k : TkName} {pt : Option TC} {prev : Option Ch} {rest : Str} {n : Nat} {c : TC}
    (h : runTk k pt prev rest = .tok n c) : 0 < n ∧ n ≤ rest.length := by
  cases k <;> simp only [runTk] at h
  case escapedSymbols =>
    split at h
    · split at h <;> cases h
      simp
    · cases h
  case comment =>
    split at h
    · rename_i c0 r
      have := countWhile_le (fun c => catOf c != .EndOfLine) r
      (repeat' split at h) <;> cases h <;> (simp only [List.length_cons]; omega)
    · cases h
  case mathSymSwitch =>
    split at h
    · split at h
      · split at h
        · split at h <;> cases h <;> simp
        · cases h; simp
      · cases h
    · cases h
  case mathAsymSwitch =>
    split at h
    · split at h
      · split at h <;> cases h
        simp
      · cases h
    · cases h
  case lineBreak =>
    split at h
    · split at h <;> cases h
      simp
    · cases h
  case ignore => cases h
  case spacers =>
    have hle := spacerRun_le rest
    split at h
    · split at h
      · cases h
      · split at h <;> cases h
        rename_i hn
        simp only [beq_iff_eq] at hn
        omega
    · split at h <;> cases h
      rename_i hn
      simp only [beq_iff_eq] at hn
      omega
  case symbols =>
    split at h
    · split at h <;> cases h
      simp
    · cases h
  case punctuationCommandName =>
    split at h
    · split at h
      · split at h <;> cases h
        rename_i point hfm
        have ⟨hm, hp⟩ := firstMatch_some hfm
        have hne := punctuationCommands_nonempty _ hm
        have hlen := isPrefix_length_le hp
        exact ⟨List.length_pos_iff.2 hne, hlen⟩
      · cases h
    · cases h
  case commandName =>
    split at h
    · split at h <;> cases h
      rename_i r _
      have := countWhile_le (fun c => isLetterCh c || c == 42) r
      simp only [List.length_cons]; omega
    · cases h
  case string =>
    have hle := countWhile_le (fun c => !isStringStop (catOf c)) rest
    split at h <;> cases h
    rename_i hn
    simp only [beq_iff_eq] at hn
    omega

/-- A tokenizer that returns `None` has advanced only over ignored characters. -/
theorem runTk_skip {k : TkName} {pt : Option TC} {prev : Option Ch} {rest : Str} {n : Nat}
    (h : runTk k pt prev rest = .skip n) :
    n ≤ rest.length ∧ ∀ c ∈ rest.take n, isIgnored (catOf c) = true := by
  by_cases hk : k = .ignore
  · subst hk
    simp only [runTk] at h
    cases h
    exact ⟨countWhile_le _ _, fun c hc => mem_take_countWhile hc⟩
  · have h0 : n = 0 := by
      cases k <;> simp only [runTk] at h
      all_goals first
        | exact absurd rfl hk
        | (repeat' split at h) <;> first | (cases h; done) | (cases h; rfl)
    subst h0
    simp

/-- Only `ignore` ever advances without producing a token. -/
theorem runTk_skip_zero {k : TkName} {pt : Option TC} {prev : Option Ch} {rest : Str} {n : Nat}
    (hk : k ≠ .ignore) (h : runTk k pt prev rest = .skip n) : n = 0 := by
  cases k <;> simp only [runTk] at h
  all_goals first
    | exact absurd rfl hk
    | (repeat' split at h) <;> first | (cases h; done) | (cases h; rfl)

end TexSoup
