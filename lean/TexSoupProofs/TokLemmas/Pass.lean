import TexSoupProofs.TokLemmas.RunTk
/-!
# One `next_token` pass, the `tokenize` loop, and the token chain it produces

`TokChain pos rest ts` is the loop invariant in closed form: starting at offset `pos` with
remaining input `rest`, the tokens `ts` are laid out one after the other, separated only by
ignored characters, each at its recorded offset.
-/
namespace TexSoup

abbrev AllIgnored (l : Str) : Prop := ∀ c ∈ l, isIgnored (catOf c) = true

/-! ## One pass -/

/-- A pass that returns a token: the input splits into ignored characters, the token text,
and the new remaining input; offsets are updated accordingly. -/
theorem pass_tok {ks : List TkName} {pt : Option TC} {st st' : TSt} {t : Tok}
    (h : pass ks pt st = .tok t st') :
    ∃ ign, AllIgnored ign ∧ st.rest = ign ++ (t.text ++ st'.rest) ∧ t.text ≠ [] ∧
      t.pos = st.pos + ign.length ∧ st'.pos = t.pos + t.text.length := by
  induction ks generalizing st with
  | nil => simp [pass] at h
  | cons k ks ih =>
    simp only [pass] at h
    split at h
    · rename_i n c hk
      have ⟨hpos, hle⟩ := runTk_tok hk
      cases h
      refine ⟨[], by simp [AllIgnored], ?_, ?_, by simp, rfl⟩
      · simp [TSt.adv]
      · intro he
        have := congrArg List.length he
        simp only [List.length_take, List.length_nil] at this; omega
    · rename_i n hk
      have ⟨hle, hign⟩ := runTk_skip hk
      split at h
      · cases h
      · obtain ⟨ign, hi, hr, hne, hp, hp'⟩ := ih h
        refine ⟨st.rest.take n ++ ign, ?_, ?_, hne, ?_, hp'⟩
        · intro c hc
          rcases List.mem_append.1 hc with hc | hc
          · exact hign c hc
          · exact hi c hc
        · rw [List.append_assoc, ← hr, TSt.adv_rest, List.take_append_drop]
        · rw [hp, TSt.adv_pos, List.length_append]; omega

/-- A pass that returns no token has only advanced over ignored characters. -/
theorem pass_none {ks : List TkName} {pt : Option TC} {st st' : TSt}
    (h : pass ks pt st = .none st') :
    ∃ ign, AllIgnored ign ∧ st.rest = ign ++ st'.rest ∧ st'.pos = st.pos + ign.length := by
  induction ks generalizing st with
  | nil => simp only [pass] at h; cases h; exact ⟨[], by simp [AllIgnored], by simp, by simp⟩
  | cons k ks ih =>
    simp only [pass] at h
    split at h
    · cases h
    · rename_i n hk
      have ⟨hle, hign⟩ := runTk_skip hk
      have key : ∀ st'' : TSt, (∃ ign, AllIgnored ign ∧ (st.adv n).rest = ign ++ st''.rest ∧
            st''.pos = (st.adv n).pos + ign.length) →
          ∃ ign, AllIgnored ign ∧ st.rest = ign ++ st''.rest ∧ st''.pos = st.pos + ign.length := by
        rintro st'' ⟨ign, hi, hr, hp⟩
        refine ⟨st.rest.take n ++ ign, ?_, ?_, ?_⟩
        · intro c hc
          rcases List.mem_append.1 hc with hc | hc
          · exact hign c hc
          · exact hi c hc
        · rw [List.append_assoc, ← hr, TSt.adv_rest, List.take_append_drop]
        · rw [hp, TSt.adv_pos, List.length_append]; omega
      split at h
      · cases h
        exact key _ ⟨[], by simp [AllIgnored], by simp, by simp⟩
      · exact key _ (ih h)

/-- If a pass neither produces a token nor consumes anything, every tokenizer in the list
answered `None` without moving. -/
theorem pass_none_stall {ks : List TkName} {pt : Option TC} {st st' : TSt}
    (h : pass ks pt st = .none st') (hlen : st.rest.length ≤ st'.rest.length)
    (hne : st.rest ≠ []) : ∀ k ∈ ks, runTk k pt st.prev st.rest = .skip 0 := by
  induction ks generalizing st with
  | nil => simp
  | cons k ks ih =>
    simp only [pass] at h
    split at h
    · cases h
    · rename_i n hk
      have ⟨hle, _⟩ := runTk_skip hk
      have hn : n = 0 := by
        split at h
        · rename_i he
          cases h
          simp only [TSt.adv_rest, List.length_drop] at hlen
          have : 0 < st.rest.length := List.length_pos_iff.2 hne
          omega
        · obtain ⟨ign, _, hr, _⟩ := pass_none h
          have := congrArg List.length hr
          simp only [TSt.adv_rest, List.length_drop, List.length_append] at this
          omega
      subst hn
      simp only [TSt.adv_zero] at h
      split at h
      · rename_i he
        simp only [List.isEmpty_iff] at he
        exact absurd he hne
      · intro k' hk'
        rcases List.mem_cons.1 hk' with rfl | hk'
        · exact hk
        · exact ih h hlen hne k' hk'

/-- The `prev` guard of `tokenize_line_comment` never fires: the comment tokenizer only looks
at the first character. -/
theorem runTk_comment (pt : Option TC) (prev : Option Ch) (c0 : Ch) (r : Str) :
    runTk .comment pt prev (c0 :: r) =
      if catOf c0 == .Comment then
        .tok (1 + countWhile (fun c => catOf c != .EndOfLine) r) .Comment
      else .skip 0 := by
  cases pt with
  | none => simp [runTk]
  | some t => simp [runTk, tcValue_ne_ccComment t]

/-- With the registered tokenizers, some tokenizer always reacts to a non-empty input:
a stop character of `string` is claimed by `symbols`, `math_sym_switch` or `comment`, and an
ignored character by `ignore`.  (Depends on the generated table only through membership.) -/
theorem no_stall (pt : Option TC) (prev : Option Ch) {rest : Str} (hne : rest ≠ []) :
    ¬ ∀ k ∈ Tables.tokenizerOrder, runTk k pt prev rest = .skip 0 := by
  intro hall
  obtain ⟨c, r, rfl⟩ := List.exists_cons_of_ne_nil hne
  have hstr := hall .string (by decide)
  have hsym := hall .symbols (by decide)
  have hmath := hall .mathSymSwitch (by decide)
  have hcom := hall .comment (by decide)
  rw [runTk_comment] at hcom
  simp only [runTk] at hstr hsym hmath
  have hstop : isStringStop (catOf c) = true := by
    by_cases h0 : countWhile (fun c => !isStringStop (catOf c)) (c :: r) = 0
    · have := countWhile_cons_eq_zero h0
      simpa using this
    · simp [h0] at hstr
  cases hc : catOf c <;> simp [hc, isStringStop, symbolOf] at hstop hsym hmath hcom
  · (repeat' split at hmath) <;> cases hmath

/-- **Progress.** One pass of `next_token` over a non-empty input either returns a token or
strictly shortens the input. -/
theorem pass_none_progress {pt : Option TC} {st st' : TSt} (hne : st.rest ≠ [])
    (h : pass Tables.tokenizerOrder pt st = .none st') : st'.rest.length < st.rest.length := by
  apply Nat.lt_of_not_le
  intro hle
  exact no_stall pt st.prev hne (pass_none_stall h hle hne)

theorem pass_tok_progress {ks : List TkName} {pt : Option TC} {st st' : TSt} {t : Tok}
    (h : pass ks pt st = .tok t st') : st'.rest.length < st.rest.length := by
  obtain ⟨ign, _, hr, hne, _, _⟩ := pass_tok h
  have := congrArg List.length hr
  have : 0 < t.text.length := List.length_pos_iff.2 hne
  simp only [List.length_append] at *
  omega

/-! ## The loop -/

/-- The loop terminates normally whenever the fuel exceeds the remaining input. -/
theorem tokLoop_total (f : Nat) (pt : Option TC) (st : TSt) (h : st.rest.length < f) :
    ∃ ts, tokLoop f pt st = some ts := by
  induction f generalizing pt st with
  | zero => omega
  | succ f ih =>
    simp only [tokLoop]
    split
    · exact ⟨[], rfl⟩
    · rename_i he
      have hne : st.rest ≠ [] := by simpa using he
      split
      · rename_i t st' hp
        have := pass_tok_progress hp
        obtain ⟨ts, hts⟩ := ih (some t.cat) st' (by omega)
        exact ⟨t :: ts, by simp [hts]⟩
      · rename_i st' hp
        have := pass_none_progress hne hp
        exact ih pt st' (by omega)

/-- Layout of a token list over the input: ignored characters, then a non-empty token at its
recorded offset, and so on; only ignored characters may follow the last token. -/
inductive TokChain : Nat → Str → List Tok → Prop
  | done (pos : Nat) (ign : Str) : AllIgnored ign → TokChain pos ign []
  | cons (pos : Nat) (ign : Str) (t : Tok) (rest : Str) (ts : List Tok) :
      AllIgnored ign → t.text ≠ [] → t.pos = pos + ign.length →
      TokChain (t.pos + t.text.length) rest ts →
      TokChain pos (ign ++ (t.text ++ rest)) (t :: ts)

theorem TokChain.prepend {pos : Nat} {ign rest : Str} {ts : List Tok} (hi : AllIgnored ign)
    (h : TokChain (pos + ign.length) rest ts) : TokChain pos (ign ++ rest) ts := by
  have hall : ∀ ign', AllIgnored ign' → AllIgnored (ign ++ ign') := by
    intro ign' hi' c hc
    rcases List.mem_append.1 hc with hc | hc
    · exact hi c hc
    · exact hi' c hc
  cases h with
  | done _ ign' hi' => exact .done _ _ (hall _ hi')
  | cons _ ign' t rest' ts' hi' hne hp hc =>
    rw [← List.append_assoc]
    exact .cons _ _ _ _ _ (hall _ hi') hne (by rw [hp, List.length_append]; omega) hc

/-- **Loop invariant.** -/
theorem tokLoop_chain (f : Nat) (pt : Option TC) (st : TSt) {ts : List Tok}
    (h : tokLoop f pt st = some ts) : TokChain st.pos st.rest ts := by
  induction f generalizing pt st ts with
  | zero => simp [tokLoop] at h
  | succ f ih =>
    simp only [tokLoop] at h
    split at h
    · rename_i he
      cases h
      have : st.rest = [] := by simpa using he
      rw [this]
      exact .done _ _ (by simp [AllIgnored])
    · split at h
      · rename_i t st' hp
        obtain ⟨ign, hi, hr, hne, hpos, hpos'⟩ := pass_tok hp
        cases hl : tokLoop f (some t.cat) st' with
        | none => simp [hl] at h
        | some ts' =>
          simp only [hl, Option.map_some, Option.some.injEq] at h
          subst h
          rw [hr]
          exact .cons _ _ _ _ _ hi hne hpos (hpos' ▸ ih _ _ hl)
      · rename_i st' hp
        obtain ⟨ign, hi, hr, hpos⟩ := pass_none hp
        rw [hr]
        exact TokChain.prepend hi (hpos ▸ ih _ _ h)

/-! ## Consequences of the chain -/

theorem TokChain.erased {pos : Nat} {rest : Str} {ts : List Tok} (h : TokChain pos rest ts) :
    Erased rest (flat ts) := by
  induction h with
  | done _ ign hi => exact Erased.of_ignored hi
  | cons _ ign t rest ts hi _ _ _ ih =>
    have h1 : Erased ign [] := Erased.of_ignored hi
    have := h1.append ((Erased.refl t.text).append ih)
    simpa [flat] using this

theorem TokChain.nonempty {pos : Nat} {rest : Str} {ts : List Tok} (h : TokChain pos rest ts) :
    ∀ t ∈ ts, t.text ≠ [] := by
  induction h with
  | done => simp
  | cons _ ign t rest ts _ hne _ _ ih =>
    intro t' ht'
    rcases List.mem_cons.1 ht' with rfl | ht'
    · exact hne
    · exact ih t' ht'

theorem TokChain.slice {pos : Nat} {rest : Str} {ts : List Tok} (h : TokChain pos rest ts) :
    ∀ pre : Str, pre.length = pos →
      ∀ t ∈ ts, t.text = ((pre ++ rest).drop t.pos).take t.text.length := by
  induction h with
  | done => simp
  | cons pos ign t rest ts _ hne hp _ ih =>
    intro pre hpre t' ht'
    rcases List.mem_cons.1 ht' with rfl | ht'
    · have : pre ++ (ign ++ (t'.text ++ rest)) = (pre ++ ign) ++ (t'.text ++ rest) := by simp
      rw [this, List.drop_left' (by rw [hp, List.length_append, hpre])]
      simp
    · have := ih (pre ++ (ign ++ t.text)) (by simp [hp, hpre]; omega) t' ht'
      simpa using this

theorem TokChain.ordered {pos : Nat} {rest : Str} {ts : List Tok} (h : TokChain pos rest ts) :
    (∀ t ∈ ts, pos ≤ t.pos) ∧ ts.Pairwise (fun a b => a.pos + a.text.length ≤ b.pos) := by
  induction h with
  | done => simp
  | cons pos ign t rest ts _ hne hp _ ih =>
    refine ⟨?_, ?_⟩
    · intro t' ht'
      rcases List.mem_cons.1 ht' with rfl | ht'
      · omega
      · have := ih.1 t' ht'; omega
    · exact List.pairwise_cons.2 ⟨fun t' ht' => ih.1 t' ht', ih.2⟩

/-- Every token lies inside the input. -/
theorem TokChain.bounded {pos : Nat} {rest : Str} {ts : List Tok} (h : TokChain pos rest ts) :
    ∀ t ∈ ts, t.pos + t.text.length ≤ pos + rest.length := by
  induction h with
  | done => simp
  | cons pos ign t rest ts _ hne hp _ ih =>
    intro t' ht'
    simp only [List.length_append]
    rcases List.mem_cons.1 ht' with rfl | ht'
    · omega
    · have := ih t' ht'; omega

theorem tokenize_chain {s : Str} {ts : List Tok} (h : tokenize s = some ts) : TokChain 0 s ts :=
  tokLoop_chain _ _ _ h

end TexSoup
