import TexSoupProofs.TokLemmas.Basic
/-!
# `firstMatch` over a prefix-free table does not depend on the order of the table

`PUNCTUATION_COMMANDS` is a Python `set`; its iteration order depends on the hash seed.  The
tokenizer takes the first entry that is a prefix of the remaining text.  For a prefix-free
table at most one entry can match, so the order is irrelevant.
-/
namespace TexSoup

/-- No entry of the table is a proper prefix of another entry. -/
def PrefixFree (tbl : List Str) : Prop :=
  ∀ a ∈ tbl, ∀ b ∈ tbl, a ≠ b → isPrefix a b = false

/-- Executable check for `PrefixFree`. -/
def prefixFreeB (tbl : List Str) : Bool :=
  tbl.all fun a => tbl.all fun b => a == b || !isPrefix a b

theorem prefixFree_of_check {tbl : List Str} (h : prefixFreeB tbl = true) : PrefixFree tbl := by
  intro a ha b hb hab
  simp only [prefixFreeB, List.all_eq_true, Bool.or_eq_true, beq_iff_eq, Bool.not_eq_true'] at h
  rcases h a ha b hb with h | h
  · exact absurd h hab
  · exact h

theorem prefixFree_iff_check (tbl : List Str) : PrefixFree tbl ↔ prefixFreeB tbl = true := by
  refine ⟨fun h => ?_, prefixFree_of_check⟩
  simp only [prefixFreeB, List.all_eq_true, Bool.or_eq_true, beq_iff_eq, Bool.not_eq_true']
  intro a ha b hb
  by_cases hab : a = b
  · exact Or.inl hab
  · exact Or.inr (h a ha b hb hab)

/-- In a prefix-free table at most one entry is a prefix of a given text. -/
theorem PrefixFree.unique {tbl : List Str} (hpf : PrefixFree tbl) {a b rest : Str}
    (ha : a ∈ tbl) (hb : b ∈ tbl) (har : isPrefix a rest = true) (hbr : isPrefix b rest = true) :
    a = b := by
  by_cases hab : a = b
  · exact hab
  · rcases isPrefix_total har hbr with h | h
    · rw [hpf a ha b hb hab] at h; cases h
    · rw [hpf b hb a ha (Ne.symm hab)] at h; cases h

/-- For a prefix-free table, `firstMatch` finds *the* matching entry. -/
theorem firstMatch_eq_some_iff {tbl : List Str} (hpf : PrefixFree tbl) {rest p : Str} :
    firstMatch tbl rest = some p ↔ p ∈ tbl ∧ isPrefix p rest = true := by
  refine ⟨firstMatch_some, fun ⟨hm, hp⟩ => ?_⟩
  cases hf : firstMatch tbl rest with
  | none => rw [firstMatch_none.1 hf p hm] at hp; cases hp
  | some q =>
    have ⟨hqm, hqp⟩ := firstMatch_some hf
    rw [hpf.unique hqm hm hqp hp]

theorem PrefixFree.perm {tbl tbl' : List Str} (hp : tbl'.Perm tbl) (hpf : PrefixFree tbl) :
    PrefixFree tbl' :=
  fun a ha b hb hab => hpf a (hp.mem_iff.1 ha) b (hp.mem_iff.1 hb) hab

/-- **Order independence.**  Any permutation of a prefix-free table gives the same match. -/
theorem firstMatch_perm' {tbl tbl' : List Str} (hpf : PrefixFree tbl) (hp : tbl'.Perm tbl)
    (rest : Str) : firstMatch tbl' rest = firstMatch tbl rest := by
  cases hf : firstMatch tbl rest with
  | none =>
    rw [firstMatch_none] at hf ⊢
    exact fun p hm => hf p (hp.mem_iff.1 hm)
  | some p =>
    have ⟨hm, hpr⟩ := firstMatch_some hf
    exact (firstMatch_eq_some_iff (hpf.perm hp)).2 ⟨hp.mem_iff.2 hm, hpr⟩

/-- The generated sizing-command table is prefix-free. -/
theorem punctuationCommands_prefixFree' : PrefixFree Tables.punctuationCommands :=
  prefixFree_of_check (by decide +kernel)

end TexSoup
