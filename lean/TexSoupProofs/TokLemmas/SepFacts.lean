import TexSoupProofs.Properties.TokInverse
import TexSoupProofs.Reader.ConsDefs
/-!
# What a separated token list knows about its tokens

Every token of a `Separated` list carries the text its category stands for (`shapedB`), and the
token after a backslash is a command name – letters and `*`, or a sizing command – hence free of
blanks (`strip` leaves it alone). These are the lexical hypotheses `Hyp.shaped` / `Hyp.escOK` of
the reader theorems, obtained here without running the tokenizer.
-/
namespace TexSoup

theorem tokOK_shaped {prev : Option Ch} {t : Tok} {w : Str} (h : TokOK prev t w) :
    shapedB t = true := by
  unfold TokOK at h
  unfold shapedB
  cases hc : t.cat <;> rw [hc] at h <;> simp only [TokOK'] at h ⊢
  case Escape =>
    obtain ⟨c0, ht, h0, _⟩ := txtOne_iff.1 h
    rw [ht, escape_char h0]; rfl
  case GroupBegin =>
    obtain ⟨c0, ht, h0⟩ := txtOne_iff.1 h
    rw [ht, groupBegin_char h0]; rfl
  case GroupEnd =>
    obtain ⟨c0, ht, h0⟩ := txtOne_iff.1 h
    rw [ht, groupEnd_char h0]; rfl
  case BracketBegin =>
    obtain ⟨c0, ht, h0⟩ := txtOne_iff.1 h
    rw [ht, bracketBegin_char h0]; rfl
  case BracketEnd =>
    obtain ⟨c0, ht, h0⟩ := txtOne_iff.1 h
    rw [ht, bracketEnd_char h0]; rfl
  case MathSwitch =>
    obtain ⟨c0, ht, h0, _⟩ := txtOne_iff.1 h
    rw [ht, mathSwitch_char h0]; rfl
  case DisplayMathSwitch =>
    obtain ⟨c0, c1, ht, h0, h1⟩ := txtTwo_iff.1 h
    rw [ht, mathSwitch_char h0, mathSwitch_char h1]; rfl
  case MathGroupBegin =>
    obtain ⟨c0, c1, ht, h0, h1⟩ := txtTwo_iff.1 h
    rw [ht, escape_char h0, parenBegin_char h1]; rfl
  case MathGroupEnd =>
    obtain ⟨c0, c1, ht, h0, h1⟩ := txtTwo_iff.1 h
    rw [ht, escape_char h0, parenEnd_char h1]; rfl
  case DisplayMathGroupBegin =>
    obtain ⟨c0, c1, ht, h0, h1⟩ := txtTwo_iff.1 h
    rw [ht, escape_char h0, bracketBegin_char h1]; rfl
  case DisplayMathGroupEnd =>
    obtain ⟨c0, c1, ht, h0, h1⟩ := txtTwo_iff.1 h
    rw [ht, escape_char h0, bracketEnd_char h1]; rfl

/-- every token of a separated list is spelled the way its category says -/
theorem separated_shaped {prev : Option Ch} {ts : List Tok} (h : Separated prev ts) :
    ∀ t ∈ ts, shapedB t = true := by
  induction ts generalizing prev with
  | nil => intro t ht; cases ht
  | cons u r ih =>
    obtain ⟨_, hu, hr⟩ := h
    intro t ht
    rcases List.mem_cons.1 ht with rfl | ht
    · exact tokOK_shaped hu
    · exact ih hr t ht

/-- The token after a backslash is a command name: no blanks at its ends. -/
theorem name_after_escape {prev : Option Ch} {esc n : Tok} {r : List Tok}
    (h : Separated prev (esc :: n :: r)) (hc : esc.cat = .Escape) : strip n.text = n.text := by
  obtain ⟨_, hesc, hrest⟩ := h
  obtain ⟨hne, hn, _⟩ := hrest
  unfold TokOK at hesc hn
  rw [hc] at hesc
  simp only [TokOK'] at hesc
  obtain ⟨c0, ht, h0, h1⟩ := txtOne_iff.1 hesc
  rw [ht] at hn
  have hpe : prevEsc (lastD [c0] prev) = true := by simp [lastD, prevEsc, h0]
  obtain ⟨c1, body, hnt⟩ : ∃ c1 body, n.text = c1 :: body := by
    cases hx : n.text with
    | nil => exact absurd hx hne
    | cons c1 body => exact ⟨c1, body, rfl⟩
  have hh := h1 c1 (by simp [flat, hnt])
  have hesc1 : isEscapable (catOf c1) = false := hh.1
  have hasym : asymSwitch (catOf c1) = none := hh.2
  rw [hnt] at hn ⊢
  cases hcat : n.cat <;> rw [hcat] at hn <;> simp only [TokOK'] at hn
  case Escape =>
    obtain ⟨c, ht', hc', _⟩ := txtOne_iff.1 hn
    cases ht'; rw [hc'] at hesc1; cases hesc1
  case GroupBegin =>
    obtain ⟨c, ht', hc'⟩ := txtOne_iff.1 hn
    cases ht'; rw [hc'] at hesc1; cases hesc1
  case GroupEnd =>
    obtain ⟨c, ht', hc'⟩ := txtOne_iff.1 hn
    cases ht'; rw [hc'] at hesc1; cases hesc1
  case BracketBegin =>
    obtain ⟨c, ht', hc'⟩ := txtOne_iff.1 hn
    cases ht'; rw [hc'] at hasym; cases hasym
  case BracketEnd =>
    obtain ⟨c, ht', hc'⟩ := txtOne_iff.1 hn
    cases ht'; rw [hc'] at hasym; cases hasym
  case MathSwitch =>
    obtain ⟨c, ht', hc', _⟩ := txtOne_iff.1 hn
    cases ht'; rw [hc'] at hesc1; cases hesc1
  case DisplayMathSwitch =>
    obtain ⟨a, b, ht', ha, _⟩ := txtTwo_iff.1 hn
    cases ht'; rw [ha] at hesc1; cases hesc1
  case EscapedComment =>
    obtain ⟨a, b, ht', ha, _⟩ := txtTwo_iff.1 hn
    cases ht'; rw [ha] at hesc1; cases hesc1
  case MathGroupBegin =>
    obtain ⟨a, b, ht', ha, _⟩ := txtTwo_iff.1 hn
    cases ht'; rw [ha] at hesc1; cases hesc1
  case MathGroupEnd =>
    obtain ⟨a, b, ht', ha, _⟩ := txtTwo_iff.1 hn
    cases ht'; rw [ha] at hesc1; cases hesc1
  case DisplayMathGroupBegin =>
    obtain ⟨a, b, ht', ha, _⟩ := txtTwo_iff.1 hn
    cases ht'; rw [ha] at hesc1; cases hesc1
  case DisplayMathGroupEnd =>
    obtain ⟨a, b, ht', ha, _⟩ := txtTwo_iff.1 hn
    cases ht'; rw [ha] at hesc1; cases hesc1
  case Comment =>
    obtain ⟨a, b, ht', ha, _⟩ := txtMany_iff.1 hn
    cases ht'; rw [ha] at hesc1; cases hesc1
  case MergedSpacer =>
    exfalso
    obtain ⟨_, hrun, _⟩ := hn
    have : spacerRun (c1 :: (body ++ flat r)) = 0 :=
      spacerRun_zero c1 _ (by intro hx; rw [hx] at hesc1; cases hesc1)
        (by intro hx; rw [hx] at hesc1; cases hesc1)
    simp only [List.cons_append] at hrun
    rw [this] at hrun
    simp at hrun
  case CommandName =>
    obtain ⟨_, hm, _, _⟩ := hn
    obtain ⟨a, b, ht', ha, hb⟩ := txtMany_iff.1 hm
    cases ht'
    apply strip_of_no_space
    intro c hcm
    rcases List.mem_cons.1 hcm with rfl | hcm
    · exact letterOrStar_not_space (by simp [isLetterCh, ha])
    · exact letterOrStar_not_space (hb c hcm)
  case PunctuationCommandName =>
    exact strip_of_no_space (punctuationCommands_no_space _ hn.2)
  case Text =>
    exfalso
    obtain ⟨hm, _, _, _⟩ := hn
    obtain ⟨a, b, ht', hi, hl⟩ := txtMany_iff.1 hm
    cases ht'
    exact hl hpe (letter_of_leftover hesc1 hasym hi)

/-- … anywhere in a separated list (`Hyp.escOK`). -/
theorem separated_escOK {prev : Option Ch} {ts : List Tok} (h : Separated prev ts) :
    ∀ pre esc n r, ts = pre ++ esc :: n :: r → esc.cat = .Escape → strip n.text = n.text := by
  intro pre esc n r he hc
  rw [he] at h
  exact name_after_escape h.suffix hc

end TexSoup
