import TexSoupProofs.TokLemmas.SqueezeSep
/-!
# Changing the text of name tokens keeps a token list separated

`NVar ts ts'`: `ts'` is `ts` with the text of some tokens replaced – of a token after a
backslash whose text is a command name (`goodName`: a letter, then letters or `*`) by another
command name that is no sizing prefix, or of a token after an opening brace whose text starts
with a letter by a text that can stand as one text token (`goodText`). If `ts` is `Separated`
and no command-name token is a bare sizing prefix, then `ts'` is `Separated`
(`NVar.separated`):

 * the renamed command-name token still follows a backslash, consists of name characters, ends
   where the old one ended (the next character is the same non-name character) and starts no
   sizing command; the backslash in front of it is still followed by a letter;
 * the renamed text token still follows the brace (which is no backslash), contains no character
   at which a text ends, and is followed by the same character;
 * every other token sees the same next character; a command name in front is no sizing prefix,
   so that no sizing command can start there whatever follows; the token after a renamed one is
   preceded by a character that is no backslash, as before.
-/
namespace TexSoup

/-- `TokOK` depends on the previous character only through "is it a backslash". -/
theorem tokOK_prevEsc {prev prev' : Option Ch} {t : Tok} {w : Str} (h : TokOK prev t w)
    (hp : prevEsc prev' = prevEsc prev) : TokOK prev' t w := by
  unfold TokOK at h ⊢
  cases hc : t.cat <;> rw [hc] at h <;> simp only [TokOK'] at h ⊢ <;> first
    | exact h
    | (rw [hp]; exact h)

theorem separated_prevEsc {prev prev' : Option Ch} {ts : List Tok} (h : Separated prev ts)
    (hp : prevEsc prev' = prevEsc prev) : Separated prev' ts := by
  cases ts with
  | nil => trivial
  | cons t r =>
    obtain ⟨hne, hok, hr⟩ := h
    refine ⟨hne, tokOK_prevEsc hok hp, ?_⟩
    rw [lastD_ne_nil prev' prev hne]; exact hr

/-- a letter, then letters or `*` -/
def goodName : Str → Bool
  | c :: body => isLetterCh c && body.all nameCh
  | [] => false

/-- a text that is one `Text` token wherever it follows something that is no backslash and is
followed by a character at which texts end -/
def goodText : Str → Bool
  | c :: body => !isIgnored (catOf c) && (c :: body).all (fun x => !isStringStop (catOf x))
      && textSpacerOK (c :: body)
  | [] => false

theorem goodName_spec {s : Str} (h : goodName s = true) :
    ∃ c body, s = c :: body ∧ catOf c = .Letter ∧ (∀ x ∈ body, nameCh x = true) ∧ ∀ x ∈ s, nameCh x = true := by
  cases s with
  | nil => simp [goodName] at h
  | cons c body =>
    simp only [goodName, Bool.and_eq_true, List.all_eq_true, isLetterCh, beq_iff_eq] at h
    refine ⟨c, body, rfl, h.1, h.2, ?_⟩
    intro x hx
    rcases List.mem_cons.1 hx with rfl | hx
    · simp [nameCh, isLetterCh, h.1]
    · exact h.2 x hx

theorem nameCh_not_escape {c : Ch} (h : nameCh c = true) : catOf c ≠ .Escape := by
  simp only [nameCh, isLetterCh, Bool.or_eq_true, beq_iff_eq] at h
  rcases h with h | h
  · rw [h]; decide
  · rw [h]; decide

theorem prevEsc_lastD_of_all : ∀ (l : Str) (d : Option Ch), l ≠ [] → (∀ c ∈ l, catOf c ≠ .Escape) →
    prevEsc (lastD l d) = false
  | [], _, h, _ => absurd rfl h
  | [c], d, _, hall => by
      have := hall c (by simp)
      simp [lastD, prevEsc, this]
  | c :: c2 :: r, d, _, hall => by
      simp only [lastD]
      exact prevEsc_lastD_of_all (c2 :: r) (some c) (by simp) (fun x hx => hall x (by simp [hx]))

/-- The category of a token whose text starts with a letter. -/
theorem cat_of_letter_start {prev : Option Ch} {t : Tok} {w : Str} (h : TokOK prev t w)
    (hl : ∃ c b, t.text = c :: b ∧ catOf c = .Letter) :
    (t.cat = .Text ∧ prevEsc prev = false) ∨ (t.cat = .CommandName ∧ prevEsc prev = true) ∨
      (t.cat = .PunctuationCommandName ∧ prevEsc prev = true) := by
  obtain ⟨c, b, htx, hcl⟩ := hl
  unfold TokOK at h
  cases hc : t.cat <;> rw [hc] at h <;> simp only [TokOK'] at h
  case Escape => obtain ⟨c0, ht, h0, _⟩ := txtOne_iff.1 h; rw [htx] at ht; cases ht; rw [hcl] at h0; cases h0
  case GroupBegin => obtain ⟨c0, ht, h0⟩ := txtOne_iff.1 h; rw [htx] at ht; cases ht; rw [hcl] at h0; cases h0
  case GroupEnd => obtain ⟨c0, ht, h0⟩ := txtOne_iff.1 h; rw [htx] at ht; cases ht; rw [hcl] at h0; cases h0
  case BracketBegin => obtain ⟨c0, ht, h0⟩ := txtOne_iff.1 h; rw [htx] at ht; cases ht; rw [hcl] at h0; cases h0
  case BracketEnd => obtain ⟨c0, ht, h0⟩ := txtOne_iff.1 h; rw [htx] at ht; cases ht; rw [hcl] at h0; cases h0
  case MathSwitch => obtain ⟨c0, ht, h0, _⟩ := txtOne_iff.1 h; rw [htx] at ht; cases ht; rw [hcl] at h0; cases h0
  case DisplayMathSwitch =>
    obtain ⟨a, b', ht, h0, _⟩ := txtTwo_iff.1 h; rw [htx] at ht; cases ht; rw [hcl] at h0; cases h0
  case EscapedComment =>
    obtain ⟨a, b', ht, h0, _⟩ := txtTwo_iff.1 h; rw [htx] at ht; cases ht; rw [hcl] at h0; cases h0
  case MathGroupBegin =>
    obtain ⟨a, b', ht, h0, _⟩ := txtTwo_iff.1 h; rw [htx] at ht; cases ht; rw [hcl] at h0; cases h0
  case MathGroupEnd =>
    obtain ⟨a, b', ht, h0, _⟩ := txtTwo_iff.1 h; rw [htx] at ht; cases ht; rw [hcl] at h0; cases h0
  case DisplayMathGroupBegin =>
    obtain ⟨a, b', ht, h0, _⟩ := txtTwo_iff.1 h; rw [htx] at ht; cases ht; rw [hcl] at h0; cases h0
  case DisplayMathGroupEnd =>
    obtain ⟨a, b', ht, h0, _⟩ := txtTwo_iff.1 h; rw [htx] at ht; cases ht; rw [hcl] at h0; cases h0
  case Comment =>
    obtain ⟨c0, body, ht, h0, _⟩ := txtMany_iff.1 h; rw [htx] at ht; cases ht; rw [hcl] at h0; cases h0
  case MergedSpacer =>
    exfalso
    obtain ⟨_, hrun, _⟩ := h
    rw [htx] at hrun
    have : spacerRun (c :: (b ++ w)) = 0 :=
      spacerRun_zero c _ (by rw [hcl]; decide) (by rw [hcl]; decide)
    simp only [List.cons_append] at hrun
    rw [this] at hrun
    simp at hrun
  case CommandName => exact .inr (.inl ⟨rfl, h.1⟩)
  case PunctuationCommandName => exact .inr (.inr ⟨rfl, h.1⟩)
  case Text =>
    left
    refine ⟨rfl, ?_⟩
    obtain ⟨hm, _⟩ := h
    obtain ⟨c0, body, ht, _, hpe⟩ := txtMany_iff.1 hm
    rw [htx] at ht; cases ht
    cases hp : prevEsc prev with
    | false => rfl
    | true => exact absurd hcl (hpe hp)
  all_goals exact h.elim

/-- a sizing command contains a character that is no name character -/
theorem punctuation_not_goodName {s : Str} (h : s ∈ Tables.punctuationCommands)
    (hall : ∀ x ∈ s, nameCh x = true) : False := by
  obtain ⟨A, _, D, rfl, _, d, D', rfl, hd⟩ := punctuationCommands_split s h
  have := hall d (by simp)
  rw [hd] at this; cases this

/-- `ts'` is `ts` with some name tokens relabelled. -/
inductive NVar : List Tok → List Tok → Prop
  | nil : NVar [] []
  | same (t : Tok) {r r' : List Tok} : NVar r r' → NVar (t :: r) (t :: r')
  /-- the name token of a command -/
  | name (esc n n' : Tok) {r r' : List Tok} : esc.cat = .Escape → n'.cat = n.cat →
      goodName n.text = true → goodName n'.text = true → n'.text ∉ Tables.sizePrefix →
      NVar r r' → NVar (esc :: n :: r) (esc :: n' :: r')
  /-- the name token inside the braces after `\begin` / `\end` -/
  | envn (o nt nt' : Tok) {r r' : List Tok} : o.cat = .GroupBegin → nt'.cat = nt.cat →
      (∃ c b, nt.text = c :: b ∧ catOf c = .Letter) → goodText nt'.text = true →
      NVar r r' → NVar (o :: nt :: r) (o :: nt' :: r')

theorem NVar.refl : ∀ ts : List Tok, NVar ts ts
  | [] => .nil
  | t :: r => .same t (NVar.refl r)

theorem NVar.append {a a' b b' : List Tok} (h1 : NVar a a') (h2 : NVar b b') : NVar (a ++ b) (a' ++ b') := by
  induction h1 with
  | nil => exact h2
  | same t _ ih => exact .same t ih
  | name esc n n' h3 h4 h5 h6 h7 _ ih => exact .name esc n n' h3 h4 h5 h6 h7 ih
  | envn o nt nt' h3 h4 h5 h6 _ ih => exact .envn o nt nt' h3 h4 h5 h6 ih

/-- The first token is never a relabelled one: the texts start with the same character. -/
theorem NVar.head {prev : Option Ch} {ts ts' : List Tok} (h : NVar ts ts') (hs : Separated prev ts) :
    (flat ts').head? = (flat ts).head? := by
  cases h with
  | nil => rfl
  | same t _ => rw [flat_head_cons t _ hs.1, flat_head_cons t _ hs.1]
  | name esc n n' _ _ _ _ _ _ => rw [flat_head_cons esc _ hs.1, flat_head_cons esc _ hs.1]
  | envn o nt nt' _ _ _ _ _ => rw [flat_head_cons o _ hs.1, flat_head_cons o _ hs.1]

/-- **Relabelling name tokens keeps a token list separated**, if no command name is a bare
sizing prefix. -/
theorem NVar.separated {ts ts' : List Tok} (h : NVar ts ts') : ∀ {prev : Option Ch},
    Separated prev ts → (∀ t ∈ ts, t.cat = .CommandName → t.text ∉ Tables.sizePrefix) →
    Separated prev ts' := by
  induction h with
  | nil => intro _ _ _; trivial
  | @same t r r' hr ih =>
    intro prev hs hns
    obtain ⟨hne, hok, hrest⟩ := hs
    have hh := hr.head hrest
    refine ⟨hne, ?_, ih hrest (fun u hu => hns u (List.mem_cons_of_mem _ hu))⟩
    exact tokOK'_transfer hok hh (fun hc => by
      obtain ⟨hL, hw⟩ := commandName_chars hc hok
      exact firstMatch_none_of_not_sizing hL (by rw [hh]; exact hw) (hns t List.mem_cons_self hc))
  | @name esc n n' r r' hesc hcat hgood hgood' hsz hr ih =>
    intro prev hs hns
    obtain ⟨hne, hok, hrest⟩ := hs
    obtain ⟨hnne, hnok, hrest2⟩ := hrest
    have hh := hr.head hrest2
    obtain ⟨c, body, htx, hcl, _, hall⟩ := goodName_spec hgood
    obtain ⟨c', body', htx', hcl', hbody', hall'⟩ := goodName_spec hgood'
    -- the backslash
    have hesc' := hok
    unfold TokOK at hesc'
    rw [hesc] at hesc'
    simp only [TokOK'] at hesc'
    obtain ⟨c0, ht0, h0, _⟩ := txtOne_iff.1 hesc'
    have hpe : prevEsc (lastD esc.text prev) = true := by simp [ht0, lastD, prevEsc, h0]
    have hokesc : TokOK prev esc (flat (n' :: r')) := by
      unfold TokOK
      rw [hesc, ht0]
      simp only [TokOK', TxtOne]
      refine ⟨h0, ?_⟩
      intro c1 hc1
      simp only [flat, htx', List.cons_append, List.head?_cons, Option.mem_def, Option.some.injEq] at hc1
      subst hc1
      rw [hcl']; exact ⟨rfl, rfl⟩
    -- the name token is a command name
    have hncat : n.cat = .CommandName := by
      rcases cat_of_letter_start hnok ⟨c, body, htx, hcl⟩ with ⟨_, hp⟩ | ⟨hc, _⟩ | ⟨hc, _⟩
      · rw [hpe] at hp; cases hp
      · exact hc
      · exfalso
        unfold TokOK at hnok
        rw [hc] at hnok
        simp only [TokOK'] at hnok
        exact punctuation_not_goodName hnok.2 hall
    have hold := hnok
    unfold TokOK at hold
    rw [hncat] at hold
    simp only [TokOK'] at hold
    obtain ⟨_, _, hw, _⟩ := hold
    have hokn : TokOK (lastD esc.text prev) n' (flat r') := by
      unfold TokOK
      rw [hcat, hncat]
      simp only [TokOK']
      refine ⟨hpe, ?_, by rw [hh]; exact hw, ?_⟩
      · rw [htx']
        exact ⟨hcl', fun x hx => by have := hbody' x hx; simpa [nameCh] using this⟩
      · exact firstMatch_none_of_not_sizing hall' (by rw [hh]; exact hw) hsz
    have hne' : n'.text ≠ [] := by rw [htx']; simp
    refine ⟨hne, hokesc, hne', hokn, ?_⟩
    have hrec := ih hrest2 (fun u hu => hns u (List.mem_cons_of_mem _ (List.mem_cons_of_mem _ hu)))
    refine separated_prevEsc hrec ?_
    rw [prevEsc_lastD_of_all n'.text _ hne' (fun x hx => nameCh_not_escape (hall' x hx)),
      prevEsc_lastD_of_all n.text _ hnne (fun x hx => nameCh_not_escape (hall x hx))]
  | @envn o nt nt' r r' ho hcat hletter hgood' hr ih =>
    intro prev hs hns
    obtain ⟨hne, hok, hrest⟩ := hs
    obtain ⟨hnne, hnok, hrest2⟩ := hrest
    have hh := hr.head hrest2
    -- the brace
    have ho' := hok
    unfold TokOK at ho'
    rw [ho] at ho'
    simp only [TokOK'] at ho'
    obtain ⟨c0, ht0, h0⟩ := txtOne_iff.1 ho'
    have hpe : prevEsc (lastD o.text prev) = false := by simp [ht0, lastD, prevEsc, h0]
    have hoko : TokOK prev o (flat (nt' :: r')) := by
      unfold TokOK
      rw [ho]
      simp only [TokOK']
      exact ho'
    -- the name is a text token
    have hntcat : nt.cat = .Text := by
      rcases cat_of_letter_start hnok hletter with ⟨hc, _⟩ | ⟨_, hp⟩ | ⟨_, hp⟩
      · exact hc
      · rw [hpe] at hp; cases hp
      · rw [hpe] at hp; cases hp
    have hold := hnok
    unfold TokOK at hold
    rw [hntcat] at hold
    simp only [TokOK'] at hold
    obtain ⟨_, hstopOld, _, hw⟩ := hold
    cases htx' : nt'.text with
    | nil => rw [htx'] at hgood'; simp [goodText] at hgood'
    | cons c' body' =>
      rw [htx'] at hgood'
      simp only [goodText, Bool.and_eq_true, Bool.not_eq_true', List.all_eq_true] at hgood'
      obtain ⟨⟨hign, hstop⟩, hsp⟩ := hgood'
      have hokn : TokOK (lastD o.text prev) nt' (flat r') := by
        unfold TokOK
        rw [hcat, hntcat, htx']
        simp only [TokOK', TxtMany]
        refine ⟨⟨hign, fun hp => by rw [hpe] at hp; cases hp⟩, hstop, hsp, by rw [hh]; exact hw⟩
      have hne' : nt'.text ≠ [] := by rw [htx']; simp
      refine ⟨hne, hoko, hne', hokn, ?_⟩
      have hrec := ih hrest2 (fun u hu => hns u (List.mem_cons_of_mem _ (List.mem_cons_of_mem _ hu)))
      refine separated_prevEsc hrec ?_
      have e1 : ∀ x ∈ nt'.text, catOf x ≠ .Escape := by
        intro x hx hxe
        rw [htx'] at hx
        have := hstop x hx
        rw [hxe] at this; cases this
      have e2 : ∀ x ∈ nt.text, catOf x ≠ .Escape := by
        intro x hx hxe
        have := hstopOld x hx
        rw [hxe] at this; cases this
      rw [prevEsc_lastD_of_all nt'.text _ hne' e1, prevEsc_lastD_of_all nt.text _ hnne e2]

/-- a token after an opening brace whose text starts with a letter is a text token -/
theorem text_after_brace {prev : Option Ch} {o nt : Tok} {r : List Tok}
    (hs : Separated prev (o :: nt :: r)) (ho : o.cat = .GroupBegin)
    (hl : ∃ c b, nt.text = c :: b ∧ catOf c = .Letter) : nt.cat = .Text := by
  obtain ⟨_, hok, _, hnok, _⟩ := hs
  unfold TokOK at hok
  rw [ho] at hok
  simp only [TokOK'] at hok
  obtain ⟨c0, ht0, h0⟩ := txtOne_iff.1 hok
  have hpe : prevEsc (lastD o.text prev) = false := by simp [ht0, lastD, prevEsc, h0]
  rcases cat_of_letter_start hnok hl with ⟨hc, _⟩ | ⟨_, hp⟩ | ⟨_, hp⟩
  · exact hc
  · rw [hpe] at hp; cases hp
  · rw [hpe] at hp; cases hp

/-- … and still no command name is a bare sizing prefix. -/
theorem NVar.noBare {ts ts' : List Tok} (h : NVar ts ts') : ∀ {prev : Option Ch},
    Separated prev ts → (∀ t ∈ ts, t.cat = .CommandName → t.text ∉ Tables.sizePrefix) →
    ∀ t ∈ ts', t.cat = .CommandName → t.text ∉ Tables.sizePrefix := by
  induction h with
  | nil => intro _ _ _ t ht; cases ht
  | @same t r r' _ ih =>
    intro prev hs hns u hu
    rcases List.mem_cons.1 hu with rfl | hu
    · exact hns u List.mem_cons_self
    · exact ih hs.2.2 (fun v hv => hns v (List.mem_cons_of_mem _ hv)) u hu
  | @name esc n n' r r' _ _ _ _ hsz _ ih =>
    intro prev hs hns u hu
    rcases List.mem_cons.1 hu with rfl | hu
    · exact hns u List.mem_cons_self
    · rcases List.mem_cons.1 hu with rfl | hu
      · exact fun _ => hsz
      · exact ih hs.2.2.2.2 (fun v hv => hns v (List.mem_cons_of_mem _ (List.mem_cons_of_mem _ hv))) u hu
  | @envn o nt nt' r r' ho hcat hl _ _ ih =>
    intro prev hs hns u hu
    rcases List.mem_cons.1 hu with rfl | hu
    · exact hns u List.mem_cons_self
    · rcases List.mem_cons.1 hu with rfl | hu
      · intro hc
        have := text_after_brace hs ho hl
        rw [hcat, this] at hc; cases hc
      · exact ih hs.2.2.2.2 (fun v hv => hns v (List.mem_cons_of_mem _ (List.mem_cons_of_mem _ hv))) u hu

end TexSoup
