import TexSoupProofs.TokLemmas
import TexSoupProofs.Reader.ConsDefs
/-!
# Every token the tokenizer produces is "shaped"

A delimiter-category token carries exactly the text its category stands for.  The facts
"which characters have which category" are read off the generated table by `decide`.
-/
namespace TexSoup

/-! ## Characters with a given (non-`Other`) category -/

/-- A character whose category is not `Other` is listed with that category in the table. -/
theorem mem_catTable_of_catOf {c : Ch} {v : CC} (h : catOf c = v) (hv : v ≠ .Other) :
    (c, v) ∈ Tables.catTable := by
  rcases lookupD_mem_or Tables.catTable c .Other with h' | ⟨h', _⟩
  · rw [← h]; exact h'
  · exact absurd (h ▸ h') hv

theorem escape_char {c : Ch} (h : catOf c = .Escape) : c = 92 := by
  have key : ∀ e ∈ Tables.catTable, e.2 = CC.Escape → e.1 = 92 := by decide
  exact key _ (mem_catTable_of_catOf h (by decide)) rfl

theorem groupBegin_char {c : Ch} (h : catOf c = .GroupBegin) : c = 123 := by
  have key : ∀ e ∈ Tables.catTable, e.2 = CC.GroupBegin → e.1 = 123 := by decide
  exact key _ (mem_catTable_of_catOf h (by decide)) rfl

theorem groupEnd_char {c : Ch} (h : catOf c = .GroupEnd) : c = 125 := by
  have key : ∀ e ∈ Tables.catTable, e.2 = CC.GroupEnd → e.1 = 125 := by decide
  exact key _ (mem_catTable_of_catOf h (by decide)) rfl

theorem bracketBegin_char {c : Ch} (h : catOf c = .BracketBegin) : c = 91 := by
  have key : ∀ e ∈ Tables.catTable, e.2 = CC.BracketBegin → e.1 = 91 := by decide
  exact key _ (mem_catTable_of_catOf h (by decide)) rfl

theorem bracketEnd_char {c : Ch} (h : catOf c = .BracketEnd) : c = 93 := by
  have key : ∀ e ∈ Tables.catTable, e.2 = CC.BracketEnd → e.1 = 93 := by decide
  exact key _ (mem_catTable_of_catOf h (by decide)) rfl

theorem mathSwitch_char {c : Ch} (h : catOf c = .MathSwitch) : c = 36 := by
  have key : ∀ e ∈ Tables.catTable, e.2 = CC.MathSwitch → e.1 = 36 := by decide
  exact key _ (mem_catTable_of_catOf h (by decide)) rfl

theorem parenBegin_char {c : Ch} (h : catOf c = .ParenBegin) : c = 40 := by
  have key : ∀ e ∈ Tables.catTable, e.2 = CC.ParenBegin → e.1 = 40 := by decide
  exact key _ (mem_catTable_of_catOf h (by decide)) rfl

theorem parenEnd_char {c : Ch} (h : catOf c = .ParenEnd) : c = 41 := by
  have key : ∀ e ∈ Tables.catTable, e.2 = CC.ParenEnd → e.1 = 41 := by decide
  exact key _ (mem_catTable_of_catOf h (by decide)) rfl

/-! ## One tokenizer, one pass, the loop -/

/-- Whatever a single tokenizer returns is shaped. -/
theorem runTk_shaped {k : TkName} {pt : Option TC} {prev : Option Ch} {rest : Str} {n : Nat}
    {c : TC} (pos : Nat) (h : runTk k pt prev rest = .tok n c) :
    shapedB ⟨rest.take n, pos, c⟩ = true := by
  cases k <;> simp only [runTk] at h
  case mathSymSwitch =>
    split at h
    · rename_i c0 r
      split at h
      · rename_i h0
        have e0 := mathSwitch_char (by simpa using h0)
        split at h
        · rename_i c1 r'
          split at h
          · rename_i h1
            have e1 := mathSwitch_char (by simpa using h1)
            cases h; subst e0 e1; rfl
          · cases h; subst e0; rfl
        · cases h; subst e0; rfl
      · cases h
    · cases h
  case mathAsymSwitch =>
    split at h
    · rename_i c0 c1 r
      split at h
      · rename_i h0
        have e0 := escape_char (by simpa using h0)
        subst e0
        cases hc : catOf c1 <;> simp only [hc, asymSwitch] at h <;> cases h
        · rw [bracketBegin_char hc]; rfl
        · rw [bracketEnd_char hc]; rfl
        · rw [parenBegin_char hc]; rfl
        · rw [parenEnd_char hc]; rfl
      · cases h
    · cases h
  case symbols =>
    split at h
    · rename_i c0 r
      cases hc : catOf c0 <;> simp only [hc, symbolOf] at h <;> cases h
      · rw [escape_char hc]; rfl
      · rw [groupBegin_char hc]; rfl
      · rw [groupEnd_char hc]; rfl
      · rw [bracketBegin_char hc]; rfl
      · rw [bracketEnd_char hc]; rfl
    · cases h
  all_goals (repeat' split at h) <;> cases h <;> rfl

/-- The token of a pass is shaped (ignored characters in front do not matter). -/
theorem pass_shaped {ks : List TkName} {pt : Option TC} {st st' : TSt} {t : Tok}
    (h : pass ks pt st = .tok t st') : shapedB t = true := by
  induction ks generalizing st with
  | nil => simp [pass] at h
  | cons k ks ih =>
    simp only [pass] at h
    split at h
    · rename_i n c hk
      cases h
      exact runTk_shaped st.pos hk
    · split at h
      · cases h
      · exact ih h

/-- A property of every token a pass can return holds for every token of the loop. -/
theorem tokLoop_forall {P : Tok → Prop}
    (hP : ∀ pt st t st', pass Tables.tokenizerOrder pt st = .tok t st' → P t)
    (f : Nat) (pt : Option TC) (st : TSt) {ts : List Tok} (h : tokLoop f pt st = some ts) :
    ∀ t ∈ ts, P t := by
  induction f generalizing pt st ts with
  | zero => simp [tokLoop] at h
  | succ f ih =>
    simp only [tokLoop] at h
    split at h
    · cases h; simp
    · split at h
      · rename_i t st' hp
        cases hl : tokLoop f (some t.cat) st' with
        | none => simp [hl] at h
        | some ts' =>
          simp only [hl, Option.map_some, Option.some.injEq] at h
          subst h
          intro t' ht'
          rcases List.mem_cons.1 ht' with rfl | ht'
          · exact hP _ _ _ _ hp
          · exact ih _ _ hl t' ht'
      · exact ih _ _ h

theorem tokenize_shaped {s : Str} {ts : List Tok} (h : tokenize s = some ts) :
    ∀ t ∈ ts, shapedB t = true :=
  tokLoop_forall (fun _ _ _ _ hp => pass_shaped hp) _ _ _ h

end TexSoup
