import TexSoupProofs.TokLemmas
import TexSoupModel.Read
/-!
# `\end{name}` of a plain environment name is spelled by exactly five tokens

If, at a token boundary of a string without ignored characters, the remaining text starts
with `\end{name}` and `name` is *plain* (`PlainEnvName`), then the next five tokens are
`\`, `end`, `{`, `name`, `}`.
-/
namespace TexSoup

/-! ## Plain environment names -/

/-- The `spacers` tokenizer does not cut a proper piece off the front of `name`: the leading
blank run (`spacerRun`) is empty, or covers the whole name, or is followed by a `Letter`/`Other`
character (in which case `tokenize_spacers` backs off). -/
def spacerSafeB (name : Str) : Bool :=
  spacerRun name == 0 ||
  match name.drop (spacerRun name) with
  | c :: _ => catOf c == .Letter || catOf c == .Other
  | [] => true

/-- A name that the tokenizer turns into exactly one token when it stands between `{` and `}`:
non-empty, made of characters at which `tokenize_string` does not stop and which are not
ignored, and not starting with a blank run that `tokenize_spacers` would split off. -/
def PlainEnvName (name : Str) : Prop :=
  name ≠ [] ∧
  (∀ c ∈ name, isStringStop (catOf c) = false ∧ isIgnored (catOf c) = false) ∧
  spacerSafeB name = true

instance (name : Str) : Decidable (PlainEnvName name) := by
  unfold PlainEnvName; infer_instance

theorem spacerSafeB_of_head {c : Ch} {r : Str} (h1 : catOf c ≠ .Spacer)
    (h2 : catOf c ≠ .EndOfLine) : spacerSafeB (c :: r) = true := by
  simp [spacerSafeB, spacerRun_zero c r h1 h2]

/-- Simple sufficient condition: plain characters, the first one neither blank nor end of
line. -/
theorem PlainEnvName.of_head {c : Ch} {r : Str} (h1 : catOf c ≠ .Spacer)
    (h2 : catOf c ≠ .EndOfLine)
    (h : ∀ x ∈ c :: r, isStringStop (catOf x) = false ∧ isIgnored (catOf x) = false) :
    PlainEnvName (c :: r) :=
  ⟨by simp, h, spacerSafeB_of_head h1 h2⟩

/-! ## `countWhile` / `spacerRun` in front of a stop character -/

theorem countWhile_append_stop {p : Ch → Bool} (a : Str) {c : Ch} (r : Str) (hc : p c = false) :
    countWhile p (a ++ c :: r) = countWhile p a := by
  induction a with
  | nil => simp [countWhile, hc]
  | cons x a ih =>
    simp only [List.cons_append, countWhile, ih]

theorem countWhile_append_all {p : Ch → Bool} {a : Str} {c : Ch} (r : Str)
    (ha : ∀ x ∈ a, p x = true) (hc : p c = false) : countWhile p (a ++ c :: r) = a.length := by
  induction a with
  | nil => simp [countWhile, hc]
  | cons x a ih =>
    simp only [List.cons_append, countWhile, ha x (by simp), if_true, List.length_cons]
    rw [ih fun y hy => ha y (by simp [hy])]

theorem spacerRun_append_stop (a : Str) {c : Ch} (r : Str) (h1 : catOf c ≠ .Spacer)
    (h2 : catOf c ≠ .EndOfLine) : spacerRun (a ++ c :: r) = spacerRun a := by
  have hs : isSpacerCh c = false := by simp [isSpacerCh, h1]
  unfold spacerRun
  simp only []
  rw [countWhile_append_stop a r hs]
  have hle := countWhile_le isSpacerCh a
  generalize countWhile isSpacerCh a = n1 at *
  rw [List.drop_append_of_le_length hle]
  cases hd : a.drop n1 with
  | nil => simp [countWhile, hs, h2]
  | cons x a' =>
    simp only [List.cons_append]
    by_cases hx : (catOf x == CC.EndOfLine) = true
    · simp only [hx, if_true, List.drop_succ_cons, List.drop_zero]
      rw [countWhile_append_stop a' r hs]
    · simp only [hx, Bool.false_eq_true, if_false, List.drop_zero]
      rw [← List.cons_append, countWhile_append_stop (x :: a') r hs]

/-! ## The name token -/

theorem stop_not_plain {c : Ch} (hc : isStringStop (catOf c) = true) :
    catOf c ≠ .Spacer ∧ catOf c ≠ .EndOfLine ∧ catOf c ≠ .Letter ∧ catOf c ≠ .Other := by
  cases h : catOf c <;> simp [h, isStringStop] at hc ⊢

/-- `tokenize_spacers` on `name` followed by a stop character: declines, or takes the whole
name. -/
theorem spacers_on_name (pt : Option TC) (prev : Option Ch) {name : Str} (hne : name ≠ [])
    (hsafe : spacerSafeB name = true) {c : Ch} (hc : isStringStop (catOf c) = true) (tail : Str) :
    runTk .spacers pt prev (name ++ c :: tail) = .skip 0 ∨
    runTk .spacers pt prev (name ++ c :: tail) = .tok name.length .MergedSpacer := by
  obtain ⟨c1, c2, c3, c4⟩ := stop_not_plain hc
  have hle := spacerRun_le name
  simp only [runTk, spacerRun_append_stop name tail c1 c2]
  simp only [spacerSafeB, Bool.or_eq_true, beq_iff_eq] at hsafe
  generalize spacerRun name = n at *
  rw [List.drop_append_of_le_length hle]
  cases hd : name.drop n with
  | nil =>
    have hn : n = name.length := by
      have := congrArg List.length hd
      simp only [List.length_drop, List.length_nil] at this
      omega
    have hpos : 0 < name.length := List.length_pos_iff.2 hne
    right
    subst hn
    have : ¬ name.length = 0 := by omega
    simp [c3, c4, this]
  | cons x a' =>
    left
    rw [hd] at hsafe
    rcases hsafe with h0 | hx
    · subst h0
      simp only [List.cons_append]
      split <;> simp
    · simp only [List.cons_append]
      simp only [Bool.or_eq_true, beq_iff_eq] at hx
      simp [hx]

theorem pass_cons_of_skip' {k : TkName} {ks : List TkName} {pt : Option TC} {prev : Option Ch}
    {pos : Nat} {rest : Str} (hne : rest ≠ []) (h : runTk k pt prev rest = .skip 0) :
    pass (k :: ks) pt ⟨prev, pos, rest⟩ = pass ks pt ⟨prev, pos, rest⟩ := by
  obtain ⟨c0, r, rfl⟩ := List.exists_cons_of_ne_nil hne
  exact pass_cons_of_skip h

theorem adv_append (prev : Option Ch) (pos : Nat) (a b : Str) :
    (⟨prev, pos, a ++ b⟩ : TSt).adv a.length = ⟨lastD a prev, pos + a.length, b⟩ := by
  simp [TSt.adv]

/-- A plain name followed by a stop character (`}`), not right after an escape, is one token
(a `Text`, or a `MergedSpacer` when the name consists of blanks only). -/
theorem pass_name (pt : Option TC) (prev : Option Ch) (pos : Nat)
    (hprev : ∀ p ∈ prev, catOf p ≠ .Escape) {name : Str} (hpl : PlainEnvName name) {c : Ch}
    (hc : isStringStop (catOf c) = true) (tail : Str) :
    ∃ cat, (cat = TC.Text ∨ cat = TC.MergedSpacer) ∧
      pass Tables.tokenizerOrder pt ⟨prev, pos, name ++ c :: tail⟩ =
        .tok ⟨name, pos, cat⟩ ⟨lastD name prev, pos + name.length, c :: tail⟩ := by
  obtain ⟨hne, hall, hsafe⟩ := hpl
  obtain ⟨c0, nm, rfl⟩ := List.exists_cons_of_ne_nil hne
  obtain ⟨hs0, hi0⟩ := hall c0 (by simp)
  have hR : (c0 :: nm) ++ c :: tail = c0 :: (nm ++ c :: tail) := rfl
  have hRne : (c0 :: nm) ++ c :: tail ≠ [] := by simp
  have hcat : catOf c0 ≠ .Escape ∧ catOf c0 ≠ .Comment ∧ catOf c0 ≠ .MathSwitch ∧
      symbolOf (catOf c0) = none := by
    cases h : catOf c0 <;> simp [h, isStringStop, symbolOf] at hs0 ⊢
  obtain ⟨k1, k2, k3, k4⟩ := hcat
  have e1 := escapedSymbols_skip pt prev c0 (nm ++ c :: tail) k1
  have e2 := comment_skip pt prev c0 (nm ++ c :: tail) k2
  have e3 := mathSymSwitch_skip pt prev c0 (nm ++ c :: tail) k3
  have e4 := mathAsymSwitch_skip pt prev c0 (nm ++ c :: tail) k1
  have e5 := lineBreak_skip pt prev c0 (nm ++ c :: tail) k1
  have e6 := ignore_skip pt prev c0 (nm ++ c :: tail) hi0
  rw [← hR] at e1 e2 e3 e4 e5 e6
  rw [Tables.tokenizerOrder, pass_cons_of_skip' hRne e1, pass_cons_of_skip' hRne e2,
    pass_cons_of_skip' hRne e3, pass_cons_of_skip' hRne e4, pass_cons_of_skip' hRne e5,
    pass_cons_of_skip' hRne e6]
  rcases spacers_on_name pt prev hne hsafe hc tail with hsp | hsp
  · have e8 := symbols_skip pt prev c0 (nm ++ c :: tail) k4
    rw [← hR] at e8
    have e9 := punctuation_skip_of_prev pt prev hprev ((c0 :: nm) ++ c :: tail)
    have e10 := commandName_skip_of_prev pt prev hprev ((c0 :: nm) ++ c :: tail)
    have hcount : countWhile (fun x => !isStringStop (catOf x)) ((c0 :: nm) ++ c :: tail) =
        (c0 :: nm).length :=
      countWhile_append_all tail (fun x hx => by simp [(hall x hx).1]) (by simp [hc])
    have e11 : runTk .string pt prev ((c0 :: nm) ++ c :: tail) = .tok (c0 :: nm).length .Text := by
      simp only [runTk, hcount]
      simp
    refine ⟨.Text, Or.inl rfl, ?_⟩
    rw [pass_cons_of_skip' hRne hsp, pass_cons_of_skip' hRne e8, pass_cons_of_skip' hRne e9,
      pass_cons_of_skip' hRne e10, pass_cons_of_tok e11, adv_append, List.take_left' rfl]
  · refine ⟨.MergedSpacer, Or.inr rfl, ?_⟩
    rw [pass_cons_of_tok hsp, adv_append, List.take_left' rfl]

/-! ## Walking along the loop -/

/-- One iteration of the loop when the pass is known. -/
theorem tokLoop_step {f : Nat} {pt : Option TC} {st st' : TSt} {ts : List Tok} {t : Tok}
    (h : tokLoop f pt st = some ts) (hne : st.rest ≠ [])
    (hp : pass Tables.tokenizerOrder pt st = .tok t st') :
    ∃ f' ts', ts = t :: ts' ∧ tokLoop f' (some t.cat) st' = some ts' := by
  cases f with
  | zero => simp [tokLoop] at h
  | succ f =>
    have he : st.rest.isEmpty = false := by simpa using hne
    simp only [tokLoop, he, Bool.false_eq_true, if_false, hp] at h
    cases hl : tokLoop f (some t.cat) st' with
    | none => simp [hl] at h
    | some ts' =>
      simp only [hl, Option.map_some, Option.some.injEq] at h
      exact ⟨f, ts', h.symm, hl⟩

/-- Every suffix of the token list is itself the output of the loop from some state; without
ignored characters in the input, that state has none either. -/
theorem tokLoop_split {f : Nat} {pt : Option TC} {st : TSt} {pre rest : List Tok}
    (h : tokLoop f pt st = some (pre ++ rest)) (hno : NoIgnored st.rest) :
    ∃ f' pt' st', tokLoop f' pt' st' = some rest ∧ NoIgnored st'.rest := by
  induction f generalizing pt st pre with
  | zero => simp [tokLoop] at h
  | succ f ih =>
    cases pre with
    | nil => exact ⟨f + 1, pt, st, h, hno⟩
    | cons t0 pre =>
      simp only [tokLoop] at h
      split at h
      · cases h
      · split at h
        · rename_i t st' hp
          obtain ⟨ign, _, hr, _, _, _⟩ := pass_tok hp
          have hno' : NoIgnored st'.rest := fun c hc => hno c (by rw [hr]; simp [hc])
          cases hl : tokLoop f (some t.cat) st' with
          | none => simp [hl] at h
          | some ts' =>
            simp only [hl, Option.map_some, Option.some.injEq, List.cons_append,
              List.cons.injEq] at h
            exact ih (h.2 ▸ hl) hno'
        · rename_i st' hp
          obtain ⟨ign, _, hr, _⟩ := pass_none hp
          have hno' : NoIgnored st'.rest := fun c hc => hno c (by rw [hr]; simp [hc])
          exact ih h hno'

theorem flat_app (a b : List Tok) : flat (a ++ b) = flat a ++ flat b := by
  induction a with
  | nil => rfl
  | cons t a ih => simp [flat, ih]

/-! ## The five tokens -/

/-- No sizing command starts with `e`. -/
theorem punctuationCommands_head_ne_e :
    ∀ q ∈ Tables.punctuationCommands, q.head? ≠ some 101 := by
  decide +kernel

theorem firstMatch_e_none (r : Str) : firstMatch Tables.punctuationCommands (101 :: r) = none := by
  rw [firstMatch_none]
  intro q hq
  have h1 := punctuationCommands_head_ne_e q hq
  have h2 := punctuationCommands_nonempty q hq
  cases q with
  | nil => exact absurd rfl h2
  | cons a q' =>
    have : a ≠ 101 := by simpa using h1
    simp [isPrefix, this]

theorem isLetterCh_n : isLetterCh 110 = true := by decide
theorem isLetterCh_d : isLetterCh 100 = true := by decide
theorem isLetterCh_brace : isLetterCh 123 = false := by decide

/-- From a state whose remaining input starts with `\end{name}` (plain `name`), the loop
produces the five tokens `\`, `end`, `{`, `name`, `}` first. -/
theorem tokLoop_endMarker {f : Nat} {pt : Option TC} {st : TSt} {ts : List Tok} {name tail : Str}
    (h : tokLoop f pt st = some ts) (hst : st.rest = endMarker name ++ tail)
    (hpl : PlainEnvName name) :
    ∃ t1 t2 t3 t4 t5 ts', ts = t1 :: t2 :: t3 :: t4 :: t5 :: ts' ∧
      t1.text = [92] ∧ t1.cat = .Escape ∧
      t2.text = [101, 110, 100] ∧ t2.cat = .CommandName ∧
      t3.text = [123] ∧ t3.cat = .GroupBegin ∧
      t4.text = name ∧ (t4.cat = .Text ∨ t4.cat = .MergedSpacer) ∧
      t5.text = [125] ∧ t5.cat = .GroupEnd := by
  obtain ⟨prev, pos, rest⟩ := st
  simp only at hst
  subst hst
  have hform : endMarker name ++ tail = 92 :: 101 :: 110 :: 100 :: 123 :: (name ++ 125 :: tail) := by
    simp [endMarker, strEnd]
  rw [hform] at h
  -- 1: the backslash
  have hp1 := pass_escape pt prev pos 92 (101 :: 110 :: 100 :: 123 :: (name ++ 125 :: tail))
    (by decide) (by
      intro c1 hc1
      simp only [List.head?_cons, Option.mem_def, Option.some.injEq] at hc1
      subst hc1; decide)
  obtain ⟨f1, ts1, rfl, h1⟩ := tokLoop_step h (by simp) hp1
  -- 2: `end`
  have hp2 : pass Tables.tokenizerOrder (some TC.Escape)
      ⟨some 92, pos + 1, 101 :: 110 :: 100 :: 123 :: (name ++ 125 :: tail)⟩ =
      .tok ⟨[101, 110, 100], pos + 1, .CommandName⟩
        ⟨some 100, pos + 1 + (1 + 2), 123 :: (name ++ 125 :: tail)⟩ := by
    rw [pass_commandName (some TC.Escape) 92 (pos + 1) 101
      (110 :: 100 :: 123 :: (name ++ 125 :: tail)) (by decide) (by decide) (firstMatch_e_none _)]
    simp [isLetterCh_n, isLetterCh_d, isLetterCh_brace, lastD]
  obtain ⟨f2, ts2, rfl, h2⟩ := tokLoop_step h1 (by simp) hp2
  -- 3: `{`
  have hp3 := pass_symbol (some TC.CommandName) (some 100) (pos + 1 + (1 + 2)) 123
    (name ++ 125 :: tail) .GroupBegin (by decide) (by decide)
  obtain ⟨f3, ts3, rfl, h3⟩ := tokLoop_step h2 (by simp) hp3
  -- 4: the name
  obtain ⟨cat, hcat, hp4⟩ := pass_name (some TC.GroupBegin) (some 123) (pos + 1 + (1 + 2) + 1)
    (by intro p hp; simp only [Option.mem_def, Option.some.injEq] at hp; subst hp; decide)
    hpl (c := 125) (by decide) tail
  obtain ⟨f4, ts4, rfl, h4⟩ := tokLoop_step h3 (by simp) hp4
  -- 5: `}`
  have hp5 := pass_symbol (some cat) (lastD name (some 123)) (pos + 1 + (1 + 2) + 1 + name.length)
    125 tail .GroupEnd (by decide) (by decide)
  obtain ⟨f5, ts5, rfl, h5⟩ := tokLoop_step h4 (by simp) hp5
  exact ⟨_, _, _, _, _, ts5, rfl, rfl, rfl, rfl, rfl, rfl, rfl, rfl, hcat, rfl, rfl⟩

/-- `\end{name}` at a token boundary is spelled by exactly five tokens. -/
theorem tokenize_skipPlain {s : Str} {ts : List Tok} (hs : NoIgnored s)
    (h : tokenize s = some ts) {name : Str} (hpl : PlainEnvName name) (pre rest : List Tok)
    (hsplit : ts = pre ++ rest) (hb : bufStartsWith (endMarker name) rest = true) :
    flat (rest.take 5) = endMarker name := by
  subst hsplit
  obtain ⟨f', pt', st', hl, hno⟩ := tokLoop_split h hs
  have hflat : flat rest = st'.rest := ((tokLoop_chain _ _ _ hl).erased).eq_of_no_ignored hno
  obtain ⟨u, hu⟩ := isPrefix_iff.1 hb
  have hrest : st'.rest = endMarker name ++ (u ++ flat (rest.drop (endMarker name).length)) := by
    rw [← hflat, ← List.append_assoc, ← hu, ← flat_app, List.take_append_drop]
  obtain ⟨t1, t2, t3, t4, t5, ts', rfl, e1, _, e2, _, e3, _, e4, _, e5, _⟩ :=
    tokLoop_endMarker hl hrest hpl
  simp [flat, e1, e2, e3, e4, e5, endMarker, strEnd]

/-- The built-in verbatim-like environment names are plain. -/
theorem skipEnvNames_plain : ∀ n ∈ Tables.skipEnvNames, PlainEnvName n := by
  decide +kernel

end TexSoup
