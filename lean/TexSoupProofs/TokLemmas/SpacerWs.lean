import TexSoupProofs.TokLemmas.Shaped
/-!
# A `MergedSpacer` token consists of whitespace only

The one kind of token the reader may drop. The proof depends on the generated category table:
every character filed under `Spacer` or `EndOfLine` must satisfy `str.isspace()`. If an edit to
`CATEGORY_CODES` puts a non-blank character (say `~`) under `Spacer`, the table lemma below stops
compiling.
-/
namespace TexSoup

theorem spacer_chars_are_whitespace :
    ∀ e ∈ Tables.catTable, (e.2 = CC.Spacer ∨ e.2 = CC.EndOfLine) → isSpaceCh e.1 = true := by
  decide +kernel

theorem isSpaceCh_of_spacer {c : Ch} (h : catOf c = .Spacer ∨ catOf c = .EndOfLine) :
    isSpaceCh c = true := by
  rcases h with h | h
  · exact spacer_chars_are_whitespace _ (mem_catTable_of_catOf h (by decide)) (.inl rfl)
  · exact spacer_chars_are_whitespace _ (mem_catTable_of_catOf h (by decide)) (.inr rfl)

/-- every character of the run that `tokenize_spacers` walks over is a blank or a line break -/
theorem spacerRun_chars (rest : Str) : ∀ c ∈ rest.take (spacerRun rest),
    catOf c = .Spacer ∨ catOf c = .EndOfLine := by
  intro c hc
  have h1 : ∀ x ∈ rest.take (countWhile isSpacerCh rest), catOf x = .Spacer := by
    intro x hx
    have := mem_take_countWhile hx
    simpa [isSpacerCh] using this
  have hsplit : rest = rest.take (countWhile isSpacerCh rest) ++ rest.drop (countWhile isSpacerCh rest) :=
    (List.take_append_drop _ rest).symm
  have hlen : (rest.take (countWhile isSpacerCh rest)).length = countWhile isSpacerCh rest := by
    rw [List.length_take]; exact Nat.min_eq_left (countWhile_le _ _)
  unfold spacerRun at hc
  simp only at hc
  cases hr : rest.drop (countWhile isSpacerCh rest) with
  | nil =>
    rw [hr] at hc
    simp only [List.drop_nil, countWhile, Nat.add_zero] at hc
    exact .inl (h1 c hc)
  | cons d r2 =>
    rw [hr] at hc
    simp only at hc
    rw [hr] at hsplit
    by_cases hd : (catOf d == CC.EndOfLine) = true
    · rw [if_pos hd] at hc
      simp only [List.drop_succ_cons, List.drop_zero] at hc
      have h3 : ∀ x ∈ r2.take (countWhile isSpacerCh r2), catOf x = .Spacer := by
        intro x hx
        have := mem_take_countWhile hx
        simpa [isSpacerCh] using this
      generalize hn : countWhile isSpacerCh rest = n1 at hc hlen hsplit h1
      generalize hn3 : countWhile isSpacerCh r2 = n3 at hc h3
      rw [hsplit, List.take_append, hlen] at hc
      simp only [List.mem_append] at hc
      rcases hc with hc | hc
      · exact .inl (h1 c (List.mem_of_mem_take hc))
      · rw [show n1 + 1 + n3 - n1 = n3 + 1 by omega, List.take_succ_cons] at hc
        rcases List.mem_cons.mp hc with rfl | hc
        · exact .inr (by simpa using hd)
        · exact .inl (h3 c hc)
    · rw [if_neg hd] at hc
      simp only [List.drop_zero, Nat.add_zero] at hc
      have hdsp : isSpacerCh d = false := by
        have hdw := drop_countWhile isSpacerCh rest
        rw [hr] at hdw
        cases hq : isSpacerCh d with
        | false => rfl
        | true =>
          have hne : List.dropWhile isSpacerCh rest ≠ [] := by rw [← hdw]; simp
          have hh := List.head_dropWhile_not isSpacerCh hne
          simp only [← hdw, List.head_cons] at hh
          rw [hq] at hh; cases hh
      have h0 : countWhile isSpacerCh (d :: r2) = 0 := by
        simp [countWhile, hdsp]
      rw [h0, Nat.add_zero] at hc
      exact .inl (h1 c hc)

theorem asymSwitch_ne_spacer (c : CC) : asymSwitch c ≠ some TC.MergedSpacer := by
  cases c <;> simp [asymSwitch]

theorem symbolOf_ne_spacer (c : CC) : symbolOf c ≠ some TC.MergedSpacer := by
  cases c <;> simp [symbolOf]

/-- only `tokenize_spacers` emits `MergedSpacer`, and its token is the spacer run -/
theorem runTk_mergedSpacer {k : TkName} {pt : Option TC} {prev : Option Ch} {rest : Str} {n : Nat}
    (h : runTk k pt prev rest = .tok n .MergedSpacer) : n = spacerRun rest := by
  cases k <;> simp only [runTk] at h
  all_goals (repeat' split at h)
  all_goals (try (simp only [TkOut.tok.injEq, reduceCtorEq, and_false, false_and] at h))
  all_goals (try (cases h; done))
  all_goals first
    | exact h.1.symm
    | (exfalso; rename_i heq; rw [h.2] at heq; first | exact asymSwitch_ne_spacer _ heq | exact symbolOf_ne_spacer _ heq)

theorem pass_spacer_ws {ks : List TkName} {pt : Option TC} {st st' : TSt} {t : Tok}
    (h : pass ks pt st = .tok t st') (hc : t.cat = .MergedSpacer) : ∀ c ∈ t.text, isSpaceCh c = true := by
  induction ks generalizing st with
  | nil => simp [pass] at h
  | cons k ks ih =>
    simp only [pass] at h
    split at h
    · rename_i n c hk
      cases h
      simp only at hc
      subst hc
      have hn := runTk_mergedSpacer hk
      subst hn
      intro x hx
      exact isSpaceCh_of_spacer (spacerRun_chars _ x hx)
    · split at h
      · cases h
      · exact ih h

/-- **Every `MergedSpacer` token of a tokenizer output consists of whitespace characters only.** -/
theorem tokens_spacer_whitespace {s : Str} {ts : List Tok} (h : tokenize s = some ts) :
    ∀ t ∈ ts, t.cat = .MergedSpacer → ∀ c ∈ t.text, isSpaceCh c = true :=
  tokLoop_forall (P := fun t => t.cat = .MergedSpacer → ∀ c ∈ t.text, isSpaceCh c = true)
    (fun _ _ _ _ hp hc => pass_spacer_ws hp hc) _ _ _ h

end TexSoup
