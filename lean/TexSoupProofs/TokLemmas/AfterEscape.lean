import TexSoupProofs.TokLemmas.FirstTok
/-!
# What follows an `Escape` token

In a string without ignored characters an `Escape` token (a lone backslash) is produced only
when the next character is a letter (or the input ends), and the next pass then yields a
`CommandName` or `PunctuationCommandName` token without whitespace.
-/
namespace TexSoup

abbrev NoIgnored (l : Str) : Prop := ∀ c ∈ l, isIgnored (catOf c) = false

/-! ## `strip` on whitespace-free strings -/

theorem dropWhileSpace_of_head {s : Str} (h : ∀ c ∈ s.head?, isSpaceCh c = false) :
    dropWhileSpace s = s := by
  cases s with
  | nil => rfl
  | cons c r => simp [dropWhileSpace, h c rfl]

theorem strip_of_no_space {s : Str} (h : ∀ c ∈ s, isSpaceCh c = false) : strip s = s := by
  have h1 : dropWhileSpace s = s :=
    dropWhileSpace_of_head fun c hc => h c (List.mem_of_mem_head? hc)
  have h2 : dropWhileSpace s.reverse = s.reverse :=
    dropWhileSpace_of_head fun c hc => h c (List.mem_reverse.1 (List.mem_of_mem_head? hc))
  simp [strip, h1, h2]

/-! ## Table facts -/

/-- No sizing command contains whitespace. -/
theorem punctuationCommands_no_space :
    ∀ q ∈ Tables.punctuationCommands, ∀ c ∈ q, isSpaceCh c = false := by
  decide +kernel

theorem star_not_space : isSpaceCh 42 = false := by decide

theorem letterOrStar_not_space {c : Ch} (h : (isLetterCh c || c == 42) = true) :
    isSpaceCh c = false := by
  simp only [Bool.or_eq_true, beq_iff_eq] at h
  rcases h with h | rfl
  · cases hs : isSpaceCh c with
    | false => rfl
    | true =>
      have := catOf_space_ne_letter hs
      simp [isLetterCh] at h
      exact absurd h this
  · exact star_not_space

/-! ## Which tokenizer produces `TC.Escape` -/

/-- Only `symbols`, looking at an escape character, produces an `Escape` token. -/
theorem runTk_tok_escape {k : TkName} {pt : Option TC} {prev : Option Ch} {rest : Str} {n : Nat}
    (h : runTk k pt prev rest = .tok n .Escape) :
    ∃ c0 r, rest = c0 :: r ∧ catOf c0 = .Escape := by
  cases k <;> simp only [runTk] at h
  case symbols =>
    split at h
    · rename_i c0 r
      refine ⟨c0, r, rfl, ?_⟩
      cases hc : catOf c0 <;> simp [hc, symbolOf] at h
      rfl
    · cases h
  case mathAsymSwitch =>
    split at h
    · rename_i c0 c1 r
      split at h
      · cases hc : catOf c1 <;> simp [hc, asymSwitch] at h
      · cases h
    · cases h
  all_goals (repeat' split at h) <;> cases h

/-- Without ignored characters, the token of a pass is the answer of one tokenizer applied to
the state at the start of the pass. -/
theorem pass_tok_source {ks : List TkName} {pt : Option TC} {st st' : TSt} {t : Tok}
    (hno : NoIgnored st.rest) (h : pass ks pt st = .tok t st') :
    ∃ k ∈ ks, ∃ n, runTk k pt st.prev st.rest = .tok n t.cat := by
  induction ks generalizing st with
  | nil => simp [pass] at h
  | cons k ks ih =>
    simp only [pass] at h
    split at h
    · rename_i n c hk
      cases h
      exact ⟨k, by simp, n, hk⟩
    · rename_i n hk
      have ⟨hle, hign⟩ := runTk_skip hk
      have hn : n = 0 := by
        cases hr : st.rest with
        | nil => rw [hr] at hle; simpa using hle
        | cons c r =>
          cases n with
          | zero => rfl
          | succ m =>
            have h1 := hign c (by rw [hr]; simp)
            have h2 := hno c (by rw [hr]; simp)
            rw [h1] at h2; cases h2
      subst hn
      simp only [TSt.adv_zero] at h
      split at h
      · cases h
      · obtain ⟨k', hk', n, hn⟩ := ih hno h
        exact ⟨k', by simp [hk'], n, hn⟩

/-! ## The two pass lemmas -/

/-- The state right after an `Escape` token: the previous character is an escape and the next
one (if any) is a letter. -/
def EscReady (st : TSt) : Prop :=
  ∃ p, st.prev = some p ∧ catOf p = .Escape ∧ ∀ c1 ∈ st.rest.head?, catOf c1 = .Letter

/-- A character that is neither escapable, nor a bracket/parenthesis, nor ignored is a letter. -/
theorem letter_of_leftover {c : Ch} (h1 : isEscapable (catOf c) = false)
    (h2 : asymSwitch (catOf c) = none) (h3 : isIgnored (catOf c) = false) : catOf c = .Letter := by
  have ⟨h4, h5⟩ := catOf_ne_mathGroup c
  cases hc : catOf c <;> simp_all [isEscapable, asymSwitch, isIgnored]

theorem asymSwitch_ne_escape {cc : CC} : asymSwitch cc ≠ some TC.Escape := by
  cases cc <;> simp [asymSwitch]

/-- **Lemma A.** A pass that yields an `Escape` token leaves the tokenizer in an `EscReady`
state. -/
theorem pass_escape_ready {pt : Option TC} {st st' : TSt} {t : Tok} (hno : NoIgnored st.rest)
    (h : pass Tables.tokenizerOrder pt st = .tok t st') (ht : t.cat = .Escape) : EscReady st' := by
  obtain ⟨k, _, n, hk⟩ := pass_tok_source hno h
  rw [ht] at hk
  obtain ⟨c0, r, hr, h0⟩ := runTk_tok_escape hk
  obtain ⟨prev, pos, rest⟩ := st
  simp only at hr hno
  subst hr
  cases r with
  | nil =>
    rw [pass_escape pt prev pos c0 [] h0 (by simp)] at h
    cases h
    exact ⟨c0, rfl, h0, by simp⟩
  | cons c1 r =>
    cases he : isEscapable (catOf c1) with
    | true =>
      rw [pass_escaped pt prev pos c0 c1 r h0 he] at h
      cases h; cases ht
    | false =>
      cases ha : asymSwitch (catOf c1) with
      | some t' =>
        rw [pass_asymSwitch pt prev pos c0 c1 r t' h0 ha] at h
        cases h
        simp only at ht
        subst ht
        exact absurd ha asymSwitch_ne_escape
      | none =>
        rw [pass_escape pt prev pos c0 (c1 :: r) h0
          (by intro c hc; cases hc; exact ⟨he, ha⟩)] at h
        cases h
        refine ⟨c0, rfl, h0, ?_⟩
        intro c hc
        cases hc
        exact letter_of_leftover he ha (hno c1 (by simp))

/-- What the parser expects right after a lone backslash. -/
def GoodAfterEscape (t : Tok) : Prop :=
  (t.cat = .CommandName ∨ t.cat = .PunctuationCommandName) ∧ ∀ c ∈ t.text, isSpaceCh c = false

/-- **Lemma B.** From an `EscReady` state with input left, the pass returns a command-name
token without whitespace. -/
theorem pass_of_ready {pt : Option TC} {st : TSt} (hr : EscReady st) (hne : st.rest ≠ []) :
    ∃ t st', pass Tables.tokenizerOrder pt st = .tok t st' ∧ GoodAfterEscape t := by
  obtain ⟨prev, pos, rest⟩ := st
  obtain ⟨p, hp, hpe, hl⟩ := hr
  simp only at hp hl hne
  subst hp
  obtain ⟨c1, r, rfl⟩ := List.exists_cons_of_ne_nil hne
  have h1 : catOf c1 = .Letter := hl c1 rfl
  cases hfm : firstMatch Tables.punctuationCommands (c1 :: r) with
  | none =>
    refine ⟨_, _, pass_commandName pt p pos c1 r hpe h1 hfm, Or.inl rfl, ?_⟩
    intro c hc
    rcases List.mem_cons.1 hc with rfl | hc
    · exact letterOrStar_not_space (by simp [isLetterCh, h1])
    · exact letterOrStar_not_space (mem_takeWhile hc)
  | some point =>
    have ⟨hm, hpre⟩ := firstMatch_some hfm
    obtain ⟨r', hr'⟩ := isPrefix_iff.1 hpre
    rw [hr']
    exact ⟨_, _, pass_punctuation pt p pos point r' hpe hm, Or.inr rfl,
      punctuationCommands_no_space point hm⟩

/-! ## The loop -/

/-- Every token that follows an `Escape` token is good; `pt` is the category of the token
before the list. -/
def EscFollow : Option TC → List Tok → Prop
  | _, [] => True
  | pt, t :: ts => (pt = some .Escape → GoodAfterEscape t) ∧ EscFollow (some t.cat) ts

theorem tokLoop_escFollow (f : Nat) (pt : Option TC) (st : TSt) {ts : List Tok}
    (hno : NoIgnored st.rest) (hready : pt = some .Escape → EscReady st)
    (h : tokLoop f pt st = some ts) : EscFollow pt ts := by
  induction f generalizing pt st ts with
  | zero => simp [tokLoop] at h
  | succ f ih =>
    simp only [tokLoop] at h
    split at h
    · cases h; trivial
    · rename_i he
      have hne : st.rest ≠ [] := by simpa using he
      split at h
      · rename_i t st' hp
        obtain ⟨ign, _, hr, _, _, _⟩ := pass_tok hp
        have hno' : NoIgnored st'.rest := fun c hc => hno c (by rw [hr]; simp [hc])
        cases hl : tokLoop f (some t.cat) st' with
        | none => simp [hl] at h
        | some ts' =>
          simp only [hl, Option.map_some, Option.some.injEq] at h
          subst h
          refine ⟨?_, ih (some t.cat) st' hno' ?_ hl⟩
          · intro hpt
            obtain ⟨t2, st2, hp2, hg⟩ := pass_of_ready (pt := pt) (hready hpt) hne
            rw [hp] at hp2
            cases hp2
            exact hg
          · intro hc
            exact pass_escape_ready hno hp (by simpa using hc)
      · rename_i st' hp
        obtain ⟨ign, _, hr, _⟩ := pass_none hp
        have hno' : NoIgnored st'.rest := fun c hc => hno c (by rw [hr]; simp [hc])
        refine ih pt st' hno' ?_ h
        intro hpt
        obtain ⟨t2, st2, hp2, _⟩ := pass_of_ready (pt := pt) (hready hpt) hne
        rw [hp] at hp2
        cases hp2

theorem EscFollow.split {pt : Option TC} {pre : List Tok} {t u : Tok} {post : List Tok}
    (h : EscFollow pt (pre ++ t :: u :: post)) (ht : t.cat = .Escape) : GoodAfterEscape u := by
  induction pre generalizing pt with
  | nil =>
    simp only [List.nil_append, EscFollow] at h
    exact h.2.1 (by rw [ht])
  | cons a pre ih =>
    simp only [List.cons_append, EscFollow] at h
    exact ih h.2

end TexSoup
