import TexSoupProofs.TokLemmas.SepFacts
/-!
# Changing the payload of comment tokens keeps a token list separated

If in a `Separated` token list some `Comment` tokens are replaced by other comment tokens
(`%`, then no end-of-line character), the list is still `Separated`: every tokenizer decision
about the tokens in front of a comment is taken before or at its `%` (no sizing command
contains a `%`, a blank run ends there at the latest), the comment itself only asks to be
followed by an end of line, and the token after it starts with that end of line, so that the
character before it – the last one of the payload – does not matter.
-/
namespace TexSoup

theorem comment_char {c : Ch} (h : catOf c = .Comment) : c = 37 := by
  have key : ∀ e ∈ Tables.catTable, e.2 = CC.Comment → e.1 = 37 := by decide
  exact key _ (mem_catTable_of_catOf h (by decide)) rfl

/-- Two texts that agree up to and including a `%`. -/
def PctRel (w w' : Str) : Prop := w' = w ∨ ∃ u x x', w = u ++ 37 :: x ∧ w' = u ++ 37 :: x'

theorem PctRel.refl (w : Str) : PctRel w w := .inl rfl

theorem PctRel.prepend {w w' : Str} (s : Str) (h : PctRel w w') : PctRel (s ++ w) (s ++ w') := by
  rcases h with rfl | ⟨u, x, x', rfl, rfl⟩
  · exact .inl rfl
  · exact .inr ⟨s ++ u, x, x', by simp, by simp⟩

theorem PctRel.head {w w' : Str} (h : PctRel w w') : w'.head? = w.head? := by
  rcases h with rfl | ⟨u, x, x', rfl, rfl⟩
  · rfl
  · cases u <;> rfl

theorem PctRel.spacerRun {w w' : Str} (a : Str) (h : PctRel w w') :
    spacerRun (a ++ w') = spacerRun (a ++ w) := by
  rcases h with rfl | ⟨u, x, x', rfl, rfl⟩
  · rfl
  · rw [← List.append_assoc, ← List.append_assoc,
      spacerRun_append_stop (a ++ u) x' (by decide) (by decide),
      spacerRun_append_stop (a ++ u) x (by decide) (by decide)]

theorem isPrefix_pct : ∀ (p v x x' : Str), 37 ∉ p →
    isPrefix p (v ++ 37 :: x') = isPrefix p (v ++ 37 :: x) := by
  intro p v
  induction v generalizing p with
  | nil =>
    intro x x' hp
    cases p with
    | nil => rfl
    | cons c p' =>
      have : (c == 37) = false := by
        have : c ≠ 37 := fun h => hp (by simp [h])
        simpa using this
      simp [isPrefix, this]
  | cons b v ih =>
    intro x x' hp
    cases p with
    | nil => rfl
    | cons c p' =>
      simp only [List.cons_append, isPrefix]
      rw [ih p' x x' (fun h => hp (by simp [h]))]

theorem firstMatch_congr {tbl : List Str} {s s' : Str}
    (h : ∀ p ∈ tbl, isPrefix p s' = isPrefix p s) : firstMatch tbl s' = firstMatch tbl s := by
  induction tbl with
  | nil => rfl
  | cons p ps ih =>
    simp only [firstMatch]
    rw [h p (by simp), ih fun q hq => h q (by simp [hq])]

theorem punctuationCommands_no_pct : ∀ p ∈ Tables.punctuationCommands, 37 ∉ p := by decide +kernel

theorem PctRel.firstMatch {w w' : Str} (a : Str) (h : PctRel w w') :
    firstMatch Tables.punctuationCommands (a ++ w') = firstMatch Tables.punctuationCommands (a ++ w) := by
  rcases h with rfl | ⟨u, x, x', rfl, rfl⟩
  · rfl
  · apply firstMatch_congr
    intro p hp
    rw [← List.append_assoc, ← List.append_assoc]
    exact isPrefix_pct p (a ++ u) x x' (punctuationCommands_no_pct p hp)

/-- `TokOK'` looks at what follows only through its first character, the blank run and the
sizing-command match. -/
theorem tokOK'_congr {prev : Option Ch} {text : Str} {cat : TC} {w w' : Str}
    (h : TokOK' prev text cat w) (hh : w'.head? = w.head?)
    (hs : spacerRun (text ++ w') = spacerRun (text ++ w))
    (hf : firstMatch Tables.punctuationCommands (text ++ w') =
      firstMatch Tables.punctuationCommands (text ++ w)) : TokOK' prev text cat w' := by
  cases cat <;> simp only [TokOK'] at h ⊢ <;> first
    | exact h
    | (rw [hh]; exact h)
    | (rw [hh, hs]; exact h)
    | (rw [hh, hf]; exact h)

theorem PctRel.tokOK {prev : Option Ch} {t : Tok} {w w' : Str} (h : TokOK prev t w) (hr : PctRel w w') :
    TokOK prev t w' :=
  tokOK'_congr h hr.head (hr.spacerRun t.text) (hr.firstMatch t.text)

/-- A token whose text starts with an end-of-line character does not care about the character
before it. -/
theorem tokOK_prev_irrel {prev prev' : Option Ch} {t : Tok} {w : Str} (h : TokOK prev t w)
    (he : ∀ c ∈ t.text.head?, catOf c = .EndOfLine) : TokOK prev' t w := by
  unfold TokOK at h ⊢
  cases hc : t.cat <;> rw [hc] at h <;> simp only [TokOK'] at h ⊢ <;> try exact h
  case PunctuationCommandName =>
    exfalso
    cases ht : t.text with
    | nil => exact punctuationCommands_nonempty _ h.2 ht
    | cons c r =>
      have h1 := punctuationCommands_head_letter _ h.2
      rw [ht] at h1
      simp only [List.head?_cons, Option.map_some, Option.some.injEq] at h1
      have h2 := he c (by rw [ht]; rfl)
      rw [h1] at h2; cases h2
  case CommandName =>
    exfalso
    obtain ⟨_, hm, _, _⟩ := h
    obtain ⟨c0, body, ht, h0, _⟩ := txtMany_iff.1 hm
    have h2 := he c0 (by rw [ht]; rfl)
    rw [h0] at h2; cases h2
  case Text =>
    obtain ⟨hm, hrest⟩ := h
    refine ⟨?_, hrest⟩
    obtain ⟨c0, body, ht, hi, _⟩ := txtMany_iff.1 hm
    rw [ht]
    refine ⟨hi, fun _ hl => ?_⟩
    have h2 := he c0 (by rw [ht]; rfl)
    rw [hl] at h2; cases h2

/-- `ts'` is `ts` with some comment tokens replaced by comment tokens. -/
inductive CVar : List Tok → List Tok → Prop
  | nil : CVar [] []
  | same (t : Tok) {r r' : List Tok} : CVar r r' → CVar (t :: r) (t :: r')
  | change (t t' : Tok) {r r' : List Tok} : t.cat = .Comment → t'.cat = .Comment →
      (∃ body, t'.text = 37 :: body ∧ ∀ c ∈ body, catOf c ≠ .EndOfLine) →
      CVar r r' → CVar (t :: r) (t' :: r')

theorem CVar.refl : ∀ ts : List Tok, CVar ts ts
  | [] => .nil
  | t :: r => .same t (CVar.refl r)

theorem CVar.append {a a' b b' : List Tok} (h1 : CVar a a') (h2 : CVar b b') : CVar (a ++ b) (a' ++ b') := by
  induction h1 with
  | nil => exact h2
  | same t _ ih => exact .same t ih
  | change t t' h3 h4 h5 _ ih => exact .change t t' h3 h4 h5 ih

theorem lastD_ne_nil {l : Str} (d d' : Option Ch) (h : l ≠ []) : lastD l d = lastD l d' := by
  rw [lastD_eq_getLast l d h, lastD_eq_getLast l d' h]

/-- The texts of comment variants agree up to and including the first changed `%`. -/
theorem CVar.pctRel {prev : Option Ch} {ts ts' : List Tok} (h : CVar ts ts') (hs : Separated prev ts) :
    PctRel (flat ts) (flat ts') := by
  induction h generalizing prev with
  | nil => exact .refl _
  | same t _ ih => exact (ih hs.2.2).prepend t.text
  | @change t t' r r' h3 h4 h5 _ ih =>
    obtain ⟨_, hok, _⟩ := hs
    unfold TokOK at hok
    rw [h3] at hok
    simp only [TokOK'] at hok
    obtain ⟨c0, body, ht, h0, _⟩ := txtMany_iff.1 hok
    obtain ⟨body', ht', _⟩ := h5
    refine .inr ⟨[], body ++ flat r, body' ++ flat r', ?_, ?_⟩
    · simp [flat, ht, comment_char h0]
    · simp [flat, ht']

/-- **Comment variants of a separated list are separated.** -/
theorem CVar.separated {ts ts' : List Tok} (h : CVar ts ts') : ∀ {prev prev' : Option Ch},
    Separated prev ts → (prev' = prev ∨ ∀ c ∈ (flat ts).head?, catOf c = .EndOfLine) →
    Separated prev' ts' := by
  induction h with
  | nil => intro _ _ _ _; trivial
  | @same t r r' hr ih =>
    intro prev prev' hs hp
    obtain ⟨hne, hok, hrest⟩ := hs
    refine ⟨hne, ?_, ih hrest (.inl (lastD_ne_nil _ _ hne))⟩
    have hok' : TokOK prev t (flat r') := (hr.pctRel hrest).tokOK hok
    rcases hp with rfl | hp
    · exact hok'
    · refine tokOK_prev_irrel hok' fun c hc => hp c ?_
      cases ht : t.text with
      | nil => exact absurd ht hne
      | cons a b => rw [ht] at hc; simpa [flat, ht] using hc
  | @change t t' r r' h3 h4 h5 hr ih =>
    intro prev prev' hs _
    obtain ⟨hne, hok, hrest⟩ := hs
    obtain ⟨body', ht', hb'⟩ := h5
    have hw : ∀ c ∈ (flat r).head?, catOf c = .EndOfLine := by
      unfold TokOK at hok
      rw [h3] at hok
      simp only [TokOK'] at hok
      obtain ⟨c0, body, _, _, _, hw⟩ := txtMany_iff.1 hok
      exact hw
    refine ⟨by rw [ht']; simp, ?_, ih hrest (.inr hw)⟩
    unfold TokOK
    rw [h4, ht']
    simp only [TokOK', TxtMany]
    refine ⟨by decide, hb', ?_⟩
    rw [(hr.pctRel hrest).head]
    exact hw

end TexSoup
