import TexSoupProofs.TokLemmas.CommentVar
/-!
# Dropping the spacers in front of argument openers keeps a token list separated

`SDrop pt ts ts'`: `ts'` is `ts` without some `MergedSpacer` tokens, each of which stands between a
token `n` – a closing `}` / `]`, a command name or a sizing command – and an opening `{` / `[`.
If `ts` is `Separated` and no command-name token is a bare *sizing prefix* (`\left`, `\big` …:
followed by its delimiter it would be one sizing-command token), then `ts'` is `Separated`
(`SDrop.separated`).
-/
namespace TexSoup

/-! ### a blank run that ends exactly at a boundary only looks one character further -/

theorem countWhile_head_congr {p : Ch → Bool} : ∀ (a w w' : Str), countWhile p (a ++ w) ≤ a.length →
    w'.head? = w.head? → countWhile p (a ++ w') = countWhile p (a ++ w) := by
  intro a
  induction a with
  | nil =>
    intro w w' h hh
    simp only [List.nil_append, List.length_nil, Nat.le_zero_eq] at h ⊢
    cases w with
    | nil => cases w' with
      | nil => rfl
      | cons c r => cases hh
    | cons c r =>
      cases w' with
      | nil => cases hh
      | cons c' r' =>
        simp only [List.head?_cons, Option.some.injEq] at hh
        subst hh
        have hc := countWhile_cons_eq_zero h
        rw [h, countWhile_cons_neg hc]
  | cons x a ih =>
    intro w w' h hh
    simp only [List.cons_append, List.length_cons] at h ⊢
    by_cases hx : p x = true
    · rw [countWhile_cons_pos hx] at h ⊢
      rw [countWhile_cons_pos hx, ih w w' (by omega) hh]
    · have hx' : p x = false := by simpa using hx
      rw [countWhile_cons_neg hx', countWhile_cons_neg hx']

theorem spacerRun_head_congr (a w w' : Str) (h : spacerRun (a ++ w) = a.length)
    (hh : w'.head? = w.head?) : spacerRun (a ++ w') = a.length := by
  unfold spacerRun at h ⊢
  simp only [] at h ⊢
  have hle1 : countWhile isSpacerCh (a ++ w) ≤ a.length := by omega
  rw [countWhile_head_congr a w w' hle1 hh]
  generalize hn1 : countWhile isSpacerCh (a ++ w) = n1 at *
  rw [List.drop_append_of_le_length hle1] at h ⊢
  generalize ha1 : a.drop n1 = a1 at *
  have hl1 : a1.length = a.length - n1 := by rw [← ha1]; simp
  cases a1 with
  | cons c r =>
    simp only [List.length_cons] at hl1
    simp only [List.cons_append] at h ⊢
    by_cases hc : (catOf c == CC.EndOfLine) = true
    · simp only [hc, if_true, List.drop_succ_cons, List.drop_zero] at h ⊢
      have hle3 : countWhile isSpacerCh (r ++ w) ≤ r.length := by omega
      rw [countWhile_head_congr r w w' hle3 hh]; exact h
    · simp only [hc, Bool.false_eq_true, if_false, List.drop_zero] at h ⊢
      have hle3 : countWhile isSpacerCh ((c :: r) ++ w) ≤ (c :: r).length := by
        simp only [List.cons_append, List.length_cons]; omega
      have := countWhile_head_congr (c :: r) w w' hle3 hh
      simp only [List.cons_append] at this
      rw [this]; exact h
  | nil =>
    simp only [List.length_nil] at hl1
    simp only [List.nil_append] at h ⊢
    cases w with
    | nil =>
      cases w' with
      | nil => exact h
      | cons c r => cases hh
    | cons c r =>
      cases w' with
      | nil => cases hh
      | cons c' r' =>
        simp only [List.head?_cons, Option.some.injEq] at hh
        subst hh
        simp only at h ⊢
        by_cases hc : (catOf c' == CC.EndOfLine) = true
        · simp only [hc, if_true] at h; omega
        · simp only [hc, Bool.false_eq_true, if_false, List.drop_zero, Nat.add_zero] at h ⊢
          have h0 : countWhile isSpacerCh (c' :: r) = 0 := by omega
          rw [countWhile_cons_neg (countWhile_cons_eq_zero h0)]
          omega

/-! ### a command name that is no sizing prefix starts no sizing command -/

/-- letters and `*`: what a command name consists of -/
def nameCh (c : Ch) : Bool := isLetterCh c || c == 42

/-- Every sizing command is a sizing prefix (letters) followed by a delimiter that starts with
neither a letter nor `*`. -/
theorem punctuationCommands_split : ∀ p ∈ Tables.punctuationCommands,
    ∃ A ∈ Tables.sizePrefix, ∃ D, p = A ++ D ∧ (∀ c ∈ A, nameCh c = true) ∧
      ∃ d D', D = d :: D' ∧ nameCh d = false := by
  have key : Tables.punctuationCommands.all (fun p => Tables.sizePrefix.any fun A =>
      isPrefix A p && A.all nameCh && (match p.drop A.length with
        | d :: _ => !nameCh d
        | [] => false)) = true := by decide +kernel
  intro p hp
  rw [List.all_eq_true] at key
  have := key p hp
  rw [List.any_eq_true] at this
  obtain ⟨A, hA, h⟩ := this
  simp only [Bool.and_eq_true, List.all_eq_true] at h
  obtain ⟨⟨h1, h2⟩, h3⟩ := h
  have hsplit : p = A ++ p.drop A.length := by
    clear h2 h3 hA hp key
    induction A generalizing p with
    | nil => simp
    | cons a A ih =>
      cases p with
      | nil => simp [isPrefix] at h1
      | cons b p =>
        simp only [isPrefix, Bool.and_eq_true, beq_iff_eq] at h1
        simp only [List.length_cons, List.drop_succ_cons, List.cons_append, List.cons.injEq]
        exact ⟨h1.1.symm, ih p h1.2⟩
  refine ⟨A, hA, p.drop A.length, hsplit, h2, ?_⟩
  cases hd : p.drop A.length with
  | nil => rw [hd] at h3; cases h3
  | cons d D' => rw [hd] at h3; exact ⟨d, D', rfl, by simpa using h3⟩

/-- name characters, then something else: the name part is determined -/
theorem isPrefix_name_split : ∀ (A L D w : Str), (∀ c ∈ A, nameCh c = true) → (∀ c ∈ L, nameCh c = true) →
    (∃ d D', D = d :: D' ∧ nameCh d = false) → (∀ c ∈ w.head?, nameCh c = false) →
    isPrefix (A ++ D) (L ++ w) = true → A = L := by
  intro A
  induction A with
  | nil =>
    intro L D w _ hL hD _ h
    obtain ⟨d, D', rfl, hd⟩ := hD
    cases L with
    | nil => rfl
    | cons l L' =>
      simp only [List.nil_append, List.cons_append, isPrefix, Bool.and_eq_true, beq_iff_eq] at h
      have := hL l (by simp)
      rw [← h.1, hd] at this; cases this
  | cons a A ih =>
    intro L D w hA hL hD hw h
    cases L with
    | nil =>
      cases w with
      | nil => simp [isPrefix] at h
      | cons c r =>
        simp only [List.cons_append, List.nil_append, isPrefix, Bool.and_eq_true, beq_iff_eq] at h
        have h1 := hA a (by simp)
        have h2 := hw c rfl
        rw [h.1, h2] at h1; cases h1
    | cons l L' =>
      simp only [List.cons_append, isPrefix, Bool.and_eq_true, beq_iff_eq] at h
      rw [h.1, ih L' D w (fun c hc => hA c (by simp [hc])) (fun c hc => hL c (by simp [hc])) hD hw h.2]

theorem firstMatch_none_of_not_sizing {L w : Str} (hL : ∀ c ∈ L, nameCh c = true)
    (hw : ∀ c ∈ w.head?, nameCh c = false) (hns : L ∉ Tables.sizePrefix) :
    firstMatch Tables.punctuationCommands (L ++ w) = none := by
  rw [firstMatch_none]
  intro p hp
  obtain ⟨A, hA, D, rfl, hAl, hD⟩ := punctuationCommands_split p hp
  cases h : isPrefix (A ++ D) (L ++ w) with
  | false => rfl
  | true => exact absurd (isPrefix_name_split A L D w hAl hL hD hw h ▸ hA) hns

/-! ### the relation and the list-level theorem -/

/-- `TokOK'` for another continuation with the same first character. -/
theorem tokOK'_transfer {prev : Option Ch} {text : Str} {cat : TC} {w w' : Str}
    (h : TokOK' prev text cat w) (hh : w'.head? = w.head?)
    (hf : cat = .CommandName → firstMatch Tables.punctuationCommands (text ++ w') = none) :
    TokOK' prev text cat w' := by
  cases cat <;> simp only [TokOK'] at h ⊢ <;> try (first
    | exact h
    | (rw [hh]; exact h))
  case MergedSpacer =>
    rw [hh]
    exact ⟨h.1, spacerRun_head_congr text w w' h.2.1 hh, h.2.2⟩
  case CommandName =>
    rw [hh]
    exact ⟨h.1, h.2.1, h.2.2.1, hf rfl⟩

def isOpenerTok (o : Tok) : Prop := o.cat = .GroupBegin ∨ o.cat = .BracketBegin

/-- tokens after which a spacer is dropped: the closer of the previous argument, or the name -/
def beforeDropOK (n : Tok) : Prop :=
  n.cat = .GroupEnd ∨ n.cat = .BracketEnd ∨ n.cat = .CommandName ∨ n.cat = .PunctuationCommandName

/-- `SDrop pt ts ts'`: `ts'` is `ts` without some spacers, each between a `beforeDropOK` token
(`pt` is the token before `ts`) and an opener. -/
inductive SDrop : Option Tok → List Tok → List Tok → Prop
  | nil (pt : Option Tok) : SDrop pt [] []
  | keep (pt : Option Tok) (t : Tok) {r r' : List Tok} : SDrop (some t) r r' → SDrop pt (t :: r) (t :: r')
  | drop (n s o : Tok) {r r' : List Tok} : s.cat = .MergedSpacer → isOpenerTok o → beforeDropOK n →
      SDrop (some o) r r' → SDrop (some n) (s :: o :: r) (o :: r')

/-- the last token, or the one before the list -/
def lastTokD : List Tok → Option Tok → Option Tok
  | [], d => d
  | t :: r, _ => lastTokD r (some t)

theorem lastTokD_append (a b : List Tok) (d : Option Tok) :
    lastTokD (a ++ b) d = lastTokD b (lastTokD a d) := by
  induction a generalizing d with
  | nil => rfl
  | cons t a ih => simp only [List.cons_append, lastTokD, ih]

theorem SDrop.refl : ∀ (ts : List Tok) (pt : Option Tok), SDrop pt ts ts
  | [], pt => .nil pt
  | t :: r, pt => .keep pt t (SDrop.refl r _)

theorem SDrop.append {pt : Option Tok} {a a' b b' : List Tok} (h1 : SDrop pt a a')
    (h2 : SDrop (lastTokD a pt) b b') : SDrop pt (a ++ b) (a' ++ b') := by
  induction h1 with
  | nil pt => exact h2
  | keep pt t _ ih => exact .keep pt t (ih h2)
  | drop n s o hs ho hn _ ih => exact .drop n s o hs ho hn (ih h2)

theorem nameCh_opener {c : Ch} (h : catOf c = .GroupBegin ∨ catOf c = .BracketBegin) :
    nameCh c = false := by
  have h42 : catOf 42 = CC.Other := by decide
  unfold nameCh isLetterCh
  rcases h with h | h <;> simp only [h, Bool.or_eq_false_iff, beq_eq_false_iff_ne, ne_eq] <;>
    exact ⟨by decide, fun hc => by rw [hc, h42] at h; cases h⟩

/-- the text of an opener token of a separated list starts with no name character -/
theorem opener_head {prev : Option Ch} {o : Tok} {w : Str} (ho : isOpenerTok o) (h : TokOK prev o w) :
    ∀ c ∈ o.text.head?, nameCh c = false := by
  unfold TokOK at h
  rcases ho with ho | ho <;> rw [ho] at h <;> simp only [TokOK'] at h <;>
    obtain ⟨c0, ht, h0⟩ := txtOne_iff.1 h <;> rw [ht] <;> intro c hc <;> cases hc
  · exact nameCh_opener (.inl h0)
  · exact nameCh_opener (.inr h0)

theorem commandName_chars {prev : Option Ch} {t : Tok} {w : Str} (hc : t.cat = .CommandName)
    (h : TokOK prev t w) : (∀ c ∈ t.text, nameCh c = true) ∧ ∀ c ∈ w.head?, nameCh c = false := by
  unfold TokOK at h
  rw [hc] at h
  simp only [TokOK'] at h
  obtain ⟨_, hm, hw, _⟩ := h
  obtain ⟨c0, body, ht, h0, hb⟩ := txtMany_iff.1 hm
  refine ⟨?_, hw⟩
  rw [ht]
  intro c hcm
  rcases List.mem_cons.1 hcm with rfl | hcm
  · simp [nameCh, isLetterCh, h0]
  · exact hb c hcm

theorem flat_head_cons (u : Tok) (r : List Tok) (h : u.text ≠ []) :
    (flat (u :: r)).head? = u.text.head? := by
  cases ht : u.text with
  | nil => exact absurd ht h
  | cons c b => simp [flat, ht]

/-- **Dropping spacers in front of openers keeps a token list separated**, if no command name
is a bare sizing prefix. -/
theorem SDrop.separated {pt : Option Tok} {ts ts' : List Tok} (h : SDrop pt ts ts') :
    (∀ t ∈ ts, t.cat = .CommandName → t.text ∉ Tables.sizePrefix) →
    ∀ prev, Separated prev ts → Separated prev ts' := by
  induction h with
  | nil pt => intro _ _ _; trivial
  | @keep pt t r r' hsub ih =>
    intro hns prev hs
    obtain ⟨hne, hok, hrest⟩ := hs
    refine ⟨hne, ?_, ih (fun x hx => hns x (by simp [hx])) _ hrest⟩
    have hfm : ∀ w', (∀ c ∈ w'.head?, nameCh c = false) → t.cat = .CommandName →
        firstMatch Tables.punctuationCommands (t.text ++ w') = none := by
      intro w' hw' hc
      exact firstMatch_none_of_not_sizing (commandName_chars hc hok).1 hw' (hns t (by simp) hc)
    cases hsub with
    | nil => exact hok
    | @keep _ u r1 r1' _ =>
      have hu : u.text ≠ [] := hrest.1
      have hh : (flat (u :: r1')).head? = (flat (u :: r1)).head? := by
        rw [flat_head_cons u r1' hu, flat_head_cons u r1 hu]
      refine tokOK'_transfer hok hh fun hc => hfm _ ?_ hc
      rw [hh]; exact (commandName_chars hc hok).2
    | @drop _ s o r1 r1' hsc ho hn _ =>
      have hoko : TokOK _ o (flat r1) := hrest.2.2.2.1
      have hone : o.text ≠ [] := hrest.2.2.1
      have hhead : ∀ c ∈ (flat (o :: r1')).head?, nameCh c = false := by
        rw [flat_head_cons o r1' hone]; exact opener_head ho hoko
      unfold TokOK at hok ⊢
      rcases hn with hn | hn | hn | hn
      · rw [hn] at hok ⊢; simp only [TokOK'] at hok ⊢; exact hok
      · rw [hn] at hok ⊢; simp only [TokOK'] at hok ⊢; exact hok
      · have hfm' := hfm _ hhead hn
        rw [hn] at hok ⊢
        simp only [TokOK'] at hok ⊢
        refine ⟨hok.1, hok.2.1, ?_, hfm'⟩
        intro c hc
        have := hhead c hc
        simpa [nameCh] using this
      · rw [hn] at hok ⊢; simp only [TokOK'] at hok ⊢; exact hok
  | @drop n s o r r' hsc ho hn hsub ih =>
    intro hns prev hs
    obtain ⟨hnes, _, hrest⟩ := hs
    obtain ⟨hneo, hoko, hresto⟩ := hrest
    refine ⟨hneo, ?_, ?_⟩
    · unfold TokOK at hoko ⊢
      rcases ho with ho | ho <;> rw [ho] at hoko ⊢ <;> simp only [TokOK'] at hoko ⊢ <;> exact hoko
    · rw [lastD_ne_nil _ (lastD s.text prev) hneo]
      exact ih (fun x hx => hns x (by simp [hx])) _ hresto

end TexSoup
