import TexSoupModel.Tok
/-!
# Helper lemmas for the categoriser / tokenizer proofs: lists, tables, `Erased`

Everything here is independent of the tokenizer loop.  Facts about the *generated* tables
are proved by `decide`, so that they stop compiling when the Python tables change in a way
that falsifies them.
-/
namespace TexSoup

/-! ## `countWhile` -/

theorem countWhile_le (p : Ch → Bool) (l : Str) : countWhile p l ≤ l.length := by
  induction l with
  | nil => simp [countWhile]
  | cons c r ih =>
    simp only [countWhile]
    split <;> simp <;> omega

theorem take_countWhile (p : Ch → Bool) (l : Str) :
    l.take (countWhile p l) = l.takeWhile p := by
  induction l with
  | nil => simp [countWhile]
  | cons c r ih =>
    simp only [countWhile, List.takeWhile_cons]
    split <;> simp [*]

theorem drop_countWhile (p : Ch → Bool) (l : Str) :
    l.drop (countWhile p l) = l.dropWhile p := by
  induction l with
  | nil => simp [countWhile]
  | cons c r ih =>
    simp only [countWhile, List.dropWhile_cons]
    split <;> simp [*]

theorem countWhile_eq_length_takeWhile (p : Ch → Bool) (l : Str) :
    countWhile p l = (l.takeWhile p).length := by
  induction l with
  | nil => simp [countWhile]
  | cons c r ih =>
    simp only [countWhile, List.takeWhile_cons]
    split <;> simp [*]

theorem mem_take_countWhile {p : Ch → Bool} {l : Str} {c : Ch}
    (h : c ∈ l.take (countWhile p l)) : p c = true := by
  induction l with
  | nil => simp [countWhile] at h
  | cons a r ih =>
    cases hp : p a with
    | false => simp [countWhile, hp] at h
    | true =>
      simp only [countWhile, hp, if_true, List.take_succ_cons, List.mem_cons] at h
      rcases h with rfl | h
      · exact hp
      · exact ih h

theorem mem_takeWhile {p : Ch → Bool} {l : Str} {c : Ch} (h : c ∈ l.takeWhile p) : p c = true := by
  rw [← take_countWhile] at h
  exact mem_take_countWhile h

theorem countWhile_cons_pos {p : Ch → Bool} {c : Ch} {r : Str} (h : p c = true) :
    countWhile p (c :: r) = countWhile p r + 1 := by
  simp [countWhile, h]

theorem countWhile_cons_neg {p : Ch → Bool} {c : Ch} {r : Str} (h : p c = false) :
    countWhile p (c :: r) = 0 := by
  simp [countWhile, h]

theorem countWhile_cons_eq_zero {p : Ch → Bool} {c : Ch} {r : Str}
    (h : countWhile p (c :: r) = 0) : p c = false := by
  cases hp : p c with
  | false => rfl
  | true => simp [countWhile, hp] at h

/-- If no element satisfies `p`, nothing is counted. -/
theorem countWhile_eq_zero_of_all {p : Ch → Bool} {l : Str}
    (h : ∀ c ∈ l, p c = false) : countWhile p l = 0 := by
  cases l with
  | nil => rfl
  | cons c r => exact countWhile_cons_neg (h c (by simp))

/-! ## `isPrefix`, `firstMatch` -/

theorem isPrefix_iff {p l : Str} : isPrefix p l = true ↔ ∃ t, l = p ++ t := by
  induction p generalizing l with
  | nil => simp [isPrefix]
  | cons a p ih =>
    cases l with
    | nil => simp [isPrefix]
    | cons b l =>
      simp only [isPrefix, Bool.and_eq_true, beq_iff_eq, ih, List.cons_append, List.cons.injEq]
      constructor
      · rintro ⟨rfl, t, rfl⟩; exact ⟨t, rfl, rfl⟩
      · rintro ⟨t, rfl, rfl⟩; exact ⟨rfl, t, rfl⟩

theorem isPrefix_take {p l : Str} (h : isPrefix p l = true) : l.take p.length = p := by
  obtain ⟨t, rfl⟩ := isPrefix_iff.1 h
  simp

theorem isPrefix_length_le {p l : Str} (h : isPrefix p l = true) : p.length ≤ l.length := by
  obtain ⟨t, rfl⟩ := isPrefix_iff.1 h
  simp

/-- Two prefixes of the same string are comparable. -/
theorem isPrefix_total {a b l : Str} (ha : isPrefix a l = true) (hb : isPrefix b l = true) :
    isPrefix a b = true ∨ isPrefix b a = true := by
  induction a generalizing b l with
  | nil => left; simp [isPrefix]
  | cons x a ih =>
    cases b with
    | nil => right; simp [isPrefix]
    | cons y b =>
      cases l with
      | nil => simp [isPrefix] at ha
      | cons z l =>
        simp only [isPrefix, Bool.and_eq_true, beq_iff_eq] at ha hb ⊢
        obtain ⟨rfl, ha⟩ := ha
        obtain ⟨rfl, hb⟩ := hb
        rcases ih ha hb with h | h
        · exact Or.inl ⟨rfl, h⟩
        · exact Or.inr ⟨rfl, h⟩

theorem firstMatch_some {tbl : List Str} {rest p : Str} (h : firstMatch tbl rest = some p) :
    p ∈ tbl ∧ isPrefix p rest = true := by
  induction tbl with
  | nil => simp [firstMatch] at h
  | cons q qs ih =>
    simp only [firstMatch] at h
    split at h
    · cases h; exact ⟨by simp, by assumption⟩
    · have := ih h; exact ⟨by simp [this.1], this.2⟩

theorem firstMatch_none {tbl : List Str} {rest : Str} :
    firstMatch tbl rest = none ↔ ∀ p ∈ tbl, isPrefix p rest = false := by
  induction tbl with
  | nil => simp [firstMatch]
  | cons q qs ih =>
    simp only [firstMatch, List.mem_cons, forall_eq_or_imp]
    split
    · simp [*]
    · simp [*]

/-! ## `lastD`, `TSt.adv` -/

@[simp] theorem lastD_nil (d : Option Ch) : lastD [] d = d := rfl

theorem lastD_cons (c : Ch) (r : Str) (d : Option Ch) : lastD (c :: r) d = lastD r (some c) := rfl

theorem lastD_append_singleton (l : Str) (c : Ch) (d : Option Ch) :
    lastD (l ++ [c]) d = some c := by
  induction l generalizing d with
  | nil => rfl
  | cons a l ih => simp [lastD, ih]

/-- `lastD` of a non-empty list is its last element. -/
theorem lastD_eq_getLast (l : Str) (d : Option Ch) (h : l ≠ []) :
    lastD l d = some (l.getLast h) := by
  induction l generalizing d with
  | nil => exact absurd rfl h
  | cons a l ih =>
    cases l with
    | nil => rfl
    | cons b l => rw [lastD_cons, ih (some a) (by simp)]; simp

theorem lastD_mem {l : Str} {d : Option Ch} {c : Ch} (h : lastD l d = some c) :
    c ∈ l ∨ (l = [] ∧ d = some c) := by
  induction l generalizing d with
  | nil => right; exact ⟨rfl, h⟩
  | cons a l ih =>
    rw [lastD_cons] at h
    rcases ih h with h | ⟨rfl, h⟩
    · left; simp [h]
    · cases h; left; simp

@[simp] theorem TSt.adv_zero (st : TSt) : st.adv 0 = st := by
  cases st; simp [TSt.adv]

theorem TSt.adv_rest (st : TSt) (n : Nat) : (st.adv n).rest = st.rest.drop n := rfl

theorem TSt.adv_pos (st : TSt) (n : Nat) : (st.adv n).pos = st.pos + (st.rest.take n).length := rfl

/-! ## The generated category table -/

/-- The generated category table has no duplicate keys: "first match" is "the match". -/
theorem catTable_keys_nodup' : (Tables.catTable.map Prod.fst).Nodup := by decide

theorem lookupD_of_mem {β : Type} {tbl : List (Nat × β)} (hn : (tbl.map Prod.fst).Nodup)
    {k : Nat} {v : β} (h : (k, v) ∈ tbl) (d : β) : lookupD tbl k d = v := by
  induction tbl with
  | nil => simp at h
  | cons e r ih =>
    obtain ⟨k', v'⟩ := e
    simp only [List.map_cons, List.nodup_cons, List.mem_map, Prod.exists, exists_and_right,
      exists_eq_right, not_exists] at hn
    simp only [lookupD]
    rcases List.mem_cons.1 h with h' | h'
    · cases h'; simp
    · have hne : k ≠ k' := by
        rintro rfl; exact hn.1 v h'
      simp [hne, ih hn.2 h']

theorem lookupD_of_not_mem {β : Type} {tbl : List (Nat × β)} {k : Nat}
    (h : k ∉ tbl.map Prod.fst) (d : β) : lookupD tbl k d = d := by
  induction tbl with
  | nil => rfl
  | cons e r ih =>
    obtain ⟨k', v'⟩ := e
    simp only [List.map_cons, List.mem_cons, not_or] at h
    simp [lookupD, h.1, ih h.2]

/-- The value found is the default or occurs in the table. -/
theorem lookupD_mem_or {β : Type} (tbl : List (Nat × β)) (k : Nat) (d : β) :
    (k, lookupD tbl k d) ∈ tbl ∨ (lookupD tbl k d = d ∧ k ∉ tbl.map Prod.fst) := by
  induction tbl with
  | nil => right; simp [lookupD]
  | cons e r ih =>
    obtain ⟨k', v'⟩ := e
    simp only [lookupD]
    split
    · subst_vars; left; simp
    · rename_i hne
      rcases ih with h | ⟨h1, h2⟩
      · left; simp [h]
      · right; exact ⟨h1, by simpa [hne] using h2⟩

theorem catOf_of_mem {c : Ch} {v : CC} (h : (c, v) ∈ Tables.catTable) : catOf c = v :=
  lookupD_of_mem catTable_keys_nodup' h _

theorem catOf_of_not_mem {c : Ch} (h : c ∉ Tables.catTable.map Prod.fst) : catOf c = .Other :=
  lookupD_of_not_mem h _

/-- The category of a character is `Other` or one of the categories listed in the table. -/
theorem catOf_range (c : Ch) : catOf c = .Other ∨ catOf c ∈ Tables.catTable.map Prod.snd := by
  rcases lookupD_mem_or Tables.catTable c .Other with h | h
  · right; exact List.mem_map.2 ⟨_, h, rfl⟩
  · left; exact h.1

/-- No character has the (parser-only) categories `MathGroupBegin`/`MathGroupEnd`. -/
theorem catOf_ne_mathGroup (c : Ch) : catOf c ≠ .MathGroupBegin ∧ catOf c ≠ .MathGroupEnd := by
  have h : ∀ v ∈ Tables.catTable.map Prod.snd, v ≠ CC.MathGroupBegin ∧ v ≠ CC.MathGroupEnd := by
    decide
  rcases catOf_range c with h' | h'
  · rw [h']; decide
  · exact h _ h'

/-- Every character `str.isspace()` accepts that occurs in the table is not a letter. -/
theorem catOf_space_ne_letter {c : Ch} (h : isSpaceCh c = true) : catOf c ≠ .Letter := by
  have hall : ∀ d ∈ Tables.spaceChars, catOf d ≠ .Letter := by decide
  exact hall c (by simpa [isSpaceCh] using h)

/-! ## `categorize` -/

theorem categorizeFrom_eq (k : Nat) (s : Str) :
    categorizeFrom k s = List.zipWith (fun c i => (c, i, catOf c)) s (List.range' k s.length) := by
  induction s generalizing k with
  | nil => simp [categorizeFrom]
  | cons c r ih => simp [categorizeFrom, ih, List.range'_succ]

theorem categorizeFrom_length (k : Nat) (s : Str) : (categorizeFrom k s).length = s.length := by
  simp [categorizeFrom_eq]

theorem categorizeFrom_getElem (k : Nat) (s : Str) (i : Nat) (h : i < s.length) :
    (categorizeFrom k s)[i]'(by simpa [categorizeFrom_length] using h) =
      (s[i], k + i, catOf s[i]) := by
  simp [categorizeFrom_eq]

/-! ## `Erased`: deleting ignored characters -/

/-- `Erased s t`: `t` is `s` with some characters deleted, every deleted character being one
that `tokenize_ignore` drops (category `Ignored` or `Invalid`, i.e. NUL / DEL). -/
inductive Erased : Str → Str → Prop
  | nil : Erased [] []
  | keep (c : Ch) {s t : Str} : Erased s t → Erased (c :: s) (c :: t)
  | drop (c : Ch) {s t : Str} : isIgnored (catOf c) = true → Erased s t → Erased (c :: s) t

theorem Erased.refl (s : Str) : Erased s s := by
  induction s with
  | nil => exact .nil
  | cons c r ih => exact .keep c ih

theorem Erased.of_ignored {s : Str} (h : ∀ c ∈ s, isIgnored (catOf c) = true) : Erased s [] := by
  induction s with
  | nil => exact .nil
  | cons c r ih => exact .drop c (h c (by simp)) (ih fun d hd => h d (by simp [hd]))

theorem Erased.append {a b c d : Str} (h1 : Erased a b) (h2 : Erased c d) :
    Erased (a ++ c) (b ++ d) := by
  induction h1 with
  | nil => simpa using h2
  | keep x _ ih => exact .keep x ih
  | drop x hx _ ih => exact .drop x hx ih

theorem Erased.sublist {s t : Str} (h : Erased s t) : t.Sublist s := by
  induction h with
  | nil => exact .slnil
  | keep x _ ih => exact ih.cons_cons x
  | drop x _ _ ih => exact ih.cons x

theorem Erased.length_le {s t : Str} (h : Erased s t) : t.length ≤ s.length :=
  h.sublist.length_le

theorem Erased.eq_of_no_ignored {s t : Str} (h : Erased s t)
    (hs : ∀ c ∈ s, isIgnored (catOf c) = false) : t = s := by
  induction h with
  | nil => rfl
  | keep x _ ih => rw [ih fun d hd => hs d (by simp [hd])]
  | drop x hx _ _ => have := hs x (by simp); simp [hx] at this

/-- Only ignored characters are missing: a kept character is any non-ignored one. -/
theorem Erased.mem_of_not_ignored {s t : Str} (h : Erased s t) {c : Ch} (hc : c ∈ s)
    (hi : isIgnored (catOf c) = false) : c ∈ t := by
  induction h with
  | nil => simp at hc
  | keep x _ ih =>
    rcases List.mem_cons.1 hc with rfl | hc
    · simp
    · simp [ih hc]
  | drop x hx _ ih =>
    rcases List.mem_cons.1 hc with rfl | hc
    · simp [hx] at hi
    · exact ih hc

end TexSoup
