import TexSoupProofs.TokLemmas.InverseOK
/-!
# Tokenizer inverse, part 3: every tokenizer output is separated; corollaries

`exists_tokOK'`: every input whose first character is not ignored splits into a first token
satisfying `TokOK'` and a remainder.  Together with `tokOK'_pass` this shows that the output
of the loop on a string without ignored characters is `Separated` and `Positioned`.
-/
namespace TexSoup

/-! ## Existence of a `TokOK'` decomposition -/

theorem text_decomp (prev : Option Ch) (c0 : Ch) (r : Str)
    (hs : isStringStop (catOf c0) = false) (hi : isIgnored (catOf c0) = false)
    (hsp : spacerRun (c0 :: r) = 0 ∨ headIsLO ((c0 :: r).drop (spacerRun (c0 :: r))) = true)
    (hpl : prevEsc prev = true → catOf c0 ≠ .Letter) :
    ∃ text cat w, c0 :: r = text ++ w ∧ TokOK' prev text cat w := by
  let p : Ch → Bool := fun x => !isStringStop (catOf x)
  have hR : c0 :: r = (c0 :: r.takeWhile p) ++ r.dropWhile p := by
    simp [List.takeWhile_append_dropWhile]
  have hw : ∀ c ∈ (r.dropWhile p).head?, isStringStop (catOf c) = true := by
    intro c hc
    have := head_dropWhile_not p r c hc
    simpa [p] using this
  have hall : ∀ c ∈ c0 :: r.takeWhile p, isStringStop (catOf c) = false := by
    intro c hc
    rcases List.mem_cons.1 hc with rfl | hc
    · exact hs
    · have := mem_takeWhile hc
      simpa [p] using this
  refine ⟨c0 :: r.takeWhile p, .Text, r.dropWhile p, hR, ?_⟩
  simp only [TokOK']
  refine ⟨txtMany_iff.2 ⟨c0, _, rfl, hi, hpl⟩, hall, ?_, hw⟩
  -- the blank-run condition transfers from the whole input to the text
  have hrun : spacerRun (c0 :: r) = spacerRun (c0 :: r.takeWhile p) := by
    rw [hR]
    exact spacerRun_append_of_head _ fun c hc =>
      ⟨(stop_not_plain (hw c hc)).1, (stop_not_plain (hw c hc)).2.1⟩
  simp only [textSpacerOK, Bool.or_eq_true, beq_iff_eq]
  rcases hsp with h0 | h1
  · left; rw [← hrun]; exact h0
  · right
    have hd := List.drop_append_of_le_length (l₂ := r.dropWhile p)
      (spacerRun_le (c0 :: r.takeWhile p))
    rw [← hrun] at hd ⊢
    have h1' : headIsLO ((c0 :: r.takeWhile p).drop (spacerRun (c0 :: r)) ++ r.dropWhile p) =
        true := by
      rw [← hd, ← hR]; exact h1
    cases hdt : (c0 :: r.takeWhile p).drop (spacerRun (c0 :: r)) with
    | nil =>
      rw [hdt, List.nil_append] at h1'
      cases hdw : r.dropWhile p with
      | nil => rw [hdw] at h1'; simp [headIsLO] at h1'
      | cons x y =>
        rw [hdw] at h1'
        have hx := hw x (by rw [hdw]; rfl)
        obtain ⟨_, _, k3, k4⟩ := stop_not_plain hx
        simp [headIsLO, k3, k4] at h1'
    | cons x y =>
      rw [hdt, List.cons_append] at h1'
      simpa [headIsLO] using h1'

/-- Characters at which `tokenize_string` does not stop. -/
theorem plain_decomp (prev : Option Ch) (c0 : Ch) (r : Str)
    (hs : isStringStop (catOf c0) = false) (hi : isIgnored (catOf c0) = false) :
    ∃ text cat w, c0 :: r = text ++ w ∧ TokOK' prev text cat w := by
  by_cases hsp : spacerRun (c0 :: r) ≠ 0 ∧
      headIsLO ((c0 :: r).drop (spacerRun (c0 :: r))) = false
  · -- a `MergedSpacer`
    obtain ⟨hn0, hlo⟩ := hsp
    have hle := spacerRun_le (c0 :: r)
    refine ⟨(c0 :: r).take (spacerRun (c0 :: r)), .MergedSpacer,
      (c0 :: r).drop (spacerRun (c0 :: r)), (List.take_append_drop _ _).symm, ?_⟩
    simp only [TokOK']
    refine ⟨?_, ?_, headIsLO_eq_false_iff.1 hlo⟩
    · intro he
      have := congrArg List.length he
      simp only [List.length_take, List.length_nil] at this
      omega
    · rw [List.take_append_drop, List.length_take]
      omega
  · have hsp' : spacerRun (c0 :: r) = 0 ∨
        headIsLO ((c0 :: r).drop (spacerRun (c0 :: r))) = true := by
      by_cases h0 : spacerRun (c0 :: r) = 0
      · exact Or.inl h0
      · right
        cases hl : headIsLO ((c0 :: r).drop (spacerRun (c0 :: r))) with
        | true => rfl
        | false => exact absurd ⟨h0, hl⟩ hsp
    cases hpe : prevEsc prev with
    | false => exact text_decomp prev c0 r hs hi hsp' (by simp [hpe])
    | true =>
      cases hfm : firstMatch Tables.punctuationCommands (c0 :: r) with
      | some point =>
        have ⟨hm, hpre⟩ := firstMatch_some hfm
        obtain ⟨w, hw⟩ := isPrefix_iff.1 hpre
        exact ⟨point, .PunctuationCommandName, w, hw, by simp only [TokOK']; exact ⟨hpe, hm⟩⟩
      | none =>
        by_cases hL : catOf c0 = .Letter
        · let q : Ch → Bool := fun c => isLetterCh c || c == 42
          have hR : c0 :: r = (c0 :: r.takeWhile q) ++ r.dropWhile q := by
            simp [List.takeWhile_append_dropWhile]
          refine ⟨c0 :: r.takeWhile q, .CommandName, r.dropWhile q, hR, ?_⟩
          simp only [TokOK']
          refine ⟨hpe, txtMany_iff.2 ⟨c0, _, rfl, hL, fun c hc => mem_takeWhile hc⟩,
            head_dropWhile_not q r, ?_⟩
          rw [← hR]; exact hfm
        · exact text_decomp prev c0 r hs hi hsp' (fun _ => hL)

/-- **Completeness of `TokOK'`.**  Every input that starts with a non-ignored character splits
into a first token satisfying `TokOK'` and a remainder. -/
theorem exists_tokOK' (prev : Option Ch) (c0 : Ch) (r : Str)
    (hi : isIgnored (catOf c0) = false) :
    ∃ text cat w, c0 :: r = text ++ w ∧ TokOK' prev text cat w := by
  cases hc : catOf c0
  case Escape =>
    cases r with
    | nil => exact ⟨[c0], .Escape, [], rfl, by simp [TokOK', TxtOne, hc]⟩
    | cons c1 r' =>
      cases he : isEscapable (catOf c1) with
      | true => exact ⟨[c0, c1], .EscapedComment, r', rfl, by simp [TokOK', TxtTwo, hc, he]⟩
      | false =>
        cases ha : asymSwitch (catOf c1) with
        | none => exact ⟨[c0], .Escape, c1 :: r', rfl, by simp [TokOK', TxtOne, hc, he, ha]⟩
        | some tc =>
          cases h1 : catOf c1 <;> simp only [h1, asymSwitch] at ha <;> cases ha
          · exact ⟨[c0, c1], .DisplayMathGroupBegin, r', rfl, by simp [TokOK', TxtTwo, hc, h1]⟩
          · exact ⟨[c0, c1], .DisplayMathGroupEnd, r', rfl, by simp [TokOK', TxtTwo, hc, h1]⟩
          · exact ⟨[c0, c1], .MathGroupBegin, r', rfl, by simp [TokOK', TxtTwo, hc, h1]⟩
          · exact ⟨[c0, c1], .MathGroupEnd, r', rfl, by simp [TokOK', TxtTwo, hc, h1]⟩
  case GroupBegin => exact ⟨[c0], .GroupBegin, r, rfl, by simp [TokOK', TxtOne, hc]⟩
  case GroupEnd => exact ⟨[c0], .GroupEnd, r, rfl, by simp [TokOK', TxtOne, hc]⟩
  case BracketBegin => exact ⟨[c0], .BracketBegin, r, rfl, by simp [TokOK', TxtOne, hc]⟩
  case BracketEnd => exact ⟨[c0], .BracketEnd, r, rfl, by simp [TokOK', TxtOne, hc]⟩
  case MathSwitch =>
    cases r with
    | nil => exact ⟨[c0], .MathSwitch, [], rfl, by simp [TokOK', TxtOne, hc]⟩
    | cons c1 r' =>
      by_cases h1 : catOf c1 = .MathSwitch
      · exact ⟨[c0, c1], .DisplayMathSwitch, r', rfl, by simp [TokOK', TxtTwo, hc, h1]⟩
      · exact ⟨[c0], .MathSwitch, c1 :: r', rfl, by simp [TokOK', TxtOne, hc, h1]⟩
  case Comment =>
    let p : Ch → Bool := fun c => catOf c != CC.EndOfLine
    refine ⟨c0 :: r.takeWhile p, .Comment, r.dropWhile p,
      by simp [List.takeWhile_append_dropWhile], ?_⟩
    simp only [TokOK']
    refine txtMany_iff.2 ⟨c0, _, rfl, hc, ?_, ?_⟩
    · intro c hcm
      have := mem_takeWhile hcm
      simpa [p] using this
    · intro c hcm
      have := head_dropWhile_not p r c hcm
      simpa [p] using this
  case Ignored => simp [hc, isIgnored] at hi
  case Invalid => simp [hc, isIgnored] at hi
  all_goals exact plain_decomp prev c0 r (by rw [hc]; rfl) hi

/-! ## The loop: outputs are separated and positioned -/

theorem tokLoop_separated (f : Nat) (pt : Option TC) (st : TSt) {ts : List Tok}
    (h : tokLoop f pt st = some ts) (hno : NoIgnored st.rest) :
    Separated st.prev ts ∧ flat ts = st.rest ∧ Positioned st.pos ts := by
  induction f generalizing pt st ts with
  | zero => simp [tokLoop] at h
  | succ f ih =>
    obtain ⟨prev, pos, rest⟩ := st
    cases rest with
    | nil =>
      simp only [tokLoop, List.isEmpty_nil, if_true, Option.some.injEq] at h
      subst h
      exact ⟨trivial, rfl, trivial⟩
    | cons c0 r =>
      simp only at hno
      obtain ⟨text, cat, w, hR, hok⟩ := exists_tokOK' prev c0 r (hno c0 (by simp))
      have hp := tokOK'_pass pt prev pos hok
      rw [← hR] at hp
      simp only [tokLoop, List.isEmpty_cons, Bool.false_eq_true, if_false, hp] at h
      cases hl : tokLoop f (some cat) ⟨lastD text prev, pos + text.length, w⟩ with
      | none => simp [hl] at h
      | some ts' =>
        simp only [hl, Option.map_some, Option.some.injEq] at h
        subst h
        have hnow : NoIgnored w := fun c hc => hno c (by rw [hR]; simp [hc])
        obtain ⟨h1, h2, h3⟩ := ih _ _ hl hnow
        simp only at h1 h2 h3
        refine ⟨⟨tokOK'_nonempty hok, ?_, h1⟩, ?_, ⟨rfl, h3⟩⟩
        · show TokOK' prev text cat (flat ts')
          rw [h2]; exact hok
        · simp only [flat, h2]; exact hR.symm

/-! ## Corollaries about neighbours -/

/-- Categories of tokens whose first character is a stop character of `tokenize_string`. -/
def stopCat : TC → Bool
  | .Escape | .GroupBegin | .GroupEnd | .BracketBegin | .BracketEnd | .MathSwitch
  | .DisplayMathSwitch | .EscapedComment | .MathGroupBegin | .MathGroupEnd
  | .DisplayMathGroupBegin | .DisplayMathGroupEnd | .Comment => true
  | _ => false

/-- A well-formed delimiter-like token starts with a stop character. -/
theorem head_stop_of_tokOK' {prev : Option Ch} {text : Str} {cat : TC} {w : Str}
    (h : TokOK' prev text cat w) (hcat : stopCat cat = true) (w' : Str) :
    ∀ c ∈ (text ++ w').head?, isStringStop (catOf c) = true := by
  cases cat <;> simp only [stopCat] at hcat <;> simp only [TokOK'] at h
  case Escape =>
    obtain ⟨c0, rfl, h0, _⟩ := txtOne_iff.1 h
    intro c hc; cases hc; simp [h0, isStringStop]
  case GroupBegin =>
    obtain ⟨c0, rfl, h0⟩ := txtOne_iff.1 h
    intro c hc; cases hc; simp [h0, isStringStop]
  case GroupEnd =>
    obtain ⟨c0, rfl, h0⟩ := txtOne_iff.1 h
    intro c hc; cases hc; simp [h0, isStringStop]
  case BracketBegin =>
    obtain ⟨c0, rfl, h0⟩ := txtOne_iff.1 h
    intro c hc; cases hc; simp [h0, isStringStop]
  case BracketEnd =>
    obtain ⟨c0, rfl, h0⟩ := txtOne_iff.1 h
    intro c hc; cases hc; simp [h0, isStringStop]
  case MathSwitch =>
    obtain ⟨c0, rfl, h0, _⟩ := txtOne_iff.1 h
    intro c hc; cases hc; simp [h0, isStringStop]
  case Comment =>
    obtain ⟨c0, body, rfl, h0, _⟩ := txtMany_iff.1 h
    intro c hc; cases hc; simp [h0, isStringStop]
  all_goals first
    | (obtain ⟨c0, c1, rfl, h0, _⟩ := txtTwo_iff.1 h
       intro c hc; cases hc; simp [h0, isStringStop])
    | (cases hcat; done)

theorem head_stop_of_next {prev : Option Ch} {u : Tok} {r : List Tok}
    (hu : TokOK prev u (flat r)) (hcat : stopCat u.cat = true) :
    ∀ c ∈ (flat (u :: r)).head?, isStringStop (catOf c) = true :=
  head_stop_of_tokOK' hu hcat (flat r)

/-- A `Text` token is fine in front of anything that starts with a stop character (or at the
end of the input): only the conditions on the text itself and on `prev` remain. -/
theorem tokOK_text {prev : Option Ch} {text : Str} (p : Nat) {w : Str} (hne : text ≠ [])
    (hall : ∀ c ∈ text, isStringStop (catOf c) = false)
    (hign : ∀ c ∈ text.head?, isIgnored (catOf c) = false)
    (hsp : textSpacerOK text = true)
    (hprev : prevEsc prev = true → ∀ c ∈ text.head?, catOf c ≠ .Letter)
    (hw : ∀ c ∈ w.head?, isStringStop (catOf c) = true) :
    TokOK prev ⟨text, p, .Text⟩ w := by
  obtain ⟨c0, body, rfl⟩ := List.exists_cons_of_ne_nil hne
  exact ⟨txtMany_iff.2 ⟨c0, body, rfl, hign c0 rfl, fun h => hprev h c0 rfl⟩, hall, hsp, hw⟩

/-- A `MergedSpacer` token is fine in front of anything that starts with a stop character (or
at the end of the input), provided its own text is a complete blank run. -/
theorem tokOK_spacer {prev : Option Ch} {text : Str} (p : Nat) {w : Str} (hne : text ≠ [])
    (hrun : spacerRun text = text.length)
    (hw : ∀ c ∈ w.head?, isStringStop (catOf c) = true) :
    TokOK prev ⟨text, p, .MergedSpacer⟩ w := by
  refine ⟨hne, ?_, fun c hc => ⟨(stop_not_plain (hw c hc)).2.2.1, (stop_not_plain (hw c hc)).2.2.2⟩⟩
  show spacerRun (text ++ w) = text.length
  rw [spacerRun_append_of_head text fun c hc =>
    ⟨(stop_not_plain (hw c hc)).1, (stop_not_plain (hw c hc)).2.1⟩]
  exact hrun

/-! ### Delimiter tokens with their standard spelling are fine in every context -/

theorem tokOK_groupBegin (prev : Option Ch) (p : Nat) (w : Str) :
    TokOK prev ⟨[123], p, .GroupBegin⟩ w := by
  show catOf 123 = CC.GroupBegin; decide

theorem tokOK_groupEnd (prev : Option Ch) (p : Nat) (w : Str) :
    TokOK prev ⟨[125], p, .GroupEnd⟩ w := by
  show catOf 125 = CC.GroupEnd; decide

theorem tokOK_bracketBegin (prev : Option Ch) (p : Nat) (w : Str) :
    TokOK prev ⟨[91], p, .BracketBegin⟩ w := by
  show catOf 91 = CC.BracketBegin; decide

theorem tokOK_bracketEnd (prev : Option Ch) (p : Nat) (w : Str) :
    TokOK prev ⟨[93], p, .BracketEnd⟩ w := by
  show catOf 93 = CC.BracketEnd; decide

theorem tokOK_displayMathSwitch (prev : Option Ch) (p : Nat) (w : Str) :
    TokOK prev ⟨[36, 36], p, .DisplayMathSwitch⟩ w := by
  show catOf 36 = CC.MathSwitch ∧ catOf 36 = CC.MathSwitch; decide

theorem tokOK_mathGroupBegin (prev : Option Ch) (p : Nat) (w : Str) :
    TokOK prev ⟨[92, 40], p, .MathGroupBegin⟩ w := by
  show catOf 92 = CC.Escape ∧ catOf 40 = CC.ParenBegin; decide

theorem tokOK_mathGroupEnd (prev : Option Ch) (p : Nat) (w : Str) :
    TokOK prev ⟨[92, 41], p, .MathGroupEnd⟩ w := by
  show catOf 92 = CC.Escape ∧ catOf 41 = CC.ParenEnd; decide

theorem tokOK_displayMathGroupBegin (prev : Option Ch) (p : Nat) (w : Str) :
    TokOK prev ⟨[92, 91], p, .DisplayMathGroupBegin⟩ w := by
  show catOf 92 = CC.Escape ∧ catOf 91 = CC.BracketBegin; decide

theorem tokOK_displayMathGroupEnd (prev : Option Ch) (p : Nat) (w : Str) :
    TokOK prev ⟨[92, 93], p, .DisplayMathGroupEnd⟩ w := by
  show catOf 92 = CC.Escape ∧ catOf 93 = CC.BracketEnd; decide

/-- `$` not followed by another `$`. -/
theorem tokOK_mathSwitch (prev : Option Ch) (p : Nat) {w : Str}
    (hw : ∀ c ∈ w.head?, catOf c ≠ .MathSwitch) : TokOK prev ⟨[36], p, .MathSwitch⟩ w := by
  show catOf 36 = CC.MathSwitch ∧ _
  exact ⟨by decide, hw⟩

/-- `\` followed by nothing, or by a character that is neither escapable nor a bracket or
parenthesis (in practice: a letter). -/
theorem tokOK_escape (prev : Option Ch) (p : Nat) {w : Str}
    (hw : ∀ c ∈ w.head?, isEscapable (catOf c) = false ∧ asymSwitch (catOf c) = none) :
    TokOK prev ⟨[92], p, .Escape⟩ w := by
  show catOf 92 = CC.Escape ∧ _
  exact ⟨by decide, hw⟩

theorem lastD_append (a b : Str) (d : Option Ch) : lastD (a ++ b) d = lastD b (lastD a d) := by
  induction a generalizing d with
  | nil => rfl
  | cons x a ih => simp only [List.cons_append, lastD_cons, ih]

theorem Separated.suffix {prev : Option Ch} {pre l : List Tok} (h : Separated prev (pre ++ l)) :
    Separated (lastD (flat pre) prev) l := by
  induction pre generalizing prev with
  | nil => exact h
  | cons t pre ih =>
    obtain ⟨_, _, h3⟩ := h
    simp only [flat, lastD_append]
    exact ih h3

/-- Two adjacent `Text` tokens are never separated: the tokenizer would have merged them. -/
theorem not_separated_text_text {prev : Option Ch} {pre : List Tok} {a b : Tok} {r : List Tok}
    (ha : a.cat = .Text) (hb : b.cat = .Text) : ¬ Separated prev (pre ++ a :: b :: r) := by
  intro h
  obtain ⟨_, hoka, hsb⟩ := h.suffix
  obtain ⟨_, hokb, _⟩ := hsb
  simp only [TokOK, ha, hb, TokOK'] at hoka hokb
  obtain ⟨c0, body, hbt, _⟩ := txtMany_iff.1 hokb.1
  have h1 := hoka.2.2.2 c0 (by simp [flat, hbt])
  have h2 := hokb.2.1 c0 (by simp [hbt])
  rw [h1] at h2
  cases h2

end TexSoup
