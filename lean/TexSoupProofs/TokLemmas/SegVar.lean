import TexSoupProofs.TokLemmas.NameVar
/-!
# Replacing the tokens between two delimiters by one text token keeps a list separated

`SVar ts ts'`: `ts'` is `ts` where, at some places, the tokens between a left delimiter `l` (an
opening brace or bracket, or a closing brace) and a right delimiter `rt` (a closing brace or
bracket, or a backslash) have been replaced by one `Text` token whose text is `goodText`. If
`ts` is `Separated` and no command name is a bare sizing prefix, `ts'` is `Separated`
(`SVar.separated`): the delimiters are one-character tokens whatever surrounds them, the new
text follows something that is no backslash and is followed by a character at which texts end.
-/
namespace TexSoup

def leftDelim (l : Tok) : Prop := l.cat = .GroupBegin ∨ l.cat = .BracketBegin ∨ l.cat = .GroupEnd
def rightDelim (r : Tok) : Prop := r.cat = .GroupEnd ∨ r.cat = .BracketEnd ∨ r.cat = .Escape

inductive SVar : List Tok → List Tok → Prop
  | nil : SVar [] []
  | same (t : Tok) {r r' : List Tok} : SVar r r' → SVar (t :: r) (t :: r')
  | seg (l : Tok) (mid : List Tok) (tk rt : Tok) {r r' : List Tok} : leftDelim l → rightDelim rt →
      tk.cat = .Text → goodText tk.text = true → SVar r r' →
      SVar (l :: (mid ++ rt :: r)) (l :: tk :: rt :: r')

theorem SVar.refl : ∀ ts : List Tok, SVar ts ts
  | [] => .nil
  | t :: r => .same t (SVar.refl r)

theorem SVar.append {a a' b b' : List Tok} (h1 : SVar a a') (h2 : SVar b b') : SVar (a ++ b) (a' ++ b') := by
  induction h1 with
  | nil => exact h2
  | same t _ ih => exact .same t ih
  | @seg l mid tk rt r r' h3 h4 h5 h6 _ ih =>
    have := SVar.seg l mid tk rt h3 h4 h5 h6 ih
    simpa using this

theorem SVar.head {prev : Option Ch} {ts ts' : List Tok} (h : SVar ts ts') (hs : Separated prev ts) :
    (flat ts').head? = (flat ts).head? := by
  cases h with
  | nil => rfl
  | same t _ => rw [flat_head_cons t _ hs.1, flat_head_cons t _ hs.1]
  | seg l mid tk rt _ _ _ _ _ => rw [flat_head_cons l _ hs.1, flat_head_cons l _ hs.1]

theorem separated_suffix : ∀ (a b : List Tok) (prev : Option Ch), Separated prev (a ++ b) →
    ∃ p, Separated p b
  | [], _, prev, h => ⟨prev, h⟩
  | _ :: a, b, _, h => separated_suffix a b _ h.2.2

/-- a one-character delimiter token: its text, and that nothing around it matters -/
theorem delim_text {prev : Option Ch} {t : Tok} {w : Str} (h : TokOK prev t w)
    (hc : t.cat = .GroupBegin ∨ t.cat = .BracketBegin ∨ t.cat = .GroupEnd ∨ t.cat = .BracketEnd ∨
      t.cat = .Escape) : ∃ c0, t.text = [c0] ∧ catOf c0 ≠ .Letter ∧
      (t.cat = .GroupBegin ∨ t.cat = .BracketBegin ∨ t.cat = .GroupEnd → catOf c0 ≠ .Escape) ∧
      (t.cat = .GroupEnd ∨ t.cat = .BracketEnd ∨ t.cat = .Escape → isStringStop (catOf c0) = true) := by
  unfold TokOK at h
  rcases hc with hc | hc | hc | hc | hc <;> rw [hc] at h <;> simp only [TokOK'] at h
  · obtain ⟨c0, ht, h0⟩ := txtOne_iff.1 h
    refine ⟨c0, ht, (by rw [h0]; decide), (fun _ => by rw [h0]; decide), ?_⟩
    intro h'
    rcases h' with h' | h' | h' <;> rw [hc] at h' <;> cases h'
  · obtain ⟨c0, ht, h0⟩ := txtOne_iff.1 h
    refine ⟨c0, ht, (by rw [h0]; decide), (fun _ => by rw [h0]; decide), ?_⟩
    intro h'
    rcases h' with h' | h' | h' <;> rw [hc] at h' <;> cases h'
  · obtain ⟨c0, ht, h0⟩ := txtOne_iff.1 h
    exact ⟨c0, ht, (by rw [h0]; decide), (fun _ => by rw [h0]; decide), (fun _ => by rw [h0]; rfl)⟩
  · obtain ⟨c0, ht, h0⟩ := txtOne_iff.1 h
    refine ⟨c0, ht, (by rw [h0]; decide), ?_, (fun _ => by rw [h0]; rfl)⟩
    intro h'
    rcases h' with h' | h' | h' <;> rw [hc] at h' <;> cases h'
  · obtain ⟨c0, ht, h0, _⟩ := txtOne_iff.1 h
    refine ⟨c0, ht, (by rw [h0]; decide), ?_, (fun _ => by rw [h0]; rfl)⟩
    intro h'
    rcases h' with h' | h' | h' <;> rw [hc] at h' <;> cases h'

/-- a left delimiter does not look at what follows -/
theorem leftDelim_tokOK {prev : Option Ch} {l : Tok} {w w' : Str} (hl : leftDelim l)
    (h : TokOK prev l w) : TokOK prev l w' := by
  unfold TokOK at h ⊢
  rcases hl with hc | hc | hc <;> rw [hc] at h ⊢ <;> simp only [TokOK'] at h ⊢ <;> exact h

/-- a right delimiter does not look at what precedes -/
theorem rightDelim_tokOK {prev prev' : Option Ch} {t : Tok} {w : Str} (hr : rightDelim t)
    (h : TokOK prev t w) : TokOK prev' t w := by
  unfold TokOK at h ⊢
  rcases hr with hc | hc | hc <;> rw [hc] at h ⊢ <;> simp only [TokOK'] at h ⊢ <;> exact h

/-- **Replacing delimited segments by text tokens keeps a token list separated.** -/
theorem SVar.separated {ts ts' : List Tok} (h : SVar ts ts') : ∀ {prev : Option Ch},
    Separated prev ts → (∀ t ∈ ts, t.cat = .CommandName → t.text ∉ Tables.sizePrefix) →
    Separated prev ts' := by
  induction h with
  | nil => intro _ _ _; trivial
  | @same t r r' hr ih =>
    intro prev hs hns
    obtain ⟨hne, hok, hrest⟩ := hs
    have hh := hr.head hrest
    refine ⟨hne, ?_, ih hrest (fun u hu => hns u (List.mem_cons_of_mem _ hu))⟩
    exact tokOK'_transfer hok hh (fun hc => by
      obtain ⟨hL, hw⟩ := commandName_chars hc hok
      exact firstMatch_none_of_not_sizing hL (by rw [hh]; exact hw) (hns t List.mem_cons_self hc))
  | @seg l mid tk rt r r' hl hrt htk hgood hr ih =>
    intro prev hs hns
    obtain ⟨hne, hok, hrest⟩ := hs
    obtain ⟨p, hsuf⟩ := separated_suffix mid (rt :: r) _ hrest
    obtain ⟨hrne, hrok, hrrest⟩ := hsuf
    have hh := hr.head hrrest
    -- the delimiters
    obtain ⟨c0, hl0, _, hlesc, _⟩ := delim_text hok (by
      rcases hl with h | h | h
      · exact .inl h
      · exact .inr (.inl h)
      · exact .inr (.inr (.inl h)))
    obtain ⟨c1, hr1, _, _, hstop⟩ := delim_text hrok (by
      rcases hrt with h | h | h
      · exact .inr (.inr (.inl h))
      · exact .inr (.inr (.inr (.inl h)))
      · exact .inr (.inr (.inr (.inr h))))
    have hpe : prevEsc (lastD l.text prev) = false := by
      have := hlesc (by rcases hl with h | h | h <;> simp [h])
      simp [hl0, lastD, prevEsc, this]
    -- the new text token
    cases htx : tk.text with
    | nil => rw [htx] at hgood; simp [goodText] at hgood
    | cons c' body' =>
      rw [htx] at hgood
      simp only [goodText, Bool.and_eq_true, Bool.not_eq_true', List.all_eq_true] at hgood
      obtain ⟨⟨hign, hstops⟩, hsp⟩ := hgood
      have hne' : tk.text ≠ [] := by rw [htx]; simp
      have hoktk : TokOK (lastD l.text prev) tk (flat (rt :: r')) := by
        unfold TokOK
        rw [htk, htx]
        simp only [TokOK', TxtMany]
        refine ⟨⟨hign, fun hp => by rw [hpe] at hp; cases hp⟩, hstops, hsp, ?_⟩
        intro c hc
        simp only [flat, hr1, List.cons_append, List.nil_append, List.head?_cons, Option.mem_def,
          Option.some.injEq] at hc
        subst hc
        exact hstop (by rcases hrt with h | h | h <;> simp [h])
      have hokrt : TokOK (lastD tk.text (lastD l.text prev)) rt (flat r') :=
        rightDelim_tokOK hrt (tokOK'_transfer hrok hh (fun hc => by
          rcases hrt with h | h | h <;> rw [h] at hc <;> cases hc))
      refine ⟨hne, leftDelim_tokOK hl hok, hne', hoktk, hrne, hokrt, ?_⟩
      have hrec := ih hrrest (fun u hu => hns u (by
        simp only [List.mem_cons, List.mem_append]
        exact .inr (.inr (.inr hu))))
      rw [lastD_ne_nil _ p hrne]
      exact hrec

/-- … and still no command name is a bare sizing prefix. -/
theorem SVar.noBare {ts ts' : List Tok} (h : SVar ts ts') :
    (∀ t ∈ ts, t.cat = .CommandName → t.text ∉ Tables.sizePrefix) →
    ∀ t ∈ ts', t.cat = .CommandName → t.text ∉ Tables.sizePrefix := by
  induction h with
  | nil => intro _ t ht; cases ht
  | @same t r r' _ ih =>
    intro hns u hu
    rcases List.mem_cons.1 hu with rfl | hu
    · exact hns u List.mem_cons_self
    · exact ih (fun v hv => hns v (List.mem_cons_of_mem _ hv)) u hu
  | @seg l mid tk rt r r' _ _ htk _ _ ih =>
    intro hns u hu
    rcases List.mem_cons.1 hu with rfl | hu
    · exact hns u List.mem_cons_self
    · rcases List.mem_cons.1 hu with rfl | hu
      · intro hc; rw [htk] at hc; cases hc
      · rcases List.mem_cons.1 hu with rfl | hu
        · exact hns u (by simp)
        · exact ih (fun v hv => hns v (by
            simp only [List.mem_cons, List.mem_append]
            exact .inr (.inr (.inr hv)))) u hu

end TexSoup
