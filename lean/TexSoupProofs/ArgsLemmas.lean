import TexSoupModel.Args
import TexSoupProofs.ArgsSpec
/-!
# Lemmas about the `TexArgs` model

Built-in list primitives (`pyInsert`, `pyIndex`, `pySlice`, `idxOfTxt`) in `take`/`drop`/count
form, the invariant `Inv` and its preservation by every method. Used by
`TexSoupProofs/Properties/C18.lean`.
-/
namespace TexSoup
namespace ArgsLemmas
open ArgsSpec

/-! ## Lists -/

theorem insertIdx_eq_take_drop {α : Type} (l : List α) (k : Nat) (x : α) (h : k ≤ l.length) :
    l.insertIdx k x = l.take k ++ x :: l.drop k := by
  induction l generalizing k with
  | nil => simp at h; subst h; simp
  | cons a r ih =>
    cases k with
    | zero => simp
    | succ k => simp at h; simp [List.insertIdx_succ_cons, ih k h]

theorem countP_insertIdx {α : Type} (p : α → Bool) (l : List α) (k : Nat) (x : α)
    (h : k ≤ l.length) :
    (l.insertIdx k x).countP p = l.countP p + if p x then 1 else 0 := by
  rw [(List.perm_insertIdx x l h).countP_eq, List.countP_cons]

theorem countP_eraseIdx {α : Type} (p : α → Bool) (l : List α) (k : Nat) (h : k < l.length) :
    (l.eraseIdx k).countP p = l.countP p - if p l[k] then 1 else 0 := by
  have h1 : l.countP p = (l.take k ++ l[k] :: l.drop (k + 1)).countP p := by
    rw [List.getElem_cons_drop h, List.take_append_drop]
  rw [List.eraseIdx_eq_take_drop_succ, h1]
  simp only [List.countP_append, List.countP_cons]
  omega

theorem countP_pos_of_mem {α : Type} (p : α → Bool) {l : List α} {a : α} (ha : a ∈ l)
    (hp : p a = true) : 0 < l.countP p :=
  List.countP_pos_iff.mpr ⟨a, ha, hp⟩

/-! ## `idxOfTxt` -/

theorem idxOfTxt_none {α : Type} (f : α → Str) (t : Str) (l : List α) :
    idxOfTxt f t l = none ↔ t ∉ l.map f := by
  induction l with
  | nil => simp [idxOfTxt]
  | cons a r ih =>
    by_cases h : f a = t
    · simp [idxOfTxt, h]
    · have h' : ¬ t = f a := fun e => h e.symm
      simp [idxOfTxt, h, h', ih]

theorem idxOfTxt_some {α : Type} (f : α → Str) (t : Str) (l : List α) (j : Nat)
    (h : idxOfTxt f t l = some j) : ∃ hj : j < l.length, f l[j] = t := by
  induction l generalizing j with
  | nil => simp [idxOfTxt] at h
  | cons a r ih =>
    by_cases ha : f a = t
    · simp [idxOfTxt, ha] at h; subst h; exact ⟨by simp, by simpa using ha⟩
    · simp [idxOfTxt, ha] at h
      rcases h with ⟨j', hj', rfl⟩
      rcases ih j' hj' with ⟨h1, h2⟩
      exact ⟨by simp; omega, by simpa using h2⟩

theorem idxOfTxt_isSome_of_mem {α : Type} (f : α → Str) (t : Str) (l : List α)
    (h : t ∈ l.map f) : ∃ j, idxOfTxt f t l = some j := by
  cases hj : idxOfTxt f t l with
  | none => exact absurd h ((idxOfTxt_none f t l).mp hj)
  | some j => exact ⟨j, rfl⟩

/-! ## `idxOfId`, `indexAll` -/

theorem isObj_eq_of_isObj {it : ArgItem} {a : Oid} (h : it.isObj a = true) (id : Oid) :
    it.isObj id = (a == id) := by
  cases it with
  | ws s => simp [ArgItem.isObj] at h
  | grp o =>
    simp only [ArgItem.isObj, beq_iff_eq] at h
    simp [ArgItem.isObj, h]

theorem idxOfId_some (id : Oid) (l : List ArgItem) (j : Nat) (h : idxOfId id l = some j) :
    ∃ hj : j < l.length, l[j].isObj id = true := by
  induction l generalizing j with
  | nil => simp [idxOfId] at h
  | cons a r ih =>
    by_cases ha : a.isObj id = true
    · simp [idxOfId, ha] at h; subst h; exact ⟨by simp, by simpa using ha⟩
    · simp [idxOfId, ha] at h
      rcases h with ⟨j', hj', rfl⟩
      rcases ih j' hj' with ⟨h1, h2⟩
      exact ⟨by simp; omega, by simpa using h2⟩

theorem idxOfId_isSome_of_pos (id : Oid) (l : List ArgItem)
    (h : 0 < l.countP (ArgItem.isObj id)) : ∃ j, idxOfId id l = some j := by
  induction l with
  | nil => simp at h
  | cons a r ih =>
    by_cases ha : a.isObj id = true
    · exact ⟨0, by simp [idxOfId, ha]⟩
    · have : 0 < r.countP (ArgItem.isObj id) := by
        rw [List.countP_cons] at h; simpa [ha] using h
      rcases ih this with ⟨j, hj⟩
      exact ⟨j + 1, by simp [idxOfId, ha, hj]⟩

/-- If the object is in `.all`, `__index_all` finds an entry that *is* it. -/
theorem indexAll_of_pos (o : Obj) (all : List ArgItem)
    (h : 0 < all.countP (ArgItem.isObj o.id)) :
    ∃ j, indexAll o all = some j ∧ ∃ hj : j < all.length, all[j].isObj o.id = true := by
  rcases idxOfId_isSome_of_pos _ _ h with ⟨j, hj⟩
  exact ⟨j, by simp [indexAll, hj], idxOfId_some _ _ _ hj⟩

/-! ## Python index arithmetic -/

theorem pyClampInsert_le (n : Nat) (i : Int) : pyClampInsert n i ≤ n := by
  unfold pyClampInsert; split <;> omega

/-- Clamping is idempotent: `list.insert` re-clamping the already clamped index of the
repaired code changes nothing. -/
theorem pyClampInsert_clamped (n : Nat) (i : Int) :
    pyClampInsert n (if i < 0 then max ((n : Int) + i) 0 else min i n) = pyClampInsert n i := by
  unfold pyClampInsert; split <;> split <;> omega

theorem pyClampInsert_len (n : Nat) : pyClampInsert n (n : Int) = n := by
  unfold pyClampInsert; split <;> omega

theorem pyInsert_eq_spec (l : List Obj) (i : Int) (e : Obj) :
    pyInsert l i e = specInsert l i e := by
  unfold pyInsert specInsert
  rw [insertIdx_eq_take_drop _ _ _ (pyClampInsert_le _ _)]
  have : pyClampInsert l.length i =
      (if i < 0 then ((l.length : Int) + i).toNat else min i.toNat l.length) := by
    unfold pyClampInsert; split <;> omega
  rw [this]

theorem pyIndex_eq_spec (n : Nat) (i : Int) : pyIndex n i = specIdx n i := by
  unfold pyIndex specIdx
  by_cases h : i < 0
  · by_cases h2 : -i ≤ (n : Int)
    · have h3 : 0 ≤ i + (n : Int) ∧ i + (n : Int) < n := by omega
      rw [if_pos h, if_pos h2]
      simp only [if_pos h, if_pos h3]
      congr 1; omega
    · have h3 : ¬ (0 ≤ i + (n : Int) ∧ i + (n : Int) < n) := by omega
      rw [if_pos h, if_neg h2]
      simp only [if_pos h, if_neg h3]
  · by_cases h2 : i < (n : Int)
    · have h3 : 0 ≤ i ∧ i < (n : Int) := by omega
      rw [if_neg h, if_pos h2]
      simp only [if_neg h, if_pos h3]
    · have h3 : ¬ (0 ≤ i ∧ i < (n : Int)) := by omega
      rw [if_neg h, if_neg h2]
      simp only [if_neg h, if_neg h3]

theorem specIdx_lt {n : Nat} {i : Int} {k : Nat} (h : specIdx n i = some k) : k < n := by
  unfold specIdx at h
  by_cases h1 : i < 0 <;> simp [h1] at h <;> omega

theorem pyIndex_lt {n : Nat} {i : Int} {k : Nat} (h : pyIndex n i = some k) : k < n :=
  specIdx_lt (pyIndex_eq_spec n i ▸ h)

theorem pySliceBound_eq_spec (n d : Nat) (b : Option Int) :
    pySliceBound n d b = (b.map (specBound n)).getD d := by
  cases b with
  | none => rfl
  | some i =>
    simp only [pySliceBound, specBound, Option.map, Option.getD]
    split <;> omega

theorem pySlice_eq_spec (l : List Obj) (lo hi : Option Int) :
    pySlice l lo hi = specSlice l lo hi := by
  simp only [pySlice, specSlice, pySliceBound_eq_spec, List.drop_take]

theorem specRemove_eq (t : Str) (l : List Obj) :
    specRemove t l = (idxOfTxt (fun o : Obj => ser o.e) t l).map (l.eraseIdx ·) := by
  induction l with
  | nil => rfl
  | cons a r ih =>
    by_cases h : ser a.e = t
    · simp [specRemove, idxOfTxt, h]
    · simp only [specRemove, idxOfTxt, h, if_false, ih]
      cases idxOfTxt (fun o : Obj => ser o.e) t r <;> simp

theorem serL_eq_flatten (l : List Obj) :
    serL (l.map Obj.e) = (l.map fun o => ser o.e).flatten := by
  induction l with
  | nil => rfl
  | cons a r ih => simp [serL, ih]

/-! ## Coercion -/

theorem isPrefix_single (c : Ch) (s : Str) : isPrefix [c] s = (s.head? == some c) := by
  cases s with
  | nil => rfl
  | cons b l =>
    simp only [isPrefix, List.head?_cons, Bool.and_true]
    by_cases h : c = b
    · subst h; simp
    · have h1 : (c == b) = false := by simpa using h
      have h2 : (b == c) = false := by simpa using fun e : b = c => h e.symm
      simp [h1, h2]

theorem endsWith_single (c : Ch) (s : Str) : endsWith [c] s = (s.getLast? == some c) := by
  simp [endsWith, isPrefix_single, List.head?_reverse]

theorem parseGroup_eq_spec (s : Str) : parseGroup s = specGroup s := by
  simp only [parseGroup, allGKinds, parseGroupWith, isPrefix_single, endsWith_single,
    GKind.open, GKind.close, List.length_cons, List.length_nil]
  cases s with
  | nil => simp [specGroup]
  | cons a t =>
    have hlast : ∀ c : Nat, c ≠ a → ((a :: t).getLast? = some c ↔ t.getLast? = some c) := by
      intro c hc
      cases t with
      | nil => simp; exact fun e => hc e.symm
      | cons b u => simp [List.getLast?_cons_cons]
    have hslice : (List.take t.length (a :: t)).tail = t.dropLast := by
      cases t with
      | nil => rfl
      | cons b u => simp [List.dropLast_eq_take]
    by_cases h1 : a = 91
    · subst h1
      by_cases h2 : t.getLast? = some 93
      · have := (hlast 93 (by decide)).mpr h2
        simp only [specGroup, h2, if_true]
        simp [this, hslice]
      · have : ¬ (91 :: t).getLast? = some 93 := fun h => h2 ((hlast 93 (by decide)).mp h)
        simp [specGroup, h2, this]
    · by_cases h3 : a = 123
      · subst h3
        by_cases h2 : t.getLast? = some 125
        · have := (hlast 125 (by decide)).mpr h2
          simp only [specGroup, h2, if_true]
          simp [this, hslice]
        · have : ¬ (123 :: t).getLast? = some 125 :=
            fun h => h2 ((hlast 125 (by decide)).mp h)
          simp [specGroup, h2, this]
      · have : specGroup (a :: t) = none := by
          unfold specGroup; split <;> simp_all
        simp [this, h1, h3]

theorem coerceStr_eq_spec (n : Nat) (s : Str) : coerceStr n s = specStr n s := by
  simp only [coerceStr, specStr, parseGroup_eq_spec]
  cases specGroup s <;> rfl

theorem coerce_eq_spec (n : Nat) (a : ArgIn) : coerce n a = specVal n a := by
  cases a with
  | str s => exact coerceStr_eq_spec n s
  | grp o =>
    rcases o with ⟨id, e⟩
    cases e <;> simp [coerce, specVal, coerceStr_eq_spec]

theorem listed_eq_spec (it : ArgItem) : listed it = specListed it := by
  cases it <;> rfl

/-! ## Index look-ups that `insert` performs -/

theorem pyIndex_nonneg {n : Nat} {i : Int} (h0 : 0 ≤ i) (h1 : i < n) :
    pyIndex n i = some i.toNat := by
  unfold pyIndex
  rw [if_neg (by omega), if_pos h1]

theorem pyIndex_neg {n : Nat} {i : Int} (h0 : i < 0) (h1 : -i ≤ n) :
    pyIndex n i = some ((n : Int) + i).toNat := by
  unfold pyIndex
  rw [if_pos h0, if_pos h1]

/-- `self[k - 1]` for `0 ≤ k ≤ len`, `len ≥ 1`, is an item of the list (`self[-1]` if `k = 0`). -/
theorem before_in_same {α : Type} (l : List α) (k : Nat) (hk : k ≤ l.length) (hl : 1 ≤ l.length) :
    ∃ b ∈ l, pyGet l ((k : Int) - 1) = some b := by
  unfold pyGet
  cases k with
  | zero =>
    have : pyIndex l.length (((0 : Nat) : Int) - 1) = some (l.length - 1) := by
      rw [pyIndex_neg (by omega) (by omega)]; congr 1; omega
    rw [this]
    have hlt : l.length - 1 < l.length := by omega
    exact ⟨l[l.length - 1], List.getElem_mem hlt, by simp [List.getElem?_eq_getElem hlt]⟩
  | succ k =>
    have : pyIndex l.length (((k + 1 : Nat) : Int) - 1) = some k := by
      rw [pyIndex_nonneg (by omega) (by omega)]; congr 1; omega
    rw [this]
    have hlt : k < l.length := by omega
    exact ⟨l[k], List.getElem_mem hlt, by simp [List.getElem?_eq_getElem hlt]⟩

/-- After `list.insert(k, e)` with `0 ≤ k ≤ len`, `len ≥ 1`, the item `self[k - 1]` is an
*old* item: the left neighbour of `e`, or for `k = 0` the last item. -/
theorem before_in_old {α : Type} (l : List α) (k : Nat) (e : α) (hk : k ≤ l.length)
    (hl : 1 ≤ l.length) :
    ∃ b ∈ l, pyGet (l.insertIdx k e) ((k : Int) - 1) = some b := by
  unfold pyGet
  have hlen : (l.insertIdx k e).length = l.length + 1 := by
    rw [List.length_insertIdx, if_pos hk]
  rw [hlen]
  cases k with
  | zero =>
    have : pyIndex (l.length + 1) (((0 : Nat) : Int) - 1) = some l.length := by
      rw [pyIndex_neg (by omega) (by omega)]; congr 1; omega
    rw [this]
    have hlt : l.length - 1 < l.length := by omega
    refine ⟨l[l.length - 1], List.getElem_mem hlt, ?_⟩
    have h1 : (e :: l)[l.length]? = l[l.length - 1]? := by
      cases l with
      | nil => simp at hl
      | cons a r => simp
    simp only [List.insertIdx_zero, h1]
    exact List.getElem?_eq_getElem hlt
  | succ k =>
    have : pyIndex (l.length + 1) (((k + 1 : Nat) : Int) - 1) = some k := by
      rw [pyIndex_nonneg (by omega) (by omega)]; congr 1; omega
    simp only [this]
    have hlt : k < l.length := by omega
    refine ⟨l[k], List.getElem_mem hlt, ?_⟩
    rw [List.getElem?_insertIdx, if_pos (by omega)]
    exact List.getElem?_eq_getElem hlt

/-- The clamped index of the repaired `insert`, as a natural number. -/
theorem clamp_cast (n : Nat) (i : Int) :
    (if i < 0 then max ((n : Int) + i) 0 else min i (n : Int)) = ((pyClampInsert n i : Nat) : Int) := by
  unfold pyClampInsert; split <;> omega

theorem pyClampInsert_cast (n k : Nat) (h : k ≤ n) : pyClampInsert n (k : Int) = k := by
  unfold pyClampInsert; split <;> omega

/-! ## The invariant -/

theorem inv_empty (n : Nat) : Inv (ArgsSt.empty n) :=
  ⟨by simp [ArgsSt.empty], by simp [ArgsSt.empty]⟩

/-- A list element is in `.all` as an object. -/
theorem obj_in_all {st : ArgsSt} (h : Inv st) {o : Obj} (ho : o ∈ st.lst) :
    0 < st.all.countP (ArgItem.isObj o.id) :=
  Nat.lt_of_lt_of_le (countP_pos_of_mem _ ho (by simp)) (h.objs o.id)

/-- The counting effect of adding `it` to `.all` somewhere. -/
def AllAdds (all all' : List ArgItem) (it : ArgItem) : Prop :=
  (∀ id : Oid, all'.countP (ArgItem.isObj id) =
    all.countP (ArgItem.isObj id) + if it.isObj id then 1 else 0) ∧
  (∀ x, x ∈ all' → x = it ∨ x ∈ all)

/-- The book-keeping of `insert` succeeds whenever the look-up it performs does, and it adds
exactly the new item. -/
theorem bookkeepWith_ok (find : Obj → List ArgItem → Option Nat) (lst' : List Obj)
    (all : List ArgItem) (k : Nat) (it : ArgItem) (hk : k ≤ lst'.length)
    (h : 2 ≤ lst'.length → ∃ b j, pyGet lst' ((k : Int) - 1) = some b ∧ find b all = some j ∧
      j < all.length) :
    ∃ all', Args.bookkeepWith find lst' all (k : Int) it = (all', .none) ∧ AllAdds all all' it := by
  unfold Args.bookkeepWith
  by_cases hl : lst'.length ≤ 1
  · rw [if_pos hl]
    refine ⟨_, rfl, ?_, ?_⟩
    · intro id; simp [List.countP_append, List.countP_cons]
    · intro x hx; simp at hx; rcases hx with hx | hx
      · exact Or.inr hx
      · exact Or.inl hx
  · rw [if_neg hl]
    have hgt : ¬ ((k : Int) > (lst'.length : Int)) := by omega
    simp only [hgt, if_false]
    rcases h (by omega) with ⟨b, j, hb, hj, hjlt⟩
    simp only [hb, hj]
    refine ⟨_, rfl, ?_, ?_⟩
    · intro id
      have hc : pyClampInsert all.length ((j : Int) + 1) = j + 1 := by
        have := pyClampInsert_cast all.length (j + 1) (by omega)
        simpa using this
      unfold pyInsert
      rw [hc, countP_insertIdx _ _ _ _ (by omega)]
    · intro x hx
      unfold pyInsert at hx
      exact (List.mem_insertIdx (pyClampInsert_le _ _)).mp hx

theorem bookkeep_ok (lst' : List Obj) (all : List ArgItem) (k : Nat) (it : ArgItem)
    (hk : k ≤ lst'.length)
    (h : 2 ≤ lst'.length → ∃ b, pyGet lst' ((k : Int) - 1) = some b ∧
      0 < all.countP (ArgItem.isObj b.id)) :
    ∃ all', Args.bookkeep lst' all (k : Int) it = (all', .none) ∧ AllAdds all all' it := by
  refine bookkeepWith_ok indexAll lst' all k it hk (fun h2 => ?_)
  rcases h h2 with ⟨b, hb, hpos⟩
  rcases indexAll_of_pos b all hpos with ⟨j, hj, hjlt, _⟩
  exact ⟨b, j, hb, hj, hjlt⟩

theorem inv_of_adds_listed {st : ArgsSt} (h : Inv st) {all' : List ArgItem} {o : Obj}
    (k : Nat) (hk : k ≤ st.lst.length) (he : isArgObj o.e = true)
    (ha : AllAdds st.all all' (.grp o)) (n : Nat) : Inv ⟨st.lst.insertIdx k o, all', n⟩ := by
  constructor
  · intro x hx
    rcases (List.mem_insertIdx hk).mp hx with rfl | hx
    · exact he
    · exact h.args x hx
  · intro id
    simp only
    rw [countP_insertIdx _ _ _ _ hk, ha.1 id]
    have := h.objs id
    by_cases hx : o.id = id <;> simp [ArgItem.isObj, hx] <;> omega

theorem inv_of_adds_unlisted {st : ArgsSt} (h : Inv st) {all' : List ArgItem} {it : ArgItem}
    (ha : AllAdds st.all all' it) (n : Nat) : Inv ⟨st.lst, all', n⟩ := by
  constructor
  · exact h.args
  · intro id
    have := h.objs id
    simp only
    rw [ha.1 id]
    omega

theorem inv_erase_both {st : ArgsSt} (h : Inv st) (k j : Nat) (hk : k < st.lst.length)
    (hj : j < st.all.length) (heq : st.all[j].isObj st.lst[k].id = true) (n : Nat) :
    Inv ⟨st.lst.eraseIdx k, st.all.eraseIdx j, n⟩ := by
  constructor
  · intro x hx; exact h.args x (List.mem_of_mem_eraseIdx hx)
  · intro id
    simp only
    rw [countP_eraseIdx _ _ _ hk, countP_eraseIdx _ _ _ hj, isObj_eq_of_isObj heq id]
    have := h.objs id
    omega

theorem inv_reverse {st : ArgsSt} (h : Inv st) (n : Nat) :
    Inv ⟨st.lst.reverse, st.all.reverse, n⟩ := by
  constructor
  · intro x hx; exact h.args x (List.mem_reverse.mp hx)
  · intro id
    simp only [List.countP_reverse]
    exact h.objs id

theorem inv_edit {st : ArgsSt} (h : Inv st) (id : Oid) (e' : Expr) (he : isArgObj e' = true) :
    Inv (Args.editObj st id e') := by
  constructor
  · intro o ho
    simp only [Args.editObj, List.mem_map] at ho
    rcases ho with ⟨x, hx, rfl⟩
    unfold Args.editObjOf
    split
    · exact he
    · exact h.args x hx
  · intro i
    have h1 : ∀ o : Obj, ((Args.editObjOf id e' o).id == i) = (o.id == i) := by
      intro o; unfold Args.editObjOf; split <;> rfl
    have e1 : ((fun o : Obj => o.id == i) ∘ Args.editObjOf id e') = fun o : Obj => o.id == i :=
      funext h1
    have e2 : (ArgItem.isObj i ∘ Args.editItemOf id e') = ArgItem.isObj i := by
      funext it
      cases it with
      | ws s => rfl
      | grp o => simp only [Function.comp, Args.editItemOf, ArgItem.isObj]; exact h1 o
    simp only [Args.editObj, List.countP_map, e1, e2]
    exact h.objs i

theorem inv_next {st : ArgsSt} (h : Inv st) (n : Nat) : Inv ⟨st.lst, st.all, n⟩ :=
  ⟨h.args, h.objs⟩

/-! ## Characterisation of the mutators on states satisfying the invariant -/

theorem listed_some {it : ArgItem} {o : Obj} (h : listed it = some o) :
    it = .grp o ∧ isArgObj o.e = true := by
  cases it with
  | ws s => simp [listed] at h
  | grp x =>
    simp only [listed] at h
    split at h
    · next hx => simp at h; subst h; exact ⟨rfl, hx⟩
    · simp at h

/-- The list after inserting the value `it` at `i`. -/
def insLst (l : List Obj) (i : Int) (it : ArgItem) : List Obj :=
  match listed it with
  | some o => specInsert l i o
  | none => l

theorem specInsertVal_eq (s : SpecSt) (i : Int) (a : ArgIn) :
    specInsertVal s i a =
      match coerce s.2 a with
      | none => (s, .typeError)
      | some (it, n) => ((insLst s.1 i it, n), .none) := by
  unfold specInsertVal insLst
  rw [coerce_eq_spec]
  cases specVal s.2 a with
  | none => rfl
  | some r =>
    rcases r with ⟨it, n⟩
    simp only [listed_eq_spec]; cases specListed it <;> rfl

/-- `insert` on a state satisfying the invariant: either the coercion fails and nothing
happens, or the list gets the value (if it is an argument) at the clamped index, `.all`
gets it somewhere, no exception, invariant kept. -/
theorem insert_char (st : ArgsSt) (i : Int) (a : ArgIn) (h : Inv st) :
    (coerce st.next a = none ∧ Args.insert st i a = (st, .typeError)) ∨
    (∃ it n all', coerce st.next a = some (it, n) ∧
      Args.insert st i a = (⟨insLst st.lst i it, all', n⟩, .none) ∧
      AllAdds st.all all' it ∧ Inv ⟨insLst st.lst i it, all', n⟩) := by
  unfold Args.insert
  cases hc : coerce st.next a with
  | none => left; exact ⟨rfl, rfl⟩
  | some r =>
    rcases r with ⟨it, n⟩
    right
    simp only [clamp_cast]
    have hk := pyClampInsert_le st.lst.length i
    cases hl : listed it with
    | some o =>
      rcases listed_some hl with ⟨rfl, harg⟩
      have hlst : pyInsert st.lst ((pyClampInsert st.lst.length i : Nat) : Int) o =
          st.lst.insertIdx (pyClampInsert st.lst.length i) o := by
        unfold pyInsert; rw [pyClampInsert_cast _ _ hk]
      have hspec : insLst st.lst i (.grp o) = st.lst.insertIdx (pyClampInsert st.lst.length i) o := by
        unfold insLst; rw [hl]; simp only; rw [← pyInsert_eq_spec]; rfl
      simp only [hlst]
      have hlen : (st.lst.insertIdx (pyClampInsert st.lst.length i) o).length = st.lst.length + 1 := by
        rw [List.length_insertIdx, if_pos hk]
      rcases bookkeep_ok (st.lst.insertIdx (pyClampInsert st.lst.length i) o) st.all
          (pyClampInsert st.lst.length i) (.grp o) (by omega)
          (by
            intro h2
            rcases before_in_old st.lst _ o hk (by omega) with ⟨b, hb, hget⟩
            exact ⟨b, hget, obj_in_all h hb⟩) with ⟨all', hbk, hadds⟩
      refine ⟨.grp o, n, all', rfl, ?_, hadds, ?_⟩
      · rw [hbk, hspec]
      · rw [hspec]; exact inv_of_adds_listed h _ hk harg hadds n
    | none =>
      have hspec : insLst st.lst i it = st.lst := by unfold insLst; rw [hl]
      rcases bookkeep_ok st.lst st.all (pyClampInsert st.lst.length i) it hk
          (by
            intro h2
            rcases before_in_same st.lst _ hk (by omega) with ⟨b, hb, hget⟩
            exact ⟨b, hget, obj_in_all h hb⟩) with ⟨all', hbk, hadds⟩
      refine ⟨it, n, all', rfl, ?_, hadds, ?_⟩
      · rw [hbk, hspec]
      · rw [hspec]; exact inv_of_adds_unlisted h hadds n

/-- `remove` on a state satisfying the invariant: `TypeError` or `ValueError` with list and
`.all` untouched, or the first textually equal list item leaves the list and – as an object –
`.all`. -/
theorem remove_char (st : ArgsSt) (a : ArgIn) (h : Inv st) :
    (coerce st.next a = none ∧ Args.remove st a = (st, .typeError)) ∨
    (∃ it n, coerce st.next a = some (it, n) ∧ specRemove it.txt st.lst = none ∧
      Args.remove st a = (⟨st.lst, st.all, n⟩, .valueError)) ∨
    (∃ it n k j, coerce st.next a = some (it, n) ∧
      specRemove it.txt st.lst = some (st.lst.eraseIdx k) ∧
      Args.remove st a = (⟨st.lst.eraseIdx k, st.all.eraseIdx j, n⟩, .none) ∧
      Inv ⟨st.lst.eraseIdx k, st.all.eraseIdx j, n⟩) := by
  unfold Args.remove
  cases hc : coerce st.next a with
  | none => left; exact ⟨rfl, rfl⟩
  | some r =>
    rcases r with ⟨it, n⟩
    right
    simp only [specRemove_eq]
    cases hk : idxOfTxt (fun o : Obj => ser o.e) it.txt st.lst with
    | none => left; exact ⟨it, n, rfl, by simp [hk], rfl⟩
    | some k =>
      right
      rcases idxOfTxt_some _ _ _ _ hk with ⟨hklt, _⟩
      have hget : st.lst[k]? = some st.lst[k] := List.getElem?_eq_getElem hklt
      rcases indexAll_of_pos st.lst[k] st.all (obj_in_all h (List.getElem_mem hklt)) with
        ⟨j, hj, hjlt, hobj⟩
      simp only [hget, hj]
      exact ⟨it, n, k, j, rfl, by simp [hk], rfl, inv_erase_both h k j hklt hjlt hobj n⟩

/-- `pop` on a state satisfying the invariant: `IndexError` with nothing changed, or the
list loses item `k` – which the caller receives – and `.all` loses that object. -/
theorem pop_char (st : ArgsSt) (i : Int) (h : Inv st) :
    (specIdx st.lst.length i = none ∧ Args.pop st i = (st, .indexError)) ∨
    (∃ k o j, specIdx st.lst.length i = some k ∧ st.lst[k]? = some o ∧
      Args.pop st i = (⟨st.lst.eraseIdx k, st.all.eraseIdx j, st.next⟩, .item (.grp o)) ∧
      Inv ⟨st.lst.eraseIdx k, st.all.eraseIdx j, st.next⟩) := by
  unfold Args.pop
  rw [pyIndex_eq_spec]
  cases hk : specIdx st.lst.length i with
  | none => left; exact ⟨rfl, rfl⟩
  | some k =>
    right
    have hklt := specIdx_lt hk
    have hget : st.lst[k]? = some st.lst[k] := List.getElem?_eq_getElem hklt
    rcases indexAll_of_pos st.lst[k] st.all (obj_in_all h (List.getElem_mem hklt)) with
      ⟨j, hj, hjlt, hobj⟩
    simp only [hget, hj]
    exact ⟨k, st.lst[k], j, rfl, hget, rfl, inv_erase_both h k j hklt hjlt hobj _⟩

/-- The first version of `pop` against the current one: same list afterwards; where the
current one returns the list item, the old one raised `ValueError` or returned an entry of
`.all` that prints like it. -/
theorem legacy_pop_char (st : ArgsSt) (i : Int) (h : Inv st) :
    (Args.Legacy.pop st i).1.lst = (Args.pop st i).1.lst ∧
    ((Args.pop st i).2 = .indexError ∧ Args.Legacy.pop st i = (st, .indexError) ∨
     ∃ o, (Args.pop st i).2 = .item (.grp o) ∧ o ∈ st.lst ∧
       ((Args.Legacy.pop st i).2 = .valueError ∨
        ∃ r, (Args.Legacy.pop st i).2 = .item r ∧ r ∈ st.all ∧ r.txt = ser o.e)) := by
  unfold Args.Legacy.pop Args.pop
  rw [pyIndex_eq_spec]
  cases hk : specIdx st.lst.length i with
  | none => exact ⟨rfl, Or.inl ⟨rfl, rfl⟩⟩
  | some k =>
    have hklt := specIdx_lt hk
    have hget : st.lst[k]? = some st.lst[k] := List.getElem?_eq_getElem hklt
    rcases indexAll_of_pos st.lst[k] st.all (obj_in_all h (List.getElem_mem hklt)) with
      ⟨j, hj, _, _⟩
    simp only [hget, hj]
    cases ht : indexTxt st.lst[k] st.all with
    | none => exact ⟨rfl, Or.inr ⟨_, rfl, List.getElem_mem hklt, Or.inl rfl⟩⟩
    | some j' =>
      rcases idxOfTxt_some _ _ _ _ ht with ⟨hjlt, hjt⟩
      have hgetj : st.all[j']? = some st.all[j'] := List.getElem?_eq_getElem hjlt
      simp only [hgetj]
      exact ⟨trivial, Or.inr ⟨_, rfl, List.getElem_mem hklt,
        Or.inr ⟨_, rfl, List.getElem_mem hjlt, hjt⟩⟩⟩

/-! ## `extend`, the constructor, slices -/

/-- Outputs of a loop of `append`s: nothing, or the `TypeError` of a failed coercion. -/
def OutLoop : ArgsOut → SpecOut → Prop
  | .none, .none => True
  | .typeError, .typeError => True
  | _, _ => False

theorem extend_refines (st : ArgsSt) (as : List ArgIn) (h : Inv st) :
    abs (Args.extend st as).1 = (specExtend (abs st) as).1 ∧ Inv (Args.extend st as).1 ∧
    OutLoop (Args.extend st as).2 (specExtend (abs st) as).2 := by
  induction as generalizing st with
  | nil => exact ⟨rfl, h, trivial⟩
  | cons a r ih =>
    unfold Args.extend specExtend Args.append
    rw [specInsertVal_eq]
    rcases insert_char st st.lst.length a h with ⟨hc, hi⟩ | ⟨it, n, all', hc, hi, _, hinv⟩
    · simp only [abs] at hc ⊢; rw [hi, hc]; exact ⟨rfl, h, trivial⟩
    · simp only [abs] at hc ⊢; rw [hi, hc]; exact ih _ hinv

theorem coerce_grp_arg (n : Nat) {o : Obj} (he : isArgObj o.e = true) :
    coerce n (.grp o) = some (.grp o, n) := by
  rcases o with ⟨id, e⟩
  cases e <;> simp [isArgObj] at he <;> rfl

theorem insLst_append (l : List Obj) (o : Obj) (he : isArgObj o.e = true) :
    insLst l l.length (.grp o) = l ++ [o] := by
  have : ¬ ((l.length : Int) < 0) := by omega
  simp [insLst, listed, he, specInsert, this]

/-- Extending by objects that are arguments never fails, appends them in order, allocates
nothing, and puts nothing but them into `.all` – in particular `TexArgs(items)` for items
taken out of a list, and `extend` by another `TexArgs`. -/
theorem extend_args (st : ArgsSt) (es : List Obj) (h : Inv st)
    (hes : ∀ o ∈ es, isArgObj o.e = true) :
    ∃ st', Args.extend st (es.map .grp) = (st', .none) ∧ st'.lst = st.lst ++ es ∧
      st'.next = st.next ∧ Inv st' ∧
      (∀ x ∈ st'.all, x ∈ st.all ∨ ∃ o ∈ es, x = .grp o) := by
  induction es generalizing st with
  | nil => exact ⟨st, rfl, by simp, rfl, h, fun x hx => Or.inl hx⟩
  | cons e r ih =>
    have he := hes e (by simp)
    simp only [List.map_cons, Args.extend, Args.append]
    rcases insert_char st st.lst.length (.grp e) h with ⟨hc, _⟩ | ⟨it, n, all', hc, hi, hadds, hinv⟩
    · rw [coerce_grp_arg _ he] at hc; simp at hc
    · rw [coerce_grp_arg _ he] at hc
      cases hc
      rw [hi]
      simp only
      rw [insLst_append _ _ he] at hinv ⊢
      rcases ih ⟨st.lst ++ [e], all', st.next⟩ hinv (fun x hx => hes x (by simp [hx])) with
        ⟨st', h1, h2, h3, h4, h5⟩
      refine ⟨st', h1, by simp [h2], h3, h4, fun x hx => ?_⟩
      rcases h5 x hx with hx | ⟨o, ho, rfl⟩
      · rcases hadds.2 x hx with rfl | hx
        · exact Or.inr ⟨e, by simp, rfl⟩
        · exact Or.inl hx
      · exact Or.inr ⟨o, by simp [ho], rfl⟩

theorem slice_char (st : ArgsSt) (lo hi : Option Int) (h : Inv st) :
    ∃ st', Args.slice st lo hi = (st, .sliceResult st') ∧ st'.lst = specSlice st.lst lo hi ∧
      Inv st' := by
  unfold Args.slice Args.construct
  have hsub : ∀ o ∈ pySlice st.lst lo hi, isArgObj o.e = true := by
    intro e he
    unfold pySlice at he
    exact h.args e (List.mem_of_mem_take (List.mem_of_mem_drop he))
  rcases extend_args (.empty st.next) (pySlice st.lst lo hi) (inv_empty _) hsub with
    ⟨st', h1, h2, _, h3, _⟩
  rw [h1]
  exact ⟨st', rfl, by simp [h2, ArgsSt.empty, pySlice_eq_spec], h3⟩

theorem specSlice_sub (l : List Obj) (lo hi : Option Int) : ∀ o ∈ specSlice l lo hi, o ∈ l := by
  intro o ho
  unfold specSlice at ho
  exact List.mem_of_mem_drop (List.mem_of_mem_take ho)

/-- `args.extend(args[lo:hi])`: never fails, appends the slice, allocates nothing. -/
theorem extendSlice_char (st : ArgsSt) (lo hi : Option Int) (h : Inv st) :
    ∃ st', Args.extendSlice st lo hi = (st', .none) ∧
      st'.lst = st.lst ++ specSlice st.lst lo hi ∧ st'.next = st.next ∧ Inv st' ∧
      (∀ x ∈ st'.all, x ∈ st.all ∨ ∃ o ∈ st.lst, x = .grp o) := by
  unfold Args.extendSlice Args.construct
  have hsub : ∀ o ∈ pySlice st.lst lo hi, isArgObj o.e = true := by
    intro e he
    rw [pySlice_eq_spec] at he
    exact h.args e (specSlice_sub _ _ _ _ he)
  rcases extend_args (.empty st.next) (pySlice st.lst lo hi) (inv_empty _) hsub with
    ⟨src, h1, h2, _, _, _⟩
  rw [h1]
  simp only
  have hsrc : src.lst = specSlice st.lst lo hi := by simp [h2, ArgsSt.empty, pySlice_eq_spec]
  rw [hsrc]
  rcases extend_args st (specSlice st.lst lo hi) h
      (fun o ho => h.args o (specSlice_sub _ _ _ _ ho)) with ⟨st', g1, g2, g3, g4, g5⟩
  refine ⟨st', g1, g2, g3, g4, fun x hx => ?_⟩
  rcases g5 x hx with hx | ⟨o, ho, rfl⟩
  · exact Or.inl hx
  · exact Or.inr ⟨o, specSlice_sub _ _ _ _ ho, rfl⟩

/-- `args.extend(args)`: never fails, doubles the list, allocates nothing. -/
theorem extendSelf_char (st : ArgsSt) (h : Inv st) :
    ∃ st', Args.extendSelf st = (st', .none) ∧ st'.lst = st.lst ++ st.lst ∧
      st'.next = st.next ∧ Inv st' ∧ (∀ x ∈ st'.all, x ∈ st.all ∨ ∃ o ∈ st.lst, x = .grp o) :=
  extend_args st st.lst h h.args

/-- Extending by the list itself is extending by its full slice. -/
theorem extendSelf_eq_extendSlice (st : ArgsSt) (h : Inv st) :
    Args.extendSelf st = Args.extendSlice st none none := by
  unfold Args.extendSlice Args.construct Args.extendSelf
  have hl : pySlice st.lst none none = st.lst := by simp [pySlice, pySliceBound]
  rw [hl]
  rcases extend_args (.empty st.next) st.lst (inv_empty _) h.args with ⟨src, h1, h2, _, _, _⟩
  rw [h1]
  simp only
  have : src.lst = st.lst := by simp [h2, ArgsSt.empty]
  rw [this]

/-- `a.extend(b)` for a `TexArgs` `b`: never fails, appends `b`'s list, allocates nothing. -/
theorem extendBy_char (a b : ArgsSt) (ha : Inv a) (hb : Inv b) :
    ∃ a', Args.extendBy a b = (a', .none) ∧ a'.lst = a.lst ++ b.lst ∧
      a'.next = max a.next b.next ∧ Inv a' ∧
      (∀ x ∈ a'.all, x ∈ a.all ∨ ∃ o ∈ b.lst, x = .grp o) := by
  unfold Args.extendBy
  rcases extend_args (Args.syncNext a b) b.lst (inv_next ha _) hb.args with ⟨a', h1, h2, h3, h4, h5⟩
  exact ⟨a', h1, h2, h3, h4, h5⟩

theorem getItem_char (st : ArgsSt) (i : Int) :
    (specIdx st.lst.length i = none ∧ Args.getItem st i = (st, .indexError)) ∨
    (∃ k o, specIdx st.lst.length i = some k ∧ st.lst[k]? = some o ∧
      Args.getItem st i = (st, .item (.grp o))) := by
  unfold Args.getItem pyGet
  rw [pyIndex_eq_spec]
  cases hk : specIdx st.lst.length i with
  | none => left; exact ⟨rfl, rfl⟩
  | some k =>
    right
    have hklt := specIdx_lt hk
    have hget : st.lst[k]? = some st.lst[k] := List.getElem?_eq_getElem hklt
    exact ⟨k, st.lst[k], rfl, hget, by simp [hget]⟩

/-! ## One step, strongest form -/

/-- What is known about a returned item: it is the very list item. -/
def ItemRel (st : ArgsSt) (it : ArgItem) (o : Obj) : Prop :=
  it = .grp o ∧ o ∈ st.lst

theorem outRel_mono {R R' : ArgItem → Obj → Prop} (h : ∀ it e, R it e → R' it e)
    {o : ArgsOut} {s : SpecOut} (hr : OutRel R o s) : OutRel R' o s := by
  cases o <;> cases s <;> simp_all [OutRel]

theorem outLoop_toRel {R : ArgItem → Obj → Prop} {o : ArgsOut} {s : SpecOut}
    (hr : OutLoop o s) : OutRel R o s := by
  cases o <;> cases s <;> simp_all [OutRel, OutLoop]

theorem step_core (st : ArgsSt) (op : ArgsOp) (h : Inv st) :
    abs (Args.step st op).1 = (specStep (abs st) op).1 ∧ Inv (Args.step st op).1 ∧
    OutRel (ItemRel st) (Args.step st op).2 (specStep (abs st) op).2 := by
  cases op with
  | append a =>
    simp only [Args.step, Args.append, specStep]
    rw [specInsertVal_eq]
    rcases insert_char st st.lst.length a h with ⟨hc, hi⟩ | ⟨it, n, all', hc, hi, _, hinv⟩
    · simp only [abs] at hc ⊢; rw [hi, hc]; exact ⟨rfl, h, trivial⟩
    · simp only [abs] at hc ⊢; rw [hi, hc]; exact ⟨rfl, hinv, trivial⟩
  | insert i a =>
    simp only [Args.step, specStep]
    rw [specInsertVal_eq]
    rcases insert_char st i a h with ⟨hc, hi⟩ | ⟨it, n, all', hc, hi, _, hinv⟩
    · simp only [abs] at hc ⊢; rw [hi, hc]; exact ⟨rfl, h, trivial⟩
    · simp only [abs] at hc ⊢; rw [hi, hc]; exact ⟨rfl, hinv, trivial⟩
  | extend as =>
    simp only [Args.step, specStep]
    have := extend_refines st as h
    exact ⟨this.1, this.2.1, outLoop_toRel this.2.2⟩
  | remove a =>
    simp only [Args.step, specStep, abs]
    rw [← coerce_eq_spec]
    rcases remove_char st a h with ⟨hc, hr⟩ | ⟨it, n, hc, hs, hr⟩ | ⟨it, n, k, j, hc, hs, hr, hinv⟩
    · rw [hr, hc]; exact ⟨rfl, h, trivial⟩
    · rw [hr, hc]; simp only [hs]; exact ⟨trivial, inv_next h n, trivial⟩
    · rw [hr, hc]; simp only [hs]; exact ⟨trivial, hinv, trivial⟩
  | pop i =>
    simp only [Args.step, specStep, abs]
    rcases pop_char st i h with ⟨hk, hp⟩ | ⟨k, o, j, hk, hget, hp, hinv⟩
    · rw [hp, hk]; exact ⟨rfl, h, trivial⟩
    · rw [hp, hk]; simp only [hget]
      exact ⟨by rw [List.eraseIdx_eq_take_drop_succ], hinv, rfl, List.mem_of_getElem? hget⟩
  | reverse => exact ⟨rfl, inv_reverse h _, trivial⟩
  | clear => exact ⟨rfl, inv_empty _, trivial⟩
  | getItem i =>
    simp only [Args.step, specStep, abs]
    rcases getItem_char st i with ⟨hk, hg⟩ | ⟨k, o, hk, hget, hg⟩
    · rw [hg, hk]; exact ⟨rfl, h, trivial⟩
    · rw [hg, hk]; simp only [hget]
      exact ⟨trivial, h, rfl, List.mem_of_getElem? hget⟩
  | slice lo hi =>
    simp only [Args.step, specStep, abs]
    rcases slice_char st lo hi h with ⟨st', hs, hl, hinv⟩
    rw [hs]; exact ⟨rfl, h, hl, hinv⟩
  | str =>
    simp only [Args.step, specStep, Args.str, abs]
    exact ⟨trivial, h, serL_eq_flatten _⟩
  | extendSlice lo hi =>
    simp only [Args.step, specStep, abs]
    rcases extendSlice_char st lo hi h with ⟨st', hs, hl, hn, hinv, _⟩
    rw [hs]; exact ⟨by rw [hl, hn], hinv, trivial⟩
  | extendSelf =>
    simp only [Args.step, specStep, abs]
    rcases extendSelf_char st h with ⟨st', hs, hl, hn, hinv, _⟩
    rw [hs]; exact ⟨by rw [hl, hn], hinv, trivial⟩

/-! ## The pool of the property: plain groups -/

theorem ser_plain (k : GKind) (s : Str) (p q : Int) :
    ser (.group k [.text s p] q) = k.open ++ (s ++ k.close) := by
  simp [ser, serL]

theorem ser_inj_plain {a b : Expr} (ha : Plain a) (hb : Plain b) (h : ser a = ser b) : a = b := by
  rcases ha with ⟨k, s, rfl⟩
  rcases hb with ⟨k', s', rfl⟩
  rw [ser_plain, ser_plain] at h
  cases k <;> cases k' <;> simp [GKind.open, GKind.close] at h
  · rw [h]
  · rw [h]

theorem plain_not_blank {e : Expr} (he : Plain e) : isBlank (ser e) = false := by
  rcases he with ⟨k, s, rfl⟩
  rw [ser_plain]
  have h1 : isSpaceCh 91 = false := by decide
  have h2 : isSpaceCh 123 = false := by decide
  cases k <;> simp [isBlank, GKind.open, h1, h2]

theorem specGroup_plain {s : Str} {e : Expr} (h : specGroup s = some e) : Plain e := by
  unfold specGroup at h
  split at h
  · split at h
    · simp at h; exact ⟨_, _, h.symm⟩
    · simp at h
  · split at h
    · simp at h; exact ⟨_, _, h.symm⟩
    · simp at h
  · simp at h

theorem coerceStr_plain {n m : Nat} {s : Str} {it : ArgItem} (h : coerceStr n s = some (it, m)) :
    PlainItem it := by
  rw [coerceStr_eq_spec] at h
  unfold specStr at h
  split at h
  · next hb => simp at h; rw [← h.1]; exact hb
  · cases hg : specGroup s with
    | none => simp [hg] at h
    | some e => simp [hg] at h; rw [← h.1]; exact specGroup_plain hg

theorem coerce_plain {n m : Nat} {a : ArgIn} {it : ArgItem} (ha : PlainIn a)
    (h : coerce n a = some (it, m)) : PlainItem it := by
  cases a with
  | str s => exact coerceStr_plain h
  | grp o =>
    rcases o with ⟨id, e⟩
    rcases ha with ⟨k, s, rfl⟩
    simp [coerce] at h; rw [← h.1]; exact ⟨k, s, rfl⟩

theorem mem_insLst {l : List Obj} {i : Int} {it : ArgItem} {x : Obj} (h : x ∈ insLst l i it) :
    x ∈ l ∨ it = .grp x := by
  unfold insLst at h
  cases hl : listed it with
  | none => rw [hl] at h; exact Or.inl h
  | some e =>
    rw [hl] at h
    simp only [specInsert, List.mem_append, List.mem_cons] at h
    rcases h with h | rfl | h
    · exact Or.inl (List.mem_of_mem_take h)
    · exact Or.inr (listed_some hl).1
    · exact Or.inl (List.mem_of_mem_drop h)

theorem plainSt_sub {st : ArgsSt} (hp : PlainSt st) {l' : List Obj} {a' : List ArgItem}
    (h1 : ∀ x ∈ l', x ∈ st.lst) (h2 : ∀ x ∈ a', x ∈ st.all) (n : Nat) : PlainSt ⟨l', a', n⟩ :=
  ⟨fun e he => hp.lst e (h1 e he), fun it hi => hp.all it (h2 it hi)⟩

theorem plain_insert (st : ArgsSt) (i : Int) (a : ArgIn) (h : Inv st) (hp : PlainSt st)
    (ha : PlainIn a) : PlainSt (Args.insert st i a).1 := by
  rcases insert_char st i a h with ⟨_, hi⟩ | ⟨it, n, all', hc, hi, hadds, _⟩
  · rw [hi]; exact hp
  · rw [hi]
    have hit := coerce_plain ha hc
    constructor
    · intro e he
      rcases mem_insLst he with he | rfl
      · exact hp.lst e he
      · exact hit
    · intro x hx
      rcases hadds.2 x hx with rfl | hx
      · exact hit
      · exact hp.all x hx

theorem plain_extend (st : ArgsSt) (as : List ArgIn) (h : Inv st) (hp : PlainSt st)
    (ha : ∀ a ∈ as, PlainIn a) : PlainSt (Args.extend st as).1 := by
  induction as generalizing st with
  | nil => exact hp
  | cons a r ih =>
    unfold Args.extend Args.append
    have hpi := plain_insert st st.lst.length a h hp (ha a (by simp))
    rcases insert_char st st.lst.length a h with ⟨_, hi⟩ | ⟨it, n, all', _, hi, _, hinv⟩
    · rw [hi]; exact hp
    · rw [hi] at hpi ⊢
      exact ih _ hinv hpi (fun x hx => ha x (by simp [hx]))

theorem plain_step (st : ArgsSt) (op : ArgsOp) (h : Inv st) (hp : PlainSt st)
    (hop : PlainOp op) : PlainSt (Args.step st op).1 := by
  cases op with
  | append a => exact plain_insert st _ a h hp hop
  | insert i a => exact plain_insert st i a h hp hop
  | extend as => exact plain_extend st as h hp hop
  | remove a =>
    simp only [Args.step]
    rcases remove_char st a h with ⟨_, hr⟩ | ⟨it, n, _, _, hr⟩ | ⟨it, n, k, j, _, _, hr, _⟩
    · rw [hr]; exact hp
    · rw [hr]; exact plainSt_sub hp (fun _ hx => hx) (fun _ hx => hx) n
    · rw [hr]
      exact plainSt_sub hp (fun _ hx => List.mem_of_mem_eraseIdx hx)
        (fun _ hx => List.mem_of_mem_eraseIdx hx) n
  | pop i =>
    simp only [Args.step]
    rcases pop_char st i h with ⟨_, hq⟩ | ⟨k, e, j, _, _, hq, _⟩
    · rw [hq]; exact hp
    · rw [hq]
      exact plainSt_sub hp (fun _ hx => List.mem_of_mem_eraseIdx hx)
        (fun _ hx => List.mem_of_mem_eraseIdx hx) _
  | reverse =>
    exact plainSt_sub hp (fun _ hx => List.mem_reverse.mp hx) (fun _ hx => List.mem_reverse.mp hx) _
  | clear => exact ⟨by simp [Args.step, Args.clear], by simp [Args.step, Args.clear]⟩
  | getItem i =>
    simp only [Args.step]
    rcases getItem_char st i with ⟨_, hg⟩ | ⟨k, e, _, _, hg⟩ <;> rw [hg] <;> exact hp
  | slice lo hi =>
    simp only [Args.step]
    rcases slice_char st lo hi h with ⟨st', hs, _, _⟩
    rw [hs]; exact hp
  | str => exact hp
  | extendSlice lo hi =>
    simp only [Args.step]
    rcases extendSlice_char st lo hi h with ⟨st', hs, hl, _, _, hall⟩
    rw [hs]
    constructor
    · intro o ho
      rw [hl] at ho
      rcases List.mem_append.mp ho with ho | ho
      · exact hp.lst o ho
      · exact hp.lst o (specSlice_sub _ _ _ _ ho)
    · intro x hx
      rcases hall x hx with hx | ⟨o, ho, rfl⟩
      · exact hp.all x hx
      · exact hp.lst o ho
  | extendSelf =>
    simp only [Args.step]
    rcases extendSelf_char st h with ⟨st', hs, hl, _, _, hall⟩
    rw [hs]
    constructor
    · intro o ho
      rw [hl] at ho
      rcases List.mem_append.mp ho with ho | ho <;> exact hp.lst o ho
    · intro x hx
      rcases hall x hx with hx | ⟨o, ho, rfl⟩
      · exact hp.all x hx
      · exact hp.lst o ho

/-- On plain pools a textual twin has the same value (it may be another object). -/
theorem twin_value_of_plain {st : ArgsSt} (hp : PlainSt st) {it : ArgItem} {o : Obj}
    (hit : it ∈ st.all) (ho : o ∈ st.lst) (htxt : it.txt = ser o.e) :
    ∃ o', it = .grp o' ∧ o'.e = o.e := by
  have hpe := hp.lst o ho
  have hpi := hp.all it hit
  cases it with
  | grp x => exact ⟨x, rfl, ser_inj_plain hpi hpe htxt⟩
  | ws s =>
    have : isBlank s = true := hpi
    have h2 := plain_not_blank hpe
    simp only [ArgItem.txt] at htxt
    rw [← htxt, this] at h2
    cases h2

/-! ## Concrete values used by the non-vacuity examples of `Properties/C18.lean` -/
namespace Examples
def eA : Expr := .group .brace [.text [97] (-1)] (-1)          -- {a}
def eB : Expr := .group .brace [.text [98] (-1)] (-1)          -- {b}
def eY : Expr := .group .brace [.text [121] (-1)] (-1)         -- {y}
def gA : Obj := ⟨.made 0, eA⟩     -- the first group made from a string
def gB : Obj := ⟨.made 1, eB⟩     -- the second
def sA : Str := [123, 97, 125]                                  -- '{a}'
def sB : Str := [123, 98, 125]                                  -- '{b}'
def sY : Str := [123, 121, 125]                                 -- '{y}'
/-- `TexArgs(['{a}', ' ', '{b}'])`. -/
def stAB : ArgsSt := ⟨[gA, gB], [.grp gA, .grp gB, .ws [32]], 2⟩

theorem stAB_reachable : (Args.construct [.str sA, .str [32], .str sB]).1 = stAB := rfl
theorem stAB_inv : Inv stAB :=
  ⟨by simp [stAB, gA, gB, eA, eB, isArgObj], by
    intro id
    have : stAB.all.countP (ArgItem.isObj id) = stAB.lst.countP (fun o => o.id == id) := by
      simp [stAB, List.countP_cons, ArgItem.isObj]
    omega⟩
end Examples

end ArgsLemmas
end TexSoup
