import TexSoupModel.Args
import TexSoupProofs.ArgsSpec
/-!
# Lemmas about the `TexArgs` model

Built-in list primitives (`pyInsert`, `pyIndex`, `pySlice`, `idxOfTxt`) in `take`/`drop`/count
form, the invariant `Inv` and its preservation by every method. Used by
`TexSoupProofs/Properties/C18.lean`.
-/
namespace TexSoup
namespace ArgsLemmas
open ArgsSpec

/-! ## Lists -/

theorem insertIdx_eq_take_drop {α : Type} (l : List α) (k : Nat) (x : α) (h : k ≤ l.length) :
    l.insertIdx k x = l.take k ++ x :: l.drop k := by
  induction l generalizing k with
  | nil => simp at h; subst h; simp
  | cons a r ih =>
    cases k with
    | zero => simp
    | succ k => simp at h; simp [List.insertIdx_succ_cons, ih k h]

theorem count_insertIdx {α : Type} [BEq α] [LawfulBEq α] (l : List α) (k : Nat) (x t : α)
    (h : k ≤ l.length) :
    (l.insertIdx k x).count t = l.count t + if x == t then 1 else 0 := by
  rw [(List.perm_insertIdx x l h).count_eq, List.count_cons]

theorem count_eraseIdx {α : Type} [BEq α] [LawfulBEq α] (l : List α) (k : Nat) (t : α)
    (h : k < l.length) :
    (l.eraseIdx k).count t = l.count t - if l[k] == t then 1 else 0 := by
  have h1 : l.count t = (l.take k ++ l[k] :: l.drop (k + 1)).count t := by
    rw [List.getElem_cons_drop h, List.take_append_drop]
  rw [List.eraseIdx_eq_take_drop_succ, h1]
  simp only [List.count_append, List.count_cons]
  omega

theorem map_insertIdx {α β : Type} (f : α → β) (l : List α) (k : Nat) (x : α) :
    (l.insertIdx k x).map f = (l.map f).insertIdx k (f x) := by
  induction l generalizing k with
  | nil => cases k <;> simp
  | cons a r ih => cases k <;> simp [List.insertIdx_succ_cons, ih]

theorem map_eraseIdx {α β : Type} (f : α → β) (l : List α) (k : Nat) :
    (l.eraseIdx k).map f = (l.map f).eraseIdx k := by
  induction l generalizing k with
  | nil => simp
  | cons a r ih => cases k <;> simp [ih]

/-! ## `idxOfTxt` -/

theorem idxOfTxt_none {α : Type} (f : α → Str) (t : Str) (l : List α) :
    idxOfTxt f t l = none ↔ t ∉ l.map f := by
  induction l with
  | nil => simp [idxOfTxt]
  | cons a r ih =>
    by_cases h : f a = t
    · simp [idxOfTxt, h]
    · have h' : ¬ t = f a := fun e => h e.symm
      simp [idxOfTxt, h, h', ih]

theorem idxOfTxt_some {α : Type} (f : α → Str) (t : Str) (l : List α) (j : Nat)
    (h : idxOfTxt f t l = some j) : ∃ hj : j < l.length, f l[j] = t := by
  induction l generalizing j with
  | nil => simp [idxOfTxt] at h
  | cons a r ih =>
    by_cases ha : f a = t
    · simp [idxOfTxt, ha] at h; subst h; exact ⟨by simp, by simpa using ha⟩
    · simp [idxOfTxt, ha] at h
      rcases h with ⟨j', hj', rfl⟩
      rcases ih j' hj' with ⟨h1, h2⟩
      exact ⟨by simp; omega, by simpa using h2⟩

theorem idxOfTxt_isSome_of_mem {α : Type} (f : α → Str) (t : Str) (l : List α)
    (h : t ∈ l.map f) : ∃ j, idxOfTxt f t l = some j := by
  cases hj : idxOfTxt f t l with
  | none => exact absurd h ((idxOfTxt_none f t l).mp hj)
  | some j => exact ⟨j, rfl⟩

/-! ## Python index arithmetic -/

theorem pyClampInsert_le (n : Nat) (i : Int) : pyClampInsert n i ≤ n := by
  unfold pyClampInsert; split <;> omega

/-- Clamping is idempotent: `list.insert` re-clamping the already clamped index of the
repaired code changes nothing. -/
theorem pyClampInsert_clamped (n : Nat) (i : Int) :
    pyClampInsert n (if i < 0 then max ((n : Int) + i) 0 else min i n) = pyClampInsert n i := by
  unfold pyClampInsert; split <;> split <;> omega

theorem pyClampInsert_len (n : Nat) : pyClampInsert n (n : Int) = n := by
  unfold pyClampInsert; split <;> omega

theorem pyInsert_eq_spec (l : List Expr) (i : Int) (e : Expr) :
    pyInsert l i e = specInsert l i e := by
  unfold pyInsert specInsert
  rw [insertIdx_eq_take_drop _ _ _ (pyClampInsert_le _ _)]
  have : pyClampInsert l.length i =
      (if i < 0 then ((l.length : Int) + i).toNat else min i.toNat l.length) := by
    unfold pyClampInsert; split <;> omega
  rw [this]

theorem pyIndex_eq_spec (n : Nat) (i : Int) : pyIndex n i = specIdx n i := by
  unfold pyIndex specIdx
  by_cases h : i < 0
  · by_cases h2 : -i ≤ (n : Int)
    · have h3 : 0 ≤ i + (n : Int) ∧ i + (n : Int) < n := by omega
      rw [if_pos h, if_pos h2]
      simp only [if_pos h, if_pos h3]
      congr 1; omega
    · have h3 : ¬ (0 ≤ i + (n : Int) ∧ i + (n : Int) < n) := by omega
      rw [if_pos h, if_neg h2]
      simp only [if_pos h, if_neg h3]
  · by_cases h2 : i < (n : Int)
    · have h3 : 0 ≤ i ∧ i < (n : Int) := by omega
      rw [if_neg h, if_pos h2]
      simp only [if_neg h, if_pos h3]
    · have h3 : ¬ (0 ≤ i ∧ i < (n : Int)) := by omega
      rw [if_neg h, if_neg h2]
      simp only [if_neg h, if_neg h3]

theorem specIdx_lt {n : Nat} {i : Int} {k : Nat} (h : specIdx n i = some k) : k < n := by
  unfold specIdx at h
  by_cases h1 : i < 0 <;> simp [h1] at h <;> omega

theorem pyIndex_lt {n : Nat} {i : Int} {k : Nat} (h : pyIndex n i = some k) : k < n :=
  specIdx_lt (pyIndex_eq_spec n i ▸ h)

theorem pySliceBound_eq_spec (n d : Nat) (b : Option Int) :
    pySliceBound n d b = (b.map (specBound n)).getD d := by
  cases b with
  | none => rfl
  | some i =>
    simp only [pySliceBound, specBound, Option.map, Option.getD]
    split <;> omega

theorem pySlice_eq_spec (l : List Expr) (lo hi : Option Int) :
    pySlice l lo hi = specSlice l lo hi := by
  simp only [pySlice, specSlice, pySliceBound_eq_spec, List.drop_take]

theorem specRemove_eq (t : Str) (l : List Expr) :
    specRemove t l = (idxOfTxt ser t l).map (l.eraseIdx ·) := by
  induction l with
  | nil => rfl
  | cons a r ih =>
    by_cases h : ser a = t
    · simp [specRemove, idxOfTxt, h]
    · simp only [specRemove, idxOfTxt, h, if_false, ih]
      cases idxOfTxt ser t r <;> simp

theorem serL_eq_flatten (l : List Expr) : serL l = (l.map ser).flatten := by
  induction l with
  | nil => rfl
  | cons a r ih => simp [serL, ih]

/-! ## Coercion -/

theorem isPrefix_single (c : Ch) (s : Str) : isPrefix [c] s = (s.head? == some c) := by
  cases s with
  | nil => rfl
  | cons b l =>
    simp only [isPrefix, List.head?_cons, Bool.and_true]
    by_cases h : c = b
    · subst h; simp
    · have h1 : (c == b) = false := by simpa using h
      have h2 : (b == c) = false := by simpa using fun e : b = c => h e.symm
      simp [h1, h2]

theorem endsWith_single (c : Ch) (s : Str) : endsWith [c] s = (s.getLast? == some c) := by
  simp [endsWith, isPrefix_single, List.head?_reverse]

theorem parseGroup_eq_spec (s : Str) : parseGroup s = specGroup s := by
  simp only [parseGroup, allGKinds, parseGroupWith, isPrefix_single, endsWith_single,
    GKind.open, GKind.close, List.length_cons, List.length_nil]
  cases s with
  | nil => simp [specGroup]
  | cons a t =>
    have hlast : ∀ c : Nat, c ≠ a → ((a :: t).getLast? = some c ↔ t.getLast? = some c) := by
      intro c hc
      cases t with
      | nil => simp; exact fun e => hc e.symm
      | cons b u => simp [List.getLast?_cons_cons]
    have hslice : (List.take t.length (a :: t)).tail = t.dropLast := by
      cases t with
      | nil => rfl
      | cons b u => simp [List.dropLast_eq_take]
    by_cases h1 : a = 91
    · subst h1
      by_cases h2 : t.getLast? = some 93
      · have := (hlast 93 (by decide)).mpr h2
        simp only [specGroup, h2, if_true]
        simp [this, hslice]
      · have : ¬ (91 :: t).getLast? = some 93 := fun h => h2 ((hlast 93 (by decide)).mp h)
        simp [specGroup, h2, this]
    · by_cases h3 : a = 123
      · subst h3
        by_cases h2 : t.getLast? = some 125
        · have := (hlast 125 (by decide)).mpr h2
          simp only [specGroup, h2, if_true]
          simp [this, hslice]
        · have : ¬ (123 :: t).getLast? = some 125 :=
            fun h => h2 ((hlast 125 (by decide)).mp h)
          simp [specGroup, h2, this]
      · have : specGroup (a :: t) = none := by
          unfold specGroup; split <;> simp_all
        simp [this, h1, h3]

theorem coerceStr_eq_spec (s : Str) : coerceStr s = specStr s := by
  simp [coerceStr, specStr, parseGroup_eq_spec]

theorem coerce_eq_spec (a : ArgIn) : coerce a = specVal a := by
  cases a with
  | str s => exact coerceStr_eq_spec s
  | grp e => cases e <;> simp [coerce, specVal, coerceStr_eq_spec]

theorem listed_eq_spec (it : ArgItem) : listed it = specListed it := by
  cases it <;> rfl

/-! ## Index look-ups that `insert` performs -/

theorem pyIndex_nonneg {n : Nat} {i : Int} (h0 : 0 ≤ i) (h1 : i < n) :
    pyIndex n i = some i.toNat := by
  unfold pyIndex
  rw [if_neg (by omega), if_pos h1]

theorem pyIndex_neg {n : Nat} {i : Int} (h0 : i < 0) (h1 : -i ≤ n) :
    pyIndex n i = some ((n : Int) + i).toNat := by
  unfold pyIndex
  rw [if_pos h0, if_pos h1]

/-- `self[k - 1]` for `0 ≤ k ≤ len`, `len ≥ 1`, is an item of the list (`self[-1]` if `k = 0`). -/
theorem before_in_same (l : List Expr) (k : Nat) (hk : k ≤ l.length) (hl : 1 ≤ l.length) :
    ∃ b ∈ l, pyGet l ((k : Int) - 1) = some b := by
  unfold pyGet
  cases k with
  | zero =>
    have : pyIndex l.length (((0 : Nat) : Int) - 1) = some (l.length - 1) := by
      rw [pyIndex_neg (by omega) (by omega)]; congr 1; omega
    rw [this]
    have hlt : l.length - 1 < l.length := by omega
    exact ⟨l[l.length - 1], List.getElem_mem hlt, by simp [List.getElem?_eq_getElem hlt]⟩
  | succ k =>
    have : pyIndex l.length (((k + 1 : Nat) : Int) - 1) = some k := by
      rw [pyIndex_nonneg (by omega) (by omega)]; congr 1; omega
    rw [this]
    have hlt : k < l.length := by omega
    exact ⟨l[k], List.getElem_mem hlt, by simp [List.getElem?_eq_getElem hlt]⟩

/-- After `list.insert(k, e)` with `0 ≤ k ≤ len`, `len ≥ 1`, the item `self[k - 1]` is an
*old* item: the left neighbour of `e`, or for `k = 0` the last item. -/
theorem before_in_old (l : List Expr) (k : Nat) (e : Expr) (hk : k ≤ l.length)
    (hl : 1 ≤ l.length) :
    ∃ b ∈ l, pyGet (l.insertIdx k e) ((k : Int) - 1) = some b := by
  unfold pyGet
  have hlen : (l.insertIdx k e).length = l.length + 1 := by
    rw [List.length_insertIdx, if_pos hk]
  rw [hlen]
  cases k with
  | zero =>
    have : pyIndex (l.length + 1) (((0 : Nat) : Int) - 1) = some l.length := by
      rw [pyIndex_neg (by omega) (by omega)]; congr 1; omega
    rw [this]
    have hlt : l.length - 1 < l.length := by omega
    refine ⟨l[l.length - 1], List.getElem_mem hlt, ?_⟩
    have h1 : (e :: l)[l.length]? = l[l.length - 1]? := by
      cases l with
      | nil => simp at hl
      | cons a r => simp
    simp only [List.insertIdx_zero, h1]
    exact List.getElem?_eq_getElem hlt
  | succ k =>
    have : pyIndex (l.length + 1) (((k + 1 : Nat) : Int) - 1) = some k := by
      rw [pyIndex_nonneg (by omega) (by omega)]; congr 1; omega
    simp only [this]
    have hlt : k < l.length := by omega
    refine ⟨l[k], List.getElem_mem hlt, ?_⟩
    rw [List.getElem?_insertIdx, if_pos (by omega)]
    exact List.getElem?_eq_getElem hlt

/-- The clamped index of the repaired `insert`, as a natural number. -/
theorem clamp_cast (n : Nat) (i : Int) :
    (if i < 0 then max ((n : Int) + i) 0 else min i (n : Int)) = ((pyClampInsert n i : Nat) : Int) := by
  unfold pyClampInsert; split <;> omega

theorem pyClampInsert_cast (n k : Nat) (h : k ≤ n) : pyClampInsert n (k : Int) = k := by
  unfold pyClampInsert; split <;> omega

/-! ## The invariant -/

theorem inv_empty : Inv ArgsSt.empty := ⟨by simp [ArgsSt.empty], by simp [ArgsSt.empty]⟩

theorem twin_mem {st : ArgsSt} (h : Inv st) {e : Expr} (he : e ∈ st.lst) :
    ser e ∈ st.all.map ArgItem.txt := by
  have h1 : 0 < (st.lst.map ser).count (ser e) :=
    List.count_pos_iff.mpr (List.mem_map.mpr ⟨e, he, rfl⟩)
  exact List.count_pos_iff.mp (Nat.lt_of_lt_of_le h1 (h.twins _))

/-- The counting effect of adding `it` to `.all` somewhere. -/
def AllAdds (all all' : List ArgItem) (it : ArgItem) : Prop :=
  (∀ t : Str, (all'.map ArgItem.txt).count t =
    (all.map ArgItem.txt).count t + if it.txt == t then 1 else 0) ∧
  (∀ x, x ∈ all' → x = it ∨ x ∈ all)

/-- The book-keeping of `insert` succeeds whenever the item it looks up has a twin in
`.all`, and it adds exactly the new item. -/
theorem bookkeep_ok (lst' : List Expr) (all : List ArgItem) (k : Nat) (it : ArgItem)
    (hk : k ≤ lst'.length)
    (h : 2 ≤ lst'.length → ∃ b, pyGet lst' ((k : Int) - 1) = some b ∧ ser b ∈ all.map ArgItem.txt) :
    ∃ all', Args.bookkeep lst' all (k : Int) it = (all', .none) ∧ AllAdds all all' it := by
  unfold Args.bookkeep
  by_cases hl : lst'.length ≤ 1
  · rw [if_pos hl]
    refine ⟨_, rfl, ?_, ?_⟩
    · intro t; simp [List.count_append, List.count_cons]
    · intro x hx; simp at hx; rcases hx with hx | hx
      · exact Or.inr hx
      · exact Or.inl hx
  · rw [if_neg hl]
    have hgt : ¬ ((k : Int) > (lst'.length : Int)) := by omega
    simp only [hgt, if_false]
    rcases h (by omega) with ⟨b, hb, hmem⟩
    rcases idxOfTxt_isSome_of_mem _ _ _ hmem with ⟨j, hj⟩
    rcases idxOfTxt_some _ _ _ _ hj with ⟨hjlt, _⟩
    simp only [hb, hj]
    refine ⟨_, rfl, ?_, ?_⟩
    · intro t
      have hc : pyClampInsert all.length ((j : Int) + 1) = j + 1 := by
        have := pyClampInsert_cast all.length (j + 1) (by omega)
        simpa using this
      unfold pyInsert
      rw [hc, map_insertIdx, count_insertIdx _ _ _ _ (by simp; omega)]
    · intro x hx
      unfold pyInsert at hx
      exact (List.mem_insertIdx (pyClampInsert_le _ _)).mp hx

theorem inv_of_adds_listed {st : ArgsSt} (h : Inv st) {all' : List ArgItem} {e : Expr}
    (k : Nat) (hk : k ≤ st.lst.length) (he : isArgObj e = true)
    (ha : AllAdds st.all all' (.grp e)) : Inv ⟨st.lst.insertIdx k e, all'⟩ := by
  constructor
  · intro x hx
    rcases (List.mem_insertIdx hk).mp hx with rfl | hx
    · exact he
    · exact h.args x hx
  · intro t
    rw [map_insertIdx, count_insertIdx _ _ _ _ (by simpa using hk), ha.1 t]
    have := h.twins t
    by_cases hx : ser e = t <;> simp [ArgItem.txt, hx] <;> omega

theorem inv_of_adds_unlisted {st : ArgsSt} (h : Inv st) {all' : List ArgItem} {it : ArgItem}
    (ha : AllAdds st.all all' it) : Inv ⟨st.lst, all'⟩ := by
  constructor
  · exact h.args
  · intro t
    have := h.twins t
    rw [ha.1 t]
    simp only
    omega

theorem inv_erase_all {st : ArgsSt} (h : Inv st) (j : Nat) (hj : j < st.all.length)
    (hno : st.all[j].txt ∉ st.lst.map ser) : Inv ⟨st.lst, st.all.eraseIdx j⟩ := by
  constructor
  · exact h.args
  · intro t
    simp only [map_eraseIdx]
    rw [count_eraseIdx _ _ _ (by simpa using hj)]
    have := h.twins t
    by_cases ht : st.all[j].txt = t
    · subst ht
      have : (st.lst.map ser).count st.all[j].txt = 0 := List.count_eq_zero.mpr hno
      omega
    · simp only [List.getElem_map, beq_eq_false_iff_ne.mpr ht]
      simpa using this

theorem inv_erase_both {st : ArgsSt} (h : Inv st) (k j : Nat) (hk : k < st.lst.length)
    (hj : j < st.all.length) (heq : st.all[j].txt = ser st.lst[k]) :
    Inv ⟨st.lst.eraseIdx k, st.all.eraseIdx j⟩ := by
  constructor
  · intro x hx; exact h.args x (List.mem_of_mem_eraseIdx hx)
  · intro t
    simp only [map_eraseIdx]
    rw [count_eraseIdx _ _ _ (by simpa using hk), count_eraseIdx _ _ _ (by simpa using hj)]
    have := h.twins t
    simp only [List.getElem_map, heq]
    omega

theorem inv_reverse {st : ArgsSt} (h : Inv st) : Inv ⟨st.lst.reverse, st.all.reverse⟩ := by
  constructor
  · intro x hx; exact h.args x (List.mem_reverse.mp hx)
  · intro t
    simp only [List.map_reverse, List.count_reverse]
    exact h.twins t

/-! ## Characterisation of the mutators on states satisfying the invariant -/

theorem listed_some {it : ArgItem} {e : Expr} (h : listed it = some e) :
    it = .grp e ∧ isArgObj e = true := by
  cases it with
  | ws s => simp [listed] at h
  | grp x =>
    simp only [listed] at h
    split at h
    · next hx => simp at h; subst h; exact ⟨rfl, hx⟩
    · simp at h

/-- The list after inserting the value `it` at `i`. -/
def insLst (l : List Expr) (i : Int) (it : ArgItem) : List Expr :=
  match listed it with
  | some e => specInsert l i e
  | none => l

theorem specInsertVal_eq (l : List Expr) (i : Int) (a : ArgIn) :
    specInsertVal l i a =
      match coerce a with
      | none => (l, .typeError)
      | some it => (insLst l i it, .none) := by
  unfold specInsertVal insLst
  rw [coerce_eq_spec]
  cases specVal a with
  | none => rfl
  | some it => simp only [listed_eq_spec]; cases specListed it <;> rfl

/-- `insert` on a state satisfying the invariant: either the coercion fails and nothing
happens, or the list gets the value (if it is an argument) at the clamped index, `.all`
gets it somewhere, no exception, invariant kept. -/
theorem insert_char (st : ArgsSt) (i : Int) (a : ArgIn) (h : Inv st) :
    (coerce a = none ∧ Args.insert st i a = (st, .typeError)) ∨
    (∃ it all', coerce a = some it ∧
      Args.insert st i a = (⟨insLst st.lst i it, all'⟩, .none) ∧
      AllAdds st.all all' it ∧ Inv ⟨insLst st.lst i it, all'⟩) := by
  unfold Args.insert
  cases hc : coerce a with
  | none => left; exact ⟨rfl, rfl⟩
  | some it =>
    right
    simp only [clamp_cast]
    have hk := pyClampInsert_le st.lst.length i
    cases hl : listed it with
    | some e =>
      rcases listed_some hl with ⟨rfl, harg⟩
      have hlst : pyInsert st.lst ((pyClampInsert st.lst.length i : Nat) : Int) e =
          st.lst.insertIdx (pyClampInsert st.lst.length i) e := by
        unfold pyInsert; rw [pyClampInsert_cast _ _ hk]
      have hspec : insLst st.lst i (.grp e) = st.lst.insertIdx (pyClampInsert st.lst.length i) e := by
        unfold insLst; rw [hl]; simp only; rw [← pyInsert_eq_spec]; rfl
      simp only [hlst]
      have hlen : (st.lst.insertIdx (pyClampInsert st.lst.length i) e).length = st.lst.length + 1 := by
        rw [List.length_insertIdx, if_pos hk]
      rcases bookkeep_ok (st.lst.insertIdx (pyClampInsert st.lst.length i) e) st.all
          (pyClampInsert st.lst.length i) (.grp e) (by omega)
          (by
            intro h2
            rcases before_in_old st.lst _ e hk (by omega) with ⟨b, hb, hget⟩
            exact ⟨b, hget, twin_mem h hb⟩) with ⟨all', hbk, hadds⟩
      refine ⟨.grp e, all', rfl, ?_, hadds, ?_⟩
      · rw [hbk, hspec]
      · rw [hspec]; exact inv_of_adds_listed h _ hk harg hadds
    | none =>
      have hspec : insLst st.lst i it = st.lst := by unfold insLst; rw [hl]
      rcases bookkeep_ok st.lst st.all (pyClampInsert st.lst.length i) it hk
          (by
            intro h2
            rcases before_in_same st.lst _ hk (by omega) with ⟨b, hb, hget⟩
            exact ⟨b, hget, twin_mem h hb⟩) with ⟨all', hbk, hadds⟩
      refine ⟨it, all', rfl, ?_, hadds, ?_⟩
      · rw [hbk, hspec]
      · rw [hspec]; exact inv_of_adds_unlisted h hadds

/-- `remove` on a state satisfying the invariant. -/
theorem remove_char (st : ArgsSt) (a : ArgIn) (h : Inv st) :
    (coerce a = none ∧ Args.remove st a = (st, .typeError)) ∨
    (∃ it, coerce a = some it ∧ specRemove it.txt st.lst = none ∧
      ((idxOfTxt ArgItem.txt it.txt st.all = none ∧ Args.remove st a = (st, .valueError)) ∨
       (∃ j, idxOfTxt ArgItem.txt it.txt st.all = some j ∧
          Args.remove st a = (⟨st.lst, st.all.eraseIdx j⟩, .valueError) ∧
          Inv ⟨st.lst, st.all.eraseIdx j⟩))) ∨
    (∃ it j l', coerce a = some it ∧ specRemove it.txt st.lst = some l' ∧
      idxOfTxt ArgItem.txt it.txt st.all = some j ∧
      Args.remove st a = (⟨l', st.all.eraseIdx j⟩, .none) ∧ Inv ⟨l', st.all.eraseIdx j⟩) := by
  unfold Args.remove
  cases hc : coerce a with
  | none => left; exact ⟨rfl, rfl⟩
  | some it =>
    right
    simp only [specRemove_eq]
    cases hj : idxOfTxt ArgItem.txt it.txt st.all with
    | none =>
      left
      have hno : it.txt ∉ st.all.map ArgItem.txt := (idxOfTxt_none _ _ _).mp hj
      have hno2 : it.txt ∉ st.lst.map ser := by
        intro hm
        rcases List.mem_map.mp hm with ⟨e, he, hee⟩
        exact hno (hee ▸ twin_mem h he)
      have hk : idxOfTxt ser it.txt st.lst = none := (idxOfTxt_none _ _ _).mpr hno2
      exact ⟨it, rfl, by simp [hk], Or.inl ⟨hj, rfl⟩⟩
    | some j =>
      rcases idxOfTxt_some _ _ _ _ hj with ⟨hjlt, hjt⟩
      cases hk : idxOfTxt ser it.txt st.lst with
      | none =>
        left
        have hno2 : it.txt ∉ st.lst.map ser := (idxOfTxt_none _ _ _).mp hk
        exact ⟨it, rfl, by simp [hk], Or.inr ⟨j, hj, by simp, inv_erase_all h j hjlt (hjt ▸ hno2)⟩⟩
      | some k =>
        right
        rcases idxOfTxt_some _ _ _ _ hk with ⟨hklt, hkt⟩
        exact ⟨it, j, st.lst.eraseIdx k, rfl, by simp [hk], hj, by simp,
          inv_erase_both h k j hklt hjlt (hjt.trans hkt.symm)⟩

/-- `pop` on a state satisfying the invariant: `IndexError` with nothing changed, or the
list loses item `k` – which the caller receives – and `.all` loses its first textual twin. -/
theorem pop_char (st : ArgsSt) (i : Int) (h : Inv st) :
    (specIdx st.lst.length i = none ∧ Args.pop st i = (st, .indexError)) ∨
    (∃ k e j, specIdx st.lst.length i = some k ∧ st.lst[k]? = some e ∧
      (∃ hj : j < st.all.length, st.all[j].txt = ser e) ∧
      Args.pop st i = (⟨st.lst.eraseIdx k, st.all.eraseIdx j⟩, .item (.grp e)) ∧
      Inv ⟨st.lst.eraseIdx k, st.all.eraseIdx j⟩) := by
  unfold Args.pop
  rw [pyIndex_eq_spec]
  cases hk : specIdx st.lst.length i with
  | none => left; exact ⟨rfl, rfl⟩
  | some k =>
    right
    have hklt := specIdx_lt hk
    have hget : st.lst[k]? = some st.lst[k] := List.getElem?_eq_getElem hklt
    simp only [hget]
    rcases idxOfTxt_isSome_of_mem _ _ _ (twin_mem h (List.getElem_mem hklt)) with ⟨j, hj⟩
    rcases idxOfTxt_some _ _ _ _ hj with ⟨hjlt, hjt⟩
    simp only [hj]
    exact ⟨k, st.lst[k], j, rfl, hget, ⟨hjlt, hjt⟩, rfl, inv_erase_both h k j hklt hjlt hjt⟩

/-- The pre-repair `pop` differs from the repaired one only in the value handed back: the
entry of `.all` it deletes instead of the list item. -/
theorem legacy_pop_char (st : ArgsSt) (i : Int) (h : Inv st) :
    (Args.Legacy.pop st i).1 = (Args.pop st i).1 ∧
    ((Args.pop st i).2 = .indexError ∧ (Args.Legacy.pop st i).2 = .indexError ∨
     ∃ e r, (Args.pop st i).2 = .item (.grp e) ∧ (Args.Legacy.pop st i).2 = .item r ∧
       r ∈ st.all ∧ e ∈ st.lst ∧ r.txt = ser e) := by
  unfold Args.Legacy.pop Args.pop
  rw [pyIndex_eq_spec]
  cases hk : specIdx st.lst.length i with
  | none => exact ⟨rfl, Or.inl ⟨rfl, rfl⟩⟩
  | some k =>
    have hklt := specIdx_lt hk
    have hget : st.lst[k]? = some st.lst[k] := List.getElem?_eq_getElem hklt
    simp only [hget]
    rcases idxOfTxt_isSome_of_mem _ _ _ (twin_mem h (List.getElem_mem hklt)) with ⟨j, hj⟩
    rcases idxOfTxt_some _ _ _ _ hj with ⟨hjlt, hjt⟩
    have hgetj : st.all[j]? = some st.all[j] := List.getElem?_eq_getElem hjlt
    simp only [hj, hgetj]
    exact ⟨trivial, Or.inr ⟨_, _, rfl, rfl, List.getElem_mem hjlt, List.getElem_mem hklt, hjt⟩⟩

/-! ## `extend`, the constructor, slices -/

/-- Outputs of a loop of `append`s: nothing, or the `TypeError` of a failed coercion. -/
def OutLoop : ArgsOut → SpecOut → Prop
  | .none, .none => True
  | .typeError, .typeError => True
  | _, _ => False

theorem extend_refines (st : ArgsSt) (as : List ArgIn) (h : Inv st) :
    (Args.extend st as).1.lst = (specExtend st.lst as).1 ∧ Inv (Args.extend st as).1 ∧
    OutLoop (Args.extend st as).2 (specExtend st.lst as).2 := by
  induction as generalizing st with
  | nil => exact ⟨rfl, h, trivial⟩
  | cons a r ih =>
    unfold Args.extend specExtend Args.append
    rw [specInsertVal_eq]
    rcases insert_char st st.lst.length a h with ⟨hc, hi⟩ | ⟨it, all', hc, hi, _, hinv⟩
    · rw [hi, hc]; exact ⟨rfl, h, trivial⟩
    · rw [hi, hc]; exact ih _ hinv

theorem coerce_grp_arg {e : Expr} (he : isArgObj e = true) : coerce (.grp e) = some (.grp e) := by
  cases e <;> simp [isArgObj] at he <;> rfl

theorem insLst_append (l : List Expr) (e : Expr) (he : isArgObj e = true) :
    insLst l l.length (.grp e) = l ++ [e] := by
  have : ¬ ((l.length : Int) < 0) := by omega
  simp [insLst, listed, he, specInsert, this]

/-- Extending by objects that are arguments never fails and appends them in order – in
particular `TexArgs(items)` for items taken out of a list. -/
theorem extend_args (st : ArgsSt) (es : List Expr) (h : Inv st)
    (hes : ∀ e ∈ es, isArgObj e = true) :
    ∃ st', Args.extend st (es.map .grp) = (st', .none) ∧ st'.lst = st.lst ++ es ∧ Inv st' := by
  induction es generalizing st with
  | nil => exact ⟨st, rfl, by simp, h⟩
  | cons e r ih =>
    have he := hes e (by simp)
    simp only [List.map_cons, Args.extend, Args.append]
    rcases insert_char st st.lst.length (.grp e) h with ⟨hc, _⟩ | ⟨it, all', hc, hi, _, hinv⟩
    · rw [coerce_grp_arg he] at hc; simp at hc
    · rw [coerce_grp_arg he] at hc
      cases hc
      rw [hi]
      simp only
      rw [insLst_append _ _ he] at hinv ⊢
      rcases ih ⟨st.lst ++ [e], all'⟩ hinv (fun x hx => hes x (by simp [hx])) with ⟨st', h1, h2, h3⟩
      exact ⟨st', h1, by simp [h2], h3⟩

theorem slice_char (st : ArgsSt) (lo hi : Option Int) (h : Inv st) :
    ∃ st', Args.slice st lo hi = (st, .sliceResult st') ∧ st'.lst = specSlice st.lst lo hi ∧
      Inv st' := by
  unfold Args.slice Args.construct
  have hsub : ∀ e ∈ pySlice st.lst lo hi, isArgObj e = true := by
    intro e he
    unfold pySlice at he
    exact h.args e (List.mem_of_mem_take (List.mem_of_mem_drop he))
  rcases extend_args .empty (pySlice st.lst lo hi) inv_empty hsub with ⟨st', h1, h2, h3⟩
  rw [h1]
  exact ⟨st', rfl, by simp [h2, ArgsSt.empty, pySlice_eq_spec], h3⟩

theorem getItem_char (st : ArgsSt) (i : Int) :
    (specIdx st.lst.length i = none ∧ Args.getItem st i = (st, .indexError)) ∨
    (∃ k e, specIdx st.lst.length i = some k ∧ st.lst[k]? = some e ∧
      Args.getItem st i = (st, .item (.grp e))) := by
  unfold Args.getItem pyGet
  rw [pyIndex_eq_spec]
  cases hk : specIdx st.lst.length i with
  | none => left; exact ⟨rfl, rfl⟩
  | some k =>
    right
    have hklt := specIdx_lt hk
    have hget : st.lst[k]? = some st.lst[k] := List.getElem?_eq_getElem hklt
    exact ⟨k, st.lst[k], rfl, hget, by simp [hget]⟩

/-! ## One step, strongest form -/

/-- What is known about a returned item: it is the very list item. -/
def ItemRel (st : ArgsSt) (it : ArgItem) (e : Expr) : Prop :=
  it = .grp e ∧ e ∈ st.lst

theorem outRel_mono {R R' : ArgItem → Expr → Prop} (h : ∀ it e, R it e → R' it e)
    {o : ArgsOut} {s : SpecOut} (hr : OutRel R o s) : OutRel R' o s := by
  cases o <;> cases s <;> simp_all [OutRel]

theorem outLoop_toRel {R : ArgItem → Expr → Prop} {o : ArgsOut} {s : SpecOut}
    (hr : OutLoop o s) : OutRel R o s := by
  cases o <;> cases s <;> simp_all [OutRel, OutLoop]

theorem step_core (st : ArgsSt) (op : ArgsOp) (h : Inv st) :
    (Args.step st op).1.lst = (specStep st.lst op).1 ∧ Inv (Args.step st op).1 ∧
    OutRel (ItemRel st) (Args.step st op).2 (specStep st.lst op).2 := by
  cases op with
  | append a =>
    simp only [Args.step, Args.append, specStep]
    rw [specInsertVal_eq]
    rcases insert_char st st.lst.length a h with ⟨hc, hi⟩ | ⟨it, all', hc, hi, _, hinv⟩
    · rw [hi, hc]; exact ⟨rfl, h, trivial⟩
    · rw [hi, hc]; exact ⟨rfl, hinv, trivial⟩
  | insert i a =>
    simp only [Args.step, specStep]
    rw [specInsertVal_eq]
    rcases insert_char st i a h with ⟨hc, hi⟩ | ⟨it, all', hc, hi, _, hinv⟩
    · rw [hi, hc]; exact ⟨rfl, h, trivial⟩
    · rw [hi, hc]; exact ⟨rfl, hinv, trivial⟩
  | extend as =>
    simp only [Args.step, specStep]
    have := extend_refines st as h
    exact ⟨this.1, this.2.1, outLoop_toRel this.2.2⟩
  | remove a =>
    simp only [Args.step, specStep]
    rw [← coerce_eq_spec]
    rcases remove_char st a h with ⟨hc, hr⟩ | ⟨it, hc, hs, ⟨_, hr⟩ | ⟨j, _, hr, hinv⟩⟩ |
      ⟨it, j, l', hc, hs, _, hr, hinv⟩
    · rw [hr, hc]; exact ⟨rfl, h, trivial⟩
    · rw [hr, hc]; simp only [hs]; exact ⟨trivial, h, trivial⟩
    · rw [hr, hc]; simp only [hs]; exact ⟨trivial, hinv, trivial⟩
    · rw [hr, hc]; simp only [hs]; exact ⟨trivial, hinv, trivial⟩
  | pop i =>
    simp only [Args.step, specStep]
    rcases pop_char st i h with ⟨hk, hp⟩ | ⟨k, e, j, hk, hget, _, hp, hinv⟩
    · rw [hp, hk]; exact ⟨rfl, h, trivial⟩
    · rw [hp, hk]; simp only [hget]
      exact ⟨List.eraseIdx_eq_take_drop_succ _ _, hinv, rfl, List.mem_of_getElem? hget⟩
  | reverse => exact ⟨rfl, inv_reverse h, trivial⟩
  | clear => exact ⟨rfl, inv_empty, trivial⟩
  | getItem i =>
    simp only [Args.step, specStep]
    rcases getItem_char st i with ⟨hk, hg⟩ | ⟨k, e, hk, hget, hg⟩
    · rw [hg, hk]; exact ⟨rfl, h, trivial⟩
    · rw [hg, hk]; simp only [hget]
      exact ⟨trivial, h, rfl, List.mem_of_getElem? hget⟩
  | slice lo hi =>
    simp only [Args.step, specStep]
    rcases slice_char st lo hi h with ⟨st', hs, hl, hinv⟩
    rw [hs]; exact ⟨rfl, h, hl, hinv⟩
  | str =>
    simp only [Args.step, specStep, Args.str]
    exact ⟨trivial, h, serL_eq_flatten _⟩

/-! ## The pool of the property: plain groups -/

theorem ser_plain (k : GKind) (s : Str) (p q : Int) :
    ser (.group k [.text s p] q) = k.open ++ (s ++ k.close) := by
  simp [ser, serL]

theorem ser_inj_plain {a b : Expr} (ha : Plain a) (hb : Plain b) (h : ser a = ser b) : a = b := by
  rcases ha with ⟨k, s, rfl⟩
  rcases hb with ⟨k', s', rfl⟩
  rw [ser_plain, ser_plain] at h
  cases k <;> cases k' <;> simp [GKind.open, GKind.close] at h
  · rw [h]
  · rw [h]

theorem plain_not_blank {e : Expr} (he : Plain e) : isBlank (ser e) = false := by
  rcases he with ⟨k, s, rfl⟩
  rw [ser_plain]
  have h1 : isSpaceCh 91 = false := by decide
  have h2 : isSpaceCh 123 = false := by decide
  cases k <;> simp [isBlank, GKind.open, h1, h2]

theorem specGroup_plain {s : Str} {e : Expr} (h : specGroup s = some e) : Plain e := by
  unfold specGroup at h
  split at h
  · split at h
    · simp at h; exact ⟨_, _, h.symm⟩
    · simp at h
  · split at h
    · simp at h; exact ⟨_, _, h.symm⟩
    · simp at h
  · simp at h

theorem coerceStr_plain {s : Str} {it : ArgItem} (h : coerceStr s = some it) : PlainItem it := by
  rw [coerceStr_eq_spec] at h
  unfold specStr at h
  split at h
  · next hb => simp at h; subst h; exact hb
  · cases hg : specGroup s with
    | none => simp [hg] at h
    | some e => simp [hg] at h; subst h; exact specGroup_plain hg

theorem coerce_plain {a : ArgIn} {it : ArgItem} (ha : PlainIn a) (h : coerce a = some it) :
    PlainItem it := by
  cases a with
  | str s => exact coerceStr_plain h
  | grp e =>
    rcases ha with ⟨k, s, rfl⟩
    simp [coerce] at h; subst h; exact ⟨k, s, rfl⟩

theorem mem_insLst {l : List Expr} {i : Int} {it : ArgItem} {x : Expr} (h : x ∈ insLst l i it) :
    x ∈ l ∨ it = .grp x := by
  unfold insLst at h
  cases hl : listed it with
  | none => rw [hl] at h; exact Or.inl h
  | some e =>
    rw [hl] at h
    simp only [specInsert, List.mem_append, List.mem_cons] at h
    rcases h with h | rfl | h
    · exact Or.inl (List.mem_of_mem_take h)
    · exact Or.inr (listed_some hl).1
    · exact Or.inl (List.mem_of_mem_drop h)

theorem plainSt_sub {st : ArgsSt} (hp : PlainSt st) {l' : List Expr} {a' : List ArgItem}
    (h1 : ∀ x ∈ l', x ∈ st.lst) (h2 : ∀ x ∈ a', x ∈ st.all) : PlainSt ⟨l', a'⟩ :=
  ⟨fun e he => hp.lst e (h1 e he), fun it hi => hp.all it (h2 it hi)⟩

theorem plain_insert (st : ArgsSt) (i : Int) (a : ArgIn) (h : Inv st) (hp : PlainSt st)
    (ha : PlainIn a) : PlainSt (Args.insert st i a).1 := by
  rcases insert_char st i a h with ⟨_, hi⟩ | ⟨it, all', hc, hi, hadds, _⟩
  · rw [hi]; exact hp
  · rw [hi]
    have hit := coerce_plain ha hc
    constructor
    · intro e he
      rcases mem_insLst he with he | rfl
      · exact hp.lst e he
      · exact hit
    · intro x hx
      rcases hadds.2 x hx with rfl | hx
      · exact hit
      · exact hp.all x hx

theorem plain_extend (st : ArgsSt) (as : List ArgIn) (h : Inv st) (hp : PlainSt st)
    (ha : ∀ a ∈ as, PlainIn a) : PlainSt (Args.extend st as).1 := by
  induction as generalizing st with
  | nil => exact hp
  | cons a r ih =>
    unfold Args.extend Args.append
    have hpi := plain_insert st st.lst.length a h hp (ha a (by simp))
    rcases insert_char st st.lst.length a h with ⟨_, hi⟩ | ⟨it, all', _, hi, _, hinv⟩
    · rw [hi]; exact hp
    · rw [hi] at hpi ⊢
      exact ih _ hinv hpi (fun x hx => ha x (by simp [hx]))

theorem specRemove_sub {t : Str} {l l' : List Expr} (h : specRemove t l = some l') :
    ∀ x ∈ l', x ∈ l := by
  rw [specRemove_eq] at h
  cases hk : idxOfTxt ser t l with
  | none => simp [hk] at h
  | some k => simp [hk] at h; subst h; exact fun x hx => List.mem_of_mem_eraseIdx hx

theorem plain_step (st : ArgsSt) (op : ArgsOp) (h : Inv st) (hp : PlainSt st)
    (hop : PlainOp op) : PlainSt (Args.step st op).1 := by
  cases op with
  | append a => exact plain_insert st _ a h hp hop
  | insert i a => exact plain_insert st i a h hp hop
  | extend as => exact plain_extend st as h hp hop
  | remove a =>
    simp only [Args.step]
    rcases remove_char st a h with ⟨_, hr⟩ | ⟨it, _, _, ⟨_, hr⟩ | ⟨j, _, hr, _⟩⟩ |
      ⟨it, j, l', _, hs, _, hr, _⟩
    · rw [hr]; exact hp
    · rw [hr]; exact hp
    · rw [hr]; exact plainSt_sub hp (fun _ hx => hx) (fun _ hx => List.mem_of_mem_eraseIdx hx)
    · rw [hr]; exact plainSt_sub hp (specRemove_sub hs) (fun _ hx => List.mem_of_mem_eraseIdx hx)
  | pop i =>
    simp only [Args.step]
    rcases pop_char st i h with ⟨_, hq⟩ | ⟨k, e, j, _, _, _, hq, _⟩
    · rw [hq]; exact hp
    · rw [hq]
      exact plainSt_sub hp (fun _ hx => List.mem_of_mem_eraseIdx hx) (fun _ hx => List.mem_of_mem_eraseIdx hx)
  | reverse =>
    exact plainSt_sub hp (fun _ hx => List.mem_reverse.mp hx) (fun _ hx => List.mem_reverse.mp hx)
  | clear => exact ⟨by simp [Args.step, Args.clear], by simp [Args.step, Args.clear]⟩
  | getItem i =>
    simp only [Args.step]
    rcases getItem_char st i with ⟨_, hg⟩ | ⟨k, e, _, _, hg⟩ <;> rw [hg] <;> exact hp
  | slice lo hi =>
    simp only [Args.step]
    rcases slice_char st lo hi h with ⟨st', hs, _, _⟩
    rw [hs]; exact hp
  | str => exact hp

/-- On plain pools a textual twin is the same value (so even the pre-repair `pop` returned
the right thing there). -/
theorem twin_exact_of_plain {st : ArgsSt} (hp : PlainSt st) {it : ArgItem} {e : Expr}
    (hit : it ∈ st.all) (he : e ∈ st.lst) (htxt : it.txt = ser e) : it = .grp e := by
  have hpe := hp.lst e he
  have hpi := hp.all it hit
  cases it with
  | grp x => rw [ser_inj_plain hpi hpe htxt]
  | ws s =>
    have : isBlank s = true := hpi
    have h2 := plain_not_blank hpe
    simp only [ArgItem.txt] at htxt
    rw [← htxt, this] at h2
    cases h2

/-! ## Concrete values used by the non-vacuity examples of `Properties/C18.lean` -/
namespace Examples
def gA : Expr := .group .brace [.text [97] (-1)] (-1)          -- {a}
def gB : Expr := .group .brace [.text [98] (-1)] (-1)          -- {b}
def gY : Expr := .group .brace [.text [121] (-1)] (-1)         -- {y}
def sA : Str := [123, 97, 125]                                  -- '{a}'
def sB : Str := [123, 98, 125]                                  -- '{b}'
def sY : Str := [123, 121, 125]                                 -- '{y}'
/-- `TexArgs(['{a}', ' ', '{b}'])`. -/
def stAB : ArgsSt := ⟨[gA, gB], [.grp gA, .grp gB, .ws [32]]⟩

theorem stAB_reachable : (Args.construct [.str sA, .str [32], .str sB]).1 = stAB := rfl
theorem stAB_inv : Inv stAB :=
  ⟨by simp [stAB, gA, gB, isArgObj], by
    intro t
    have : (stAB.all.map ArgItem.txt) = stAB.lst.map ser ++ [[32]] := rfl
    rw [this, List.count_append]; omega⟩

end Examples

end ArgsLemmas
end TexSoup
