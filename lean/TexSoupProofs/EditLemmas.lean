import TexSoupModel.Edit
/-!
# Edit lemmas, part 1: serialisation frames and offsets

Everything here is about how `ser`/`serL` decompose around a node named by a `Path`
(`frame` lemmas: `ser e = A ++ (ser y ++ B)`), how `updAt`/`editHolder` act inside such a
frame, and the definitions of the character offsets (`offAt`, `offAtRoot`, `insOff`,
`insOffRoot`) that the property files C05/C14/C15 use.
-/
namespace TexSoup.Edit

/-! ## Pure list facts -/

/-- The reference splice on strings: replace `len` characters at offset `k` by `new`. -/
def splice {α : Type} (s : List α) (k len : Nat) (new : List α) : List α :=
  s.take k ++ (new ++ s.drop (k + len))

theorem splice_frame {α : Type} (A M B M' : List α) :
    splice (A ++ (M ++ B)) A.length M.length M' = A ++ (M' ++ B) := by
  unfold splice
  rw [List.take_left' rfl, ← List.append_assoc A M B,
    List.drop_left' (by simp)]

theorem frame_take {α : Type} {s A M B : List α} (h : s = A ++ (M ++ B)) :
    s.take A.length = A := by
  subst h; exact List.take_left' rfl

theorem frame_drop {α : Type} {s A M B : List α} (h : s = A ++ (M ++ B)) :
    s.drop (A.length + M.length) = B := by
  subst h; rw [← List.append_assoc]; exact List.drop_left' (by simp)

/-- A frame around `M` turned into the take/drop form used by the property statements. -/
theorem frame_splice {α : Type} {s s' A M B M' : List α} {k : Nat}
    (h : s = A ++ (M ++ B)) (h' : s' = A ++ (M' ++ B)) (hk : A.length = k) :
    s' = s.take k ++ (M' ++ s.drop (k + M.length)) := by
  subst hk; rw [frame_take h, frame_drop h, h']

/-! ## `serL` -/

@[simp] theorem serL_nil : serL [] = [] := by simp [serL]
@[simp] theorem serL_cons (e : Expr) (es : List Expr) : serL (e :: es) = ser e ++ serL es := by
  simp [serL]

theorem serL_append (a b : List Expr) : serL (a ++ b) = serL a ++ serL b := by
  induction a with
  | nil => simp
  | cons x xs ih => simp [ih]

theorem serL_singleton (e : Expr) : serL [e] = ser e := by simp

/-- Replace `d` elements at index `j` of a list by `ns`. All structural edits are of this
form (`delete`: `d = 1`, `ns = []`; `replace`: `d = 1`; `insert`/`append`: `d = 0`). -/
def spliceList (j d : Nat) (ns l : List Expr) : List Expr := l.take j ++ (ns ++ l.drop (j + d))

theorem serL_split (l : List Expr) (j d : Nat) :
    serL l = serL (l.take j) ++ (serL ((l.drop j).take d) ++ serL (l.drop (j + d))) := by
  rw [← serL_append, ← serL_append]
  congr 1
  rw [← List.drop_drop, List.take_append_drop, List.take_append_drop]

theorem serL_spliceList (l ns : List Expr) (j d : Nat) :
    serL (spliceList j d ns l) = serL (l.take j) ++ (serL ns ++ serL (l.drop (j + d))) := by
  simp [spliceList, serL_append]

theorem take_one_drop {l : List Expr} {j : Nat} {x : Expr} (h : l[j]? = some x) :
    (l.drop j).take 1 = [x] := by
  have hj : j < l.length := by
    have := List.getElem?_eq_some_iff.mp h; exact this.1
  rw [List.drop_eq_getElem_cons hj]
  have : l[j] = x := by
    have := List.getElem?_eq_some_iff.mp h; exact this.2
  simp [this]

theorem set_eq_spliceList {l : List Expr} {j : Nat} (x' : Expr) (hj : j < l.length) :
    l.set j x' = spliceList j 1 [x'] l := by
  unfold spliceList
  rw [List.set_eq_take_append_cons_drop, if_pos hj]; rfl

theorem eraseIdx_eq_spliceList (l : List Expr) (j : Nat) :
    l.eraseIdx j = spliceList j 1 [] l := by
  unfold spliceList; rw [List.eraseIdx_eq_take_drop_succ]; rfl

theorem insertAt_eq_spliceList (i : Nat) (ns l : List Expr) :
    insertAt i ns l = spliceList i 0 ns l := rfl

theorem insertAt_min (i : Nat) (ns l : List Expr) :
    insertAt i ns l = insertAt (min i l.length) ns l := by
  unfold insertAt
  rcases Nat.le_total i l.length with h | h
  · rw [Nat.min_eq_left h]
  · rw [Nat.min_eq_right h, List.take_of_length_le h, List.drop_eq_nil_of_le h]; simp

theorem append_eq_spliceList (ns l : List Expr) :
    l ++ ns = spliceList l.length 0 ns l := by
  unfold spliceList; simp

/-! ## The text around the body and around the arguments of a node -/

def _root_.TexSoup.Expr.hasBody : Expr → Bool
  | .text _ _ => false
  | _ => true

def _root_.TexSoup.Expr.hasArgs : Expr → Bool
  | .cmd _ _ _ _ | .nenv _ _ _ _ => true
  | _ => false

/-- The text of a node before its own contents (opening part and arguments). -/
def bodyPre : Expr → Str
  | .text s _ => s
  | .cmd name args _ _ => 92 :: (name ++ serL args)
  | .nenv name args _ _ => strBegin ++ (name ++ (125 :: serL args))
  | .math k _ _ => k.open
  | .group k _ _ => k.open

/-- The text of a node after its own contents. -/
def bodyPost : Expr → Str
  | .text _ _ => []
  | .cmd _ _ _ _ => []
  | .nenv name _ _ _ => strEnd ++ (name ++ [125])
  | .math k _ _ => k.close
  | .group k _ _ => k.close

/-- The text of a node before its arguments. -/
def argsPre : Expr → Str
  | .cmd name _ _ _ => 92 :: name
  | .nenv name _ _ _ => strBegin ++ (name ++ [125])
  | _ => []

/-- The text of a node after its arguments. -/
def argsPost : Expr → Str
  | .cmd _ _ body _ => serL body
  | .nenv name _ body _ => serL body ++ (strEnd ++ (name ++ [125]))
  | _ => []

theorem ser_body (e : Expr) (h : e.hasBody = true) :
    ser e = bodyPre e ++ (serL e.body ++ bodyPost e) := by
  cases e <;> simp_all [Expr.hasBody, ser, bodyPre, bodyPost, Expr.body]

theorem ser_setBody (e : Expr) (b : List Expr) (h : e.hasBody = true) :
    ser (e.setBody b) = bodyPre e ++ (serL b ++ bodyPost e) := by
  cases e <;> simp_all [Expr.hasBody, ser, bodyPre, bodyPost, Expr.setBody]

theorem ser_args (e : Expr) (h : e.hasArgs = true) :
    ser e = argsPre e ++ (serL e.args ++ argsPost e) := by
  cases e <;> simp_all [Expr.hasArgs, ser, argsPre, argsPost, Expr.args]

theorem ser_setArgs (e : Expr) (a : List Expr) (h : e.hasArgs = true) :
    ser (e.setArgs a) = argsPre e ++ (serL a ++ argsPost e) := by
  cases e <;> simp_all [Expr.hasArgs, ser, argsPre, argsPost, Expr.setArgs]

theorem bodyPre_eq_args (e : Expr) (h : e.hasArgs = true) :
    bodyPre e = argsPre e ++ serL e.args := by
  cases e <;> simp_all [Expr.hasArgs, bodyPre, argsPre, Expr.args]

theorem hasBody_of_body_get {e : Expr} {j : Nat} {x : Expr} (h : e.body[j]? = some x) :
    e.hasBody = true := by
  cases e <;> simp_all [Expr.body, Expr.hasBody]

theorem hasArgs_of_args_get {e : Expr} {i : Nat} {a : Expr} (h : e.args[i]? = some a) :
    e.hasArgs = true := by
  cases e <;> simp_all [Expr.args, Expr.hasArgs]

theorem hasBody_of_supportsContents {e : Expr} (h : e.supportsContents = true) :
    e.hasBody = true := by
  cases e <;> simp_all [Expr.supportsContents, Expr.hasBody]

@[simp] theorem body_setBody (e : Expr) (b : List Expr) (h : e.hasBody = true) :
    (e.setBody b).body = b := by
  cases e <;> simp_all [Expr.hasBody, Expr.setBody, Expr.body]

@[simp] theorem args_setBody (e : Expr) (b : List Expr) : (e.setBody b).args = e.args := by
  cases e <;> simp [Expr.setBody, Expr.args]

@[simp] theorem args_setArgs (e : Expr) (a : List Expr) (h : e.hasArgs = true) :
    (e.setArgs a).args = a := by
  cases e <;> simp_all [Expr.hasArgs, Expr.setArgs, Expr.args]

@[simp] theorem body_setArgs (e : Expr) (a : List Expr) : (e.setArgs a).body = e.body := by
  cases e <;> simp [Expr.setArgs, Expr.body]

@[simp] theorem hasBody_setBody (e : Expr) (b : List Expr) : (e.setBody b).hasBody = e.hasBody := by
  cases e <;> simp [Expr.setBody, Expr.hasBody]

@[simp] theorem hasArgs_setBody (e : Expr) (b : List Expr) : (e.setBody b).hasArgs = e.hasArgs := by
  cases e <;> simp [Expr.setBody, Expr.hasArgs]

@[simp] theorem hasBody_setArgs (e : Expr) (a : List Expr) : (e.setArgs a).hasBody = e.hasBody := by
  cases e <;> simp [Expr.setArgs, Expr.hasBody]

@[simp] theorem hasArgs_setArgs (e : Expr) (a : List Expr) : (e.setArgs a).hasArgs = e.hasArgs := by
  cases e <;> simp [Expr.setArgs, Expr.hasArgs]

/-! ## Holders -/

def _root_.TexSoup.Step.idx : Step → Nat
  | .arg _ j => j
  | .body j => j

def _root_.TexSoup.Step.withIdx : Step → Nat → Step
  | .arg i _, j => .arg i j
  | .body _, j => .body j

/-- Two steps address elements of the same holder list. -/
def _root_.TexSoup.Step.sameHolder : Step → Step → Bool
  | .arg i _, .arg i' _ => i == i'
  | .body _, .body _ => true
  | _, _ => false

/-- The list that holds the element addressed by `st` (the node's own contents, or the
contents of its `i`-th argument). -/
def holderList (e : Expr) : Step → Option (List Expr)
  | .body _ => if e.hasBody then some e.body else none
  | .arg i _ => match e.args[i]? with
    | some a => if a.hasBody then some a.body else none
    | none => none

/-- Number of characters of `ser e` before the contents of the holder addressed by `st`. -/
def hOff (e : Expr) : Step → Option Nat
  | .body _ => if e.hasBody then some (bodyPre e).length else none
  | .arg i _ => match e.args[i]? with
    | some a => if a.hasBody then
        some ((argsPre e).length + (serL (e.args.take i)).length + (bodyPre a).length) else none
    | none => none

/-- Frame of the holder list inside its node, and the effect of `editHolder`. -/
theorem holder_frame {e : Expr} {st : Step} {l : List Expr} (h : holderList e st = some l) :
    ∃ C D, ser e = C ++ (serL l ++ D) ∧ hOff e st = some C.length ∧
      ∀ (g : Nat → List Expr → Option (List Expr)) (l' : List Expr), g st.idx l = some l' →
        ∃ e', editHolder e st g = some e' ∧ ser e' = C ++ (serL l' ++ D) ∧
          holderList e' st = some l' ∧ e'.hasBody = e.hasBody ∧ e'.hasArgs = e.hasArgs := by
  cases st with
  | body j =>
    simp only [holderList] at h
    split at h
    · rename_i hb
      injection h with h; subst h
      refine ⟨bodyPre e, bodyPost e, ser_body e hb, by simp [hOff, hb], ?_⟩
      intro g l' hg
      refine ⟨e.setBody l', ?_, ser_setBody e l' hb, ?_, by simp, by simp⟩
      · simp only [editHolder, Step.idx] at hg ⊢; rw [hg]
      · simp [holderList, hb]
    · cases h
  | arg i j =>
    simp only [holderList] at h
    split at h
    · rename_i a ha
      split at h
      · rename_i hb
        injection h with h; subst h
        have hA := hasArgs_of_args_get ha
        have hi : i < e.args.length := (List.getElem?_eq_some_iff.mp ha).1
        refine ⟨argsPre e ++ (serL (e.args.take i) ++ bodyPre a),
          bodyPost a ++ (serL (e.args.drop (i + 1)) ++ argsPost e), ?_, ?_, ?_⟩
        · rw [ser_args e hA, serL_split e.args i 1, take_one_drop ha, serL_singleton,
            ser_body a hb]
          simp [List.append_assoc]
        · simp [hOff, ha, hb, Nat.add_assoc]
        · intro g l' hg
          refine ⟨e.setArgs (e.args.set i (a.setBody l')), ?_, ?_, ?_, by simp, by simp⟩
          · simp only [editHolder, Step.idx, ha] at hg ⊢; rw [hg]
          · rw [ser_setArgs _ _ hA, set_eq_spliceList _ hi, serL_spliceList, serL_singleton,
              ser_setBody a l' hb]
            simp [List.append_assoc]
          · simp [holderList, hA, hi, hb]
      · cases h
    · cases h

/-! ## Offsets -/

/-- Offset inside `ser e` of the child addressed by `st` (also meaningful for `st.idx` equal
to the length of the holder: the insertion point at the end). -/
def offStep (e : Expr) (st : Step) : Option Nat :=
  match hOff e st, holderList e st with
  | some k, some l => some (k + (serL (l.take st.idx)).length)
  | _, _ => none

/-- Sum of two optional offsets. -/
def optAdd : Option Nat → Option Nat → Option Nat
  | some a, some b => some (a + b)
  | _, _ => none

@[simp] theorem optAdd_some (a b : Nat) : optAdd (some a) (some b) = some (a + b) := rfl
@[simp] theorem optAdd_none_left (b : Option Nat) : optAdd none b = none := by cases b <;> rfl
@[simp] theorem optAdd_none_right (a : Option Nat) : optAdd a none = none := by cases a <;> rfl
theorem optAdd_assoc (a b c : Option Nat) : optAdd (optAdd a b) c = optAdd a (optAdd b c) := by
  cases a <;> cases b <;> cases c <;> simp [Nat.add_assoc]

/-- Number of characters of `ser e` that precede the node at path `p`. -/
def offAt : Expr → Path → Option Nat
  | _, [] => some 0
  | e, st :: p => match stepGet e st with
    | some x => optAdd (offStep e st) (offAt x p)
    | none => none

/-- Offset of the insertion point `i` in container `c`: after the container's opening
part, its arguments and its first `i` body elements. -/
def insOff (c : Expr) (i : Nat) : Nat := (bodyPre c).length + (serL (c.body.take i)).length

/-- Number of characters of `serL es` (the document text) that precede the node at `p`. The
root itself (`p = []`) starts at 0; the root has no arguments. -/
def offAtRoot (es : List Expr) : Path → Option Nat
  | [] => some 0
  | .body j :: p => match es[j]? with
    | some x => optAdd (some (serL (es.take j)).length) (offAt x p)
    | none => none
  | .arg _ _ :: _ => none

/-- Offset in the document text of insertion point `i` of the container at path `c`. -/
def insOffRoot (es : List Expr) (c : Path) (i : Nat) : Option Nat :=
  match c with
  | [] => some (serL (es.take i)).length
  | _ :: _ => match getAtRoot es c with
    | some y => optAdd (offAtRoot es c) (some (insOff y i))
    | none => none

theorem stepGet_holder {e : Expr} {st : Step} {x : Expr} (h : stepGet e st = some x) :
    ∃ l, holderList e st = some l ∧ l[st.idx]? = some x := by
  cases st with
  | body j =>
    simp only [stepGet] at h
    exact ⟨e.body, by simp [holderList, hasBody_of_body_get h], h⟩
  | arg i j =>
    simp only [stepGet] at h
    split at h
    · rename_i a ha
      exact ⟨a.body, by simp [holderList, ha, hasBody_of_body_get h], h⟩
    · cases h

theorem holderList_stepGet {e : Expr} {st : Step} {l : List Expr}
    (h : holderList e st = some l) : stepGet e st = l[st.idx]? := by
  cases st with
  | body j =>
    simp only [holderList] at h
    split at h
    · injection h with h; subst h; rfl
    · cases h
  | arg i j =>
    simp only [holderList] at h
    split at h
    · rename_i a ha
      split at h
      · injection h with h; subst h; simp [stepGet, ha, Step.idx]
      · cases h
    · cases h

/-! ## Frames along a path -/

theorem updAt_cons (e : Expr) (st : Step) (p : Path) (f : Expr → Option Expr) :
    updAt e (st :: p) f = match stepGet e st with
      | some x => match updAt x p f with
        | some x' => editHolder e st (fun j l => some (l.set j x'))
        | none => none
      | none => none := by
  cases st with
  | body j =>
    simp only [updAt, stepGet, editHolder]
    cases e.body[j]? with
    | none => rfl
    | some x => simp only []; cases updAt x p f <;> rfl
  | arg i j =>
    simp only [updAt, stepGet, editHolder]
    cases e.args[i]? with
    | none => rfl
    | some a =>
      simp only []
      cases a.body[j]? with
      | none => rfl
      | some x => simp only []; cases updAt x p f <;> rfl

theorem getAt_cons (e : Expr) (st : Step) (p : Path) :
    getAt e (st :: p) = match stepGet e st with
      | some x => getAt x p
      | none => none := by
  simp only [getAt]; cases stepGet e st <;> rfl

/-- Frame of the node at path `q` inside `ser e`, and the effect of `updAt`. -/
theorem updAt_frame {q : Path} : ∀ {e y : Expr}, getAt e q = some y →
    ∃ A B, ser e = A ++ (ser y ++ B) ∧ offAt e q = some A.length ∧
      ∀ (f : Expr → Option Expr) (y' : Expr), f y = some y' →
        ∃ e', updAt e q f = some e' ∧ ser e' = A ++ (ser y' ++ B) ∧ getAt e' q = some y' := by
  induction q with
  | nil =>
    intro e y h
    simp only [getAt] at h; injection h with h; subst h
    refine ⟨[], [], by simp, by simp [offAt], ?_⟩
    intro f y' hf
    exact ⟨y', by simp [updAt, hf], by simp, by simp [getAt]⟩
  | cons st p ih =>
    intro e y h
    rw [getAt_cons] at h
    split at h
    · rename_i x hx
      obtain ⟨A1, B1, hser1, hoff1, hupd1⟩ := ih h
      obtain ⟨l, hl, hlx⟩ := stepGet_holder hx
      obtain ⟨C, D, hserC, hoffC, hedit⟩ := holder_frame hl
      have hj : st.idx < l.length := (List.getElem?_eq_some_iff.mp hlx).1
      refine ⟨C ++ (serL (l.take st.idx) ++ A1), B1 ++ (serL (l.drop (st.idx + 1)) ++ D), ?_, ?_, ?_⟩
      · rw [hserC, serL_split l st.idx 1, take_one_drop hlx, serL_singleton, hser1]
        simp [List.append_assoc]
      · simp [offAt, offStep, hoffC, hl, hx, hoff1, Nat.add_assoc]
      · intro f y' hf
        obtain ⟨x', hx', hserx', hget'⟩ := hupd1 f y' hf
        obtain ⟨e', he', hsere', hl', _, _⟩ := hedit (fun j l => some (l.set j x')) (l.set st.idx x') rfl
        refine ⟨e', ?_, ?_, ?_⟩
        · rw [updAt_cons, hx]; simp only [hx']; exact he'
        · rw [hsere', set_eq_spliceList _ hj, serL_spliceList, serL_singleton, hserx']
          simp [List.append_assoc]
        · rw [getAt_cons, holderList_stepGet hl']
          simp [hj, hget']
    · cases h

/-- The generic structural edit of a node: replace `d` elements at the place addressed by
`st` in its holder by `ns`. -/
def holderSpliceF (st : Step) (d : Nat) (ns : List Expr) (e : Expr) : Option Expr :=
  editHolder e st (fun j l => if j + d ≤ l.length then some (spliceList j d ns l) else none)

theorem holderSplice_frame {e : Expr} {st : Step} {l : List Expr} (d : Nat) (ns : List Expr)
    (hl : holderList e st = some l) (hd : st.idx + d ≤ l.length) :
    ∃ C D, ser e = C ++ (serL ((l.drop st.idx).take d) ++ D) ∧ offStep e st = some C.length ∧
      ∃ e', holderSpliceF st d ns e = some e' ∧ ser e' = C ++ (serL ns ++ D) ∧
        holderList e' st = some (spliceList st.idx d ns l) ∧
        e'.hasBody = e.hasBody ∧ e'.hasArgs = e.hasArgs := by
  obtain ⟨C, D, hser, hoff, hedit⟩ := holder_frame hl
  refine ⟨C ++ serL (l.take st.idx), serL (l.drop (st.idx + d)) ++ D, ?_, ?_, ?_⟩
  · rw [hser, serL_split l st.idx d]; simp [List.append_assoc]
  · simp [offStep, hoff, hl]
  · obtain ⟨e', he', hser', hl', hb, ha⟩ := hedit
      (fun j l => if j + d ≤ l.length then some (spliceList j d ns l) else none)
      (spliceList st.idx d ns l) (by simp [hd])
    refine ⟨e', he', ?_, hl', hb, ha⟩
    rw [hser', serL_spliceList]; simp [List.append_assoc]

/-- `holderSpliceF` fails exactly when the place does not exist. -/
theorem holderSpliceF_isSome {e : Expr} {st : Step} {d : Nat} {ns : List Expr} {e' : Expr}
    (h : holderSpliceF st d ns e = some e') :
    ∃ l, (match st with
      | .body _ => some e.body
      | .arg i _ => (e.args[i]?).map Expr.body) = some l ∧ st.idx + d ≤ l.length := by
  unfold holderSpliceF at h
  cases st with
  | body j =>
    simp only [editHolder] at h
    split at h
    · rename_i b hb
      split at hb
      · exact ⟨e.body, rfl, by simpa [Step.idx]⟩
      · cases hb
    · cases h
  | arg i j =>
    simp only [editHolder] at h
    split at h
    · cases h
    · rename_i a ha
      split at h
      · rename_i b hb
        split at hb
        · exact ⟨a.body, by simp [ha], by simpa [Step.idx]⟩
        · cases hb
      · cases h

theorem offAt_append {q : Path} : ∀ {e y : Expr} (p : Path), getAt e q = some y →
    offAt e (q ++ p) = optAdd (offAt e q) (offAt y p) := by
  induction q with
  | nil =>
    intro e y p h
    simp only [getAt] at h; injection h with h; subst h
    simp only [List.nil_append, offAt]
    cases offAt e p <;> simp
  | cons st q ih =>
    intro e y p h
    rw [getAt_cons] at h
    split at h
    · rename_i x hx
      simp only [List.cons_append, offAt, hx]
      rw [ih p h, optAdd_assoc]
    · cases h

/-! ## The root -/

theorem rootWrap_args (es : List Expr) : (rootWrap es).args = [] := rfl
theorem rootWrap_body (es : List Expr) : (rootWrap es).body = es := rfl

theorem stepGet_root (es : List Expr) (st : Step) :
    stepGet (rootWrap es) st = match st with
      | .body j => es[j]?
      | .arg _ _ => none := by
  cases st <;> simp [stepGet, rootWrap, Expr.args, Expr.body]

/-- Frame of a non-root node in the document text. -/
theorem updAtRoot_frame {es : List Expr} {st : Step} {q : Path} {y : Expr}
    (h : getAtRoot es (st :: q) = some y) :
    ∃ A B, serL es = A ++ (ser y ++ B) ∧ offAtRoot es (st :: q) = some A.length ∧
      ∀ (f : Expr → Option Expr) (y' : Expr), f y = some y' →
        ∃ es', updAt (rootWrap es) (st :: q) f = some (rootWrap es') ∧
          serL es' = A ++ (ser y' ++ B) ∧ getAtRoot es' (st :: q) = some y' := by
  unfold getAtRoot at h
  rw [getAt_cons, stepGet_root] at h
  cases st with
  | arg i j => simp at h
  | body j =>
    simp only at h
    split at h
    · rename_i x hx
      obtain ⟨A1, B1, hser1, hoff1, hupd1⟩ := updAt_frame h
      have hj : j < es.length := (List.getElem?_eq_some_iff.mp hx).1
      refine ⟨serL (es.take j) ++ A1, B1 ++ serL (es.drop (j + 1)), ?_, ?_, ?_⟩
      · rw [serL_split es j 1, take_one_drop hx, serL_singleton, hser1]
        simp [List.append_assoc]
      · simp [offAtRoot, hx, hoff1]
      · intro f y' hf
        obtain ⟨x', hx', hserx', hget'⟩ := hupd1 f y' hf
        refine ⟨es.set j x', ?_, ?_, ?_⟩
        · simp only [updAt, rootWrap_body, hx, hx']; rfl
        · rw [set_eq_spliceList _ hj, serL_spliceList, serL_singleton, hserx']
          simp [List.append_assoc]
        · unfold getAtRoot
          rw [getAt_cons, stepGet_root]
          simp [hj, hget']
    · cases h

/-- Offset in the document text of the place addressed by `st` in the node at `q`. -/
def siteOffRoot (es : List Expr) (q : Path) (st : Step) : Option Nat :=
  match q with
  | [] => match st with
    | .body j => some (serL (es.take j)).length
    | .arg _ _ => none
  | _ :: _ => match getAtRoot es q with
    | some e => optAdd (offAtRoot es q) (offStep e st)
    | none => none

/-- The generic structural edit, on the document. -/
theorem root_holderSplice {es : List Expr} {q : Path} {e : Expr} {st : Step} {l : List Expr}
    (d : Nat) (ns : List Expr)
    (hq : getAtRoot es q = some e) (hl : holderList e st = some l) (hd : st.idx + d ≤ l.length) :
    ∃ A B, serL es = A ++ (serL ((l.drop st.idx).take d) ++ B) ∧
      siteOffRoot es q st = some A.length ∧
      ∃ es', updAt (rootWrap es) q (holderSpliceF st d ns) = some (rootWrap es') ∧
        serL es' = A ++ (serL ns ++ B) := by
  cases q with
  | nil =>
    simp only [getAtRoot, getAt] at hq; injection hq with hq; subst hq
    cases st with
    | arg i j => simp [holderList, rootWrap_args] at hl
    | body j =>
      simp only [holderList, rootWrap_body] at hl
      split at hl
      · injection hl with hl; subst hl
        refine ⟨serL (es.take j), serL (es.drop (j + d)), serL_split es j d, by simp [siteOffRoot],
          spliceList j d ns es, ?_, serL_spliceList es ns j d⟩
        simp only [updAt, holderSpliceF, editHolder, rootWrap_body]
        simp only [Step.idx] at hd
        simp [hd, rootWrap, Expr.setBody]
      · cases hl
  | cons s q =>
    obtain ⟨A, B, hser, hoff, hupd⟩ := updAtRoot_frame hq
    obtain ⟨C, D, hserC, hoffC, e', he', hser', _⟩ := holderSplice_frame d ns hl hd
    obtain ⟨es', hes', hserL', _⟩ := hupd (holderSpliceF st d ns) e' he'
    refine ⟨A ++ C, D ++ B, ?_, ?_, es', hes', ?_⟩
    · rw [hser, hserC]; simp [List.append_assoc]
    · simp [siteOffRoot, hoff, hq, hoffC]
    · rw [hserL', hser']; simp [List.append_assoc]

theorem getAt_append (q p : Path) : ∀ (e : Expr),
    getAt e (q ++ p) = match getAt e q with
      | some y => getAt y p
      | none => none := by
  induction q with
  | nil => intro e; simp [getAt]
  | cons st q ih =>
    intro e
    simp only [List.cons_append]
    rw [getAt_cons, getAt_cons]
    cases stepGet e st with
    | none => rfl
    | some x => exact ih x

theorem getAt_singleton (e : Expr) (st : Step) : getAt e [st] = stepGet e st := by
  rw [getAt_cons]; cases stepGet e st <;> simp [getAt]

/-- The offset of a node is the offset of its place in its parent's holder. -/
theorem offAtRoot_snoc {es : List Expr} {q : Path} {st : Step} {x : Expr}
    (h : getAtRoot es (q ++ [st]) = some x) :
    offAtRoot es (q ++ [st]) = siteOffRoot es q st := by
  cases q with
  | nil =>
    unfold getAtRoot at h
    simp only [List.nil_append] at h ⊢
    rw [getAt_singleton, stepGet_root] at h
    cases st with
    | arg i j => simp at h
    | body j =>
      simp only at h
      simp [offAtRoot, siteOffRoot, h, offAt]
  | cons s q =>
    unfold getAtRoot at h
    rw [getAt_append] at h
    split at h
    · rename_i e he
      rw [getAt_singleton] at h
      have he' := he
      rw [getAt_cons, stepGet_root] at he
      cases s with
      | arg i j => simp at he
      | body j =>
        simp only at he
        split at he
        · rename_i y hy
          simp only [List.cons_append, offAtRoot, hy, siteOffRoot, getAtRoot, he']
          rw [offAt_append [st] he, ← optAdd_assoc]
          simp [offAt, h]
          cases offStep e st <;> simp
        · cases he
    · cases h

/-! ## The four structural ops as `holderSpliceF` -/

theorem splitLast_snoc (q : Path) (st : Step) : splitLast (q ++ [st]) = some (q, st) := by
  induction q with
  | nil => rfl
  | cons t q ih =>
    cases q with
    | nil => rfl
    | cons u q => simp only [List.cons_append] at ih ⊢; simp only [splitLast, ih]

theorem splitLast_eq {p q : Path} {st : Step} (h : splitLast p = some (q, st)) : p = q ++ [st] := by
  induction p generalizing q with
  | nil => simp [splitLast] at h
  | cons t p ih =>
    cases p with
    | nil => simp only [splitLast] at h; injection h with h; injection h with h1 h2; subst h1 h2; rfl
    | cons u p =>
      simp only [splitLast] at h
      split at h
      · rename_i q' l hq'
        injection h with h; injection h with h1 h2; subst h1 h2
        have := ih hq'
        simp [this]
      · cases h

theorem splitLast_nil : splitLast [] = none := rfl

theorem updAt_congr {q : Path} {f g : Expr → Option Expr} : ∀ {e y : Expr},
    getAt e q = some y → f y = g y → updAt e q f = updAt e q g := by
  induction q with
  | nil =>
    intro e y h hfg
    simp only [getAt] at h; injection h with h; subst h
    simpa [updAt] using hfg
  | cons st q ih =>
    intro e y h hfg
    rw [getAt_cons] at h
    split at h
    · rename_i x hx
      rw [updAt_cons, updAt_cons, hx]
      simp only [ih h hfg]
    · cases h

theorem updAt_none {q : Path} (f : Expr → Option Expr) : ∀ {e : Expr},
    getAt e q = none → updAt e q f = none := by
  induction q with
  | nil => intro e h; simp [getAt] at h
  | cons st q ih =>
    intro e h
    rw [getAt_cons] at h
    rw [updAt_cons]
    split at h
    · rename_i x hx; simp only [ih h]
    · rename_i hx; simp only []

theorem deleteAt_eq : deleteAt = fun j l =>
    if j + 1 ≤ l.length then some (spliceList j 1 [] l) else none := by
  funext j l
  simp only [deleteAt, eraseIdx_eq_spliceList, Nat.lt_iff_add_one_le]

theorem replaceAt_eq (ns : List Expr) : replaceAt ns = fun j l =>
    if j + 1 ≤ l.length then some (spliceList j 1 ns l) else none := by
  funext j l
  simp only [replaceAt, spliceList, Nat.lt_iff_add_one_le]

theorem editHolderG_delete {e : Expr} {st : Step} (h : holderOK e st = true) :
    editHolderG e st deleteAt = holderSpliceF st 1 [] e := by
  simp [editHolderG, h, holderSpliceF, deleteAt_eq]

theorem editHolderG_replace {e : Expr} {st : Step} (ns : List Expr) (h : holderOK e st = true) :
    editHolderG e st (replaceAt ns) = holderSpliceF st 1 ns e := by
  simp [editHolderG, h, holderSpliceF, replaceAt_eq]

theorem insertF_eq {e : Expr} (i : Nat) (ns : List Expr) (h : e.supportsContents = true) :
    (if e.supportsContents then some (e.setBody (insertAt i ns e.body)) else none)
      = holderSpliceF (.body (min i e.body.length)) 0 ns e := by
  rw [if_pos h, insertAt_min, insertAt_eq_spliceList]
  simp [holderSpliceF, editHolder, Nat.min_le_right]

theorem appendF_eq {e : Expr} (ns : List Expr) (h : e.supportsContents = true) :
    (if e.supportsContents then some (e.setBody (e.body ++ ns)) else none)
      = holderSpliceF (.body e.body.length) 0 ns e := by
  rw [if_pos h, append_eq_spliceList]
  simp [holderSpliceF, editHolder]

/-- The parent of the node at `p` accepts edits of the list holding that node. -/
def parentOK (es : List Expr) (p : Path) : Bool :=
  match splitLast p with
  | some (q, st) => match getAtRoot es q with
    | some e => holderOK e st
    | none => false
  | none => false

/-- The container at `c` supports contents. -/
def containerOK (es : List Expr) (c : Path) : Bool :=
  match getAtRoot es c with
  | some e => e.supportsContents
  | none => false

/-- `offAtRoot` is `offAt` on the wrapped root, minus the 8 characters of the `\begin{}` that
the wrapper would print (the root is serialised with `serL`, without them). -/
theorem offAt_rootWrap (es : List Expr) (st : Step) (p : Path) :
    offAt (rootWrap es) (st :: p) = (offAtRoot es (st :: p)).map (· + 8) := by
  cases st with
  | arg i j => simp [offAt, offAtRoot, stepGet_root]
  | body j =>
    simp only [offAt, offAtRoot, stepGet_root]
    cases es[j]? with
    | none => rfl
    | some x =>
      simp only [offStep, hOff, holderList, rootWrap, Expr.hasBody, if_true, bodyPre, Expr.body,
        Step.idx, strBegin]
      cases offAt x p <;> simp [Nat.add_comm, Nat.add_left_comm]

end TexSoup.Edit
