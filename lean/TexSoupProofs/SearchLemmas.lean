import TexSoupProofs.NavPathLemmas
/-!
# Lemmas about search (`find_all`, `__match__`)
-/
namespace TexSoup

/-- The strings other than names that `TexEnv.__match__` compares a query with and that
contain neither `{` nor `[`: the closers `]` `}` of the groups, and `\]`, `\(`, `\)` of the
unnamed math environments. -/
def envDelims : List Str := [[93], [125], [92, 93], [92, 40], [92, 41]]

/-- A query string that `__match__` treats as a plain name: no `{` and no `[` inside (so the
full-expression comparison `str(self) == name` is not taken), and not one of the delimiters
of an unnamed environment (which `TexEnv.__match__` also accepts). -/
def plainName (n : Str) : Bool := !n.contains 123 && !n.contains 91 && !envDelims.contains n

theorem plainName_iff {n : Str} : plainName n = true ↔
    n.contains 123 = false ∧ n.contains 91 = false ∧
      n ≠ [93] ∧ n ≠ [125] ∧ n ≠ [92, 93] ∧ n ≠ [92, 40] ∧ n ≠ [92, 41] := by
  simp only [plainName, envDelims, Bool.and_eq_true, Bool.not_eq_true', List.contains_eq_mem,
    List.mem_cons, List.not_mem_nil, or_false, decide_eq_false_iff_not, not_or]
  constructor
  · rintro ⟨⟨h1, h2⟩, h3⟩
    exact ⟨by simpa using h1, by simpa using h2, h3⟩
  · rintro ⟨h1, h2, h3⟩
    exact ⟨⟨by simpa using h1, by simpa using h2⟩, h3⟩

theorem beq_false_of_contains {n s : Str} {c : Nat} (hn : n.contains c = false)
    (hs : s.contains c = true) : (n == s) = false := by
  cases h : n == s with
  | false => rfl
  | true =>
    rw [eq_of_beq h] at hn
    rw [hn] at hs
    cases hs

/-- Under `plainName`, `__match__` of a command or environment is comparison of names. -/
theorem matchesQ_plain {n : Str} (hn : plainName n = true) (x : Expr) :
    matchesQ (.name n) x = (x.name == n) := by
  obtain ⟨h1, h2, h3, h4, h5, h6, h7⟩ := plainName_iff.1 hn
  have hb : ∀ s : Str, s.contains 123 = true → (n == s) = false :=
    fun s hs => beq_false_of_contains h1 hs
  have hk : ∀ s : Str, s.contains 91 = true → (n == s) = false :=
    fun s hs => beq_false_of_contains h2 hs
  have hne : ∀ s : Str, n ≠ s → (n == s) = false := fun s h => by simpa using h
  have hcomm : (n == x.name) = (x.name == n) := by
    rw [Bool.eq_iff_iff]; simp only [beq_iff_eq]; exact eq_comm
  simp only [matchesQ, h1, h2, Bool.or_self, Bool.false_eq_true, if_false]
  cases x with
  | text s p => simp [Expr.isEnv]
  | cmd m a b p => simp [Expr.isEnv]
  | nenv m a b p =>
    have e1 : (n == (Expr.nenv m a b p).beginStr ++ serL (Expr.nenv m a b p).args) = false :=
      hb _ (by simp [Expr.beginStr, strBegin])
    have e2 : (n == (Expr.nenv m a b p).beginStr) = false := hb _ (by simp [Expr.beginStr, strBegin])
    have e3 : (n == (Expr.nenv m a b p).endStr) = false := hb _ (by simp [Expr.endStr, strEnd])
    rw [e1, e2, e3, hcomm]
    simp [Expr.isEnv]
  | math k b p =>
    have h8 : n ≠ [92, 91] := fun h => by rw [h] at h2; simp at h2
    rw [Bool.eq_iff_iff]
    cases k <;>
      simp only [Expr.isEnv, Expr.beginStr, Expr.endStr, Expr.name, Expr.args, serL, MKind.open,
        MKind.close, MKind.name, List.append_nil, Bool.true_and, Bool.or_eq_true, beq_iff_eq]
    · constructor
      · rintro ((((h | h) | h) | h) | h) <;> first | exact h.symm | exact h
      · exact fun h => Or.inr h
    · constructor
      · rintro ((((h | h) | h) | h) | h) <;> first | exact h.symm | exact h
      · exact fun h => Or.inr h
    · constructor
      · rintro ((((h | h) | h) | h) | h)
        · exact h.symm
        · exact absurd h h8
        · exact absurd h h8
        · exact absurd h h5
        · exact h
      · exact fun h => Or.inr h
    · constructor
      · rintro ((((h | h) | h) | h) | h)
        · exact h.symm
        · exact absurd h h6
        · exact absurd h h6
        · exact absurd h h7
        · exact h
      · exact fun h => Or.inr h
  | group k b p =>
    have e1 : (n == (Expr.group k b p).beginStr ++ serL (Expr.group k b p).args) = false := by
      cases k
      · exact hk _ (by simp [Expr.beginStr, GKind.open])
      · exact hb _ (by simp [Expr.beginStr, GKind.open])
    have e2 : (n == (Expr.group k b p).beginStr) = false := by
      cases k
      · exact hk _ (by simp [Expr.beginStr, GKind.open])
      · exact hb _ (by simp [Expr.beginStr, GKind.open])
    have e3 : (n == (Expr.group k b p).endStr) = false := by
      cases k
      · exact hne _ (by simpa [Expr.endStr, GKind.close] using h3)
      · exact hne _ (by simpa [Expr.endStr, GKind.close] using h4)
    rw [e1, e2, e3, hcomm]
    simp [Expr.isEnv]

/-- The side condition is exact: for every other query string some command or environment
is matched although its name differs, or is not matched although its name is equal. -/
theorem plainName_exact {n : Str} (hn : plainName n = false) :
    ∃ x : Expr, x.isText = false ∧ matchesQ (.name n) x ≠ (x.name == n) := by
  by_cases h1 : n.contains 123 = true ∨ n.contains 91 = true
  · refine ⟨.cmd n [] [] 0, rfl, ?_⟩
    have hc : (n.contains 123 || n.contains 91) = true := by simpa using h1
    have hlen : (ser (.cmd n [] [] 0) == n) = false := by
      cases h : ser (.cmd n [] [] 0) == n with
      | false => rfl
      | true =>
        have := congrArg List.length (eq_of_beq h)
        simp [ser, serL] at this
    simp only [matchesQ, hc, hlen, Expr.isEnv, Expr.name, Bool.false_and, Bool.false_or,
      ↓reduceIte, beq_self_eq_true]
    decide
  · have h123 : n.contains 123 = false := by
      cases h : n.contains 123 with
      | false => rfl
      | true => exact absurd (Or.inl h) h1
    have h91 : n.contains 91 = false := by
      cases h : n.contains 91 with
      | false => rfl
      | true => exact absurd (Or.inr h) h1
    have hd : n ∈ envDelims := by
      unfold plainName at hn
      rw [h123, h91] at hn
      simpa using hn
    simp only [envDelims, List.mem_cons, List.not_mem_nil, or_false] at hd
    rcases hd with rfl | rfl | rfl | rfl | rfl
    · exact ⟨.group .bracket [] 0, rfl, by decide⟩
    · exact ⟨.group .brace [] 0, rfl, by decide⟩
    · exact ⟨.math .displaymath [] 0, rfl, by decide⟩
    · exact ⟨.math .math [] 0, rfl, by decide⟩
    · exact ⟨.math .math [] 0, rfl, by decide⟩

/-! ## `find_all` -/

theorem findAll_def (q : Query) (e : Expr) :
    findAll q e = (descOf e).filter (fun x => !x.isText && matchesQ q x) := rfl

theorem findAllRoot_eq_wrap (q : Query) (es : List Expr) :
    findAllRoot q es = findAll q (rootWrap es) := by
  rw [findAllRoot, findAll, descRoot_eq_wrap]

/-- For a plain name, `find_all` keeps exactly the descendants carrying that name. -/
theorem findAll_plain {n : Str} (hn : plainName n = true) (e : Expr) :
    findAll (.name n) e = (descOf e).filter (fun x => x.named n) := by
  rw [findAll_def]
  congr 1
  funext x
  rw [matchesQ_plain hn, Expr.named]

/-- `find_all(name)` with its paths: the part of the annotated descendants carrying the
name (same order). -/
theorem findAll_plain_paths {n : Str} (hn : plainName n = true) {e : Expr}
    (he : e.flatArgs = true) :
    findAll (.name n) e = ((descP [] e).filter (fun px => px.2.named n)).map Prod.snd := by
  rw [findAll_plain hn, ← descP_map_snd he [], List.filter_map]
  rfl

theorem findAll_perm_occ {n : Str} (hn : plainName n = true) {e : Expr} (he : e.flatArgs = true) :
    (findAll (.name n) e).Perm ((occ n e).map Prod.snd) := by
  rw [findAll_plain_paths hn he, occ_eq_filter]
  exact ((descP_perm_closureP [] e).filter _).map _

theorem mem_occ_iff {n : Str} {e : Expr} {p : Path} {x : Expr} :
    (p, x) ∈ occ n e ↔ p ≠ [] ∧ getAt e p = some x ∧ x.isText = false ∧ x.name = n := by
  rw [occ_eq_filter, List.mem_filter, mem_closureP_iff]
  simp only [Expr.named, Bool.and_eq_true, Bool.not_eq_true', beq_iff_eq]
  constructor
  · rintro ⟨⟨h1, h2, _⟩, h4, h5⟩
    exact ⟨h1, h2, h4, h5⟩
  · rintro ⟨h1, h2, h4, h5⟩
    refine ⟨⟨h1, h2, ?_⟩, h4, h5⟩
    cases h : x.isBlankText with
    | false => rfl
    | true => rw [isText_of_isBlankText h] at h4; cases h4

theorem matchesQ_names {l : List Str} (hl : ∀ n ∈ l, plainName n = true) (x : Expr) :
    matchesQ (.names l) x = l.contains x.name := by
  have h1 : l.contains [123] = false := by
    cases h : l.contains [123] with
    | false => rfl
    | true =>
      have := hl [123] (by simpa using h)
      simp [plainName] at this
  have h2 : l.contains [91] = false := by
    cases h : l.contains [91] with
    | false => rfl
    | true =>
      have := hl [91] (by simpa using h)
      simp [plainName] at this
  simp only [matchesQ, h1, h2, Bool.or_self, Bool.false_eq_true, ↓reduceIte]

theorem findAll_names {l : List Str} (hl : ∀ n ∈ l, plainName n = true) (e : Expr) :
    findAll (.names l) e = (descOf e).filter (fun x => !x.isText && l.contains x.name) := by
  rw [findAll_def]
  congr 1
  funext x
  rw [matchesQ_names hl]

theorem mem_findAll_names {l : List Str} (hl : ∀ n ∈ l, plainName n = true) (e x : Expr) :
    x ∈ findAll (.names l) e ↔ ∃ n ∈ l, x ∈ findAll (.name n) e := by
  rw [findAll_names hl, List.mem_filter]
  constructor
  · rintro ⟨hx, hm⟩
    simp only [Bool.and_eq_true, Bool.not_eq_true', List.contains_eq_mem, decide_eq_true_eq] at hm
    refine ⟨x.name, hm.2, ?_⟩
    rw [findAll_plain (hl _ hm.2), List.mem_filter]
    exact ⟨hx, by simp [Expr.named, hm.1]⟩
  · rintro ⟨n, hn, hx⟩
    rw [findAll_plain (hl _ hn), List.mem_filter] at hx
    refine ⟨hx.1, ?_⟩
    simp only [Expr.named, Bool.and_eq_true, Bool.not_eq_true', beq_iff_eq] at hx
    simp [hx.2.1, hx.2.2, hn]

theorem findAll_absent_of_occ {n : Str} (hn : plainName n = true) {e : Expr}
    (he : e.flatArgs = true) (h : occ n e = []) : findAll (.name n) e = [] := by
  have := findAll_perm_occ hn he
  rw [h] at this
  simpa using this

theorem mem_findAll_name (s : Str) (e x : Expr) :
    x ∈ findAll (.name s) e ↔ x ∈ descOf e ∧ x.isText = false ∧
      ((x.isEnv = true ∧ (s = x.name ∨ s = x.beginStr ++ serL x.args ∨ s = x.beginStr ∨
          s = x.endStr)) ∨
        (if s.contains 123 || s.contains 91 then ser x = s else x.name = s)) := by
  rw [findAll_def, List.mem_filter]
  simp only [matchesQ, Bool.and_eq_true, Bool.not_eq_true', Bool.or_eq_true, beq_iff_eq, or_assoc]
  constructor
  · rintro ⟨h1, h2, h3⟩
    refine ⟨h1, h2, ?_⟩
    rcases h3 with h3 | h3
    · exact Or.inl h3
    · right
      split at h3 <;> simp_all
  · rintro ⟨h1, h2, h3⟩
    refine ⟨h1, h2, ?_⟩
    rcases h3 with h3 | h3
    · exact Or.inl h3
    · right
      split at h3 <;> simp_all

/-- `TexNode.__getattr__(attr)`: `self.find(attr) or default` with `default = None` (a
`TexNode` is always truthy: it defines neither `__bool__` nor `__len__`). -/
def getattrOf (n : Str) (e : Expr) : Option Expr :=
  match find (.name n) e with
  | some x => some x
  | none => none

end TexSoup
