import TexSoupProofs.EditLemmasMain
/-!
# Edit lemmas, part 6: search (`find_all` by plain name) after a rename
-/
namespace TexSoup.Edit

/-! ## Search after a rename -/

/-- A sub-list `m` of `L` replaced by `m'`. -/
def Hole1 (m m' L L' : List Expr) : Prop := ∃ U W, L = U ++ (m ++ W) ∧ L' = U ++ (m' ++ W)

theorem Hole1.append_left {m m' L L' : List Expr} (A : List Expr) (h : Hole1 m m' L L') :
    Hole1 m m' (A ++ L) (A ++ L') := by
  obtain ⟨U, W, h1, h2⟩ := h
  exact ⟨A ++ U, W, by simp [h1], by simp [h2]⟩

theorem Hole1.append_right {m m' L L' : List Expr} (A : List Expr) (h : Hole1 m m' L L') :
    Hole1 m m' (L ++ A) (L' ++ A) := by
  obtain ⟨U, W, h1, h2⟩ := h
  exact ⟨U, W ++ A, by simp [h1], by simp [h2]⟩

theorem dropBlank_append (a b : List Expr) : dropBlank (a ++ b) = dropBlank a ++ dropBlank b := by
  simp [dropBlank]

theorem isBlankText_of_not_text {x : Expr} (h : x.isText = false) : x.isBlankText = false := by
  cases x <;> simp_all [Expr.isText, Expr.isBlankText]

theorem Hole1.dropBlank {x x' : Expr} {L L' : List Expr} (hx : x.isText = false)
    (hx' : x'.isText = false) (h : Hole1 [x] [x'] L L') :
    Hole1 [x] [x'] (dropBlank L) (dropBlank L') := by
  obtain ⟨U, W, h1, h2⟩ := h
  refine ⟨TexSoup.dropBlank U, TexSoup.dropBlank W, ?_, ?_⟩
  · rw [h1]; simp [TexSoup.dropBlank, isBlankText_of_not_text hx]
  · rw [h2]; simp [TexSoup.dropBlank, isBlankText_of_not_text hx']

theorem hole_set {l : List Expr} {j : Nat} {x : Expr} (x' : Expr) (h : l[j]? = some x) :
    Hole1 [x] [x'] l (l.set j x') := by
  have hj : j < l.length := (List.getElem?_eq_some_iff.mp h).1
  refine ⟨l.take j, l.drop (j + 1), ?_, ?_⟩
  · have := List.take_append_drop j l
    rw [List.drop_eq_getElem_cons hj, (List.getElem?_eq_some_iff.mp h).2] at this
    simpa using this.symm
  · rw [List.set_eq_take_append_cons_drop, if_pos hj]; rfl

@[simp] theorem descList_nil : descList [] = [] := by simp [descList]
@[simp] theorem descList_cons (e : Expr) (es : List Expr) :
    descList (e :: es) = descOf e ++ descList es := by simp [descList]
@[simp] theorem descArgs_nil : descArgs [] = [] := by simp [descArgs]
@[simp] theorem descArgs_cons (e : Expr) (es : List Expr) :
    descArgs (e :: es) = descInner e ++ descArgs es := by simp [descArgs]
@[simp] theorem argsContents_nil : argsContents [] = [] := by simp [argsContents]
@[simp] theorem argsContents_cons (e : Expr) (es : List Expr) :
    argsContents (e :: es) = dropBlank (allOf e) ++ argsContents es := by simp [argsContents]

theorem descList_append (a b : List Expr) : descList (a ++ b) = descList a ++ descList b := by
  induction a with
  | nil => simp
  | cons x xs ih => simp [ih]

theorem descArgs_append (a b : List Expr) : descArgs (a ++ b) = descArgs a ++ descArgs b := by
  induction a with
  | nil => simp
  | cons x xs ih => simp [ih]

theorem argsContents_append (a b : List Expr) :
    argsContents (a ++ b) = argsContents a ++ argsContents b := by
  induction a with
  | nil => simp
  | cons x xs ih => simp [ih]

/-- A function of the elements, concatenated: replacing one element replaces its image. -/
theorem hole_concat {F : List Expr → List Expr}
    (happ : ∀ a b, F (a ++ b) = F a ++ F b) {l : List Expr} {j : Nat} {x : Expr} (x' : Expr)
    (h : l[j]? = some x) : Hole1 (F [x]) (F [x']) (F l) (F (l.set j x')) := by
  obtain ⟨U, W, h1, h2⟩ := hole_set x' h
  refine ⟨F U, F W, ?_, ?_⟩
  · rw [h1, happ, happ]
  · rw [h2, happ, happ]

theorem Hole1.trans_inner {m m' n n' L L' : List Expr} (h : Hole1 n n' L L')
    (hn : Hole1 m m' n n') : Hole1 m m' L L' := by
  obtain ⟨U, W, h1, h2⟩ := h
  obtain ⟨U', W', h1', h2'⟩ := hn
  exact ⟨U ++ U', W' ++ W, by simp [h1, h1'], by simp [h2, h2']⟩

theorem allOf_eq (e : Expr) : allOf e = argsContents e.args ++ e.body := by
  cases e <;> simp [allOf, Expr.args, Expr.body]

theorem descInner_eq (e : Expr) : descInner e = descArgs e.args ++ descList e.body := by
  cases e <;> simp [descInner, Expr.args, Expr.body]

theorem contentsOf_eq (e : Expr) : contentsOf e = dropBlank (argsContents e.args ++ e.body) := by
  rw [contentsOf, allOf_eq]

theorem descOf_eq (e : Expr) (h : e.isText = false) :
    descOf e = contentsOf e ++ (descArgs e.args ++ descList e.body) := by
  cases e <;> simp_all [descOf, Expr.isText, Expr.args, Expr.body, contentsOf, allOf]

theorem isText_false_of_hasBody {e : Expr} (h : e.hasBody = true) : e.isText = false := by
  cases e <;> simp_all [Expr.hasBody, Expr.isText]

theorem isText_false_of_hasArgs {e : Expr} (h : e.hasArgs = true) : e.isText = false := by
  cases e <;> simp_all [Expr.hasArgs, Expr.isText]

@[simp] theorem isText_setBody (e : Expr) (b : List Expr) : (e.setBody b).isText = e.isText := by
  cases e <;> simp [Expr.setBody, Expr.isText]

@[simp] theorem isText_setArgs (e : Expr) (a : List Expr) : (e.setArgs a).isText = e.isText := by
  cases e <;> simp [Expr.setArgs, Expr.isText]

/-- The two places where a child shows in the descendants of its parent: once itself (in the
contents), once through its own descendants. -/
def Hole2 (x x' : Expr) (L L' : List Expr) : Prop :=
  ∃ U V W, L = U ++ x :: (V ++ (descOf x ++ W)) ∧ L' = U ++ x' :: (V ++ (descOf x' ++ W))

theorem Hole2.combine {x x' : Expr} {C C' D D' : List Expr} (hc : Hole1 [x] [x'] C C')
    (hd : Hole1 (descOf x) (descOf x') D D') : Hole2 x x' (C ++ D) (C' ++ D') := by
  obtain ⟨U, W, h1, h2⟩ := hc
  obtain ⟨U', W', h1', h2'⟩ := hd
  exact ⟨U, W ++ U', W', by simp [h1, h1'], by simp [h2, h2']⟩

/-- Replacing a child `x` by `x'` (both not text) in its holder. -/
theorem step_desc {e e' x : Expr} {st : Step} (x' : Expr) (hx : stepGet e st = some x)
    (hxt : x.isText = false) (hxt' : x'.isText = false)
    (he' : editHolder e st (fun j l => some (l.set j x')) = some e') :
    Hole2 x x' (descOf e) (descOf e') ∧ e'.isText = false ∧ e.isText = false := by
  cases st with
  | body j =>
    simp only [stepGet] at hx
    have hb := hasBody_of_body_get hx
    simp only [editHolder] at he'
    injection he' with he'; subst he'
    have ht := isText_false_of_hasBody hb
    refine ⟨?_, by simpa using ht, ht⟩
    rw [descOf_eq e ht, descOf_eq _ (by simpa using ht), contentsOf_eq, contentsOf_eq]
    simp only [args_setBody, body_setBody _ _ hb]
    apply Hole2.combine
    · exact ((hole_set x' hx).append_left _).dropBlank hxt hxt'
    · have := hole_concat (F := descList) descList_append x' hx
      simp only [descList_cons, descList_nil, List.append_nil] at this
      exact this.append_left _
  | arg i j =>
    simp only [stepGet] at hx
    split at hx
    · rename_i g hg
      have hA := hasArgs_of_args_get hg
      have hgb := hasBody_of_body_get hx
      simp only [editHolder, hg] at he'
      injection he' with he'; subst he'
      have ht := isText_false_of_hasArgs hA
      refine ⟨?_, by simpa using ht, ht⟩
      rw [descOf_eq e ht, descOf_eq _ (by simpa using ht), contentsOf_eq, contentsOf_eq]
      simp only [args_setArgs _ _ hA, body_setArgs]
      apply Hole2.combine
      · apply Hole1.dropBlank hxt hxt'
        apply Hole1.append_right
        have h1 := hole_concat (F := argsContents) argsContents_append
          (g.setBody (g.body.set j x')) hg
        apply h1.trans_inner
        simp only [argsContents_cons, argsContents_nil, List.append_nil, allOf_eq,
          args_setBody, body_setBody _ _ hgb]
        exact ((hole_set x' hx).append_left _).dropBlank hxt hxt'
      · apply Hole1.append_right
        have h1 := hole_concat (F := descArgs) descArgs_append
          (g.setBody (g.body.set j x')) hg
        apply h1.trans_inner
        simp only [descArgs_cons, descArgs_nil, List.append_nil, descInner_eq,
          args_setBody, body_setBody _ _ hgb]
        have := hole_concat (F := descList) descList_append x' hx
        simp only [descList_cons, descList_nil, List.append_nil] at this
        exact this.append_left _
    · cases hx

/-- A node without its arguments and contents: kind, name and position. For a plain name
(no `{`, no `[`) `find_all` only looks at this part of a node. -/
def _root_.TexSoup.Expr.head : Expr → Expr
  | .text s p => .text s p
  | .cmd n _ _ p => .cmd n [] [] p
  | .nenv n _ _ p => .nenv n [] [] p
  | .math k _ p => .math k [] p
  | .group k _ p => .group k [] p

/-- A search name that is matched against names, not against source text. -/
def plainName (s : Str) : Bool := !(s.contains 123 || s.contains 91)

theorem head_setBody (e : Expr) (b : List Expr) : (e.setBody b).head = e.head := by
  cases e <;> simp [Expr.setBody, Expr.head]

theorem head_setArgs (e : Expr) (a : List Expr) : (e.setArgs a).head = e.head := by
  cases e <;> simp [Expr.setArgs, Expr.head]

theorem head_editHolder {e e' : Expr} {st : Step} {g : Nat → List Expr → Option (List Expr)}
    (h : editHolder e st g = some e') : e'.head = e.head := by
  cases st with
  | body j =>
    simp only [editHolder] at h
    split at h
    · injection h with h; subst h; exact head_setBody _ _
    · cases h
  | arg i j =>
    simp only [editHolder] at h
    split at h
    · cases h
    · split at h
      · injection h with h; subst h; exact head_setArgs _ _
      · cases h

/-- The one changed entry in the list of descendants (seen through `head`) after the node at
a non-empty path has been rewritten into a node with the same descendants. -/
theorem desc_hole {q : Path} {f : Expr → Option Expr} {y y' : Expr} (hf : f y = some y')
    (hd : descOf y' = descOf y) (ht : y.isText = false) (ht' : y'.isText = false) :
    ∀ {e e' : Expr}, q ≠ [] → getAt e q = some y → updAt e q f = some e' →
    (∃ l1 l2, (descOf e).map Expr.head = l1 ++ y.head :: l2 ∧
      (descOf e').map Expr.head = l1 ++ y'.head :: l2) ∧ e'.head = e.head ∧ e.isText = false := by
  induction q with
  | nil => intro e e' h; exact absurd rfl h
  | cons st q ih =>
    intro e e' _ hg hu
    rw [getAt_cons] at hg
    rw [updAt_cons] at hu
    split at hg
    · rename_i x hx
      simp only [hx] at hu
      split at hu
      · rename_i x' hx'
        cases q with
        | nil =>
          simp only [getAt] at hg; injection hg with hg; subst hg
          simp only [updAt] at hx'
          rw [hf] at hx'; injection hx' with hx'; subst hx'
          obtain ⟨⟨U, V, W, h1, h2⟩, _, het⟩ := step_desc y' hx ht ht' hu
          refine ⟨⟨U.map Expr.head, (V ++ (descOf x ++ W)).map Expr.head, ?_, ?_⟩,
            head_editHolder hu, het⟩
          · rw [h1]; simp
          · rw [h2, hd]; simp
        | cons t q =>
          obtain ⟨⟨m1, m2, hm1, hm2⟩, hhead, hxt⟩ := ih (by simp) hg hx'
          have hxt' : x'.isText = false := by
            have : x'.head = x.head := hhead
            cases x <;> cases x' <;> simp_all [Expr.head, Expr.isText]
          obtain ⟨⟨U, V, W, h1, h2⟩, _, het⟩ := step_desc x' hx hxt hxt' hu
          refine ⟨⟨U.map Expr.head ++ x.head :: (V.map Expr.head ++ m1), m2 ++ W.map Expr.head,
            ?_, ?_⟩, head_editHolder hu, het⟩
          · rw [h1]; simp [hm1]
          · rw [h2]; simp [hm2, hhead]
      · cases hu
    · cases hg

theorem descOf_rootWrap (es : List Expr) : descOf (rootWrap es) = descRoot es := by
  simp [rootWrap, descOf, contentsOf, allOf, descRoot]

theorem plain_ne_begin {s t : Str} (hs : plainName s = true) : (s == strBegin ++ t) = false := by
  cases h : s == strBegin ++ t with
  | false => rfl
  | true =>
    have := eq_of_beq h
    subst this
    simp [plainName, strBegin] at hs

theorem plain_ne_end {s t : Str} (hs : plainName s = true) : (s == strEnd ++ t) = false := by
  cases h : s == strEnd ++ t with
  | false => rfl
  | true =>
    have := eq_of_beq h
    subst this
    simp [plainName, strEnd] at hs

/-- `find_all(name)` keeps this descendant. -/
def nameHit (s : Str) (e : Expr) : Bool := !e.isText && matchesQ (.name s) e

theorem plain_cond {s : Str} (hs : plainName s = true) :
    (s.contains 123 || s.contains 91) = false := by
  simpa [plainName] using hs

theorem nameHit_head {s : Str} (hs : plainName s = true) (e : Expr) :
    nameHit s e.head = nameHit s e := by
  have hc : ¬(123 ∈ s ∨ 91 ∈ s) := by simpa [plainName] using hs
  cases e with
  | text t p => simp [nameHit, Expr.head, Expr.isText]
  | cmd n a b p =>
    simp [nameHit, Expr.head, Expr.isText, matchesQ, Expr.isEnv, hc, Expr.name]
  | nenv n a b p =>
    simp [nameHit, Expr.head, Expr.isText, matchesQ, Expr.isEnv, hc, Expr.name, Expr.beginStr,
      Expr.endStr, plain_ne_begin hs, plain_ne_end hs, List.append_assoc]
  | math k b p =>
    simp [nameHit, Expr.head, Expr.isText, matchesQ, Expr.isEnv, hc, Expr.name, Expr.beginStr,
      Expr.endStr, Expr.args]
  | group k b p =>
    simp [nameHit, Expr.head, Expr.isText, matchesQ, Expr.isEnv, hc, Expr.name, Expr.beginStr,
      Expr.endStr, Expr.args]

theorem findAllIn_map_head {s : Str} (hs : plainName s = true) (l : List Expr) :
    (findAllIn (.name s) l).map Expr.head = (l.map Expr.head).filter (nameHit s) := by
  induction l with
  | nil => simp [findAllIn]
  | cons x xs ih =>
    have hx : nameHit s x.head = (!x.isText && matchesQ (.name s) x) := nameHit_head hs x
    simp only [findAllIn, List.filter_cons, List.map_cons] at ih ⊢
    rw [hx]
    cases (!x.isText && matchesQ (.name s) x) <;> simp [ih]

theorem nameHit_cmd (s n : Str) (p : Int) (hs : plainName s = true) :
    nameHit s (.cmd n [] [] p) = (n == s) := by
  have hc : ¬(123 ∈ s ∨ 91 ∈ s) := by simpa [plainName] using hs
  simp [nameHit, Expr.isText, matchesQ, Expr.isEnv, hc, Expr.name]

theorem nameHit_nenv (s n : Str) (p : Int) (hs : plainName s = true) :
    nameHit s (.nenv n [] [] p) = (n == s) := by
  simp only [nameHit, Expr.isText, matchesQ, Expr.isEnv, plain_cond hs, Expr.name, Expr.beginStr,
    Expr.endStr, plain_ne_begin hs, plain_ne_end hs, List.append_assoc, Bool.not_false,
    Bool.true_and, Bool.or_false, Bool.false_eq_true, if_false]
  cases h : n == s with
  | true => have := eq_of_beq h; subst this; simp
  | false =>
    simp only [Bool.or_false]
    cases h' : s == n with
    | false => rfl
    | true => have := eq_of_beq h'; subst this; simp at h

theorem filter_hole {P : Expr → Bool} {l1 l2 : List Expr} {h h' : Expr}
    (hh : P h = false) (hh' : P h' = true) :
    (l1 ++ h :: l2).filter P = l1.filter P ++ l2.filter P ∧
    (l1 ++ h' :: l2).filter P = l1.filter P ++ h' :: l2.filter P := by
  simp [List.filter_append, hh, hh']

theorem renameE_facts {new : Str} {y y' : Expr} (h : renameE new y = some y') :
    descOf y' = descOf y ∧ y.isText = false ∧ y'.isText = false ∧
    ((∃ p, y.head = .cmd y.name [] [] p ∧ y'.head = .cmd new [] [] p) ∨
     (∃ p, y.head = .nenv y.name [] [] p ∧ y'.head = .nenv new [] [] p)) := by
  cases y with
  | cmd n a b p =>
    simp only [renameE] at h; injection h with h; subst h
    exact ⟨by simp [descOf, contentsOf, allOf], rfl, rfl, Or.inl ⟨p, rfl, rfl⟩⟩
  | nenv n a b p =>
    simp only [renameE] at h; injection h with h; subst h
    exact ⟨by simp [descOf, contentsOf, allOf], rfl, rfl, Or.inr ⟨p, rfl, rfl⟩⟩
  | text _ _ => simp [renameE] at h
  | math _ _ _ => simp [renameE] at h
  | group _ _ _ => simp [renameE] at h

/-- Searching by (plain) name after a rename: seen through `head`, the results for the new
name gain exactly the renamed node, at its place in the traversal; the results for the old
name lose exactly it. -/
theorem rename_search_core {es : List Expr} {p : Path} {y y' : Expr} {old new : Str}
    (hp : p ≠ []) (hy : getAtRoot es p = some y) (hr : renameE new y = some y')
    (hn : y.name = old) (hold : plainName old = true) (hnew : plainName new = true)
    (hne : old ≠ new) :
    getAtRoot (applyEdit es (.rename p new)) p = some y' ∧
    ∃ F1 F2 G1 G2,
      (findAllRoot (.name new) es).map Expr.head = F1 ++ F2 ∧
      (findAllRoot (.name new) (applyEdit es (.rename p new))).map Expr.head
        = F1 ++ y'.head :: F2 ∧
      (findAllRoot (.name old) es).map Expr.head = G1 ++ y.head :: G2 ∧
      (findAllRoot (.name old) (applyEdit es (.rename p new))).map Expr.head = G1 ++ G2 := by
  obtain ⟨_, _, _, _, hsome, _, hget⟩ := node_edit hp hy hr (applyEditE_rename new hp)
  obtain ⟨hd, ht, ht', hheads⟩ := renameE_facts hr
  rw [applyEditE_rename new hp] at hsome
  obtain ⟨⟨l1, l2, h1, h2⟩, _, _⟩ := desc_hole hr hd ht ht' hp hy hsome
  rw [descOf_rootWrap] at h1 h2
  refine ⟨hget, ?_⟩
  have hon : (old == new) = false := by
    cases h : old == new with
    | false => rfl
    | true => exact absurd (eq_of_beq h) hne
  have hno : (new == old) = false := by
    cases h : new == old with
    | false => rfl
    | true => exact absurd (eq_of_beq h).symm hne
  have hits : nameHit new y.head = false ∧ nameHit new y'.head = true ∧
      nameHit old y.head = true ∧ nameHit old y'.head = false := by
    rcases hheads with ⟨pos, e1, e2⟩ | ⟨pos, e1, e2⟩
    · rw [e1, e2, hn]; simp [nameHit_cmd, hold, hnew, hon, hno]
    · rw [e1, e2, hn]; simp [nameHit_nenv, hold, hnew, hon, hno]
  obtain ⟨hit1, hit2, hit3, hit4⟩ := hits
  refine ⟨l1.filter (nameHit new), l2.filter (nameHit new),
    l1.filter (nameHit old), l2.filter (nameHit old), ?_, ?_, ?_, ?_⟩
  · simp only [findAllRoot]
    rw [findAllIn_map_head hnew, h1]; exact (filter_hole hit1 hit2).1
  · simp only [findAllRoot]
    rw [findAllIn_map_head hnew, h2]; exact (filter_hole hit1 hit2).2
  · simp only [findAllRoot]
    rw [findAllIn_map_head hold, h1]; exact (filter_hole hit4 hit3).2
  · simp only [findAllRoot]
    rw [findAllIn_map_head hold, h2]; exact (filter_hole hit4 hit3).1

/-! ## Node edits and paths -/

theorem updAt_root_shape {es : List Expr} {p : Path} {f : Expr → Option Expr} {R : Expr}
    (hp : p ≠ []) (h : updAt (rootWrap es) p f = some R) : R = rootWrap R.body := by
  cases p with
  | nil => exact absurd rfl hp
  | cons st q =>
    rw [updAt_cons, stepGet_root] at h
    cases st with
    | arg i j => simp at h
    | body j =>
      simp only at h
      split at h
      · split at h
        · simp only [editHolder] at h
          injection h with h; subst h; rfl
        · cases h
      · cases h

/-- A node edit at the non-root path `p` does not change what is found at paths that leave
the path to `p`. -/
theorem node_edit_paths {es : List Expr} {op : EditOp} {p r : Path} {f : Expr → Option Expr}
    (hp : p ≠ []) (hop : applyEditE (rootWrap es) op = updAt (rootWrap es) p f)
    (h1 : ¬ p <+: r) (h2 : ¬ r <+: p) :
    getAtRoot (applyEdit es op) r = getAtRoot es r := by
  cases hR : applyEditE (rootWrap es) op with
  | none => simp [applyEdit, hR]
  | some R =>
    have hu := hop.symm.trans hR
    have hshape := updAt_root_shape hp hu
    simp only [applyEdit, hR]
    unfold getAtRoot
    rw [← hshape]
    exact getAt_updAt_diverge hu h1 h2

theorem stepGet_renameE {n : Str} {y y' : Expr} (h : renameE n y = some y') (s : Step) :
    stepGet y' s = stepGet y s := by
  cases y <;> simp [renameE] at h <;> subst h <;> cases s <;> simp [stepGet, Expr.args, Expr.body]

/-- Renaming keeps everything below the renamed node. -/
theorem rename_below {es : List Expr} {p : Path} {n : Str} {y y' : Expr} (hp : p ≠ [])
    (hy : getAtRoot es p = some y) (hr : renameE n y = some y') (s : Step) (r : Path) :
    getAtRoot (applyEdit es (.rename p n)) (p ++ s :: r) = getAtRoot es (p ++ s :: r) := by
  obtain ⟨_, _, _, _, hsome, _, _⟩ := node_edit hp hy hr (applyEditE_rename n hp)
  rw [applyEditE_rename n hp] at hsome
  unfold getAtRoot
  rw [getAt_updAt_below hy hr hsome, getAt_append, show getAt (rootWrap es) p = some y from hy]
  simp only []
  rw [getAt_cons, getAt_cons, stepGet_renameE hr]

end TexSoup.Edit
