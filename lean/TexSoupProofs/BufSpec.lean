import TexSoupModel.Buf
/-!
# Specification of `Buffer` for C20: a plain list with an integer index

No queue, no iterator, no loops: every operation is a closed expression over `items` and `idx`.
The index is a bare natural number – `forward` may push it past the end, exactly as an integer
index over a list would – and the outputs use the vocabulary of the model (`BufOut`).
-/
namespace TexSoup

structure Spec where
  items : List Str
  idx   : Nat
  deriving DecidableEq, Repr

namespace Spec
open Buf (pySlice join isSuffix)

/-- The items a scan passes: the longest run of truthy (non-empty) elements outside `cond`. -/
def scan (cond : List Str) (l : List Str) : List Str :=
  l.takeWhile fun x => !x.isEmpty && !memStr x cond

/-- Element at `idx + j`, if that position exists. -/
def at? (sp : Spec) (j : Int) : Option Str :=
  if (sp.idx : Int) + j < 0 then none else sp.items[((sp.idx : Int) + j).toNat]?

/-- Move `n` forward: the new index and the (possibly shorter) stretch passed. -/
def fwd (sp : Spec) (n : Nat) : Spec × BufOut :=
  ({ sp with idx := sp.idx + n }, .joined (join ((sp.items.drop sp.idx).take n)))

/-- Move `n` back, refused if that would leave the list at the front. -/
def bwd (sp : Spec) (n : Nat) : Spec × BufOut :=
  if sp.idx < n then (sp, .assertionError)
  else ({ sp with idx := sp.idx - n }, .joined (join ((sp.items.drop (sp.idx - n)).take n)))

def step (sp : Spec) : BufOp → Spec × BufOut
  | .next =>
    match sp.items[sp.idx]? with
    | some x => ({ sp with idx := sp.idx + 1 }, .elem x)
    | none => (sp, .stopIteration)
  | .forward j => if j < 0 then bwd sp (-j).toNat else fwd sp j.toNat
  | .backward j => if j < 0 then fwd sp (-j).toNat else bwd sp j.toNat
  | .peek j =>
    match at? sp j with
    | some x => (sp, .elem x)
    | none => (sp, .none)
  | .peekRange a b =>
    (sp, .joined (join (pySlice sp.items (some ((sp.idx : Int) + a).toNat)
      (some ((sp.idx : Int) + b).toNat))))
  | .getItem k =>
    match sp.items[k]? with
    | some x => (sp, .elem x)
    | none => (sp, .indexError)
  | .slice a b => (sp, .joined (join (pySlice sp.items a b)))
  | .hasNext n =>
    match at? sp (n - 1) with
    | some x => (sp, .bool (!x.isEmpty))
    | none => (sp, .bool false)
  | .startswith x => (sp, .bool (isPrefix x (join ((sp.items.drop sp.idx).take x.length))))
  | .endswith x =>
    (sp, .bool (isSuffix x (join ((sp.items.take sp.idx).drop (sp.idx - x.length)))))
  | .forwardUntil c =>
    let r := scan c (sp.items.drop sp.idx)
    ({ sp with idx := sp.idx + r.length }, .joined (join r))
  | .numForwardUntil c => (sp, .nat (scan c (sp.items.drop sp.idx)).length)
  | .position => (sp, .nat sp.idx)

def run (sp : Spec) : List BufOp → Spec × List BufOut
  | [] => (sp, [])
  | op :: ops =>
    match step sp op with
    | (sp', o) =>
      match run sp' ops with
      | (sp'', os) => (sp'', o :: os)

/-- The outputs of a history, each with the index after the operation. -/
def trace (sp : Spec) : List BufOp → List (BufOut × Nat)
  | [] => []
  | op :: ops =>
    match step sp op with
    | (sp', o) => (o, sp'.idx) :: trace sp' ops

/-- Operations that only look (`num_forward_until` moves and comes back). -/
def IsObserver : BufOp → Prop
  | .peek _ | .peekRange _ _ | .slice _ _ | .getItem _ | .hasNext _ | .startswith _
  | .endswith _ | .numForwardUntil _ | .position => True
  | _ => False

instance (op : BufOp) : Decidable (IsObserver op) := by
  cases op <;> simp only [IsObserver] <;> exact inferInstance

/-- The scope of property C20: moves that stay inside the list; everything else unrestricted. -/
def InScope (sp : Spec) : BufOp → Prop
  | .forward j => 0 ≤ (sp.idx : Int) + j ∧ (sp.idx : Int) + j ≤ sp.items.length
  | .backward j => 0 ≤ (sp.idx : Int) - j ∧ (sp.idx : Int) - j ≤ sp.items.length
  | _ => True

instance (sp : Spec) (op : BufOp) : Decidable (InScope sp op) := by
  cases op <;> simp only [InScope] <;> exact inferInstance

end Spec

namespace Buf

/-- Abstraction: forget which part of the sequence is materialised. -/
def abs (s : BufState) : Spec := ⟨s.queue ++ s.rest, s.i⟩

/-- Representation invariant: everything before the cursor is materialised unless the iterator
is exhausted.  (`Buffer.__init__` establishes it; `__getitem__` relies on it when it skips the
fill loop for an index before the cursor.) -/
def Inv (s : BufState) : Prop := s.rest = [] ∨ s.i ≤ s.queue.length

instance (s : BufState) : Decidable (Inv s) := by unfold Inv; exact inferInstance

end Buf
end TexSoup
