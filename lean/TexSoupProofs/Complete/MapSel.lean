import TexSoupModel.GrammarEdit
import TexSoupModel.Edit
import TexSoupProofs.Reader.PosFree
/-!
# Node maps on trees and the updates of the edit model; trees without positions

`mapSel sel g` applies `g` to the outermost nodes selected by `sel`. If exactly one node of a
tree is selected (`cntSel … = 1`) and it stands at path `p`, then `mapSel sel g` is the update
`updAt · p f` of `TexSoupModel/Path.lean` for every `f` with `f t = some (g t)` at that node
(`updAt_mapSel`, `applyEditE_mapSel`). Pure tree algebra, no grammar.

`bare` forgets all positions (`shape` keeps the `-1` of made-up nodes: a string assigned by
`node.string = s` is such a node, the re-parsed text has a real offset there).
-/
namespace TexSoup
open TexSoup

section
variable (sel : Expr → Bool) (g : Expr → Expr)

mutual
/-- number of selected nodes -/
def cntSel : Expr → Nat
  | .text s p => if sel (.text s p) then 1 else 0
  | .cmd n a b p => (if sel (.cmd n a b p) then 1 else 0) + (cntSelL a + cntSelL b)
  | .nenv n a b p => (if sel (.nenv n a b p) then 1 else 0) + (cntSelL a + cntSelL b)
  | .math k b p => (if sel (.math k b p) then 1 else 0) + cntSelL b
  | .group k b p => (if sel (.group k b p) then 1 else 0) + cntSelL b
def cntSelL : List Expr → Nat
  | [] => 0
  | e :: es => cntSel e + cntSelL es
end

@[simp] theorem cntSelL_nil : cntSelL sel [] = 0 := by simp [cntSelL]
@[simp] theorem cntSelL_cons (e : Expr) (es : List Expr) :
    cntSelL sel (e :: es) = cntSel sel e + cntSelL sel es := by simp [cntSelL]
@[simp] theorem mapSelL_nil : mapSelL sel g [] = [] := by simp [mapSelL]
@[simp] theorem mapSelL_cons (e : Expr) (es : List Expr) :
    mapSelL sel g (e :: es) = mapSel sel g e :: mapSelL sel g es := by simp [mapSelL]

theorem cntSel_eq (e : Expr) :
    cntSel sel e = (if sel e then 1 else 0) + (cntSelL sel e.args + cntSelL sel e.body) := by
  cases e <;> simp [cntSel, Expr.args, Expr.body]

theorem mapSel_sel {e : Expr} (h : sel e = true) : mapSel sel g e = g e := by
  cases e <;> simp [mapSel, h]

theorem cntSel_le_of_getElem : ∀ (l : List Expr) (j : Nat) (x : Expr), l[j]? = some x →
    cntSel sel x ≤ cntSelL sel l
  | [], j, x, h => by simp at h
  | y :: ys, 0, x, h => by
      simp only [List.getElem?_cons_zero, Option.some.injEq] at h
      subst h; simp
  | y :: ys, j + 1, x, h => by
      simp only [List.getElem?_cons_succ] at h
      have := cntSel_le_of_getElem ys j x h
      simp only [cntSelL_cons]; omega

theorem sel_false_of_cnt {e : Expr} (h : cntSel sel e = 0) : sel e = false := by
  rw [cntSel_eq] at h
  cases hs : sel e with
  | false => rfl
  | true => rw [hs] at h; simp at h

mutual
/-- nothing selected, nothing changed -/
theorem mapSel_id : ∀ e : Expr, cntSel sel e = 0 → mapSel sel g e = e
  | .text s p, h => by simp [mapSel, sel_false_of_cnt sel h]
  | .cmd n a b p, h => by
      have hs := sel_false_of_cnt sel h
      simp only [cntSel] at h
      simp [mapSel, hs, mapSelL_id a (by omega), mapSelL_id b (by omega)]
  | .nenv n a b p, h => by
      have hs := sel_false_of_cnt sel h
      simp only [cntSel] at h
      simp [mapSel, hs, mapSelL_id a (by omega), mapSelL_id b (by omega)]
  | .math k b p, h => by
      have hs := sel_false_of_cnt sel h
      simp only [cntSel] at h
      simp [mapSel, hs, mapSelL_id b (by omega)]
  | .group k b p, h => by
      have hs := sel_false_of_cnt sel h
      simp only [cntSel] at h
      simp [mapSel, hs, mapSelL_id b (by omega)]
theorem mapSelL_id : ∀ es : List Expr, cntSelL sel es = 0 → mapSelL sel g es = es
  | [], _ => by simp
  | e :: es, h => by
      simp only [cntSelL_cons] at h
      simp [mapSel_id e (by omega), mapSelL_id es (by omega)]
end

/-- all selected nodes of a list lie in its `j`-th element: only that one changes -/
theorem mapSelL_set : ∀ (l : List Expr) (j : Nat) (x : Expr), l[j]? = some x →
    cntSelL sel l = cntSel sel x → mapSelL sel g l = l.set j (mapSel sel g x)
  | [], j, x, h, _ => by simp at h
  | y :: ys, 0, x, h, hc => by
      simp only [List.getElem?_cons_zero, Option.some.injEq] at h
      subst h
      simp only [cntSelL_cons] at hc
      simp [mapSelL_id sel g ys (by omega)]
  | y :: ys, j + 1, x, h, hc => by
      simp only [List.getElem?_cons_succ] at h
      have hle := cntSel_le_of_getElem sel ys j x h
      simp only [cntSelL_cons] at hc
      simp [mapSel_id sel g y (by omega), mapSelL_set ys j x h (by omega)]

/-- the selected nodes of `e` all lie in the `j`-th element of its contents -/
theorem mapSel_setBody (e : Expr) (j : Nat) (x : Expr) (hx : e.body[j]? = some x)
    (hc : cntSel sel e = cntSel sel x) :
    mapSel sel g e = e.setBody (e.body.set j (mapSel sel g x)) := by
  have hle := cntSel_le_of_getElem sel _ j x hx
  rw [cntSel_eq] at hc
  have ht : sel e = false := by
    cases hs : sel e with
    | false => rfl
    | true => rw [hs] at hc; simp at hc; omega
  rw [ht] at hc
  have ha : cntSelL sel e.args = 0 := by simp at hc; omega
  have hb : cntSelL sel e.body = cntSel sel x := by simp at hc; omega
  cases e with
  | text s p => simp [Expr.body] at hx
  | cmd n a b p =>
    simp only [Expr.args, Expr.body] at ha hb hx
    simp [mapSel, ht, mapSelL_id sel g a ha, mapSelL_set sel g b j x hx hb, Expr.setBody, Expr.body]
  | nenv n a b p =>
    simp only [Expr.args, Expr.body] at ha hb hx
    simp [mapSel, ht, mapSelL_id sel g a ha, mapSelL_set sel g b j x hx hb, Expr.setBody, Expr.body]
  | math k b p =>
    simp only [Expr.body] at hb hx
    simp [mapSel, ht, mapSelL_set sel g b j x hx hb, Expr.setBody, Expr.body]
  | group k b p =>
    simp only [Expr.body] at hb hx
    simp [mapSel, ht, mapSelL_set sel g b j x hx hb, Expr.setBody, Expr.body]

/-- the selected nodes of `e` all lie in its `i`-th argument -/
theorem mapSel_setArgs (e : Expr) (i : Nat) (a : Expr) (ha : e.args[i]? = some a)
    (hc : cntSel sel e = cntSel sel a) :
    mapSel sel g e = e.setArgs (e.args.set i (mapSel sel g a)) := by
  have hle := cntSel_le_of_getElem sel _ i a ha
  rw [cntSel_eq] at hc
  have ht : sel e = false := by
    cases hs : sel e with
    | false => rfl
    | true => rw [hs] at hc; simp at hc; omega
  rw [ht] at hc
  have hb : cntSelL sel e.body = 0 := by simp at hc; omega
  have hargs : cntSelL sel e.args = cntSel sel a := by simp at hc; omega
  cases e with
  | cmd n as b p =>
    simp only [Expr.args, Expr.body] at ha hb hargs
    simp [mapSel, ht, mapSelL_id sel g b hb, mapSelL_set sel g as i a ha hargs, Expr.setArgs, Expr.args]
  | nenv n as b p =>
    simp only [Expr.args, Expr.body] at ha hb hargs
    simp [mapSel, ht, mapSelL_id sel g b hb, mapSelL_set sel g as i a ha hargs, Expr.setArgs, Expr.args]
  | text s p => simp [Expr.args] at ha
  | math k b p => simp [Expr.args] at ha
  | group k b p => simp [Expr.args] at ha

theorem cntSel_le_of_getAt : ∀ (p : Path) (e t : Expr), getAt e p = some t →
    cntSel sel t ≤ cntSel sel e
  | [], e, t, h => by simp only [getAt, Option.some.injEq] at h; subst h; exact Nat.le_refl _
  | .body j :: p, e, t, h => by
      simp only [getAt, stepGet] at h
      cases hx : e.body[j]? with
      | none => rw [hx] at h; cases h
      | some x =>
        rw [hx] at h
        have h1 := cntSel_le_of_getAt p x t h
        have h2 := cntSel_le_of_getElem sel _ j x hx
        rw [cntSel_eq sel e]; omega
  | .arg i j :: p, e, t, h => by
      simp only [getAt, stepGet] at h
      cases ha : e.args[i]? with
      | none => rw [ha] at h; cases h
      | some a =>
        simp only [ha] at h
        cases hx : a.body[j]? with
        | none => rw [hx] at h; cases h
        | some x =>
          rw [hx] at h
          have h1 := cntSel_le_of_getAt p x t h
          have h2 := cntSel_le_of_getElem sel _ j x hx
          have h3 := cntSel_le_of_getElem sel _ i a ha
          rw [cntSel_eq sel e]
          rw [cntSel_eq sel a] at h3
          omega

theorem cntSel_pos {t : Expr} (h : sel t = true) : 1 ≤ cntSel sel t := by
  rw [cntSel_eq, h]; simp

/-- **Exactly one selected node, at path `p`: `mapSel` is the update at `p`.** -/
theorem updAt_mapSel {f : Expr → Option Expr} : ∀ (p : Path) (e t : Expr), getAt e p = some t →
    sel t = true → f t = some (g t) → cntSel sel e = 1 →
    updAt e p f = some (mapSel sel g e)
  | [], e, t, h, ht, hf, _ => by
      simp only [getAt, Option.some.injEq] at h
      subst h
      simp only [updAt, hf, mapSel_sel sel g ht]
  | .body j :: p, e, t, h, ht, hf, hc => by
      simp only [getAt, stepGet] at h
      cases hx : e.body[j]? with
      | none => rw [hx] at h; cases h
      | some x =>
        rw [hx] at h
        have h1 := cntSel_le_of_getAt sel p x t h
        have h0 := cntSel_pos sel ht
        have h2 := cntSel_le_of_getElem sel _ j x hx
        have hxe : cntSel sel x = 1 := by rw [cntSel_eq sel e] at hc; omega
        simp only [updAt, hx, updAt_mapSel p x t h ht hf hxe]
        rw [mapSel_setBody sel g e j x hx (by omega)]
  | .arg i j :: p, e, t, h, ht, hf, hc => by
      simp only [getAt, stepGet] at h
      cases ha : e.args[i]? with
      | none => rw [ha] at h; cases h
      | some a =>
        simp only [ha] at h
        cases hx : a.body[j]? with
        | none => rw [hx] at h; cases h
        | some x =>
          rw [hx] at h
          have h1 := cntSel_le_of_getAt sel p x t h
          have h0 := cntSel_pos sel ht
          have h2 := cntSel_le_of_getElem sel _ j x hx
          have h3 := cntSel_le_of_getElem sel _ i a ha
          have hae := cntSel_eq sel a
          have hee := cntSel_eq sel e
          have hxe : cntSel sel x = 1 := by omega
          have hae1 : cntSel sel a = 1 := by omega
          simp only [updAt, ha, hx, updAt_mapSel p x t h ht hf hxe]
          rw [mapSel_setArgs sel g e i a ha (by omega),
            mapSel_setBody sel g a j x hx (by omega)]

/-- … for a document: the root wrapper is not selected. -/
theorem updAt_root_mapSel {f : Expr → Option Expr} (es : List Expr) (p : Path) (t : Expr)
    (hget : getAtRoot es p = some t) (ht : sel t = true) (hf : f t = some (g t))
    (hc : cntSelL sel es = 1) (hroot : sel (rootWrap es) = false) :
    updAt (rootWrap es) p f = some (rootWrap (mapSelL sel g es)) := by
  have h := updAt_mapSel sel g p (rootWrap es) t hget ht hf
    (by rw [cntSel_eq, hroot]; simp [rootWrap, Expr.args, Expr.body]; exact hc)
  rw [h]
  simp only [rootWrap] at hroot ⊢
  simp [mapSel, hroot]

end

/-! ### trees without positions -/

@[simp] theorem bareL_nil : bareL [] = [] := by simp [bareL]
@[simp] theorem bareL_cons (e : Expr) (es : List Expr) : bareL (e :: es) = bare e :: bareL es := by
  simp [bareL]

mutual
theorem ser_bare : ∀ e : Expr, ser (bare e) = ser e
  | .text s p => by simp [bare, ser]
  | .cmd n a b p => by simp [bare, ser, serL_bareL a, serL_bareL b]
  | .nenv n a b p => by simp [bare, ser, serL_bareL a, serL_bareL b]
  | .math k b p => by simp [bare, ser, serL_bareL b]
  | .group k b p => by simp [bare, ser, serL_bareL b]
theorem serL_bareL : ∀ es : List Expr, serL (bareL es) = serL es
  | [] => by simp [serL]
  | e :: es => by simp [serL, ser_bare e, serL_bareL es]
end

mutual
theorem bare_shape : ∀ e : Expr, bare (shape e) = bare e
  | .text s p => by simp [bare, shape]
  | .cmd n a b p => by simp [bare, shape, bareL_shapeL a, bareL_shapeL b]
  | .nenv n a b p => by simp [bare, shape, bareL_shapeL a, bareL_shapeL b]
  | .math k b p => by simp [bare, shape, bareL_shapeL b]
  | .group k b p => by simp [bare, shape, bareL_shapeL b]
theorem bareL_shapeL : ∀ es : List Expr, bareL (shapeL es) = bareL es
  | [] => by simp
  | e :: es => by simp [bare_shape e, bareL_shapeL es]
end

/-- equal shapes are equal without positions -/
theorem bareL_of_shapeL_eq {a b : List Expr} (h : shapeL a = shapeL b) : bareL a = bareL b := by
  rw [← bareL_shapeL a, ← bareL_shapeL b, h]

theorem serL_of_bareL_eq {a b : List Expr} (h : bareL a = bareL b) : serL a = serL b := by
  rw [← serL_bareL a, ← serL_bareL b, h]

mutual
/-- node maps that agree up to positions give trees that agree up to positions -/
theorem bare_mapSel_congr (sel : Expr → Bool) (g g' : Expr → Expr) (h : ∀ e, bare (g e) = bare (g' e)) :
    ∀ e : Expr, bare (mapSel sel g e) = bare (mapSel sel g' e)
  | .text s p => by by_cases hs : sel (.text s p) = true <;> simp [mapSel, hs, h]
  | .cmd n a b p => by
      by_cases hs : sel (.cmd n a b p) = true
      · simp [mapSel, hs, h]
      · simp [mapSel, hs, bare, bareL_mapSelL_congr sel g g' h a, bareL_mapSelL_congr sel g g' h b]
  | .nenv n a b p => by
      by_cases hs : sel (.nenv n a b p) = true
      · simp [mapSel, hs, h]
      · simp [mapSel, hs, bare, bareL_mapSelL_congr sel g g' h a, bareL_mapSelL_congr sel g g' h b]
  | .math k b p => by
      by_cases hs : sel (.math k b p) = true
      · simp [mapSel, hs, h]
      · simp [mapSel, hs, bare, bareL_mapSelL_congr sel g g' h b]
  | .group k b p => by
      by_cases hs : sel (.group k b p) = true
      · simp [mapSel, hs, h]
      · simp [mapSel, hs, bare, bareL_mapSelL_congr sel g g' h b]
theorem bareL_mapSelL_congr (sel : Expr → Bool) (g g' : Expr → Expr) (h : ∀ e, bare (g e) = bare (g' e)) :
    ∀ es : List Expr, bareL (mapSelL sel g es) = bareL (mapSelL sel g' es)
  | [] => by simp
  | e :: es => by simp [bare_mapSel_congr sel g g' h e, bareL_mapSelL_congr sel g g' h es]
end

end TexSoup
