import TexSoupModel.GrammarEdit
import TexSoupModel.Edit
/-!
# `renameTree` and the edit `node.name = new` of the edit model

If the selection `(qc, qe)` hits exactly one node of a tree (`selCountL … = 1`) and that node
stands at path `p`, then `renameTreeL` is the edit `.rename p new` of `TexSoupModel/Edit.lean`
(`applyEdit_rename_eq`). Pure tree algebra, no grammar.
-/
namespace TexSoup
open TexSoup

variable (qc : Str → Int → Bool) (newc : Str) (qe : Str → Int → Bool) (newe : Str)

/-- 1 if the node itself is selected -/
def topSel : Expr → Nat
  | .cmd n _ _ p => if qc n p then 1 else 0
  | .nenv n _ _ p => if qe n p then 1 else 0
  | _ => 0

mutual
/-- number of selected nodes -/
def selCount : Expr → Nat
  | .text _ _ => 0
  | .cmd n a b p => (if qc n p then 1 else 0) + (selCountL a + selCountL b)
  | .nenv n a b p => (if qe n p then 1 else 0) + (selCountL a + selCountL b)
  | .math _ b _ => selCountL b
  | .group _ b _ => selCountL b
def selCountL : List Expr → Nat
  | [] => 0
  | e :: es => selCount e + selCountL es
end

@[simp] theorem selCountL_nil : selCountL qc qe [] = 0 := by simp [selCountL]
@[simp] theorem selCountL_cons (e : Expr) (es : List Expr) :
    selCountL qc qe (e :: es) = selCount qc qe e + selCountL qc qe es := by simp [selCountL]

theorem selCount_eq (e : Expr) :
    selCount qc qe e = topSel qc qe e + (selCountL qc qe e.args + selCountL qc qe e.body) := by
  cases e <;> simp [selCount, topSel, Expr.args, Expr.body]

theorem selCount_le_of_getElem : ∀ (l : List Expr) (j : Nat) (x : Expr), l[j]? = some x →
    selCount qc qe x ≤ selCountL qc qe l
  | [], j, x, h => by simp at h
  | y :: ys, 0, x, h => by
      simp only [List.getElem?_cons_zero, Option.some.injEq] at h
      subst h; simp
  | y :: ys, j + 1, x, h => by
      simp only [List.getElem?_cons_succ] at h
      have := selCount_le_of_getElem ys j x h
      simp only [selCountL_cons]; omega

@[simp] theorem renameTreeL_nil' : renameTreeL qc newc qe newe [] = [] := by simp [renameTreeL]
@[simp] theorem renameTreeL_cons' (e : Expr) (es : List Expr) :
    renameTreeL qc newc qe newe (e :: es) =
      renameTree qc newc qe newe e :: renameTreeL qc newc qe newe es := by simp [renameTreeL]

mutual
/-- nothing selected, nothing renamed -/
theorem renameTree_id : ∀ e : Expr, selCount qc qe e = 0 → renameTree qc newc qe newe e = e
  | .text s p, _ => by simp [renameTree]
  | .cmd n a b p, h => by
      simp only [selCount] at h
      have h1 : qc n p = false := by
        cases hq : qc n p with
        | false => rfl
        | true => rw [hq] at h; simp at h
      simp only [renameTree, h1, renameTreeL_id a (by omega), renameTreeL_id b (by omega)]
      rfl
  | .nenv n a b p, h => by
      simp only [selCount] at h
      have h1 : qe n p = false := by
        cases hq : qe n p with
        | false => rfl
        | true => rw [hq] at h; simp at h
      simp only [renameTree, h1, renameTreeL_id a (by omega), renameTreeL_id b (by omega)]
      rfl
  | .math k b p, h => by
      simp only [selCount] at h
      simp only [renameTree, renameTreeL_id b h]
  | .group k b p, h => by
      simp only [selCount] at h
      simp only [renameTree, renameTreeL_id b h]
theorem renameTreeL_id : ∀ es : List Expr, selCountL qc qe es = 0 → renameTreeL qc newc qe newe es = es
  | [], _ => by simp
  | e :: es, h => by
      simp only [selCountL_cons] at h
      simp [renameTree_id e (by omega), renameTreeL_id es (by omega)]
end

/-- all selected nodes of a list lie in its `j`-th element: only that one changes -/
theorem renameTreeL_set : ∀ (l : List Expr) (j : Nat) (x : Expr), l[j]? = some x →
    selCountL qc qe l = selCount qc qe x →
    renameTreeL qc newc qe newe l = l.set j (renameTree qc newc qe newe x)
  | [], j, x, h, _ => by simp at h
  | y :: ys, 0, x, h, hc => by
      simp only [List.getElem?_cons_zero, Option.some.injEq] at h
      subst h
      simp only [selCountL_cons] at hc
      simp [renameTreeL_id qc newc qe newe ys (by omega)]
  | y :: ys, j + 1, x, h, hc => by
      simp only [List.getElem?_cons_succ] at h
      have hle := selCount_le_of_getElem qc qe ys j x h
      simp only [selCountL_cons] at hc
      simp [renameTree_id qc newc qe newe y (by omega), renameTreeL_set ys j x h (by omega)]

theorem topSel_zero_cmd {n : Str} {a b : List Expr} {p : Int} (h : topSel qc qe (.cmd n a b p) = 0) :
    qc n p = false := by
  simp only [topSel] at h
  cases hq : qc n p with
  | false => rfl
  | true => rw [hq] at h; simp at h

theorem topSel_zero_nenv {n : Str} {a b : List Expr} {p : Int} (h : topSel qc qe (.nenv n a b p) = 0) :
    qe n p = false := by
  simp only [topSel] at h
  cases hq : qe n p with
  | false => rfl
  | true => rw [hq] at h; simp at h

/-- the selected nodes of `e` all lie in the `j`-th element of its contents -/
theorem renameTree_setBody (e : Expr) (j : Nat) (x : Expr) (hx : e.body[j]? = some x)
    (hc : selCount qc qe e = selCount qc qe x) :
    renameTree qc newc qe newe e = e.setBody (e.body.set j (renameTree qc newc qe newe x)) := by
  have hle := selCount_le_of_getElem qc qe _ j x hx
  rw [selCount_eq] at hc
  have ht : topSel qc qe e = 0 := by omega
  have ha : selCountL qc qe e.args = 0 := by omega
  have hb : selCountL qc qe e.body = selCount qc qe x := by omega
  cases e with
  | text s p => simp [Expr.body] at hx
  | cmd n a b p =>
    simp only [Expr.args, Expr.body] at ha hb hx
    simp only [renameTree, topSel_zero_cmd qc qe ht, renameTreeL_id qc newc qe newe a ha,
      renameTreeL_set qc newc qe newe b j x hx hb, Expr.setBody, Expr.body]
    rfl
  | nenv n a b p =>
    simp only [Expr.args, Expr.body] at ha hb hx
    simp only [renameTree, topSel_zero_nenv qc qe ht, renameTreeL_id qc newc qe newe a ha,
      renameTreeL_set qc newc qe newe b j x hx hb, Expr.setBody, Expr.body]
    rfl
  | math k b p =>
    simp only [Expr.body] at hb hx
    simp only [renameTree, renameTreeL_set qc newc qe newe b j x hx hb, Expr.setBody, Expr.body]
  | group k b p =>
    simp only [Expr.body] at hb hx
    simp only [renameTree, renameTreeL_set qc newc qe newe b j x hx hb, Expr.setBody, Expr.body]

/-- the selected nodes of `e` all lie in its `i`-th argument -/
theorem renameTree_setArgs (e : Expr) (i : Nat) (a : Expr) (ha : e.args[i]? = some a)
    (hc : selCount qc qe e = selCount qc qe a) :
    renameTree qc newc qe newe e = e.setArgs (e.args.set i (renameTree qc newc qe newe a)) := by
  have hle := selCount_le_of_getElem qc qe _ i a ha
  rw [selCount_eq] at hc
  have ht : topSel qc qe e = 0 := by omega
  have hb : selCountL qc qe e.body = 0 := by omega
  have hargs : selCountL qc qe e.args = selCount qc qe a := by omega
  cases e with
  | cmd n as b p =>
    simp only [Expr.args, Expr.body] at ha hb hargs
    simp only [renameTree, topSel_zero_cmd qc qe ht, renameTreeL_id qc newc qe newe b hb,
      renameTreeL_set qc newc qe newe as i a ha hargs, Expr.setArgs, Expr.args]
    rfl
  | nenv n as b p =>
    simp only [Expr.args, Expr.body] at ha hb hargs
    simp only [renameTree, topSel_zero_nenv qc qe ht, renameTreeL_id qc newc qe newe b hb,
      renameTreeL_set qc newc qe newe as i a ha hargs, Expr.setArgs, Expr.args]
    rfl
  | text s p => simp [Expr.args] at ha
  | math k b p => simp [Expr.args] at ha
  | group k b p => simp [Expr.args] at ha

/-- The node is a selected command (to be called `nm = newc`) or a selected environment (to be
called `nm = newe`). -/
def Target (nm : Str) (t : Expr) : Prop :=
  (∃ n a b p, t = .cmd n a b p ∧ qc n p = true ∧ nm = newc) ∨
  (∃ n a b p, t = .nenv n a b p ∧ qe n p = true ∧ nm = newe)

theorem selCount_le_of_getAt : ∀ (p : Path) (e t : Expr), getAt e p = some t →
    selCount qc qe t ≤ selCount qc qe e
  | [], e, t, h => by simp only [getAt, Option.some.injEq] at h; subst h; exact Nat.le_refl _
  | .body j :: p, e, t, h => by
      simp only [getAt, stepGet] at h
      cases hx : e.body[j]? with
      | none => rw [hx] at h; cases h
      | some x =>
        rw [hx] at h
        have h1 := selCount_le_of_getAt p x t h
        have h2 := selCount_le_of_getElem qc qe _ j x hx
        rw [selCount_eq qc qe e]; omega
  | .arg i j :: p, e, t, h => by
      simp only [getAt, stepGet] at h
      cases ha : e.args[i]? with
      | none => rw [ha] at h; cases h
      | some a =>
        simp only [ha] at h
        cases hx : a.body[j]? with
        | none => rw [hx] at h; cases h
        | some x =>
          rw [hx] at h
          have h1 := selCount_le_of_getAt p x t h
          have h2 := selCount_le_of_getElem qc qe _ j x hx
          have h3 := selCount_le_of_getElem qc qe _ i a ha
          rw [selCount_eq qc qe e]
          rw [selCount_eq qc qe a] at h3
          omega

theorem target_count {nm : Str} {t : Expr} (h : Target qc newc qe newe nm t) : 1 ≤ selCount qc qe t := by
  rcases h with ⟨n, a, b, p, rfl, hq, _⟩ | ⟨n, a, b, p, rfl, hq, _⟩ <;> simp [selCount, hq] <;> omega

theorem target_rename {nm : Str} {t : Expr} (h : Target qc newc qe newe nm t)
    (hc : selCount qc qe t = 1) : renameE nm t = some (renameTree qc newc qe newe t) := by
  rcases h with ⟨n, a, b, p, rfl, hq, rfl⟩ | ⟨n, a, b, p, rfl, hq, rfl⟩
  · simp only [selCount, hq, if_true] at hc
    simp only [renameE, renameTree, hq, if_true, renameTreeL_id qc nm qe newe a (by omega),
      renameTreeL_id qc nm qe newe b (by omega)]
  · simp only [selCount, hq, if_true] at hc
    simp only [renameE, renameTree, hq, if_true, renameTreeL_id qc newc qe nm a (by omega),
      renameTreeL_id qc newc qe nm b (by omega)]

/-- **Exactly one selected node, at path `p`: `renameTree` is the update at `p`.** -/
theorem updAt_rename_eq {nm : Str} : ∀ (p : Path) (e t : Expr), getAt e p = some t →
    Target qc newc qe newe nm t → selCount qc qe e = 1 →
    updAt e p (renameE nm) = some (renameTree qc newc qe newe e)
  | [], e, t, h, ht, hc => by
      simp only [getAt, Option.some.injEq] at h
      subst h
      simp only [updAt]
      exact target_rename qc newc qe newe ht hc
  | .body j :: p, e, t, h, ht, hc => by
      simp only [getAt, stepGet] at h
      cases hx : e.body[j]? with
      | none => rw [hx] at h; cases h
      | some x =>
        rw [hx] at h
        have h1 := selCount_le_of_getAt qc qe p x t h
        have h0 := target_count qc newc qe newe ht
        have h2 := selCount_le_of_getElem qc qe _ j x hx
        have hxe : selCount qc qe x = 1 := by rw [selCount_eq qc qe e] at hc; omega
        simp only [updAt, hx, updAt_rename_eq p x t h ht hxe]
        rw [renameTree_setBody qc newc qe newe e j x hx (by omega)]
  | .arg i j :: p, e, t, h, ht, hc => by
      simp only [getAt, stepGet] at h
      cases ha : e.args[i]? with
      | none => rw [ha] at h; cases h
      | some a =>
        simp only [ha] at h
        cases hx : a.body[j]? with
        | none => rw [hx] at h; cases h
        | some x =>
          rw [hx] at h
          have h1 := selCount_le_of_getAt qc qe p x t h
          have h0 := target_count qc newc qe newe ht
          have h2 := selCount_le_of_getElem qc qe _ j x hx
          have h3 := selCount_le_of_getElem qc qe _ i a ha
          have hae := selCount_eq qc qe a
          have hee := selCount_eq qc qe e
          have hxe : selCount qc qe x = 1 := by omega
          have hae1 : selCount qc qe a = 1 := by omega
          simp only [updAt, ha, hx, updAt_rename_eq p x t h ht hxe]
          rw [renameTree_setArgs qc newc qe newe e i a ha (by omega),
            renameTree_setBody qc newc qe newe a j x hx (by omega)]

theorem selCount_rootWrap (es : List Expr) (h : qe [] (-1) = false) :
    selCount qc qe (rootWrap es) = selCountL qc qe es := by
  simp [rootWrap, selCount, h]

/-- **The edit `node.name = nm` of the edit model is `renameTreeL`** when the selection hits
exactly the node at path `p` (and not the root wrapper, which has the empty name at `-1`). -/
theorem applyEdit_rename_eq {nm : Str} (es : List Expr) (p : Path) (t : Expr) (hp : p ≠ [])
    (hget : getAtRoot es p = some t) (ht : Target qc newc qe newe nm t)
    (hc : selCountL qc qe es = 1) (hroot : qe [] (-1) = false) :
    applyEdit es (.rename p nm) = renameTreeL qc newc qe newe es := by
  have hpe : p.isEmpty = false := by cases p with
    | nil => exact absurd rfl hp
    | cons _ _ => rfl
  have h := updAt_rename_eq qc newc qe newe p (rootWrap es) t hget ht
    (by rw [selCount_rootWrap qc qe es hroot]; exact hc)
  simp only [applyEdit, applyEditE, hpe, h]
  simp [rootWrap, renameTree, hroot, Expr.body]

end TexSoup
