import TexSoupProofs.Complete.Run
/-!
# Completeness, part 5: commands (open, fixed and zero signatures, special commands)
-/
namespace TexSoup.Gram
open TexSoup

/-- `read_command` after the backslash: the name token, then the argument run in the mode the
name asks for. -/
theorem readCommand_run (tol : Bool) (m : Mode) (nreq nopt : Int) (name : Tok) (a1 a2 a3 a4 : List Arg)
    (k1 : ArgsOK a1) (k2 : ArgsOK a2) (k3 : ArgsOK a3) (k4 : ArgsOK a4)
    (w1 : WFa (cmdMode name.text m) .bracket a1 = true) (w2 : WFa (cmdMode name.text m) .brace a2 = true)
    (w3 : WFa (cmdMode name.text m) .bracket a3 = true) (w4 : WFa (cmdMode name.text m) .brace a4 = true)
    (rest : List Tok) (hrun : runOK (cmdSig nreq nopt name.text) a1 a2 a3 a4 rest = true) (f : Nat)
    (hf : 3 * (name :: (toksA a1 ++ (toksA a2 ++ (toksA a3 ++ (toksA a4 ++ rest))))).length + 3 ≤ f) :
    readCommand f nreq nopt tol m (name :: (toksA a1 ++ (toksA a2 ++ (toksA a3 ++ (toksA a4 ++ rest))))) =
      .ok ((name, treesA .bracket a1 ++ (treesA .brace a2 ++ (treesA .bracket a3 ++ treesA .brace a4))),
        rest) := by
  obtain ⟨g, rfl⟩ := succ_of_le (Nat.le_trans (by omega : 0 + 1 ≤ _) hf)
  simp only [List.length_cons] at hf
  unfold readCommand
  simp only
  rw [readArgs_run tol (cmdMode name.text m) (cmdSig nreq nopt name.text) a1 a2 a3 a4 k1 k2 k3 k4
    w1 w2 w3 w4 rest hrun g (by omega)]
  simp only [Res.bind_ok]

/-- `read_expr` at a backslash: what remains to be decided once the command is read. -/
theorem readExpr_escape (g : Nat) (skip : List Str) (tol : Bool) (m : Mode) (esc : Tok) (ts : List Tok)
    (hesc : esc.cat = .Escape) :
    readExpr (g + 1) skip tol m (esc :: ts) =
      (readCommand g (-1) (-1) tol m ts).bind fun na ts1 =>
        if na.1.text == sItem then
          if m == .math then .error .assertion
          else (readItem g ts1).bind fun body ts2 =>
            .ok (.cmd (strip na.1.text) na.2 body esc.pos, ts2)
        else if na.1.text == sBegin && m != .special then
          match na.2 with
          | [] => .error .assertion
          | a0 :: as =>
            if memStr (strip a0.string) skip then readSkipEnv (strip a0.string) as esc.pos ts1
            else readEnv g (strip a0.string) as esc.pos skip tol
              (if memStr (strip a0.string) Tables.mathEnvNames then Mode.math else m) ts1
        else .ok (.cmd (strip na.1.text) na.2 [] esc.pos, ts1) := by
  unfold readExpr
  simp only [hesc, mkindOfBegin]
  rw [if_pos (by decide)]
  rfl

theorem cmd_ok (esc name : Tok) (a1 a2 a3 a4 : List Arg)
    (k1 : ArgsOK a1) (k2 : ArgsOK a2) (k3 : ArgsOK a3) (k4 : ArgsOK a4) :
    ElemOK (.cmd esc name a1 a2 a3 a4) := by
  intro skip tol m rest f hwf hf
  obtain ⟨g, rfl⟩ := succ_of_le (Nat.le_trans (by omega : 0 + 1 ≤ _) hf)
  simp only [WF, Bool.and_eq_true, beq_iff_eq, bne_iff_ne, ne_eq, Bool.or_eq_true] at hwf
  obtain ⟨⟨⟨⟨⟨⟨⟨hesc, hni⟩, hnb⟩, w1⟩, w2⟩, w3⟩, w4⟩, hrun⟩ := hwf
  rw [runOK_win] at hrun
  simp only [toks, tree, List.cons_append, List.append_assoc]
  simp only [toks, List.cons_append, List.append_assoc, List.length_cons] at hf
  rw [readExpr_escape g skip tol m esc _ hesc,
    readCommand_run tol m (-1) (-1) name a1 a2 a3 a4 k1 k2 k3 k4 w1 w2 w3 w4 rest hrun g
      (by simp only [List.length_cons]; omega)]
  simp only [Res.bind_ok]
  rw [if_neg (by simpa using hni), if_neg]
  simp only [Bool.and_eq_true, beq_iff_eq, bne_iff_ne, ne_eq, not_and, Decidable.not_not]
  intro hb
  rcases hnb with h | h
  · exact absurd hb h
  · exact h

end TexSoup.Gram
