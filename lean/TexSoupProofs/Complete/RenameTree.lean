import TexSoupProofs.Complete.Rename
import TexSoupProofs.Complete.Canon
/-!
# The tree of a renamed document is the renamed tree

For a selection that looks at what the tree shows of a node (name and position, `Ren.ofQ`):
`tree (rename r e) = renameTree … (tree e)` – exactly the selected `.cmd` / `.nenv` nodes carry
the new name, everything else (arguments, contents, nesting, positions) is untouched.

Needed: names are written without surrounding blanks (the tree shows `strip name`), and the
selection hits no `\item` and no verbatim-like environment (`QOK`: both follow from the side
conditions of the renaming and well-formedness).
-/
namespace TexSoup.Gram
open TexSoup

@[simp] theorem renameTreeL_nil (qc : Str → Int → Bool) (newc : Str) (qe : Str → Int → Bool) (newe : Str) :
    renameTreeL qc newc qe newe [] = [] := by simp [renameTreeL]
@[simp] theorem renameTreeL_cons (qc : Str → Int → Bool) (newc : Str) (qe : Str → Int → Bool) (newe : Str)
    (e : Expr) (es : List Expr) :
    renameTreeL qc newc qe newe (e :: es) = renameTree qc newc qe newe e :: renameTreeL qc newc qe newe es := by
  simp [renameTreeL]

theorem renameTreeL_append (qc : Str → Int → Bool) (newc : Str) (qe : Str → Int → Bool) (newe : Str)
    (a b : List Expr) :
    renameTreeL qc newc qe newe (a ++ b) = renameTreeL qc newc qe newe a ++ renameTreeL qc newc qe newe b := by
  induction a with
  | nil => simp
  | cons e es ih => simp [ih]

/-- The side conditions of a renaming given by a selection on (name, position), where the skip
list `skip` is in force: selected command names have the role of `newc`, which is written
without blanks; selected environment names have the role of `newe`, and neither they nor
`newe` are in the skip list. -/
structure QOK (qc : Str → Int → Bool) (newc : Str) (qe : Str → Int → Bool) (newe : Str)
    (skip : List Str) : Prop where
  role : ∀ s pos, qc s pos = true → sameRole s newc = true ∧ strip newc = newc
  erole : ∀ s pos, qe s pos = true →
    envRole s newe = true ∧ memStr newe skip = false ∧ memStr s skip = false

variable {qc : Str → Int → Bool} {newc : Str} {qe : Str → Int → Bool} {newe : Str}

theorem QOK.nil {skip : List Str} (h : QOK qc newc qe newe skip) : QOK qc newc qe newe [] :=
  ⟨h.role, fun s pos hq => ⟨(h.erole s pos hq).1, rfl, rfl⟩⟩

theorem QOK.ren {skip : List Str} (h : QOK qc newc qe newe skip) : (Ren.ofQ qc newc qe newe).OK skip :=
  ⟨fun esc n hp => (h.role n.text esc.pos hp).1,
   fun esc nt hp => ⟨(h.erole nt.text esc.pos hp).1, (h.erole nt.text esc.pos hp).2.1⟩⟩

theorem QOK.item {skip : List Str} (h : QOK qc newc qe newe skip) (pos : Int) : qc sItem pos = false := by
  cases hq : qc sItem pos with
  | false => rfl
  | true =>
    have := (h.role sItem pos hq).1
    simp [sameRole] at this

theorem QOK.plaine {skip : List Str} (h : QOK qc newc qe newe skip) {s : Str} {pos : Int}
    (hq : qe s pos = true) : strip newe = newe := by
  have := (h.erole s pos hq).1
  simp only [envRole, Bool.and_eq_true, beq_iff_eq] at this
  exact this.1

theorem strip_sItem : strip sItem = sItem := by decide

mutual
theorem tree_rename : ∀ (e : Elem) (skip : List Str) (m : Mode) (nx : List Tok),
    WF skip m nx e = true → cmdNamesPlain e = true → envNamesPlain e = true →
    QOK qc newc qe newe skip →
    tree (rename (Ren.ofQ qc newc qe newe) e) = renameTree qc newc qe newe (tree e)
  | .leaf t, _, _, _, _, _, _, _ => by simp [rename, tree, renameTree]
  | .group o b c, skip, m, nx, h, hc, he, hq => by
      simp only [WF, Bool.and_eq_true] at h
      simp only [cmdNamesPlain] at hc
      simp only [envNamesPlain] at he
      simp [rename, tree, renameTree, trees_rename b _ _ _ _ h.2 hc he hq.nil]
  | .math k o b c, skip, m, nx, h, hc, he, hq => by
      simp only [WF, Bool.and_eq_true] at h
      simp only [cmdNamesPlain] at hc
      simp only [envNamesPlain] at he
      simp [rename, tree, renameTree, trees_rename b _ _ _ _ h.2 hc he hq.nil]
  | .cmd e n a1 a2 a3 a4, skip, m, nx, h, hc, he, hq => by
      simp only [WF, Bool.and_eq_true] at h
      obtain ⟨⟨⟨⟨⟨_, w1⟩, w2⟩, w3⟩, w4⟩, _⟩ := h
      simp only [cmdNamesPlain, Bool.and_eq_true, beq_iff_eq] at hc
      obtain ⟨⟨⟨⟨hn, c1⟩, c2⟩, c3⟩, c4⟩ := hc
      simp only [envNamesPlain, Bool.and_eq_true] at he
      obtain ⟨⟨⟨e1, e2⟩, e3⟩, e4⟩ := he
      have hname : strip ((Ren.ofQ qc newc qe newe).cmdName e n).text =
          if qc (strip n.text) e.pos then newc else strip n.text := by
        rw [hn]
        simp only [Ren.cmdName, Ren.ofQ]
        by_cases hsel : qc n.text e.pos = true
        · simp only [hsel, if_true]; exact (hq.role _ _ hsel).2
        · simp only [hsel]; exact hn
      simp only [rename, tree, renameTree, renameTreeL_append, renameTreeL_nil, hname,
        treesA_rename a1 _ _ .bracket w1 c1 e1 hq, treesA_rename a2 _ _ .brace w2 c2 e2 hq,
        treesA_rename a3 _ _ .bracket w3 c3 e3 hq, treesA_rename a4 _ _ .brace w4 c4 e4 hq]
  | .item e n a1 a2 a3 a4 b, skip, m, nx, h, hc, he, hq => by
      simp only [WF, Bool.and_eq_true, beq_iff_eq] at h
      obtain ⟨⟨⟨⟨⟨⟨⟨⟨⟨_, hitem⟩, _⟩, w1⟩, w2⟩, w3⟩, w4⟩, _⟩, hb⟩, _⟩ := h
      simp only [cmdNamesPlain, Bool.and_eq_true, beq_iff_eq] at hc
      obtain ⟨⟨⟨⟨⟨_, c1⟩, c2⟩, c3⟩, c4⟩, cb⟩ := hc
      simp only [envNamesPlain, Bool.and_eq_true] at he
      obtain ⟨⟨⟨⟨e1, e2⟩, e3⟩, e4⟩, eb⟩ := he
      have hsel : qc (strip n.text) e.pos = false := by rw [hitem, strip_sItem]; exact hq.item _
      simp only [rename, tree, renameTree, renameTreeL_append, hsel,
        treesA_rename a1 _ _ .bracket w1 c1 e1 hq, treesA_rename a2 _ _ .brace w2 c2 e2 hq,
        treesA_rename a3 _ _ .bracket w3 c3 e3 hq, treesA_rename a4 _ _ .brace w4 c4 e4 hq,
        trees_rename b _ _ _ _ hb cb eb hq.nil]
      rfl
  | .env e bg nm a2 a3 a4 b e2 en nm2, skip, m, nx, h, hc, he, hq => by
      simp only [WF, Bool.and_eq_true] at h
      obtain ⟨⟨⟨⟨⟨⟨⟨⟨⟨⟨⟨_, _⟩, w2⟩, w3⟩, w4⟩, _⟩, _⟩, hb⟩, _⟩, _⟩, _⟩, _⟩ := h
      simp only [cmdNamesPlain, Bool.and_eq_true] at hc
      obtain ⟨⟨⟨c2, c3⟩, c4⟩, cb⟩ := hc
      simp only [envNamesPlain, Bool.and_eq_true, beq_iff_eq] at he
      obtain ⟨⟨⟨⟨hn, e2'⟩, e3⟩, e4⟩, eb⟩ := he
      have hname : strip ((Ren.ofQ qc newc qe newe).envName ((Ren.ofQ qc newc qe newe).pe e nm.nt) nm).nt.text =
          if qe (strip nm.nt.text) e.pos then newe else strip nm.nt.text := by
        rw [hn]
        simp only [Ren.envName, Ren.ofQ]
        by_cases hsel : qe nm.nt.text e.pos = true
        · simp only [hsel, if_true]; exact hq.plaine hsel
        · simp only [hsel]; exact hn
      simp only [rename, tree, renameTree, renameTreeL_append, hname,
        treesA_rename a2 _ _ .brace w2 c2 e2' hq, treesA_rename a3 _ _ .bracket w3 c3 e3 hq,
        treesA_rename a4 _ _ .brace w4 c4 e4 hq, trees_rename b _ _ _ _ hb cb eb hq]
  | .venv e bg nm a2 a3 a4 vb e5, skip, m, nx, h, hc, he, hq => by
      simp only [WF, Bool.and_eq_true] at h
      obtain ⟨⟨⟨⟨⟨⟨⟨⟨⟨_, _⟩, w2⟩, w3⟩, w4⟩, _⟩, hskip⟩, _⟩, _⟩, _⟩ := h
      simp only [cmdNamesPlain, Bool.and_eq_true] at hc
      obtain ⟨⟨c2, c3⟩, c4⟩ := hc
      simp only [envNamesPlain, Bool.and_eq_true, beq_iff_eq] at he
      obtain ⟨⟨⟨_, e2'⟩, e3⟩, e4⟩ := he
      have hsel : qe (strip nm.nt.text) e.pos = false := by
        cases hq' : qe (strip nm.nt.text) e.pos with
        | false => rfl
        | true => have := (hq.erole _ _ hq').2.2; rw [hskip] at this; cases this
      simp only [rename, tree, renameTree, renameTreeL_append, hsel, renameTreeL_cons, renameTreeL_nil,
        treesA_rename a2 _ _ .brace w2 c2 e2' hq, treesA_rename a3 _ _ .bracket w3 c3 e3 hq,
        treesA_rename a4 _ _ .brace w4 c4 e4 hq]
      rfl
theorem trees_rename : ∀ (es : List Elem) (skip : List Str) (m : Mode) (ctx : Ctx) (nx : List Tok),
    WFs skip m ctx nx es = true → cmdNamesPlainS es = true → envNamesPlainS es = true →
    QOK qc newc qe newe skip →
    trees (renameS (Ren.ofQ qc newc qe newe) es) = renameTreeL qc newc qe newe (trees es)
  | [], _, _, _, _, _, _, _, _ => by simp
  | e :: es, skip, m, ctx, nx, h, hc, he, hq => by
      obtain ⟨h1, _, h3, _⟩ := WFs_cons h
      simp only [cmdNamesPlainS, Bool.and_eq_true] at hc
      simp only [envNamesPlainS, Bool.and_eq_true] at he
      simp [tree_rename e _ _ _ h1 hc.1 he.1 hq, trees_rename es _ _ _ _ h3 hc.2 he.2 hq]
theorem treeArg_rename : ∀ (a : Arg) (m : Mode) (k gk : GKind),
    WFarg m k a = true → cmdNamesPlainArg a = true → envNamesPlainArg a = true →
    ∀ {skip : List Str}, QOK qc newc qe newe skip →
    treeArg gk (renameArg (Ren.ofQ qc newc qe newe) a) = renameTree qc newc qe newe (treeArg gk a)
  | .mk sp o b c, m, k, gk, h, hc, he, _, hq => by
      simp only [WFarg, Bool.and_eq_true] at h
      simp only [cmdNamesPlainArg] at hc
      simp only [envNamesPlainArg] at he
      simp [renameArg, treeArg, renameTree, trees_rename b _ _ _ _ h.2 hc he hq.nil]
theorem treesA_rename : ∀ (as : List Arg) (m : Mode) (k gk : GKind),
    WFa m k as = true → cmdNamesPlainA as = true → envNamesPlainA as = true →
    ∀ {skip : List Str}, QOK qc newc qe newe skip →
    treesA gk (renameA (Ren.ofQ qc newc qe newe) as) = renameTreeL qc newc qe newe (treesA gk as)
  | [], _, _, _, _, _, _, _, _ => by simp
  | a :: as, m, k, gk, h, hc, he, _, hq => by
      obtain ⟨h1, h2⟩ := WFa_cons h
      simp only [cmdNamesPlainA, Bool.and_eq_true] at hc
      simp only [envNamesPlainA, Bool.and_eq_true] at he
      simp [treeArg_rename a _ _ gk h1 hc.1 he.1 hq, treesA_rename as _ _ gk h2 hc.2 he.2 hq]
end

/-- **The tree of the renamed document is the renamed tree.** -/
theorem treeD_rename {skip : List Str} (d : Doc) (hwf : WFD skip d = true)
    (hc : cmdNamesPlainS d = true) (he : envNamesPlainS d = true) (hq : QOK qc newc qe newe skip) :
    treeD (renameD (Ren.ofQ qc newc qe newe) d) = renameTreeL qc newc qe newe (treeD d) :=
  trees_rename d _ _ _ _ hwf hc he hq

/-! ### the plainness conditions -/

mutual
theorem envNamesPlain_rename {r : Ren} {skip : List Str} (hr : r.OK skip) :
    ∀ e : Elem, envNamesPlain e = true → envNamesPlain (rename r e) = true
  | .leaf _, _ => rfl
  | .group o b c, h => by
      simp only [envNamesPlain] at h
      simp only [rename, envNamesPlain]; exact envNamesPlainS_rename hr b h
  | .math k o b c, h => by
      simp only [envNamesPlain] at h
      simp only [rename, envNamesPlain]; exact envNamesPlainS_rename hr b h
  | .cmd e n a1 a2 a3 a4, h => by
      simp only [envNamesPlain, Bool.and_eq_true] at h
      simp only [rename, envNamesPlain, Bool.and_eq_true]
      exact ⟨⟨⟨envNamesPlainA_rename hr a1 h.1.1.1, envNamesPlainA_rename hr a2 h.1.1.2⟩,
        envNamesPlainA_rename hr a3 h.1.2⟩, envNamesPlainA_rename hr a4 h.2⟩
  | .item e n a1 a2 a3 a4 b, h => by
      simp only [envNamesPlain, Bool.and_eq_true] at h
      simp only [rename, envNamesPlain, Bool.and_eq_true]
      exact ⟨⟨⟨⟨envNamesPlainA_rename hr a1 h.1.1.1.1, envNamesPlainA_rename hr a2 h.1.1.1.2⟩,
        envNamesPlainA_rename hr a3 h.1.1.2⟩, envNamesPlainA_rename hr a4 h.1.2⟩,
        envNamesPlainS_rename hr b h.2⟩
  | .env e bg nm a2 a3 a4 b e2 en nm2, h => by
      simp only [envNamesPlain, Bool.and_eq_true] at h
      simp only [rename, envNamesPlain, Bool.and_eq_true]
      refine ⟨⟨⟨⟨?_, envNamesPlainA_rename hr a2 h.1.1.1.2⟩, envNamesPlainA_rename hr a3 h.1.1.2⟩,
        envNamesPlainA_rename hr a4 h.1.2⟩, envNamesPlainS_rename hr b h.2⟩
      by_cases hp : r.pe e nm.nt = true
      · have := (hr.env e nm.nt hp).1
        simp only [envRole, Bool.and_eq_true] at this
        simp only [Ren.envName, hp, if_true]; exact this.1
      · have hp' : r.pe e nm.nt = false := by simpa using hp
        simp only [Ren.envName, hp']; exact h.1.1.1.1
  | .venv e bg nm a2 a3 a4 vb e5, h => by
      simp only [envNamesPlain, Bool.and_eq_true] at h
      simp only [rename, envNamesPlain, Bool.and_eq_true]
      exact ⟨⟨⟨h.1.1.1, envNamesPlainA_rename hr a2 h.1.1.2⟩, envNamesPlainA_rename hr a3 h.1.2⟩,
        envNamesPlainA_rename hr a4 h.2⟩
theorem envNamesPlainS_rename {r : Ren} {skip : List Str} (hr : r.OK skip) :
    ∀ es : List Elem, envNamesPlainS es = true → envNamesPlainS (renameS r es) = true
  | [], _ => rfl
  | e :: es, h => by
      simp only [envNamesPlainS, Bool.and_eq_true] at h
      simp only [renameS_cons, envNamesPlainS, Bool.and_eq_true]
      exact ⟨envNamesPlain_rename hr e h.1, envNamesPlainS_rename hr es h.2⟩
theorem envNamesPlainArg_rename {r : Ren} {skip : List Str} (hr : r.OK skip) :
    ∀ a : Arg, envNamesPlainArg a = true → envNamesPlainArg (renameArg r a) = true
  | .mk sp o b c, h => by
      simp only [envNamesPlainArg] at h
      simp only [renameArg, envNamesPlainArg]; exact envNamesPlainS_rename hr b h
theorem envNamesPlainA_rename {r : Ren} {skip : List Str} (hr : r.OK skip) :
    ∀ as : List Arg, envNamesPlainA as = true → envNamesPlainA (renameA r as) = true
  | [], _ => rfl
  | a :: as, h => by
      simp only [envNamesPlainA, Bool.and_eq_true] at h
      simp only [renameA_cons, envNamesPlainA, Bool.and_eq_true]
      exact ⟨envNamesPlainArg_rename hr a h.1, envNamesPlainA_rename hr as h.2⟩
end

mutual
theorem cmdNamesPlain_of_canon : ∀ e : Elem, canon e = true → cmdNamesPlain e = true
  | .leaf _, _ => rfl
  | .group o b c, h => by
      simp only [canon, Bool.and_eq_true] at h
      simp only [cmdNamesPlain]; exact cmdNamesPlainS_of_canon b h.2
  | .math k o b c, h => by
      simp only [canon, Bool.and_eq_true] at h
      simp only [cmdNamesPlain]; exact cmdNamesPlainS_of_canon b h.2
  | .cmd e n a1 a2 a3 a4, h => by
      simp only [canon, Bool.and_eq_true] at h
      simp only [cmdNamesPlain, Bool.and_eq_true]
      exact ⟨⟨⟨⟨h.1.1.1.1.2, cmdNamesPlainA_of_canon _ a1 h.1.1.1.2⟩, cmdNamesPlainA_of_canon _ a2 h.1.1.2⟩,
        cmdNamesPlainA_of_canon _ a3 h.1.2⟩, cmdNamesPlainA_of_canon _ a4 h.2⟩
  | .item e n a1 a2 a3 a4 b, h => by
      simp only [canon, Bool.and_eq_true] at h
      simp only [cmdNamesPlain, Bool.and_eq_true]
      exact ⟨⟨⟨⟨⟨h.1.1.1.1.1.2, cmdNamesPlainA_of_canon _ a1 h.1.1.1.1.2⟩,
        cmdNamesPlainA_of_canon _ a2 h.1.1.1.2⟩, cmdNamesPlainA_of_canon _ a3 h.1.1.2⟩,
        cmdNamesPlainA_of_canon _ a4 h.1.2⟩, cmdNamesPlainS_of_canon b h.2⟩
  | .env e bg nm a2 a3 a4 b e2 en nm2, h => by
      simp only [canon, Bool.and_eq_true] at h
      obtain ⟨⟨⟨⟨⟨⟨⟨⟨_, k2⟩, k3⟩, k4⟩, kb⟩, _⟩, _⟩, _⟩, _⟩ := h
      simp only [cmdNamesPlain, Bool.and_eq_true]
      exact ⟨⟨⟨cmdNamesPlainA_of_canon _ a2 k2, cmdNamesPlainA_of_canon _ a3 k3⟩,
        cmdNamesPlainA_of_canon _ a4 k4⟩, cmdNamesPlainS_of_canon b kb⟩
  | .venv e bg nm a2 a3 a4 vb e5, h => by
      simp only [canon, Bool.and_eq_true] at h
      obtain ⟨⟨⟨⟨_, k2⟩, k3⟩, k4⟩, _⟩ := h
      simp only [cmdNamesPlain, Bool.and_eq_true]
      exact ⟨⟨cmdNamesPlainA_of_canon _ a2 k2, cmdNamesPlainA_of_canon _ a3 k3⟩,
        cmdNamesPlainA_of_canon _ a4 k4⟩
theorem cmdNamesPlainS_of_canon : ∀ es : List Elem, canonS es = true → cmdNamesPlainS es = true
  | [], _ => rfl
  | e :: es, h => by
      simp only [canonS, Bool.and_eq_true] at h
      simp only [cmdNamesPlainS, Bool.and_eq_true]
      exact ⟨cmdNamesPlain_of_canon e h.1, cmdNamesPlainS_of_canon es h.2⟩
theorem cmdNamesPlainArg_of_canon (k : GKind) : ∀ a : Arg, canonArg k a = true → cmdNamesPlainArg a = true
  | .mk sp o b c, h => by
      simp only [canonArg, Bool.and_eq_true] at h
      simp only [cmdNamesPlainArg]; exact cmdNamesPlainS_of_canon b h.2
theorem cmdNamesPlainA_of_canon (k : GKind) : ∀ as : List Arg, canonA k as = true → cmdNamesPlainA as = true
  | [], _ => rfl
  | a :: as, h => by
      simp only [canonA, Bool.and_eq_true] at h
      simp only [cmdNamesPlainA, Bool.and_eq_true]
      exact ⟨cmdNamesPlainArg_of_canon k a h.1, cmdNamesPlainA_of_canon k as h.2⟩
end

/-- Command names of a tokenizer output are written without blanks. -/
theorem cmdNamesPlainS_of_separated {skip : List Str} {d : Doc} (hwf : WFD skip d = true)
    (hsep : Separated none (toksD d)) (hen : envNamesPlainS d = true) : cmdNamesPlainS d = true :=
  cmdNamesPlainS_of_canon d (canonD_of_separated hwf hsep hen)

end TexSoup.Gram
