import TexSoupProofs.Complete.Seq
/-!
# Completeness, part 3: argument runs (`read_arg_optional`, `read_arg_required`, `read_args`)
-/
namespace TexSoup.Gram
open TexSoup

theorem tokBegin_ne_sp (k : GKind) : k.tokBegin ≠ .MergedSpacer := by cases k <;> decide

/-- `read_spacer` in front of an argument group: the optional spacer is skipped. -/
theorem afterSp_arg {sp : Option Tok} {o : Tok} (r : List Tok) (hs : spOK sp = true)
    (ho : o.cat ≠ .MergedSpacer) : (readSpacer (sp.toList ++ o :: r)).2 = o :: r := by
  cases sp with
  | none =>
    simp only [Option.toList, List.nil_append, readSpacer]
    rw [if_neg (by simpa using ho)]
  | some s =>
    simp only [spOK, beq_iff_eq] at hs
    simp only [Option.toList, List.cons_append, List.nil_append, readSpacer, hs, beq_self_eq_true, if_true]

theorem WFarg_unfold {m : Mode} {k : GKind} {sp : Option Tok} {o : Tok} {b : List Elem} {c : Tok}
    (h : WFarg m k (.mk sp o b c) = true) :
    spOK sp = true ∧ o.cat = k.tokBegin ∧ c.cat = k.tokEnd ∧ WFs [] m (.grp k) [c] b = true := by
  simp only [WFarg, Bool.and_eq_true, beq_iff_eq] at h
  exact ⟨h.1.1.1, h.1.1.2, h.1.2, h.2⟩

theorem WFa_cons {m : Mode} {k : GKind} {a : Arg} {as : List Arg} (h : WFa m k (a :: as) = true) :
    WFarg m k a = true ∧ WFa m k as = true := by
  simpa [WFa] using h

/-- a non-empty run starts, after the optional spacer, with its opener -/
theorem hdCat_afterSp_run {m : Mode} {k : GKind} {a : Arg} {as : List Arg} (Y : List Tok)
    (h : WFa m k (a :: as) = true) : hdCat (afterSp (toksA (a :: as) ++ Y)) = some k.tokBegin := by
  obtain ⟨ha, _⟩ := WFa_cons h
  cases a with
  | mk sp o b c =>
    obtain ⟨hs, ho, _, _⟩ := WFarg_unfold ha
    simp only [toksA_cons, toksArg, List.append_assoc, List.cons_append, afterSp]
    rw [afterSp_arg _ hs (by rw [ho]; exact tokBegin_ne_sp k)]
    simp only [hdCat, ho]

/-- a tight run starts with its opener -/
theorem nextIs_run {m : Mode} {k : GKind} {a : Arg} {as : List Arg} (Y : List Tok)
    (h : WFa m k (a :: as) = true) (ht : tight (a :: as) = true) :
    nextIs k.tokBegin (toksA (a :: as) ++ Y) = true := by
  obtain ⟨ha, _⟩ := WFa_cons h
  cases a with
  | mk sp o b c =>
    obtain ⟨_, ho, _, _⟩ := WFarg_unfold ha
    simp only [tight, Option.isNone_iff_eq_none] at ht
    subst ht
    simp only [toksA_cons, toksArg, Option.toList, List.nil_append, List.cons_append, nextIs, ho,
      beq_self_eq_true]

/-- `read_arg_optional` on a run of bracket groups: reads all of them, counts down, and stops
at `X` – because the count is exhausted or because no `[` follows (after a spacer). -/
theorem readArgOpt_run (tol : Bool) (m : Mode) : ∀ (as : List Arg), ArgsOK as →
    WFa m .bracket as = true → ∀ (n : Int) (X : List Tok) (f : Nat),
    (n < 0 ∨ (as.length : Int) ≤ n) →
    (n - as.length = 0 ∨ (hdCat (afterSp X) != some .BracketBegin) = true) →
    3 * (toksA as ++ X).length + 1 ≤ f →
    readArgOpt f n tol m (toksA as ++ X) = .ok ((treesA .bracket as, n - as.length), X) := by
  intro as
  induction as with
  | nil =>
    intro _ _ n X f _ hstop hf
    obtain ⟨g, rfl⟩ := succ_of_le (Nat.le_trans (by omega : 0 + 1 ≤ _) hf)
    simp only [toksA_nil, List.nil_append, treesA_nil, List.length_nil, Int.natCast_zero,
      Int.sub_zero] at hstop ⊢
    unfold readArgOpt
    by_cases h0 : (n == 0) = true
    · rw [if_pos h0]
    · rw [if_neg h0]
      have hb : (hdCat (afterSp X) != some TC.BracketBegin) = true := by
        rcases hstop with h | h
        · exact absurd (by simpa using h) h0
        · exact h
      cases hs : (readSpacer X).2 with
      | nil => rfl
      | cons o r =>
        simp only
        rw [if_neg]
        simp only [afterSp, hs, hdCat, bne_iff_ne, ne_eq, Option.some.injEq] at hb
        simpa using hb
  | cons a as ih =>
    intro hok hwf n X f hn hstop hf
    obtain ⟨g, rfl⟩ := succ_of_le (Nat.le_trans (by omega : 0 + 1 ≤ _) hf)
    obtain ⟨hwa, hws⟩ := WFa_cons hwf
    cases a with
    | mk sp o b c =>
      obtain ⟨hsp, ho, hc, hwb⟩ := WFarg_unfold hwa
      simp only [toksA_cons, toksArg, List.append_assoc, List.cons_append, List.nil_append,
        treesA_cons, treeArg, List.length_cons] at hf ⊢
      simp only [List.length_append, List.length_cons] at hf
      simp only [List.length_cons] at hn hstop
      unfold readArgOpt
      have h0 : ¬ (n == 0) = true := by
        intro h
        have : n = 0 := by simpa using h
        omega
      rw [if_neg h0, afterSp_arg _ hsp (by rw [ho]; decide)]
      simp only
      rw [if_pos (by rw [ho]; rfl)]
      rw [readArg_complete .bracket o.pos tol m c hc b (hok.head) hwb (toksA as ++ X) g
        (by simp only [List.length_append, List.length_cons]; omega)]
      simp only [Res.bind_ok]
      rw [ih hok.tail hws (n - 1) X g (by omega)
        (by rcases hstop with h | h
            · left; omega
            · right; exact h)
        (by simp only [List.length_append]; omega)]
      simp only [Res.bind_ok]
      congr 3
      omega

/-- `read_arg_required` on a run of brace groups. It stops at `X` because the count is
exhausted, or – with an open (negative) count – because no `{` follows (after a spacer). -/
theorem readArgReq_run (tol : Bool) (m : Mode) : ∀ (as : List Arg), ArgsOK as →
    WFa m .brace as = true → ∀ (n : Int) (X : List Tok) (f : Nat),
    (n < 0 ∨ (as.length : Int) ≤ n) →
    (n - as.length = 0 ∨ (n - as.length < 0 ∧ (hdCat (afterSp X) != some .GroupBegin) = true)) →
    3 * (toksA as ++ X).length + 1 ≤ f →
    readArgReq f n tol m (toksA as ++ X) = .ok ((treesA .brace as, n - as.length), X) := by
  intro as
  induction as with
  | nil =>
    intro _ _ n X f _ hstop hf
    obtain ⟨g, rfl⟩ := succ_of_le (Nat.le_trans (by omega : 0 + 1 ≤ _) hf)
    simp only [toksA_nil, List.nil_append, treesA_nil, List.length_nil, Int.natCast_zero,
      Int.sub_zero] at hstop ⊢
    unfold readArgReq
    by_cases h0 : (n == 0) = true
    · rw [if_pos h0]
    · rw [if_neg h0]
      have hb : n < 0 ∧ (hdCat (afterSp X) != some TC.GroupBegin) = true := by
        rcases hstop with h | h
        · exact absurd (by simpa using h) h0
        · exact h
      cases hs : (readSpacer X).2 with
      | nil => rfl
      | cons o r =>
        simp only
        have hb2 := hb.2
        simp only [afterSp, hs, hdCat, bne_iff_ne, ne_eq, Option.some.injEq] at hb2
        rw [if_neg (by simpa using hb2), if_neg (by omega)]
  | cons a as ih =>
    intro hok hwf n X f hn hstop hf
    obtain ⟨g, rfl⟩ := succ_of_le (Nat.le_trans (by omega : 0 + 1 ≤ _) hf)
    obtain ⟨hwa, hws⟩ := WFa_cons hwf
    cases a with
    | mk sp o b c =>
      obtain ⟨hsp, ho, hc, hwb⟩ := WFarg_unfold hwa
      simp only [toksA_cons, toksArg, List.append_assoc, List.cons_append, List.nil_append,
        treesA_cons, treeArg, List.length_cons] at hf ⊢
      simp only [List.length_append, List.length_cons] at hf
      simp only [List.length_cons] at hn hstop
      unfold readArgReq
      have h0 : ¬ (n == 0) = true := by
        intro h
        have : n = 0 := by simpa using h
        omega
      rw [if_neg h0, afterSp_arg _ hsp (by rw [ho]; decide)]
      simp only
      rw [if_pos (by rw [ho]; rfl)]
      rw [readArg_complete .brace o.pos tol m c hc b (hok.head) hwb (toksA as ++ X) g
        (by simp only [List.length_append, List.length_cons]; omega)]
      simp only [Res.bind_ok]
      rw [ih hok.tail hws (n - 1) X g (by omega)
        (by rcases hstop with h | h
            · left; omega
            · right; exact ⟨by omega, h.2⟩)
        (by simp only [List.length_append]; omega)]
      simp only [Res.bind_ok]
      congr 3
      omega

/-- The third phase of `read_args`: more optional arguments only if a `[` follows directly. -/
theorem phaseOpt (tol : Bool) (m : Mode) (as : List Arg) (hok : ArgsOK as)
    (hwf : WFa m .bracket as = true) (n : Int) (Y : List Tok) (g : Nat)
    (hn : n < 0 ∨ (as.length : Int) ≤ n)
    (hnil : as = [] → (n = 0 ∨ nextIs .BracketBegin Y = false))
    (hcons : as ≠ [] → tight as = true ∧
      (n - as.length = 0 ∨ (hdCat (afterSp Y) != some .BracketBegin) = true))
    (hf : 3 * (toksA as ++ Y).length + 1 ≤ g) :
    (if nextIs .BracketBegin (toksA as ++ Y) = true then readArgOpt g n tol m (toksA as ++ Y)
      else .ok (([], n), toksA as ++ Y)) = .ok ((treesA .bracket as, n - as.length), Y) := by
  cases as with
  | nil =>
    simp only [toksA_nil, List.nil_append, treesA_nil, List.length_nil, Int.natCast_zero, Int.sub_zero]
    rcases hnil rfl with h | h
    · subst h
      obtain ⟨g', rfl⟩ := succ_of_le (Nat.le_trans (by omega : 0 + 1 ≤ _) hf)
      have : readArgOpt (g' + 1) 0 tol m Y = .ok (([], 0), Y) := by
        unfold readArgOpt; rw [if_pos (by decide)]
      rw [this]; simp
    · rw [h]; simp
  | cons a as' =>
    obtain ⟨ht, hstop⟩ := hcons (by simp)
    have hnx : nextIs TC.BracketBegin (toksA (a :: as') ++ Y) = true :=
      nextIs_run (k := .bracket) Y hwf ht
    rw [if_pos hnx]
    exact readArgOpt_run tol m (a :: as') hok hwf n Y g hn hstop hf

/-- The fourth phase of `read_args`: more required arguments only if a `{` follows directly. -/
theorem phaseReq (tol : Bool) (m : Mode) (as : List Arg) (hok : ArgsOK as)
    (hwf : WFa m .brace as = true) (n : Int) (Y : List Tok) (g : Nat)
    (hn : n < 0 ∨ (as.length : Int) ≤ n)
    (hnil : as = [] → (n = 0 ∨ nextIs .GroupBegin Y = false))
    (hcons : as ≠ [] → tight as = true ∧
      (n - as.length = 0 ∨ (n - as.length < 0 ∧ (hdCat (afterSp Y) != some .GroupBegin) = true)))
    (hf : 3 * (toksA as ++ Y).length + 1 ≤ g) :
    (if nextIs .GroupBegin (toksA as ++ Y) = true then readArgReq g n tol m (toksA as ++ Y)
      else .ok (([], n), toksA as ++ Y)) = .ok ((treesA .brace as, n - as.length), Y) := by
  cases as with
  | nil =>
    simp only [toksA_nil, List.nil_append, treesA_nil, List.length_nil, Int.natCast_zero, Int.sub_zero]
    rcases hnil rfl with h | h
    · subst h
      obtain ⟨g', rfl⟩ := succ_of_le (Nat.le_trans (by omega : 0 + 1 ≤ _) hf)
      have : readArgReq (g' + 1) 0 tol m Y = .ok (([], 0), Y) := by
        unfold readArgReq; rw [if_pos (by decide)]
      rw [this]; simp
    · rw [h]; simp
  | cons a as' =>
    obtain ⟨ht, hstop⟩ := hcons (by simp)
    have hnx : nextIs TC.GroupBegin (toksA (a :: as') ++ Y) = true :=
      nextIs_run (k := .brace) Y hwf ht
    rw [if_pos hnx]
    exact readArgReq_run tol m (a :: as') hok hwf n Y g hn hstop hf

end TexSoup.Gram
