import TexSoupModel.GrammarOps
import TexSoupProofs.Complete.Main
/-!
# Squeezing a document: the spacers the reader drops

`squeeze` keeps the tree (`tree_squeeze`) and well-formedness (`WF_squeeze`): the look-ahead
windows never contain a dropped spacer.
-/
namespace TexSoup.Gram
open TexSoup

@[simp] theorem squeezeS_nil : squeezeS [] = [] := by simp [squeezeS]
@[simp] theorem squeezeS_cons (e : Elem) (es : List Elem) :
    squeezeS (e :: es) = squeeze e :: squeezeS es := by simp [squeezeS]
@[simp] theorem squeezeA_nil : squeezeA [] = [] := by simp [squeezeA]
@[simp] theorem squeezeA_cons (a : Arg) (as : List Arg) :
    squeezeA (a :: as) = squeezeArg a :: squeezeA as := by simp [squeezeA]

theorem squeezeA_length (as : List Arg) : (squeezeA as).length = as.length := by
  induction as with
  | nil => simp
  | cons a as ih => simp [ih]

theorem squeezeA_isEmpty (as : List Arg) : (squeezeA as).isEmpty = as.isEmpty := by
  cases as <;> simp

theorem tight_squeezeA (as : List Arg) : tight (squeezeA as) = true := by
  cases as with
  | nil => rfl
  | cons a as => cases a; simp [squeezeArg, tight]

/-! ### the tree is untouched -/

mutual
theorem tree_squeeze : ∀ e : Elem, tree (squeeze e) = tree e
  | .leaf t => by simp [squeeze]
  | .group o b c => by simp [squeeze, tree, trees_squeeze b]
  | .math k o b c => by simp [squeeze, tree, trees_squeeze b]
  | .cmd e n a1 a2 a3 a4 => by
      simp [squeeze, tree, treesA_squeeze _ a1, treesA_squeeze _ a2, treesA_squeeze _ a3,
        treesA_squeeze _ a4]
  | .item e n a1 a2 a3 a4 b => by
      simp [squeeze, tree, treesA_squeeze _ a1, treesA_squeeze _ a2, treesA_squeeze _ a3,
        treesA_squeeze _ a4, trees_squeeze b]
  | .env e bg nm a2 a3 a4 b e2 en nm2 => by
      simp [squeeze, tree, NameArg.squeeze, treesA_squeeze _ a2, treesA_squeeze _ a3,
        treesA_squeeze _ a4, trees_squeeze b]
  | .venv e bg nm a2 a3 a4 vb e5 => by
      simp [squeeze, tree, NameArg.squeeze, treesA_squeeze _ a2, treesA_squeeze _ a3,
        treesA_squeeze _ a4]
theorem trees_squeeze : ∀ es : List Elem, trees (squeezeS es) = trees es
  | [] => by simp
  | e :: es => by simp [tree_squeeze e, trees_squeeze es]
theorem treeArg_squeeze (k : GKind) : ∀ a : Arg, treeArg k (squeezeArg a) = treeArg k a
  | .mk sp o b c => by simp [squeezeArg, treeArg, trees_squeeze b]
theorem treesA_squeeze (k : GKind) : ∀ as : List Arg, treesA k (squeezeA as) = treesA k as
  | [] => by simp
  | a :: as => by simp [treeArg_squeeze k a, treesA_squeeze k as]
end

/-- **The squeezed document has the same tree** (positions included: the dropped tokens carry
none of them). -/
theorem treeD_squeeze (d : Doc) : treeD (squeezeD d) = treeD d := trees_squeeze d

/-! ### the windows are untouched -/

theorem firstTok_squeeze (e : Elem) : firstTok (squeeze e) = firstTok e := by
  cases e <;> simp [squeeze, firstTok]

theorem nameText_squeeze (e : Elem) : nameText (squeeze e) = nameText e := by
  cases e <;> simp [squeeze, nameText]

theorem startOK_squeeze (ctx : Ctx) (e : Elem) : startOK ctx (squeeze e) = startOK ctx e := by
  cases ctx <;> simp [startOK, firstTok_squeeze, nameText_squeeze]

/-- the first token of a sequence -/
theorem take1_squeezeS (es : List Elem) (X : List Tok) :
    (toksS (squeezeS es) ++ X).take 1 = (toksS es ++ X).take 1 := by
  cases es with
  | nil => simp
  | cons e es =>
    obtain ⟨r, hr⟩ := toks_cons e
    obtain ⟨r', hr'⟩ := toks_cons (squeeze e)
    simp [hr, hr', firstTok_squeeze]

/-- An element is a single token, or its first two tokens survive squeezing. -/
theorem toks_squeeze_two (e : Elem) :
    (∃ t, toks e = [t] ∧ toks (squeeze e) = [t]) ∨
    (∃ a b r r', toks e = a :: b :: r ∧ toks (squeeze e) = a :: b :: r') := by
  cases e with
  | leaf t => exact .inl ⟨t, by simp [toks], by simp [squeeze, toks]⟩
  | group o b c =>
    right
    cases b with
    | nil => exact ⟨o, c, [], [], by simp [toks], by simp [squeeze, toks]⟩
    | cons e1 es =>
      obtain ⟨r, hr⟩ := toks_cons e1
      obtain ⟨r', hr'⟩ := toks_cons (squeeze e1)
      exact ⟨o, firstTok e1, _, _, by simp [toks, hr]; rfl, by simp [squeeze, toks, hr', firstTok_squeeze]; rfl⟩
  | math k o b c =>
    right
    cases b with
    | nil => exact ⟨o, c, [], [], by simp [toks], by simp [squeeze, toks]⟩
    | cons e1 es =>
      obtain ⟨r, hr⟩ := toks_cons e1
      obtain ⟨r', hr'⟩ := toks_cons (squeeze e1)
      exact ⟨o, firstTok e1, _, _, by simp [toks, hr]; rfl, by simp [squeeze, toks, hr', firstTok_squeeze]; rfl⟩
  | cmd e n a1 a2 a3 a4 => exact .inr ⟨e, n, _, _, by simp only [toks]; rfl, by simp only [squeeze, toks]; rfl⟩
  | item e n a1 a2 a3 a4 b => exact .inr ⟨e, n, _, _, by simp only [toks]; rfl, by simp only [squeeze, toks]; rfl⟩
  | env e bg nm a2 a3 a4 b e2 en nm2 =>
    exact .inr ⟨e, bg, _, _, by simp only [toks]; rfl, by simp only [squeeze, toks]; rfl⟩
  | venv e bg nm a2 a3 a4 vb e5 =>
    exact .inr ⟨e, bg, _, _, by simp only [toks]; rfl, by simp only [squeeze, toks]; rfl⟩

theorem win_two (a b : Tok) (r : List Tok) : win (a :: b :: r) = win [a, b] := by
  simp [win]

theorem win_one (t : Tok) (X Y : List Tok) (h : X.take 1 = Y.take 1) : win (t :: X) = win (t :: Y) := by
  simp [win, h]

/-- The look-ahead window in front of a sequence does not see a dropped spacer. -/
theorem win_squeezeS (es : List Elem) (X : List Tok) :
    win (toksS (squeezeS es) ++ X) = win (toksS es ++ X) := by
  cases es with
  | nil => simp
  | cons e es =>
    simp only [squeezeS_cons, toksS_cons, List.append_assoc]
    rcases toks_squeeze_two e with ⟨t, h1, h2⟩ | ⟨a, b, r, r', h1, h2⟩
    · rw [h1, h2]
      exact win_one t _ _ (take1_squeezeS es X)
    · rw [h1, h2]
      simp only [List.cons_append]
      rw [win_two a b (r' ++ _), win_two a b (r ++ _)]

/-! ### the condition of the `read_env` look-ahead, in a form that transports -/

/-- the name of a command written without arguments -/
def noArgName : Elem → Option Str
  | .cmd _ n [] [] _ _ => some n.text
  | _ => none

/-- the free group that follows, after at most one spacer leaf -/
def nextGroup : List Elem → Option (List Elem × Tok)
  | .group _ b c :: _ => some (b, c)
  | .leaf s :: .group _ b c :: _ => if s.cat == .MergedSpacer then some (b, c) else none
  | _ => none

theorem noArgName_some {e : Elem} {n : Str} (h : noArgName e = some n) :
    ∃ esc name a3 a4, e = .cmd esc name [] [] a3 a4 ∧ name.text = n := by
  cases e with
  | cmd esc name a1 a2 a3 a4 =>
    cases a1 with
    | nil =>
      cases a2 with
      | nil => exact ⟨esc, name, a3, a4, rfl, by simpa [noArgName] using h⟩
      | cons _ _ => simp [noArgName] at h
    | cons _ _ => simp [noArgName] at h
  | _ => simp [noArgName] at h

theorem nextGroup_some {es : List Elem} {b : List Elem} {c : Tok} (h : nextGroup es = some (b, c)) :
    (∃ o tl, es = .group o b c :: tl) ∨
    (∃ s o tl, es = .leaf s :: .group o b c :: tl ∧ s.cat = .MergedSpacer) := by
  cases es with
  | nil => simp [nextGroup] at h
  | cons e1 es1 =>
    cases e1 with
    | group o b' c' =>
      simp only [nextGroup, Option.some.injEq, Prod.mk.injEq] at h
      obtain ⟨rfl, rfl⟩ := h
      exact .inl ⟨o, es1, rfl⟩
    | leaf s =>
      cases es1 with
      | nil => simp [nextGroup] at h
      | cons e2 es2 =>
        cases e2 with
        | group o b' c' =>
          by_cases hs : (s.cat == TC.MergedSpacer) = true
          · simp only [nextGroup, hs, if_true, Option.some.injEq, Prod.mk.injEq] at h
            obtain ⟨rfl, rfl⟩ := h
            exact .inr ⟨s, o, es2, rfl, by simpa using hs⟩
          · simp [nextGroup, hs] at h
        | _ => simp [nextGroup] at h
    | _ => simp [nextGroup] at h

theorem peekCond_iff (m : Mode) (ctx : Ctx) (e : Elem) (es : List Elem) :
    peekCond m ctx e es = true ↔
      (ctx = .env → ∀ n, noArgName e = some n → ∀ b c, nextGroup es = some (b, c) →
        WFs [] (cmdMode n m) (.grp .brace) [c] b = true) := by
  unfold peekCond
  split
  · rename_i esc name a3 a4 o b c tl
    simp [noArgName, nextGroup]
  · rename_i esc name a3 a4 s o b c tl
    by_cases hs : (s.cat == TC.MergedSpacer) = true
    · have : s.cat = TC.MergedSpacer := by simpa using hs
      simp [noArgName, nextGroup, this]
    · have : ¬ s.cat = TC.MergedSpacer := by simpa using hs
      simp [noArgName, nextGroup, this]
  · rename_i h1 h2
    constructor
    · intro _ hctx n hn b c hg
      exfalso
      obtain ⟨esc, name, a3, a4, rfl, _⟩ := noArgName_some hn
      rcases nextGroup_some hg with ⟨o, tl, rfl⟩ | ⟨s, o, tl, rfl, _⟩
      · exact h1 esc name a3 a4 o b c tl hctx rfl rfl
      · exact h2 esc name a3 a4 s o b c tl hctx rfl rfl
    · intro _; rfl

theorem WFs_cons_intro {skip : List Str} {m : Mode} {ctx : Ctx} {nx : List Tok} {e : Elem}
    {es : List Elem} (h1 : WF skip m (win (toksS es ++ nx)) e = true) (h2 : startOK ctx e = true)
    (h3 : WFs skip m ctx nx es = true) (h4 : peekCond m ctx e es = true) :
    WFs skip m ctx nx (e :: es) = true := by
  rw [WFs.eq_def]
  simp only [Bool.and_eq_true]
  exact ⟨⟨⟨h1, h2⟩, h3⟩, h4⟩

theorem noArgName_squeeze (e : Elem) : noArgName (squeeze e) = noArgName e := by
  cases e with
  | cmd esc name a1 a2 a3 a4 =>
    cases a1 <;> cases a2 <;> simp [squeeze, noArgName]
  | _ => simp [squeeze, noArgName]

theorem nextGroup_squeeze (es : List Elem) :
    nextGroup (squeezeS es) = (nextGroup es).map fun bc => (squeezeS bc.1, bc.2) := by
  cases es with
  | nil => simp [nextGroup]
  | cons e1 es1 =>
    cases e1 with
    | group o b c => simp [squeeze, nextGroup]
    | leaf s =>
      cases es1 with
      | nil => simp [squeeze, nextGroup]
      | cons e2 es2 =>
        cases e2 <;> simp [squeeze, nextGroup]
    | _ => simp [squeeze, nextGroup]

/-! ### well-formedness is kept -/

set_option linter.unnecessarySimpa false in
theorem runOK_squeeze {sg : Int × Int} {a1 a2 a3 a4 : List Arg} {nx : List Tok}
    (h : runOK sg a1 a2 a3 a4 nx = true) :
    runOK sg (squeezeA a1) (squeezeA a2) (squeezeA a3) (squeezeA a4) nx = true := by
  unfold runOK at h ⊢
  simp only [squeezeA_length, squeezeA_isEmpty, tight_squeezeA, Bool.true_and]
  by_cases hneg : (decide (sg.1 < 0) && decide (sg.2 < 0)) = true
  · rw [if_pos hneg] at h ⊢
    simp only [Bool.and_eq_true] at h
    obtain ⟨_, hm⟩ := h
    cases a2 <;> cases a3 <;> cases a4 <;> first | (simpa using hm) | (simp at hm)
  · rw [if_neg hneg] at h ⊢
    by_cases hp : (decide (0 ≤ sg.1) && decide (0 ≤ sg.2)) = true
    · rw [if_pos hp] at h ⊢
      simp only [Bool.and_eq_true] at h ⊢
      exact ⟨⟨⟨⟨⟨h.1.1.1.1.1, trivial⟩, h.1.1.1.2⟩, h.1.1.2⟩, h.1.2⟩, h.2⟩
    · rw [if_neg hp] at h; cases h

theorem nameArg_squeeze_ok (n : NameArg) (h : n.ok = true) : n.squeeze.ok = true := by
  simp only [NameArg.ok, NameArg.squeeze, Bool.and_eq_true, spOK] at h ⊢
  exact ⟨⟨⟨⟨trivial, h.1.1.1.2⟩, h.1.1.2⟩, h.1.2⟩, h.2⟩

theorem nameArg_squeeze_toArg (n : NameArg) : n.squeeze.toArg = squeezeArg n.toArg := by
  simp [NameArg.squeeze, NameArg.toArg, squeezeArg, squeeze]

mutual
theorem WF_squeeze : ∀ (e : Elem) (skip : List Str) (m : Mode) (nx : List Tok),
    WF skip m nx e = true → WF skip m nx (squeeze e) = true
  | .leaf t, skip, m, nx, h => by simpa [squeeze] using h
  | .group o b c, skip, m, nx, h => by
      simp only [squeeze, WF, Bool.and_eq_true] at h ⊢
      exact ⟨h.1, WFs_squeeze b _ _ _ _ h.2⟩
  | .math k o b c, skip, m, nx, h => by
      simp only [squeeze, WF, Bool.and_eq_true] at h ⊢
      exact ⟨h.1, WFs_squeeze b _ _ _ _ h.2⟩
  | .cmd e n a1 a2 a3 a4, skip, m, nx, h => by
      simp only [squeeze, WF, Bool.and_eq_true] at h ⊢
      obtain ⟨⟨⟨⟨⟨h0, w1⟩, w2⟩, w3⟩, w4⟩, hrun⟩ := h
      exact ⟨⟨⟨⟨⟨h0, WFa_squeeze a1 _ _ w1⟩, WFa_squeeze a2 _ _ w2⟩, WFa_squeeze a3 _ _ w3⟩,
        WFa_squeeze a4 _ _ w4⟩, runOK_squeeze hrun⟩
  | .item e n a1 a2 a3 a4 b, skip, m, nx, h => by
      simp only [squeeze, WF, Bool.and_eq_true] at h ⊢
      obtain ⟨⟨⟨⟨⟨⟨⟨h0, w1⟩, w2⟩, w3⟩, w4⟩, hrun⟩, hb⟩, hstop⟩ := h
      refine ⟨⟨⟨⟨⟨⟨⟨h0, WFa_squeeze a1 _ _ w1⟩, WFa_squeeze a2 _ _ w2⟩, WFa_squeeze a3 _ _ w3⟩,
        WFa_squeeze a4 _ _ w4⟩, ?_⟩, WFs_squeeze b _ _ _ _ hb⟩, hstop⟩
      rw [win_squeezeS]
      exact runOK_squeeze hrun
  | .env e bg nm a2 a3 a4 b e2 en nm2, skip, m, nx, h => by
      simp only [squeeze, WF, Bool.and_eq_true] at h ⊢
      obtain ⟨⟨⟨⟨⟨⟨⟨⟨⟨⟨⟨h0, hnm⟩, w2⟩, w3⟩, w4⟩, hrun⟩, hskip⟩, hb⟩, hesc2⟩, hen⟩, hnm2⟩, hname⟩ := h
      refine ⟨⟨⟨⟨⟨⟨⟨⟨⟨⟨⟨h0, nameArg_squeeze_ok nm hnm⟩, WFa_squeeze a2 _ _ w2⟩, WFa_squeeze a3 _ _ w3⟩,
        WFa_squeeze a4 _ _ w4⟩, ?_⟩, hskip⟩, WFs_squeeze b _ _ _ _ hb⟩, hesc2⟩, hen⟩,
        nameArg_squeeze_ok nm2 hnm2⟩, hname⟩
      rw [win_squeezeS, nameArg_squeeze_toArg, ← squeezeA_cons, ← squeezeA_nil]
      exact runOK_squeeze hrun
  | .venv e bg nm a2 a3 a4 vb e5, skip, m, nx, h => by
      simp only [squeeze, WF, Bool.and_eq_true] at h ⊢
      obtain ⟨⟨⟨⟨⟨⟨⟨⟨⟨h0, hnm⟩, w2⟩, w3⟩, w4⟩, hrun⟩, hskip⟩, h5⟩, hfl⟩, hno⟩ := h
      refine ⟨⟨⟨⟨⟨⟨⟨⟨⟨h0, nameArg_squeeze_ok nm hnm⟩, WFa_squeeze a2 _ _ w2⟩, WFa_squeeze a3 _ _ w3⟩,
        WFa_squeeze a4 _ _ w4⟩, ?_⟩, hskip⟩, h5⟩, hfl⟩, hno⟩
      rw [nameArg_squeeze_toArg, ← squeezeA_cons, ← squeezeA_nil]
      exact runOK_squeeze hrun
theorem WFs_squeeze : ∀ (es : List Elem) (skip : List Str) (m : Mode) (ctx : Ctx) (nx : List Tok),
    WFs skip m ctx nx es = true → WFs skip m ctx nx (squeezeS es) = true
  | [], _, _, _, _, _ => by simp [WFs]
  | e :: es, skip, m, ctx, nx, h => by
      obtain ⟨h1, h2, h3, h4⟩ := WFs_cons h
      rw [squeezeS_cons]
      refine WFs_cons_intro ?_ ?_ (WFs_squeeze es _ _ _ _ h3) ?_
      · rw [win_squeezeS]; exact WF_squeeze e _ _ _ h1
      · rw [startOK_squeeze]; exact h2
      · rw [peekCond_iff] at h4 ⊢
        intro hctx n hn b' c hg
        rw [noArgName_squeeze] at hn
        rw [nextGroup_squeeze] at hg
        cases hng : nextGroup es with
        | none => rw [hng] at hg; cases hg
        | some bc =>
          obtain ⟨b, c0⟩ := bc
          rw [hng] at hg
          simp only [Option.map_some, Option.some.injEq, Prod.mk.injEq] at hg
          obtain ⟨rfl, rfl⟩ := hg
          have hb := h4 hctx n hn b c0 hng
          rcases nextGroup_some hng with ⟨o, tl, rfl⟩ | ⟨s, o, tl, rfl, _⟩
          · exact WFs_squeeze b _ _ _ _ hb
          · exact WFs_squeeze b _ _ _ _ hb
theorem WFarg_squeeze : ∀ (a : Arg) (m : Mode) (k : GKind),
    WFarg m k a = true → WFarg m k (squeezeArg a) = true
  | .mk sp o b c, m, k, h => by
      simp only [squeezeArg, WFarg, Bool.and_eq_true, spOK] at h ⊢
      exact ⟨⟨⟨trivial, h.1.1.2⟩, h.1.2⟩, WFs_squeeze b _ _ _ _ h.2⟩
theorem WFa_squeeze : ∀ (as : List Arg) (m : Mode) (k : GKind),
    WFa m k as = true → WFa m k (squeezeA as) = true
  | [], _, _, _ => by simp [WFa]
  | a :: as, m, k, h => by
      obtain ⟨h1, h2⟩ := WFa_cons h
      simp only [squeezeA_cons, WFa, Bool.and_eq_true]
      exact ⟨WFarg_squeeze a _ _ h1, WFa_squeeze as _ _ h2⟩
end

/-- **The squeezed document is well-formed.** -/
theorem WFD_squeeze (skip : List Str) (d : Doc) (h : WFD skip d = true) : WFD skip (squeezeD d) = true :=
  WFs_squeeze d _ _ _ _ h

end TexSoup.Gram
