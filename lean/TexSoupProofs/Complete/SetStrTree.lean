import TexSoupProofs.Complete.SetStr
import TexSoupProofs.Complete.MapSel
import TexSoupProofs.Complete.RenameTree
/-!
# The tree of a re-stringed document

`tree (setStr r e) = mapSel (strSel qc qe) (strTop s np) (tree e)` for a selection on (name,
position) (`SetS.ofQ`): exactly the selected single-argument commands / text-only environments
get the one text leaf `s` (at position `np`), everything else is untouched.
-/
namespace TexSoup.Gram
open TexSoup

theorem mapSelL_append (sel : Expr → Bool) (g : Expr → Expr) (a b : List Expr) :
    mapSelL sel g (a ++ b) = mapSelL sel g a ++ mapSelL sel g b := by
  induction a with
  | nil => simp
  | cons e es ih => simp [ih]

/-- The selection hits no `\item` and no verbatim-like environment. -/
structure SQ (qc qe : Str → Int → Bool) (skip : List Str) : Prop where
  item : ∀ pos, qc sItem pos = false
  skipOld : ∀ s pos, qe s pos = true → memStr s skip = false

theorem SQ.nil {qc qe : Str → Int → Bool} {skip : List Str} (h : SQ qc qe skip) : SQ qc qe [] :=
  ⟨h.item, fun _ _ _ => rfl⟩

theorem treesA_setLeaf (k : GKind) (s : Str) (np : Nat) : ∀ as : List Arg,
    treesA k (as.map (Arg.setLeaf ⟨s, np, .Text⟩)) =
      (treesA k as).map fun x => x.setBody [.text s np]
  | [] => by simp
  | .mk sp o b c :: as => by
      simp [Arg.setLeaf, treeArg, tree, Expr.setBody, treesA_setLeaf k s np as]

theorem tree_not_text_of_not_leaf (e : Elem) (h : ∀ t, e ≠ .leaf t) : ∀ s p, tree e ≠ .text s p := by
  cases e <;> simp [tree] <;> exact absurd rfl (h _)

theorem oneLeaf_trees (b : List Elem) : isOneText (trees b) = oneLeaf b := by
  cases b with
  | nil => simp [oneLeaf, isOneText]
  | cons e1 es =>
    cases es with
    | cons e2 es2 => cases e1 <;> simp [oneLeaf, isOneText, tree]
    | nil => cases e1 <;> simp [oneLeaf, isOneText, tree]

@[simp] theorem ofQ_pc (qc qe : Str → Int → Bool) (s : Str) (np : Nat) (e n : Tok) :
    (SetS.ofQ qc qe s np).pc e n = qc n.text e.pos := rfl
@[simp] theorem ofQ_pe (qc qe : Str → Int → Bool) (s : Str) (np : Nat) (e n : Tok) :
    (SetS.ofQ qc qe s np).pe e n = qe n.text e.pos := rfl
@[simp] theorem ofQ_tk (qc qe : Str → Int → Bool) (s : Str) (np : Nat) :
    (SetS.ofQ qc qe s np).tk = ⟨s, np, .Text⟩ := rfl

theorem strSel_cmd (qc qe : Str → Int → Bool) (n : Str) (A B : List Expr) (p : Int) :
    strSel qc qe (.cmd n A B p) = (qc n p && A.length == 1) := rfl
theorem strSel_nenv (qc qe : Str → Int → Bool) (n : Str) (A B : List Expr) (p : Int) :
    strSel qc qe (.nenv n A B p) = (qe n p && A.isEmpty && isOneText B) := rfl
theorem mapSel_cmd (sel : Expr → Bool) (g : Expr → Expr) (n : Str) (a b : List Expr) (p : Int) :
    mapSel sel g (.cmd n a b p) =
      if sel (.cmd n a b p) then g (.cmd n a b p) else .cmd n (mapSelL sel g a) (mapSelL sel g b) p := by
  simp [mapSel]
theorem mapSel_nenv (sel : Expr → Bool) (g : Expr → Expr) (n : Str) (a b : List Expr) (p : Int) :
    mapSel sel g (.nenv n a b p) =
      if sel (.nenv n a b p) then g (.nenv n a b p) else .nenv n (mapSelL sel g a) (mapSelL sel g b) p := by
  simp [mapSel]

variable {qc qe : Str → Int → Bool} {s : Str} {np : Nat}

mutual
theorem tree_setStr : ∀ (e : Elem) (skip : List Str) (m : Mode) (nx : List Tok),
    WF skip m nx e = true → cmdNamesPlain e = true → envNamesPlain e = true → SQ qc qe skip →
    tree (setStr (SetS.ofQ qc qe s np) e) = mapSel (strSel qc qe) (strTop s np) (tree e)
  | .leaf t, _, _, _, _, _, _, _ => by simp [setStr, tree, mapSel, strSel]
  | .group o b c, skip, m, nx, h, hc, he, hq => by
      simp only [WF, Bool.and_eq_true] at h
      simp only [cmdNamesPlain] at hc
      simp only [envNamesPlain] at he
      simp [setStr, tree, mapSel, strSel, trees_setStr b _ _ _ _ h.2 hc he hq.nil]
  | .math k o b c, skip, m, nx, h, hc, he, hq => by
      simp only [WF, Bool.and_eq_true] at h
      simp only [cmdNamesPlain] at hc
      simp only [envNamesPlain] at he
      simp [setStr, tree, mapSel, strSel, trees_setStr b _ _ _ _ h.2 hc he hq.nil]
  | .cmd e n a1 a2 a3 a4, skip, m, nx, h, hc, he, hq => by
      simp only [WF, Bool.and_eq_true] at h
      obtain ⟨⟨⟨⟨⟨_, w1⟩, w2⟩, w3⟩, w4⟩, _⟩ := h
      simp only [cmdNamesPlain, Bool.and_eq_true, beq_iff_eq] at hc
      obtain ⟨⟨⟨⟨hn, c1⟩, c2⟩, c3⟩, c4⟩ := hc
      simp only [envNamesPlain, Bool.and_eq_true] at he
      obtain ⟨⟨⟨e1, e2⟩, e3⟩, e4⟩ := he
      have hlen : (treesA .bracket a1 ++ (treesA .brace a2 ++ (treesA .bracket a3 ++ treesA .brace a4))).length
          = a1.length + a2.length + a3.length + a4.length := by
        simp [treesA_length]; omega
      have hcond : strSel qc qe (.cmd (strip n.text)
          (treesA .bracket a1 ++ (treesA .brace a2 ++ (treesA .bracket a3 ++ treesA .brace a4))) [] e.pos) =
          (qc n.text e.pos && (a1.length + a2.length + a3.length + a4.length == 1)) := by
        rw [strSel_cmd, hn, hlen]
      simp only [setStr, ofQ_pc, ofQ_tk, tree]
      rw [mapSel_cmd, hcond]
      by_cases hsel : (qc n.text e.pos && (a1.length + a2.length + a3.length + a4.length == 1)) = true
      · simp only [hsel, ↓reduceIte, tree, strTop, treesA_setLeaf, List.map_append]
      · have hsel2 : (qc n.text e.pos && (a1.length + a2.length + a3.length + a4.length == 1)) = false := by
          simpa using hsel
        simp only [hsel2, Bool.false_eq_true, ↓reduceIte, tree, mapSelL_append, mapSelL_nil,
          treesA_setStr a1 _ _ .bracket w1 c1 e1 hq, treesA_setStr a2 _ _ .brace w2 c2 e2 hq,
          treesA_setStr a3 _ _ .bracket w3 c3 e3 hq, treesA_setStr a4 _ _ .brace w4 c4 e4 hq]
  | .item e n a1 a2 a3 a4 b, skip, m, nx, h, hc, he, hq => by
      simp only [WF, Bool.and_eq_true, beq_iff_eq] at h
      obtain ⟨⟨⟨⟨⟨⟨⟨⟨⟨_, hitem⟩, _⟩, w1⟩, w2⟩, w3⟩, w4⟩, _⟩, hb⟩, _⟩ := h
      simp only [cmdNamesPlain, Bool.and_eq_true, beq_iff_eq] at hc
      obtain ⟨⟨⟨⟨⟨_, c1⟩, c2⟩, c3⟩, c4⟩, cb⟩ := hc
      simp only [envNamesPlain, Bool.and_eq_true] at he
      obtain ⟨⟨⟨⟨e1, e2⟩, e3⟩, e4⟩, eb⟩ := he
      have hsel' : ∀ A B, strSel qc qe (.cmd (strip n.text) A B e.pos) = false := by
        intro A B
        rw [strSel_cmd, hitem, strip_sItem, hq.item, Bool.false_and]
      simp only [setStr, tree]
      rw [mapSel_cmd, hsel']
      simp only [Bool.false_eq_true, ↓reduceIte, mapSelL_append,
        treesA_setStr a1 _ _ .bracket w1 c1 e1 hq, treesA_setStr a2 _ _ .brace w2 c2 e2 hq,
        treesA_setStr a3 _ _ .bracket w3 c3 e3 hq, treesA_setStr a4 _ _ .brace w4 c4 e4 hq,
        trees_setStr b _ _ _ _ hb cb eb hq.nil]
  | .env e bg nm a2 a3 a4 b e2 en nm2, skip, m, nx, h, hc, he, hq => by
      simp only [WF, Bool.and_eq_true] at h
      obtain ⟨⟨⟨⟨⟨⟨⟨⟨⟨⟨⟨_, _⟩, w2⟩, w3⟩, w4⟩, _⟩, _⟩, hb⟩, _⟩, _⟩, _⟩, _⟩ := h
      simp only [cmdNamesPlain, Bool.and_eq_true] at hc
      obtain ⟨⟨⟨c2, c3⟩, c4⟩, cb⟩ := hc
      simp only [envNamesPlain, Bool.and_eq_true, beq_iff_eq] at he
      obtain ⟨⟨⟨⟨hn, e2'⟩, e3⟩, e4⟩, eb⟩ := he
      have hemp : (treesA .brace a2 ++ (treesA .bracket a3 ++ treesA .brace a4)).isEmpty
          = (a2.isEmpty && a3.isEmpty && a4.isEmpty) := by
        cases a2 <;> cases a3 <;> cases a4 <;> simp
      have hcond : strSel qc qe (.nenv (strip nm.nt.text)
          (treesA .brace a2 ++ (treesA .bracket a3 ++ treesA .brace a4)) (trees b) e.pos) =
          (qe nm.nt.text e.pos && a2.isEmpty && a3.isEmpty && a4.isEmpty && oneLeaf b) := by
        rw [strSel_nenv, hn, hemp, oneLeaf_trees]
        simp only [Bool.and_assoc]
      simp only [setStr, ofQ_pe, ofQ_tk, tree]
      rw [mapSel_nenv, hcond]
      by_cases hsel : (qe nm.nt.text e.pos && a2.isEmpty && a3.isEmpty && a4.isEmpty && oneLeaf b) = true
      · have hs2 := hsel
        simp only [Bool.and_eq_true, List.isEmpty_iff] at hs2
        obtain ⟨⟨⟨⟨_, h2⟩, h3⟩, h4⟩, _⟩ := hs2
        simp only [hsel, ↓reduceIte]
        simp only [tree, strTop, h2, h3, h4, treesA_nil, List.append_nil, trees_cons, trees_nil]
      · have hsel2 : (qe nm.nt.text e.pos && a2.isEmpty && a3.isEmpty && a4.isEmpty && oneLeaf b) = false := by
          simpa using hsel
        simp only [hsel2, Bool.false_eq_true, ↓reduceIte, tree, mapSelL_append,
          treesA_setStr a2 _ _ .brace w2 c2 e2' hq, treesA_setStr a3 _ _ .bracket w3 c3 e3 hq,
          treesA_setStr a4 _ _ .brace w4 c4 e4 hq, trees_setStr b _ _ _ _ hb cb eb hq]
  | .venv e bg nm a2 a3 a4 vb e5, skip, m, nx, h, hc, he, hq => by
      simp only [WF, Bool.and_eq_true] at h
      obtain ⟨⟨⟨⟨⟨⟨⟨⟨⟨_, _⟩, w2⟩, w3⟩, w4⟩, _⟩, hskip⟩, _⟩, _⟩, _⟩ := h
      simp only [cmdNamesPlain, Bool.and_eq_true] at hc
      obtain ⟨⟨c2, c3⟩, c4⟩ := hc
      simp only [envNamesPlain, Bool.and_eq_true, beq_iff_eq] at he
      obtain ⟨⟨⟨_, e2'⟩, e3⟩, e4⟩ := he
      have hq' : qe (strip nm.nt.text) e.pos = false := by
        cases hq' : qe (strip nm.nt.text) e.pos with
        | false => rfl
        | true => have := hq.skipOld _ _ hq'; rw [hskip] at this; cases this
      have hsel' : ∀ A B, strSel qc qe (.nenv (strip nm.nt.text) A B e.pos) = false := by
        intro A B
        rw [strSel_nenv, hq', Bool.false_and, Bool.false_and]
      simp only [setStr, tree]
      rw [mapSel_nenv, hsel']
      simp only [Bool.false_eq_true, ↓reduceIte, mapSelL_append, mapSelL_cons, mapSelL_nil,
        treesA_setStr a2 _ _ .brace w2 c2 e2' hq, treesA_setStr a3 _ _ .bracket w3 c3 e3 hq,
        treesA_setStr a4 _ _ .brace w4 c4 e4 hq]
      simp [mapSel, strSel]
theorem trees_setStr : ∀ (es : List Elem) (skip : List Str) (m : Mode) (ctx : Ctx) (nx : List Tok),
    WFs skip m ctx nx es = true → cmdNamesPlainS es = true → envNamesPlainS es = true → SQ qc qe skip →
    trees (setStrS (SetS.ofQ qc qe s np) es) = mapSelL (strSel qc qe) (strTop s np) (trees es)
  | [], _, _, _, _, _, _, _, _ => by simp
  | e :: es, skip, m, ctx, nx, h, hc, he, hq => by
      obtain ⟨h1, _, h3, _⟩ := WFs_cons h
      simp only [cmdNamesPlainS, Bool.and_eq_true] at hc
      simp only [envNamesPlainS, Bool.and_eq_true] at he
      simp [tree_setStr e _ _ _ h1 hc.1 he.1 hq, trees_setStr es _ _ _ _ h3 hc.2 he.2 hq]
theorem treeArg_setStr : ∀ (a : Arg) (m : Mode) (k gk : GKind),
    WFarg m k a = true → cmdNamesPlainArg a = true → envNamesPlainArg a = true →
    ∀ {skip : List Str}, SQ qc qe skip →
    treeArg gk (setStrArg (SetS.ofQ qc qe s np) a) = mapSel (strSel qc qe) (strTop s np) (treeArg gk a)
  | .mk sp o b c, m, k, gk, h, hc, he, _, hq => by
      simp only [WFarg, Bool.and_eq_true] at h
      simp only [cmdNamesPlainArg] at hc
      simp only [envNamesPlainArg] at he
      simp [setStrArg, treeArg, mapSel, strSel, trees_setStr b _ _ _ _ h.2 hc he hq.nil]
theorem treesA_setStr : ∀ (as : List Arg) (m : Mode) (k gk : GKind),
    WFa m k as = true → cmdNamesPlainA as = true → envNamesPlainA as = true →
    ∀ {skip : List Str}, SQ qc qe skip →
    treesA gk (setStrA (SetS.ofQ qc qe s np) as) = mapSelL (strSel qc qe) (strTop s np) (treesA gk as)
  | [], _, _, _, _, _, _, _, _ => by simp
  | a :: as, m, k, gk, h, hc, he, _, hq => by
      obtain ⟨h1, h2⟩ := WFa_cons h
      simp only [cmdNamesPlainA, Bool.and_eq_true] at hc
      simp only [envNamesPlainA, Bool.and_eq_true] at he
      simp [treeArg_setStr a _ _ gk h1 hc.1 he.1 hq, treesA_setStr as _ _ gk h2 hc.2 he.2 hq]
end

/-- **The tree of the re-stringed document.** -/
theorem treeD_setStr {skip : List Str} (d : Doc) (hwf : WFD skip d = true)
    (hc : cmdNamesPlainS d = true) (he : envNamesPlainS d = true) (hq : SQ qc qe skip) :
    treeD (setStrD (SetS.ofQ qc qe s np) d) = mapSelL (strSel qc qe) (strTop s np) (treeD d) :=
  trees_setStr d _ _ _ _ hwf hc he hq

/-! ### environment names stay plain -/

mutual
theorem envNamesPlain_setStr (r : SetS) : ∀ e : Elem, envNamesPlain e = true →
    envNamesPlain (setStr r e) = true
  | .leaf _, _ => rfl
  | .group o b c, h => by
      simp only [envNamesPlain] at h
      simp only [setStr, envNamesPlain]; exact envNamesPlainS_setStr r b h
  | .math k o b c, h => by
      simp only [envNamesPlain] at h
      simp only [setStr, envNamesPlain]; exact envNamesPlainS_setStr r b h
  | .cmd e n a1 a2 a3 a4, h => by
      simp only [envNamesPlain, Bool.and_eq_true] at h
      simp only [setStr]
      split
      · simp only [envNamesPlain, Bool.and_eq_true]
        exact ⟨⟨⟨envNamesPlainA_setLeaf _ a1, envNamesPlainA_setLeaf _ a2⟩, envNamesPlainA_setLeaf _ a3⟩,
          envNamesPlainA_setLeaf _ a4⟩
      · simp only [envNamesPlain, Bool.and_eq_true]
        exact ⟨⟨⟨envNamesPlainA_setStr r a1 h.1.1.1, envNamesPlainA_setStr r a2 h.1.1.2⟩,
          envNamesPlainA_setStr r a3 h.1.2⟩, envNamesPlainA_setStr r a4 h.2⟩
  | .item e n a1 a2 a3 a4 b, h => by
      simp only [envNamesPlain, Bool.and_eq_true] at h
      simp only [setStr, envNamesPlain, Bool.and_eq_true]
      exact ⟨⟨⟨⟨envNamesPlainA_setStr r a1 h.1.1.1.1, envNamesPlainA_setStr r a2 h.1.1.1.2⟩,
        envNamesPlainA_setStr r a3 h.1.1.2⟩, envNamesPlainA_setStr r a4 h.1.2⟩,
        envNamesPlainS_setStr r b h.2⟩
  | .env e bg nm a2 a3 a4 b e2 en nm2, h => by
      simp only [envNamesPlain, Bool.and_eq_true] at h
      simp only [setStr]
      split
      · simp [envNamesPlain, envNamesPlainA, envNamesPlainS, h.1.1.1.1]
      · simp only [envNamesPlain, Bool.and_eq_true]
        exact ⟨⟨⟨⟨h.1.1.1.1, envNamesPlainA_setStr r a2 h.1.1.1.2⟩, envNamesPlainA_setStr r a3 h.1.1.2⟩,
          envNamesPlainA_setStr r a4 h.1.2⟩, envNamesPlainS_setStr r b h.2⟩
  | .venv e bg nm a2 a3 a4 vb e5, h => by
      simp only [envNamesPlain, Bool.and_eq_true] at h
      simp only [setStr, envNamesPlain, Bool.and_eq_true]
      exact ⟨⟨⟨h.1.1.1, envNamesPlainA_setStr r a2 h.1.1.2⟩, envNamesPlainA_setStr r a3 h.1.2⟩,
        envNamesPlainA_setStr r a4 h.2⟩
theorem envNamesPlainS_setStr (r : SetS) : ∀ es : List Elem, envNamesPlainS es = true →
    envNamesPlainS (setStrS r es) = true
  | [], _ => rfl
  | e :: es, h => by
      simp only [envNamesPlainS, Bool.and_eq_true] at h
      simp only [setStrS_cons, envNamesPlainS, Bool.and_eq_true]
      exact ⟨envNamesPlain_setStr r e h.1, envNamesPlainS_setStr r es h.2⟩
theorem envNamesPlainArg_setStr (r : SetS) : ∀ a : Arg, envNamesPlainArg a = true →
    envNamesPlainArg (setStrArg r a) = true
  | .mk sp o b c, h => by
      simp only [envNamesPlainArg] at h
      simp only [setStrArg, envNamesPlainArg]; exact envNamesPlainS_setStr r b h
theorem envNamesPlainA_setStr (r : SetS) : ∀ as : List Arg, envNamesPlainA as = true →
    envNamesPlainA (setStrA r as) = true
  | [], _ => rfl
  | a :: as, h => by
      simp only [envNamesPlainA, Bool.and_eq_true] at h
      simp only [setStrA_cons, envNamesPlainA, Bool.and_eq_true]
      exact ⟨envNamesPlainArg_setStr r a h.1, envNamesPlainA_setStr r as h.2⟩
theorem envNamesPlainA_setLeaf (tk : Tok) : ∀ as : List Arg,
    envNamesPlainA (as.map (Arg.setLeaf tk)) = true
  | [] => rfl
  | .mk sp o b c :: as => by
      simp [Arg.setLeaf, envNamesPlainA, envNamesPlainArg, envNamesPlainS, envNamesPlain,
        envNamesPlainA_setLeaf tk as]
end

end TexSoup.Gram
