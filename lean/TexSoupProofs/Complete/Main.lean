import TexSoupProofs.Complete.Verb
/-!
# Completeness, part 10: the structural induction and the theorems for every reader loop
-/
namespace TexSoup.Gram
open TexSoup

mutual
theorem elem_both : ∀ e : Elem, ElemOK e ∧ PeekOK e ∧ GroupArgOK e
  | .leaf t => ⟨leaf_ok t, leaf_peek t, leaf_sub t⟩
  | .group o b c => ⟨group_ok o b c (elems_both b), group_peek o b c, group_sub o b c (elems_both b)⟩
  | .math k o b c => ⟨math_ok k o b c (elems_both b), math_peek k o b c, math_sub k o b c⟩
  | .cmd esc name a1 a2 a3 a4 =>
      ⟨cmd_ok esc name a1 a2 a3 a4 (args_both a1) (args_both a2) (args_both a3) (args_both a4),
        cmd_peek esc name a1 a2 a3 a4 (args_both a2), by intro o b c he; cases he⟩
  | .item esc name a1 a2 a3 a4 b =>
      ⟨item_ok esc name a1 a2 a3 a4 b (args_both a1) (args_both a2) (args_both a3) (args_both a4)
        (elems_both b), item_peek esc name a1 a2 a3 a4 b (args_both a2), by intro o b c he; cases he⟩
  | .env esc bgn nm a2 a3 a4 b esc2 en nm2 =>
      ⟨env_ok esc bgn nm a2 a3 a4 b esc2 en nm2 (args_both a2) (args_both a3) (args_both a4)
        (elems_both b), env_peek esc bgn nm a2 a3 a4 b esc2 en nm2 (args_both a2), by intro o b c he; cases he⟩
  | .venv esc bgn nm a2 a3 a4 vb e5 =>
      ⟨venv_ok esc bgn nm a2 a3 a4 vb e5 (args_both a2) (args_both a3) (args_both a4),
        venv_peek esc bgn nm a2 a3 a4 vb e5 (args_both a2), by intro o b c he; cases he⟩
theorem elems_both : ∀ es : List Elem, AllOK es
  | [] => by intro e he; cases he
  | e :: es => by
    intro x hx
    rcases List.mem_cons.mp hx with h | h
    · rw [h]; exact elem_both e
    · exact elems_both es x h
theorem arg_both : ∀ a : Arg, AllOK a.body
  | .mk _ _ b _ => elems_both b
theorem args_both : ∀ as : List Arg, ArgsOK as
  | [] => by intro a ha; cases ha
  | a :: as => by
    intro x hx
    rcases List.mem_cons.mp hx with h | h
    · rw [h]; exact arg_both a
    · exact args_both as x h
end

/-- **Completeness of `read_expr`.** A well-formed element followed by `rest` (whose look-ahead
window enters the well-formedness) is read back as exactly its syntax tree, and `rest` is what
remains; for both tolerance values, with the fuel `3·length + 1` of the remaining input. -/
theorem readExpr_complete (e : Elem) (skip : List Str) (tol : Bool) (m : Mode) (rest : List Tok)
    (f : Nat) (hwf : WF skip m (win rest) e = true) (hf : 3 * (toks e ++ rest).length + 1 ≤ f) :
    readExpr f skip tol m (toks e ++ rest) = .ok (tree e, rest) :=
  (elem_both e).1 skip tol m rest f hwf hf

/-- group and argument bodies -/
theorem group_body_complete (k : GKind) (tol : Bool) (m : Mode) (c : Tok) (hc : c.cat = k.tokEnd)
    (es : List Elem) (hwf : WFs [] m (.grp k) [c] es = true) (rest : List Tok) (f : Nat)
    (hf : 3 * (toksS es ++ c :: rest).length + 2 ≤ f) :
    readArgBody f k tol m (toksS es ++ c :: rest) = .ok (trees es, rest) :=
  readArgBody_complete k tol m c hc es (elems_both es) hwf rest f hf

/-- math bodies -/
theorem math_body_complete (k : MKind) (tol : Bool) (c : Tok) (hc : c.cat = k.tokEnd)
    (es : List Elem) (hwf : WFs [] .math (.mth k) [c] es = true) (rest : List Tok) (f : Nat)
    (hf : 3 * (toksS es ++ c :: rest).length + 2 ≤ f) :
    readMathBody f k tol (toksS es ++ c :: rest) = .ok (trees es, c :: rest) :=
  readMathBody_complete k tol c hc es (elems_both es) hwf rest f hf

/-- environment bodies, including the look-ahead that finds `\end{name}` -/
theorem env_body_complete (skip : List Str) (tol : Bool) (m : Mode) (esc2 en : Tok) (nm2 : NameArg)
    (hesc2 : esc2.cat = .Escape) (hen : en.text = sEnd) (hnm2 : nm2.ok = true)
    (es : List Elem) (hwf : WFs skip m .env [esc2, en] es = true) (rest : List Tok) (f : Nat)
    (hf : 3 * (toksS es ++ esc2 :: en :: (nm2.toks ++ rest)).length + 2 ≤ f) :
    readEnvBody f skip tol m (toksS es ++ esc2 :: en :: (nm2.toks ++ rest)) =
      .ok ((trees es, some [nm2.tree]), esc2 :: en :: (nm2.toks ++ rest)) :=
  readEnvBody_complete skip tol m esc2 en nm2 hesc2 hen hnm2 es (elems_both es) hwf rest f hf

/-- the contents of an `\item` -/
theorem item_body_complete (es : List Elem) (rest : List Tok)
    (hwf : WFs [] .nonMath .item (win rest) es = true) (hstop : itemStop rest = true) (f : Nat)
    (hf : 3 * (toksS es ++ rest).length + 2 ≤ f) :
    readItem f (toksS es ++ rest) = .ok (trees es, rest) :=
  readItem_complete es (elems_both es) rest hwf hstop f hf

/-- argument runs, for every signature -/
theorem args_complete (tol : Bool) (m : Mode) (sg : Int × Int) (a1 a2 a3 a4 : List Arg)
    (w1 : WFa m .bracket a1 = true) (w2 : WFa m .brace a2 = true)
    (w3 : WFa m .bracket a3 = true) (w4 : WFa m .brace a4 = true)
    (rest : List Tok) (hrun : runOK sg a1 a2 a3 a4 rest = true) (f : Nat)
    (hf : 3 * (toksA a1 ++ (toksA a2 ++ (toksA a3 ++ (toksA a4 ++ rest)))).length + 2 ≤ f) :
    readArgs f sg.1 sg.2 tol m (toksA a1 ++ (toksA a2 ++ (toksA a3 ++ (toksA a4 ++ rest)))) =
      .ok (treesA .bracket a1 ++ (treesA .brace a2 ++ (treesA .bracket a3 ++ treesA .brace a4)), rest) :=
  readArgs_run tol m sg a1 a2 a3 a4 (args_both a1) (args_both a2) (args_both a3) (args_both a4)
    w1 w2 w3 w4 rest hrun f hf

/-- `read_tex` with any sufficient fuel -/
theorem readTex_complete' (skip : List Str) (tol : Bool) (d : Doc) (hwf : WFD skip d = true) (f : Nat)
    (hf : 3 * (toksD d).length + 2 ≤ f) : readTex f skip tol (toksD d) = .ok (treeD d) :=
  readTex_complete skip tol d (elems_both d) hwf f hf

/-- **Well-formed documents parse, and the tree is the syntax tree.** With the fuel the parser
actually uses. -/
theorem document_complete (skip : List Str) (tol : Bool) (d : Doc) (hwf : WFD skip d = true) :
    readTex (parseFuel (toksD d)) skip tol (toksD d) = .ok (treeD d) :=
  readTex_complete' skip tol d hwf _ (by unfold parseFuel; omega)

end TexSoup.Gram
