import TexSoupProofs.Complete.Squeeze
/-!
# Changing the payload of comments keeps a document well-formed

No frame condition of the grammar looks at the text of a leaf token: `WF` is preserved by
`mapComments f` for every `f` (`WFD_mapComments`).
-/
namespace TexSoup.Gram
open TexSoup

@[simp] theorem mapCommentsS_nil (f : Str → Str) : mapCommentsS f [] = [] := by simp [mapCommentsS]
@[simp] theorem mapCommentsS_cons (f : Str → Str) (e : Elem) (es : List Elem) :
    mapCommentsS f (e :: es) = mapComments f e :: mapCommentsS f es := by simp [mapCommentsS]
@[simp] theorem mapCommentsA_nil (f : Str → Str) : mapCommentsA f [] = [] := by simp [mapCommentsA]
@[simp] theorem mapCommentsA_cons (f : Str → Str) (a : Arg) (as : List Arg) :
    mapCommentsA f (a :: as) = mapCommentsArg f a :: mapCommentsA f as := by simp [mapCommentsA]

@[simp] theorem mapCommentTok_cat (f : Str → Str) (t : Tok) : (mapCommentTok f t).cat = t.cat := by
  unfold mapCommentTok; split <;> rfl
@[simp] theorem mapCommentTok_pos (f : Str → Str) (t : Tok) : (mapCommentTok f t).pos = t.pos := by
  unfold mapCommentTok; split <;> rfl

theorem mapCommentsA_length (f : Str → Str) (as : List Arg) : (mapCommentsA f as).length = as.length := by
  induction as with
  | nil => simp
  | cons a as ih => simp [ih]

theorem mapCommentsA_isEmpty (f : Str → Str) (as : List Arg) :
    (mapCommentsA f as).isEmpty = as.isEmpty := by cases as <;> simp

theorem tight_mapCommentsA (f : Str → Str) (as : List Arg) : tight (mapCommentsA f as) = tight as := by
  cases as with
  | nil => rfl
  | cons a as => cases a; simp [mapCommentsArg, tight]

theorem firstTok_mapComments_cat (f : Str → Str) (e : Elem) :
    (firstTok (mapComments f e)).cat = (firstTok e).cat := by
  cases e <;> simp [mapComments, firstTok]

theorem nameText_mapComments (f : Str → Str) (e : Elem) : nameText (mapComments f e) = nameText e := by
  cases e <;> simp [mapComments, nameText]

theorem startOK_mapComments (f : Str → Str) (ctx : Ctx) (e : Elem) :
    startOK ctx (mapComments f e) = startOK ctx e := by
  cases ctx <;> simp [startOK, firstTok_mapComments_cat, nameText_mapComments]

/-! ### what the frame conditions see of the following tokens -/

/-- The three things a frame condition asks about the tokens that follow. -/
def key3 (nx : List Tok) : Option TC × Option TC × Bool := (hdCat nx, hdCat (afterSp nx), itemStop nx)

theorem key3_win (X : List Tok) : key3 (win X) = key3 X := by
  simp [key3, hdCat_win, hdCat_afterSp_win, itemStop_win]

theorem runOK_key {sg : Int × Int} {a1 a2 a3 a4 : List Arg} {nx nx' : List Tok}
    (h : key3 nx' = key3 nx) : runOK sg a1 a2 a3 a4 nx' = runOK sg a1 a2 a3 a4 nx := by
  simp only [key3, Prod.mk.injEq] at h
  unfold runOK
  rw [h.1, h.2.1]

theorem itemStop_key {nx nx' : List Tok} (h : key3 nx' = key3 nx) : itemStop nx' = itemStop nx := by
  simp only [key3, Prod.mk.injEq] at h
  exact h.2.2

/-- two leading tokens decide -/
theorem key3_two (a b : Tok) (r r' : List Tok) : key3 (a :: b :: r) = key3 (a :: b :: r') := by
  simp only [key3, hdCat, afterSp, readSpacer, itemStop]
  by_cases h : (a.cat == TC.MergedSpacer) = true <;> simp [h]

/-- … and of the second one only the category, unless the first is a backslash -/
theorem key3_two_cat (a b b' : Tok) (r r' : List Tok) (hb : b'.cat = b.cat) (ha : a.cat ≠ .Escape) :
    key3 (a :: b' :: r') = key3 (a :: b :: r) := by
  have hae : (a.cat == TC.Escape) = false := by simpa using ha
  simp only [key3, hdCat, afterSp, readSpacer, itemStop, hae, Bool.false_and, Bool.or_false]
  by_cases h : (a.cat == TC.MergedSpacer) = true <;> simp [h, hb]

theorem key3_one (t t' : Tok) (X X' : List Tok) (hc : t'.cat = t.cat) (hne : t.cat ≠ .Escape)
    (h : key3 X' = key3 X) : key3 (t' :: X') = key3 (t :: X) := by
  have hae : (t.cat == TC.Escape) = false := by simpa using hne
  simp only [key3, Prod.mk.injEq] at h ⊢
  refine ⟨by simp [hdCat, hc], ?_, by simp [itemStop, hc, hae]⟩
  simp only [afterSp, readSpacer, hc]
  by_cases hs : (t.cat == TC.MergedSpacer) = true
  · simp only [hs, if_true]; exact h.1
  · simp [hs, hdCat, hc]

/-- The first token of a well-formed element is a backslash only for the constructs that
continue with their name token. -/
theorem head_cases {skip : List Str} {m : Mode} {nx : List Tok} {e : Elem} (f : Str → Str)
    (hwf : WF skip m nx e = true) :
    (∃ a b r r', toks e = a :: b :: r ∧ toks (mapComments f e) = a :: b :: r') ∨
    (∃ t t', toks e = [t] ∧ toks (mapComments f e) = [t'] ∧ t'.cat = t.cat ∧ t.cat ≠ .Escape) ∨
    (∃ a b b' r r', toks e = a :: b :: r ∧ toks (mapComments f e) = a :: b' :: r' ∧ b'.cat = b.cat ∧
      a.cat ≠ .Escape) := by
  cases e with
  | leaf t =>
    right; left
    simp only [WF, leafTok, Bool.and_eq_true, bne_iff_ne, ne_eq] at hwf
    exact ⟨t, mapCommentTok f t, by simp [toks], by simp [mapComments, toks], by simp, hwf.1.2⟩
  | group o b c =>
    simp only [WF, Bool.and_eq_true, beq_iff_eq] at hwf
    have ho : o.cat ≠ .Escape := by rw [hwf.1.1]; decide
    cases b with
    | nil => exact .inl ⟨o, c, [], [], by simp [toks], by simp [mapComments, toks]⟩
    | cons e1 es =>
      right; right
      obtain ⟨r, hr⟩ := toks_cons e1
      obtain ⟨r', hr'⟩ := toks_cons (mapComments f e1)
      exact ⟨o, firstTok e1, firstTok (mapComments f e1), _, _, by simp [toks, hr]; rfl,
        by simp [mapComments, toks, hr']; rfl, firstTok_mapComments_cat f e1, ho⟩
  | math k o b c =>
    simp only [WF, Bool.and_eq_true, beq_iff_eq] at hwf
    have ho : o.cat ≠ .Escape := by
      intro h
      have := hwf.1.1
      rw [h] at this
      simp [mkindOfBegin] at this
    cases b with
    | nil => exact .inl ⟨o, c, [], [], by simp [toks], by simp [mapComments, toks]⟩
    | cons e1 es =>
      right; right
      obtain ⟨r, hr⟩ := toks_cons e1
      obtain ⟨r', hr'⟩ := toks_cons (mapComments f e1)
      exact ⟨o, firstTok e1, firstTok (mapComments f e1), _, _, by simp [toks, hr]; rfl,
        by simp [mapComments, toks, hr']; rfl, firstTok_mapComments_cat f e1, ho⟩
  | cmd e n a1 a2 a3 a4 =>
    exact .inl ⟨e, n, _, _, by simp only [toks]; rfl, by simp only [mapComments, toks]; rfl⟩
  | item e n a1 a2 a3 a4 b =>
    exact .inl ⟨e, n, _, _, by simp only [toks]; rfl, by simp only [mapComments, toks]; rfl⟩
  | env e bg nm a2 a3 a4 b e2 en nm2 =>
    exact .inl ⟨e, bg, _, _, by simp only [toks]; rfl, by simp only [mapComments, toks]; rfl⟩
  | venv e bg nm a2 a3 a4 vb e5 =>
    exact .inl ⟨e, bg, _, _, by simp only [toks]; rfl, by simp only [mapComments, toks]; rfl⟩

/-- The frame conditions see the same of a sequence whatever the comments say. -/
theorem key3_mapS (f : Str → Str) : ∀ (es : List Elem) (skip : List Str) (m : Mode) (ctx : Ctx)
    (nx0 : List Tok), WFs skip m ctx nx0 es = true → ∀ X X', key3 X' = key3 X →
    key3 (toksS (mapCommentsS f es) ++ X') = key3 (toksS es ++ X) := by
  intro es
  induction es with
  | nil => intro _ _ _ _ _ X X' h; simpa using h
  | cons e es ih =>
    intro skip m ctx nx0 hwf X X' h
    obtain ⟨hwe, _, hws, _⟩ := WFs_cons hwf
    have hrec := ih skip m ctx nx0 hws X X' h
    simp only [mapCommentsS_cons, toksS_cons, List.append_assoc]
    rcases head_cases f hwe with ⟨a, b, r, r', h1, h2⟩ | ⟨t, t', h1, h2, hc, hne⟩ |
      ⟨a, b, b', r, r', h1, h2, hb, ha⟩
    · rw [h1, h2]; exact key3_two a b _ _
    · rw [h1, h2]; exact key3_one t t' _ _ hc hne hrec
    · rw [h1, h2]; exact key3_two_cat a b b' _ _ hb ha

/-! ### the look-ahead condition -/

theorem noArgName_mapComments (f : Str → Str) (e : Elem) : noArgName (mapComments f e) = noArgName e := by
  cases e with
  | cmd esc name a1 a2 a3 a4 =>
    cases a1 <;> cases a2 <;> simp [mapComments, noArgName]
  | _ => simp [mapComments, noArgName]

theorem nextGroup_mapComments (f : Str → Str) (es : List Elem) :
    nextGroup (mapCommentsS f es) = (nextGroup es).map fun bc => (mapCommentsS f bc.1, bc.2) := by
  cases es with
  | nil => simp [nextGroup]
  | cons e1 es1 =>
    cases e1 with
    | group o b c => simp [mapComments, nextGroup]
    | leaf s =>
      cases es1 with
      | nil => simp [mapComments, nextGroup]
      | cons e2 es2 =>
        cases e2 <;> simp [mapComments, nextGroup]
    | _ => simp [mapComments, nextGroup]

/-! ### well-formedness is kept -/

set_option linter.unnecessarySimpa false in
theorem runOK_mapComments (f : Str → Str) {sg : Int × Int} {a1 a2 a3 a4 : List Arg} {nx : List Tok}
    (h : runOK sg a1 a2 a3 a4 nx = true) :
    runOK sg (mapCommentsA f a1) (mapCommentsA f a2) (mapCommentsA f a3) (mapCommentsA f a4) nx = true := by
  unfold runOK at h ⊢
  simp only [mapCommentsA_length, mapCommentsA_isEmpty, tight_mapCommentsA]
  by_cases hneg : (decide (sg.1 < 0) && decide (sg.2 < 0)) = true
  · rw [if_pos hneg] at h ⊢
    cases a2 <;> cases a3 <;> cases a4 <;> simpa using h
  · rw [if_neg hneg] at h ⊢
    exact h

/-- `runOK` does not look into the groups -/
theorem runOK_head_irrel (sg : Int × Int) (x y : Arg) (as a3 a4 : List Arg) (nx : List Tok) :
    runOK sg [] (x :: as) a3 a4 nx = runOK sg [] (y :: as) a3 a4 nx := by
  unfold runOK
  cases a3 <;> cases a4 <;> simp

mutual
theorem WF_mapComments (f : Str → Str) : ∀ (e : Elem) (skip : List Str) (m : Mode) (nx nx' : List Tok),
    WF skip m nx e = true → key3 nx' = key3 nx → WF skip m nx' (mapComments f e) = true
  | .leaf t, skip, m, nx, nx', h, _ => by
      simpa [mapComments, WF, leafTok] using h
  | .group o b c, skip, m, nx, nx', h, _ => by
      simp only [mapComments, WF, Bool.and_eq_true] at h ⊢
      exact ⟨h.1, WFs_mapComments f b _ _ _ _ _ h.2 rfl⟩
  | .math k o b c, skip, m, nx, nx', h, _ => by
      simp only [mapComments, WF, Bool.and_eq_true] at h ⊢
      exact ⟨h.1, WFs_mapComments f b _ _ _ _ _ h.2 rfl⟩
  | .cmd e n a1 a2 a3 a4, skip, m, nx, nx', h, hk => by
      simp only [mapComments, WF, Bool.and_eq_true] at h ⊢
      obtain ⟨⟨⟨⟨⟨h0, w1⟩, w2⟩, w3⟩, w4⟩, hrun⟩ := h
      refine ⟨⟨⟨⟨⟨h0, WFa_mapComments f a1 _ _ w1⟩, WFa_mapComments f a2 _ _ w2⟩,
        WFa_mapComments f a3 _ _ w3⟩, WFa_mapComments f a4 _ _ w4⟩, ?_⟩
      rw [runOK_key hk]
      exact runOK_mapComments f hrun
  | .item e n a1 a2 a3 a4 b, skip, m, nx, nx', h, hk => by
      simp only [mapComments, WF, Bool.and_eq_true] at h ⊢
      obtain ⟨⟨⟨⟨⟨⟨⟨h0, w1⟩, w2⟩, w3⟩, w4⟩, hrun⟩, hb⟩, hstop⟩ := h
      refine ⟨⟨⟨⟨⟨⟨⟨h0, WFa_mapComments f a1 _ _ w1⟩, WFa_mapComments f a2 _ _ w2⟩,
        WFa_mapComments f a3 _ _ w3⟩, WFa_mapComments f a4 _ _ w4⟩, ?_⟩,
        WFs_mapComments f b _ _ _ _ _ hb hk⟩, by rw [itemStop_key hk]; exact hstop⟩
      rw [runOK_key (nx := win (toksS b ++ nx))
        (by rw [key3_win, key3_win]; exact key3_mapS f b _ _ _ _ hb _ _ hk)]
      exact runOK_mapComments f hrun
  | .env e bg nm a2 a3 a4 b e2 en nm2, skip, m, nx, nx', h, _ => by
      simp only [mapComments, WF, Bool.and_eq_true] at h ⊢
      obtain ⟨⟨⟨⟨⟨⟨⟨⟨⟨⟨⟨h0, hnm⟩, w2⟩, w3⟩, w4⟩, hrun⟩, hskip⟩, hb⟩, hesc2⟩, hen⟩, hnm2⟩, hname⟩ := h
      refine ⟨⟨⟨⟨⟨⟨⟨⟨⟨⟨⟨h0, hnm⟩, WFa_mapComments f a2 _ _ w2⟩, WFa_mapComments f a3 _ _ w3⟩,
        WFa_mapComments f a4 _ _ w4⟩, ?_⟩, hskip⟩, WFs_mapComments f b _ _ _ _ _ hb rfl⟩, hesc2⟩, hen⟩,
        hnm2⟩, hname⟩
      rw [runOK_key (nx := win (toksS b ++ [e2, en]))
        (by rw [key3_win, key3_win]; exact key3_mapS f b _ _ _ _ hb _ _ rfl)]
      have := runOK_mapComments f (a1 := []) hrun
      rw [mapCommentsA_cons, mapCommentsA_nil, runOK_head_irrel _ _ nm.toArg] at this
      exact this
  | .venv e bg nm a2 a3 a4 vb e5, skip, m, nx, nx', h, _ => by
      simp only [mapComments, WF, Bool.and_eq_true] at h ⊢
      obtain ⟨⟨⟨⟨⟨⟨⟨⟨⟨h0, hnm⟩, w2⟩, w3⟩, w4⟩, hrun⟩, hskip⟩, h5⟩, hfl⟩, hno⟩ := h
      refine ⟨⟨⟨⟨⟨⟨⟨⟨⟨h0, hnm⟩, WFa_mapComments f a2 _ _ w2⟩, WFa_mapComments f a3 _ _ w3⟩,
        WFa_mapComments f a4 _ _ w4⟩, ?_⟩, hskip⟩, h5⟩, hfl⟩, hno⟩
      have := runOK_mapComments f (a1 := []) hrun
      rw [mapCommentsA_cons, mapCommentsA_nil, runOK_head_irrel _ _ nm.toArg] at this
      exact this
theorem WFs_mapComments (f : Str → Str) : ∀ (es : List Elem) (skip : List Str) (m : Mode) (ctx : Ctx)
    (nx nx' : List Tok), WFs skip m ctx nx es = true → key3 nx' = key3 nx →
    WFs skip m ctx nx' (mapCommentsS f es) = true
  | [], _, _, _, _, _, _, _ => by simp [WFs]
  | e :: es, skip, m, ctx, nx, nx', h, hk => by
      obtain ⟨h1, h2, h3, h4⟩ := WFs_cons h
      rw [mapCommentsS_cons]
      refine WFs_cons_intro ?_ ?_ (WFs_mapComments f es _ _ _ _ _ h3 hk) ?_
      · exact WF_mapComments f e _ _ _ _ h1
          (by rw [key3_win, key3_win]; exact key3_mapS f es _ _ _ _ h3 _ _ hk)
      · rw [startOK_mapComments]; exact h2
      · rw [peekCond_iff] at h4 ⊢
        intro hctx n hn b' c hg
        rw [noArgName_mapComments] at hn
        rw [nextGroup_mapComments] at hg
        cases hng : nextGroup es with
        | none => rw [hng] at hg; cases hg
        | some bc =>
          obtain ⟨b, c0⟩ := bc
          rw [hng] at hg
          simp only [Option.map_some, Option.some.injEq, Prod.mk.injEq] at hg
          obtain ⟨rfl, rfl⟩ := hg
          have hb := h4 hctx n hn b c0 hng
          rcases nextGroup_some hng with ⟨o, tl, rfl⟩ | ⟨s, o, tl, rfl, _⟩
          · exact WFs_mapComments f b _ _ _ _ _ hb rfl
          · exact WFs_mapComments f b _ _ _ _ _ hb rfl
theorem WFarg_mapComments (f : Str → Str) : ∀ (a : Arg) (m : Mode) (k : GKind),
    WFarg m k a = true → WFarg m k (mapCommentsArg f a) = true
  | .mk sp o b c, m, k, h => by
      simp only [mapCommentsArg, WFarg, Bool.and_eq_true] at h ⊢
      exact ⟨h.1, WFs_mapComments f b _ _ _ _ _ h.2 rfl⟩
theorem WFa_mapComments (f : Str → Str) : ∀ (as : List Arg) (m : Mode) (k : GKind),
    WFa m k as = true → WFa m k (mapCommentsA f as) = true
  | [], _, _, _ => by simp [WFa]
  | a :: as, m, k, h => by
      obtain ⟨h1, h2⟩ := WFa_cons h
      simp only [mapCommentsA_cons, WFa, Bool.and_eq_true]
      exact ⟨WFarg_mapComments f a _ _ h1, WFa_mapComments f as _ _ h2⟩
end

/-- **Whatever the comments say, the document stays well-formed.** -/
theorem WFD_mapComments (f : Str → Str) (skip : List Str) (d : Doc) (h : WFD skip d = true) :
    WFD skip (mapCommentsD f d) = true :=
  WFs_mapComments f d _ _ _ _ _ h rfl

end TexSoup.Gram
