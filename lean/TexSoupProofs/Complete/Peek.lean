import TexSoupProofs.Complete.Cmd
/-!
# Completeness, part 6: the look-ahead of `read_env` (`read_command(src, 1, 0, skip=1)`)

Inside an environment body the reader peeks at every command with the signature of `\end`
before it reads it properly. The peek must not fail; this file shows that it does not, for
every construct that starts with a backslash.
-/
namespace TexSoup.Gram
open TexSoup

theorem readArgOpt_zero_ok (g : Nat) (tol : Bool) (m : Mode) (T : List Tok) :
    readArgOpt (g + 1) 0 tol m T = .ok (([], 0), T) := by
  unfold readArgOpt; rw [if_pos (by decide)]

theorem readArgReq_zero_ok (g : Nat) (tol : Bool) (m : Mode) (T : List Tok) :
    readArgReq (g + 1) 0 tol m T = .ok (([], 0), T) := by
  unfold readArgReq; rw [if_pos (by decide)]

theorem cmdSig_given (a b : Int) (h : ¬ (a < 0 ∧ b < 0)) (x : Str) : cmdSig a b x = (a, b) := by
  unfold cmdSig
  rw [if_neg (by simpa using h)]

/-- `read_command(src, 0, 0)`: only the name. -/
theorem readCommand00_ok (g : Nat) (tol : Bool) (m : Mode) (T : List Tok) :
    ∃ n T', readCommand (g + 2) 0 0 tol m T = .ok ((n, []), T') := by
  unfold readCommand
  cases T with
  | nil =>
    simp only [cmdSig_given 0 0 (by omega)]
    unfold readArgs
    rw [if_pos (by decide)]
    exact ⟨_, _, rfl⟩
  | cons n r =>
    simp only [cmdSig_given 0 0 (by omega)]
    unfold readArgs
    rw [if_pos (by decide)]
    exact ⟨_, _, rfl⟩

/-- One mandatory argument is always found (a group, a bare command, a bare token) or the
input is exhausted – provided that a group, if that is what follows, can be read. -/
theorem readArgReq_one_ok (g : Nat) (tol : Bool) (m' : Mode) (T : List Tok) (hg : 2 ≤ g)
    (h : ∀ o r, afterSp T = o :: r → o.cat = .GroupBegin →
      ∃ x T', readArg g .brace o.pos tol m' r = .ok (x, T')) :
    ∃ xs c T', readArgReq (g + 1) 1 tol m' T = .ok ((xs, c), T') ∧
      (c = 0 ∨ nextIs .GroupBegin T' = false) := by
  obtain ⟨g1, rfl⟩ : ∃ g1, g = g1 + 2 := ⟨g - 2, by omega⟩
  unfold readArgReq
  rw [if_neg (by decide)]
  cases hs : (readSpacer T).2 with
  | nil =>
    refine ⟨[], 1, T, rfl, .inr ?_⟩
    cases hn : nextIs TC.GroupBegin T with
    | false => rfl
    | true =>
      obtain ⟨o, r3, hs', _⟩ := nextIs_readSpacer (by decide) hn
      rw [hs] at hs'; cases hs'
  | cons o r =>
    simp only
    have hz : ∀ T2, readArgReq (g1 + 2) (1 - 1) tol m' T2 = .ok (([], 0), T2) := by
      intro T2
      rw [show ((1 : Int) - 1) = 0 by decide]
      exact readArgReq_zero_ok _ tol m' T2
    by_cases hb : (o.cat == TC.GroupBegin) = true
    · rw [if_pos hb]
      obtain ⟨x, T', hx⟩ := h o r hs (by simpa using hb)
      rw [hx]
      simp only [Res.bind_ok, hz]
      exact ⟨_, _, _, rfl, .inl rfl⟩
    · rw [if_neg hb, if_pos (by decide)]
      by_cases he : (o.cat == TC.Escape) = true
      · rw [if_pos he]
        obtain ⟨n, T', hn⟩ := readCommand00_ok g1 tol m' r
        rw [hn]
        simp only [Res.bind_ok, hz]
        exact ⟨_, _, _, rfl, .inl rfl⟩
      · rw [if_neg he]
        simp only [hz, Res.bind_ok]
        exact ⟨_, _, _, rfl, .inl rfl⟩

/-- `read_args` with the signature `(1, 0)` succeeds under the same proviso. -/
theorem readArgs10_ok (g : Nat) (tol : Bool) (m' : Mode) (T : List Tok) (hg : 2 ≤ g)
    (h : ∀ o r, afterSp T = o :: r → o.cat = .GroupBegin →
      ∃ x T', readArg g .brace o.pos tol m' r = .ok (x, T')) :
    ∃ args T', readArgs (g + 2) 1 0 tol m' T = .ok (args, T') := by
  obtain ⟨xs, c, T', hr, hc⟩ := readArgReq_one_ok g tol m' T hg h
  unfold readArgs
  rw [if_neg (by decide), readArgOpt_zero_ok]
  simp only [Res.bind_ok]
  rw [hr]
  simp only [Res.bind_ok]
  have h3 : (if nextIs TC.BracketBegin T' = true then readArgOpt (g + 1) 0 tol m' T'
      else Except.ok (([], 0), T')) = .ok (([], 0), T') := by
    by_cases hb : nextIs TC.BracketBegin T' = true
    · rw [if_pos hb, readArgOpt_zero_ok]
    · rw [if_neg hb]
  rw [h3]
  simp only [Res.bind_ok]
  have h4 : (if nextIs TC.GroupBegin T' = true then readArgReq (g + 1) c tol m' T'
      else Except.ok (([], c), T')) = .ok (([], c), T') := by
    rcases hc with hc | hc
    · subst hc
      by_cases hb : nextIs TC.GroupBegin T' = true
      · rw [if_pos hb, readArgReq_zero_ok]
      · rw [if_neg hb]
    · rw [hc]; rfl
  rw [h4]
  simp only [Res.bind_ok]
  exact ⟨_, _, rfl⟩

/-- The peek on `\name` followed by `T`. -/
theorem readCommand10_ok (g : Nat) (tol : Bool) (m : Mode) (n : Tok) (T : List Tok) (hg : 2 ≤ g)
    (h : ∀ o r, afterSp T = o :: r → o.cat = .GroupBegin →
      ∃ x T', readArg g .brace o.pos tol (cmdMode n.text m) r = .ok (x, T')) :
    ∃ args T', readCommand (g + 3) 1 0 tol m (n :: T) = .ok ((n, args), T') := by
  obtain ⟨args, T', ha⟩ := readArgs10_ok g tol (cmdMode n.text m) T hg h
  unfold readCommand
  simp only [cmdSig_given 1 0 (by omega)]
  rw [ha]
  exact ⟨args, T', rfl⟩

/-- If a brace group follows the name (after an optional spacer), it is the first brace
argument of the run – which can be read – unless the run is empty and a free group follows. -/
theorem peek_run (tol : Bool) (m' : Mode) (a1 a2 a3 a4 : List Arg) (k2 : ArgsOK a2)
    (w1 : WFa m' .bracket a1 = true) (w2 : WFa m' .brace a2 = true) (Z : List Tok)
    (hno : a1 = [] → a2 = [] →
      a3 = [] ∧ a4 = [] ∧ (hdCat (afterSp Z) != some .GroupBegin) = true)
    (g : Nat) (hg : 3 * (toksA a1 ++ (toksA a2 ++ (toksA a3 ++ (toksA a4 ++ Z)))).length ≤ g) :
    ∀ o r, afterSp (toksA a1 ++ (toksA a2 ++ (toksA a3 ++ (toksA a4 ++ Z)))) = o :: r →
      o.cat = .GroupBegin → ∃ x T', readArg g .brace o.pos tol m' r = .ok (x, T') := by
  intro o r hs ho
  cases a1 with
  | cons a as =>
    exfalso
    have := hdCat_afterSp_run (toksA a2 ++ (toksA a3 ++ (toksA a4 ++ Z))) w1
    rw [hs] at this
    simp only [hdCat, ho, GKind.tokBegin, Option.some.injEq, reduceCtorEq] at this
  | nil =>
    cases a2 with
    | cons a as =>
      obtain ⟨hwa, _⟩ := WFa_cons w2
      cases a with
      | mk sp o2 b c =>
        obtain ⟨hsp, ho2, hc, hwb⟩ := WFarg_unfold hwa
        simp only [toksA_nil, List.nil_append, toksA_cons, toksArg, List.append_assoc,
          List.cons_append, afterSp] at hs hg
        rw [afterSp_arg _ hsp (by rw [ho2]; decide)] at hs
        simp only [List.cons.injEq] at hs
        obtain ⟨rfl, rfl⟩ := hs
        simp only [List.length_append, List.length_cons] at hg
        exact ⟨_, _, readArg_complete .brace _ tol m' c hc b k2.head hwb _ g
          (by simp only [List.length_append, List.length_cons]; omega)⟩
    | nil =>
      exfalso
      obtain ⟨rfl, rfl, hz⟩ := hno rfl rfl
      simp only [toksA_nil, List.nil_append] at hs
      rw [hs] at hz
      simp [hdCat, ho] at hz

theorem runOK_noargs {sg : Int × Int} {a1 a3 a4 : List Arg} {nx : List Tok}
    (h : runOK sg a1 [] a3 a4 nx = true) : a3 = [] ∧ a4 = [] := by
  unfold runOK at h
  by_cases hneg : (decide (sg.1 < 0) && decide (sg.2 < 0)) = true
  · rw [if_pos hneg] at h
    cases a3 <;> cases a4 <;> simp at h ⊢
  · rw [if_neg hneg] at h
    by_cases hpos : (decide (0 ≤ sg.1) && decide (0 ≤ sg.2)) = true
    · rw [if_pos hpos] at h
      simp only [Bool.and_eq_true, List.isEmpty_iff, Bool.or_eq_true, List.isEmpty_nil, Bool.not_true,
        Bool.false_eq_true, or_false] at h
      exact ⟨h.1.1.1.2, h.1.1.1.1.1⟩
    · rw [if_neg hpos] at h; cases h

theorem runOK_noargs_open {sg : Int × Int} {a1 a3 a4 : List Arg} {nx : List Tok}
    (hneg : sg.1 < 0 ∧ sg.2 < 0) (h : runOK sg a1 [] a3 a4 nx = true) :
    (hdCat (afterSp nx) != some .GroupBegin) = true := by
  obtain ⟨rfl, rfl⟩ := runOK_noargs h
  unfold runOK at h
  rw [if_pos (by simp [hneg.1, hneg.2])] at h
  simp only [Bool.and_eq_true] at h
  exact h.2.2

/-! ### the peek on each construct -/

theorem leaf_peek (t : Tok) : PeekOK (.leaf t) := by
  intro skip tol m rest g hwf hesc _ _
  simp only [WF, leafTok, Bool.and_eq_true, bne_iff_ne, ne_eq] at hwf
  exact absurd hesc hwf.1.2

theorem group_peek (o : Tok) (b : List Elem) (c : Tok) : PeekOK (.group o b c) := by
  intro skip tol m rest g hwf hesc _ _
  simp only [WF, Bool.and_eq_true, beq_iff_eq] at hwf
  simp only [firstTok] at hesc
  rw [hwf.1.1] at hesc; cases hesc

theorem math_peek (k : MKind) (o : Tok) (b : List Elem) (c : Tok) : PeekOK (.math k o b c) := by
  intro skip tol m rest g hwf hesc _ _
  simp only [WF, Bool.and_eq_true, beq_iff_eq] at hwf
  simp only [firstTok] at hesc
  have := hwf.1.1
  rw [hesc] at this
  simp [mkindOfBegin] at this

theorem cmd_peek (esc name : Tok) (a1 a2 a3 a4 : List Arg) (k2 : ArgsOK a2) :
    PeekOK (.cmd esc name a1 a2 a3 a4) := by
  intro skip tol m rest g hwf _ hf hfollow
  simp only [WF, Bool.and_eq_true, beq_iff_eq, bne_iff_ne, ne_eq, Bool.or_eq_true] at hwf
  obtain ⟨⟨⟨⟨⟨⟨⟨hesc, hni⟩, hnb⟩, w1⟩, w2⟩, w3⟩, w4⟩, hrun⟩ := hwf
  rw [runOK_win] at hrun
  simp only [toks, List.cons_append, List.append_assoc, List.length_cons] at hf
  have hgrp : ∀ o r, afterSp (toksA a1 ++ (toksA a2 ++ (toksA a3 ++ (toksA a4 ++ rest)))) = o :: r →
      o.cat = .GroupBegin → ∃ x T', readArg g .brace o.pos tol (cmdMode name.text m) r = .ok (x, T') := by
    by_cases hno : a1 = [] ∧ a2 = []
    · obtain ⟨e1, e2⟩ := hno
      subst e1 e2
      obtain ⟨e3, e4⟩ := runOK_noargs hrun
      subst e3 e4
      simp only [toksA_nil, List.nil_append]
      exact hfollow rfl name.text rfl
    · exact peek_run tol (cmdMode name.text m) a1 a2 a3 a4 k2 w1 w2 rest
        (fun e1 e2 => absurd ⟨e1, e2⟩ hno) g (by omega)
  obtain ⟨args, T', hr⟩ := readCommand10_ok g tol m name _ (by omega) hgrp
  refine ⟨name, toksA a1 ++ (toksA a2 ++ (toksA a3 ++ toksA a4)), args, T', by simp only [toks, firstTok],
    rfl, ?_⟩
  simp only [List.append_assoc]
  exact hr

end TexSoup.Gram
