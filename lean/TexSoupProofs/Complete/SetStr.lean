import TexSoupModel.GrammarEdit
import TexSoupProofs.Complete.Comments
/-!
# `node.string = s` keeps a document well-formed

`setStr r` replaces the contents of the single argument group of the selected commands, resp.
the one-leaf body of the selected argument-less environments, by one leaf `r.tk`. If that leaf
is a text token (`r.tk.cat = .Text`) every frame condition still holds (`WFD_setStr`): a text
token is a leaf, it closes no group and ends no body, and behind `\begin{name}` it starts no
further argument.
-/
namespace TexSoup.Gram
open TexSoup

@[simp] theorem setStrS_nil (r : SetS) : setStrS r [] = [] := by simp [setStrS]
@[simp] theorem setStrS_cons (r : SetS) (e : Elem) (es : List Elem) :
    setStrS r (e :: es) = setStr r e :: setStrS r es := by simp [setStrS]
@[simp] theorem setStrA_nil (r : SetS) : setStrA r [] = [] := by simp [setStrA]
@[simp] theorem setStrA_cons (r : SetS) (a : Arg) (as : List Arg) :
    setStrA r (a :: as) = setStrArg r a :: setStrA r as := by simp [setStrA]

theorem setStrA_length (r : SetS) (as : List Arg) : (setStrA r as).length = as.length := by
  induction as with
  | nil => simp
  | cons a as ih => simp [ih]

theorem tight_setStrA (r : SetS) (as : List Arg) : tight (setStrA r as) = tight as := by
  cases as with
  | nil => rfl
  | cons a as => cases a; simp [setStrArg, tight]

theorem tight_setLeaf (tk : Tok) (as : List Arg) : tight (as.map (Arg.setLeaf tk)) = tight as := by
  cases as with
  | nil => rfl
  | cons a as => cases a; simp [Arg.setLeaf, tight]

/-- `runOK` sees of the argument lists only their lengths and whether the continuation runs
start tight. -/
theorem runOK_shape {sg : Int × Int} {a1 a2 a3 a4 b1 b2 b3 b4 : List Arg} (nx : List Tok)
    (h1 : b1.length = a1.length) (h2 : b2.length = a2.length) (h3 : b3.length = a3.length)
    (h4 : b4.length = a4.length) (t3 : tight b3 = tight a3) (t4 : tight b4 = tight a4) :
    runOK sg b1 b2 b3 b4 nx = runOK sg a1 a2 a3 a4 nx := by
  have e2 : b2.isEmpty = a2.isEmpty := by cases a2 <;> cases b2 <;> simp_all
  have e3 : b3.isEmpty = a3.isEmpty := by cases a3 <;> cases b3 <;> simp_all
  have e4 : b4.isEmpty = a4.isEmpty := by cases a4 <;> cases b4 <;> simp_all
  unfold runOK
  rw [h1, h2, t3, t4, e2, e3, e4]
  cases a2 <;> cases b2 <;> cases a3 <;> cases b3 <;> cases a4 <;> cases b4 <;> simp_all

/-! ### first tokens, windows -/

theorem firstTok_setStr (r : SetS) (e : Elem) : firstTok (setStr r e) = firstTok e := by
  cases e with
  | cmd e n a1 a2 a3 a4 => simp only [setStr]; split <;> rfl
  | env e bg nm a2 a3 a4 b e2 en nm2 => simp only [setStr]; split <;> rfl
  | _ => simp [setStr, firstTok]

theorem nameText_setStr (r : SetS) (e : Elem) : nameText (setStr r e) = nameText e := by
  cases e with
  | cmd e n a1 a2 a3 a4 => simp only [setStr]; split <;> rfl
  | env e bg nm a2 a3 a4 b e2 en nm2 => simp only [setStr]; split <;> rfl
  | _ => simp [setStr, nameText]

theorem startOK_setStr (r : SetS) (ctx : Ctx) (e : Elem) : startOK ctx (setStr r e) = startOK ctx e := by
  cases ctx <;> simp [startOK, firstTok_setStr, nameText_setStr]

/-- An element is one (unchanged) token that is no backslash, or its first two tokens survive. -/
theorem head_cases_setStr (r : SetS) {skip : List Str} {m : Mode} {nx : List Tok} {e : Elem}
    (hwf : WF skip m nx e = true) :
    (∃ t, toks e = [t] ∧ toks (setStr r e) = [t] ∧ t.cat ≠ .Escape) ∨
    (∃ a b r1 r2, toks e = a :: b :: r1 ∧ toks (setStr r e) = a :: b :: r2) := by
  cases e with
  | leaf t =>
    left
    simp only [WF, leafTok, Bool.and_eq_true, bne_iff_ne, ne_eq] at hwf
    exact ⟨t, by simp [toks], by simp [setStr, toks], hwf.1.2⟩
  | group o b c =>
    right
    cases b with
    | nil => exact ⟨o, c, [], [], by simp [toks], by simp [setStr, toks]⟩
    | cons e1 es =>
      obtain ⟨r1, hr1⟩ := toks_cons e1
      obtain ⟨r2, hr2⟩ := toks_cons (setStr r e1)
      rw [firstTok_setStr] at hr2
      exact ⟨o, firstTok e1, _, _, by simp [toks, hr1]; rfl, by simp [setStr, toks, hr2]; rfl⟩
  | math k o b c =>
    right
    cases b with
    | nil => exact ⟨o, c, [], [], by simp [toks], by simp [setStr, toks]⟩
    | cons e1 es =>
      obtain ⟨r1, hr1⟩ := toks_cons e1
      obtain ⟨r2, hr2⟩ := toks_cons (setStr r e1)
      rw [firstTok_setStr] at hr2
      exact ⟨o, firstTok e1, _, _, by simp [toks, hr1]; rfl, by simp [setStr, toks, hr2]; rfl⟩
  | cmd e n a1 a2 a3 a4 =>
    right
    simp only [setStr]
    split
    · exact ⟨e, n, _, _, by simp only [toks]; rfl, by simp only [toks]; rfl⟩
    · exact ⟨e, n, _, _, by simp only [toks]; rfl, by simp only [toks]; rfl⟩
  | item e n a1 a2 a3 a4 b =>
    exact .inr ⟨e, n, _, _, by simp only [toks]; rfl, by simp only [setStr, toks]; rfl⟩
  | env e bg nm a2 a3 a4 b e2 en nm2 =>
    right
    simp only [setStr]
    split
    · exact ⟨e, bg, _, _, by simp only [toks]; rfl, by simp only [toks]; rfl⟩
    · exact ⟨e, bg, _, _, by simp only [toks]; rfl, by simp only [toks]; rfl⟩
  | venv e bg nm a2 a3 a4 vb e5 =>
    exact .inr ⟨e, bg, _, _, by simp only [toks]; rfl, by simp only [setStr, toks]; rfl⟩

theorem key3_setStrS (r : SetS) : ∀ (es : List Elem) (skip : List Str) (m : Mode) (ctx : Ctx)
    (nx0 : List Tok), WFs skip m ctx nx0 es = true → ∀ X X', key3 X' = key3 X →
    key3 (toksS (setStrS r es) ++ X') = key3 (toksS es ++ X) := by
  intro es
  induction es with
  | nil => intro _ _ _ _ _ X X' h; simpa using h
  | cons e es ih =>
    intro skip m ctx nx0 hwf X X' h
    obtain ⟨hwe, _, hws, _⟩ := WFs_cons hwf
    have hrec := ih skip m ctx nx0 hws X X' h
    simp only [setStrS_cons, toksS_cons, List.append_assoc]
    rcases head_cases_setStr r hwe with ⟨t, h1, h2, hne⟩ | ⟨a, b, r1, r2, h1, h2⟩
    · rw [h1, h2]; exact key3_one t t _ _ rfl hne hrec
    · rw [h1, h2]; exact key3_two a b _ _

theorem noArgName_setStr (r : SetS) (e : Elem) : noArgName (setStr r e) = noArgName e := by
  cases e with
  | cmd esc name a1 a2 a3 a4 =>
    simp only [setStr]
    split <;> cases a1 <;> cases a2 <;> simp [noArgName]
  | env e bg nm a2 a3 a4 b e2 en nm2 => simp only [setStr]; split <;> rfl
  | _ => simp [setStr, noArgName]

theorem nextGroup_setStr (r : SetS) (es : List Elem) :
    nextGroup (setStrS r es) = (nextGroup es).map fun bc => (setStrS r bc.1, bc.2) := by
  cases es with
  | nil => simp [nextGroup]
  | cons e1 es1 =>
    cases e1 with
    | group o b c => simp [setStr, nextGroup]
    | leaf s =>
      cases es1 with
      | nil => simp [setStr, nextGroup]
      | cons e2 es2 =>
        cases e2 with
        | group o b c => simp [setStr, nextGroup]
        | cmd e n a1 a2 a3 a4 => simp only [setStrS_cons, setStr]; split <;> simp [nextGroup]
        | env e bg nm a2 a3 a4 b e2 en nm2 => simp only [setStrS_cons, setStr]; split <;> simp [nextGroup]
        | _ => simp [setStr, nextGroup]
    | cmd e n a1 a2 a3 a4 => simp only [setStrS_cons, setStr]; split <;> simp [nextGroup]
    | env e bg nm a2 a3 a4 b e2 en nm2 => simp only [setStrS_cons, setStr]; split <;> simp [nextGroup]
    | _ => simp [setStr, nextGroup]

/-! ### the new leaf -/

theorem leafTok_text {tk : Tok} (h : tk.cat = .Text) : leafTok tk = true := by
  simp [leafTok, h, mkindOfBegin]

/-- one text leaf is a well-formed body of a group or argument -/
theorem WFs_leaf_grp {tk : Tok} (h : tk.cat = .Text) (m : Mode) (k : GKind) (nx : List Tok) :
    WFs [] m (.grp k) nx [.leaf tk] = true := by
  cases k <;> simp [WFs, WF, leafTok_text h, startOK, firstTok, h, GKind.tokEnd]

/-- … and of an environment -/
theorem WFs_leaf_env {tk : Tok} (h : tk.cat = .Text) (skip : List Str) (m : Mode) (nx : List Tok) :
    WFs skip m .env nx [.leaf tk] = true := by
  simp [WFs, WF, leafTok_text h, startOK, nameText]

theorem WFa_setLeaf {tk : Tok} (h : tk.cat = .Text) : ∀ (as : List Arg) (m : Mode) (k : GKind),
    WFa m k as = true → WFa m k (as.map (Arg.setLeaf tk)) = true
  | [], _, _, _ => by simp [WFa]
  | .mk sp o b c :: as, m, k, hw => by
      obtain ⟨h1, h2⟩ := WFa_cons hw
      simp only [WFarg, Bool.and_eq_true] at h1
      simp only [List.map_cons, Arg.setLeaf, WFa, WFarg, Bool.and_eq_true]
      exact ⟨⟨h1.1, WFs_leaf_grp h m k _⟩, WFa_setLeaf h as m k h2⟩

/-- behind `\begin{name}` a text token starts no further argument -/
theorem runOK_text_next {sg : Int × Int} {x : Arg} {nx : List Tok} (tk : Tok) (r : List Tok)
    (htk : tk.cat = .Text) (h : runOK sg [] [x] [] [] nx = true) :
    runOK sg [] [x] [] [] (win (tk :: r)) = true := by
  have hw : win (tk :: r) = [tk] := by simp [win, htk]
  rw [hw]
  unfold runOK at h ⊢
  by_cases hneg : (decide (sg.1 < 0) && decide (sg.2 < 0)) = true
  · rw [if_pos hneg]
    simp [tight, hdCat, afterSp, readSpacer, htk]
  · rw [if_neg hneg] at h ⊢
    by_cases hpos : (decide (0 ≤ sg.1) && decide (0 ≤ sg.2)) = true
    · rw [if_pos hpos] at h ⊢
      simp only [Bool.and_eq_true] at h ⊢
      exact ⟨h.1, by simp [hdCat, htk]⟩
    · rw [if_neg hpos] at h; cases h

/-! ### well-formedness is kept -/

mutual
theorem WF_setStr {r : SetS} (htk : r.tk.cat = .Text) : ∀ (e : Elem) (skip : List Str) (m : Mode)
    (nx nx' : List Tok), WF skip m nx e = true → key3 nx' = key3 nx → WF skip m nx' (setStr r e) = true
  | .leaf t, skip, m, nx, nx', h, _ => by simpa [setStr, WF] using h
  | .group o b c, skip, m, nx, nx', h, _ => by
      simp only [setStr, WF, Bool.and_eq_true] at h ⊢
      exact ⟨h.1, WFs_setStr htk b _ _ _ _ _ h.2 rfl⟩
  | .math k o b c, skip, m, nx, nx', h, _ => by
      simp only [setStr, WF, Bool.and_eq_true] at h ⊢
      exact ⟨h.1, WFs_setStr htk b _ _ _ _ _ h.2 rfl⟩
  | .cmd e n a1 a2 a3 a4, skip, m, nx, nx', h, hk => by
      simp only [WF, Bool.and_eq_true] at h
      obtain ⟨⟨⟨⟨⟨h0, w1⟩, w2⟩, w3⟩, w4⟩, hrun⟩ := h
      simp only [setStr]
      split
      · simp only [WF, Bool.and_eq_true]
        refine ⟨⟨⟨⟨⟨h0, WFa_setLeaf htk a1 _ _ w1⟩, WFa_setLeaf htk a2 _ _ w2⟩,
          WFa_setLeaf htk a3 _ _ w3⟩, WFa_setLeaf htk a4 _ _ w4⟩, ?_⟩
        rw [runOK_key hk, runOK_shape (a1 := a1) (a2 := a2) (a3 := a3) (a4 := a4) nx (by simp) (by simp)
          (by simp) (by simp) (tight_setLeaf _ a3) (tight_setLeaf _ a4)]
        exact hrun
      · simp only [WF, Bool.and_eq_true]
        refine ⟨⟨⟨⟨⟨h0, WFa_setStr htk a1 _ _ w1⟩, WFa_setStr htk a2 _ _ w2⟩,
          WFa_setStr htk a3 _ _ w3⟩, WFa_setStr htk a4 _ _ w4⟩, ?_⟩
        rw [runOK_key hk, runOK_shape (a1 := a1) (a2 := a2) (a3 := a3) (a4 := a4) nx
          (setStrA_length r a1) (setStrA_length r a2)
          (setStrA_length r a3) (setStrA_length r a4) (tight_setStrA r a3) (tight_setStrA r a4)]
        exact hrun
  | .item e n a1 a2 a3 a4 b, skip, m, nx, nx', h, hk => by
      simp only [setStr, WF, Bool.and_eq_true] at h ⊢
      obtain ⟨⟨⟨⟨⟨⟨⟨h0, w1⟩, w2⟩, w3⟩, w4⟩, hrun⟩, hb⟩, hstop⟩ := h
      refine ⟨⟨⟨⟨⟨⟨⟨h0, WFa_setStr htk a1 _ _ w1⟩, WFa_setStr htk a2 _ _ w2⟩,
        WFa_setStr htk a3 _ _ w3⟩, WFa_setStr htk a4 _ _ w4⟩, ?_⟩,
        WFs_setStr htk b _ _ _ _ _ hb hk⟩, by rw [itemStop_key hk]; exact hstop⟩
      rw [runOK_key (nx := win (toksS b ++ nx))
        (by rw [key3_win, key3_win]; exact key3_setStrS r b _ _ _ _ hb _ _ hk),
        runOK_shape (a1 := a1) (a2 := a2) (a3 := a3) (a4 := a4) _ (setStrA_length r a1)
          (setStrA_length r a2) (setStrA_length r a3) (setStrA_length r a4) (tight_setStrA r a3)
          (tight_setStrA r a4)]
      exact hrun
  | .env e bg nm a2 a3 a4 b e2 en nm2, skip, m, nx, nx', h, _ => by
      simp only [WF, Bool.and_eq_true] at h
      obtain ⟨⟨⟨⟨⟨⟨⟨⟨⟨⟨⟨h0, hnm⟩, w2⟩, w3⟩, w4⟩, hrun⟩, hskip⟩, hb⟩, hesc2⟩, hen⟩, hnm2⟩, hname⟩ := h
      simp only [setStr]
      split
      · rename_i hsel
        simp only [Bool.and_eq_true, List.isEmpty_iff] at hsel
        obtain ⟨⟨⟨⟨_, rfl⟩, rfl⟩, rfl⟩, _⟩ := hsel
        simp only [WF, Bool.and_eq_true]
        refine ⟨⟨⟨⟨⟨⟨⟨⟨⟨⟨⟨h0, hnm⟩, by simp [WFa]⟩, by simp [WFa]⟩, by simp [WFa]⟩, ?_⟩, hskip⟩,
          WFs_leaf_env htk _ _ _⟩, hesc2⟩, hen⟩, hnm2⟩, hname⟩
        simp only [toksS_cons, toks, toksS_nil, List.append_nil, List.singleton_append]
        exact runOK_text_next r.tk _ htk hrun
      · simp only [WF, Bool.and_eq_true]
        refine ⟨⟨⟨⟨⟨⟨⟨⟨⟨⟨⟨h0, hnm⟩, WFa_setStr htk a2 _ _ w2⟩, WFa_setStr htk a3 _ _ w3⟩,
          WFa_setStr htk a4 _ _ w4⟩, ?_⟩, hskip⟩, WFs_setStr htk b _ _ _ _ _ hb rfl⟩, hesc2⟩, hen⟩,
          hnm2⟩, hname⟩
        rw [runOK_key (nx := win (toksS b ++ [e2, en]))
          (by rw [key3_win, key3_win]; exact key3_setStrS r b _ _ _ _ hb _ _ rfl),
          runOK_shape (a1 := []) (a2 := nm.toArg :: a2) (a3 := a3) (a4 := a4) _ rfl
            (by simp [setStrA_length]) (setStrA_length r a3) (setStrA_length r a4)
            (tight_setStrA r a3) (tight_setStrA r a4)]
        exact hrun
  | .venv e bg nm a2 a3 a4 vb e5, skip, m, nx, nx', h, _ => by
      simp only [setStr, WF, Bool.and_eq_true] at h ⊢
      obtain ⟨⟨⟨⟨⟨⟨⟨⟨⟨h0, hnm⟩, w2⟩, w3⟩, w4⟩, hrun⟩, hskip⟩, h5⟩, hfl⟩, hno⟩ := h
      refine ⟨⟨⟨⟨⟨⟨⟨⟨⟨h0, hnm⟩, WFa_setStr htk a2 _ _ w2⟩, WFa_setStr htk a3 _ _ w3⟩,
        WFa_setStr htk a4 _ _ w4⟩, ?_⟩, hskip⟩, h5⟩, hfl⟩, hno⟩
      rw [runOK_shape (a1 := []) (a2 := nm.toArg :: a2) (a3 := a3) (a4 := a4) _ rfl
        (by simp [setStrA_length]) (setStrA_length r a3) (setStrA_length r a4)
        (tight_setStrA r a3) (tight_setStrA r a4)]
      exact hrun
theorem WFs_setStr {r : SetS} (htk : r.tk.cat = .Text) : ∀ (es : List Elem) (skip : List Str) (m : Mode)
    (ctx : Ctx) (nx nx' : List Tok), WFs skip m ctx nx es = true → key3 nx' = key3 nx →
    WFs skip m ctx nx' (setStrS r es) = true
  | [], _, _, _, _, _, _, _ => by simp [WFs]
  | e :: es, skip, m, ctx, nx, nx', h, hk => by
      obtain ⟨h1, h2, h3, h4⟩ := WFs_cons h
      rw [setStrS_cons]
      refine WFs_cons_intro ?_ ?_ (WFs_setStr htk es _ _ _ _ _ h3 hk) ?_
      · exact WF_setStr htk e _ _ _ _ h1
          (by rw [key3_win, key3_win]; exact key3_setStrS r es _ _ _ _ h3 _ _ hk)
      · rw [startOK_setStr]; exact h2
      · rw [peekCond_iff] at h4 ⊢
        intro hctx n hn b' c hg
        rw [noArgName_setStr] at hn
        rw [nextGroup_setStr] at hg
        cases hng : nextGroup es with
        | none => rw [hng] at hg; cases hg
        | some bc =>
          obtain ⟨b, c0⟩ := bc
          rw [hng] at hg
          simp only [Option.map_some, Option.some.injEq, Prod.mk.injEq] at hg
          obtain ⟨rfl, rfl⟩ := hg
          have hb := h4 hctx n hn b c0 hng
          rcases nextGroup_some hng with ⟨o, tl, rfl⟩ | ⟨s, o, tl, rfl, _⟩
          · exact WFs_setStr htk b _ _ _ _ _ hb rfl
          · exact WFs_setStr htk b _ _ _ _ _ hb rfl
theorem WFarg_setStr {r : SetS} (htk : r.tk.cat = .Text) : ∀ (a : Arg) (m : Mode) (k : GKind),
    WFarg m k a = true → WFarg m k (setStrArg r a) = true
  | .mk sp o b c, m, k, h => by
      simp only [setStrArg, WFarg, Bool.and_eq_true] at h ⊢
      exact ⟨h.1, WFs_setStr htk b _ _ _ _ _ h.2 rfl⟩
theorem WFa_setStr {r : SetS} (htk : r.tk.cat = .Text) : ∀ (as : List Arg) (m : Mode) (k : GKind),
    WFa m k as = true → WFa m k (setStrA r as) = true
  | [], _, _, _ => by simp [WFa]
  | a :: as, m, k, h => by
      obtain ⟨h1, h2⟩ := WFa_cons h
      simp only [setStrA_cons, WFa, Bool.and_eq_true]
      exact ⟨WFarg_setStr htk a _ _ h1, WFa_setStr htk as _ _ h2⟩
end

/-- **`node.string = s` with a text token keeps the document well-formed.** -/
theorem WFD_setStr {r : SetS} (htk : r.tk.cat = .Text) (skip : List Str) (d : Doc)
    (h : WFD skip d = true) : WFD skip (setStrD r d) = true :=
  WFs_setStr htk d _ _ _ _ _ h rfl

end TexSoup.Gram
