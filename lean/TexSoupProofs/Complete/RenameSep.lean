import TexSoupProofs.Complete.Rename
import TexSoupProofs.Complete.SqueezeSep
import TexSoupProofs.TokLemmas.NameVar
/-!
# The renamed document is again a tokenizer output

If the selected command names and the new command name are command names (`goodName`: a letter,
then letters or `*`), the new one is no sizing prefix, the selected environment names start with
a letter and the new environment name can stand as one text token (`goodText`), then the token
list of `renameD r d` is a name variant (`NVar`) of that of `d`; hence it is `Separated` if that
one is and no command name of `d` is a bare sizing prefix (`separated_rename`), and so is its
squeezed form (`separated_squeeze_rename`).
-/
namespace TexSoup.Gram
open TexSoup

/-- The new names can be written where the old ones stood. -/
structure Ren.SepOK (r : Ren) : Prop where
  cmd : ∀ esc n, r.pc esc n = true →
    goodName n.text = true ∧ goodName r.newc = true ∧ r.newc ∉ Tables.sizePrefix
  env : ∀ esc nt, r.pe esc nt = true →
    (∃ c b, nt.text = c :: b ∧ catOf c = .Letter) ∧ goodText r.newe = true

theorem spaceChars_not_letter : ∀ c ∈ Tables.spaceChars, catOf c ≠ .Letter := by decide

theorem not_space_of_letter {c : Ch} (h : catOf c = .Letter) : isSpaceCh c = false := by
  cases hs : isSpaceCh c with
  | false => rfl
  | true =>
    simp only [isSpaceCh, List.contains_iff_mem] at hs
    exact absurd h (spaceChars_not_letter c hs)

theorem dropWhileSpace_snoc (c : Ch) (hc : isSpaceCh c = false) :
    ∀ x : Str, ∃ y, dropWhileSpace (x ++ [c]) = y ++ [c]
  | [] => ⟨[], by simp [dropWhileSpace, hc]⟩
  | a :: x => by
      by_cases ha : isSpaceCh a = true
      · obtain ⟨y, hy⟩ := dropWhileSpace_snoc c hc x
        exact ⟨y, by simp [dropWhileSpace, ha, hy]⟩
      · exact ⟨a :: x, by simp [dropWhileSpace, ha]⟩

/-- stripping keeps a leading letter -/
theorem strip_letter_start (c : Ch) (body : Str) (hc : catOf c = .Letter) :
    ∃ c' b', strip (c :: body) = c' :: b' ∧ catOf c' = .Letter := by
  have hs := not_space_of_letter hc
  obtain ⟨y, hy⟩ := dropWhileSpace_snoc c hs body.reverse
  refine ⟨c, y.reverse, ?_, hc⟩
  have h1 : dropWhileSpace (c :: body) = c :: body := by simp [dropWhileSpace, hs]
  simp only [strip, h1, List.reverse_cons, hy]
  simp

theorem nvar_nameArg {r : Ren} (hr : r.SepOK) (esc : Tok) (nt0 : Tok) (nm : NameArg)
    (hok : nm.ok = true) (hsel : r.pe esc nt0 = true → nt0.text = nm.nt.text) :
    NVar nm.toks (r.envName (r.pe esc nt0) nm).toks := by
  by_cases hp : r.pe esc nt0 = true
  · obtain ⟨hl, hg⟩ := hr.env esc nt0 hp
    rw [hsel hp] at hl
    simp only [NameArg.ok, Bool.and_eq_true, beq_iff_eq] at hok
    simp only [hp, Ren.envName, if_true, NameArg.toks]
    exact (NVar.refl _).append (.envn nm.o nm.nt _ hok.1.1.1.2 rfl hl hg (NVar.refl _))
  · have hp' : r.pe esc nt0 = false := by simpa using hp
    simp only [hp', Ren.envName]
    exact NVar.refl _

mutual
theorem nvar_rename {r : Ren} (hr : r.SepOK) : ∀ (e : Elem) (skip : List Str) (m : Mode) (nx : List Tok),
    WF skip m nx e = true → NVar (toks e) (toks (rename r e))
  | .leaf t, _, _, _, _ => by simp only [rename]; exact NVar.refl _
  | .group o b c, _, _, _, h => by
      simp only [WF, Bool.and_eq_true] at h
      simp only [rename, toks]
      exact .same o ((nvarS_rename hr b _ _ _ _ h.2).append (NVar.refl _))
  | .math k o b c, _, _, _, h => by
      simp only [WF, Bool.and_eq_true] at h
      simp only [rename, toks]
      exact .same o ((nvarS_rename hr b _ _ _ _ h.2).append (NVar.refl _))
  | .cmd e n a1 a2 a3 a4, _, _, _, h => by
      simp only [WF, Bool.and_eq_true, beq_iff_eq] at h
      obtain ⟨⟨⟨⟨⟨⟨⟨hesc, _⟩, _⟩, w1⟩, w2⟩, w3⟩, w4⟩, _⟩ := h
      have hrest := (nvarA_rename hr a1 _ _ w1).append ((nvarA_rename hr a2 _ _ w2).append
        ((nvarA_rename hr a3 _ _ w3).append (nvarA_rename hr a4 _ _ w4)))
      simp only [rename, toks]
      by_cases hp : r.pc e n = true
      · obtain ⟨g1, g2, g3⟩ := hr.cmd e n hp
        have hn : r.cmdName e n = { n with text := r.newc } := by simp [Ren.cmdName, hp]
        rw [hn]
        exact .name e n _ hesc rfl g1 g2 g3 hrest
      · have hn : r.cmdName e n = n := by simp [Ren.cmdName, hp]
        rw [hn]
        exact .same e (.same n hrest)
  | .item e n a1 a2 a3 a4 b, _, _, _, h => by
      simp only [WF, Bool.and_eq_true] at h
      obtain ⟨⟨⟨⟨⟨⟨⟨_, w1⟩, w2⟩, w3⟩, w4⟩, _⟩, hb⟩, _⟩ := h
      simp only [rename, toks]
      exact .same e (.same n ((nvarA_rename hr a1 _ _ w1).append ((nvarA_rename hr a2 _ _ w2).append
        ((nvarA_rename hr a3 _ _ w3).append ((nvarA_rename hr a4 _ _ w4).append
          (nvarS_rename hr b _ _ _ _ hb))))))
  | .env e bg nm a2 a3 a4 b e2 en nm2, _, _, _, h => by
      simp only [WF, Bool.and_eq_true, beq_iff_eq] at h
      obtain ⟨⟨⟨⟨⟨⟨⟨⟨⟨⟨⟨_, hnm⟩, w2⟩, w3⟩, w4⟩, _⟩, _⟩, hb⟩, _⟩, _⟩, hnm2⟩, hname⟩ := h
      simp only [rename, toks]
      refine .same e (.same bg ((nvar_nameArg hr e nm.nt nm hnm (fun _ => rfl)).append
        ((nvarA_rename hr a2 _ _ w2).append ((nvarA_rename hr a3 _ _ w3).append
          ((nvarA_rename hr a4 _ _ w4).append ((nvarS_rename hr b _ _ _ _ hb).append
            (.same e2 (.same en ?_))))))))
      -- the name after `\end` is the stripped name after `\begin`; for a selected environment
      -- that starts with a letter, `strip` is not needed to see this
      by_cases hp : r.pe e nm.nt = true
      · obtain ⟨⟨c, body, htx, hcl⟩, hg⟩ := hr.env e nm.nt hp
        have hl2 : ∃ c b, nm2.nt.text = c :: b ∧ catOf c = .Letter := by
          rw [hname, htx]
          exact strip_letter_start c body hcl
        simp only [NameArg.ok, Bool.and_eq_true, beq_iff_eq] at hnm2
        simp only [hp, Ren.envName, if_true, NameArg.toks]
        exact (NVar.refl _).append (.envn nm2.o nm2.nt _ hnm2.1.1.1.2 rfl hl2 hg (NVar.refl _))
      · have hp' : r.pe e nm.nt = false := by simpa using hp
        simp only [hp', Ren.envName]
        exact NVar.refl _
  | .venv e bg nm a2 a3 a4 vb e5, _, _, _, h => by
      simp only [WF, Bool.and_eq_true] at h
      obtain ⟨⟨⟨⟨⟨⟨⟨⟨⟨_, _⟩, w2⟩, w3⟩, w4⟩, _⟩, _⟩, _⟩, _⟩, _⟩ := h
      simp only [rename, toks]
      exact .same e (.same bg ((NVar.refl _).append ((nvarA_rename hr a2 _ _ w2).append
        ((nvarA_rename hr a3 _ _ w3).append ((nvarA_rename hr a4 _ _ w4).append (NVar.refl _))))))
theorem nvarS_rename {r : Ren} (hr : r.SepOK) : ∀ (es : List Elem) (skip : List Str) (m : Mode) (ctx : Ctx)
    (nx : List Tok), WFs skip m ctx nx es = true → NVar (toksS es) (toksS (renameS r es))
  | [], _, _, _, _, _ => by simp; exact .nil
  | e :: es, _, _, _, _, h => by
      obtain ⟨h1, _, h3, _⟩ := WFs_cons h
      simp only [renameS_cons, toksS_cons]
      exact (nvar_rename hr e _ _ _ h1).append (nvarS_rename hr es _ _ _ _ h3)
theorem nvarArg_rename {r : Ren} (hr : r.SepOK) : ∀ (a : Arg) (m : Mode) (k : GKind),
    WFarg m k a = true → NVar (toksArg a) (toksArg (renameArg r a))
  | .mk sp o b c, _, _, h => by
      simp only [WFarg, Bool.and_eq_true] at h
      simp only [renameArg, toksArg]
      exact (NVar.refl _).append (.same o ((nvarS_rename hr b _ _ _ _ h.2).append (NVar.refl _)))
theorem nvarA_rename {r : Ren} (hr : r.SepOK) : ∀ (as : List Arg) (m : Mode) (k : GKind),
    WFa m k as = true → NVar (toksA as) (toksA (renameA r as))
  | [], _, _, _ => by simp; exact .nil
  | a :: as, _, _, h => by
      obtain ⟨h1, h2⟩ := WFa_cons h
      simp only [renameA_cons, toksA_cons]
      exact (nvarArg_rename hr a _ _ h1).append (nvarA_rename hr as _ _ h2)
end

/-- **The renamed document is a tokenizer output if the original is** (and no command name is
a bare sizing prefix). -/
theorem separated_rename {r : Ren} {skip : List Str} {d : Doc} (hr : r.SepOK)
    (hwf : WFD skip d = true) (hsep : Separated none (toksD d))
    (hns : ∀ t ∈ toksD d, t.cat = .CommandName → t.text ∉ Tables.sizePrefix) :
    Separated none (toksD (renameD r d)) :=
  (nvarS_rename hr d _ _ _ _ hwf).separated hsep hns

/-- … and so is its squeezed form, the token list of the serialised renamed tree. -/
theorem separated_squeeze_rename {r : Ren} {skip : List Str} {d : Doc} (hr : r.SepOK) (hok : r.OK skip)
    (hwf : WFD skip d = true) (hsep : Separated none (toksD d))
    (hns : ∀ t ∈ toksD d, t.cat = .CommandName → t.text ∉ Tables.sizePrefix) :
    Separated none (toksD (squeezeD (renameD r d))) :=
  separated_squeeze (WFD_rename skip d hwf hok) (separated_rename hr hwf hsep hns)
    ((nvarS_rename hr d _ _ _ _ hwf).noBare hsep hns)

end TexSoup.Gram
