import TexSoupProofs.Complete.Comments
import TexSoupProofs.TokLemmas.CommentVar
/-!
# The substituted document is again a tokenizer output

If every new payload is a comment (`%`, then no end-of-line character), the token list of
`mapCommentsD f d` is a comment variant of that of `d`, hence `Separated` if that one is.
-/
namespace TexSoup.Gram
open TexSoup

/-- `f` produces comments: `%`, then no end-of-line character. -/
def CommentPayload (f : Str → Str) : Prop :=
  ∀ s, ∃ body, f s = 37 :: body ∧ ∀ c ∈ body, catOf c ≠ .EndOfLine

mutual
theorem cvar_mapComments (f : Str → Str) (hf : CommentPayload f) :
    ∀ e : Elem, CVar (toks e) (toks (mapComments f e))
  | .leaf t => by
      simp only [mapComments, toks]
      by_cases hc : (t.cat == TC.Comment) = true
      · have hc' : t.cat = TC.Comment := by simpa using hc
        refine .change t _ hc' (by rw [mapCommentTok_cat]; exact hc') ?_ .nil
        simp only [mapCommentTok, hc, if_true]
        exact hf t.text
      · have : mapCommentTok f t = t := by simp [mapCommentTok, hc]
        rw [this]; exact CVar.refl _
  | .group o b c => by
      simp only [mapComments, toks]
      exact .same o ((cvarS_mapComments f hf b).append (CVar.refl _))
  | .math k o b c => by
      simp only [mapComments, toks]
      exact .same o ((cvarS_mapComments f hf b).append (CVar.refl _))
  | .cmd e n a1 a2 a3 a4 => by
      simp only [mapComments, toks]
      exact .same e (.same n ((cvarA_mapComments f hf a1).append ((cvarA_mapComments f hf a2).append
        ((cvarA_mapComments f hf a3).append (cvarA_mapComments f hf a4)))))
  | .item e n a1 a2 a3 a4 b => by
      simp only [mapComments, toks]
      exact .same e (.same n ((cvarA_mapComments f hf a1).append ((cvarA_mapComments f hf a2).append
        ((cvarA_mapComments f hf a3).append ((cvarA_mapComments f hf a4).append
          (cvarS_mapComments f hf b))))))
  | .env e bg nm a2 a3 a4 b e2 en nm2 => by
      simp only [mapComments, toks]
      exact .same e (.same bg ((CVar.refl _).append ((cvarA_mapComments f hf a2).append
        ((cvarA_mapComments f hf a3).append ((cvarA_mapComments f hf a4).append
          ((cvarS_mapComments f hf b).append (CVar.refl _)))))))
  | .venv e bg nm a2 a3 a4 vb e5 => by
      simp only [mapComments, toks]
      exact .same e (.same bg ((CVar.refl _).append ((cvarA_mapComments f hf a2).append
        ((cvarA_mapComments f hf a3).append ((cvarA_mapComments f hf a4).append (CVar.refl _))))))
theorem cvarS_mapComments (f : Str → Str) (hf : CommentPayload f) :
    ∀ es : List Elem, CVar (toksS es) (toksS (mapCommentsS f es))
  | [] => by simp; exact .nil
  | e :: es => by
      simp only [mapCommentsS_cons, toksS_cons]
      exact (cvar_mapComments f hf e).append (cvarS_mapComments f hf es)
theorem cvarArg_mapComments (f : Str → Str) (hf : CommentPayload f) :
    ∀ a : Arg, CVar (toksArg a) (toksArg (mapCommentsArg f a))
  | .mk sp o b c => by
      simp only [mapCommentsArg, toksArg]
      exact (CVar.refl _).append (.same o ((cvarS_mapComments f hf b).append (CVar.refl _)))
theorem cvarA_mapComments (f : Str → Str) (hf : CommentPayload f) :
    ∀ as : List Arg, CVar (toksA as) (toksA (mapCommentsA f as))
  | [] => by simp; exact .nil
  | a :: as => by
      simp only [mapCommentsA_cons, toksA_cons]
      exact (cvarArg_mapComments f hf a).append (cvarA_mapComments f hf as)
end

/-- **The substituted document is a tokenizer output if the original is.** -/
theorem separated_mapComments (f : Str → Str) (hf : CommentPayload f) (d : Doc)
    (h : Separated none (toksD d)) : Separated none (toksD (mapCommentsD f d)) :=
  (cvarS_mapComments f hf d).separated h (.inl rfl)

end TexSoup.Gram
