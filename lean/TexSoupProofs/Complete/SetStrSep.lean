import TexSoupProofs.Complete.SetStr
import TexSoupProofs.Complete.SqueezeSep
import TexSoupProofs.TokLemmas.SegVar
/-!
# The re-stringed document is again a tokenizer output

If the new leaf is a `Text` token whose text is `goodText` (no ignored first character, no
character at which a text token ends, no leading blank run that would be split off), the token
list of `setStrD r d` is a segment variant (`SVar`) of that of `d`: hence `Separated` if that one
is and no command name is a bare sizing prefix, and so is its squeezed form.
-/
namespace TexSoup.Gram
open TexSoup

structure SetS.SepOK (r : SetS) : Prop where
  cat : r.tk.cat = .Text
  good : goodText r.tk.text = true

theorem svarA_setLeaf {r : SetS} (hr : r.SepOK) : ∀ (as : List Arg) (m : Mode) (k : GKind),
    WFa m k as = true → SVar (toksA as) (toksA (as.map (Arg.setLeaf r.tk)))
  | [], _, _, _ => by simp; exact .nil
  | .mk sp o b c :: as, m, k, h => by
      obtain ⟨h1, h2⟩ := WFa_cons h
      simp only [WFarg, Bool.and_eq_true, beq_iff_eq] at h1
      obtain ⟨⟨⟨_, ho⟩, hc⟩, _⟩ := h1
      have hl : leftDelim o := by cases k <;> simp [GKind.tokBegin] at ho <;> simp [leftDelim, ho]
      have hrt : rightDelim c := by cases k <;> simp [GKind.tokEnd] at hc <;> simp [rightDelim, hc]
      simp only [List.map_cons, toksA_cons, Arg.setLeaf, toksArg, toksS_cons, toks, toksS_nil,
        List.append_nil, List.singleton_append]
      exact ((SVar.refl _).append (.seg o (toksS b) r.tk c hl hrt hr.cat hr.good .nil)).append
        (svarA_setLeaf hr as m k h2)

mutual
theorem svar_setStr {r : SetS} (hr : r.SepOK) : ∀ (e : Elem) (skip : List Str) (m : Mode) (nx : List Tok),
    WF skip m nx e = true → SVar (toks e) (toks (setStr r e))
  | .leaf t, _, _, _, _ => by simp only [setStr]; exact SVar.refl _
  | .group o b c, _, _, _, h => by
      simp only [WF, Bool.and_eq_true] at h
      simp only [setStr, toks]
      exact .same o ((svarS_setStr hr b _ _ _ _ h.2).append (SVar.refl _))
  | .math k o b c, _, _, _, h => by
      simp only [WF, Bool.and_eq_true] at h
      simp only [setStr, toks]
      exact .same o ((svarS_setStr hr b _ _ _ _ h.2).append (SVar.refl _))
  | .cmd e n a1 a2 a3 a4, _, _, _, h => by
      simp only [WF, Bool.and_eq_true] at h
      obtain ⟨⟨⟨⟨⟨_, w1⟩, w2⟩, w3⟩, w4⟩, _⟩ := h
      simp only [setStr]
      split
      · simp only [toks]
        exact .same e (.same n ((svarA_setLeaf hr a1 _ _ w1).append ((svarA_setLeaf hr a2 _ _ w2).append
          ((svarA_setLeaf hr a3 _ _ w3).append (svarA_setLeaf hr a4 _ _ w4)))))
      · simp only [toks]
        exact .same e (.same n ((svarA_setStr hr a1 _ _ w1).append ((svarA_setStr hr a2 _ _ w2).append
          ((svarA_setStr hr a3 _ _ w3).append (svarA_setStr hr a4 _ _ w4)))))
  | .item e n a1 a2 a3 a4 b, _, _, _, h => by
      simp only [WF, Bool.and_eq_true] at h
      obtain ⟨⟨⟨⟨⟨⟨⟨_, w1⟩, w2⟩, w3⟩, w4⟩, _⟩, hb⟩, _⟩ := h
      simp only [setStr, toks]
      exact .same e (.same n ((svarA_setStr hr a1 _ _ w1).append ((svarA_setStr hr a2 _ _ w2).append
        ((svarA_setStr hr a3 _ _ w3).append ((svarA_setStr hr a4 _ _ w4).append
          (svarS_setStr hr b _ _ _ _ hb))))))
  | .env e bg nm a2 a3 a4 b e2 en nm2, _, _, _, h => by
      simp only [WF, Bool.and_eq_true, beq_iff_eq] at h
      obtain ⟨⟨⟨⟨⟨⟨⟨⟨⟨⟨⟨_, hnm⟩, w2⟩, w3⟩, w4⟩, _⟩, _⟩, hb⟩, hesc2⟩, _⟩, _⟩, _⟩ := h
      simp only [setStr]
      split
      · rename_i hsel
        simp only [Bool.and_eq_true, List.isEmpty_iff] at hsel
        obtain ⟨⟨⟨⟨_, rfl⟩, rfl⟩, rfl⟩, _⟩ := hsel
        simp only [NameArg.ok, Bool.and_eq_true, beq_iff_eq] at hnm
        simp only [toks, toksA_nil, List.nil_append, NameArg.toks, toksS_cons, toksS_nil, List.append_nil,
          List.singleton_append]
        refine .same e (.same bg ?_)
        have hseg : SVar (nm.c :: (toksS b ++ e2 :: (en :: nm2.toks)))
            (nm.c :: r.tk :: e2 :: (en :: nm2.toks)) :=
          .seg nm.c (toksS b) r.tk e2 (.inr (.inr hnm.1.1.2)) (.inr (.inr hesc2)) hr.cat hr.good (SVar.refl _)
        have := (SVar.refl (nm.sp.toList ++ [nm.o, nm.nt])).append hseg
        simpa [NameArg.toks] using this
      · simp only [toks]
        exact .same e (.same bg ((SVar.refl _).append ((svarA_setStr hr a2 _ _ w2).append
          ((svarA_setStr hr a3 _ _ w3).append ((svarA_setStr hr a4 _ _ w4).append
            ((svarS_setStr hr b _ _ _ _ hb).append (SVar.refl _)))))))
  | .venv e bg nm a2 a3 a4 vb e5, _, _, _, h => by
      simp only [WF, Bool.and_eq_true] at h
      obtain ⟨⟨⟨⟨⟨⟨⟨⟨⟨_, _⟩, w2⟩, w3⟩, w4⟩, _⟩, _⟩, _⟩, _⟩, _⟩ := h
      simp only [setStr, toks]
      exact .same e (.same bg ((SVar.refl _).append ((svarA_setStr hr a2 _ _ w2).append
        ((svarA_setStr hr a3 _ _ w3).append ((svarA_setStr hr a4 _ _ w4).append (SVar.refl _))))))
theorem svarS_setStr {r : SetS} (hr : r.SepOK) : ∀ (es : List Elem) (skip : List Str) (m : Mode) (ctx : Ctx)
    (nx : List Tok), WFs skip m ctx nx es = true → SVar (toksS es) (toksS (setStrS r es))
  | [], _, _, _, _, _ => by simp; exact .nil
  | e :: es, _, _, _, _, h => by
      obtain ⟨h1, _, h3, _⟩ := WFs_cons h
      simp only [setStrS_cons, toksS_cons]
      exact (svar_setStr hr e _ _ _ h1).append (svarS_setStr hr es _ _ _ _ h3)
theorem svarArg_setStr {r : SetS} (hr : r.SepOK) : ∀ (a : Arg) (m : Mode) (k : GKind),
    WFarg m k a = true → SVar (toksArg a) (toksArg (setStrArg r a))
  | .mk sp o b c, _, _, h => by
      simp only [WFarg, Bool.and_eq_true] at h
      simp only [setStrArg, toksArg]
      exact (SVar.refl _).append (.same o ((svarS_setStr hr b _ _ _ _ h.2).append (SVar.refl _)))
theorem svarA_setStr {r : SetS} (hr : r.SepOK) : ∀ (as : List Arg) (m : Mode) (k : GKind),
    WFa m k as = true → SVar (toksA as) (toksA (setStrA r as))
  | [], _, _, _ => by simp; exact .nil
  | a :: as, _, _, h => by
      obtain ⟨h1, h2⟩ := WFa_cons h
      simp only [setStrA_cons, toksA_cons]
      exact (svarArg_setStr hr a _ _ h1).append (svarA_setStr hr as _ _ h2)
end

/-- **The re-stringed document is a tokenizer output if the original is** (and no command name
is a bare sizing prefix). -/
theorem separated_setStr {r : SetS} {skip : List Str} {d : Doc} (hr : r.SepOK)
    (hwf : WFD skip d = true) (hsep : Separated none (toksD d))
    (hns : ∀ t ∈ toksD d, t.cat = .CommandName → t.text ∉ Tables.sizePrefix) :
    Separated none (toksD (setStrD r d)) :=
  (svarS_setStr hr d _ _ _ _ hwf).separated hsep hns

/-- … and so is its squeezed form. -/
theorem separated_squeeze_setStr {r : SetS} {skip : List Str} {d : Doc} (hr : r.SepOK)
    (hwf : WFD skip d = true) (hsep : Separated none (toksD d))
    (hns : ∀ t ∈ toksD d, t.cat = .CommandName → t.text ∉ Tables.sizePrefix) :
    Separated none (toksD (squeezeD (setStrD r d))) :=
  separated_squeeze (WFD_setStr hr.cat skip d hwf) (separated_setStr hr hwf hsep hns)
    ((svarS_setStr hr d _ _ _ _ hwf).noBare hns)

end TexSoup.Gram
