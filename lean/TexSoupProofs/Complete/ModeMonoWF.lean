import TexSoupProofs.Complete.Squeeze
/-!
# What is well-formed in math mode is well-formed in non-math mode

Math mode only forbids (`\item`). `MLe m1 m2`: the modes are equal, or `m1` is math mode and
`m2` non-math mode.
-/
namespace TexSoup.Gram
open TexSoup

def MLe (m1 m2 : Mode) : Prop := m1 = m2 ∨ (m1 = .math ∧ m2 = .nonMath)

theorem MLe.refl (m : Mode) : MLe m m := .inl rfl
theorem MLe.math_nonMath : MLe .math .nonMath := .inr ⟨rfl, rfl⟩

theorem MLe.cmdMode {m1 m2 : Mode} (h : MLe m1 m2) (n : Str) : MLe (cmdMode n m1) (cmdMode n m2) := by
  rcases h with rfl | ⟨rfl, rfl⟩
  · exact .inl rfl
  · unfold TexSoup.cmdMode
    by_cases hs : memStr n Tables.specialCommands = true
    · simp [hs, MLe]
    · simp [hs, MLe]

theorem MLe.envMode {m1 m2 : Mode} (h : MLe m1 m2) (n : Str) : MLe (envMode n m1) (envMode n m2) := by
  rcases h with rfl | ⟨rfl, rfl⟩
  · exact .inl rfl
  · unfold Gram.envMode
    by_cases hs : memStr n Tables.mathEnvNames = true
    · simp [hs, MLe]
    · simp [hs, MLe]

theorem MLe.special {m1 m2 : Mode} (h : MLe m1 m2) : (m1 == Mode.special) = (m2 == Mode.special) := by
  rcases h with rfl | ⟨rfl, rfl⟩
  · rfl
  · decide

theorem MLe.ne_special {m1 m2 : Mode} (h : MLe m1 m2) : (m1 != Mode.special) = (m2 != Mode.special) := by
  rcases h with rfl | ⟨rfl, rfl⟩
  · rfl
  · decide

theorem MLe.ne_math {m1 m2 : Mode} (h : MLe m1 m2) (h1 : (m1 != Mode.math) = true) :
    (m2 != Mode.math) = true ∧ m1 = m2 := by
  rcases h with rfl | ⟨rfl, rfl⟩
  · exact ⟨h1, rfl⟩
  · simp at h1

mutual
theorem WF_mle : ∀ (e : Elem) (skip : List Str) (m1 m2 : Mode) (nx : List Tok), MLe m1 m2 →
    WF skip m1 nx e = true → WF skip m2 nx e = true
  | .leaf t, skip, m1, m2, nx, hle, h => by simpa [WF] using h
  | .group o b c, skip, m1, m2, nx, hle, h => by
      simp only [WF, Bool.and_eq_true] at h ⊢
      exact h
  | .math k o b c, skip, m1, m2, nx, hle, h => by
      simp only [WF, Bool.and_eq_true] at h ⊢
      exact h
  | .cmd e n a1 a2 a3 a4, skip, m1, m2, nx, hle, h => by
      simp only [WF, Bool.and_eq_true] at h ⊢
      obtain ⟨⟨⟨⟨⟨⟨h0, hb⟩, w1⟩, w2⟩, w3⟩, w4⟩, hrun⟩ := h
      have hc := hle.cmdMode n.text
      refine ⟨⟨⟨⟨⟨⟨h0, ?_⟩, WFa_mle a1 _ _ _ hc w1⟩, WFa_mle a2 _ _ _ hc w2⟩, WFa_mle a3 _ _ _ hc w3⟩,
        WFa_mle a4 _ _ _ hc w4⟩, hrun⟩
      rw [← hle.special]; exact hb
  | .item e n a1 a2 a3 a4 b, skip, m1, m2, nx, hle, h => by
      simp only [WF, Bool.and_eq_true] at h ⊢
      obtain ⟨⟨⟨⟨⟨⟨⟨⟨h0, hm⟩, w1⟩, w2⟩, w3⟩, w4⟩, hrun⟩, hb⟩, hstop⟩ := h
      obtain ⟨hm2, rfl⟩ := hle.ne_math hm
      exact ⟨⟨⟨⟨⟨⟨⟨⟨h0, hm⟩, w1⟩, w2⟩, w3⟩, w4⟩, hrun⟩, hb⟩, hstop⟩
  | .env e bg nm a2 a3 a4 b e2 en nm2, skip, m1, m2, nx, hle, h => by
      simp only [WF, Bool.and_eq_true] at h ⊢
      obtain ⟨⟨⟨⟨⟨⟨⟨⟨⟨⟨⟨⟨h0, hsp⟩, hnm⟩, w2⟩, w3⟩, w4⟩, hrun⟩, hskip⟩, hb⟩, hesc2⟩, hen⟩, hnm2⟩, hname⟩ := h
      have hc := hle.cmdMode bg.text
      refine ⟨⟨⟨⟨⟨⟨⟨⟨⟨⟨⟨⟨h0, ?_⟩, hnm⟩, WFa_mle a2 _ _ _ hc w2⟩, WFa_mle a3 _ _ _ hc w3⟩,
        WFa_mle a4 _ _ _ hc w4⟩, hrun⟩, hskip⟩, WFs_mle b _ _ _ _ _ (hle.envMode _) hb⟩, hesc2⟩, hen⟩,
        hnm2⟩, hname⟩
      rw [← hle.ne_special]; exact hsp
  | .venv e bg nm a2 a3 a4 vb e5, skip, m1, m2, nx, hle, h => by
      simp only [WF, Bool.and_eq_true] at h ⊢
      obtain ⟨⟨⟨⟨⟨⟨⟨⟨⟨⟨h0, hsp⟩, hnm⟩, w2⟩, w3⟩, w4⟩, hrun⟩, hskip⟩, h5⟩, hfl⟩, hno⟩ := h
      have hc := hle.cmdMode bg.text
      refine ⟨⟨⟨⟨⟨⟨⟨⟨⟨⟨h0, ?_⟩, hnm⟩, WFa_mle a2 _ _ _ hc w2⟩, WFa_mle a3 _ _ _ hc w3⟩,
        WFa_mle a4 _ _ _ hc w4⟩, hrun⟩, hskip⟩, h5⟩, hfl⟩, hno⟩
      rw [← hle.ne_special]; exact hsp
theorem WFs_mle : ∀ (es : List Elem) (skip : List Str) (m1 m2 : Mode) (ctx : Ctx) (nx : List Tok),
    MLe m1 m2 → WFs skip m1 ctx nx es = true → WFs skip m2 ctx nx es = true
  | [], _, _, _, _, _, _, _ => by simp [WFs]
  | e :: es, skip, m1, m2, ctx, nx, hle, h => by
      obtain ⟨h1, h2, h3, h4⟩ := WFs_cons h
      refine WFs_cons_intro (WF_mle e _ _ _ _ hle h1) h2 (WFs_mle es _ _ _ _ _ hle h3) ?_
      rw [peekCond_iff] at h4 ⊢
      intro hctx n hn b c hg
      have hb := h4 hctx n hn b c hg
      rcases nextGroup_some hg with ⟨o, tl, rfl⟩ | ⟨s, o, tl, rfl, _⟩
      · exact WFs_mle b _ _ _ _ _ (hle.cmdMode n) hb
      · exact WFs_mle b _ _ _ _ _ (hle.cmdMode n) hb
theorem WFarg_mle : ∀ (a : Arg) (m1 m2 : Mode) (k : GKind), MLe m1 m2 →
    WFarg m1 k a = true → WFarg m2 k a = true
  | .mk sp o b c, m1, m2, k, hle, h => by
      simp only [WFarg, Bool.and_eq_true] at h ⊢
      exact ⟨h.1, WFs_mle b _ _ _ _ _ hle h.2⟩
theorem WFa_mle : ∀ (as : List Arg) (m1 m2 : Mode) (k : GKind), MLe m1 m2 →
    WFa m1 k as = true → WFa m2 k as = true
  | [], _, _, _, _, _ => by simp [WFa]
  | a :: as, m1, m2, k, hle, h => by
      obtain ⟨h1, h2⟩ := WFa_cons h
      simp only [WFa, Bool.and_eq_true]
      exact ⟨WFarg_mle a _ _ _ hle h1, WFa_mle as _ _ _ hle h2⟩
end

end TexSoup.Gram
