import TexSoupProofs.Complete.Basic
/-!
# Completeness, part 2: the loops of groups, arguments, math regions and `read_tex`;
leaves, free groups, math regions
-/
namespace TexSoup.Gram
open TexSoup

theorem succ_of_le {n f : Nat} (h : n + 1 ≤ f) : ∃ g, f = g + 1 := ⟨f - 1, by omega⟩

theorem tokEnd_ne_sp (k : GKind) : k.tokEnd ≠ .MergedSpacer := by cases k <;> decide
theorem tokEnd_ne_esc (k : GKind) : k.tokEnd ≠ .Escape := by cases k <;> decide
theorem mtokEnd_ne_sp (k : MKind) : k.tokEnd ≠ .MergedSpacer := by cases k <;> decide
theorem mtokEnd_ne_esc (k : MKind) : k.tokEnd ≠ .Escape := by cases k <;> decide

/-- The loop of `read_arg`: a well-formed body followed by the closer. -/
theorem readArgBody_complete (k : GKind) (tol : Bool) (m : Mode) (c : Tok) (hc : c.cat = k.tokEnd) :
    ∀ (es : List Elem), AllOK es → WFs [] m (.grp k) [c] es = true →
    ∀ (rest : List Tok) (f : Nat), 3 * (toksS es ++ c :: rest).length + 2 ≤ f →
    readArgBody f k tol m (toksS es ++ c :: rest) = .ok (trees es, rest) := by
  intro es
  induction es with
  | nil =>
    intro _ _ rest f hf
    obtain ⟨g, rfl⟩ := succ_of_le (Nat.le_trans (by omega : 0 + 1 ≤ _) hf)
    simp only [toksS_nil, List.nil_append, trees_nil]
    unfold readArgBody
    simp only [hc, beq_self_eq_true, if_true]
  | cons e es ih =>
    intro hok hwf rest f hf
    obtain ⟨hwe, hst, hws, _⟩ := WFs_cons hwf
    obtain ⟨g, rfl⟩ := succ_of_le (Nat.le_trans (by omega : 0 + 1 ≤ _) hf)
    obtain ⟨r, hr⟩ := toks_cons e
    have hlen := toks_length_pos e
    simp only [toksS_cons, trees_cons, List.append_assoc]
    simp only [toksS_cons, List.append_assoc, List.length_append, List.length_cons] at hf
    have hcons : toks e ++ (toksS es ++ c :: rest) = firstTok e :: (r ++ (toksS es ++ c :: rest)) := by
      rw [hr]; rfl
    rw [hcons]
    unfold readArgBody
    simp only
    have hne : ((firstTok e).cat == k.tokEnd) = false := by
      simpa [startOK] using hst
    rw [hne]
    simp only [Bool.false_eq_true, if_false]
    rw [← hcons]
    have hw : win (toksS es ++ c :: rest) = win (toksS es ++ [c]) := by
      rw [win_append, win_closer rest (by rw [hc]; exact tokEnd_ne_sp k) (by rw [hc]; exact tokEnd_ne_esc k)]
    rw [hok.head [] tol m (toksS es ++ c :: rest) g (by rw [hw]; exact hwe)
      (by simp only [List.length_append, List.length_cons]; omega)]
    simp only [Res.bind_ok]
    rw [ih hok.tail hws rest g (by simp only [List.length_append, List.length_cons]; omega)]
    simp only [Res.bind_ok]

/-- `read_arg` after the opener. -/
theorem readArg_complete (k : GKind) (pos : Int) (tol : Bool) (m : Mode) (c : Tok) (hc : c.cat = k.tokEnd)
    (es : List Elem) (hok : AllOK es) (hwf : WFs [] m (.grp k) [c] es = true)
    (rest : List Tok) (f : Nat) (hf : 3 * (toksS es ++ c :: rest).length + 3 ≤ f) :
    readArg f k pos tol m (toksS es ++ c :: rest) = .ok (.group k (trees es) pos, rest) := by
  obtain ⟨g, rfl⟩ := succ_of_le (Nat.le_trans (by omega : 0 + 1 ≤ _) hf)
  unfold readArg
  rw [readArgBody_complete k tol m c hc es hok hwf rest g (by omega)]
  simp only [Res.bind_ok]

/-- The loop of `read_math_env`: stops in front of the closer. -/
theorem readMathBody_complete (k : MKind) (tol : Bool) (c : Tok) (hc : c.cat = k.tokEnd) :
    ∀ (es : List Elem), AllOK es → WFs [] .math (.mth k) [c] es = true →
    ∀ (rest : List Tok) (f : Nat), 3 * (toksS es ++ c :: rest).length + 2 ≤ f →
    readMathBody f k tol (toksS es ++ c :: rest) = .ok (trees es, c :: rest) := by
  intro es
  induction es with
  | nil =>
    intro _ _ rest f hf
    obtain ⟨g, rfl⟩ := succ_of_le (Nat.le_trans (by omega : 0 + 1 ≤ _) hf)
    simp only [toksS_nil, List.nil_append, trees_nil]
    unfold readMathBody
    simp only [hc, beq_self_eq_true, if_true]
  | cons e es ih =>
    intro hok hwf rest f hf
    obtain ⟨hwe, hst, hws, _⟩ := WFs_cons hwf
    obtain ⟨g, rfl⟩ := succ_of_le (Nat.le_trans (by omega : 0 + 1 ≤ _) hf)
    obtain ⟨r, hr⟩ := toks_cons e
    have hlen := toks_length_pos e
    simp only [toksS_cons, trees_cons, List.append_assoc]
    simp only [toksS_cons, List.append_assoc, List.length_append, List.length_cons] at hf
    have hcons : toks e ++ (toksS es ++ c :: rest) = firstTok e :: (r ++ (toksS es ++ c :: rest)) := by
      rw [hr]; rfl
    rw [hcons]
    unfold readMathBody
    simp only
    have hne : ((firstTok e).cat == k.tokEnd) = false := by
      simpa [startOK] using hst
    rw [hne]
    simp only [Bool.false_eq_true, if_false]
    rw [← hcons]
    have hw : win (toksS es ++ c :: rest) = win (toksS es ++ [c]) := by
      rw [win_append, win_closer rest (by rw [hc]; exact mtokEnd_ne_sp k) (by rw [hc]; exact mtokEnd_ne_esc k)]
    rw [hok.head [] tol .math (toksS es ++ c :: rest) g (by rw [hw]; exact hwe)
      (by simp only [List.length_append, List.length_cons]; omega)]
    simp only [Res.bind_ok]
    rw [ih hok.tail hws rest g (by simp only [List.length_append, List.length_cons]; omega)]
    simp only [Res.bind_ok]

/-- `read_tex`: a well-formed document. -/
theorem readTex_complete (skip : List Str) (tol : Bool) :
    ∀ (es : List Elem), AllOK es → WFs skip .nonMath .top [] es = true →
    ∀ (f : Nat), 3 * (toksS es).length + 2 ≤ f →
    readTex f skip tol (toksS es) = .ok (trees es) := by
  intro es
  induction es with
  | nil =>
    intro _ _ f hf
    obtain ⟨g, rfl⟩ := succ_of_le (Nat.le_trans (by omega : 0 + 1 ≤ _) hf)
    simp only [toksS_nil, trees_nil]
    unfold readTex
    rfl
  | cons e es ih =>
    intro hok hwf f hf
    obtain ⟨hwe, _, hws, _⟩ := WFs_cons hwf
    obtain ⟨g, rfl⟩ := succ_of_le (Nat.le_trans (by omega : 0 + 1 ≤ _) hf)
    obtain ⟨r, hr⟩ := toks_cons e
    have hlen := toks_length_pos e
    simp only [toksS_cons, trees_cons]
    simp only [toksS_cons, List.length_append] at hf
    have hcons : toks e ++ toksS es = firstTok e :: (r ++ toksS es) := by rw [hr]; rfl
    rw [hcons]
    unfold readTex
    simp only
    rw [← hcons]
    have he := hok.head skip tol .nonMath (toksS es) g (by simpa using hwe)
      (by simp only [List.length_append]; omega)
    rw [he]
    simp only
    rw [ih hok.tail hws g (by omega)]

/-! ### the constructors without a backslash -/

theorem leaf_ok (t : Tok) : ElemOK (.leaf t) := by
  intro skip tol m rest f hwf hf
  obtain ⟨g, rfl⟩ := succ_of_le (Nat.le_trans (by omega : 0 + 1 ≤ _) hf)
  simp only [WF] at hwf
  simp only [toks, tree, List.cons_append, List.nil_append]
  exact readExpr_leaf g skip tol m t rest (by rw [← leafTok_eq]; exact hwf)

theorem group_ok (o : Tok) (b : List Elem) (c : Tok) (hb : AllOK b) : ElemOK (.group o b c) := by
  intro skip tol m rest f hwf hf
  obtain ⟨g, rfl⟩ := succ_of_le (Nat.le_trans (by omega : 0 + 1 ≤ _) hf)
  simp only [WF, Bool.and_eq_true, beq_iff_eq] at hwf
  obtain ⟨⟨ho, hc⟩, hwb⟩ := hwf
  simp only [toks, tree, List.cons_append, List.append_assoc, List.nil_append]
  simp only [toks, List.cons_append, List.append_assoc, List.nil_append, List.length_cons] at hf
  unfold readExpr
  simp only [ho, mkindOfBegin]
  rw [if_neg (by decide), if_pos (by decide)]
  exact readArg_complete .brace o.pos tol .nonMath c hc b hb hwb rest g (by omega)

theorem leaf_sub (t : Tok) : GroupArgOK (.leaf t) := by
  intro o b c he; cases he

theorem math_sub (k : MKind) (o : Tok) (b : List Elem) (c : Tok) : GroupArgOK (.math k o b c) := by
  intro o' b' c' he; cases he

theorem group_sub (o : Tok) (b : List Elem) (c : Tok) (hb : AllOK b) : GroupArgOK (.group o b c) := by
  intro o' b' c' he pos tol m rest f hwf hc hf
  cases he
  exact readArg_complete .brace pos tol m c hc b hb hwf rest f hf

theorem math_ok (k : MKind) (o : Tok) (b : List Elem) (c : Tok) (hb : AllOK b) :
    ElemOK (.math k o b c) := by
  intro skip tol m rest f hwf hf
  obtain ⟨g, rfl⟩ := succ_of_le (Nat.le_trans (by omega : 0 + 1 ≤ _) hf)
  simp only [WF, Bool.and_eq_true, beq_iff_eq] at hwf
  obtain ⟨⟨ho, hc⟩, hwb⟩ := hwf
  simp only [toks, tree, List.cons_append, List.append_assoc, List.nil_append]
  simp only [toks, List.cons_append, List.append_assoc, List.nil_append, List.length_cons] at hf
  unfold readExpr
  simp only [ho]
  obtain ⟨g', rfl⟩ : ∃ g', g = g' + 1 := ⟨g - 1, by omega⟩
  unfold readMathEnv
  rw [readMathBody_complete k tol c hc b hb hwb rest g' (by omega)]
  simp only [Res.bind_ok, hc, beq_self_eq_true, if_true]

end TexSoup.Gram
