import TexSoupProofs.Complete.Main
import TexSoupProofs.Reader.PosFree
import TexSoupProofs.Properties.TokInverse
/-!
# From token lists to source text, without assumptions on the positions

`parse` on the text of a separated token list reads the same tokens with recomputed positions;
the tree has the same shape (`shapeL`) as the tree read from the list itself.
-/
namespace TexSoup.Gram
open TexSoup

theorem reposition_length (p : Nat) (ts : List Tok) : (reposition p ts).length = ts.length := by
  induction ts generalizing p with
  | nil => rfl
  | cons t r ih => simp [reposition, ih]

theorem reposition_map_zt (p : Nat) (ts : List Tok) : (reposition p ts).map zt = ts.map zt := by
  induction ts generalizing p with
  | nil => rfl
  | cons t r ih => simp [reposition, ih, zt]

/-- Reading a separated token list from its text gives a tree of the same shape as reading the
list itself (the tokenizer recomputes the positions, nothing else). -/
theorem parse_text_of_tokens (tol : Bool) (skip : List Str) (ts : List Tok) (t : List Expr)
    (hsep : Separated none ts)
    (h : readTex (parseFuel ts) (Tables.skipEnvNames ++ skip) tol ts = .ok t) :
    ∃ t2, parse tol skip (flat ts) = .ok t2 ∧ shapeL t2 = shapeL t := by
  unfold parse
  rw [tokenize_inverse hsep]
  simp only
  have hf : parseFuel (reposition 0 ts) = parseFuel ts := by
    unfold parseFuel; rw [reposition_length]
  rw [hf]
  have hk := readTex_same_keys (f := parseFuel ts) (skip := Tables.skipEnvNames ++ skip) (tol := tol)
    (reposition_map_zt 0 ts)
  rw [h] at hk
  cases hr : readTex (parseFuel ts) (Tables.skipEnvNames ++ skip) tol (reposition 0 ts) with
  | error e => rw [hr] at hk; cases hk
  | ok t2 =>
    rw [hr] at hk
    simp only [Except.map, Except.ok.injEq] at hk
    exact ⟨t2, rfl, hk⟩

/-- **A well-formed, separated document parses from its text to a tree of the shape of its
syntax tree** – whatever positions its tokens carry. -/
theorem document_parses_shape (tol : Bool) (skip : List Str) (d : Doc)
    (hwf : WFD (Tables.skipEnvNames ++ skip) d = true) (hsep : Separated none (toksD d)) :
    ∃ t2, parse tol skip (flat (toksD d)) = .ok t2 ∧ shapeL t2 = shapeL (treeD d) :=
  parse_text_of_tokens tol skip _ _ hsep (document_complete _ tol d hwf)

end TexSoup.Gram
