import TexSoupProofs.Complete.Squeeze
/-!
# The serialisation of the tree of a document is the text of the squeezed document
-/
namespace TexSoup.Gram
open TexSoup

theorem flat_cons (t : Tok) (r : List Tok) : flat (t :: r) = t.text ++ flat r := rfl
@[simp] theorem flat_nil : flat [] = [] := rfl

@[simp] theorem serL_nil : serL [] = [] := by simp [serL]
@[simp] theorem serL_cons (e : Expr) (es : List Expr) : serL (e :: es) = ser e ++ serL es := by
  simp [serL]

theorem flat_nameArg_squeeze (n : NameArg) (h : n.canon = true) :
    flat n.squeeze.toks = 123 :: (n.nt.text ++ [125]) := by
  simp only [NameArg.canon, Bool.and_eq_true, beq_iff_eq] at h
  simp [NameArg.squeeze, NameArg.toks, flat_cons, h.1, h.2]

mutual
theorem ser_tree : ∀ e : Elem, canon e = true → ser (tree e) = flat (toks (squeeze e))
  | .leaf t, _ => by simp [tree, squeeze, toks, ser, flat_cons]
  | .group o b c, h => by
      simp only [canon, Bool.and_eq_true, beq_iff_eq] at h
      simp [tree, squeeze, toks, ser, flat_cons, flat_append, GKind.open, GKind.close, h.1.1, h.1.2,
        serL_trees b h.2]
  | .math k o b c, h => by
      simp only [canon, Bool.and_eq_true, beq_iff_eq] at h
      simp [tree, squeeze, toks, ser, flat_cons, flat_append, h.1.1, h.1.2, serL_trees b h.2]
  | .cmd e n a1 a2 a3 a4, h => by
      simp only [canon, Bool.and_eq_true, beq_iff_eq] at h
      obtain ⟨⟨⟨⟨⟨he, hn⟩, c1⟩, c2⟩, c3⟩, c4⟩ := h
      simp [tree, squeeze, toks, ser, flat_cons, flat_append, serL_append, he, hn,
        serL_treesA _ a1 c1, serL_treesA _ a2 c2, serL_treesA _ a3 c3, serL_treesA _ a4 c4]
  | .item e n a1 a2 a3 a4 b, h => by
      simp only [canon, Bool.and_eq_true, beq_iff_eq] at h
      obtain ⟨⟨⟨⟨⟨⟨he, hn⟩, c1⟩, c2⟩, c3⟩, c4⟩, cb⟩ := h
      simp [tree, squeeze, toks, ser, flat_cons, flat_append, serL_append, he, hn,
        serL_treesA _ a1 c1, serL_treesA _ a2 c2, serL_treesA _ a3 c3, serL_treesA _ a4 c4,
        serL_trees b cb]
  | .env e bg nm a2 a3 a4 b e2 en nm2, h => by
      simp only [canon, Bool.and_eq_true, beq_iff_eq] at h
      obtain ⟨⟨⟨⟨⟨⟨⟨⟨⟨⟨⟨he, hbg⟩, cnm⟩, hst⟩, c2⟩, c3⟩, c4⟩, cb⟩, he2⟩, hen⟩, cnm2⟩, hn2⟩ := h
      simp [tree, squeeze, toks, ser, flat_cons, flat_append, serL_append, he, hbg, hst, he2, hen,
        flat_nameArg_squeeze nm cnm, flat_nameArg_squeeze nm2 cnm2, hn2, strBegin_eq, strEnd_eq,
        serL_treesA _ a2 c2, serL_treesA _ a3 c3, serL_treesA _ a4 c4, serL_trees b cb]
  | .venv e bg nm a2 a3 a4 vb e5, h => by
      simp only [canon, Bool.and_eq_true, beq_iff_eq] at h
      obtain ⟨⟨⟨⟨⟨⟨⟨he, hbg⟩, cnm⟩, hst⟩, c2⟩, c3⟩, c4⟩, h5⟩ := h
      simp [tree, squeeze, toks, ser, flat_cons, flat_append, serL_append, he, hbg, hst, h5,
        flat_nameArg_squeeze nm cnm, strBegin_eq, strEnd_eq, endMarker,
        serL_treesA _ a2 c2, serL_treesA _ a3 c3, serL_treesA _ a4 c4]
theorem serL_trees : ∀ es : List Elem, canonS es = true → serL (trees es) = flat (toksS (squeezeS es))
  | [], _ => by simp
  | e :: es, h => by
      simp only [canonS, Bool.and_eq_true] at h
      simp [flat_append, ser_tree e h.1, serL_trees es h.2]
theorem ser_treeArg (k : GKind) : ∀ a : Arg, canonArg k a = true →
    ser (treeArg k a) = flat (toksArg (squeezeArg a))
  | .mk sp o b c, h => by
      simp only [canonArg, Bool.and_eq_true, beq_iff_eq] at h
      simp [treeArg, squeezeArg, toksArg, ser, flat_cons, flat_append, h.1.1, h.1.2, serL_trees b h.2]
theorem serL_treesA (k : GKind) : ∀ as : List Arg, canonA k as = true →
    serL (treesA k as) = flat (toksA (squeezeA as))
  | [], _ => by simp
  | a :: as, h => by
      simp only [canonA, Bool.and_eq_true] at h
      simp [flat_append, ser_treeArg k a h.1, serL_treesA k as h.2]
end

/-- **(a)** The serialisation of the tree is the text of the squeezed document. -/
theorem serL_treeD (d : Doc) (h : canonD d = true) : serL (treeD d) = flat (toksD (squeezeD d)) :=
  serL_trees d h

end TexSoup.Gram
