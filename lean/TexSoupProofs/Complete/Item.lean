import TexSoupProofs.Complete.Env
/-!
# Completeness, part 8: `\item` and the contents it owns (`read_item`)
-/
namespace TexSoup.Gram
open TexSoup

/-- `read_command(src, 0, 0)` on a name: the look-ahead of `read_item`. -/
theorem readCommand00_cons (g : Nat) (tol : Bool) (m : Mode) (n : Tok) (r : List Tok) :
    readCommand (g + 2) 0 0 tol m (n :: r) = .ok ((n, []), r) := by
  unfold readCommand
  simp only [cmdSig_given 0 0 (by omega)]
  unfold readArgs
  rw [if_pos (by decide)]
  rfl

/-- A well-formed element that starts with a backslash continues with its name token. -/
theorem toks_esc {skip : List Str} {m : Mode} {nx : List Tok} {e : Elem}
    (hwf : WF skip m nx e = true) (hesc : (firstTok e).cat = .Escape) :
    ∃ n r, toks e = firstTok e :: n :: r ∧ nameText e = some n.text := by
  cases e with
  | leaf t => exact absurd hesc (by
      simp only [WF, leafTok, Bool.and_eq_true, bne_iff_ne, ne_eq] at hwf; exact hwf.1.2)
  | group o b c =>
    simp only [WF, Bool.and_eq_true, beq_iff_eq] at hwf
    simp only [firstTok] at hesc
    rw [hwf.1.1] at hesc; cases hesc
  | math k o b c =>
    simp only [WF, Bool.and_eq_true, beq_iff_eq] at hwf
    simp only [firstTok] at hesc
    have := hwf.1.1
    rw [hesc] at this
    simp [mkindOfBegin] at this
  | cmd esc name a1 a2 a3 a4 => exact ⟨name, _, by simp only [toks, firstTok]; rfl, rfl⟩
  | item esc name a1 a2 a3 a4 b => exact ⟨name, _, by simp only [toks, firstTok]; rfl, rfl⟩
  | env esc bgn nm a2 a3 a4 b esc2 en nm2 => exact ⟨bgn, _, by simp only [toks, firstTok]; rfl, rfl⟩
  | venv esc bgn nm a2 a3 a4 vb e5 => exact ⟨bgn, _, by simp only [toks, firstTok]; rfl, rfl⟩

/-- The loop of `read_item`: well-formed contents, then something that ends the item. -/
theorem readItem_complete : ∀ (es : List Elem), AllOK es → ∀ (rest : List Tok),
    WFs [] .nonMath .item (win rest) es = true → itemStop rest = true →
    ∀ (f : Nat), 3 * (toksS es ++ rest).length + 2 ≤ f →
    readItem f (toksS es ++ rest) = .ok (trees es, rest) := by
  intro es
  induction es with
  | nil =>
    intro _ rest _ hstop f hf
    obtain ⟨g, rfl⟩ := succ_of_le (Nat.le_trans (by omega : 0 + 1 ≤ _) hf)
    simp only [toksS_nil, List.nil_append, trees_nil] at hf ⊢
    unfold readItem
    cases rest with
    | nil => rfl
    | cons t r =>
      simp only
      simp only [itemStop, Bool.or_eq_true, Bool.and_eq_true, beq_iff_eq] at hstop
      by_cases hesc : (t.cat == TC.Escape) = true
      · rw [if_pos hesc]
        have hE : t.cat = TC.Escape := by simpa using hesc
        rcases hstop with h | h
        · rw [hE] at h; cases h
        · cases r with
          | nil => simp at h
          | cons n r' =>
            obtain ⟨g', rfl⟩ : ∃ g', g = g' + 2 := ⟨g - 2, by simp only [List.length_cons] at hf; omega⟩
            rw [readCommand00_cons]
            simp only [Res.bind_ok]
            rw [if_pos (by simpa using h.2)]
      · rw [if_neg hesc]
        rcases hstop with h | h
        · rw [if_pos (by simpa using h)]
        · exact absurd (by simpa using h.1) hesc
  | cons e es ih =>
    intro hok rest hwf hstop f hf
    obtain ⟨hwe, hst, hws, _⟩ := WFs_cons hwf
    obtain ⟨g, rfl⟩ := succ_of_le (Nat.le_trans (by omega : 0 + 1 ≤ _) hf)
    obtain ⟨r, hr⟩ := toks_cons e
    have hlen := toks_length_pos e
    simp only [toksS_cons, trees_cons, List.append_assoc]
    simp only [toksS_cons, List.append_assoc, List.length_append] at hf
    rw [← win_append] at hwe
    have he := hok.head [] false .nonMath _ g hwe (by simp only [List.length_append]; omega)
    have hrec := ih hok.tail rest hws hstop g (by simp only [List.length_append]; omega)
    simp only [startOK, Bool.and_eq_true, bne_iff_ne, ne_eq] at hst
    obtain ⟨⟨hge, hne⟩, hni⟩ := hst
    have hcons : toks e ++ (toksS es ++ rest) = firstTok e :: (r ++ (toksS es ++ rest)) := by
      rw [hr]; rfl
    by_cases hesc : ((firstTok e).cat == TC.Escape) = true
    · obtain ⟨n, r', htk, hnt⟩ := toks_esc hwe (by simpa using hesc)
      have hr' : r = n :: r' := by
        rw [hr] at htk
        exact (List.cons.inj htk).2
      subst hr'
      rw [hnt] at hne hni
      rw [hcons]
      unfold readItem
      simp only
      rw [if_pos hesc]
      obtain ⟨g', rfl⟩ : ∃ g', g = g' + 2 := ⟨g - 2, by omega⟩
      rw [show (n :: r') ++ (toksS es ++ rest) = n :: (r' ++ (toksS es ++ rest)) from rfl,
        readCommand00_cons]
      simp only [Res.bind_ok]
      rw [if_neg (by
        simp only [Bool.or_eq_true, beq_iff_eq, not_or]
        exact ⟨fun h => hne (by rw [h]), fun h => hni (by rw [h])⟩)]
      rw [show firstTok e :: n :: (r' ++ (toksS es ++ rest)) = toks e ++ (toksS es ++ rest)
        from hcons.symm, he]
      simp only [Res.bind_ok]
      rw [hrec]
      simp only [Res.bind_ok]
    · rw [hcons]
      unfold readItem
      simp only
      rw [if_neg hesc, if_neg (by simpa using hge), ← hcons, he]
      simp only [Res.bind_ok]
      rw [hrec]
      simp only [Res.bind_ok]

theorem cmdSig_item : cmdSig (-1) (-1) sItem = (-1, -1) := by decide
theorem sItem_ne_sEnd : (sItem == sEnd) = false := by decide

theorem item_ok (esc name : Tok) (a1 a2 a3 a4 : List Arg) (b : List Elem)
    (k1 : ArgsOK a1) (k2 : ArgsOK a2) (k3 : ArgsOK a3) (k4 : ArgsOK a4) (kb : AllOK b) :
    ElemOK (.item esc name a1 a2 a3 a4 b) := by
  intro skip tol m rest f hwf hf
  obtain ⟨g, rfl⟩ := succ_of_le (Nat.le_trans (by omega : 0 + 1 ≤ _) hf)
  simp only [WF, Bool.and_eq_true, beq_iff_eq, bne_iff_ne, ne_eq] at hwf
  obtain ⟨⟨⟨⟨⟨⟨⟨⟨⟨hesc, hni⟩, hmm⟩, w1⟩, w2⟩, w3⟩, w4⟩, hrun⟩, hwb⟩, hstop⟩ := hwf
  rw [← win_append, runOK_win] at hrun
  rw [itemStop_win] at hstop
  simp only [toks, tree, List.cons_append, List.append_assoc]
  simp only [toks, List.cons_append, List.append_assoc, List.length_cons, List.length_append] at hf
  rw [readExpr_escape g skip tol m esc _ hesc,
    readCommand_run tol m (-1) (-1) name a1 a2 a3 a4 k1 k2 k3 k4 w1 w2 w3 w4 _ hrun g
      (by simp only [List.length_cons, List.length_append]; omega)]
  simp only [Res.bind_ok]
  rw [if_pos (by simpa using hni), if_neg (by simpa using hmm)]
  rw [readItem_complete b kb rest hwb hstop g (by simp only [List.length_append]; omega)]
  simp only [Res.bind_ok]

theorem item_peek (esc name : Tok) (a1 a2 a3 a4 : List Arg) (b : List Elem) (k2 : ArgsOK a2) :
    PeekOK (.item esc name a1 a2 a3 a4 b) := by
  intro skip tol m rest g hwf _ hf _
  simp only [WF, Bool.and_eq_true, beq_iff_eq, bne_iff_ne, ne_eq] at hwf
  obtain ⟨⟨⟨⟨⟨⟨⟨⟨⟨hesc, hni⟩, hmm⟩, w1⟩, w2⟩, w3⟩, w4⟩, hrun⟩, hwb⟩, hstop⟩ := hwf
  rw [← win_append, runOK_win] at hrun
  simp only [toks, List.cons_append, List.append_assoc, List.length_cons, List.length_append] at hf
  have hgrp := peek_run tol (cmdMode name.text m) a1 a2 a3 a4 k2 w1 w2 (toksS b ++ rest)
    (by
      intro e1 e2
      subst e1 e2
      obtain ⟨e3, e4⟩ := runOK_noargs hrun
      exact ⟨e3, e4, runOK_noargs_open (by rw [hni, cmdSig_item]; decide) hrun⟩)
    g (by simp only [List.length_append]; omega)
  obtain ⟨args, T', hr⟩ := readCommand10_ok g tol m name _ (by omega) hgrp
  refine ⟨name, toksA a1 ++ (toksA a2 ++ (toksA a3 ++ (toksA a4 ++ toksS b))), args, T',
    by simp [toks, firstTok], rfl, ?_⟩
  simp only [List.append_assoc]
  exact hr

end TexSoup.Gram
