import TexSoupProofs.Complete.Item
/-!
# Completeness, part 9: verbatim-like environments (`read_skip_env`)
-/
namespace TexSoup.Gram
open TexSoup

theorem isPrefix_self (s : Str) : isPrefix s s = true := by
  induction s with
  | nil => rfl
  | cons a s ih => simp [isPrefix, ih]

/-- Characters beyond the length of the pattern do not matter. -/
theorem isPrefix_append_long : ∀ (s x z : Str), s.length ≤ x.length →
    isPrefix s (x ++ z) = isPrefix s x := by
  intro s
  induction s with
  | nil => intro x z _; simp [isPrefix]
  | cons a s ih =>
    intro x z h
    cases x with
    | nil => simp at h
    | cons b x =>
      simp only [List.cons_append, isPrefix]
      rw [ih x z (by simpa using h)]

/-- `Buffer.startswith` looks at no more tokens than it needs. -/
theorem bufStartsWith_ext (s : Str) (a b : List Tok) (h : s.length ≤ (flat a).length) :
    bufStartsWith s (a ++ b) = bufStartsWith s a := by
  unfold bufStartsWith
  by_cases hl : s.length ≤ a.length
  · rw [List.take_append_of_le_length hl]
  · have hl' : a.length ≤ s.length := by omega
    rw [List.take_append, List.take_of_length_le hl', flat_append]
    exact isPrefix_append_long s (flat a) _ h

theorem noEarly_suffix (mk : Str) (e5 : List Tok) : ∀ (pre suf : List Tok),
    noEarly mk e5 (pre ++ suf) = true → suf ≠ [] → bufStartsWith mk (suf ++ e5) = false := by
  intro pre
  induction pre with
  | nil =>
    intro suf h hs
    cases suf with
    | nil => exact absurd rfl hs
    | cons t r =>
      simp only [List.nil_append, noEarly, Bool.and_eq_true, Bool.not_eq_true'] at h
      exact h.1
  | cons p pre ih =>
    intro suf h hs
    simp only [List.cons_append, noEarly, Bool.and_eq_true] at h
    exact ih suf h.2 hs

theorem endMarker_length (name : Str) : 5 < (endMarker name).length := by
  simp [endMarker, strEnd]

theorem venv_ok (esc bgn : Tok) (nm : NameArg) (a2 a3 a4 : List Arg) (vb e5 : List Tok)
    (k2 : ArgsOK a2) (k3 : ArgsOK a3) (k4 : ArgsOK a4) :
    ElemOK (.venv esc bgn nm a2 a3 a4 vb e5) := by
  intro skip tol m rest f hwf hf
  obtain ⟨g, rfl⟩ := succ_of_le (Nat.le_trans (by omega : 0 + 1 ≤ _) hf)
  simp only [WF, Bool.and_eq_true, beq_iff_eq, bne_iff_ne, ne_eq] at hwf
  obtain ⟨⟨⟨⟨⟨⟨⟨⟨⟨⟨⟨hesc, hbg⟩, hms⟩, hnm⟩, w2⟩, w3⟩, w4⟩, hrun⟩, hskip⟩, h5⟩, hfl⟩, hno⟩ := hwf
  have hw : win (vb ++ (e5 ++ rest)) = win (vb ++ e5) := by
    rw [win_append vb (e5 ++ rest), win_append vb e5]
    congr 2
    cases e5 with
    | nil => simp at h5
    | cons t r =>
      cases r with
      | nil => simp at h5
      | cons u r' => simp [win]
  rw [← hw, runOK_win] at hrun
  simp only [toks, tree, List.cons_append, List.append_assoc]
  simp only [toks, List.cons_append, List.append_assoc, List.length_cons, List.length_append] at hf
  rw [readExpr_escape g skip tol m esc _ hesc]
  have hshape : bgn :: (nm.toks ++ (toksA a2 ++ (toksA a3 ++ (toksA a4 ++ (vb ++ (e5 ++ rest)))))) =
      bgn :: (toksA [] ++ (toksA (nm.toArg :: a2) ++ (toksA a3 ++ (toksA a4 ++
        (vb ++ (e5 ++ rest)))))) := by
    simp [nameArg_toksArg]
  rw [hshape, readCommand_run tol m (-1) (-1) bgn [] (nm.toArg :: a2) a3 a4
    (by intro a ha; cases ha) (nameArg_ArgsOK nm a2 k2) k3 k4 (by simp [WFa])
    (nameArg_WFa nm hnm _ a2 w2) w3 w4 _ hrun g
    (by rw [← hshape]; simp only [List.length_cons, List.length_append]; omega)]
  simp only [Res.bind_ok, treesA_nil, List.nil_append, nameArg_treesA, List.cons_append, hbg,
    sBegin_ne_sItem, Bool.false_eq_true, if_false, beq_self_eq_true, Bool.true_and]
  rw [if_pos (by simpa using hms)]
  simp only [nameArg_string, hskip, if_true]
  have hlen5 : e5.length = 5 := h5
  have hmk : (endMarker (strip nm.nt.text)).length ≤ (flat e5).length := by rw [hfl]; exact Nat.le_refl _
  have hend : bufStartsWith (endMarker (strip nm.nt.text)) (e5 ++ rest) = true := by
    rw [bufStartsWith_ext _ _ _ hmk]
    unfold bufStartsWith
    rw [List.take_of_length_le (by have := endMarker_length (strip nm.nt.text); omega), hfl]
    exact isPrefix_self _
  rw [skip_env_opaque (strip nm.nt.text) _ esc.pos vb e5 rest
    (by
      intro pre suf hb hs
      rw [← List.append_assoc, bufStartsWith_ext _ _ _ (by
        rw [flat_append, List.length_append]; omega)]
      exact noEarly_suffix _ e5 pre suf (by rw [← hb]; exact hno) hs)
    hlen5 hend]
  cases vb with
  | cons t r => rfl
  | nil =>
    cases e5 with
    | nil => cases hlen5
    | cons t r => rfl

theorem venv_peek (esc bgn : Tok) (nm : NameArg) (a2 a3 a4 : List Arg) (vb e5 : List Tok)
    (k2 : ArgsOK a2) : PeekOK (.venv esc bgn nm a2 a3 a4 vb e5) := by
  intro skip tol m rest g hwf _ hf _
  simp only [WF, Bool.and_eq_true, beq_iff_eq, bne_iff_ne, ne_eq] at hwf
  obtain ⟨⟨⟨⟨⟨⟨⟨⟨⟨⟨⟨hesc, hbg⟩, hms⟩, hnm⟩, w2⟩, w3⟩, w4⟩, hrun⟩, hskip⟩, h5⟩, hfl⟩, hno⟩ := hwf
  simp only [toks, List.cons_append, List.append_assoc, List.length_cons, List.length_append] at hf
  have hgrp := peek_run tol (cmdMode bgn.text m) [] (nm.toArg :: a2) a3 a4 (nameArg_ArgsOK nm a2 k2)
    (by simp [WFa]) (nameArg_WFa nm hnm _ a2 w2)
    (vb ++ (e5 ++ rest)) (fun _ h => absurd h (List.cons_ne_nil _ _)) g
    (by simp only [nameArg_toksA, toksA_nil, List.nil_append, List.append_assoc,
          List.length_append]; omega)
  obtain ⟨args, T', hr⟩ := readCommand10_ok g tol m bgn _ (by omega) hgrp
  refine ⟨bgn, nm.toks ++ (toksA a2 ++ (toksA a3 ++ (toksA a4 ++ (vb ++ e5)))),
    args, T', by simp only [toks, firstTok], rfl, ?_⟩
  simpa [nameArg_toksArg] using hr

end TexSoup.Gram
