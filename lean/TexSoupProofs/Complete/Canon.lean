import TexSoupProofs.Complete.SerTree
import TexSoupProofs.TokLemmas.SepFacts
/-!
# Documents whose tokens come from the tokenizer are canonically spelled
-/
namespace TexSoup.Gram
open TexSoup

/-- The lexical facts the serialiser relies on: delimiters carry their text, the token after a
backslash has no blanks at its ends. -/
def Spelled (ts : List Tok) : Prop :=
  (∀ t ∈ ts, shapedB t = true) ∧
  (∀ pre esc n r, ts = pre ++ esc :: n :: r → esc.cat = .Escape → strip n.text = n.text)

theorem spelled_of_separated {prev : Option Ch} {ts : List Tok} (h : Separated prev ts) : Spelled ts :=
  ⟨separated_shaped h, separated_escOK h⟩

theorem Spelled.infix {ts : List Tok} (h : Spelled ts) (A l B : List Tok) (he : ts = A ++ (l ++ B)) :
    Spelled l := by
  subst he
  refine ⟨fun t ht => h.1 t (by simp [ht]), ?_⟩
  intro pre esc n r hl hc
  exact h.2 (A ++ pre) esc n (r ++ B) (by rw [hl]; simp) hc

theorem shaped_escape {t : Tok} (h : shapedB t = true) (hc : t.cat = .Escape) : t.text = [92] := by
  unfold shapedB at h; rw [hc] at h; simpa using h
theorem shaped_gbegin {t : Tok} {k : GKind} (h : shapedB t = true) (hc : t.cat = k.tokBegin) :
    t.text = k.open := by
  unfold shapedB at h
  cases k <;> simp only [GKind.tokBegin] at hc <;> rw [hc] at h <;> simpa [GKind.open] using h
theorem shaped_gend {t : Tok} {k : GKind} (h : shapedB t = true) (hc : t.cat = k.tokEnd) :
    t.text = k.close := by
  unfold shapedB at h
  cases k <;> simp only [GKind.tokEnd] at hc <;> rw [hc] at h <;> simpa [GKind.close] using h

theorem nameArg_canon_of (n : NameArg) (hok : n.ok = true) (ho : shapedB n.o = true)
    (hc : shapedB n.c = true) : n.canon = true := by
  simp only [NameArg.ok, Bool.and_eq_true, beq_iff_eq] at hok
  have h1 := shaped_gbegin (k := .brace) ho hok.1.1.1.2
  have h2 := shaped_gend (k := .brace) hc hok.1.1.2
  simp [NameArg.canon, h1, h2, GKind.open, GKind.close]

theorem mem_nameArg_toks (n : NameArg) : n.o ∈ n.toks ∧ n.c ∈ n.toks := by
  simp [NameArg.toks]

mutual
theorem canon_of_spelled : ∀ (e : Elem) (skip : List Str) (m : Mode) (nx : List Tok),
    WF skip m nx e = true → Spelled (toks e) → envNamesPlain e = true → canon e = true
  | .leaf t, _, _, _, _, _, _ => by simp [canon]
  | .group o b c, skip, m, nx, hwf, hsp, hen => by
      simp only [WF, Bool.and_eq_true, beq_iff_eq] at hwf
      simp only [envNamesPlain] at hen
      have ho := shaped_gbegin (k := .brace) (hsp.1 o (by simp [toks])) hwf.1.1
      have hc := shaped_gend (k := .brace) (hsp.1 c (by simp [toks])) hwf.1.2
      simp only [canon, Bool.and_eq_true, beq_iff_eq]
      exact ⟨⟨ho, hc⟩, canonS_of_spelled b _ _ _ _ hwf.2 (hsp.infix [o] _ [c] (by simp [toks])) hen⟩
  | .math k o b c, skip, m, nx, hwf, hsp, hen => by
      simp only [WF, Bool.and_eq_true, beq_iff_eq] at hwf
      simp only [envNamesPlain] at hen
      have ho := text_of_mkindBegin (hsp.1 o (by simp [toks])) hwf.1.1
      have hc := text_of_mkindEnd (k := k) (hsp.1 c (by simp [toks])) (by simp [hwf.1.2])
      simp only [canon, Bool.and_eq_true, beq_iff_eq]
      exact ⟨⟨ho, hc⟩, canonS_of_spelled b _ _ _ _ hwf.2 (hsp.infix [o] _ [c] (by simp [toks])) hen⟩
  | .cmd e n a1 a2 a3 a4, skip, m, nx, hwf, hsp, hen => by
      simp only [WF, Bool.and_eq_true, beq_iff_eq] at hwf
      obtain ⟨⟨⟨⟨⟨⟨⟨hesc, _⟩, _⟩, w1⟩, w2⟩, w3⟩, w4⟩, _⟩ := hwf
      simp only [envNamesPlain, Bool.and_eq_true] at hen
      have he := shaped_escape (hsp.1 e (by simp [toks])) hesc
      have hn := hsp.2 [] e n _ (by simp [toks]; rfl) hesc
      simp only [canon, Bool.and_eq_true, beq_iff_eq]
      exact ⟨⟨⟨⟨⟨he, hn⟩,
        canonA_of_spelled a1 _ _ w1 (hsp.infix [e, n] _ (toksA a2 ++ (toksA a3 ++ toksA a4)) (by simp [toks])) hen.1.1.1⟩,
        canonA_of_spelled a2 _ _ w2 (hsp.infix (e :: n :: toksA a1) _ (toksA a3 ++ toksA a4) (by simp [toks])) hen.1.1.2⟩,
        canonA_of_spelled a3 _ _ w3 (hsp.infix (e :: n :: (toksA a1 ++ toksA a2)) _ (toksA a4) (by simp [toks])) hen.1.2⟩,
        canonA_of_spelled a4 _ _ w4 (hsp.infix (e :: n :: (toksA a1 ++ (toksA a2 ++ toksA a3))) _ [] (by simp [toks])) hen.2⟩
  | .item e n a1 a2 a3 a4 b, skip, m, nx, hwf, hsp, hen => by
      simp only [WF, Bool.and_eq_true, beq_iff_eq] at hwf
      obtain ⟨⟨⟨⟨⟨⟨⟨⟨⟨hesc, _⟩, _⟩, w1⟩, w2⟩, w3⟩, w4⟩, _⟩, hwb⟩, _⟩ := hwf
      simp only [envNamesPlain, Bool.and_eq_true] at hen
      have he := shaped_escape (hsp.1 e (by simp [toks])) hesc
      have hn := hsp.2 [] e n _ (by simp [toks]; rfl) hesc
      simp only [canon, Bool.and_eq_true, beq_iff_eq]
      exact ⟨⟨⟨⟨⟨⟨he, hn⟩,
        canonA_of_spelled a1 _ _ w1 (hsp.infix [e, n] _ (toksA a2 ++ (toksA a3 ++ (toksA a4 ++ toksS b))) (by simp [toks])) hen.1.1.1.1⟩,
        canonA_of_spelled a2 _ _ w2 (hsp.infix (e :: n :: toksA a1) _ (toksA a3 ++ (toksA a4 ++ toksS b)) (by simp [toks])) hen.1.1.1.2⟩,
        canonA_of_spelled a3 _ _ w3 (hsp.infix (e :: n :: (toksA a1 ++ toksA a2)) _ (toksA a4 ++ toksS b) (by simp [toks])) hen.1.1.2⟩,
        canonA_of_spelled a4 _ _ w4 (hsp.infix (e :: n :: (toksA a1 ++ (toksA a2 ++ toksA a3))) _ (toksS b) (by simp [toks])) hen.1.2⟩,
        canonS_of_spelled b _ _ _ _ hwb (hsp.infix (e :: n :: (toksA a1 ++ (toksA a2 ++ (toksA a3 ++ toksA a4)))) _ [] (by simp [toks])) hen.2⟩
  | .env e bg nm a2 a3 a4 b e2 en nm2, skip, m, nx, hwf, hsp, hen => by
      simp only [WF, Bool.and_eq_true, beq_iff_eq] at hwf
      obtain ⟨⟨⟨⟨⟨⟨⟨⟨⟨⟨⟨⟨⟨hesc, hbg⟩, _⟩, hnm⟩, w2⟩, w3⟩, w4⟩, _⟩, _⟩, hwb⟩, hesc2⟩, hend⟩, hnm2⟩,
        hname⟩ := hwf
      simp only [envNamesPlain, Bool.and_eq_true, beq_iff_eq] at hen
      have he := shaped_escape (hsp.1 e (by simp [toks])) hesc
      have he2 := shaped_escape (hsp.1 e2 (by simp [toks])) hesc2
      have cn := nameArg_canon_of nm hnm (hsp.1 _ (by simp [toks, NameArg.toks]))
        (hsp.1 _ (by simp [toks, NameArg.toks]))
      have cn2 := nameArg_canon_of nm2 hnm2 (hsp.1 _ (by simp [toks, NameArg.toks]))
        (hsp.1 _ (by simp [toks, NameArg.toks]))
      simp only [canon, Bool.and_eq_true, beq_iff_eq]
      refine ⟨⟨⟨⟨⟨⟨⟨⟨⟨⟨⟨he, hbg⟩, cn⟩, hen.1.1.1.1⟩, ?_⟩, ?_⟩, ?_⟩, ?_⟩, he2⟩, hend⟩, cn2⟩, ?_⟩
      · exact canonA_of_spelled a2 _ _ w2 (hsp.infix (e :: bg :: nm.toks) _
          (toksA a3 ++ (toksA a4 ++ (toksS b ++ e2 :: en :: nm2.toks))) (by simp [toks])) hen.1.1.1.2
      · exact canonA_of_spelled a3 _ _ w3 (hsp.infix (e :: bg :: (nm.toks ++ toksA a2)) _
          (toksA a4 ++ (toksS b ++ e2 :: en :: nm2.toks)) (by simp [toks])) hen.1.1.2
      · exact canonA_of_spelled a4 _ _ w4 (hsp.infix (e :: bg :: (nm.toks ++ (toksA a2 ++ toksA a3))) _
          (toksS b ++ e2 :: en :: nm2.toks) (by simp [toks])) hen.1.2
      · exact canonS_of_spelled b _ _ _ _ hwb (hsp.infix
          (e :: bg :: (nm.toks ++ (toksA a2 ++ (toksA a3 ++ toksA a4)))) _ (e2 :: en :: nm2.toks)
          (by simp [toks])) hen.2
      · rw [hname, hen.1.1.1.1]
  | .venv e bg nm a2 a3 a4 vb e5, skip, m, nx, hwf, hsp, hen => by
      simp only [WF, Bool.and_eq_true, beq_iff_eq] at hwf
      obtain ⟨⟨⟨⟨⟨⟨⟨⟨⟨⟨⟨hesc, hbg⟩, _⟩, hnm⟩, w2⟩, w3⟩, w4⟩, _⟩, _⟩, _⟩, hfl⟩, _⟩ := hwf
      simp only [envNamesPlain, Bool.and_eq_true, beq_iff_eq] at hen
      have he := shaped_escape (hsp.1 e (by simp [toks])) hesc
      have cn := nameArg_canon_of nm hnm (hsp.1 _ (by simp [toks, NameArg.toks]))
        (hsp.1 _ (by simp [toks, NameArg.toks]))
      simp only [canon, Bool.and_eq_true, beq_iff_eq]
      refine ⟨⟨⟨⟨⟨⟨⟨he, hbg⟩, cn⟩, hen.1.1.1⟩, ?_⟩, ?_⟩, ?_⟩, ?_⟩
      · exact canonA_of_spelled a2 _ _ w2 (hsp.infix (e :: bg :: nm.toks) _
          (toksA a3 ++ (toksA a4 ++ (vb ++ e5))) (by simp [toks])) hen.1.1.2
      · exact canonA_of_spelled a3 _ _ w3 (hsp.infix (e :: bg :: (nm.toks ++ toksA a2)) _
          (toksA a4 ++ (vb ++ e5)) (by simp [toks])) hen.1.2
      · exact canonA_of_spelled a4 _ _ w4 (hsp.infix (e :: bg :: (nm.toks ++ (toksA a2 ++ toksA a3))) _
          (vb ++ e5) (by simp [toks])) hen.2
      · rw [hfl, hen.1.1.1]
theorem canonS_of_spelled : ∀ (es : List Elem) (skip : List Str) (m : Mode) (ctx : Ctx) (nx : List Tok),
    WFs skip m ctx nx es = true → Spelled (toksS es) → envNamesPlainS es = true → canonS es = true
  | [], _, _, _, _, _, _, _ => by simp [canonS]
  | e :: es, skip, m, ctx, nx, hwf, hsp, hen => by
      obtain ⟨h1, _, h3, _⟩ := WFs_cons hwf
      simp only [envNamesPlainS, Bool.and_eq_true] at hen
      simp only [canonS, Bool.and_eq_true]
      exact ⟨canon_of_spelled e _ _ _ h1 (hsp.infix [] _ (toksS es) (by simp)) hen.1,
        canonS_of_spelled es _ _ _ _ h3 (hsp.infix (toks e) _ [] (by simp)) hen.2⟩
theorem canonArg_of_spelled : ∀ (a : Arg) (m : Mode) (k : GKind),
    WFarg m k a = true → Spelled (toksArg a) → envNamesPlainArg a = true → canonArg k a = true
  | .mk sp o b c, m, k, hwf, hsp, hen => by
      obtain ⟨_, ho, hc, hwb⟩ := WFarg_unfold hwf
      simp only [envNamesPlainArg] at hen
      have h1 := shaped_gbegin (hsp.1 o (by simp [toksArg])) ho
      have h2 := shaped_gend (hsp.1 c (by simp [toksArg])) hc
      simp only [canonArg, Bool.and_eq_true, beq_iff_eq]
      exact ⟨⟨h1, h2⟩, canonS_of_spelled b _ _ _ _ hwb
        (hsp.infix (sp.toList ++ [o]) _ [c] (by simp [toksArg])) hen⟩
theorem canonA_of_spelled : ∀ (as : List Arg) (m : Mode) (k : GKind),
    WFa m k as = true → Spelled (toksA as) → envNamesPlainA as = true → canonA k as = true
  | [], _, _, _, _, _ => by simp [canonA]
  | a :: as, m, k, hwf, hsp, hen => by
      obtain ⟨h1, h2⟩ := WFa_cons hwf
      simp only [envNamesPlainA, Bool.and_eq_true] at hen
      simp only [canonA, Bool.and_eq_true]
      exact ⟨canonArg_of_spelled a _ _ h1 (hsp.infix [] _ (toksA as) (by simp)) hen.1,
        canonA_of_spelled as _ _ h2 (hsp.infix (toksArg a) _ [] (by simp)) hen.2⟩
end

/-- A well-formed document with separated tokens and plainly written environment names is
canonically spelled. -/
theorem canonD_of_separated {skip : List Str} {d : Doc} (hwf : WFD skip d = true)
    (hsep : Separated none (toksD d)) (hen : envNamesPlainS d = true) : canonD d = true :=
  canonS_of_spelled d _ _ _ _ hwf (spelled_of_separated hsep) hen

/-! ### squeezing does not touch the spelling -/

mutual
theorem canon_squeeze : ∀ e : Elem, canon (squeeze e) = canon e
  | .leaf t => by simp [squeeze]
  | .group o b c => by simp [squeeze, canon, canonS_squeeze b]
  | .math k o b c => by simp [squeeze, canon, canonS_squeeze b]
  | .cmd e n a1 a2 a3 a4 => by
      simp [squeeze, canon, canonA_squeeze _ a1, canonA_squeeze _ a2, canonA_squeeze _ a3,
        canonA_squeeze _ a4]
  | .item e n a1 a2 a3 a4 b => by
      simp [squeeze, canon, canonA_squeeze _ a1, canonA_squeeze _ a2, canonA_squeeze _ a3,
        canonA_squeeze _ a4, canonS_squeeze b]
  | .env e bg nm a2 a3 a4 b e2 en nm2 => by
      simp [squeeze, canon, NameArg.squeeze, NameArg.canon, canonA_squeeze _ a2, canonA_squeeze _ a3,
        canonA_squeeze _ a4, canonS_squeeze b]
  | .venv e bg nm a2 a3 a4 vb e5 => by
      simp [squeeze, canon, NameArg.squeeze, NameArg.canon, canonA_squeeze _ a2, canonA_squeeze _ a3,
        canonA_squeeze _ a4]
theorem canonS_squeeze : ∀ es : List Elem, canonS (squeezeS es) = canonS es
  | [] => by simp
  | e :: es => by simp [canonS, canon_squeeze e, canonS_squeeze es]
theorem canonArg_squeeze (k : GKind) : ∀ a : Arg, canonArg k (squeezeArg a) = canonArg k a
  | .mk sp o b c => by simp [squeezeArg, canonArg, canonS_squeeze b]
theorem canonA_squeeze (k : GKind) : ∀ as : List Arg, canonA k (squeezeA as) = canonA k as
  | [] => by simp
  | a :: as => by simp [canonA, canonArg_squeeze k a, canonA_squeeze k as]
end

mutual
theorem envNamesPlain_squeeze : ∀ e : Elem, envNamesPlain (squeeze e) = envNamesPlain e
  | .leaf t => by simp [squeeze]
  | .group o b c => by simp [squeeze, envNamesPlain, envNamesPlainS_squeeze b]
  | .math k o b c => by simp [squeeze, envNamesPlain, envNamesPlainS_squeeze b]
  | .cmd e n a1 a2 a3 a4 => by
      simp [squeeze, envNamesPlain, envNamesPlainA_squeeze a1, envNamesPlainA_squeeze a2,
        envNamesPlainA_squeeze a3, envNamesPlainA_squeeze a4]
  | .item e n a1 a2 a3 a4 b => by
      simp [squeeze, envNamesPlain, envNamesPlainA_squeeze a1, envNamesPlainA_squeeze a2,
        envNamesPlainA_squeeze a3, envNamesPlainA_squeeze a4, envNamesPlainS_squeeze b]
  | .env e bg nm a2 a3 a4 b e2 en nm2 => by
      simp [squeeze, envNamesPlain, NameArg.squeeze, envNamesPlainA_squeeze a2,
        envNamesPlainA_squeeze a3, envNamesPlainA_squeeze a4, envNamesPlainS_squeeze b]
  | .venv e bg nm a2 a3 a4 vb e5 => by
      simp [squeeze, envNamesPlain, NameArg.squeeze, envNamesPlainA_squeeze a2,
        envNamesPlainA_squeeze a3, envNamesPlainA_squeeze a4]
theorem envNamesPlainS_squeeze : ∀ es : List Elem, envNamesPlainS (squeezeS es) = envNamesPlainS es
  | [] => by simp
  | e :: es => by simp [envNamesPlainS, envNamesPlain_squeeze e, envNamesPlainS_squeeze es]
theorem envNamesPlainArg_squeeze : ∀ a : Arg, envNamesPlainArg (squeezeArg a) = envNamesPlainArg a
  | .mk sp o b c => by simp [squeezeArg, envNamesPlainArg, envNamesPlainS_squeeze b]
theorem envNamesPlainA_squeeze : ∀ as : List Arg, envNamesPlainA (squeezeA as) = envNamesPlainA as
  | [] => by simp
  | a :: as => by simp [envNamesPlainA, envNamesPlainArg_squeeze a, envNamesPlainA_squeeze as]
end

/-- The same from the squeezed token list alone. -/
theorem canonD_of_separated_squeeze {skip : List Str} {d : Doc} (hwf : WFD skip d = true)
    (hsep : Separated none (toksD (squeezeD d))) (hen : envNamesPlainS d = true) : canonD d = true := by
  have h := canonD_of_separated (WFD_squeeze skip d hwf) hsep
    (by rw [squeezeD, envNamesPlainS_squeeze]; exact hen)
  unfold canonD squeezeD at h
  rw [canonS_squeeze] at h
  exact h

end TexSoup.Gram
