import TexSoupProofs.Complete.Canon
import TexSoupProofs.TokLemmas.SqueezeSep
/-!
# The squeezed document is again a tokenizer output

The token list of `squeezeD d` is obtained from that of `d` by dropping spacers that stand
between a name token or the closer of the previous argument and an opener (`sdropS`); with
`SDrop.separated` this gives `separated_squeeze`: if the tokens of a well-formed document are a
tokenizer output and no command name is a bare sizing prefix, the squeezed tokens are a
tokenizer output, too.
-/
namespace TexSoup.Gram
open TexSoup

/-- The token after a backslash is a `CommandName` or a `PunctuationCommandName`. -/
theorem name_cat_after_escape {prev : Option Ch} {esc n : Tok} {r : List Tok}
    (h : Separated prev (esc :: n :: r)) (hc : esc.cat = .Escape) :
    n.cat = .CommandName ∨ n.cat = .PunctuationCommandName := by
  obtain ⟨_, hesc, hrest⟩ := h
  obtain ⟨hne, hn, _⟩ := hrest
  unfold TokOK at hesc hn
  rw [hc] at hesc
  simp only [TokOK'] at hesc
  obtain ⟨c0, ht, h0, h1⟩ := txtOne_iff.1 hesc
  rw [ht] at hn
  have hpe : prevEsc (lastD [c0] prev) = true := by simp [lastD, prevEsc, h0]
  obtain ⟨c1, body, hnt⟩ : ∃ c1 body, n.text = c1 :: body := by
    cases hx : n.text with
    | nil => exact absurd hx hne
    | cons c1 body => exact ⟨c1, body, rfl⟩
  have hh := h1 c1 (by simp [flat, hnt])
  have hesc1 : isEscapable (catOf c1) = false := hh.1
  have hasym : asymSwitch (catOf c1) = none := hh.2
  rw [hnt] at hn
  cases hcat : n.cat <;> rw [hcat] at hn <;> simp only [TokOK'] at hn
  case CommandName => exact .inl rfl
  case PunctuationCommandName => exact .inr rfl
  case Escape =>
    obtain ⟨c, ht', hc', _⟩ := txtOne_iff.1 hn
    cases ht'; rw [hc'] at hesc1; cases hesc1
  case GroupBegin =>
    obtain ⟨c, ht', hc'⟩ := txtOne_iff.1 hn
    cases ht'; rw [hc'] at hesc1; cases hesc1
  case GroupEnd =>
    obtain ⟨c, ht', hc'⟩ := txtOne_iff.1 hn
    cases ht'; rw [hc'] at hesc1; cases hesc1
  case BracketBegin =>
    obtain ⟨c, ht', hc'⟩ := txtOne_iff.1 hn
    cases ht'; rw [hc'] at hasym; cases hasym
  case BracketEnd =>
    obtain ⟨c, ht', hc'⟩ := txtOne_iff.1 hn
    cases ht'; rw [hc'] at hasym; cases hasym
  case MathSwitch =>
    obtain ⟨c, ht', hc', _⟩ := txtOne_iff.1 hn
    cases ht'; rw [hc'] at hesc1; cases hesc1
  case DisplayMathSwitch =>
    obtain ⟨a, b, ht', ha, _⟩ := txtTwo_iff.1 hn
    cases ht'; rw [ha] at hesc1; cases hesc1
  case EscapedComment =>
    obtain ⟨a, b, ht', ha, _⟩ := txtTwo_iff.1 hn
    cases ht'; rw [ha] at hesc1; cases hesc1
  case MathGroupBegin =>
    obtain ⟨a, b, ht', ha, _⟩ := txtTwo_iff.1 hn
    cases ht'; rw [ha] at hesc1; cases hesc1
  case MathGroupEnd =>
    obtain ⟨a, b, ht', ha, _⟩ := txtTwo_iff.1 hn
    cases ht'; rw [ha] at hesc1; cases hesc1
  case DisplayMathGroupBegin =>
    obtain ⟨a, b, ht', ha, _⟩ := txtTwo_iff.1 hn
    cases ht'; rw [ha] at hesc1; cases hesc1
  case DisplayMathGroupEnd =>
    obtain ⟨a, b, ht', ha, _⟩ := txtTwo_iff.1 hn
    cases ht'; rw [ha] at hesc1; cases hesc1
  case Comment =>
    obtain ⟨a, b, ht', ha, _⟩ := txtMany_iff.1 hn
    cases ht'; rw [ha] at hesc1; cases hesc1
  case MergedSpacer =>
    exfalso
    obtain ⟨_, hrun, _⟩ := hn
    have : spacerRun (c1 :: (body ++ flat r)) = 0 :=
      spacerRun_zero c1 _ (by intro hx; rw [hx] at hesc1; cases hesc1)
        (by intro hx; rw [hx] at hesc1; cases hesc1)
    simp only [List.cons_append] at hrun
    rw [this] at hrun
    simp at hrun
  case Text =>
    exfalso
    obtain ⟨hm, _, _, _⟩ := hn
    obtain ⟨a, b, ht', hi, hl⟩ := txtMany_iff.1 hm
    cases ht'
    exact hl hpe (letter_of_leftover hesc1 hasym hi)

/-- Everywhere in the list, the token after a backslash is a name token. -/
def NameCats (ts : List Tok) : Prop :=
  ∀ pre esc n r, ts = pre ++ esc :: n :: r → esc.cat = .Escape →
    n.cat = .CommandName ∨ n.cat = .PunctuationCommandName

theorem nameCats_of_separated {prev : Option Ch} {ts : List Tok} (h : Separated prev ts) : NameCats ts := by
  intro pre esc n r he hc
  rw [he] at h
  exact name_cat_after_escape h.suffix hc

theorem NameCats.infix {ts : List Tok} (h : NameCats ts) (A l B : List Tok) (he : ts = A ++ (l ++ B)) :
    NameCats l := by
  subst he
  intro pre esc n r hl hc
  exact h (A ++ pre) esc n (r ++ B) (by rw [hl]; simp) hc

/-- the token in front of an argument: a name, or the closer of the previous argument -/
def ArgPrev (pt : Option Tok) : Prop := ∃ n, pt = some n ∧ beforeDropOK n

theorem lastTokD_toksS_snoc (b : List Elem) (c : Tok) (d : Option Tok) :
    lastTokD (toksS b ++ [c]) d = some c := by
  rw [lastTokD_append]; rfl

mutual
theorem sdrop : ∀ (e : Elem) (skip : List Str) (m : Mode) (nx : List Tok) (pt : Option Tok),
    WF skip m nx e = true → NameCats (toks e) → SDrop pt (toks e) (toks (squeeze e))
  | .leaf t, _, _, _, pt, _, _ => by simp only [squeeze, toks]; exact SDrop.refl _ _
  | .group o b c, skip, m, nx, pt, hwf, hnc => by
      simp only [WF, Bool.and_eq_true] at hwf
      simp only [squeeze, toks]
      exact .keep pt o ((sdropS b _ _ _ _ _ hwf.2 (hnc.infix [o] _ [c] (by simp [toks]))).append
        (SDrop.refl _ _))
  | .math k o b c, skip, m, nx, pt, hwf, hnc => by
      simp only [WF, Bool.and_eq_true] at hwf
      simp only [squeeze, toks]
      exact .keep pt o ((sdropS b _ _ _ _ _ hwf.2 (hnc.infix [o] _ [c] (by simp [toks]))).append
        (SDrop.refl _ _))
  | .cmd e n a1 a2 a3 a4, skip, m, nx, pt, hwf, hnc => by
      simp only [WF, Bool.and_eq_true, beq_iff_eq] at hwf
      obtain ⟨⟨⟨⟨⟨⟨⟨hesc, _⟩, _⟩, w1⟩, w2⟩, w3⟩, w4⟩, _⟩ := hwf
      have hn : ArgPrev (some n) :=
        ⟨n, rfl, .inr (.inr (hnc [] e n _ (by simp [toks]; rfl) hesc))⟩
      have p1 := argPrev_toksA a1 _ _ _ w1 hn
      have p2 := argPrev_toksA a2 _ _ _ w2 p1
      have p3 := argPrev_toksA a3 _ _ _ w3 p2
      simp only [squeeze, toks]
      refine .keep pt e (.keep _ n ?_)
      refine (sdropA a1 _ _ _ w1 (hnc.infix [e, n] _ (toksA a2 ++ (toksA a3 ++ toksA a4)) (by simp [toks])) hn).append ?_
      refine (sdropA a2 _ _ _ w2 (hnc.infix (e :: n :: toksA a1) _ (toksA a3 ++ toksA a4) (by simp [toks])) p1).append ?_
      refine (sdropA a3 _ _ _ w3 (hnc.infix (e :: n :: (toksA a1 ++ toksA a2)) _ (toksA a4) (by simp [toks])) p2).append ?_
      exact sdropA a4 _ _ _ w4 (hnc.infix (e :: n :: (toksA a1 ++ (toksA a2 ++ toksA a3))) _ [] (by simp [toks])) p3
  | .item e n a1 a2 a3 a4 b, skip, m, nx, pt, hwf, hnc => by
      simp only [WF, Bool.and_eq_true, beq_iff_eq] at hwf
      obtain ⟨⟨⟨⟨⟨⟨⟨⟨⟨hesc, _⟩, _⟩, w1⟩, w2⟩, w3⟩, w4⟩, _⟩, hwb⟩, _⟩ := hwf
      have hn : ArgPrev (some n) :=
        ⟨n, rfl, .inr (.inr (hnc [] e n _ (by simp [toks]; rfl) hesc))⟩
      have p1 := argPrev_toksA a1 _ _ _ w1 hn
      have p2 := argPrev_toksA a2 _ _ _ w2 p1
      have p3 := argPrev_toksA a3 _ _ _ w3 p2
      simp only [squeeze, toks]
      refine .keep pt e (.keep _ n ?_)
      refine (sdropA a1 _ _ _ w1 (hnc.infix [e, n] _ (toksA a2 ++ (toksA a3 ++ (toksA a4 ++ toksS b))) (by simp [toks])) hn).append ?_
      refine (sdropA a2 _ _ _ w2 (hnc.infix (e :: n :: toksA a1) _ (toksA a3 ++ (toksA a4 ++ toksS b)) (by simp [toks])) p1).append ?_
      refine (sdropA a3 _ _ _ w3 (hnc.infix (e :: n :: (toksA a1 ++ toksA a2)) _ (toksA a4 ++ toksS b) (by simp [toks])) p2).append ?_
      refine (sdropA a4 _ _ _ w4 (hnc.infix (e :: n :: (toksA a1 ++ (toksA a2 ++ toksA a3))) _ (toksS b) (by simp [toks])) p3).append ?_
      exact sdropS b _ _ _ _ _ hwb (hnc.infix (e :: n :: (toksA a1 ++ (toksA a2 ++ (toksA a3 ++ toksA a4)))) _ [] (by simp [toks]))
  | .env e bg nm a2 a3 a4 b e2 en nm2, skip, m, nx, pt, hwf, hnc => by
      simp only [WF, Bool.and_eq_true, beq_iff_eq] at hwf
      obtain ⟨⟨⟨⟨⟨⟨⟨⟨⟨⟨⟨⟨⟨hesc, _⟩, _⟩, hnm⟩, w2⟩, w3⟩, w4⟩, _⟩, _⟩, hwb⟩, hesc2⟩, _⟩, hnm2⟩, _⟩ := hwf
      have hbg : ArgPrev (some bg) :=
        ⟨bg, rfl, .inr (.inr (hnc [] e bg _ (by simp [toks]; rfl) hesc))⟩
      have hen : ArgPrev (some en) :=
        ⟨en, rfl, .inr (.inr (hnc (e :: bg :: (nm.toks ++ (toksA a2 ++ (toksA a3 ++ (toksA a4 ++ toksS b)))))
          e2 en nm2.toks (by simp [toks]) hesc2))⟩
      have p1 := argPrev_nameArg nm hnm hbg
      have p2 := argPrev_toksA a2 _ _ _ w2 p1
      have p3 := argPrev_toksA a3 _ _ _ w3 p2
      simp only [squeeze, toks]
      refine .keep pt e (.keep _ bg ?_)
      refine (sdrop_nameArg nm hnm hbg).append ?_
      refine (sdropA a2 _ _ _ w2 (hnc.infix (e :: bg :: nm.toks) _ (toksA a3 ++ (toksA a4 ++ (toksS b ++ e2 :: en :: nm2.toks))) (by simp [toks])) p1).append ?_
      refine (sdropA a3 _ _ _ w3 (hnc.infix (e :: bg :: (nm.toks ++ toksA a2)) _ (toksA a4 ++ (toksS b ++ e2 :: en :: nm2.toks)) (by simp [toks])) p2).append ?_
      refine (sdropA a4 _ _ _ w4 (hnc.infix (e :: bg :: (nm.toks ++ (toksA a2 ++ toksA a3))) _ (toksS b ++ e2 :: en :: nm2.toks) (by simp [toks])) p3).append ?_
      refine (sdropS b _ _ _ _ _ hwb (hnc.infix (e :: bg :: (nm.toks ++ (toksA a2 ++ (toksA a3 ++ toksA a4)))) _ (e2 :: en :: nm2.toks) (by simp [toks]))).append ?_
      exact .keep _ e2 (.keep _ en (sdrop_nameArg nm2 hnm2 hen))
  | .venv e bg nm a2 a3 a4 vb e5, skip, m, nx, pt, hwf, hnc => by
      simp only [WF, Bool.and_eq_true, beq_iff_eq] at hwf
      obtain ⟨⟨⟨⟨⟨⟨⟨⟨⟨⟨⟨hesc, _⟩, _⟩, hnm⟩, w2⟩, w3⟩, w4⟩, _⟩, _⟩, _⟩, _⟩, _⟩ := hwf
      have hbg : ArgPrev (some bg) :=
        ⟨bg, rfl, .inr (.inr (hnc [] e bg _ (by simp [toks]; rfl) hesc))⟩
      have p1 := argPrev_nameArg nm hnm hbg
      have p2 := argPrev_toksA a2 _ _ _ w2 p1
      have p3 := argPrev_toksA a3 _ _ _ w3 p2
      simp only [squeeze, toks]
      refine .keep pt e (.keep _ bg ?_)
      refine (sdrop_nameArg nm hnm hbg).append ?_
      refine (sdropA a2 _ _ _ w2 (hnc.infix (e :: bg :: nm.toks) _ (toksA a3 ++ (toksA a4 ++ (vb ++ e5))) (by simp [toks])) p1).append ?_
      refine (sdropA a3 _ _ _ w3 (hnc.infix (e :: bg :: (nm.toks ++ toksA a2)) _ (toksA a4 ++ (vb ++ e5)) (by simp [toks])) p2).append ?_
      refine (sdropA a4 _ _ _ w4 (hnc.infix (e :: bg :: (nm.toks ++ (toksA a2 ++ toksA a3))) _ (vb ++ e5) (by simp [toks])) p3).append ?_
      exact SDrop.refl _ _
theorem sdropS : ∀ (es : List Elem) (skip : List Str) (m : Mode) (ctx : Ctx) (nx : List Tok) (pt : Option Tok),
    WFs skip m ctx nx es = true → NameCats (toksS es) → SDrop pt (toksS es) (toksS (squeezeS es))
  | [], _, _, _, _, pt, _, _ => by simp; exact .nil pt
  | e :: es, skip, m, ctx, nx, pt, hwf, hnc => by
      obtain ⟨h1, _, h3, _⟩ := WFs_cons hwf
      simp only [squeezeS_cons, toksS_cons]
      exact (sdrop e _ _ _ pt h1 (hnc.infix [] _ (toksS es) (by simp))).append
        (sdropS es _ _ _ _ _ h3 (hnc.infix (toks e) _ [] (by simp)))
theorem sdropArg : ∀ (a : Arg) (m : Mode) (k : GKind) (pt : Option Tok),
    WFarg m k a = true → NameCats (toksArg a) → ArgPrev pt → SDrop pt (toksArg a) (toksArg (squeezeArg a))
  | .mk sp o b c, m, k, pt, hwf, hnc, hp => by
      obtain ⟨hsp, ho, _, hwb⟩ := WFarg_unfold hwf
      have hop : isOpenerTok o := by cases k <;> simp [GKind.tokBegin] at ho <;> simp [isOpenerTok, ho]
      have hbody : SDrop (some o) (toksS b ++ [c]) (toksS (squeezeS b) ++ [c]) :=
        (sdropS b _ _ _ _ _ hwb (hnc.infix (sp.toList ++ [o]) _ [c] (by simp [toksArg]))).append
          (SDrop.refl _ _)
      simp only [squeezeArg, toksArg]
      cases sp with
      | none => exact .keep pt o hbody
      | some s =>
        obtain ⟨n, rfl, hn⟩ := hp
        simp only [spOK, beq_iff_eq] at hsp
        exact .drop n s o hsp hop hn hbody
theorem sdropA : ∀ (as : List Arg) (m : Mode) (k : GKind) (pt : Option Tok),
    WFa m k as = true → NameCats (toksA as) → ArgPrev pt → SDrop pt (toksA as) (toksA (squeezeA as))
  | [], _, _, pt, _, _, _ => by simp; exact .nil pt
  | a :: as, m, k, pt, hwf, hnc, hp => by
      obtain ⟨h1, h2⟩ := WFa_cons hwf
      simp only [squeezeA_cons, toksA_cons]
      exact (sdropArg a _ _ pt h1 (hnc.infix [] _ (toksA as) (by simp)) hp).append
        (sdropA as _ _ _ h2 (hnc.infix (toksArg a) _ [] (by simp)) (argPrev_toksArg a _ _ _ h1))
theorem argPrev_toksArg : ∀ (a : Arg) (m : Mode) (k : GKind) (pt : Option Tok),
    WFarg m k a = true → ArgPrev (lastTokD (toksArg a) pt)
  | .mk sp o b c, m, k, pt, hwf => by
      obtain ⟨_, _, hc, _⟩ := WFarg_unfold hwf
      simp only [toksArg]
      rw [lastTokD_append]
      show ArgPrev (lastTokD (toksS b ++ [c]) _)
      rw [lastTokD_toksS_snoc]
      exact ⟨c, rfl, by cases k <;> simp [GKind.tokEnd] at hc <;> simp [beforeDropOK, hc]⟩
theorem argPrev_toksA : ∀ (as : List Arg) (m : Mode) (k : GKind) (pt : Option Tok),
    WFa m k as = true → ArgPrev pt → ArgPrev (lastTokD (toksA as) pt)
  | [], _, _, pt, _, hp => by simpa [lastTokD] using hp
  | a :: as, m, k, pt, hwf, _ => by
      obtain ⟨h1, h2⟩ := WFa_cons hwf
      simp only [toksA_cons]
      rw [lastTokD_append]
      exact argPrev_toksA as _ _ _ h2 (argPrev_toksArg a _ _ pt h1)
theorem sdrop_nameArg : ∀ (n : NameArg) {pt : Option Tok}, n.ok = true → ArgPrev pt →
    SDrop pt n.toks n.squeeze.toks
  | ⟨sp, o, nt, c⟩, pt, hok, hp => by
      simp only [NameArg.ok, Bool.and_eq_true, beq_iff_eq] at hok
      have hop : isOpenerTok o := .inl hok.1.1.1.2
      simp only [NameArg.toks, NameArg.squeeze]
      cases sp with
      | none => exact SDrop.refl _ _
      | some s =>
        obtain ⟨n, rfl, hn⟩ := hp
        have hs : s.cat = .MergedSpacer := by simpa [spOK] using hok.1.1.1.1
        exact .drop n s o hs hop hn (SDrop.refl _ _)
theorem argPrev_nameArg : ∀ (n : NameArg) {pt : Option Tok}, n.ok = true → ArgPrev pt →
    ArgPrev (lastTokD n.toks pt)
  | ⟨sp, o, nt, c⟩, pt, hok, _ => by
      simp only [NameArg.ok, Bool.and_eq_true, beq_iff_eq] at hok
      simp only [NameArg.toks]
      rw [lastTokD_append]
      exact ⟨c, rfl, .inl hok.1.1.2⟩
end

/-- **The squeezed document is a tokenizer output** if the original is and no command name is a
bare sizing prefix (`\left`, `\right`, `\big`, `\Big`, `\bigg`, `\Bigg`: immediately followed by
its delimiter such a prefix is part of one sizing-command token and not a command name). -/
theorem separated_squeeze {skip : List Str} {d : Doc} (hwf : WFD skip d = true)
    (hsep : Separated none (toksD d))
    (hns : ∀ t ∈ toksD d, t.cat = .CommandName → t.text ∉ Tables.sizePrefix) :
    Separated none (toksD (squeezeD d)) :=
  (sdropS d _ _ _ _ none hwf (nameCats_of_separated hsep)).separated hns none hsep

end TexSoup.Gram
