import TexSoupProofs.Complete.Args
/-!
# Completeness, part 4: `read_args` takes exactly the argument run that `runOK` describes
-/
namespace TexSoup.Gram
open TexSoup

theorem readArgs_phases {g : Nat} {nreq nopt : Int} {tol : Bool} {m : Mode}
    {T0 T1 T2 T3 T4 : List Tok} {A1 A2 A3 A4 : List Expr} {c1 c2 c3 c4 : Int}
    (h0 : (nreq == 0 && nopt == 0) = false)
    (h1 : readArgOpt g nopt tol m T0 = .ok ((A1, c1), T1))
    (h2 : readArgReq g nreq tol m T1 = .ok ((A2, c2), T2))
    (h3 : (if nextIs .BracketBegin T2 = true then readArgOpt g c1 tol m T2
      else .ok (([], c1), T2)) = .ok ((A3, c3), T3))
    (h4 : (if nextIs .GroupBegin T3 = true then readArgReq g c2 tol m T3
      else .ok (([], c2), T3)) = .ok ((A4, c4), T4)) :
    readArgs (g + 1) nreq nopt tol m T0 = .ok (A1 ++ (A2 ++ (A3 ++ A4)), T4) := by
  unfold readArgs
  rw [h0]
  simp only [Bool.false_eq_true, if_false]
  rw [h1]; simp only [Res.bind_ok]
  rw [h2]; simp only [Res.bind_ok]
  rw [h3]; simp only [Res.bind_ok]
  rw [h4]; simp only [Res.bind_ok]

/-- What `runOK` says for an open signature, phase by phase. -/
theorem open_facts {m : Mode} {sg : Int × Int} {a1 a2 a3 a4 : List Arg} {rest : List Tok}
    (hneg : sg.1 < 0 ∧ sg.2 < 0) (h : runOK sg a1 a2 a3 a4 rest = true)
    (w2 : WFa m .brace a2 = true) (w3 : WFa m .bracket a3 = true) (w4 : WFa m .brace a4 = true) :
    (hdCat (afterSp (toksA a2 ++ (toksA a3 ++ (toksA a4 ++ rest)))) != some .BracketBegin) = true
    ∧ (hdCat (afterSp (toksA a3 ++ (toksA a4 ++ rest))) != some .GroupBegin) = true
    ∧ tight a3 = true ∧ tight a4 = true
    ∧ (a3 = [] → nextIs .BracketBegin (toksA a4 ++ rest) = false)
    ∧ (a3 ≠ [] → (hdCat (afterSp (toksA a4 ++ rest)) != some .BracketBegin) = true)
    ∧ (a4 = [] → nextIs .GroupBegin rest = false)
    ∧ (a4 ≠ [] → (hdCat (afterSp rest) != some .GroupBegin) = true) := by
  unfold runOK at h
  rw [if_pos (by simp [hneg.1, hneg.2])] at h
  simp only [Bool.and_eq_true] at h
  obtain ⟨⟨ht3, ht4⟩, hm⟩ := h
  cases a2 with
  | nil =>
    cases a3 with
    | nil =>
      cases a4 with
      | nil =>
        simp only [Bool.and_eq_true] at hm
        refine ⟨by simpa using hm.1, by simpa using hm.2, ht3, ht4, fun _ => ?_, fun h => absurd rfl h,
          fun _ => nextIs_false_of_afterSp (by decide) hm.2, fun h => absurd rfl h⟩
        simpa using nextIs_false_of_afterSp (by decide) hm.1
      | cons d ds => simp at hm
    | cons c cs => cases a4 <;> simp at hm
  | cons b bs =>
    have f1 : ∀ Y, (hdCat (afterSp (toksA (b :: bs) ++ Y)) != some TC.BracketBegin) = true := by
      intro Y; rw [hdCat_afterSp_run Y w2]; decide
    cases a3 with
    | nil =>
      cases a4 with
      | nil =>
        simp only [Bool.and_eq_true] at hm
        refine ⟨f1 _, by simpa using hm.2, ht3, ht4, fun _ => ?_, fun h => absurd rfl h,
          fun _ => nextIs_false_of_afterSp (by decide) hm.2, fun h => absurd rfl h⟩
        simpa using nextIs_false_of_hdCat hm.1
      | cons d ds => simp at hm
    | cons c cs =>
      have f2 : ∀ Y, (hdCat (afterSp (toksA (c :: cs) ++ Y)) != some TC.GroupBegin) = true := by
        intro Y; rw [hdCat_afterSp_run Y w3]; decide
      cases a4 with
      | nil =>
        simp only [Bool.and_eq_true] at hm
        refine ⟨f1 _, f2 _, ht3, ht4, fun h => absurd h (List.cons_ne_nil _ _), fun _ => by simpa using hm.1,
          fun _ => nextIs_false_of_hdCat hm.2, fun h => absurd rfl h⟩
      | cons d ds =>
        refine ⟨f1 _, f2 _, ht3, ht4, fun h => absurd h (List.cons_ne_nil _ _), fun _ => ?_,
          fun h => absurd h (List.cons_ne_nil _ _), fun _ => hm⟩
        rw [hdCat_afterSp_run rest w4]; decide

/-- `read_args` on a run that is `runOK` for the signature: every group becomes an argument,
in order, and the tokens after the run are left alone. -/
theorem readArgs_run (tol : Bool) (m : Mode) (sg : Int × Int) (a1 a2 a3 a4 : List Arg)
    (k1 : ArgsOK a1) (k2 : ArgsOK a2) (k3 : ArgsOK a3) (k4 : ArgsOK a4)
    (w1 : WFa m .bracket a1 = true) (w2 : WFa m .brace a2 = true)
    (w3 : WFa m .bracket a3 = true) (w4 : WFa m .brace a4 = true)
    (rest : List Tok) (hrun : runOK sg a1 a2 a3 a4 rest = true) (f : Nat)
    (hf : 3 * (toksA a1 ++ (toksA a2 ++ (toksA a3 ++ (toksA a4 ++ rest)))).length + 2 ≤ f) :
    readArgs f sg.1 sg.2 tol m (toksA a1 ++ (toksA a2 ++ (toksA a3 ++ (toksA a4 ++ rest)))) =
      .ok (treesA .bracket a1 ++ (treesA .brace a2 ++ (treesA .bracket a3 ++ treesA .brace a4)), rest) := by
  obtain ⟨g, rfl⟩ := succ_of_le (Nat.le_trans (by omega : 0 + 1 ≤ _) hf)
  simp only [List.length_append] at hf
  by_cases hneg : sg.1 < 0 ∧ sg.2 < 0
  · -- open signature
    obtain ⟨f1, f2, ht3, ht4, n3, c3, n4, c4⟩ := open_facts hneg hrun w2 w3 w4
    refine readArgs_phases (by simp; omega)
      (readArgOpt_run tol m a1 k1 w1 sg.2 _ g (.inl hneg.2) (.inr f1)
        (by simp only [List.length_append]; omega))
      (readArgReq_run tol m a2 k2 w2 sg.1 _ g (.inl hneg.1) (.inr ⟨by omega, f2⟩)
        (by simp only [List.length_append]; omega))
      (phaseOpt tol m a3 k3 w3 (sg.2 - a1.length) _ g (.inl (by omega)) (fun h => .inr (n3 h))
        (fun h => ⟨ht3, .inr (c3 h)⟩) (by simp only [List.length_append]; omega))
      (phaseReq tol m a4 k4 w4 (sg.1 - a2.length) _ g (.inl (by omega)) (fun h => .inr (n4 h))
        (fun h => ⟨ht4, .inr ⟨by omega, c4 h⟩⟩) (by simp only [List.length_append]; omega))
  · -- fixed signature
    unfold runOK at hrun
    rw [if_neg (by simpa using hneg)] at hrun
    by_cases hpos : 0 ≤ sg.1 ∧ 0 ≤ sg.2
    · rw [if_pos (by simp [hpos.1, hpos.2])] at hrun
      simp only [Bool.and_eq_true, Bool.or_eq_true, decide_eq_true_eq, List.isEmpty_iff,
        Bool.not_eq_true', List.isEmpty_eq_false_iff] at hrun
      obtain ⟨⟨⟨⟨⟨h4, ht3⟩, h32⟩, hl1⟩, hl2⟩, hfol⟩ := hrun
      subst h4
      simp only [toksA_nil, treesA_nil, List.nil_append, List.append_nil, List.length_nil,
        Nat.zero_add] at hf ⊢
      by_cases hz : (sg.1 == 0 && sg.2 == 0) = true
      · -- no arguments at all: `read_args` returns at once
        simp only [Bool.and_eq_true, beq_iff_eq] at hz
        have e1 : a1 = [] := List.eq_nil_of_length_eq_zero (by omega)
        have e2 : a2 = [] := List.eq_nil_of_length_eq_zero (by omega)
        have e3 : a3 = [] := List.eq_nil_of_length_eq_zero (by omega)
        subst e1 e2 e3
        simp only [toksA_nil, treesA_nil, List.nil_append]
        unfold readArgs
        rw [if_pos (by simp [hz.1, hz.2])]
      · have e : treesA GKind.bracket a1 ++ (treesA GKind.brace a2 ++ treesA GKind.bracket a3) =
            treesA GKind.bracket a1 ++ (treesA GKind.brace a2 ++ (treesA GKind.bracket a3 ++ [])) := by simp
        rw [e]
        have hstop1 : sg.2 - (a1.length : Int) = 0 ∨
            (hdCat (afterSp (toksA a2 ++ (toksA a3 ++ rest))) != some TC.BracketBegin) = true := by
          cases a2 with
          | cons b bs => right; rw [hdCat_afterSp_run _ w2]; decide
          | nil =>
            have e3 : a3 = [] := by
              rcases h32 with h | h
              · exact h
              · exact absurd rfl h
            subst e3
            simp only [toksA_nil, List.nil_append]
            rcases hfol with h | h
            · left; simp only [List.length_nil] at h; omega
            · right
              simp only [List.isEmpty_nil, if_true, Bool.and_eq_true, Bool.or_eq_true,
                Bool.not_eq_true'] at h
              rcases h.2 with h' | h'
              · cases h'
              · exact h'
        refine readArgs_phases (by simpa using hz)
          (readArgOpt_run tol m a1 k1 w1 sg.2 _ g (.inr (by omega)) hstop1
            (by simp only [List.length_append]; omega))
          (readArgReq_run tol m a2 k2 w2 sg.1 _ g (.inr (by omega)) (.inl (by omega))
            (by simp only [List.length_append]; omega))
          (phaseOpt tol m a3 k3 w3 (sg.2 - a1.length) rest g (.inr (by omega))
            (fun h3 => by
              subst h3
              rcases hfol with h | h
              · left; simp only [List.length_nil] at h; omega
              · right
                simp only [if_true, Bool.and_eq_true] at h
                exact nextIs_false_of_hdCat h.1)
            (fun h3 => ⟨ht3, by
              rcases hfol with h | h
              · left; omega
              · right
                cases a3 with
                | nil => exact absurd rfl h3
                | cons c cs => simpa using h⟩)
            (by simp only [List.length_append]; omega))
          (T4 := rest) (c4 := sg.1 - a2.length) ?_
        have := phaseReq tol m [] (by intro a ha; cases ha) (by simp [WFa]) (sg.1 - a2.length) rest g
          (by simp; omega) (fun _ => .inl (by omega)) (fun h => absurd rfl h) (by simp; omega)
        simpa using this
    · rw [if_neg (by simpa using hpos)] at hrun
      cases hrun

end TexSoup.Gram
