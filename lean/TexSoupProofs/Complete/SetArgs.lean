import TexSoupProofs.Complete.SetStrTree
/-!
# The tree of a re-argumented document

`setArgs r` gives the selected commands / environments the argument run
`[args[i] for i in i1 ++ i2 ++ i3 ++ i4]` (brackets, braces, brackets, braces), provided the picked
groups have these kinds. Its tree is `mapSel (argSel …) (argTop (i1 ++ i2 ++ i3 ++ i4))` of the
tree of the document (`treeD_setArgs`): the same node with exactly that argument list, the
argument groups themselves – contents and positions – untouched. Environment names stay plain
(`envNamesPlainS_setArgs`).

Whether the new run is read back as one run depends on the signature of the name and on the
tokens that follow (`Gram.runOK`); this is the well-formedness of the re-argumented document,
which the property theorem takes as a (decidable) hypothesis.
-/
namespace TexSoup.Gram
open TexSoup

@[simp] theorem setArgsS_nil (r : SetA) : setArgsS r [] = [] := by simp [setArgsS]
@[simp] theorem setArgsS_cons (r : SetA) (e : Elem) (es : List Elem) :
    setArgsS r (e :: es) = setArgs r e :: setArgsS r es := by simp [setArgsS]
@[simp] theorem setArgsA_nil (r : SetA) : setArgsA r [] = [] := by simp [setArgsA]
@[simp] theorem setArgsA_cons (r : SetA) (a : Arg) (as : List Arg) :
    setArgsA r (a :: as) = setArgsArg r a :: setArgsA r as := by simp [setArgsA]

/-! ### picking -/

theorem pick_map {α β : Type} (f : α → β) (idx : List Nat) (l : List α) :
    pick idx (l.map f) = (pick idx l).map f := by
  induction idx with
  | nil => rfl
  | cons i is ih =>
    simp only [pick, List.filterMap_cons, List.getElem?_map] at ih ⊢
    cases h : l[i]? with
    | none => simpa using ih
    | some x => simpa using ih

theorem pick_append {α : Type} (i j : List Nat) (l : List α) : pick (i ++ j) l = pick i l ++ pick j l := by
  simp [pick, List.filterMap_append]

theorem mem_of_mem_pick {α : Type} {idx : List Nat} {l : List α} {x : α} (h : x ∈ pick idx l) : x ∈ l := by
  simp only [pick, List.mem_filterMap] at h
  obtain ⟨i, _, hi⟩ := h
  exact List.mem_of_getElem? hi

/-- the tree of a group with its kind -/
def treeTA (x : TA) : Expr := treeArg x.1 x.2

theorem treesA_tag (k : GKind) : ∀ as : List Arg, treesA k as = (tag k as).map treeTA
  | [] => by simp [tag]
  | a :: as => by simp [tag, treeTA, treesA_tag k as]

theorem treesA_untag (k : GKind) : ∀ l : List TA, kindsAre k l = true →
    treesA k (untag l) = l.map treeTA
  | [], _ => by simp [untag]
  | (k', .mk sp o b c) :: l, h => by
      simp only [kindsAre, List.all_cons, Bool.and_eq_true, beq_iff_eq] at h
      have ih := treesA_untag k l (by simpa [kindsAre] using h.2)
      simp only [untag] at ih
      simp [untag, treeTA, treeArg, h.1, ih]

theorem isGroupOf_treeTA (k : GKind) (x : TA) : isGroupOf k (treeTA x) = (x.1 == k) := by
  obtain ⟨k', a⟩ := x
  cases a
  simp [treeTA, treeArg, isGroupOf]

theorem all_isGroupOf (k : GKind) (idx : List Nat) (l : List TA) :
    (pick idx (l.map treeTA)).all (isGroupOf k) = kindsAre k (pick idx l) := by
  rw [pick_map]
  simp only [kindsAre, List.all_map]
  congr 1
  funext x
  exact isGroupOf_treeTA k x

theorem ofQA_pc (qc qe : Str → Int → Bool) (i1 i2 i3 i4 : List Nat) (e n : Tok) :
    (SetA.ofQ qc qe i1 i2 i3 i4).pc e n = qc n.text e.pos := rfl
theorem ofQA_pe (qc qe : Str → Int → Bool) (i1 i2 i3 i4 : List Nat) (e n : Tok) :
    (SetA.ofQ qc qe i1 i2 i3 i4).pe e n = qe n.text e.pos := rfl

theorem ofQA_i1 (qc qe : Str → Int → Bool) (i1 i2 i3 i4 : List Nat) : (SetA.ofQ qc qe i1 i2 i3 i4).i1 = i1 := rfl
theorem ofQA_i2 (qc qe : Str → Int → Bool) (i1 i2 i3 i4 : List Nat) : (SetA.ofQ qc qe i1 i2 i3 i4).i2 = i2 := rfl
theorem ofQA_i3 (qc qe : Str → Int → Bool) (i1 i2 i3 i4 : List Nat) : (SetA.ofQ qc qe i1 i2 i3 i4).i3 = i3 := rfl
theorem ofQA_i4 (qc qe : Str → Int → Bool) (i1 i2 i3 i4 : List Nat) : (SetA.ofQ qc qe i1 i2 i3 i4).i4 = i4 := rfl

theorem argSel_cmd (qc qe : Str → Int → Bool) (i1 i2 i3 i4 : List Nat) (n : Str) (a b : List Expr) (p : Int) :
    argSel qc qe i1 i2 i3 i4 (.cmd n a b p) =
      (qc n p && (pick i1 a).all (isGroupOf .bracket) && (pick i2 a).all (isGroupOf .brace)
        && (pick i3 a).all (isGroupOf .bracket) && (pick i4 a).all (isGroupOf .brace)) := rfl
theorem argSel_nenv (qc qe : Str → Int → Bool) (i1 i2 i3 i4 : List Nat) (n : Str) (a b : List Expr) (p : Int) :
    argSel qc qe i1 i2 i3 i4 (.nenv n a b p) =
      (qe n p && i1.isEmpty && (pick i2 a).all (isGroupOf .brace)
        && (pick i3 a).all (isGroupOf .bracket) && (pick i4 a).all (isGroupOf .brace)) := rfl

variable {qc qe : Str → Int → Bool} {i1 i2 i3 i4 : List Nat}

mutual
theorem tree_setArgs : ∀ (e : Elem) (skip : List Str) (m : Mode) (nx : List Tok),
    WF skip m nx e = true → cmdNamesPlain e = true → envNamesPlain e = true → SQ qc qe skip →
    tree (setArgs (SetA.ofQ qc qe i1 i2 i3 i4) e) =
      mapSel (argSel qc qe i1 i2 i3 i4) (argTop (i1 ++ (i2 ++ (i3 ++ i4)))) (tree e)
  | .leaf t, _, _, _, _, _, _, _ => by simp [setArgs, tree, mapSel, argSel]
  | .group o b c, skip, m, nx, h, hc, he, hq => by
      simp only [WF, Bool.and_eq_true] at h
      simp only [cmdNamesPlain] at hc
      simp only [envNamesPlain] at he
      simp [setArgs, tree, mapSel, argSel, trees_setArgs b _ _ _ _ h.2 hc he hq.nil]
  | .math k o b c, skip, m, nx, h, hc, he, hq => by
      simp only [WF, Bool.and_eq_true] at h
      simp only [cmdNamesPlain] at hc
      simp only [envNamesPlain] at he
      simp [setArgs, tree, mapSel, argSel, trees_setArgs b _ _ _ _ h.2 hc he hq.nil]
  | .cmd e n a1 a2 a3 a4, skip, m, nx, h, hc, he, hq => by
      simp only [WF, Bool.and_eq_true] at h
      obtain ⟨⟨⟨⟨⟨_, w1⟩, w2⟩, w3⟩, w4⟩, _⟩ := h
      simp only [cmdNamesPlain, Bool.and_eq_true, beq_iff_eq] at hc
      obtain ⟨⟨⟨⟨hn, c1⟩, c2⟩, c3⟩, c4⟩ := hc
      simp only [envNamesPlain, Bool.and_eq_true] at he
      obtain ⟨⟨⟨e1, e2⟩, e3⟩, e4⟩ := he
      have hall : treesA .bracket a1 ++ (treesA .brace a2 ++ (treesA .bracket a3 ++ treesA .brace a4)) =
          (tag .bracket a1 ++ (tag .brace a2 ++ (tag .bracket a3 ++ tag .brace a4))).map treeTA := by
        simp [treesA_tag]
      simp only [setArgs, ofQA_pc, ofQA_i1, ofQA_i2, ofQA_i3, ofQA_i4, tree]
      rw [mapSel_cmd, argSel_cmd, hn, hall, all_isGroupOf, all_isGroupOf, all_isGroupOf, all_isGroupOf]
      by_cases hsel : (qc n.text e.pos
          && kindsAre .bracket (pick i1 (tag .bracket a1 ++ (tag .brace a2 ++ (tag .bracket a3 ++ tag .brace a4))))
          && kindsAre .brace (pick i2 (tag .bracket a1 ++ (tag .brace a2 ++ (tag .bracket a3 ++ tag .brace a4))))
          && kindsAre .bracket (pick i3 (tag .bracket a1 ++ (tag .brace a2 ++ (tag .bracket a3 ++ tag .brace a4))))
          && kindsAre .brace (pick i4 (tag .bracket a1 ++ (tag .brace a2 ++ (tag .bracket a3 ++ tag .brace a4)))))
          = true
      · have hs := hsel
        simp only [Bool.and_eq_true] at hs
        obtain ⟨⟨⟨⟨_, k1⟩, k2⟩, k3⟩, k4⟩ := hs
        simp only [hsel, ↓reduceIte]
        simp only [tree, argTop, treesA_untag _ _ k1, treesA_untag _ _ k2, treesA_untag _ _ k3,
          treesA_untag _ _ k4, pick_append, pick_map, hn]
        simp only [List.map_append]
      · have hsel2 := Bool.eq_false_iff.2 hsel
        simp only [hsel2, Bool.false_eq_true, ↓reduceIte]
        simp only [tree, mapSelL_append, mapSelL_nil, ← hall, hn,
          treesA_setArgs a1 _ _ .bracket w1 c1 e1 hq, treesA_setArgs a2 _ _ .brace w2 c2 e2 hq,
          treesA_setArgs a3 _ _ .bracket w3 c3 e3 hq, treesA_setArgs a4 _ _ .brace w4 c4 e4 hq]
  | .item e n a1 a2 a3 a4 b, skip, m, nx, h, hc, he, hq => by
      simp only [WF, Bool.and_eq_true, beq_iff_eq] at h
      obtain ⟨⟨⟨⟨⟨⟨⟨⟨⟨_, hitem⟩, _⟩, w1⟩, w2⟩, w3⟩, w4⟩, _⟩, hb⟩, _⟩ := h
      simp only [cmdNamesPlain, Bool.and_eq_true, beq_iff_eq] at hc
      obtain ⟨⟨⟨⟨⟨_, c1⟩, c2⟩, c3⟩, c4⟩, cb⟩ := hc
      simp only [envNamesPlain, Bool.and_eq_true] at he
      obtain ⟨⟨⟨⟨e1, e2⟩, e3⟩, e4⟩, eb⟩ := he
      have hsel' : ∀ A B, argSel qc qe i1 i2 i3 i4 (.cmd (strip n.text) A B e.pos) = false := by
        intro A B
        rw [argSel_cmd, hitem, strip_sItem, hq.item]; simp
      simp only [setArgs, tree]
      rw [mapSel_cmd, hsel']
      simp only [Bool.false_eq_true, ↓reduceIte, mapSelL_append,
        treesA_setArgs a1 _ _ .bracket w1 c1 e1 hq, treesA_setArgs a2 _ _ .brace w2 c2 e2 hq,
        treesA_setArgs a3 _ _ .bracket w3 c3 e3 hq, treesA_setArgs a4 _ _ .brace w4 c4 e4 hq,
        trees_setArgs b _ _ _ _ hb cb eb hq.nil]
  | .env e bg nm a2 a3 a4 b e2 en nm2, skip, m, nx, h, hc, he, hq => by
      simp only [WF, Bool.and_eq_true] at h
      obtain ⟨⟨⟨⟨⟨⟨⟨⟨⟨⟨⟨_, _⟩, w2⟩, w3⟩, w4⟩, _⟩, _⟩, hb⟩, _⟩, _⟩, _⟩, _⟩ := h
      simp only [cmdNamesPlain, Bool.and_eq_true] at hc
      obtain ⟨⟨⟨c2, c3⟩, c4⟩, cb⟩ := hc
      simp only [envNamesPlain, Bool.and_eq_true, beq_iff_eq] at he
      obtain ⟨⟨⟨⟨hn, e2'⟩, e3⟩, e4⟩, eb⟩ := he
      have hall : treesA .brace a2 ++ (treesA .bracket a3 ++ treesA .brace a4) =
          (tag .brace a2 ++ (tag .bracket a3 ++ tag .brace a4)).map treeTA := by
        simp [treesA_tag]
      simp only [setArgs, ofQA_pe, ofQA_i1, ofQA_i2, ofQA_i3, ofQA_i4, tree]
      rw [mapSel_nenv, argSel_nenv, hn, hall, all_isGroupOf, all_isGroupOf, all_isGroupOf]
      by_cases hsel : (qe nm.nt.text e.pos && i1.isEmpty
          && kindsAre .brace (pick i2 (tag .brace a2 ++ (tag .bracket a3 ++ tag .brace a4)))
          && kindsAre .bracket (pick i3 (tag .brace a2 ++ (tag .bracket a3 ++ tag .brace a4)))
          && kindsAre .brace (pick i4 (tag .brace a2 ++ (tag .bracket a3 ++ tag .brace a4)))) = true
      · have hs := hsel
        simp only [Bool.and_eq_true, List.isEmpty_iff] at hs
        obtain ⟨⟨⟨⟨_, k1⟩, k2⟩, k3⟩, k4⟩ := hs
        simp only [hsel, ↓reduceIte]
        simp only [tree, argTop, treesA_untag _ _ k2, treesA_untag _ _ k3,
          treesA_untag _ _ k4, k1, List.nil_append, pick_append, pick_map, hn]
        simp only [List.map_append]
      · have hsel2 := Bool.eq_false_iff.2 hsel
        simp only [hsel2, Bool.false_eq_true, ↓reduceIte]
        simp only [tree, mapSelL_append, ← hall, hn,
          treesA_setArgs a2 _ _ .brace w2 c2 e2' hq, treesA_setArgs a3 _ _ .bracket w3 c3 e3 hq,
          treesA_setArgs a4 _ _ .brace w4 c4 e4 hq, trees_setArgs b _ _ _ _ hb cb eb hq]
  | .venv e bg nm a2 a3 a4 vb e5, skip, m, nx, h, hc, he, hq => by
      simp only [WF, Bool.and_eq_true] at h
      obtain ⟨⟨⟨⟨⟨⟨⟨⟨⟨_, _⟩, w2⟩, w3⟩, w4⟩, _⟩, hskip⟩, _⟩, _⟩, _⟩ := h
      simp only [cmdNamesPlain, Bool.and_eq_true] at hc
      obtain ⟨⟨c2, c3⟩, c4⟩ := hc
      simp only [envNamesPlain, Bool.and_eq_true, beq_iff_eq] at he
      obtain ⟨⟨⟨_, e2'⟩, e3⟩, e4⟩ := he
      have hq' : qe (strip nm.nt.text) e.pos = false := by
        cases hq' : qe (strip nm.nt.text) e.pos with
        | false => rfl
        | true => have := hq.skipOld _ _ hq'; rw [hskip] at this; cases this
      have hsel' : ∀ A B, argSel qc qe i1 i2 i3 i4 (.nenv (strip nm.nt.text) A B e.pos) = false := by
        intro A B
        rw [argSel_nenv, hq']; simp
      simp only [setArgs, tree]
      rw [mapSel_nenv, hsel']
      simp only [Bool.false_eq_true, ↓reduceIte, mapSelL_append, mapSelL_cons, mapSelL_nil,
        treesA_setArgs a2 _ _ .brace w2 c2 e2' hq, treesA_setArgs a3 _ _ .bracket w3 c3 e3 hq,
        treesA_setArgs a4 _ _ .brace w4 c4 e4 hq]
      simp [mapSel, argSel]
theorem trees_setArgs : ∀ (es : List Elem) (skip : List Str) (m : Mode) (ctx : Ctx) (nx : List Tok),
    WFs skip m ctx nx es = true → cmdNamesPlainS es = true → envNamesPlainS es = true → SQ qc qe skip →
    trees (setArgsS (SetA.ofQ qc qe i1 i2 i3 i4) es) =
      mapSelL (argSel qc qe i1 i2 i3 i4) (argTop (i1 ++ (i2 ++ (i3 ++ i4)))) (trees es)
  | [], _, _, _, _, _, _, _, _ => by simp
  | e :: es, skip, m, ctx, nx, h, hc, he, hq => by
      obtain ⟨h1, _, h3, _⟩ := WFs_cons h
      simp only [cmdNamesPlainS, Bool.and_eq_true] at hc
      simp only [envNamesPlainS, Bool.and_eq_true] at he
      simp [tree_setArgs e _ _ _ h1 hc.1 he.1 hq, trees_setArgs es _ _ _ _ h3 hc.2 he.2 hq]
theorem treeArg_setArgs : ∀ (a : Arg) (m : Mode) (k gk : GKind),
    WFarg m k a = true → cmdNamesPlainArg a = true → envNamesPlainArg a = true →
    ∀ {skip : List Str}, SQ qc qe skip →
    treeArg gk (setArgsArg (SetA.ofQ qc qe i1 i2 i3 i4) a) =
      mapSel (argSel qc qe i1 i2 i3 i4) (argTop (i1 ++ (i2 ++ (i3 ++ i4)))) (treeArg gk a)
  | .mk sp o b c, m, k, gk, h, hc, he, _, hq => by
      simp only [WFarg, Bool.and_eq_true] at h
      simp only [cmdNamesPlainArg] at hc
      simp only [envNamesPlainArg] at he
      simp [setArgsArg, treeArg, mapSel, argSel, trees_setArgs b _ _ _ _ h.2 hc he hq.nil]
theorem treesA_setArgs : ∀ (as : List Arg) (m : Mode) (k gk : GKind),
    WFa m k as = true → cmdNamesPlainA as = true → envNamesPlainA as = true →
    ∀ {skip : List Str}, SQ qc qe skip →
    treesA gk (setArgsA (SetA.ofQ qc qe i1 i2 i3 i4) as) =
      mapSelL (argSel qc qe i1 i2 i3 i4) (argTop (i1 ++ (i2 ++ (i3 ++ i4)))) (treesA gk as)
  | [], _, _, _, _, _, _, _, _ => by simp
  | a :: as, m, k, gk, h, hc, he, _, hq => by
      obtain ⟨h1, h2⟩ := WFa_cons h
      simp only [cmdNamesPlainA, Bool.and_eq_true] at hc
      simp only [envNamesPlainA, Bool.and_eq_true] at he
      simp [treeArg_setArgs a _ _ gk h1 hc.1 he.1 hq, treesA_setArgs as _ _ gk h2 hc.2 he.2 hq]
end

/-- **The tree of the re-argumented document.** -/
theorem treeD_setArgs {skip : List Str} (d : Doc) (hwf : WFD skip d = true)
    (hc : cmdNamesPlainS d = true) (he : envNamesPlainS d = true) (hq : SQ qc qe skip) :
    treeD (setArgsD (SetA.ofQ qc qe i1 i2 i3 i4) d) =
      mapSelL (argSel qc qe i1 i2 i3 i4) (argTop (i1 ++ (i2 ++ (i3 ++ i4)))) (treeD d) :=
  trees_setArgs d _ _ _ _ hwf hc he hq

/-! ### environment names stay plain -/

theorem envNamesPlainA_iff (as : List Arg) :
    envNamesPlainA as = true ↔ ∀ a ∈ as, envNamesPlainArg a = true := by
  induction as with
  | nil => simp [envNamesPlainA]
  | cons a as ih => simp [envNamesPlainA, ih]

theorem envNamesPlainA_untag_pick (idx : List Nat) (l : List TA)
    (h : ∀ x ∈ l, envNamesPlainArg x.2 = true) : envNamesPlainA (untag (pick idx l)) = true := by
  rw [envNamesPlainA_iff]
  intro a ha
  simp only [untag, List.mem_map] at ha
  obtain ⟨x, hx, rfl⟩ := ha
  have := h x (mem_of_mem_pick hx)
  obtain ⟨k, arg⟩ := x
  cases arg
  simpa [envNamesPlainArg] using this

theorem plain_tag {k : GKind} {as : List Arg} (h : envNamesPlainA as = true) :
    ∀ x ∈ tag k as, envNamesPlainArg x.2 = true := by
  intro x hx
  simp only [tag, List.mem_map] at hx
  obtain ⟨a, ha, rfl⟩ := hx
  exact (envNamesPlainA_iff as).1 h a ha

mutual
theorem envNamesPlain_setArgs (r : SetA) : ∀ e : Elem, envNamesPlain e = true →
    envNamesPlain (setArgs r e) = true
  | .leaf _, _ => rfl
  | .group o b c, h => by
      simp only [envNamesPlain] at h
      simp only [setArgs, envNamesPlain]; exact envNamesPlainS_setArgs r b h
  | .math k o b c, h => by
      simp only [envNamesPlain] at h
      simp only [setArgs, envNamesPlain]; exact envNamesPlainS_setArgs r b h
  | .cmd e n a1 a2 a3 a4, h => by
      simp only [envNamesPlain, Bool.and_eq_true] at h
      have hall : ∀ x ∈ tag .bracket a1 ++ (tag .brace a2 ++ (tag .bracket a3 ++ tag .brace a4)),
          envNamesPlainArg x.2 = true := by
        intro x hx
        simp only [List.mem_append] at hx
        rcases hx with hx | hx | hx | hx
        · exact plain_tag h.1.1.1 x hx
        · exact plain_tag h.1.1.2 x hx
        · exact plain_tag h.1.2 x hx
        · exact plain_tag h.2 x hx
      simp only [setArgs]
      split
      · simp only [envNamesPlain, Bool.and_eq_true]
        exact ⟨⟨⟨envNamesPlainA_untag_pick _ _ hall, envNamesPlainA_untag_pick _ _ hall⟩,
          envNamesPlainA_untag_pick _ _ hall⟩, envNamesPlainA_untag_pick _ _ hall⟩
      · simp only [envNamesPlain, Bool.and_eq_true]
        exact ⟨⟨⟨envNamesPlainA_setArgs r a1 h.1.1.1, envNamesPlainA_setArgs r a2 h.1.1.2⟩,
          envNamesPlainA_setArgs r a3 h.1.2⟩, envNamesPlainA_setArgs r a4 h.2⟩
  | .item e n a1 a2 a3 a4 b, h => by
      simp only [envNamesPlain, Bool.and_eq_true] at h
      simp only [setArgs, envNamesPlain, Bool.and_eq_true]
      exact ⟨⟨⟨⟨envNamesPlainA_setArgs r a1 h.1.1.1.1, envNamesPlainA_setArgs r a2 h.1.1.1.2⟩,
        envNamesPlainA_setArgs r a3 h.1.1.2⟩, envNamesPlainA_setArgs r a4 h.1.2⟩,
        envNamesPlainS_setArgs r b h.2⟩
  | .env e bg nm a2 a3 a4 b e2 en nm2, h => by
      simp only [envNamesPlain, Bool.and_eq_true] at h
      have hall : ∀ x ∈ tag .brace a2 ++ (tag .bracket a3 ++ tag .brace a4),
          envNamesPlainArg x.2 = true := by
        intro x hx
        simp only [List.mem_append] at hx
        rcases hx with hx | hx | hx
        · exact plain_tag h.1.1.1.2 x hx
        · exact plain_tag h.1.1.2 x hx
        · exact plain_tag h.1.2 x hx
      simp only [setArgs]
      split
      · simp only [envNamesPlain, Bool.and_eq_true]
        exact ⟨⟨⟨⟨h.1.1.1.1, envNamesPlainA_untag_pick _ _ hall⟩, envNamesPlainA_untag_pick _ _ hall⟩,
          envNamesPlainA_untag_pick _ _ hall⟩, h.2⟩
      · simp only [envNamesPlain, Bool.and_eq_true]
        exact ⟨⟨⟨⟨h.1.1.1.1, envNamesPlainA_setArgs r a2 h.1.1.1.2⟩, envNamesPlainA_setArgs r a3 h.1.1.2⟩,
          envNamesPlainA_setArgs r a4 h.1.2⟩, envNamesPlainS_setArgs r b h.2⟩
  | .venv e bg nm a2 a3 a4 vb e5, h => by
      simp only [envNamesPlain, Bool.and_eq_true] at h
      simp only [setArgs, envNamesPlain, Bool.and_eq_true]
      exact ⟨⟨⟨h.1.1.1, envNamesPlainA_setArgs r a2 h.1.1.2⟩, envNamesPlainA_setArgs r a3 h.1.2⟩,
        envNamesPlainA_setArgs r a4 h.2⟩
theorem envNamesPlainS_setArgs (r : SetA) : ∀ es : List Elem, envNamesPlainS es = true →
    envNamesPlainS (setArgsS r es) = true
  | [], _ => rfl
  | e :: es, h => by
      simp only [envNamesPlainS, Bool.and_eq_true] at h
      simp only [setArgsS_cons, envNamesPlainS, Bool.and_eq_true]
      exact ⟨envNamesPlain_setArgs r e h.1, envNamesPlainS_setArgs r es h.2⟩
theorem envNamesPlainArg_setArgs (r : SetA) : ∀ a : Arg, envNamesPlainArg a = true →
    envNamesPlainArg (setArgsArg r a) = true
  | .mk sp o b c, h => by
      simp only [envNamesPlainArg] at h
      simp only [setArgsArg, envNamesPlainArg]; exact envNamesPlainS_setArgs r b h
theorem envNamesPlainA_setArgs (r : SetA) : ∀ as : List Arg, envNamesPlainA as = true →
    envNamesPlainA (setArgsA r as) = true
  | [], _ => rfl
  | a :: as, h => by
      simp only [envNamesPlainA, Bool.and_eq_true] at h
      simp only [setArgsA_cons, envNamesPlainA, Bool.and_eq_true]
      exact ⟨envNamesPlainArg_setArgs r a h.1, envNamesPlainA_setArgs r as h.2⟩
end

end TexSoup.Gram
