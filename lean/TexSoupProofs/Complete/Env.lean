import TexSoupProofs.Complete.Peek
/-!
# Completeness, part 7: named environments (`read_env`, its loop, the `\end` look-ahead)
-/
namespace TexSoup.Gram
open TexSoup

/-! ### `{name}` -/

theorem nameArg_toksArg (n : NameArg) : toksArg n.toArg = n.toks := by
  simp [NameArg.toArg, NameArg.toks, toksArg, toks]

theorem nameArg_treeArg (n : NameArg) : treeArg .brace n.toArg = n.tree := by
  simp [NameArg.toArg, NameArg.tree, treeArg, tree]

theorem nameArg_toksA (n : NameArg) (as : List Arg) : toksA (n.toArg :: as) = n.toks ++ toksA as := by
  simp [nameArg_toksArg]

theorem nameArg_treesA (n : NameArg) (as : List Arg) :
    treesA .brace (n.toArg :: as) = n.tree :: treesA .brace as := by
  simp [nameArg_treeArg]

theorem nameArg_string (n : NameArg) : n.tree.string = n.nt.text := by
  simp [NameArg.tree, Expr.string, Expr.body, serL, ser]

theorem nameArg_WFarg (n : NameArg) (h : n.ok = true) (m : Mode) : WFarg m .brace n.toArg = true := by
  simp only [NameArg.ok, Bool.and_eq_true, beq_iff_eq, bne_iff_ne, ne_eq] at h
  obtain ⟨⟨⟨⟨hs, ho⟩, hc⟩, hl⟩, hne⟩ := h
  simp [NameArg.toArg, WFarg, WFs, WF, startOK, firstTok, hs, ho, hc, hl, hne, GKind.tokBegin, GKind.tokEnd]

theorem nameArg_WFa (n : NameArg) (h : n.ok = true) (m : Mode) (as : List Arg)
    (w : WFa m .brace as = true) : WFa m .brace (n.toArg :: as) = true := by
  simp [WFa, nameArg_WFarg n h m, w]

theorem nameArg_ArgsOK (n : NameArg) (as : List Arg) (k : ArgsOK as) : ArgsOK (n.toArg :: as) := by
  intro a ha
  rcases List.mem_cons.mp ha with h | h
  · subst h
    intro e he
    simp only [NameArg.toArg, Arg.body, List.mem_singleton] at he
    subst he
    exact ⟨leaf_ok _, leaf_peek _, leaf_sub _⟩
  · exact k a h

/-- `\end{name}` read with the signature `(1, 0)`: by the look-ahead of the loop and again
when `read_env` consumes it. Nothing after the closing brace is touched. -/
theorem readCommand_endArg (tol : Bool) (m : Mode) (en : Tok) (nm2 : NameArg) (hnm2 : nm2.ok = true)
    (rest : List Tok) (f : Nat) (hf : 3 * (en :: (nm2.toks ++ rest)).length + 3 ≤ f) :
    readCommand f 1 0 tol m (en :: (nm2.toks ++ rest)) = .ok ((en, [nm2.tree]), rest) := by
  have h := readCommand_run tol m 1 0 en [] [nm2.toArg] [] []
    (by intro a ha; cases ha) (nameArg_ArgsOK nm2 [] (by intro a ha; cases ha))
    (by intro a ha; cases ha) (by intro a ha; cases ha)
    (by simp [WFa]) (nameArg_WFa nm2 hnm2 _ [] (by simp [WFa])) (by simp [WFa]) (by simp [WFa])
    rest (by simp [cmdSig_given 1 0 (by omega), runOK, tight]) f
    (by simpa [nameArg_toksArg] using hf)
  simpa [nameArg_toksArg, nameArg_treeArg] using h

theorem group_of_first {skip : List Str} {m : Mode} {nx : List Tok} {e : Elem}
    (hwf : WF skip m nx e = true) (h : (firstTok e).cat = .GroupBegin) :
    ∃ o b c, e = .group o b c ∧ c.cat = .GroupEnd := by
  cases e with
  | leaf t =>
    simp only [WF, leafTok, Bool.and_eq_true, bne_iff_ne, ne_eq] at hwf
    exact absurd h hwf.2
  | group o b c =>
    simp only [WF, Bool.and_eq_true, beq_iff_eq] at hwf
    exact ⟨o, b, c, rfl, hwf.1.2⟩
  | math k o b c =>
    simp only [WF, Bool.and_eq_true, beq_iff_eq] at hwf
    simp only [firstTok] at h
    have := hwf.1.1
    rw [h] at this
    simp [mkindOfBegin] at this
  | cmd esc name a1 a2 a3 a4 =>
    simp only [WF, Bool.and_eq_true, beq_iff_eq] at hwf
    simp only [firstTok] at h
    rw [hwf.1.1.1.1.1.1.1] at h; cases h
  | item esc name a1 a2 a3 a4 b =>
    simp only [WF, Bool.and_eq_true, beq_iff_eq] at hwf
    simp only [firstTok] at h
    rw [hwf.1.1.1.1.1.1.1.1.1] at h; cases h
  | env esc bgn nm a2 a3 a4 b esc2 en nm2 =>
    simp only [WF, Bool.and_eq_true, beq_iff_eq] at hwf
    simp only [firstTok] at h
    rw [hwf.1.1.1.1.1.1.1.1.1.1.1.1.1] at h; cases h
  | venv esc bgn nm a2 a3 a4 vb e5 =>
    simp only [WF, Bool.and_eq_true, beq_iff_eq] at hwf
    simp only [firstTok] at h
    rw [hwf.1.1.1.1.1.1.1.1.1.1.1] at h; cases h

theorem leaf_of_first_sp {skip : List Str} {m : Mode} {nx : List Tok} {e : Elem}
    (hwf : WF skip m nx e = true) (h : (firstTok e).cat = .MergedSpacer) : ∃ s, e = .leaf s := by
  cases e with
  | leaf t => exact ⟨t, rfl⟩
  | group o b c =>
    simp only [WF, Bool.and_eq_true, beq_iff_eq] at hwf
    simp only [firstTok] at h
    rw [hwf.1.1] at h; cases h
  | math k o b c =>
    simp only [WF, Bool.and_eq_true, beq_iff_eq] at hwf
    simp only [firstTok] at h
    have := hwf.1.1
    rw [h] at this
    simp [mkindOfBegin] at this
  | cmd esc name a1 a2 a3 a4 =>
    simp only [WF, Bool.and_eq_true, beq_iff_eq] at hwf
    simp only [firstTok] at h
    rw [hwf.1.1.1.1.1.1.1] at h; cases h
  | item esc name a1 a2 a3 a4 b =>
    simp only [WF, Bool.and_eq_true, beq_iff_eq] at hwf
    simp only [firstTok] at h
    rw [hwf.1.1.1.1.1.1.1.1.1] at h; cases h
  | env esc bgn nm a2 a3 a4 b esc2 en nm2 =>
    simp only [WF, Bool.and_eq_true, beq_iff_eq] at hwf
    simp only [firstTok] at h
    rw [hwf.1.1.1.1.1.1.1.1.1.1.1.1.1] at h; cases h
  | venv esc bgn nm a2 a3 a4 vb e5 =>
    simp only [WF, Bool.and_eq_true, beq_iff_eq] at hwf
    simp only [firstTok] at h
    rw [hwf.1.1.1.1.1.1.1.1.1.1.1] at h; cases h

theorem afterSp_cons_ne {t : Tok} (r : List Tok) (h : t.cat ≠ .MergedSpacer) : afterSp (t :: r) = t :: r := by
  simp only [afterSp, readSpacer]
  rw [if_neg (by simpa using h)]

theorem afterSp_cons_sp {t : Tok} (r : List Tok) (h : t.cat = .MergedSpacer) : afterSp (t :: r) = r := by
  simp only [afterSp, readSpacer, h, beq_self_eq_true, if_true]

/-- What the look-ahead of `read_env` finds after an argument-less command: if it is a brace
group (after an optional spacer), `peekCond` makes it readable as an argument. -/
theorem peek_follow (skip : List Str) (tol : Bool) (m : Mode) (esc name : Tok) (a3 a4 : List Arg)
    (esc2 : Tok) (hesc2 : esc2.cat = .Escape) (nx tailr : List Tok)
    (es : List Elem) (hok : AllOK es) (hws : WFs skip m .env nx es = true)
    (hpc : peekCond m .env (.cmd esc name [] [] a3 a4) es = true) (g : Nat)
    (hg : 3 * (toksS es ++ esc2 :: tailr).length ≤ g) :
    ∀ o r, afterSp (toksS es ++ esc2 :: tailr) = o :: r → o.cat = .GroupBegin →
      ∃ x T', readArg g .brace o.pos tol (cmdMode name.text m) r = .ok (x, T') := by
  intro o r hs ho
  have hesc2' : esc2.cat ≠ .MergedSpacer := by rw [hesc2]; decide
  cases es with
  | nil =>
    simp only [toksS_nil, List.nil_append] at hs
    rw [afterSp_cons_ne _ hesc2'] at hs
    obtain ⟨rfl, _⟩ := List.cons.inj hs
    rw [hesc2] at ho; cases ho
  | cons e1 es1 =>
    obtain ⟨hw1, _, hws1, _⟩ := WFs_cons hws
    obtain ⟨r1, hr1⟩ := toks_cons e1
    simp only [toksS_cons, List.append_assoc] at hs hg
    rw [hr1] at hs hg
    simp only [List.cons_append] at hs hg
    by_cases hsp : (firstTok e1).cat = .MergedSpacer
    · obtain ⟨s, rfl⟩ := leaf_of_first_sp hw1 hsp
      simp only [firstTok] at hsp hs
      rw [afterSp_cons_sp _ hsp] at hs
      simp only [toks, firstTok, List.cons.injEq, true_and] at hr1
      subst hr1
      simp only [List.nil_append] at hs hg
      cases es1 with
      | nil =>
        simp only [toksS_nil, List.nil_append] at hs
        obtain ⟨rfl, _⟩ := List.cons.inj hs
        rw [hesc2] at ho; cases ho
      | cons e2 es2 =>
        obtain ⟨hw2, _, _, _⟩ := WFs_cons hws1
        obtain ⟨r2, hr2⟩ := toks_cons e2
        simp only [toksS_cons, List.append_assoc] at hs hg
        rw [hr2] at hs hg
        simp only [List.cons_append] at hs hg
        obtain ⟨rfl, rfl⟩ := List.cons.inj hs
        obtain ⟨o2, b, c, rfl, hc⟩ := group_of_first hw2 ho
        simp only [toks, firstTok, List.cons.injEq, true_and] at hr2
        subst hr2
        simp only [peekCond, hsp, bne_self_eq_false, Bool.false_or] at hpc
        simp only [List.length_cons, List.length_append] at hg
        have := hok.tail.grp o2 b c rfl (firstTok (Elem.group o2 b c)).pos tol (cmdMode name.text m)
          (toksS es2 ++ esc2 :: tailr) g hpc hc
          (by simp only [List.length_append, List.length_cons]; omega)
        rw [show toksS b ++ [c] ++ (toksS es2 ++ esc2 :: tailr) =
          toksS b ++ c :: (toksS es2 ++ esc2 :: tailr) by simp]
        exact ⟨_, _, this⟩
    · rw [afterSp_cons_ne _ hsp] at hs
      obtain ⟨rfl, rfl⟩ := List.cons.inj hs
      obtain ⟨o1, b, c, rfl, hc⟩ := group_of_first hw1 ho
      simp only [toks, firstTok, List.cons.injEq, true_and] at hr1
      subst hr1
      simp only [peekCond] at hpc
      simp only [List.length_cons, List.length_append] at hg
      have := hok.grp o1 b c rfl (firstTok (Elem.group o1 b c)).pos tol (cmdMode name.text m)
        (toksS es1 ++ esc2 :: tailr) g hpc hc
        (by simp only [List.length_append, List.length_cons]; omega)
      rw [show toksS b ++ [c] ++ (toksS es1 ++ esc2 :: tailr) =
        toksS b ++ c :: (toksS es1 ++ esc2 :: tailr) by simp]
      exact ⟨_, _, this⟩

theorem noArgs_cmd {e : Elem} (h : noArgs e = true) : ∃ esc name a3 a4, e = .cmd esc name [] [] a3 a4 := by
  cases e with
  | cmd esc name a1 a2 a3 a4 =>
    cases a1 with
    | nil =>
      cases a2 with
      | nil => exact ⟨esc, name, a3, a4, rfl⟩
      | cons _ _ => simp [noArgs] at h
    | cons _ _ => simp [noArgs] at h
  | _ => simp [noArgs] at h

/-- The loop of `read_env`: a well-formed body, then the look-ahead finds `\end{name}` and the
loop stops in front of it, handing over the argument of the `\end`. -/
theorem readEnvBody_complete (skip : List Str) (tol : Bool) (m : Mode) (esc2 en : Tok) (nm2 : NameArg)
    (hesc2 : esc2.cat = .Escape) (hen : en.text = sEnd) (hnm2 : nm2.ok = true) :
    ∀ (es : List Elem), AllOK es → WFs skip m .env [esc2, en] es = true →
    ∀ (rest : List Tok) (f : Nat),
    3 * (toksS es ++ esc2 :: en :: (nm2.toks ++ rest)).length + 2 ≤ f →
    readEnvBody f skip tol m (toksS es ++ esc2 :: en :: (nm2.toks ++ rest)) =
      .ok ((trees es, some [nm2.tree]), esc2 :: en :: (nm2.toks ++ rest)) := by
  intro es
  induction es with
  | nil =>
    intro _ _ rest f hf
    obtain ⟨g, rfl⟩ := succ_of_le (Nat.le_trans (by omega : 0 + 1 ≤ _) hf)
    simp only [toksS_nil, List.nil_append, trees_nil, List.length_cons] at hf ⊢
    unfold readEnvBody
    simp only [hesc2, beq_self_eq_true, if_true]
    rw [readCommand_endArg tol m en nm2 hnm2 rest g (by simp only [List.length_cons]; omega)]
    simp only [Res.bind_ok, hen, beq_self_eq_true, if_true]
  | cons e es ih =>
    intro hok hwf rest f hf
    obtain ⟨hwe, hst, hws, hpc⟩ := WFs_cons hwf
    obtain ⟨g, rfl⟩ := succ_of_le (Nat.le_trans (by omega : 0 + 1 ≤ _) hf)
    obtain ⟨r, hr⟩ := toks_cons e
    have hlen := toks_length_pos e
    simp only [toksS_cons, trees_cons, List.append_assoc]
    simp only [toksS_cons, List.append_assoc, List.length_append] at hf
    have hw : win (toksS es ++ esc2 :: en :: (nm2.toks ++ rest)) = win (toksS es ++ [esc2, en]) := by
      rw [win_append, win_esc _ _ hesc2]
    rw [← hw] at hwe
    have he := hok.head skip tol m _ g hwe (by simp only [List.length_append]; omega)
    have hcons : toks e ++ (toksS es ++ esc2 :: en :: (nm2.toks ++ rest)) =
        firstTok e :: (r ++ (toksS es ++ esc2 :: en :: (nm2.toks ++ rest))) := by rw [hr]; rfl
    have hrec := ih hok.tail hws rest g (by simp only [List.length_append]; omega)
    by_cases hesc : ((firstTok e).cat == TC.Escape) = true
    · obtain ⟨g', rfl⟩ : ∃ g', g = g' + 3 := ⟨g - 3, by omega⟩
      obtain ⟨n, r', args, ts', htk, hnt, hpk⟩ := hok.peek skip tol m _ g' hwe (by simpa using hesc)
        (by simp only [List.length_append]; omega)
        (by
          intro hna name hname
          obtain ⟨esc, nm, a3, a4, rfl⟩ := noArgs_cmd hna
          simp only [nameText, Option.some.injEq] at hname
          subst hname
          refine peek_follow skip tol m esc nm a3 a4 esc2 hesc2 [esc2, en] _ es hok.tail hws hpc g' ?_
          simp only [toks, List.length_cons, List.length_append] at hf ⊢
          omega)
      have hr' : r = n :: r' := by
        rw [hr] at htk
        exact (List.cons.inj htk).2
      subst hr'
      have hne : (n.text == sEnd) = false := by
        simp only [startOK, bne_iff_ne, ne_eq, hnt, Option.some.injEq] at hst
        simpa using hst
      rw [hcons]
      unfold readEnvBody
      simp only
      rw [if_pos hesc]
      rw [show (n :: r') ++ (toksS es ++ esc2 :: en :: (nm2.toks ++ rest)) =
        n :: (r' ++ (toksS es ++ esc2 :: en :: (nm2.toks ++ rest))) from rfl, hpk]
      simp only [Res.bind_ok]
      rw [hne]
      simp only [Bool.false_eq_true, if_false]
      rw [show firstTok e :: n :: (r' ++ (toksS es ++ esc2 :: en :: (nm2.toks ++ rest))) =
        toks e ++ (toksS es ++ esc2 :: en :: (nm2.toks ++ rest)) from hcons.symm, he]
      simp only [Res.bind_ok]
      rw [hrec]
      simp only [Res.bind_ok]
    · rw [hcons]
      unfold readEnvBody
      simp only
      rw [if_neg hesc, ← hcons, he]
      simp only [Res.bind_ok]
      rw [hrec]
      simp only [Res.bind_ok]

theorem sBegin_ne_sItem : (sBegin == sItem) = false := by decide
theorem sBegin_ne_sEnd : (sBegin == sEnd) = false := by decide

theorem env_ok (esc bgn : Tok) (nm : NameArg) (a2 a3 a4 : List Arg) (b : List Elem)
    (esc2 en : Tok) (nm2 : NameArg)
    (k2 : ArgsOK a2) (k3 : ArgsOK a3) (k4 : ArgsOK a4) (kb : AllOK b) :
    ElemOK (.env esc bgn nm a2 a3 a4 b esc2 en nm2) := by
  intro skip tol m rest f hwf hf
  obtain ⟨g, rfl⟩ := succ_of_le (Nat.le_trans (by omega : 0 + 1 ≤ _) hf)
  simp only [WF, Bool.and_eq_true, beq_iff_eq, bne_iff_ne, ne_eq, Bool.not_eq_true'] at hwf
  obtain ⟨⟨⟨⟨⟨⟨⟨⟨⟨⟨⟨⟨⟨hesc, hbg⟩, hms⟩, hnm⟩, w2⟩, w3⟩, w4⟩, hrun⟩, hskip⟩, hwb⟩, hesc2⟩, hen⟩, hnm2⟩,
    hname⟩ := hwf
  have hw : win (toksS b ++ esc2 :: en :: (nm2.toks ++ rest)) = win (toksS b ++ [esc2, en]) := by
    rw [win_append, win_esc _ _ hesc2]
  rw [← hw, runOK_win] at hrun
  simp only [toks, tree, List.cons_append, List.append_assoc]
  simp only [toks, List.cons_append, List.append_assoc, List.length_cons, List.length_append] at hf
  rw [readExpr_escape g skip tol m esc _ hesc]
  have hshape : bgn :: (nm.toks ++ (toksA a2 ++ (toksA a3 ++ (toksA a4 ++
      (toksS b ++ esc2 :: en :: (nm2.toks ++ rest)))))) =
      bgn :: (toksA [] ++ (toksA (nm.toArg :: a2) ++ (toksA a3 ++ (toksA a4 ++
        (toksS b ++ esc2 :: en :: (nm2.toks ++ rest)))))) := by
    simp [nameArg_toksArg]
  rw [hshape, readCommand_run tol m (-1) (-1) bgn [] (nm.toArg :: a2) a3 a4
    (by intro a ha; cases ha) (nameArg_ArgsOK nm a2 k2) k3 k4 (by simp [WFa])
    (nameArg_WFa nm hnm _ a2 w2) w3 w4 _ hrun g
    (by rw [← hshape]; simp only [List.length_cons, List.length_append]; omega)]
  simp only [Res.bind_ok, treesA_nil, List.nil_append, nameArg_treesA, List.cons_append, hbg,
    sBegin_ne_sItem, Bool.false_eq_true, if_false, beq_self_eq_true, Bool.true_and]
  rw [if_pos (by simpa using hms)]
  simp only [nameArg_string, hskip, Bool.false_eq_true, if_false]
  obtain ⟨g', rfl⟩ : ∃ g', g = g' + 1 := ⟨g - 1, by omega⟩
  unfold readEnv
  rw [show (if memStr (strip nm.nt.text) Tables.mathEnvNames = true then Mode.math else m) =
    envMode (strip nm.nt.text) m from rfl]
  rw [readEnvBody_complete skip tol (envMode (strip nm.nt.text) m) esc2 en nm2 hesc2 hen hnm2 b kb hwb
    rest g' (by simp only [List.length_cons, List.length_append]; omega)]
  simp only [Res.bind_ok]
  have herr : envError (strip nm.nt.text) (some [nm2.tree]) = false := by
    simp [envError, nameArg_string, hname]
  rw [herr]
  simp only [Bool.false_eq_true, if_false]
  rw [readCommand_endArg tol _ en nm2 hnm2 rest g'
    (by simp only [List.length_cons, List.length_append]; omega)]
  simp only [Res.bind_ok]

theorem env_peek (esc bgn : Tok) (nm : NameArg) (a2 a3 a4 : List Arg) (b : List Elem)
    (esc2 en : Tok) (nm2 : NameArg) (k2 : ArgsOK a2) :
    PeekOK (.env esc bgn nm a2 a3 a4 b esc2 en nm2) := by
  intro skip tol m rest g hwf _ hf _
  simp only [WF, Bool.and_eq_true, beq_iff_eq, bne_iff_ne, ne_eq, Bool.not_eq_true'] at hwf
  obtain ⟨⟨⟨⟨⟨⟨⟨⟨⟨⟨⟨⟨⟨hesc, hbg⟩, hms⟩, hnm⟩, w2⟩, w3⟩, w4⟩, hrun⟩, hskip⟩, hwb⟩, hesc2⟩, hen⟩, hnm2⟩,
    hname⟩ := hwf
  simp only [toks, List.cons_append, List.append_assoc, List.length_cons, List.length_append] at hf
  have hgrp := peek_run tol (cmdMode bgn.text m) [] (nm.toArg :: a2) a3 a4 (nameArg_ArgsOK nm a2 k2)
    (by simp [WFa]) (nameArg_WFa nm hnm _ a2 w2)
    (toksS b ++ esc2 :: en :: (nm2.toks ++ rest)) (fun _ h => absurd h (List.cons_ne_nil _ _)) g
    (by simp only [nameArg_toksA, toksA_nil, List.nil_append, List.append_assoc, List.length_cons,
          List.length_append]; omega)
  obtain ⟨args, T', hr⟩ := readCommand10_ok g tol m bgn _ (by omega) hgrp
  refine ⟨bgn, nm.toks ++ (toksA a2 ++ (toksA a3 ++ (toksA a4 ++ (toksS b ++ esc2 :: en :: nm2.toks)))),
    args, T', by simp [toks, firstTok], rfl, ?_⟩
  simpa [nameArg_toksArg] using hr

end TexSoup.Gram
