import TexSoupModel.Grammar
import TexSoupProofs.Reader.Leaves
import TexSoupProofs.Reader.ArgsFirst
/-!
# Completeness of the reader, part 1: the look-ahead window, lengths, the induction hypothesis
-/
namespace TexSoup.Gram
open TexSoup

theorem leafTok_eq (t : Tok) : leafTok t = isLeafTok t := rfl

/-! ### the window -/

theorem win_win (ts : List Tok) : win (win ts) = win ts := by
  cases ts with
  | nil => rfl
  | cons t r =>
    by_cases h : (t.cat == TC.MergedSpacer || t.cat == TC.Escape) = true
    · cases r with
      | nil => simp [win, h]
      | cons u r' => simp [win, h]
    · simp [win, h]

theorem win_append (a b : List Tok) : win (a ++ b) = win (a ++ win b) := by
  cases a with
  | nil => simp [win_win]
  | cons t r =>
    by_cases h : (t.cat == TC.MergedSpacer || t.cat == TC.Escape) = true
    · cases r with
      | nil =>
        cases b with
        | nil => rfl
        | cons u b' =>
          by_cases h2 : (u.cat == TC.MergedSpacer || u.cat == TC.Escape) = true
          · simp [win, h, h2]
          · simp [win, h, h2]
      | cons u r' => simp [win, h]
    · simp [win, h]

theorem win_closer {c : Tok} (r : List Tok) (h1 : c.cat ≠ .MergedSpacer) (h2 : c.cat ≠ .Escape) :
    win (c :: r) = [c] := by
  simp [win, h1, h2]

theorem win_esc {e : Tok} (n : Tok) (r : List Tok) (h : e.cat = .Escape) :
    win (e :: n :: r) = [e, n] := by
  simp [win, h]

theorem hdCat_win (ts : List Tok) : hdCat (win ts) = hdCat ts := by
  cases ts with
  | nil => rfl
  | cons t r =>
    by_cases h : (t.cat == TC.MergedSpacer || t.cat == TC.Escape) = true
    · simp [win, h, hdCat]
    · simp [win, h, hdCat]

theorem hdCat_afterSp_win (ts : List Tok) : hdCat (afterSp (win ts)) = hdCat (afterSp ts) := by
  cases ts with
  | nil => rfl
  | cons t r =>
    by_cases hs : (t.cat == TC.MergedSpacer) = true
    · cases r with
      | nil => simp [win, hs, afterSp, readSpacer]
      | cons u r' => simp [win, hs, afterSp, readSpacer, hdCat]
    · by_cases he : (t.cat == TC.Escape) = true
      · cases r with
        | nil => simp [win, hs, he, afterSp, readSpacer]
        | cons u r' => simp [win, hs, he, afterSp, readSpacer, hdCat]
      · simp [win, hs, he, afterSp, readSpacer, hdCat]

theorem itemStop_win (ts : List Tok) : itemStop (win ts) = itemStop ts := by
  cases ts with
  | nil => rfl
  | cons t r =>
    by_cases hs : (t.cat == TC.MergedSpacer) = true
    · have h1 : t.cat = TC.MergedSpacer := by simpa using hs
      cases r with
      | nil => simp [win, itemStop, h1]
      | cons u r' => simp [win, itemStop, h1]
    · by_cases he : (t.cat == TC.Escape) = true
      · cases r with
        | nil => simp [win, hs, he, itemStop]
        | cons u r' => simp [win, hs, he, itemStop]
      · simp [win, hs, he, itemStop]

theorem runOK_win (sg : Int × Int) (a1 a2 a3 a4 : List Arg) (ts : List Tok) :
    runOK sg a1 a2 a3 a4 (win ts) = runOK sg a1 a2 a3 a4 ts := by
  unfold runOK
  simp only [hdCat_win, hdCat_afterSp_win]

/-! ### look-ahead facts in the form the reader asks for them -/

theorem nextIs_false_of_hdCat {c : TC} {ts : List Tok} (h : (hdCat ts != some c) = true) :
    nextIs c ts = false := by
  cases ts with
  | nil => rfl
  | cons t r =>
    simp only [hdCat, bne_iff_ne, ne_eq, Option.some.injEq] at h
    simp only [nextIs, beq_eq_false_iff_ne, ne_eq]
    exact h

theorem nextIs_false_of_afterSp {c : TC} {ts : List Tok} (hc : c ≠ .MergedSpacer)
    (h : (hdCat (afterSp ts) != some c) = true) : nextIs c ts = false := by
  cases hn : nextIs c ts with
  | false => rfl
  | true =>
    obtain ⟨o, r3, hs, ho⟩ := nextIs_readSpacer hc hn
    simp only [afterSp, hs, hdCat, ho, bne_self_eq_false] at h
    cases h

/-! ### lengths -/

theorem toks_cons (e : Elem) : ∃ r, toks e = firstTok e :: r := by
  cases e <;> simp [toks, firstTok]

theorem toks_length_pos (e : Elem) : 1 ≤ (toks e).length := by
  obtain ⟨r, h⟩ := toks_cons e
  rw [h]; simp

@[simp] theorem toksS_nil : toksS [] = [] := by simp [toksS]
@[simp] theorem toksS_cons (e : Elem) (es : List Elem) : toksS (e :: es) = toks e ++ toksS es := by
  simp [toksS]
@[simp] theorem trees_nil : trees [] = [] := by simp [trees]
@[simp] theorem trees_cons (e : Elem) (es : List Elem) : trees (e :: es) = tree e :: trees es := by
  simp [trees]
@[simp] theorem toksA_nil : toksA [] = [] := by simp [toksA]
@[simp] theorem toksA_cons (a : Arg) (as : List Arg) : toksA (a :: as) = toksArg a ++ toksA as := by
  simp [toksA]
@[simp] theorem treesA_nil (k : GKind) : treesA k [] = [] := by simp [treesA]
@[simp] theorem treesA_cons (k : GKind) (a : Arg) (as : List Arg) :
    treesA k (a :: as) = treeArg k a :: treesA k as := by
  simp [treesA]

theorem treesA_length (k : GKind) (as : List Arg) : (treesA k as).length = as.length := by
  induction as with
  | nil => simp
  | cons a as ih => simp [ih]

/-! ### the induction hypothesis -/

/-- Completeness for one element: wherever it is well-formed it is read back exactly, the
following tokens are left untouched, and the fuel `3 * length + 1` of the remaining input
suffices. -/
def ElemOK (e : Elem) : Prop :=
  ∀ (skip : List Str) (tol : Bool) (m : Mode) (rest : List Tok) (f : Nat),
    WF skip m (win rest) e = true → 3 * (toks e ++ rest).length + 1 ≤ f →
    readExpr f skip tol m (toks e ++ rest) = .ok (tree e, rest)

/-- A command written without any argument: the look-ahead of `read_env` reaches beyond it. -/
def noArgs : Elem → Bool
  | .cmd _ _ [] [] _ _ => true
  | _ => false

/-- The look-ahead of `read_env` succeeds on an element that starts with a backslash: inside
an environment body every command is first read with the signature `(1, 0)` of `\end`, and
only its name is looked at. For a command without arguments the look-ahead reaches into what
follows; the hypothesis says that a brace group found there can be read as an argument. -/
def PeekOK (e : Elem) : Prop :=
  ∀ (skip : List Str) (tol : Bool) (m : Mode) (rest : List Tok) (g : Nat),
    WF skip m (win rest) e = true → (firstTok e).cat = .Escape →
    3 * (toks e ++ rest).length ≤ g + 3 →
    (noArgs e = true → ∀ name, nameText e = some name → ∀ o r, afterSp rest = o :: r →
      o.cat = .GroupBegin → ∃ x T', readArg g .brace o.pos tol (cmdMode name m) r = .ok (x, T')) →
    ∃ n r args ts', toks e = firstTok e :: n :: r ∧ nameText e = some n.text ∧
      readCommand (g + 3) 1 0 tol m (n :: (r ++ rest)) = .ok ((n, args), ts')

/-- A free brace group can also be read as an argument, in any mode in which its body is
well-formed (needed for the look-ahead above). -/
def GroupArgOK (e : Elem) : Prop :=
  ∀ o b c, e = .group o b c → ∀ (pos : Int) (tol : Bool) (m : Mode) (rest : List Tok) (f : Nat),
    WFs [] m (.grp .brace) [c] b = true → c.cat = .GroupEnd →
    3 * (toksS b ++ c :: rest).length + 3 ≤ f →
    readArg f .brace pos tol m (toksS b ++ c :: rest) = .ok (.group .brace (trees b) pos, rest)

def AllOK (es : List Elem) : Prop := ∀ e ∈ es, ElemOK e ∧ PeekOK e ∧ GroupArgOK e

def ArgsOK (as : List Arg) : Prop := ∀ a ∈ as, AllOK a.body

theorem AllOK.tail {e : Elem} {es : List Elem} (h : AllOK (e :: es)) : AllOK es :=
  fun x hx => h x (List.mem_cons_of_mem _ hx)
theorem AllOK.head {e : Elem} {es : List Elem} (h : AllOK (e :: es)) : ElemOK e :=
  (h e List.mem_cons_self).1
theorem AllOK.peek {e : Elem} {es : List Elem} (h : AllOK (e :: es)) : PeekOK e :=
  (h e List.mem_cons_self).2.1
theorem AllOK.grp {e : Elem} {es : List Elem} (h : AllOK (e :: es)) : GroupArgOK e :=
  (h e List.mem_cons_self).2.2
theorem ArgsOK.tail {a : Arg} {as : List Arg} (h : ArgsOK (a :: as)) : ArgsOK as :=
  fun x hx => h x (List.mem_cons_of_mem _ hx)
theorem ArgsOK.head {a : Arg} {as : List Arg} (h : ArgsOK (a :: as)) : AllOK a.body :=
  h a List.mem_cons_self

/-- the condition the look-ahead of `read_env` puts on the neighbour of an argument-less command -/
def peekCond (m : Mode) (ctx : Ctx) (e : Elem) (es : List Elem) : Bool :=
  match ctx, e, es with
  | .env, .cmd _ name [] [] _ _, .group _ b c :: _ =>
      WFs [] (cmdMode name.text m) (.grp .brace) [c] b
  | .env, .cmd _ name [] [] _ _, .leaf s :: .group _ b c :: _ =>
      s.cat != .MergedSpacer || WFs [] (cmdMode name.text m) (.grp .brace) [c] b
  | _, _, _ => true

theorem WFs_cons {skip : List Str} {m : Mode} {ctx : Ctx} {nx : List Tok} {e : Elem} {es : List Elem}
    (h : WFs skip m ctx nx (e :: es) = true) :
    WF skip m (win (toksS es ++ nx)) e = true ∧ startOK ctx e = true ∧
      WFs skip m ctx nx es = true ∧ peekCond m ctx e es = true := by
  rw [WFs.eq_def] at h
  simp only [Bool.and_eq_true] at h
  exact ⟨h.1.1.1, h.1.1.2, h.1.2, h.2⟩

end TexSoup.Gram
