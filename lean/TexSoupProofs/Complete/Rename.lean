import TexSoupModel.GrammarEdit
import TexSoupProofs.Complete.Comments
/-!
# Renaming commands and environments keeps a document well-formed

The frame conditions of the grammar look at a command name only through `item` / `end` /
`begin`, its signature and its being a special command (`sameRole`), at an environment name
only through the skip list, its being a math environment and the comparison of `\end{x}` with
`strip` of `\begin{y}` (`envRole`). The look-ahead windows (`win`, `hdCat`, `afterSp`,
`itemStop`) contain a name only as the token after a backslash, where `itemStop` compares it
with `end` and `item` (`key3_two'`). Hence `WF` is preserved by `rename r` (`WFD_rename`).
-/
namespace TexSoup.Gram
open TexSoup

@[simp] theorem renameS_nil (r : Ren) : renameS r [] = [] := by simp [renameS]
@[simp] theorem renameS_cons (r : Ren) (e : Elem) (es : List Elem) :
    renameS r (e :: es) = rename r e :: renameS r es := by simp [renameS]
@[simp] theorem renameA_nil (r : Ren) : renameA r [] = [] := by simp [renameA]
@[simp] theorem renameA_cons (r : Ren) (a : Arg) (as : List Arg) :
    renameA r (a :: as) = renameArg r a :: renameA r as := by simp [renameA]

theorem renameA_length (r : Ren) (as : List Arg) : (renameA r as).length = as.length := by
  induction as with
  | nil => simp
  | cons a as ih => simp [ih]

theorem renameA_isEmpty (r : Ren) (as : List Arg) : (renameA r as).isEmpty = as.isEmpty := by
  cases as <;> simp

theorem tight_renameA (r : Ren) (as : List Arg) : tight (renameA r as) = tight as := by
  cases as with
  | nil => rfl
  | cons a as => cases a; simp [renameArg, tight]

/-! ### the side conditions -/

/-- The renaming is admissible where the skip list `skip` is in force. -/
structure Ren.OK (r : Ren) (skip : List Str) : Prop where
  cmd : ∀ esc n, r.pc esc n = true → sameRole n.text r.newc = true
  env : ∀ esc nt, r.pe esc nt = true → envRole nt.text r.newe = true ∧ memStr r.newe skip = false

theorem Ren.OK.nil {r : Ren} {skip : List Str} (h : r.OK skip) : r.OK [] :=
  ⟨h.cmd, fun esc nt hp => ⟨(h.env esc nt hp).1, rfl⟩⟩

/-- All that the frame conditions see of a name token. -/
structure SameName (n n' : Tok) : Prop where
  cat : n'.cat = n.cat
  pos : n'.pos = n.pos
  isItem : (n'.text == sItem) = (n.text == sItem)
  isEnd : (n'.text == sEnd) = (n.text == sEnd)
  isBegin : (n'.text == sBegin) = (n.text == sBegin)
  sig : cmdSig (-1) (-1) n'.text = cmdSig (-1) (-1) n.text
  mode : ∀ m, cmdMode n'.text m = cmdMode n.text m

theorem SameName.refl (n : Tok) : SameName n n := ⟨rfl, rfl, rfl, rfl, rfl, rfl, fun _ => rfl⟩

theorem SameName.ne_item {n n' : Tok} (s : SameName n n') : (n'.text != sItem) = (n.text != sItem) := by
  simp only [bne, s.isItem]
theorem SameName.ne_begin {n n' : Tok} (s : SameName n n') : (n'.text != sBegin) = (n.text != sBegin) := by
  simp only [bne, s.isBegin]

theorem sameRole_spec {old new : Str} (h : sameRole old new = true) :
    (new == sItem) = (old == sItem) ∧ (new == sEnd) = (old == sEnd) ∧ (new == sBegin) = (old == sBegin) ∧
    cmdSig (-1) (-1) new = cmdSig (-1) (-1) old ∧ ∀ m, cmdMode new m = cmdMode old m := by
  simp only [sameRole, Bool.and_eq_true, bne_iff_ne, ne_eq, beq_iff_eq] at h
  obtain ⟨⟨⟨⟨⟨h1, h2⟩, h3⟩, h4⟩, h5⟩, h6⟩ := h
  refine ⟨?_, h3.symm, h4.symm, h5.symm, fun m => by simp only [cmdMode, h6]⟩
  have a : (old == sItem) = false := by simpa using h1
  have b : (new == sItem) = false := by simpa using h2
  rw [a, b]

theorem cmdName_same {r : Ren} {skip : List Str} (h : r.OK skip) (esc n : Tok) :
    SameName n (r.cmdName esc n) := by
  unfold Ren.cmdName
  by_cases hp : r.pc esc n = true
  · rw [if_pos hp]
    obtain ⟨h1, h2, h3, h4, h5⟩ := sameRole_spec (h.cmd esc n hp)
    exact ⟨rfl, rfl, h1, h2, h3, h4, h5⟩
  · rw [if_neg hp]; exact SameName.refl n

theorem envMode_congr {a b : Str} (h : memStr a Tables.mathEnvNames = memStr b Tables.mathEnvNames)
    (m : Mode) : envMode a m = envMode b m := by
  simp only [envMode, h]

/-- What the frame conditions see of the two name groups of a renamed environment. -/
theorem envName_facts {r : Ren} {skip : List Str} (h : r.OK skip) (esc : Tok) (nm nm2 : NameArg)
    (hskip : memStr (strip nm.nt.text) skip = false)
    (hname : (nm2.nt.text == strip nm.nt.text) = true) :
    (r.envName (r.pe esc nm.nt) nm).ok = nm.ok ∧ (r.envName (r.pe esc nm.nt) nm2).ok = nm2.ok ∧
    memStr (strip (r.envName (r.pe esc nm.nt) nm).nt.text) skip = false ∧
    (∀ m, envMode (strip (r.envName (r.pe esc nm.nt) nm).nt.text) m = envMode (strip nm.nt.text) m) ∧
    ((r.envName (r.pe esc nm.nt) nm2).nt.text == strip (r.envName (r.pe esc nm.nt) nm).nt.text) = true := by
  by_cases hp : r.pe esc nm.nt = true
  · obtain ⟨hrole, hsk⟩ := h.env esc nm.nt hp
    simp only [envRole, Bool.and_eq_true, beq_iff_eq] at hrole
    simp only [hp, Ren.envName, if_true, hrole.1]
    refine ⟨by simp [NameArg.ok, leafTok], by simp [NameArg.ok, leafTok], hsk,
      fun m => envMode_congr hrole.2.symm m, by simp⟩
  · have hp' : r.pe esc nm.nt = false := by simpa using hp
    simp only [hp', Ren.envName]
    exact ⟨rfl, rfl, hskip, fun _ => rfl, hname⟩

/-! ### first tokens -/

theorem firstTok_rename (r : Ren) (e : Elem) : firstTok (rename r e) = firstTok e := by
  cases e <;> simp [rename, firstTok]

theorem startOK_rename {r : Ren} {skip : List Str} (h : r.OK skip) (ctx : Ctx) (e : Elem) :
    startOK ctx (rename r e) = startOK ctx e := by
  cases e with
  | cmd esc n a1 a2 a3 a4 =>
    have s := cmdName_same h esc n
    have h1 : (some (r.cmdName esc n).text != some sEnd) = (some n.text != some sEnd) := by
      simp only [bne, Option.some_beq_some, s.isEnd]
    have h2 : (some (r.cmdName esc n).text != some sItem) = (some n.text != some sItem) := by
      simp only [bne, Option.some_beq_some, s.isItem]
    cases ctx <;> simp only [rename, startOK, firstTok, nameText, h1, h2]
  | _ => cases ctx <;> simp [rename, startOK, firstTok, nameText]

/-! ### what the frame conditions see of the following tokens -/

/-- the only comparison a look-ahead makes with the text of a name token -/
def stopName (b : Tok) : Bool := b.text == sEnd || b.text == sItem

theorem SameName.stop {n n' : Tok} (s : SameName n n') : stopName n' = stopName n := by
  simp only [stopName, s.isEnd, s.isItem]

/-- two leading tokens decide; of the second one only the category and `stopName` matter -/
theorem key3_two' (a b b' : Tok) (r r' : List Tok) (hc : b'.cat = b.cat) (hs : stopName b' = stopName b) :
    key3 (a :: b' :: r') = key3 (a :: b :: r) := by
  simp only [stopName] at hs
  simp only [key3, hdCat, afterSp, readSpacer, itemStop, hs]
  by_cases h : (a.cat == TC.MergedSpacer) = true <;> simp [h, hc]

/-- An element is one token that is no backslash, or starts with two tokens of which the
renaming changes at most the text of the second, invisibly. -/
theorem head_cases_rename {r : Ren} {skip0 : List Str} (hr : r.OK skip0) {skip : List Str} {m : Mode}
    {nx : List Tok} {e : Elem} (hwf : WF skip m nx e = true) :
    (∃ t, toks e = [t] ∧ toks (rename r e) = [t] ∧ t.cat ≠ .Escape) ∨
    (∃ a b b' r1 r2, toks e = a :: b :: r1 ∧ toks (rename r e) = a :: b' :: r2 ∧ b'.cat = b.cat ∧
      stopName b' = stopName b) := by
  cases e with
  | leaf t =>
    left
    simp only [WF, leafTok, Bool.and_eq_true, bne_iff_ne, ne_eq] at hwf
    exact ⟨t, by simp [toks], by simp [rename, toks], hwf.1.2⟩
  | group o b c =>
    right
    cases b with
    | nil => exact ⟨o, c, c, [], [], by simp [toks], by simp [rename, toks], rfl, rfl⟩
    | cons e1 es =>
      obtain ⟨r1, hr1⟩ := toks_cons e1
      obtain ⟨r2, hr2⟩ := toks_cons (rename r e1)
      rw [firstTok_rename] at hr2
      exact ⟨o, firstTok e1, firstTok e1, _, _, by simp [toks, hr1]; rfl,
        by simp [rename, toks, hr2]; rfl, rfl, rfl⟩
  | math k o b c =>
    right
    cases b with
    | nil => exact ⟨o, c, c, [], [], by simp [toks], by simp [rename, toks], rfl, rfl⟩
    | cons e1 es =>
      obtain ⟨r1, hr1⟩ := toks_cons e1
      obtain ⟨r2, hr2⟩ := toks_cons (rename r e1)
      rw [firstTok_rename] at hr2
      exact ⟨o, firstTok e1, firstTok e1, _, _, by simp [toks, hr1]; rfl,
        by simp [rename, toks, hr2]; rfl, rfl, rfl⟩
  | cmd e n a1 a2 a3 a4 =>
    have s := cmdName_same hr e n
    exact .inr ⟨e, n, r.cmdName e n, _, _, by simp only [toks]; rfl, by simp only [rename, toks]; rfl,
      s.cat, s.stop⟩
  | item e n a1 a2 a3 a4 b =>
    exact .inr ⟨e, n, n, _, _, by simp only [toks]; rfl, by simp only [rename, toks]; rfl, rfl, rfl⟩
  | env e bg nm a2 a3 a4 b e2 en nm2 =>
    exact .inr ⟨e, bg, bg, _, _, by simp only [toks]; rfl, by simp only [rename, toks]; rfl, rfl, rfl⟩
  | venv e bg nm a2 a3 a4 vb e5 =>
    exact .inr ⟨e, bg, bg, _, _, by simp only [toks]; rfl, by simp only [rename, toks]; rfl, rfl, rfl⟩

/-- The frame conditions see the same of a sequence whatever the selected names are called. -/
theorem key3_renameS {r : Ren} {skip0 : List Str} (hr : r.OK skip0) : ∀ (es : List Elem) (skip : List Str)
    (m : Mode) (ctx : Ctx) (nx0 : List Tok), WFs skip m ctx nx0 es = true → ∀ X X', key3 X' = key3 X →
    key3 (toksS (renameS r es) ++ X') = key3 (toksS es ++ X) := by
  intro es
  induction es with
  | nil => intro _ _ _ _ _ X X' h; simpa using h
  | cons e es ih =>
    intro skip m ctx nx0 hwf X X' h
    obtain ⟨hwe, _, hws, _⟩ := WFs_cons hwf
    have hrec := ih skip m ctx nx0 hws X X' h
    simp only [renameS_cons, toksS_cons, List.append_assoc]
    rcases head_cases_rename hr hwe with ⟨t, h1, h2, hne⟩ | ⟨a, b, b', r1, r2, h1, h2, hb, hs⟩
    · rw [h1, h2]; exact key3_one t t _ _ rfl hne hrec
    · rw [h1, h2]; exact key3_two' a b b' _ _ hb hs

/-! ### the look-ahead condition -/

theorem noArgName_rename {r : Ren} {skip : List Str} (hr : r.OK skip) (e : Elem) (n' : Str)
    (h : noArgName (rename r e) = some n') :
    ∃ n, noArgName e = some n ∧ ∀ m, cmdMode n' m = cmdMode n m := by
  cases e with
  | cmd esc name a1 a2 a3 a4 =>
    have s := cmdName_same hr esc name
    cases a1 with
    | nil =>
      cases a2 with
      | nil =>
        simp only [rename, renameA_nil, noArgName, Option.some.injEq] at h
        exact ⟨name.text, rfl, fun m => by rw [← h]; exact s.mode m⟩
      | cons _ _ => simp [rename, noArgName] at h
    | cons _ _ => simp [rename, noArgName] at h
  | _ => simp [rename, noArgName] at h

theorem nextGroup_rename (r : Ren) (es : List Elem) :
    nextGroup (renameS r es) = (nextGroup es).map fun bc => (renameS r bc.1, bc.2) := by
  cases es with
  | nil => simp [nextGroup]
  | cons e1 es1 =>
    cases e1 with
    | group o b c => simp [rename, nextGroup]
    | leaf s =>
      cases es1 with
      | nil => simp [rename, nextGroup]
      | cons e2 es2 =>
        cases e2 <;> simp [rename, nextGroup]
    | _ => simp [rename, nextGroup]

/-! ### well-formedness is kept -/

set_option linter.unnecessarySimpa false in
theorem runOK_rename (r : Ren) {sg : Int × Int} {a1 a2 a3 a4 : List Arg} {nx : List Tok}
    (h : runOK sg a1 a2 a3 a4 nx = true) :
    runOK sg (renameA r a1) (renameA r a2) (renameA r a3) (renameA r a4) nx = true := by
  unfold runOK at h ⊢
  simp only [renameA_length, renameA_isEmpty, tight_renameA]
  by_cases hneg : (decide (sg.1 < 0) && decide (sg.2 < 0)) = true
  · rw [if_pos hneg] at h ⊢
    cases a2 <;> cases a3 <;> cases a4 <;> simpa using h
  · rw [if_neg hneg] at h ⊢
    exact h

mutual
theorem WF_rename {r : Ren} : ∀ (e : Elem) (skip : List Str) (m : Mode) (nx nx' : List Tok),
    WF skip m nx e = true → r.OK skip → key3 nx' = key3 nx → WF skip m nx' (rename r e) = true
  | .leaf t, skip, m, nx, nx', h, _, _ => by
      simpa [rename, WF] using h
  | .group o b c, skip, m, nx, nx', h, hr, _ => by
      simp only [rename, WF, Bool.and_eq_true] at h ⊢
      exact ⟨h.1, WFs_rename b _ _ _ _ _ h.2 hr.nil rfl⟩
  | .math k o b c, skip, m, nx, nx', h, hr, _ => by
      simp only [rename, WF, Bool.and_eq_true] at h ⊢
      exact ⟨h.1, WFs_rename b _ _ _ _ _ h.2 hr.nil rfl⟩
  | .cmd e n a1 a2 a3 a4, skip, m, nx, nx', h, hr, hk => by
      have s := cmdName_same hr e n
      simp only [rename, WF, s.ne_item, s.ne_begin, s.sig, s.mode, Bool.and_eq_true] at h ⊢
      obtain ⟨⟨⟨⟨⟨h0, w1⟩, w2⟩, w3⟩, w4⟩, hrun⟩ := h
      refine ⟨⟨⟨⟨⟨h0, WFa_rename a1 _ _ w1 hr⟩, WFa_rename a2 _ _ w2 hr⟩,
        WFa_rename a3 _ _ w3 hr⟩, WFa_rename a4 _ _ w4 hr⟩, ?_⟩
      rw [runOK_key hk]
      exact runOK_rename r hrun
  | .item e n a1 a2 a3 a4 b, skip, m, nx, nx', h, hr, hk => by
      simp only [rename, WF, Bool.and_eq_true] at h ⊢
      obtain ⟨⟨⟨⟨⟨⟨⟨h0, w1⟩, w2⟩, w3⟩, w4⟩, hrun⟩, hb⟩, hstop⟩ := h
      refine ⟨⟨⟨⟨⟨⟨⟨h0, WFa_rename a1 _ _ w1 hr⟩, WFa_rename a2 _ _ w2 hr⟩,
        WFa_rename a3 _ _ w3 hr⟩, WFa_rename a4 _ _ w4 hr⟩, ?_⟩,
        WFs_rename b _ _ _ _ _ hb hr.nil hk⟩, by rw [itemStop_key hk]; exact hstop⟩
      rw [runOK_key (nx := win (toksS b ++ nx))
        (by rw [key3_win, key3_win]; exact key3_renameS hr b _ _ _ _ hb _ _ hk)]
      exact runOK_rename r hrun
  | .env e bg nm a2 a3 a4 b e2 en nm2, skip, m, nx, nx', h, hr, _ => by
      simp only [rename, WF, Bool.and_eq_true] at h ⊢
      obtain ⟨⟨⟨⟨⟨⟨⟨⟨⟨⟨⟨h0, hnm⟩, w2⟩, w3⟩, w4⟩, hrun⟩, hskip⟩, hb⟩, hesc2⟩, hen⟩, hnm2⟩, hname⟩ := h
      have hskip' : memStr (strip nm.nt.text) skip = false := by simpa using hskip
      obtain ⟨f1, f2, f3, f4, f5⟩ := envName_facts hr e nm nm2 hskip' hname
      refine ⟨⟨⟨⟨⟨⟨⟨⟨⟨⟨⟨h0, by rw [f1]; exact hnm⟩, WFa_rename a2 _ _ w2 hr⟩, WFa_rename a3 _ _ w3 hr⟩,
        WFa_rename a4 _ _ w4 hr⟩, ?_⟩, by rw [f3]; rfl⟩,
        by rw [f4]; exact WFs_rename b _ _ _ _ _ hb hr rfl⟩, hesc2⟩, hen⟩,
        by rw [f2]; exact hnm2⟩, f5⟩
      rw [runOK_key (nx := win (toksS b ++ [e2, en]))
        (by rw [key3_win, key3_win]; exact key3_renameS hr b _ _ _ _ hb _ _ rfl)]
      have := runOK_rename r (a1 := []) hrun
      rw [renameA_cons, renameA_nil, runOK_head_irrel _ _ (r.envName (r.pe e nm.nt) nm).toArg] at this
      exact this
  | .venv e bg nm a2 a3 a4 vb e5, skip, m, nx, nx', h, hr, _ => by
      simp only [rename, WF, Bool.and_eq_true] at h ⊢
      obtain ⟨⟨⟨⟨⟨⟨⟨⟨⟨h0, hnm⟩, w2⟩, w3⟩, w4⟩, hrun⟩, hskip⟩, h5⟩, hfl⟩, hno⟩ := h
      refine ⟨⟨⟨⟨⟨⟨⟨⟨⟨h0, hnm⟩, WFa_rename a2 _ _ w2 hr⟩, WFa_rename a3 _ _ w3 hr⟩,
        WFa_rename a4 _ _ w4 hr⟩, ?_⟩, hskip⟩, h5⟩, hfl⟩, hno⟩
      have := runOK_rename r (a1 := []) hrun
      rw [renameA_cons, renameA_nil, runOK_head_irrel _ _ nm.toArg] at this
      exact this
theorem WFs_rename {r : Ren} : ∀ (es : List Elem) (skip : List Str) (m : Mode) (ctx : Ctx)
    (nx nx' : List Tok), WFs skip m ctx nx es = true → r.OK skip → key3 nx' = key3 nx →
    WFs skip m ctx nx' (renameS r es) = true
  | [], _, _, _, _, _, _, _, _ => by simp [WFs]
  | e :: es, skip, m, ctx, nx, nx', h, hr, hk => by
      obtain ⟨h1, h2, h3, h4⟩ := WFs_cons h
      rw [renameS_cons]
      refine WFs_cons_intro ?_ ?_ (WFs_rename es _ _ _ _ _ h3 hr hk) ?_
      · exact WF_rename e _ _ _ _ h1 hr
          (by rw [key3_win, key3_win]; exact key3_renameS hr es _ _ _ _ h3 _ _ hk)
      · rw [startOK_rename hr]; exact h2
      · rw [peekCond_iff] at h4 ⊢
        intro hctx n' hn' b' c hg
        obtain ⟨n, hn, hmode⟩ := noArgName_rename hr e n' hn'
        rw [nextGroup_rename] at hg
        cases hng : nextGroup es with
        | none => rw [hng] at hg; cases hg
        | some bc =>
          obtain ⟨b, c0⟩ := bc
          rw [hng] at hg
          simp only [Option.map_some, Option.some.injEq, Prod.mk.injEq] at hg
          obtain ⟨rfl, rfl⟩ := hg
          have hb := h4 hctx n hn b c0 hng
          rw [hmode]
          rcases nextGroup_some hng with ⟨o, tl, rfl⟩ | ⟨s, o, tl, rfl, _⟩
          · exact WFs_rename b _ _ _ _ _ hb hr.nil rfl
          · exact WFs_rename b _ _ _ _ _ hb hr.nil rfl
theorem WFarg_rename {r : Ren} : ∀ (a : Arg) (m : Mode) (k : GKind),
    WFarg m k a = true → ∀ {skip : List Str}, r.OK skip → WFarg m k (renameArg r a) = true
  | .mk sp o b c, m, k, h, _, hr => by
      simp only [renameArg, WFarg, Bool.and_eq_true] at h ⊢
      exact ⟨h.1, WFs_rename b _ _ _ _ _ h.2 hr.nil rfl⟩
theorem WFa_rename {r : Ren} : ∀ (as : List Arg) (m : Mode) (k : GKind),
    WFa m k as = true → ∀ {skip : List Str}, r.OK skip → WFa m k (renameA r as) = true
  | [], _, _, _, _, _ => by simp [WFa]
  | a :: as, m, k, h, _, hr => by
      obtain ⟨h1, h2⟩ := WFa_cons h
      simp only [renameA_cons, WFa, Bool.and_eq_true]
      exact ⟨WFarg_rename a _ _ h1 hr, WFa_rename as _ _ h2 hr⟩
end

/-- **Renaming under the side conditions keeps the document well-formed.** -/
theorem WFD_rename {r : Ren} (skip : List Str) (d : Doc) (h : WFD skip d = true) (hr : r.OK skip) :
    WFD skip (renameD r d) = true :=
  WFs_rename d _ _ _ _ _ h hr rfl

end TexSoup.Gram
