import TexSoupModel.Basic
/-!
# Specification for the line/column clause of C13

The line of offset `p` is the number of LF characters before it; its column is its distance
from the index just after the last LF before it (from 0 if there is none).
-/
namespace TexSoup
namespace PosSpec

/-- Index just after the last LF of `t` (0 if `t` has none): `t` minus its LF-free tail. -/
def lineStart (t : Str) : Nat := t.length - (t.reverse.takeWhile (· != 10)).length

/-- True line and column of offset `p` of `s`. -/
def lineCol (s : Str) (p : Nat) : Nat × Nat :=
  ((s.take p).count 10, p - lineStart (s.take p))

end PosSpec
end TexSoup
