import TexSoupProofs.EditLemmasOps
/-!
# Edit lemmas, part 4: the one-step splice theorems in the form used by C05/C14/C15
-/
namespace TexSoup.Edit

/-! ## Node edits (`rename`, `setArgs`) and the user-facing forms -/

theorem frame_sub {α : Type} {s s' A Y Y' B C M M' D : List α} {k : Nat}
    (h : s = A ++ (Y ++ B)) (h' : s' = A ++ (Y' ++ B))
    (hY : Y = C ++ (M ++ D)) (hY' : Y' = C ++ (M' ++ D)) (hk : A.length + C.length = k) :
    s' = s.take k ++ (M' ++ s.drop (k + M.length)) := by
  apply frame_splice (A := A ++ C) (B := D ++ B)
  · rw [h, hY]; simp [List.append_assoc]
  · rw [h', hY']; simp [List.append_assoc]
  · simpa using hk

/-- Two holes filled with the same text (the two name spans of an environment). -/
theorem frame_splice2 {α : Type} {s s' A M E B M' : List α} {k : Nat}
    (h : s = A ++ (M ++ (E ++ (M ++ B)))) (h' : s' = A ++ (M' ++ (E ++ (M' ++ B))))
    (hk : A.length = k) :
    s' = s.take k ++ (M' ++ ((s.drop (k + M.length)).take E.length ++
      (M' ++ s.drop (k + M.length + E.length + M.length)))) := by
  subst hk
  have h1 : s.take A.length = A := by rw [h]; exact List.take_left' rfl
  have h2 : s.drop (A.length + M.length) = E ++ (M ++ B) := by
    rw [h, ← List.append_assoc A M]; exact List.drop_left' (by simp)
  have h3 : s.drop (A.length + M.length + E.length + M.length) = B := by
    rw [h, ← List.append_assoc A M, ← List.append_assoc (A ++ M) E, ← List.append_assoc _ M B]
    exact List.drop_left' (by simp; omega)
  rw [h1, h2, h3, List.take_left' rfl, h']

/-- A node edit (`f` rewrites the node at the non-root path `p`). -/
theorem node_edit {es : List Expr} {op : EditOp} {p : Path} {f : Expr → Option Expr} {y y' : Expr}
    (hp : p ≠ []) (hy : getAtRoot es p = some y) (hf : f y = some y')
    (hop : applyEditE (rootWrap es) op = updAt (rootWrap es) p f) :
    ∃ A B, serL es = A ++ (ser y ++ B) ∧ offAtRoot es p = some A.length ∧
      applyEditE (rootWrap es) op = some (rootWrap (applyEdit es op)) ∧
      serL (applyEdit es op) = A ++ (ser y' ++ B) ∧ getAtRoot (applyEdit es op) p = some y' := by
  cases p with
  | nil => exact absurd rfl hp
  | cons st q =>
    obtain ⟨A, B, hser, hoff, hupd⟩ := updAtRoot_frame hy
    obtain ⟨es', hes', hser', hget'⟩ := hupd f y' hf
    have happ : applyEdit es op = es' := by simp [applyEdit, hop, hes', rootWrap_body]
    refine ⟨A, B, hser, hoff, ?_, ?_, ?_⟩
    · rw [happ, hop, hes']
    · rw [happ, hser']
    · rw [happ, hget']

theorem isEmpty_false_of_ne {p : Path} (hp : p ≠ []) : p.isEmpty = false := by
  cases p <;> simp_all

theorem applyEditE_rename {es : List Expr} {p : Path} (n : Str) (hp : p ≠ []) :
    applyEditE (rootWrap es) (.rename p n) = updAt (rootWrap es) p (renameE n) := by
  simp [applyEditE, isEmpty_false_of_ne hp]

theorem applyEditE_setArgs {es : List Expr} {p : Path} (a : List Expr) (hp : p ≠ []) :
    applyEditE (rootWrap es) (.setArgs p a) = updAt (rootWrap es) p (setArgsE a) := by
  simp [applyEditE, isEmpty_false_of_ne hp]

theorem applyEditE_setString {es : List Expr} {p : Path} (s : Str) (hp : p ≠ []) :
    applyEditE (rootWrap es) (.setString p s) = updAt (rootWrap es) p (setStringE s) := by
  simp [applyEditE, isEmpty_false_of_ne hp]

theorem setArgsE_eq {y : Expr} (a : List Expr) (h : y.hasArgs = true) :
    setArgsE a y = some (y.setArgs a) := by
  cases y <;> simp_all [Expr.hasArgs, setArgsE, Expr.setArgs]

theorem setArgsE_none {y : Expr} (a : List Expr) (h : y.hasArgs = false) :
    setArgsE a y = none := by
  cases y <;> simp_all [Expr.hasArgs, setArgsE]

theorem renameE_none {y : Expr} (n : Str) (h : y.hasArgs = false) : renameE n y = none := by
  cases y <;> simp_all [Expr.hasArgs, renameE]

theorem rename_cmd_core {es : List Expr} {p : Path} {old new : Str} {a b : List Expr} {pos : Int}
    (hp : p ≠ []) (hy : getAtRoot es p = some (.cmd old a b pos)) :
    ∃ k, offAtRoot es p = some k ∧
      getAtRoot (applyEdit es (.rename p new)) p = some (.cmd new a b pos) ∧
      serL (applyEdit es (.rename p new)) =
        (serL es).take (k + 1) ++ (new ++ (serL es).drop (k + 1 + old.length)) := by
  obtain ⟨A, B, hser, hoff, _, hser', hget⟩ :=
    node_edit (y' := .cmd new a b pos) hp hy rfl (applyEditE_rename new hp)
  refine ⟨A.length, hoff, hget, ?_⟩
  exact frame_sub (C := [92]) (D := serL a ++ serL b) hser hser'
    (by simp [ser]) (by simp [ser]) rfl

theorem rename_env_core {es : List Expr} {p : Path} {old new : Str} {a b : List Expr} {pos : Int}
    (hp : p ≠ []) (hy : getAtRoot es p = some (.nenv old a b pos)) :
    ∃ k, offAtRoot es p = some k ∧
      getAtRoot (applyEdit es (.rename p new)) p = some (.nenv new a b pos) ∧
      serL (applyEdit es (.rename p new)) =
        (serL es).take (k + 7) ++ (new ++
          (((serL es).drop (k + 7 + old.length)).take (1 + (serL a).length + (serL b).length + 5) ++
          (new ++ (serL es).drop
            (k + 7 + old.length + (1 + (serL a).length + (serL b).length + 5) + old.length)))) := by
  obtain ⟨A, B, hser, hoff, _, hser', hget⟩ :=
    node_edit (y' := .nenv new a b pos) hp hy rfl (applyEditE_rename new hp)
  refine ⟨A.length, hoff, hget, ?_⟩
  have := frame_splice2 (A := A ++ strBegin) (M := old) (M' := new)
    (E := 125 :: (serL a ++ (serL b ++ strEnd))) (B := 125 :: B) (k := A.length + 7)
    (s := serL es) (s' := serL (applyEdit es (.rename p new)))
    (by rw [hser]; simp [ser, List.append_assoc])
    (by rw [hser']; simp [ser, List.append_assoc])
    (by simp [strBegin])
  rw [this]
  simp [strEnd, Nat.add_assoc, Nat.add_comm, Nat.add_left_comm]

theorem setArgs_core {es : List Expr} {p : Path} {y : Expr} (as : List Expr)
    (hp : p ≠ []) (hy : getAtRoot es p = some y) (ha : y.hasArgs = true) :
    ∃ k, offAtRoot es p = some k ∧
      getAtRoot (applyEdit es (.setArgs p as)) p = some (y.setArgs as) ∧
      serL (applyEdit es (.setArgs p as)) =
        (serL es).take (k + (argsPre y).length) ++
          (serL as ++ (serL es).drop (k + (argsPre y).length + (serL y.args).length)) := by
  obtain ⟨A, B, hser, hoff, _, hser', hget⟩ :=
    node_edit hp hy (setArgsE_eq as ha) (applyEditE_setArgs as hp)
  refine ⟨A.length, hoff, hget, ?_⟩
  exact frame_sub hser hser' (ser_args y ha) (ser_setArgs y as ha) rfl

/-! ## Structural edits -/

theorem parentOK_split {es : List Expr} {p : Path} (h : parentOK es p = true) :
    ∃ q st e, p = q ++ [st] ∧ splitLast p = some (q, st) ∧ getAtRoot es q = some e ∧
      holderOK e st = true := by
  simp only [parentOK] at h
  split at h
  · rename_i q st hsl
    split at h
    · rename_i e he
      exact ⟨q, st, e, splitLast_eq hsl, hsl, he, h⟩
    · cases h
  · cases h

theorem siteOf_delete {es : List Expr} {q : Path} {st : Step} {x : Expr}
    (hx : getAtRoot es (q ++ [st]) = some x) (hok : parentOK es (q ++ [st]) = true) :
    siteOf es (.delete (q ++ [st])) = some ⟨q, st, 1, []⟩ := by
  simp [siteOf, splitLast_snoc, hok, hx]

theorem siteOf_replace {es : List Expr} {q : Path} {st : Step} {x : Expr} (ns : List Expr)
    (hx : getAtRoot es (q ++ [st]) = some x) (hok : parentOK es (q ++ [st]) = true) :
    siteOf es (.replace (q ++ [st]) ns) = some ⟨q, st, 1, ns⟩ := by
  simp [siteOf, splitLast_snoc, hok, hx]

theorem siteOf_insert {es : List Expr} {c : Path} {y : Expr} (i : Nat) (ns : List Expr)
    (hc : getAtRoot es c = some y) (hsc : y.supportsContents = true) :
    siteOf es (.insert c i ns) = some ⟨c, .body (min i y.body.length), 0, ns⟩ := by
  simp [siteOf, hc, hsc]

theorem siteOf_append {es : List Expr} {c : Path} {y : Expr} (ns : List Expr)
    (hc : getAtRoot es c = some y) (hsc : y.supportsContents = true) :
    siteOf es (.append c ns) = some ⟨c, .body y.body.length, 0, ns⟩ := by
  simp [siteOf, hc, hsc]

theorem siteOf_setString {es : List Expr} {p : Path} {y : Expr} {st : Step} {d : Nat} (s : Str)
    (hp : p ≠ []) (hy : getAtRoot es p = some y) (hs : setStringSite y = some (st, d)) :
    siteOf es (.setString p s) = some ⟨p, st, d, [.text s (-1)]⟩ := by
  cases p with
  | nil => exact absurd rfl hp
  | cons t q => simp [siteOf, hy, hs]

/-- Removal or substitution of the node at `p` (`ns = []`: `delete`). -/
theorem remove_core {es : List Expr} {p : Path} {x : Expr} {op : EditOp} (ns : List Expr)
    (hx : getAtRoot es p = some x) (hok : parentOK es p = true)
    (hop : ∀ q st, p = q ++ [st] → siteOf es op = some ⟨q, st, 1, ns⟩) :
    ∃ k, offAtRoot es p = some k ∧
      serL (applyEdit es op) = (serL es).take k ++ (serL ns ++ (serL es).drop (k + (ser x).length)) := by
  obtain ⟨q, st, e, hp, _, he, _⟩ := parentOK_split hok
  subst hp
  obtain ⟨e', l, k, es', he', hl, hd, hoff, _, happ, hser⟩ := site_splice (hop q st rfl)
  simp only at he' hl hd hoff hser
  rw [he] at he'; injection he' with he'; subst he'
  have hxs : l[st.idx]? = some x := by
    rw [← holderList_stepGet hl, ← getAtRoot_snoc he]; exact hx
  rw [take_one_drop hxs, serL_singleton] at hser
  exact ⟨k, by rw [offAtRoot_snoc hx, hoff], by rw [happ, hser]⟩

theorem siteOff_ins {es : List Expr} {c : Path} {y : Expr} (i : Nat)
    (hc : getAtRoot es c = some y) (hb : y.hasBody = true) :
    siteOffRoot es c (.body i) = insOffRoot es c i := by
  cases c with
  | nil => rfl
  | cons t q =>
    simp [siteOffRoot, insOffRoot, hc, offStep, hOff, holderList, hb, insOff, Step.idx]

theorem insert_core {es : List Expr} {c : Path} {y : Expr} {op : EditOp} (i : Nat) (ns : List Expr)
    (hc : getAtRoot es c = some y) (hsc : y.supportsContents = true)
    (hop : siteOf es op = some ⟨c, .body i, 0, ns⟩) :
    ∃ k, insOffRoot es c i = some k ∧
      serL (applyEdit es op) = (serL es).take k ++ (serL ns ++ (serL es).drop k) := by
  obtain ⟨e', l, k, es', he', hl, hd, hoff, _, happ, hser⟩ := site_splice hop
  simp only at he' hl hd hoff hser
  refine ⟨k, ?_, ?_⟩
  · rw [← siteOff_ins i hc (hasBody_of_supportsContents hsc), hoff]
  · rw [happ, hser]; simp

/-- The span (relative offset, length) that `node.string = s` replaces: the contents of the
single argument of a command, or the own contents of an environment. -/
def stringSpan : Expr → Option (Nat × Nat)
  | .cmd n [a] _ _ =>
    if a.hasBody then some (1 + n.length + (bodyPre a).length, (serL a.body).length) else none
  | .cmd _ _ _ _ => none
  | .text _ _ => none
  | e => match contentsOf e with
    | [.text _ _] => some ((bodyPre e).length, (serL e.body).length)
    | _ => none

theorem stringSpan_site {y : Expr} {o len : Nat} (h : stringSpan y = some (o, len)) :
    ∃ st l, setStringSite y = some (st, l.length) ∧ holderList y st = some l ∧ st.idx = 0 ∧
      offStep y st = some o ∧ (serL l).length = len := by
  cases y with
  | text t p => simp [stringSpan] at h
  | cmd n a b p =>
    match a with
    | [] => simp [stringSpan] at h
    | _ :: _ :: _ => simp [stringSpan] at h
    | [a] =>
      simp only [stringSpan] at h
      split at h
      · rename_i hb
        injection h with h; injection h with h1 h2; subst h1 h2
        refine ⟨.arg 0 0, a.body, by simp [setStringSite, hb],
          by simp [holderList, Expr.args, hb], rfl, ?_, rfl⟩
        simp [offStep, hOff, holderList, Expr.args, hb, argsPre, Step.idx, Nat.add_comm]
      · cases h
  | nenv n a b p =>
    simp only [stringSpan] at h
    simp only [setStringSite]
    generalize contentsOf (Expr.nenv n a b p) = c at h
    rcases c with _ | ⟨x, _ | ⟨z, r⟩⟩
    · simp at h
    · cases x <;> simp at h
      obtain ⟨h1, h2⟩ := h; subst h1 h2
      exact ⟨.body 0, b, by simp [Expr.body], by simp [holderList, Expr.hasBody, Expr.body], rfl,
        by simp [offStep, hOff, holderList, Expr.hasBody, Expr.body, Step.idx], rfl⟩
    · simp at h
  | math k b p =>
    simp only [stringSpan] at h
    simp only [setStringSite]
    generalize contentsOf (Expr.math k b p) = c at h
    rcases c with _ | ⟨x, _ | ⟨z, r⟩⟩
    · simp at h
    · cases x <;> simp at h
      obtain ⟨h1, h2⟩ := h; subst h1 h2
      exact ⟨.body 0, b, by simp [Expr.body], by simp [holderList, Expr.hasBody, Expr.body], rfl,
        by simp [offStep, hOff, holderList, Expr.hasBody, Expr.body, Step.idx], rfl⟩
    · simp at h
  | group k b p =>
    simp only [stringSpan] at h
    simp only [setStringSite]
    generalize contentsOf (Expr.group k b p) = c at h
    rcases c with _ | ⟨x, _ | ⟨z, r⟩⟩
    · simp at h
    · cases x <;> simp at h
      obtain ⟨h1, h2⟩ := h; subst h1 h2
      exact ⟨.body 0, b, by simp [Expr.body], by simp [holderList, Expr.hasBody, Expr.body], rfl,
        by simp [offStep, hOff, holderList, Expr.hasBody, Expr.body, Step.idx], rfl⟩
    · simp at h

theorem setString_core {es : List Expr} {p : Path} {y : Expr} {o len : Nat} (s : Str)
    (hp : p ≠ []) (hy : getAtRoot es p = some y) (hs : stringSpan y = some (o, len)) :
    ∃ k, offAtRoot es p = some k ∧
      serL (applyEdit es (.setString p s)) =
        (serL es).take (k + o) ++ (s ++ (serL es).drop (k + o + len)) := by
  obtain ⟨st, l, hsite, hl, hi, hoff, hlen⟩ := stringSpan_site hs
  obtain ⟨e', l', k, es', he', hl', hd, hoff', _, happ, hser⟩ :=
    site_splice (siteOf_setString s hp hy hsite)
  simp only at he' hl' hd hoff' hser
  rw [hy] at he'; injection he' with he'; subst he'
  rw [hl] at hl'; injection hl' with hl'; subst hl'
  cases p with
  | nil => exact absurd rfl hp
  | cons t q =>
    simp only [siteOffRoot, hy, hoff] at hoff'
    cases hk : offAtRoot es (t :: q) with
    | none => simp [hk] at hoff'
    | some k0 =>
      simp only [hk, optAdd_some] at hoff'
      injection hoff' with hoff'; subst hoff'
      refine ⟨k0, rfl, ?_⟩
      rw [happ, hser, hi]
      simp [hlen, ser]

end TexSoup.Edit
