import TexSoupProofs.EditLemmasMain
/-!
# The lookup of `delete` before the repair (commit "delete/replace/remove edited the first
node with equal text"): kept as a model to state that it was not local

`TexNode.delete` searched the parent's arguments first and then its own contents for the first
element *equal* to the target, and expressions compare by their text.
-/
namespace TexSoup.Edit
namespace Legacy

/-- `list.remove(x)` with textual `__eq__`: drop the first element whose text is `t`. -/
def eraseFirst (t : Str) : List Expr → Option (List Expr)
  | [] => none
  | y :: l => if ser y == t then some l else (eraseFirst t l).map (y :: ·)

/-- `for arg in parent.args: if node in arg.contents: arg.remove(node)` – the first argument
that holds an element with text `t` loses (the first) one. -/
def eraseArgs (t : Str) : List Expr → Option (List Expr)
  | [] => none
  | a :: as => match eraseFirst t a.body with
    | some b => some (a.setBody b :: as)
    | none => (eraseArgs t as).map (a :: ·)

/-- The old `TexNode.delete` seen from the parent: arguments first, then its own contents. -/
def deleteE (t : Str) (e : Expr) : Option Expr :=
  match eraseArgs t e.args with
  | some a => some (e.setArgs a)
  | none => (eraseFirst t e.body).map e.setBody

/-- The old `delete` of the node at `p`: the lookup only uses the *text* of the target. -/
def applyDelete (es : List Expr) (p : Path) : List Expr :=
  match splitLast p, getAtRoot es p with
  | some (q, _), some x =>
    match updAt (rootWrap es) q (deleteE (ser x)) with
    | some r => r.body
    | none => es
  | _, _ => es

/-- `\\x y\\x z`: two commands with the same text. -/
def twins : List Expr := [.cmd [120] [] [] 0, .text [32, 121] 2, .cmd [120] [] [] 4, .text [32, 122] 6]

end Legacy
end TexSoup.Edit
