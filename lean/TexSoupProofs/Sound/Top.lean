import TexSoupProofs.Sound.Expr
/-!
# Soundness, part 9: all reader functions, and `read_tex`
-/
namespace TexSoup.Gram
open TexSoup

/-- The soundness invariant holds for every fuel. -/
theorem soundAt (skip0 : List Str) (f : Nat) : SoundAt skip0 f := by
  induction f with
  | zero => exact soundAt_zero skip0
  | succ f ih =>
    exact ⟨sd_readExpr skip0 f ih, sd_readItem skip0 f ih, sd_readMathEnv skip0 f ih,
      sd_readMathBody skip0 f ih, sd_readEnv skip0 f ih, sd_readEnvBody skip0 f ih,
      sd_readCommand skip0 f ih, sd_readArgs skip0 f ih, sd_readArgOpt skip0 f ih,
      sd_readArgReq skip0 f ih, sd_readArg skip0 f ih, sd_readArgBody skip0 f ih⟩

/-- **Whatever `read_tex` returns in strict mode on a representable input is the tree of a
well-formed document with exactly these tokens.** -/
theorem readTex_sound (skip : List Str) : ∀ (f : Nat) (ts : List Tok) (es : List Expr),
    readTex f skip false ts = .ok es → SHyp skip ts → repL .nonMath es = true →
    ∃ d : Doc, toksD d = ts ∧ treeD d = es ∧ WFD skip d = true := by
  intro f
  induction f with
  | zero => intro ts es h; simp [readTex] at h
  | succ f ih =>
    intro ts es h hy hrep
    unfold readTex at h
    cases ts with
    | nil =>
      simp only [Except.ok.injEq] at h
      subst h
      exact ⟨[], rfl, rfl, rfl⟩
    | cons t r =>
      simp only at h
      cases he : readExpr f skip false .nonMath (t :: r) with
      | error e => rw [he] at h; cases h
      | ok v =>
        obtain ⟨e, ts1⟩ := v
        rw [he] at h
        simp only at h
        cases hr : readTex f skip false ts1 with
        | error e' => rw [hr] at h; cases h
        | ok es' =>
          rw [hr] at h
          simp only [Except.ok.injEq] at h
          subst h
          obtain ⟨hr1, hr2⟩ := repL_cons.1 hrep
          obtain ⟨el, htk, htr, hwf⟩ := (soundAt skip f).1 skip .nonMath _ e ts1 he hy (fun _ h => h) hr1
          obtain ⟨d, hd1, hd2, hd3⟩ := ih ts1 es' hr (hy.ofSuf (readExpr_ssuf he).suf) hr2
          refine ⟨el :: d, ?_, ?_, ?_⟩
          · simp only [toksD, toksS_cons] at hd1 ⊢
            rw [hd1, htk]
          · simp only [treeD, trees_cons] at hd2 ⊢
            rw [hd2, htr]
          · unfold WFD at hd3 ⊢
            refine WFs_cons_intro ?_ (by simp [startOK]) hd3 (peekCond_not_env (by simp))
            simp only [toksD] at hd1
            rw [List.append_nil, hd1]; exact hwf

end TexSoup.Gram
