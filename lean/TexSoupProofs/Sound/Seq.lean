import TexSoupProofs.Sound.Defs
/-!
# Soundness, part 1: groups, arguments, math regions
-/
namespace TexSoup.Gram
open TexSoup

section
variable (skip0 : List Str) (f : Nat) (ih : SoundAt skip0 f)
include ih

theorem sd_readArgBody : ∀ k mode ts es rest, readArgBody (f+1) k false mode ts = .ok (es, rest) →
    SHyp skip0 ts → repL mode es = true →
    ∃ b c, toksS b ++ c :: rest = ts ∧ trees b = es ∧ c.cat = k.tokEnd ∧
      WFs [] mode (.grp k) [c] b = true := by
  intro k mode ts es rest h hy hrep
  obtain ⟨hE, -, -, -, -, -, -, -, -, -, -, hAB⟩ := ih
  unfold readArgBody at h
  cases ts with
  | nil => simp at h
  | cons t r =>
    simp only at h
    by_cases hend : (t.cat == k.tokEnd) = true
    · rw [if_pos hend] at h
      simp only [Except.ok.injEq, Prod.mk.injEq] at h
      obtain ⟨rfl, rfl⟩ := h
      exact ⟨[], t, by simp, by simp, by simpa using hend, by simp [WFs]⟩
    · rw [if_neg hend] at h
      obtain ⟨e, ts1, he, h⟩ := Res.bind_eq_ok.mp h
      obtain ⟨es', ts2, hb, h⟩ := Res.bind_eq_ok.mp h
      simp only [Except.ok.injEq, Prod.mk.injEq] at h
      obtain ⟨rfl, rfl⟩ := h
      obtain ⟨hr1, hr2⟩ := repL_cons.1 hrep
      obtain ⟨el, htk, htr, hwf⟩ := hE [] mode _ e ts1 he hy (skipSub_nil _) hr1
      obtain ⟨b, c, htk2, htr2, hc, hwfs⟩ := hAB k mode ts1 es' ts2 hb (hy.ofSuf (readExpr_ssuf he).suf) hr2
      have hcs : c.cat ≠ .MergedSpacer := by rw [hc]; exact tokEnd_ne_sp k
      have hce : c.cat ≠ .Escape := by rw [hc]; exact tokEnd_ne_esc k
      refine ⟨el :: b, c, ?_, by simp [htr, htr2], hc, ?_⟩
      · simp only [toksS_cons, List.append_assoc]
        rw [htk2, htk]
      · refine WFs_cons_intro ?_ ?_ hwfs (peekCond_not_env (by simp))
        · rw [← win_seq_closer b c ts2 hcs hce, htk2]; exact hwf
        · simp only [startOK, bne_iff_ne, ne_eq]
          rw [firstTok_of_toks htk]
          simpa using hend

theorem sd_readArg : ∀ k pos mode ts e rest, readArg (f+1) k pos false mode ts = .ok (e, rest) →
    SHyp skip0 ts → (∀ body, e = .group k body pos → repL mode body = true) →
    ∃ b c, toksS b ++ c :: rest = ts ∧ e = .group k (trees b) pos ∧ c.cat = k.tokEnd ∧
      WFs [] mode (.grp k) [c] b = true := by
  intro k pos mode ts e rest h hy hrep
  obtain ⟨-, -, -, -, -, -, -, -, -, -, -, hAB⟩ := ih
  unfold readArg at h
  obtain ⟨body, ts1, hb, h⟩ := Res.bind_eq_ok.mp h
  simp only [Except.ok.injEq, Prod.mk.injEq] at h
  obtain ⟨rfl, rfl⟩ := h
  obtain ⟨b, c, htk, htr, hc, hwf⟩ := hAB k mode ts body ts1 hb hy (hrep body rfl)
  exact ⟨b, c, htk, by rw [htr], hc, hwf⟩

theorem sd_readMathBody : ∀ k ts es rest, readMathBody (f+1) k false ts = .ok (es, rest) →
    SHyp skip0 ts → repL .math es = true →
    ∃ b, toksS b ++ rest = ts ∧ trees b = es ∧ WFs [] .math (.mth k) (win rest) b = true := by
  intro k ts es rest h hy hrep
  obtain ⟨hE, -, -, hMB, -, -, -, -, -, -, -, -⟩ := ih
  unfold readMathBody at h
  cases ts with
  | nil =>
    simp only [Except.ok.injEq, Prod.mk.injEq] at h
    obtain ⟨rfl, rfl⟩ := h
    exact ⟨[], by simp, by simp, by simp [WFs]⟩
  | cons t r =>
    simp only at h
    by_cases hend : (t.cat == k.tokEnd) = true
    · rw [if_pos hend] at h
      simp only [Except.ok.injEq, Prod.mk.injEq] at h
      obtain ⟨rfl, rfl⟩ := h
      exact ⟨[], by simp, by simp, by simp [WFs]⟩
    · rw [if_neg hend] at h
      obtain ⟨e, ts1, he, h⟩ := Res.bind_eq_ok.mp h
      obtain ⟨es', ts2, hb, h⟩ := Res.bind_eq_ok.mp h
      simp only [Except.ok.injEq, Prod.mk.injEq] at h
      obtain ⟨rfl, rfl⟩ := h
      obtain ⟨hr1, hr2⟩ := repL_cons.1 hrep
      obtain ⟨el, htk, htr, hwf⟩ := hE [] .math _ e ts1 he hy (skipSub_nil _) hr1
      obtain ⟨b, htk2, htr2, hwfs⟩ := hMB k ts1 es' ts2 hb (hy.ofSuf (readExpr_ssuf he).suf) hr2
      refine ⟨el :: b, ?_, by simp [htr, htr2], ?_⟩
      · simp only [toksS_cons, List.append_assoc]
        rw [htk2, htk]
      · refine WFs_cons_intro ?_ ?_ hwfs (peekCond_not_env (by simp))
        · rw [← win_append, htk2]; exact hwf
        · simp only [startOK, bne_iff_ne, ne_eq]
          rw [firstTok_of_toks htk]
          simpa using hend

theorem sd_readMathEnv : ∀ k pos ts e rest, readMathEnv (f+1) k pos false ts = .ok (e, rest) →
    SHyp skip0 ts → (∀ body, e = .math k body pos → repL .math body = true) →
    ∃ b c, toksS b ++ c :: rest = ts ∧ e = .math k (trees b) pos ∧ c.cat = k.tokEnd ∧
      WFs [] .math (.mth k) [c] b = true := by
  intro k pos ts e rest h hy hrep
  obtain ⟨-, -, -, hMB, -, -, -, -, -, -, -, -⟩ := ih
  unfold readMathEnv at h
  obtain ⟨body, ts1, hb, h⟩ := Res.bind_eq_ok.mp h
  cases ts1 with
  | nil => simp at h
  | cons c r =>
    simp only at h
    by_cases hc : (c.cat == k.tokEnd) = true
    · rw [if_pos hc] at h
      simp only [Except.ok.injEq, Prod.mk.injEq] at h
      obtain ⟨rfl, rfl⟩ := h
      obtain ⟨b, htk, htr, hwf⟩ := hMB k ts body (c :: r) hb hy (hrep body rfl)
      have hc' : c.cat = k.tokEnd := by simpa using hc
      rw [win_closer r (by rw [hc']; exact mtokEnd_ne_sp k) (by rw [hc']; exact mtokEnd_ne_esc k)] at hwf
      exact ⟨b, c, htk, by rw [htr], hc', hwf⟩
    · rw [if_neg hc] at h; cases h

end

end TexSoup.Gram
