import TexSoupProofs.Sound.Top
import TexSoupProofs.Properties.TokHyp
import TexSoupProofs.Complete.Canon
/-!
# Soundness, part 10: the token hypotheses for tokenizer output; plain environment names
-/
namespace TexSoup.Gram
open TexSoup

/-- `\end{name}` at a token boundary: five tokens (the statement of `tokenize_skipPlain` with
the tokens made explicit). -/
theorem tokenize_skipFive {s : Str} {ts : List Tok} (hs : NoIgnored s)
    (h : tokenize s = some ts) {name : Str} (hpl : PlainEnvName name) (pre rest : List Tok)
    (hsplit : ts = pre ++ rest) (hb : bufStartsWith (endMarker name) rest = true) :
    ∃ e5 r', rest = e5 ++ r' ∧ e5.length = 5 ∧ flat e5 = endMarker name := by
  subst hsplit
  obtain ⟨f', pt', st', hl, hno⟩ := tokLoop_split h hs
  have hflat : flat rest = st'.rest := ((tokLoop_chain _ _ _ hl).erased).eq_of_no_ignored hno
  obtain ⟨u, hu⟩ := isPrefix_iff.1 hb
  have hrest : st'.rest = endMarker name ++ (u ++ flat (rest.drop (endMarker name).length)) := by
    rw [← hflat, ← List.append_assoc, ← hu, ← flat_app, List.take_append_drop]
  obtain ⟨t1, t2, t3, t4, t5, ts', rfl, e1, _, e2, _, e3, _, e4, _, e5, _⟩ :=
    tokLoop_endMarker hl hrest hpl
  exact ⟨[t1, t2, t3, t4, t5], ts', rfl, rfl, by simp [flat, e1, e2, e3, e4, e5, endMarker, strEnd]⟩

/-- Environment names after `\begin` / `\end` are `{`, one text token, `}` (stated on the reader,
like `C08.EnvNamesPlain`; the certificate reason `env-name-several-tokens` is its negation). -/
def EnvNamesSimple (ts : List Tok) : Prop :=
  ∀ pre esc n r, ts = pre ++ esc :: n :: r → esc.cat = .Escape →
    ∀ g tol mode a0 as rest,
      ((n.text = sBegin ∧ readArgs g (-1) (-1) tol mode r = .ok (a0 :: as, rest)) ∨
       (n.text = sEnd ∧ readArgs g 1 0 tol mode r = .ok (a0 :: as, rest))) →
      ∃ s p q, a0 = .group .brace [.text s p] q ∧ 0 ≤ q

/-- no backslash at the very end of the input -/
def NoTrailingEscape (ts : List Tok) : Prop := ∀ pre esc, ts = pre ++ [esc] → esc.cat ≠ .Escape

/-- The token hypotheses of the soundness theorem hold for tokenizer output, given the two
that talk about the document. -/
theorem shyp_of_tokenize {s : Str} {ts : List Tok} {skip0 : List Str}
    (hs : ∀ c ∈ s, isIgnored (catOf c) = false) (h : tokenize s = some ts)
    (hskip : ∀ n, memStr n skip0 = true → PlainEnvName n)
    (henv : EnvNamesSimple ts) (hesc : NoTrailingEscape ts) : SHyp skip0 ts where
  escFollowed := hesc
  escOK := tokens_escOK hs h
  envNames := henv
  skipFive := fun name hn pre rest hsplit hb => tokenize_skipFive hs h (hskip name hn) pre rest hsplit hb

/-! ### environment names written plainly, read off the tokens -/

/-- every `{name` after `\begin` is its own `strip()` (finding F4b excluded, on the tokens) -/
def BeginPlain (ts : List Tok) : Prop :=
  ∀ pre esc bg sp o nt r, ts = pre ++ esc :: bg :: (sp ++ o :: nt :: r) → esc.cat = .Escape →
    bg.text = sBegin → (∀ x ∈ sp, x.cat = .MergedSpacer) → o.cat = .GroupBegin → strip nt.text = nt.text

theorem BeginPlain.infix {ts : List Tok} (h : BeginPlain ts) (A l B : List Tok) (he : ts = A ++ (l ++ B)) :
    BeginPlain l := by
  subst he
  intro pre esc bg sp o nt r hl h1 h2 h3 h4
  exact h (A ++ pre) esc bg sp o nt (r ++ B) (by rw [hl]; simp) h1 h2 h3 h4

theorem nameArg_plain {nm : NameArg} {esc bg : Tok} {X : List Tok} (hok : nm.ok = true)
    (h : BeginPlain (esc :: bg :: (nm.toks ++ X))) (hesc : esc.cat = .Escape) (hbg : bg.text = sBegin) :
    strip nm.nt.text = nm.nt.text := by
  simp only [NameArg.ok, Bool.and_eq_true, beq_iff_eq] at hok
  refine h [] esc bg nm.sp.toList nm.o nm.nt (nm.c :: X) (by simp [NameArg.toks]) hesc hbg ?_ hok.1.1.1.2
  intro x hx
  cases hsp : nm.sp with
  | none => rw [hsp] at hx; cases hx
  | some s =>
    rw [hsp] at hx
    simp only [Option.toList, List.mem_singleton] at hx
    subst hx
    have := hok.1.1.1.1
    rw [hsp] at this
    simpa [spOK] using this

mutual
theorem envPlain_of_tokens : ∀ (e : Elem) (skip : List Str) (m : Mode) (nx : List Tok),
    WF skip m nx e = true → BeginPlain (toks e) → envNamesPlain e = true
  | .leaf t, _, _, _, _, _ => by simp [envNamesPlain]
  | .group o b c, skip, m, nx, hwf, hp => by
      simp only [WF, Bool.and_eq_true] at hwf
      simp only [envNamesPlain]
      exact envPlainS_of_tokens b _ _ _ _ hwf.2 (hp.infix [o] _ [c] (by simp [toks]))
  | .math k o b c, skip, m, nx, hwf, hp => by
      simp only [WF, Bool.and_eq_true] at hwf
      simp only [envNamesPlain]
      exact envPlainS_of_tokens b _ _ _ _ hwf.2 (hp.infix [o] _ [c] (by simp [toks]))
  | .cmd e n a1 a2 a3 a4, skip, m, nx, hwf, hp => by
      simp only [WF, Bool.and_eq_true] at hwf
      obtain ⟨⟨⟨⟨⟨_, w1⟩, w2⟩, w3⟩, w4⟩, _⟩ := hwf
      simp only [envNamesPlain, Bool.and_eq_true]
      exact ⟨⟨⟨envPlainA_of_tokens a1 _ _ w1 (hp.infix [e, n] _ (toksA a2 ++ (toksA a3 ++ toksA a4)) (by simp [toks])),
        envPlainA_of_tokens a2 _ _ w2 (hp.infix (e :: n :: toksA a1) _ (toksA a3 ++ toksA a4) (by simp [toks]))⟩,
        envPlainA_of_tokens a3 _ _ w3 (hp.infix (e :: n :: (toksA a1 ++ toksA a2)) _ (toksA a4) (by simp [toks]))⟩,
        envPlainA_of_tokens a4 _ _ w4 (hp.infix (e :: n :: (toksA a1 ++ (toksA a2 ++ toksA a3))) _ [] (by simp [toks]))⟩
  | .item e n a1 a2 a3 a4 b, skip, m, nx, hwf, hp => by
      simp only [WF, Bool.and_eq_true] at hwf
      obtain ⟨⟨⟨⟨⟨⟨⟨_, w1⟩, w2⟩, w3⟩, w4⟩, _⟩, hwb⟩, _⟩ := hwf
      simp only [envNamesPlain, Bool.and_eq_true]
      exact ⟨⟨⟨⟨envPlainA_of_tokens a1 _ _ w1 (hp.infix [e, n] _ (toksA a2 ++ (toksA a3 ++ (toksA a4 ++ toksS b))) (by simp [toks])),
        envPlainA_of_tokens a2 _ _ w2 (hp.infix (e :: n :: toksA a1) _ (toksA a3 ++ (toksA a4 ++ toksS b)) (by simp [toks]))⟩,
        envPlainA_of_tokens a3 _ _ w3 (hp.infix (e :: n :: (toksA a1 ++ toksA a2)) _ (toksA a4 ++ toksS b) (by simp [toks]))⟩,
        envPlainA_of_tokens a4 _ _ w4 (hp.infix (e :: n :: (toksA a1 ++ (toksA a2 ++ toksA a3))) _ (toksS b) (by simp [toks]))⟩,
        envPlainS_of_tokens b _ _ _ _ hwb (hp.infix (e :: n :: (toksA a1 ++ (toksA a2 ++ (toksA a3 ++ toksA a4)))) _ [] (by simp [toks]))⟩
  | .env e bg nm a2 a3 a4 b e2 en nm2, skip, m, nx, hwf, hp => by
      simp only [WF, Bool.and_eq_true, beq_iff_eq] at hwf
      obtain ⟨⟨⟨⟨⟨⟨⟨⟨⟨⟨⟨⟨⟨hesc, hbg⟩, _⟩, hnm⟩, w2⟩, w3⟩, w4⟩, _⟩, _⟩, hwb⟩, _⟩, _⟩, _⟩, _⟩ := hwf
      simp only [envNamesPlain, Bool.and_eq_true, beq_iff_eq]
      refine ⟨⟨⟨⟨nameArg_plain hnm (by simpa [toks] using hp) hesc hbg, ?_⟩, ?_⟩, ?_⟩, ?_⟩
      · exact envPlainA_of_tokens a2 _ _ w2 (hp.infix (e :: bg :: nm.toks) _
          (toksA a3 ++ (toksA a4 ++ (toksS b ++ e2 :: en :: nm2.toks))) (by simp [toks]))
      · exact envPlainA_of_tokens a3 _ _ w3 (hp.infix (e :: bg :: (nm.toks ++ toksA a2)) _
          (toksA a4 ++ (toksS b ++ e2 :: en :: nm2.toks)) (by simp [toks]))
      · exact envPlainA_of_tokens a4 _ _ w4 (hp.infix (e :: bg :: (nm.toks ++ (toksA a2 ++ toksA a3))) _
          (toksS b ++ e2 :: en :: nm2.toks) (by simp [toks]))
      · exact envPlainS_of_tokens b _ _ _ _ hwb (hp.infix
          (e :: bg :: (nm.toks ++ (toksA a2 ++ (toksA a3 ++ toksA a4)))) _ (e2 :: en :: nm2.toks)
          (by simp [toks]))
  | .venv e bg nm a2 a3 a4 vb e5, skip, m, nx, hwf, hp => by
      simp only [WF, Bool.and_eq_true, beq_iff_eq] at hwf
      obtain ⟨⟨⟨⟨⟨⟨⟨⟨⟨⟨⟨hesc, hbg⟩, _⟩, hnm⟩, w2⟩, w3⟩, w4⟩, _⟩, _⟩, _⟩, _⟩, _⟩ := hwf
      simp only [envNamesPlain, Bool.and_eq_true, beq_iff_eq]
      refine ⟨⟨⟨nameArg_plain hnm (by simpa [toks] using hp) hesc hbg, ?_⟩, ?_⟩, ?_⟩
      · exact envPlainA_of_tokens a2 _ _ w2 (hp.infix (e :: bg :: nm.toks) _
          (toksA a3 ++ (toksA a4 ++ (vb ++ e5))) (by simp [toks]))
      · exact envPlainA_of_tokens a3 _ _ w3 (hp.infix (e :: bg :: (nm.toks ++ toksA a2)) _
          (toksA a4 ++ (vb ++ e5)) (by simp [toks]))
      · exact envPlainA_of_tokens a4 _ _ w4 (hp.infix (e :: bg :: (nm.toks ++ (toksA a2 ++ toksA a3))) _
          (vb ++ e5) (by simp [toks]))
theorem envPlainS_of_tokens : ∀ (es : List Elem) (skip : List Str) (m : Mode) (ctx : Ctx) (nx : List Tok),
    WFs skip m ctx nx es = true → BeginPlain (toksS es) → envNamesPlainS es = true
  | [], _, _, _, _, _, _ => by simp [envNamesPlainS]
  | e :: es, skip, m, ctx, nx, hwf, hp => by
      obtain ⟨h1, _, h3, _⟩ := WFs_cons hwf
      simp only [envNamesPlainS, Bool.and_eq_true]
      exact ⟨envPlain_of_tokens e _ _ _ h1 (hp.infix [] _ (toksS es) (by simp)),
        envPlainS_of_tokens es _ _ _ _ h3 (hp.infix (toks e) _ [] (by simp))⟩
theorem envPlainArg_of_tokens : ∀ (a : Arg) (m : Mode) (k : GKind),
    WFarg m k a = true → BeginPlain (toksArg a) → envNamesPlainArg a = true
  | .mk sp o b c, m, k, hwf, hp => by
      obtain ⟨_, _, _, hwb⟩ := WFarg_unfold hwf
      simp only [envNamesPlainArg]
      exact envPlainS_of_tokens b _ _ _ _ hwb (hp.infix (sp.toList ++ [o]) _ [c] (by simp [toksArg]))
theorem envPlainA_of_tokens : ∀ (as : List Arg) (m : Mode) (k : GKind),
    WFa m k as = true → BeginPlain (toksA as) → envNamesPlainA as = true
  | [], _, _, _, _ => by simp [envNamesPlainA]
  | a :: as, m, k, hwf, hp => by
      obtain ⟨h1, h2⟩ := WFa_cons hwf
      simp only [envNamesPlainA, Bool.and_eq_true]
      exact ⟨envPlainArg_of_tokens a _ _ h1 (hp.infix [] _ (toksA as) (by simp)),
        envPlainA_of_tokens as _ _ h2 (hp.infix (toksArg a) _ [] (by simp))⟩
end

end TexSoup.Gram
