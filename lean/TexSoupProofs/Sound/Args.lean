import TexSoupProofs.Sound.Seq
/-!
# Soundness, part 2: argument runs (`read_arg_optional`, `read_arg_required`)
-/
namespace TexSoup.Gram
open TexSoup

theorem hdCat_afterSp_of_readSpacer {ts : List Tok} {o : Tok} {r : List Tok}
    (h : (readSpacer ts).2 = o :: r) : hdCat (afterSp ts) = some o.cat := by
  simp [afterSp, h, hdCat]

section
variable (skip0 : List Str) (f : Nat) (ih : SoundAt skip0 f)
include ih

theorem sd_readArgOpt : ∀ n mode ts gs n' rest, readArgOpt (f+1) n false mode ts = .ok ((gs, n'), rest) →
    SHyp skip0 ts → repA mode gs = true →
    ∃ as, toksA as ++ rest = ts ∧ treesA .bracket as = gs ∧ WFa mode .bracket as = true ∧
      n' = n - as.length ∧ (n' = 0 ∨ (hdCat (afterSp rest) != some .BracketBegin) = true) ∧
      (n = 0 → as = []) ∧ (0 ≤ n → 0 ≤ n') := by
  intro n mode ts gs n' rest h hy hrep
  obtain ⟨-, -, -, -, -, -, -, -, hAO, -, hA, -⟩ := ih
  unfold readArgOpt at h
  by_cases h0 : (n == 0) = true
  · rw [if_pos h0] at h
    simp only [Except.ok.injEq, Prod.mk.injEq] at h
    obtain ⟨⟨rfl, rfl⟩, rfl⟩ := h
    have : n = 0 := by simpa using h0
    exact ⟨[], by simp, by simp, by simp [WFa], by simp, .inl this, fun _ => rfl, fun h => h⟩
  · rw [if_neg h0] at h
    have hn0 : n ≠ 0 := by simpa using h0
    cases hs : (readSpacer ts).2 with
    | nil =>
      rw [hs] at h
      simp only [Except.ok.injEq, Prod.mk.injEq] at h
      obtain ⟨⟨rfl, rfl⟩, rfl⟩ := h
      exact ⟨[], by simp, by simp, by simp [WFa], by simp,
        .inr (by simp [afterSp, hs, hdCat]), fun h => absurd h hn0, fun h => h⟩
    | cons o r =>
      rw [hs] at h
      simp only at h
      by_cases hb : (o.cat == TC.BracketBegin) = true
      · rw [if_pos hb] at h
        obtain ⟨g, ts1, hg, h⟩ := Res.bind_eq_ok.mp h
        obtain ⟨gn, ts2, hr, h⟩ := Res.bind_eq_ok.mp h
        simp only [Except.ok.injEq, Prod.mk.injEq] at h
        obtain ⟨⟨rfl, rfl⟩, rfl⟩ := h
        obtain ⟨sp, hsp, hts⟩ := readSpacer_cases hs
        have hyr : SHyp skip0 r := hy.ofSuf (Suf.afterSpacer hs).suf
        obtain ⟨b, c, htk, hge, hc, hwf⟩ := hA .bracket o.pos mode r g ts1 hg hyr (by
          intro body hbody
          subst hbody
          simp only [repA, Bool.and_eq_true] at hrep
          exact hrep.1.2)
        subst hge
        simp only [repA, Bool.and_eq_true] at hrep
        obtain ⟨as, htk2, htr2, hwfa, hn', hstop, _, hnn⟩ := hAO (n - 1) mode ts1 gn.1 gn.2 ts2 hr
          (hyr.ofSuf (readArg_suf hg)) hrep.2
        refine ⟨.mk sp o b c :: as, ?_, ?_, ?_, ?_, hstop, fun h => absurd h hn0, fun h => hnn (by omega)⟩
        · simp only [toksA_cons, toksArg, List.append_assoc, List.cons_append, List.nil_append]
          rw [htk2, htk, hts]
        · simp [treeArg, htr2]
        · simp only [WFa, WFarg, Bool.and_eq_true, beq_iff_eq]
          exact ⟨⟨⟨⟨hsp, by simpa [GKind.tokBegin] using hb⟩, hc⟩, hwf⟩, hwfa⟩
        · rw [hn']; simp only [List.length_cons]; omega
      · rw [if_neg hb] at h
        simp only [Except.ok.injEq, Prod.mk.injEq] at h
        obtain ⟨⟨rfl, rfl⟩, rfl⟩ := h
        refine ⟨[], by simp, by simp, by simp [WFa], by simp, .inr ?_, fun h => absurd h hn0, fun h => h⟩
        rw [hdCat_afterSp_of_readSpacer hs]
        simpa using hb

theorem sd_readArgReq : ∀ n mode ts gs n' rest, readArgReq (f+1) n false mode ts = .ok ((gs, n'), rest) →
    SHyp skip0 ts → repA mode gs = true →
    ∃ as, toksA as ++ rest = ts ∧ treesA .brace as = gs ∧ WFa mode .brace as = true ∧
      n' = n - as.length ∧
      (n' = 0 ∨ (n' < 0 ∧ (hdCat (afterSp rest) != some .GroupBegin) = true) ∨
        (0 < n' ∧ afterSp rest = [])) ∧
      (n = 0 → as = []) ∧ (0 ≤ n → 0 ≤ n') := by
  intro n mode ts gs n' rest h hy hrep
  obtain ⟨-, -, -, -, -, -, -, -, -, hAR, hA, -⟩ := ih
  unfold readArgReq at h
  by_cases h0 : (n == 0) = true
  · rw [if_pos h0] at h
    simp only [Except.ok.injEq, Prod.mk.injEq] at h
    obtain ⟨⟨rfl, rfl⟩, rfl⟩ := h
    have : n = 0 := by simpa using h0
    exact ⟨[], by simp, by simp, by simp [WFa], by simp, .inl this, fun _ => rfl, fun h => h⟩
  · rw [if_neg h0] at h
    have hn0 : n ≠ 0 := by simpa using h0
    cases hs : (readSpacer ts).2 with
    | nil =>
      rw [hs] at h
      simp only [Except.ok.injEq, Prod.mk.injEq] at h
      obtain ⟨⟨rfl, rfl⟩, rfl⟩ := h
      refine ⟨[], by simp, by simp, by simp [WFa], by simp, ?_, fun h => absurd h hn0, fun h => h⟩
      by_cases hneg : n < 0
      · exact .inr (.inl ⟨hneg, by simp [afterSp, hs, hdCat]⟩)
      · exact .inr (.inr ⟨by omega, by simp [afterSp, hs]⟩)
    | cons o r =>
      rw [hs] at h
      simp only at h
      by_cases hb : (o.cat == TC.GroupBegin) = true
      · rw [if_pos hb] at h
        obtain ⟨g, ts1, hg, h⟩ := Res.bind_eq_ok.mp h
        obtain ⟨gn, ts2, hr, h⟩ := Res.bind_eq_ok.mp h
        simp only [Except.ok.injEq, Prod.mk.injEq] at h
        obtain ⟨⟨rfl, rfl⟩, rfl⟩ := h
        obtain ⟨sp, hsp, hts⟩ := readSpacer_cases hs
        have hyr : SHyp skip0 r := hy.ofSuf (Suf.afterSpacer hs).suf
        obtain ⟨b, c, htk, hge, hc, hwf⟩ := hA .brace o.pos mode r g ts1 hg hyr (by
          intro body hbody
          subst hbody
          simp only [repA, Bool.and_eq_true] at hrep
          exact hrep.1.2)
        subst hge
        simp only [repA, Bool.and_eq_true] at hrep
        obtain ⟨as, htk2, htr2, hwfa, hn', hstop, _, hnn⟩ := hAR (n - 1) mode ts1 gn.1 gn.2 ts2 hr
          (hyr.ofSuf (readArg_suf hg)) hrep.2
        refine ⟨.mk sp o b c :: as, ?_, ?_, ?_, ?_, hstop, fun h => absurd h hn0, fun h => hnn (by omega)⟩
        · simp only [toksA_cons, toksArg, List.append_assoc, List.cons_append, List.nil_append]
          rw [htk2, htk, hts]
        · simp [treeArg, htr2]
        · simp only [WFa, WFarg, Bool.and_eq_true, beq_iff_eq]
          exact ⟨⟨⟨⟨hsp, by simpa [GKind.tokBegin] using hb⟩, hc⟩, hwf⟩, hwfa⟩
        · rw [hn']; simp only [List.length_cons]; omega
      · rw [if_neg hb] at h
        by_cases hpos : n > 0
        · rw [if_pos hpos] at h
          exfalso
          by_cases hesc : (o.cat == TC.Escape) = true
          · rw [if_pos hesc] at h
            obtain ⟨na, ts1, _, h⟩ := Res.bind_eq_ok.mp h
            obtain ⟨gn, ts2, _, h⟩ := Res.bind_eq_ok.mp h
            simp only [Except.ok.injEq, Prod.mk.injEq] at h
            obtain ⟨⟨rfl, rfl⟩, rfl⟩ := h
            simp [repA] at hrep
          · rw [if_neg hesc] at h
            obtain ⟨gn, ts2, _, h⟩ := Res.bind_eq_ok.mp h
            simp only [Except.ok.injEq, Prod.mk.injEq] at h
            obtain ⟨⟨rfl, rfl⟩, rfl⟩ := h
            simp [repA] at hrep
        · rw [if_neg hpos] at h
          simp only [Except.ok.injEq, Prod.mk.injEq] at h
          obtain ⟨⟨rfl, rfl⟩, rfl⟩ := h
          refine ⟨[], by simp, by simp, by simp [WFa], by simp, .inr (.inl ⟨by omega, ?_⟩),
            fun h => absurd h hn0, fun h => h⟩
          rw [hdCat_afterSp_of_readSpacer hs]
          simpa using hb

end

end TexSoup.Gram
