import TexSoupProofs.Sound.ArgsRun
/-!
# Soundness, part 4: `read_args` and `read_command`
-/
namespace TexSoup.Gram
open TexSoup

section
variable (skip0 : List Str) (f : Nat) (ih : SoundAt skip0 f)
include ih

theorem sd_readArgs : ∀ nreq nopt mode ts args rest, readArgs (f+1) nreq nopt false mode ts = .ok (args, rest) →
    SHyp skip0 ts → signOK (nreq, nopt) → repA mode args = true → argShape (nreq, nopt) args = true →
    ∃ a1 a2 a3 a4, toksA a1 ++ (toksA a2 ++ (toksA a3 ++ (toksA a4 ++ rest))) = ts ∧
      treesA .bracket a1 ++ (treesA .brace a2 ++ (treesA .bracket a3 ++ treesA .brace a4)) = args ∧
      WFa mode .bracket a1 = true ∧ WFa mode .brace a2 = true ∧
      WFa mode .bracket a3 = true ∧ WFa mode .brace a4 = true ∧
      runOK (nreq, nopt) a1 a2 a3 a4 rest = true := by
  intro nreq nopt mode ts args rest h hy hsign hrep hshape
  have ih' := ih
  obtain ⟨-, -, -, -, -, -, -, -, hAO, hAR, -, -⟩ := ih
  unfold readArgs at h
  by_cases h0 : (nreq == 0 && nopt == 0) = true
  · rw [if_pos h0] at h
    simp only [Except.ok.injEq, Prod.mk.injEq] at h
    obtain ⟨rfl, rfl⟩ := h
    simp only [Bool.and_eq_true, beq_iff_eq] at h0
    obtain ⟨rfl, rfl⟩ := h0
    exact ⟨[], [], [], [], by simp, by simp, by simp [WFa], by simp [WFa], by simp [WFa], by simp [WFa],
      by simp [runOK, tight]⟩
  · rw [if_neg h0] at h
    obtain ⟨⟨g1, c1⟩, ts1, h1, h⟩ := Res.bind_eq_ok.mp h
    obtain ⟨⟨g2, c2⟩, ts2, h2, h⟩ := Res.bind_eq_ok.mp h
    obtain ⟨⟨g3, c3⟩, ts3, h3, h⟩ := Res.bind_eq_ok.mp h
    obtain ⟨⟨g4, c4⟩, ts4, h4, h⟩ := Res.bind_eq_ok.mp h
    simp only [Except.ok.injEq, Prod.mk.injEq] at h
    obtain ⟨rfl, rfl⟩ := h
    simp only at h3 h4
    simp only [repA_append, Bool.and_eq_true] at hrep
    obtain ⟨r1, r2, r3, r4⟩ := hrep
    have hy1 : SHyp skip0 ts1 := hy.ofSuf (readArgOpt_suf h1)
    have hy2 : SHyp skip0 ts2 := hy1.ofSuf (readArgReq_suf h2)
    obtain ⟨a1, k1, t1, w1, e1, s1, z1, p1⟩ := hAO nopt mode ts g1 c1 ts1 h1 hy r1
    obtain ⟨a2, k2, t2, w2, e2, s2, z2, p2⟩ := hAR nreq mode ts1 g2 c2 ts2 h2 hy1 r2
    obtain ⟨a3, k3, t3, w3, ti3, e3, n3, m3, p3⟩ := sd_phase3 skip0 f ih' mode c1 ts2 g3 c3 ts3 h3 hy2 r3
    have hy3 : SHyp skip0 ts3 := by
      rw [← k3] at hy2; exact hy2.suffix
    obtain ⟨a4, k4, t4, w4, ti4, e4, n4, m4⟩ := sd_phase4 skip0 f ih' mode c2 ts3 g4 c4 ts4 h4 hy3 r4
    refine ⟨a1, a2, a3, a4, ?_, ?_, w1, w2, w3, w4, ?_⟩
    · rw [k4, k3, k2, k1]
    · rw [t1, t2, t3, t4]
    -- the frame condition
    have a2nil : a2 = [] → ts2 = ts1 := by
      intro he; subst he; simpa using k2
    have clash : ∀ {c : TC} {l : List Tok}, c ≠ TC.MergedSpacer → nextIs c l = true →
        (hdCat (afterSp l) != some c) = true → False := by
      intro c l hc hn hs
      rw [nextIs_true_afterSp hc hn] at hs
      simp at hs
    rcases hsign with ⟨hn1, hn2⟩ | ⟨hp1, hp2⟩
    · -- open signature: the counts never reach zero
      simp only at hn1 hn2
      have hc1 : c1 ≠ 0 := by omega
      have hc2 : c2 ≠ 0 := by omega
      have stop1 : (hdCat (afterSp ts1) != some TC.BracketBegin) = true := by
        rcases s1 with h | h
        · exact absurd h hc1
        · exact h
      have stop2 : (hdCat (afterSp ts2) != some TC.GroupBegin) = true := by
        rcases s2 with h | h | h
        · omega
        · exact h.2
        · omega
      unfold runOK
      rw [if_pos (by simp [hn1, hn2])]
      simp only [ti3, ti4, Bool.true_and]
      cases a2 with
      | nil =>
        have e21 := a2nil rfl
        cases a3 with
        | cons x xs =>
          exfalso
          have := (m3 (by simp)).1
          rw [e21] at this
          exact clash (by decide) this stop1
        | nil =>
          obtain ⟨e32, _⟩ := n3 rfl
          cases a4 with
          | cons y ys =>
            exfalso
            have := (m4 (by simp)).1
            rw [e32] at this
            exact clash (by decide) this stop2
          | nil =>
            obtain ⟨e43, _⟩ := n4 rfl
            rw [e43, e32]
            simp only [Bool.and_eq_true]
            exact ⟨by rw [e21]; exact stop1, stop2⟩
      | cons b bs =>
        cases a3 with
        | nil =>
          obtain ⟨e32, hnx⟩ := n3 rfl
          have hnx' : nextIs TC.BracketBegin ts2 = false := by
            rcases hnx with h | h
            · exact h
            · exact absurd h hc1
          cases a4 with
          | cons y ys =>
            exfalso
            have := (m4 (by simp)).1
            rw [e32] at this
            exact clash (by decide) this stop2
          | nil =>
            obtain ⟨e43, _⟩ := n4 rfl
            rw [e43, e32]
            simp only [Bool.and_eq_true]
            exact ⟨hdCat_ne_of_nextIs_false hnx', stop2⟩
        | cons x xs =>
          obtain ⟨_, _, st3⟩ := m3 (by simp)
          have stop3 : (hdCat (afterSp ts3) != some TC.BracketBegin) = true := by
            rcases st3 with h | h
            · simp only [List.length_cons] at e3; omega
            · exact h
          cases a4 with
          | nil =>
            obtain ⟨e43, hnx⟩ := n4 rfl
            have hnx' : nextIs TC.GroupBegin ts3 = false := by
              rcases hnx with h | h
              · exact h
              · exact absurd h hc2
            rw [e43]
            simp only [Bool.and_eq_true]
            exact ⟨stop3, hdCat_ne_of_nextIs_false hnx'⟩
          | cons y ys =>
            obtain ⟨_, _, st4⟩ := m4 (by simp)
            simp only [List.length_cons] at e4
            rcases st4 with h | h | h
            · omega
            · exact h.2
            · omega
    · -- fixed signature
      simp only at hp1 hp2
      have hc1 : 0 ≤ c1 := p1 hp2
      have hc2 : 0 ≤ c2 := p2 hp1
      have hc3 : 0 ≤ c3 := p3 hc1
      simp only [argShape] at hshape
      rw [if_neg (by simp; omega)] at hshape
      simp only [decide_eq_true_eq] at hshape
      rw [← t1, ← t2, ← t3, ← t4] at hshape
      simp only [List.countP_append, countP_treesA_bracket, countP_treesA_brace, Nat.zero_add] at hshape
      -- all required arguments were there, so the fourth phase reads nothing
      have hc2z : c2 = 0 := by
        rcases s2 with h | h | h
        · exact h
        · omega
        · exfalso
          -- cut off by the end of input: nothing follows, so the brace count is too small
          have hn3 : nextIs TC.BracketBegin ts2 = false := nextIs_false_of_afterSp_nil (by decide) h.2
          have ha3 : a3 = [] := by
            cases a3 with
            | nil => rfl
            | cons x xs => have := (m3 (by simp)).1; rw [hn3] at this; cases this
          subst ha3
          obtain ⟨e32, _⟩ := n3 rfl
          have hn4 : nextIs TC.GroupBegin ts3 = false := by
            rw [e32]; exact nextIs_false_of_afterSp_nil (by decide) h.2
          have ha4 : a4 = [] := by
            cases a4 with
            | nil => rfl
            | cons y ys => have := (m4 (by simp)).1; rw [hn4] at this; cases this
          subst ha4
          simp only [List.length_nil] at hshape
          omega
      have ha4 : a4 = [] := by
        cases a4 with
        | nil => rfl
        | cons y ys => exact absurd hc2z (m4 (by simp)).2.1
      subst ha4
      obtain ⟨e43, _⟩ := n4 rfl
      simp only [List.length_nil] at hshape
      have h32 : a3 = [] ∨ a2 ≠ [] := by
        cases a3 with
        | nil => left; rfl
        | cons x xs =>
          right
          intro he
          obtain ⟨hnx, hc1', _⟩ := m3 (by simp)
          rw [a2nil he] at hnx
          rcases s1 with h | h
          · exact hc1' h
          · exact clash (by decide) hnx h
      unfold runOK
      rw [if_neg (by simp; omega), if_pos (by simp [hp1, hp2])]
      simp only [List.isEmpty_nil, Bool.true_and, Bool.and_eq_true, decide_eq_true_eq, Bool.or_eq_true,
        Bool.not_eq_true', List.isEmpty_eq_false_iff, List.isEmpty_iff, ti3]
      refine ⟨⟨⟨h32, by omega⟩, by omega⟩, ?_⟩
      rw [e43]
      by_cases hz : c3 = 0
      · left; omega
      · right
        cases a3 with
        | cons x xs =>
          rcases (m3 (by simp)).2.2 with h | h
          · exact absurd h hz
          · exact h
        | nil =>
          obtain ⟨e32, hnx3⟩ := n3 rfl
          simp only [List.length_nil, Int.natCast_zero, Int.sub_zero] at e3
          simp only [if_true, Bool.and_eq_true, Bool.or_eq_true, Bool.not_eq_true',
            List.isEmpty_eq_false_iff]
          rw [e32]
          have hz1 : c1 ≠ 0 := by omega
          have hnx' : nextIs TC.BracketBegin ts2 = false := by
            rcases hnx3 with h | h
            · exact h
            · exact absurd h hz1
          refine ⟨hdCat_ne_of_nextIs_false hnx', ?_⟩
          cases a2 with
          | cons b bs => left; simp
          | nil =>
            right
            rw [a2nil rfl]
            rcases s1 with h | h
            · exact absurd h hz1
            · exact h

theorem sd_readCommand : ∀ nreq nopt mode ts n args rest,
    readCommand (f+1) nreq nopt false mode ts = .ok ((n, args), rest) →
    SHyp skip0 ts → ts ≠ [] → signOK (cmdSig nreq nopt n.text) →
    repA (cmdMode n.text mode) args = true → argShape (cmdSig nreq nopt n.text) args = true →
    ∃ r a1 a2 a3 a4, ts = n :: r ∧ toksA a1 ++ (toksA a2 ++ (toksA a3 ++ (toksA a4 ++ rest))) = r ∧
      treesA .bracket a1 ++ (treesA .brace a2 ++ (treesA .bracket a3 ++ treesA .brace a4)) = args ∧
      WFa (cmdMode n.text mode) .bracket a1 = true ∧ WFa (cmdMode n.text mode) .brace a2 = true ∧
      WFa (cmdMode n.text mode) .bracket a3 = true ∧ WFa (cmdMode n.text mode) .brace a4 = true ∧
      runOK (cmdSig nreq nopt n.text) a1 a2 a3 a4 rest = true := by
  intro nreq nopt mode ts n args rest h hy hne hsign hrep hshape
  obtain ⟨-, -, -, -, -, -, -, hAs, -, -, -, -⟩ := ih
  unfold readCommand at h
  cases ts with
  | nil => exact absurd rfl hne
  | cons n' r =>
    simp only at h
    obtain ⟨args', ts2, ha, h⟩ := Res.bind_eq_ok.mp h
    simp only [Except.ok.injEq, Prod.mk.injEq] at h
    obtain ⟨⟨rfl, rfl⟩, rfl⟩ := h
    obtain ⟨a1, a2, a3, a4, htk, htr, w1, w2, w3, w4, hrun⟩ :=
      hAs (cmdSig nreq nopt n'.text).1 (cmdSig nreq nopt n'.text).2 (cmdMode n'.text mode) r args' ts2 ha
        hy.tail hsign hrep hshape
    exact ⟨r, a1, a2, a3, a4, rfl, htk, htr, w1, w2, w3, w4, hrun⟩

end

end TexSoup.Gram
