import TexSoupProofs.Sound.Defs
import TexSoupProofs.Complete.Main
import TexSoupProofs.Complete.ModeMonoWF
import TexSoupProofs.Reader.ModeMono
import TexSoupProofs.Reader.Fuel
import TexSoupProofs.Reader.HypCheck
/-!
# Soundness: the look-ahead of `read_env` on an argument-less command in front of a group

In an environment body every element that starts with a backslash is first *peeked* with the
signature `(1, 0)` of `\end`. For a command written without arguments that is directly followed
by a free brace group, the peek reads that group as an argument – in the mode of the environment
(math mode in `equation`, …), although the group itself is read in non-math mode afterwards.
`WFs` asks that the group is well-formed in that mode, too. Here this is derived from the fact
that the peek succeeded:

 * what a reader returns in math mode it returns in non-math mode (`readArg_math_nonMath`), so
   the peek returned the tree of the group;
 * the soundness invariant applied to the peek gives a body that is well-formed in math mode,
   with the same tokens and the same tree;
 * well-formed in math mode implies well-formed in non-math mode (`WFs_mle`), so that body can
   be *swapped in* for the body of the group in the witness (`swap_group`).
-/
namespace TexSoup.Gram
open TexSoup

theorem special_open : ∀ n, memStr n Tables.specialCommands = true → cmdSig (-1) (-1) n = (-1, -1) := by
  have key : ∀ n ∈ Tables.specialCommands, cmdSig (-1) (-1) n = (-1, -1) := by decide
  intro n hn
  exact key n (memStr_mem hn)

theorem readArg_fuel_up {g f : Nat} {k pos tol mode ts} {r : Expr × List Tok}
    (h : readArg g k pos tol mode ts = .ok r) (hle : g ≤ f) : readArg f k pos tol mode ts = .ok r := by
  obtain ⟨d, rfl⟩ := Nat.exists_eq_add_of_le hle
  clear hle
  induction d with
  | zero => exact h
  | succ d ihd => exact (fuelMonoAt (g + d)).2.2.2.2.2.2.2.2.2.2.1 _ _ _ _ _ _ ihd

/-- the look-ahead with the signature of `\end` reads a brace group that follows -/
theorem peek_reads_group {f : Nat} {tol : Bool} {mode : Mode} {n : Tok} {X : List Tok}
    {r : (Tok × List Expr) × List Tok} {o : Tok} {r3 : List Tok}
    (h : readCommand f 1 0 tol mode (n :: X) = .ok r) (hs : (readSpacer X).2 = o :: r3)
    (ho : o.cat = .GroupBegin) :
    ∃ g a ts', g ≤ f ∧ readArg g .brace o.pos tol (cmdMode n.text mode) r3 = .ok (a, ts') := by
  cases f with
  | zero => simp [readCommand] at h
  | succ f1 =>
    unfold readCommand at h
    simp only at h
    obtain ⟨args, ts2, h, -⟩ := Res.bind_eq_ok.mp h
    rw [cmdSig_given 1 0 (by omega)] at h
    simp only at h
    cases f1 with
    | zero => simp [readArgs] at h
    | succ g1 =>
      unfold readArgs at h
      rw [if_neg (by decide)] at h
      obtain ⟨an1, ts1, h1, h⟩ := Res.bind_eq_ok.mp h
      obtain ⟨an2, ts2', h2, -⟩ := Res.bind_eq_ok.mp h
      have hz1 := readArgOpt_zero h1
      simp only [Prod.mk.injEq] at hz1
      obtain ⟨-, et1⟩ := hz1
      subst et1
      cases g1 with
      | zero => simp [readArgReq] at h2
      | succ g2 =>
        unfold readArgReq at h2
        rw [if_neg (by decide), hs] at h2
        simp only at h2
        rw [if_pos (by simp [ho])] at h2
        obtain ⟨gA, tsA, hA, -⟩ := Res.bind_eq_ok.mp h2
        exact ⟨g2, gA, tsA, by omega, hA⟩

theorem append_closer_inj {a a' Y : List Tok} {c c' : Tok} (h : a ++ c :: Y = a' ++ c' :: Y) :
    a = a' ∧ c = c' := by
  have h' : (a ++ [c]) ++ Y = (a' ++ [c']) ++ Y := by simpa using h
  have h2 := List.append_cancel_right h'
  have := List.append_inj' h2 rfl
  exact ⟨this.1, by simpa using this.2⟩

/-- what follows when the next element (after at most one spacer leaf) is a free group -/
theorem nextGroup_afterSp {skip : List Str} {m : Mode} {ctx : Ctx} {nx : List Tok} {b : List Elem}
    {bb : List Elem} {c : Tok} (hw : WFs skip m ctx nx b = true) (hg : nextGroup b = some (bb, c))
    (X : List Tok) :
    hdCat (afterSp (toksS b ++ X)) = some .GroupBegin ∧
    WFs [] .nonMath (.grp .brace) [c] bb = true ∧
    ∃ o Y, (readSpacer (toksS b ++ X)).2 = o :: (toksS bb ++ c :: Y) ∧ o.cat = .GroupBegin ∧
      c.cat = .GroupEnd ∧ (∃ pre, toksS b ++ X = pre ++ (toksS bb ++ c :: Y)) ∧
      ∃ pre' post', trees b = pre' ++ .group .brace (trees bb) o.pos :: post' := by
  rcases nextGroup_some hg with ⟨o, tl, rfl⟩ | ⟨s, o, tl, rfl, hs⟩
  · obtain ⟨h1, _, _, _⟩ := WFs_cons hw
    simp only [WF, Bool.and_eq_true, beq_iff_eq] at h1
    refine ⟨?_, h1.2, o, toksS tl ++ X, ?_, h1.1.1, h1.1.2, ⟨[o], by simp [toks]⟩, [], trees tl, by simp [tree]⟩
    · simp only [toksS_cons, toks, List.cons_append]
      rw [afterSp_cons_ne _ (by rw [h1.1.1]; decide)]
      simp [hdCat, h1.1.1]
    · simp [toks, readSpacer, h1.1.1]
  · obtain ⟨_, _, h3, _⟩ := WFs_cons hw
    obtain ⟨h1, _, _, _⟩ := WFs_cons h3
    simp only [WF, Bool.and_eq_true, beq_iff_eq] at h1
    refine ⟨?_, h1.2, o, toksS tl ++ X, ?_, h1.1.1, h1.1.2, ⟨[s, o], by simp [toks]⟩,
      [.text s.text s.pos], trees tl, by simp [tree]⟩
    · simp only [toksS_cons, toks, List.cons_append, List.nil_append]
      rw [afterSp_cons_sp _ hs]
      simp [hdCat, h1.1.1]
    · simp [toks, readSpacer, hs]

/-- replace the body of the group that follows by another one with the same tokens and tree -/
theorem swap_group {skip : List Str} {m : Mode} {nx : List Tok} {b bb bb' : List Elem} {c : Tok}
    (hw : WFs skip m .env nx b = true) (hg : nextGroup b = some (bb, c))
    (htk : toksS bb' = toksS bb) (htr : trees bb' = trees bb)
    (hwf' : WFs [] .nonMath (.grp .brace) [c] bb' = true) :
    ∃ b', toksS b' = toksS b ∧ trees b' = trees b ∧ WFs skip m .env nx b' = true ∧
      nextGroup b' = some (bb', c) := by
  rcases nextGroup_some hg with ⟨o, tl, rfl⟩ | ⟨s, o, tl, rfl, hs⟩
  · obtain ⟨h1, h2, h3, _⟩ := WFs_cons hw
    refine ⟨.group o bb' c :: tl, by simp [toks, htk], by simp [tree, htr], ?_, by simp [nextGroup]⟩
    refine WFs_cons_intro ?_ (by simp [startOK, nameText]) h3 ?_
    · simp only [WF, Bool.and_eq_true] at h1 ⊢
      exact ⟨h1.1, hwf'⟩
    · rw [peekCond_iff]
      intro _ n hn
      simp [noArgName] at hn
  · obtain ⟨g1, g2, g3, _⟩ := WFs_cons hw
    obtain ⟨h1, h2, h3, _⟩ := WFs_cons g3
    have hs' : s.cat = .MergedSpacer := by simpa using hs
    refine ⟨.leaf s :: .group o bb' c :: tl, by simp [toks, htk], by simp [tree, htr], ?_,
      by simp [nextGroup, hs']⟩
    refine WFs_cons_intro ?_ g2 ?_ ?_
    · have : toksS (Elem.group o bb' c :: tl) = toksS (Elem.group o bb c :: tl) := by simp [toks, htk]
      rw [this]; exact g1
    · refine WFs_cons_intro ?_ (by simp [startOK, nameText]) h3 ?_
      · simp only [WF, Bool.and_eq_true] at h1 ⊢
        exact ⟨h1.1, hwf'⟩
      · rw [peekCond_iff]
        intro _ n hn
        simp [noArgName] at hn
    · rw [peekCond_iff]
      intro _ n hn
      simp [noArgName] at hn

/-- **The look-ahead clause of `WFs`, from the fact that the look-ahead succeeded.** The witness
for the rest of the body is adjusted (`swap_group`). -/
theorem peekCond_of_peek (skip0 : List Str) (f : Nat) (ih : SoundAt skip0 f) {skip : List Str}
    {mode : Mode} {nx : List Tok} {el : Elem} {b : List Elem} {ts2 : List Tok} {t : Tok} {r : List Tok}
    (hmode : mode ≠ .special)
    (hwf : WF skip mode (win (toksS b ++ ts2)) el = true) (hwb : WFs skip mode .env nx b = true)
    (htk : toks el ++ (toksS b ++ ts2) = t :: r) (hy : SHyp skip0 (t :: r))
    (hrep : repL mode (trees b) = true)
    (hpk : noArgName el ≠ none → ∃ na ts', readCommand f 1 0 false mode r = .ok (na, ts')) :
    ∃ b', toksS b' = toksS b ∧ trees b' = trees b ∧ WFs skip mode .env nx b' = true ∧
      peekCond mode .env el b' = true := by
  cases hna : noArgName el with
  | none =>
    refine ⟨b, rfl, rfl, hwb, ?_⟩
    rw [peekCond_iff]; intro _ n hn; rw [hna] at hn; cases hn
  | some nm =>
    cases hng : nextGroup b with
    | none =>
      refine ⟨b, rfl, rfl, hwb, ?_⟩
      rw [peekCond_iff]; intro _ n _ bb c hg; rw [hng] at hg; cases hg
    | some bc =>
      obtain ⟨bb, c⟩ := bc
      obtain ⟨hgb, hwbb, o, Y, hsp, ho, hcc, ⟨pre, hpre⟩, pre', post', htrb⟩ :=
        nextGroup_afterSp hwb hng ts2
      obtain ⟨esc, name, a3, a4, rfl, rfl⟩ := noArgName_some hna
      simp only [WF, Bool.and_eq_true] at hwf
      have hrun := hwf.2
      rw [runOK_win] at hrun
      obtain ⟨rfl, rfl⟩ := runOK_noargs hrun
      by_cases hspc : memStr name.text Tables.specialCommands = true
      · exfalso
        have := runOK_noargs_open (by rw [special_open _ hspc]; decide) hrun
        rw [hgb] at this
        simp at this
      · have hcm : cmdMode name.text mode = mode := by unfold cmdMode; rw [if_neg hspc]
        cases mode with
        | special => exact absurd rfl hmode
        | nonMath =>
          refine ⟨b, rfl, rfl, hwb, ?_⟩
          rw [peekCond_iff]
          intro _ n hn bb2 c2 hg
          rw [hng] at hg
          simp only [Option.some.injEq, Prod.mk.injEq] at hg
          obtain ⟨rfl, rfl⟩ := hg
          simp only [noArgName, Option.some.injEq] at hn
          subst hn
          rw [hcm]; exact hwbb
        | math =>
          -- the peek
          obtain ⟨na, ts', hc⟩ := hpk (by rw [hna]; simp)
          simp only [toks, toksA_nil, List.append_nil, List.nil_append, List.cons_append,
            List.cons.injEq] at htk
          obtain ⟨rfl, rfl⟩ := htk
          obtain ⟨g, a, tsA, hgle, hA⟩ := peek_reads_group hc hsp ho
          rw [hcm] at hA
          -- the same call in non-math mode returns the tree of the group
          have hN := readArg_math_nonMath hA
          have hcompl := readArg_complete .brace o.pos false .nonMath c hcc bb (elems_both bb) hwbb Y _
            (Nat.le_refl _)
          have hdet := readArg_fuel_det hN hcompl
          simp only [Prod.mk.injEq] at hdet
          obtain ⟨rfl, rfl⟩ := hdet
          -- the invariant, applied to the peek
          have hAf := readArg_fuel_up hA (Nat.le_trans hgle (Nat.le_refl f))
          obtain ⟨-, -, -, -, -, -, -, -, -, -, hArg, -⟩ := ih
          have hy' : SHyp skip0 (toksS bb ++ c :: tsA) := by
            have : esc :: name :: (toksS b ++ ts2) = (esc :: name :: pre) ++ (toksS bb ++ c :: tsA) := by
              rw [hpre]; simp
            rw [this] at hy
            exact hy.suffix
          have hrbb : repL .math (trees bb) = true := by
            rw [htrb, repL_mode .math .nonMath] at hrep
            have h1 : repL .nonMath (.group .brace (trees bb) o.pos :: post') = true := by
              clear hpre htrb
              induction pre' with
              | nil => simpa using hrep
              | cons x xs ihx => exact ihx (repL_cons.1 (by simpa using hrep)).2
            have h2 := (repL_cons.1 h1).1
            rw [repL_mode .math .nonMath]
            simpa [rep] using h2
          obtain ⟨bb', c', htk', htr', hc', hwf'⟩ := hArg .brace o.pos .math _ _ tsA hAf hy' (by
            intro body hb
            simp only [Expr.group.injEq, true_and, and_true] at hb
            rw [← hb]; exact hrbb)
          obtain ⟨htkbb, rfl⟩ := append_closer_inj htk'
          simp only [Expr.group.injEq, true_and, and_true] at htr'
          obtain ⟨b', e1, e2, hwb', hng'⟩ := swap_group hwb hng htkbb htr'.symm
            (WFs_mle bb' _ _ _ _ _ MLe.math_nonMath hwf')
          refine ⟨b', e1, e2, hwb', ?_⟩
          rw [peekCond_iff]
          intro _ n hn bb2 c2 hg
          rw [hng'] at hg
          simp only [Option.some.injEq, Prod.mk.injEq] at hg
          obtain ⟨rfl, rfl⟩ := hg
          simp only [noArgName, Option.some.injEq] at hn
          subst hn
          rw [hcm]; exact hwf'

end TexSoup.Gram
