import TexSoupProofs.Sound.ExprHelp
/-!
# Soundness, part 8: `read_expr`
-/
namespace TexSoup.Gram
open TexSoup

section
variable (skip0 : List Str) (f : Nat) (ih : SoundAt skip0 f)
include ih

theorem sd_readExpr : ∀ skip mode ts e rest, readExpr (f+1) skip false mode ts = .ok (e, rest) →
    SHyp skip0 ts → SkipSub skip skip0 → rep mode e = true →
    ∃ el, toks el ++ rest = ts ∧ tree el = e ∧ WF skip mode (win rest) el = true := by
  intro skip mode ts e rest h hy hsub hrep
  obtain ⟨-, hI, hME, -, hEnv, -, hC, -, -, -, hA, -⟩ := ih
  cases ts with
  | nil => simp [readExpr] at h
  | cons c ts' =>
    by_cases hesc : c.cat = .Escape
    · -- a backslash
      rw [readExpr_escape f skip false mode c ts' hesc] at h
      obtain ⟨⟨n, args⟩, ts1, hc, h2⟩ := Res.bind_eq_ok.mp h
      clear h
      simp only at h2
      have h := h2
      clear h2
      have hne : ts' ≠ [] := by
        intro he; subst he
        exact hy.escFollowed [] c rfl hesc
      obtain ⟨n0, r0, rfl⟩ : ∃ n0 r0, ts' = n0 :: r0 := by
        cases ts' with
        | nil => exact absurd rfl hne
        | cons a b => exact ⟨a, b, rfl⟩
      have hn0 : n = n0 := readCommand_head hc
      subst hn0
      have hstrip : strip n.text = n.text := hy.escOK [] c n r0 rfl hesc
      have hy1 : SHyp skip0 ts1 := hy.tail.ofSuf (readCommand_suf hc)
      by_cases hitem : (n.text == sItem) = true
      · -- `\item`
        rw [if_pos hitem] at h
        by_cases hm : (mode == Mode.math) = true
        · rw [if_pos hm] at h; cases h
        · rw [if_neg hm] at h
          obtain ⟨body, ts2, hi, h⟩ := Res.bind_eq_ok.mp h
          simp only [Except.ok.injEq, Prod.mk.injEq] at h
          obtain ⟨rfl, rfl⟩ := h
          simp only [rep, hstrip, Bool.and_eq_true] at hrep
          obtain ⟨⟨hsh, hra⟩, hrb⟩ := hrep
          obtain ⟨r, a1, a2, a3, a4, hr, htk, htr, w1, w2, w3, w4, hrun⟩ :=
            hC (-1) (-1) mode (n :: r0) n args ts1 hc hy.tail (by simp) (cmdSig_signOK _) hra hsh
          simp only [List.cons.injEq, true_and] at hr
          subst hr
          obtain ⟨b, htk2, htr2, hwfs, hstop⟩ := hI ts1 body ts2 hi hy1 hrb
          refine ⟨.item c n a1 a2 a3 a4 b, ?_, ?_, ?_⟩
          · simp only [toks, List.cons_append, List.append_assoc]
            rw [htk2, htk]
          · simp only [tree, htr, htr2, hstrip]
          · simp only [WF, Bool.and_eq_true, beq_iff_eq, bne_iff_ne, ne_eq]
            refine ⟨⟨⟨⟨⟨⟨⟨⟨⟨hesc, by simpa using hitem⟩, by simpa using hm⟩, w1⟩, w2⟩, w3⟩, w4⟩, ?_⟩, hwfs⟩,
              by rw [itemStop_win]; exact hstop⟩
            rw [← win_append, runOK_win, htk2]; exact hrun
      · rw [if_neg hitem] at h
        by_cases hbeg : (n.text == sBegin && mode != Mode.special) = true
        · -- `\begin`
          rw [if_pos hbeg] at h
          simp only [Bool.and_eq_true, beq_iff_eq, bne_iff_ne, ne_eq] at hbeg
          obtain ⟨hnb, hms⟩ := hbeg
          cases args with
          | nil => simp at h
          | cons a0 as =>
            simp only at h
            obtain ⟨r1, g1, hr1, hargs⟩ := readCommand_named hc (.inl hnb)
            simp only [List.cons.injEq, true_and] at hr1
            subst hr1
            obtain ⟨s, p, q, ha0, hq⟩ :=
              hy.envNames [] c n r0 rfl hesc g1 false mode a0 as ts1 (.inl ⟨hnb, hargs⟩)
            subst ha0
            rw [string_group_text] at h
            have hcm : cmdMode n.text mode = mode := by rw [hnb]; exact cmdMode_begin mode
            have hsg : cmdSig (-1) (-1) n.text = (-1, -1) := by rw [hnb]; exact cmdSig_begin
            -- the run, once the arguments are known to be representable
            have run : repA mode as = true →
                ∃ sp o t cc a2' a3 a4, t.text = s ∧
                  as = treesA .brace a2' ++ (treesA .bracket a3 ++ treesA .brace a4) ∧
                  (⟨sp, o, t, cc⟩ : NameArg).ok = true ∧
                  (⟨sp, o, t, cc⟩ : NameArg).toks ++ (toksA a2' ++ (toksA a3 ++ (toksA a4 ++ ts1))) = r0 ∧
                  WFa mode .brace a2' = true ∧ WFa mode .bracket a3 = true ∧ WFa mode .brace a4 = true ∧
                  runOK (cmdSig (-1) (-1) n.text) [] ((⟨sp, o, t, cc⟩ : NameArg).toArg :: a2') a3 a4 ts1 = true := by
              intro hra
              obtain ⟨r, a1, a2, a3, a4, hr, htk, htr, w1, w2, w3, w4, hrun⟩ :=
                hC (-1) (-1) mode (n :: r0) n _ ts1 hc hy.tail (by simp) (cmdSig_signOK _)
                  (by rw [hcm]; simp [repA, repL, rep, hq, hra]) (by rw [hsg]; rfl)
              simp only [List.cons.injEq, true_and] at hr
              subst hr
              rw [hcm] at w1 w2 w3 w4
              obtain ⟨sp, o, t, cc, a2', rfl, rfl, hts, has, hok⟩ := begin_run_shape htr hrun w2
              obtain ⟨_, w2'⟩ := WFa_cons w2
              refine ⟨sp, o, t, cc, a2', a3, a4, hts, has, hok, ?_, w2', w3, w4, hrun⟩
              simpa [NameArg.toks, toksArg, toks] using htk
            by_cases hskip : memStr (strip s) skip = true
            · -- a verbatim-like environment
              rw [if_pos hskip] at h
              unfold readSkipEnv at h
              cases hb : skipBody (endMarker (strip s)) ts1 with
              | mk vb r1 =>
                rw [hb] at h
                simp only at h
                by_cases hs : bufStartsWith (endMarker (strip s)) r1 = true
                · rw [if_pos hs] at h
                  simp only [Except.ok.injEq, Prod.mk.injEq] at h
                  obtain ⟨rfl, rfl⟩ := h
                  have hsplit := skipBody_split _ _ _ _ hb
                  obtain ⟨e5, r'', rfl, h5, hfl⟩ := hy1.skipFive (strip s) (hsub _ hskip) vb r1 hsplit hs
                  simp only [rep, Bool.and_eq_true] at hrep
                  obtain ⟨sp, o, t, cc, a2', a3, a4, hts, has, hok, htk, w2, w3, w4, hrun⟩ := run hrep.1
                  refine ⟨.venv c n ⟨sp, o, t, cc⟩ a2' a3 a4 vb e5, ?_, ?_, ?_⟩
                  · simp only [toks, List.cons_append, List.append_assoc]
                    rw [List.drop_left' h5, ← hsplit, htk]
                  · simp only [tree, hts, has]
                    congr 2
                    rw [hsplit]
                    cases vb with
                    | cons x xs => rfl
                    | nil =>
                      cases e5 with
                      | nil => cases h5
                      | cons x xs => rfl
                  · simp only [WF, Bool.and_eq_true, beq_iff_eq, bne_iff_ne, ne_eq, hcm]
                    refine ⟨⟨⟨⟨⟨⟨⟨⟨⟨⟨⟨hesc, hnb⟩, hms⟩, hok⟩, w2⟩, w3⟩, w4⟩, ?_⟩, by rw [hts]; exact hskip⟩,
                      h5⟩, by rw [hts]; exact hfl⟩, ?_⟩
                    · rw [← win_raw_five vb e5 r'' h5, runOK_win, ← hsplit]; exact hrun
                    · rw [hts]
                      exact skipBody_noEarly _ e5 r'' hfl ts1 vb hb
                · rw [if_neg hs] at h; cases h
            · -- an ordinary environment
              rw [if_neg hskip] at h
              obtain ⟨body, rfl⟩ := readEnv_shape h
              simp only [rep, Bool.and_eq_true] at hrep
              obtain ⟨hra, hrb⟩ := hrep
              obtain ⟨sp, o, t, cc, a2', a3, a4, hts, has, hok, htk, w2, w3, w4, hrun⟩ := run hra
              have hmode' : (if memStr (strip s) Tables.mathEnvNames = true then Mode.math else mode) =
                  envMode (strip s) mode := rfl
              rw [hmode'] at h
              obtain ⟨b, esc2, en, nm2, htk5, he, hwfs, hesc2, hen, hnm2, hname⟩ :=
                hEnv (strip s) as c.pos skip (envMode (strip s) mode) ts1 _ rest h hy1 hsub
                  (by
                    unfold envMode
                    split
                    · decide
                    · exact hms)
                  (by
                    intro body' hb'
                    simp only [Expr.nenv.injEq, true_and, and_true] at hb'
                    subst hb'
                    exact hrb)
              refine ⟨.env c n ⟨sp, o, t, cc⟩ a2' a3 a4 b esc2 en nm2, ?_, ?_, ?_⟩
              · simp only [toks, List.cons_append, List.append_assoc]
                rw [htk5, htk]
              · rw [he]; simp only [tree, hts, has]
              · have hw : win (toksS b ++ esc2 :: en :: (nm2.toks ++ rest)) = win (toksS b ++ [esc2, en]) := by
                  rw [win_append, win_esc _ _ hesc2]
                simp only [WF, Bool.and_eq_true, beq_iff_eq, bne_iff_ne, ne_eq, Bool.not_eq_true', hcm]
                refine ⟨⟨⟨⟨⟨⟨⟨⟨⟨⟨⟨⟨⟨hesc, hnb⟩, hms⟩, hok⟩, w2⟩, w3⟩, w4⟩, ?_⟩, ?_⟩, by rw [hts]; exact hwfs⟩,
                  hesc2⟩, hen⟩, hnm2⟩, by rw [hts]; exact hname⟩
                · rw [← hw, runOK_win, htk5]; exact hrun
                · rw [hts]; simpa using hskip
        · -- an ordinary command
          rw [if_neg hbeg] at h
          simp only [Except.ok.injEq, Prod.mk.injEq] at h
          obtain ⟨rfl, rfl⟩ := h
          simp only [rep, hstrip, Bool.and_eq_true, repL_nil, and_true] at hrep
          obtain ⟨hsh, hra⟩ := hrep
          obtain ⟨r, a1, a2, a3, a4, hr, htk, htr, w1, w2, w3, w4, hrun⟩ :=
            hC (-1) (-1) mode (n :: r0) n args ts1 hc hy.tail (by simp) (cmdSig_signOK _) hra hsh
          simp only [List.cons.injEq, true_and] at hr
          subst hr
          refine ⟨.cmd c n a1 a2 a3 a4, ?_, ?_, ?_⟩
          · simp only [toks, List.cons_append, List.append_assoc]
            rw [htk]
          · simp only [tree, htr, hstrip]
          · simp only [WF, Bool.and_eq_true, beq_iff_eq, bne_iff_ne, ne_eq, Bool.or_eq_true]
            refine ⟨⟨⟨⟨⟨⟨⟨hesc, by simpa using hitem⟩, ?_⟩, w1⟩, w2⟩, w3⟩, w4⟩, by rw [runOK_win]; exact hrun⟩
            simp only [Bool.and_eq_true, beq_iff_eq, bne_iff_ne, ne_eq, not_and, Decidable.not_not] at hbeg
            by_cases hb : n.text = sBegin
            · exact .inr (hbeg hb)
            · exact .inl hb
    · -- not a backslash
      unfold readExpr at h
      simp only at h
      cases hk : mkindOfBegin c.cat with
      | some k =>
        rw [hk] at h
        simp only at h
        obtain ⟨body, rfl⟩ := readMathEnv_shape h
        obtain ⟨b, cl, htk, he, hcl, hwf⟩ := hME k c.pos ts' _ rest h hy.tail (by
          intro body' hb
          simp only [Expr.math.injEq, true_and, and_true] at hb
          subst hb
          simpa [rep] using hrep)
        refine ⟨.math k c b cl, by simp [toks, htk], by simp [tree, he], ?_⟩
        simp [WF, hk, hcl, hwf]
      | none =>
        rw [hk] at h
        simp only at h
        rw [if_neg (by simpa using hesc)] at h
        by_cases hg : (c.cat == TC.GroupBegin) = true
        · rw [if_pos hg] at h
          obtain ⟨body, rfl⟩ := readArg_shape h
          obtain ⟨b, cl, htk, he, hcl, hwf⟩ := hA .brace c.pos .nonMath ts' _ rest h hy.tail (by
            intro body' hb
            simp only [Expr.group.injEq, true_and, and_true] at hb
            subst hb
            simpa [rep] using hrep)
          refine ⟨.group c b cl, by simp [toks, htk], by simp [tree, he], ?_⟩
          have : c.cat = TC.GroupBegin := by simpa using hg
          simp [WF, this, hcl, hwf, GKind.tokEnd] at hcl ⊢
        · rw [if_neg hg] at h
          simp only [Except.ok.injEq, Prod.mk.injEq] at h
          obtain ⟨rfl, rfl⟩ := h
          refine ⟨.leaf c, by simp [toks], by simp [tree], ?_⟩
          simp only [WF, leafTok, Bool.and_eq_true, Option.isNone_iff_eq_none, bne_iff_ne, ne_eq]
          exact ⟨⟨hk, hesc⟩, by simpa using hg⟩

end

end TexSoup.Gram
