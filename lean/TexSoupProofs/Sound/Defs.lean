import TexSoupProofs.Complete.Squeeze
import TexSoupProofs.Reader.Progress
/-!
# Soundness of the grammar with respect to the reader: definitions

The converse of completeness: whatever the strict reader returns on a token list is the tree of
a well-formed document of the grammar with exactly these tokens – provided the input is
*representable*:

 * `rep` (on the result tree): no made-up arguments (as `noBare`); a command with a fixed
   signature has exactly `required` brace groups (`argShape`). Nothing in `rep` depends on the mode (`rep_mode`);
 * `SHyp` (on the tokens, closed under suffixes): no backslash at the very end; the token after a
   backslash is its own `strip()`; the argument read right after `\begin` (open signature) /
   `\end` (signature `(1, 0)`) is a brace group around one text token (`envNames`, stated on the
   reader like `C08.EnvNamesPlain`; a decidable token-level sufficient condition is
   `Gram.envNamesShapeB`);
   `\end{name}` of a verbatim-like environment is spelled by five tokens (`skipFive`).
-/
namespace TexSoup.Gram
open TexSoup

def isBracketG : Expr → Bool
  | .group .bracket _ _ => true
  | _ => false
def isBraceG : Expr → Bool
  | .group .brace _ _ => true
  | _ => false

/-- arguments as the signature declares them: a fixed signature has exactly `required` brace
groups (nothing is asked of an open signature; that there are at most `optional` bracket groups,
and where they stand, is the reader's doing). This excludes a command that is cut off by the end
of input before all its required arguments (`\def` at the end). -/
def argShape (sg : Int × Int) (args : List Expr) : Bool :=
  if sg.1 < 0 || sg.2 < 0 then true
  else decide ((args.countP isBraceG : Int) = sg.1)

mutual
/-- The tree is representable in the grammar (read in mode `m`). -/
def rep (m : Mode) : Expr → Bool
  | .text _ _ => true
  | .cmd name args body _ =>
      argShape (cmdSig (-1) (-1) name) args && repA (cmdMode name m) args && repL .nonMath body
  | .nenv name args body _ =>
      repA m args && repL (envMode name m) body
  | .math _ body _ => repL .math body
  | .group _ body _ => repL .nonMath body
def repL (m : Mode) : List Expr → Bool
  | [] => true
  | e :: es => rep m e && repL m es
/-- argument lists: really parsed groups only, their contents read in the argument mode -/
def repA (m : Mode) : List Expr → Bool
  | [] => true
  | .group _ b p :: as => decide (0 ≤ p) && repL m b && repA m as
  | _ :: _ => false
end

@[simp] theorem repL_nil (m : Mode) : repL m [] = true := by simp [repL]
theorem repL_cons {m : Mode} {e : Expr} {es : List Expr} :
    repL m (e :: es) = true ↔ rep m e = true ∧ repL m es = true := by
  simp [repL]
@[simp] theorem repA_nil (m : Mode) : repA m [] = true := by simp [repA]

mutual
/-- nothing in `rep` depends on the mode -/
theorem rep_mode (m m' : Mode) : ∀ e : Expr, rep m e = rep m' e
  | .text _ _ => by simp [rep]
  | .cmd name args body _ => by
      simp only [rep]
      rw [repA_mode (cmdMode name m) (cmdMode name m') args]
  | .nenv name args body _ => by
      simp only [rep]
      rw [repA_mode m m' args, repL_mode (envMode name m) (envMode name m') body]
  | .math _ body _ => by simp [rep]
  | .group _ body _ => by simp [rep]
theorem repL_mode (m m' : Mode) : ∀ es : List Expr, repL m es = repL m' es
  | [] => by simp [repL]
  | e :: es => by
      simp only [repL]
      rw [rep_mode m m' e, repL_mode m m' es]
theorem repA_mode (m m' : Mode) : ∀ es : List Expr, repA m es = repA m' es
  | [] => by simp [repA]
  | .group _ b p :: as => by
      simp only [repA]
      rw [repL_mode m m' b, repA_mode m m' as]
  | .text _ _ :: _ => by simp [repA]
  | .cmd _ _ _ _ :: _ => by simp [repA]
  | .nenv _ _ _ _ :: _ => by simp [repA]
  | .math _ _ _ :: _ => by simp [repA]
end

theorem repA_append (m : Mode) (a b : List Expr) : repA m (a ++ b) = (repA m a && repA m b) := by
  induction a with
  | nil => simp
  | cons e es ih => cases e <;> simp [repA, ih, Bool.and_assoc]

/-- Hypotheses on the token list (closed under suffixes). -/
structure SHyp (skip0 : List Str) (ts : List Tok) : Prop where
  /-- no backslash at the very end -/
  escFollowed : ∀ pre esc, ts = pre ++ [esc] → esc.cat ≠ .Escape
  /-- the token after a backslash is its own `strip()` -/
  escOK : ∀ pre esc n r, ts = pre ++ esc :: n :: r → esc.cat = .Escape → strip n.text = n.text
  /-- environment names are `{`, one text token, `}` -/
  envNames : ∀ pre esc n r, ts = pre ++ esc :: n :: r → esc.cat = .Escape →
    ∀ g tol mode a0 as rest,
      ((n.text = sBegin ∧ readArgs g (-1) (-1) tol mode r = .ok (a0 :: as, rest)) ∨
       (n.text = sEnd ∧ readArgs g 1 0 tol mode r = .ok (a0 :: as, rest))) →
      ∃ s p q, a0 = .group .brace [.text s p] q ∧ 0 ≤ q
  /-- `\end{name}` of a verbatim-like environment is spelled by exactly five tokens -/
  skipFive : ∀ name, memStr name skip0 = true → ∀ pre rest, ts = pre ++ rest →
    bufStartsWith (endMarker name) rest = true →
    ∃ e5 r', rest = e5 ++ r' ∧ e5.length = 5 ∧ flat e5 = endMarker name

theorem SHyp.suffix {skip0 : List Str} {c rest : List Tok} (h : SHyp skip0 (c ++ rest)) :
    SHyp skip0 rest where
  escFollowed := fun pre esc he => h.escFollowed (c ++ pre) esc (by rw [he]; simp)
  escOK := fun pre esc n r he => h.escOK (c ++ pre) esc n r (by rw [he]; simp)
  envNames := fun pre esc n r he => h.envNames (c ++ pre) esc n r (by rw [he]; simp)
  skipFive := fun name hn pre r he => h.skipFive name hn (c ++ pre) r (by rw [he]; simp)

theorem SHyp.ofSuf {skip0 : List Str} {ts rest : List Tok} (h : SHyp skip0 ts) (hs : Suf ts rest) :
    SHyp skip0 rest := by
  obtain ⟨c, rfl⟩ := hs
  exact h.suffix

theorem SHyp.tail {skip0 : List Str} {t : Tok} {ts : List Tok} (h : SHyp skip0 (t :: ts)) :
    SHyp skip0 ts := SHyp.suffix (c := [t]) h

/-- the skip list in force is part of the top-level one -/
def SkipSub (skip skip0 : List Str) : Prop := ∀ x, memStr x skip = true → memStr x skip0 = true

def signOK (sg : Int × Int) : Prop := (sg.1 < 0 ∧ sg.2 < 0) ∨ (0 ≤ sg.1 ∧ 0 ≤ sg.2)

/-- The soundness invariant for every reader function at fuel `f` (strict mode). -/
def SoundAt (skip0 : List Str) (f : Nat) : Prop :=
  (∀ skip mode ts e rest, readExpr f skip false mode ts = .ok (e, rest) → SHyp skip0 ts →
      SkipSub skip skip0 → rep mode e = true →
      ∃ el, toks el ++ rest = ts ∧ tree el = e ∧ WF skip mode (win rest) el = true) ∧
  (∀ ts es rest, readItem f ts = .ok (es, rest) → SHyp skip0 ts → repL .nonMath es = true →
      ∃ b, toksS b ++ rest = ts ∧ trees b = es ∧ WFs [] .nonMath .item (win rest) b = true ∧
        itemStop rest = true) ∧
  (∀ k pos ts e rest, readMathEnv f k pos false ts = .ok (e, rest) → SHyp skip0 ts →
      (∀ body, e = .math k body pos → repL .math body = true) →
      ∃ b c, toksS b ++ c :: rest = ts ∧ e = .math k (trees b) pos ∧ c.cat = k.tokEnd ∧
        WFs [] .math (.mth k) [c] b = true) ∧
  (∀ k ts es rest, readMathBody f k false ts = .ok (es, rest) → SHyp skip0 ts → repL .math es = true →
      ∃ b, toksS b ++ rest = ts ∧ trees b = es ∧ WFs [] .math (.mth k) (win rest) b = true) ∧
  (∀ name args pos skip mode ts e rest, readEnv f name args pos skip false mode ts = .ok (e, rest) →
      SHyp skip0 ts → SkipSub skip skip0 → mode ≠ .special →
      (∀ body, e = .nenv name args body pos → repL mode body = true) →
      ∃ (b : List Elem) (esc2 en : Tok) (nm2 : NameArg), toksS b ++ esc2 :: en :: (nm2.toks ++ rest) = ts ∧ e = .nenv name args (trees b) pos ∧
        WFs skip mode .env [esc2, en] b = true ∧ esc2.cat = .Escape ∧ en.text = sEnd ∧ nm2.ok = true ∧
        nm2.nt.text = name) ∧
  (∀ skip mode ts es ea rest, readEnvBody f skip false mode ts = .ok ((es, ea), rest) →
      SHyp skip0 ts → SkipSub skip skip0 → mode ≠ .special → repL mode es = true →
      ∃ b, toksS b ++ rest = ts ∧ trees b = es ∧ WFs skip mode .env (win rest) b = true ∧
        (∀ eargs, ea = some eargs → ∃ esc n r g rest', rest = esc :: n :: r ∧ esc.cat = .Escape ∧
          n.text = sEnd ∧ readCommand g 1 0 false mode (n :: r) = .ok ((n, eargs), rest'))) ∧
  (∀ nreq nopt mode ts n args rest, readCommand f nreq nopt false mode ts = .ok ((n, args), rest) →
      SHyp skip0 ts → ts ≠ [] → signOK (cmdSig nreq nopt n.text) →
      repA (cmdMode n.text mode) args = true → argShape (cmdSig nreq nopt n.text) args = true →
      ∃ r a1 a2 a3 a4, ts = n :: r ∧ toksA a1 ++ (toksA a2 ++ (toksA a3 ++ (toksA a4 ++ rest))) = r ∧
        treesA .bracket a1 ++ (treesA .brace a2 ++ (treesA .bracket a3 ++ treesA .brace a4)) = args ∧
        WFa (cmdMode n.text mode) .bracket a1 = true ∧ WFa (cmdMode n.text mode) .brace a2 = true ∧
        WFa (cmdMode n.text mode) .bracket a3 = true ∧ WFa (cmdMode n.text mode) .brace a4 = true ∧
        runOK (cmdSig nreq nopt n.text) a1 a2 a3 a4 rest = true) ∧
  (∀ nreq nopt mode ts args rest, readArgs f nreq nopt false mode ts = .ok (args, rest) →
      SHyp skip0 ts → signOK (nreq, nopt) → repA mode args = true → argShape (nreq, nopt) args = true →
      ∃ a1 a2 a3 a4, toksA a1 ++ (toksA a2 ++ (toksA a3 ++ (toksA a4 ++ rest))) = ts ∧
        treesA .bracket a1 ++ (treesA .brace a2 ++ (treesA .bracket a3 ++ treesA .brace a4)) = args ∧
        WFa mode .bracket a1 = true ∧ WFa mode .brace a2 = true ∧
        WFa mode .bracket a3 = true ∧ WFa mode .brace a4 = true ∧
        runOK (nreq, nopt) a1 a2 a3 a4 rest = true) ∧
  (∀ n mode ts gs n' rest, readArgOpt f n false mode ts = .ok ((gs, n'), rest) → SHyp skip0 ts →
      repA mode gs = true →
      ∃ as, toksA as ++ rest = ts ∧ treesA .bracket as = gs ∧ WFa mode .bracket as = true ∧
        n' = n - as.length ∧ (n' = 0 ∨ (hdCat (afterSp rest) != some .BracketBegin) = true) ∧
        (n = 0 → as = []) ∧ (0 ≤ n → 0 ≤ n')) ∧
  (∀ n mode ts gs n' rest, readArgReq f n false mode ts = .ok ((gs, n'), rest) → SHyp skip0 ts →
      repA mode gs = true →
      ∃ as, toksA as ++ rest = ts ∧ treesA .brace as = gs ∧ WFa mode .brace as = true ∧
        n' = n - as.length ∧
        (n' = 0 ∨ (n' < 0 ∧ (hdCat (afterSp rest) != some .GroupBegin) = true) ∨
          (0 < n' ∧ afterSp rest = [])) ∧
        (n = 0 → as = []) ∧ (0 ≤ n → 0 ≤ n')) ∧
  (∀ k pos mode ts e rest, readArg f k pos false mode ts = .ok (e, rest) → SHyp skip0 ts →
      (∀ body, e = .group k body pos → repL mode body = true) →
      ∃ b c, toksS b ++ c :: rest = ts ∧ e = .group k (trees b) pos ∧ c.cat = k.tokEnd ∧
        WFs [] mode (.grp k) [c] b = true) ∧
  (∀ k mode ts es rest, readArgBody f k false mode ts = .ok (es, rest) → SHyp skip0 ts →
      repL mode es = true →
      ∃ b c, toksS b ++ c :: rest = ts ∧ trees b = es ∧ c.cat = k.tokEnd ∧
        WFs [] mode (.grp k) [c] b = true)

theorem soundAt_zero (skip0 : List Str) : SoundAt skip0 0 := by
  refine ⟨?_, ?_, ?_, ?_, ?_, ?_, ?_, ?_, ?_, ?_, ?_, ?_⟩ <;> intros <;>
    simp_all [readExpr, readItem, readMathEnv, readMathBody, readEnv, readEnvBody, readCommand,
      readArgs, readArgOpt, readArgReq, readArg, readArgBody]

/-! ### small tools -/

theorem skipSub_nil (skip0 : List Str) : SkipSub [] skip0 := by
  intro x h; simp [memStr] at h

theorem peekCond_not_env {m : Mode} {ctx : Ctx} {e : Elem} {es : List Elem} (h : ctx ≠ .env) :
    peekCond m ctx e es = true := by
  rw [peekCond_iff]
  intro hc; exact absurd hc h

/-- the window in front of a closer -/
theorem win_seq_closer (es : List Elem) (c : Tok) (rest : List Tok) (h1 : c.cat ≠ .MergedSpacer)
    (h2 : c.cat ≠ .Escape) : win (toksS es ++ c :: rest) = win (toksS es ++ [c]) := by
  rw [win_append, win_closer rest h1 h2]

/-- what `read_spacer` skipped is an optional spacer token -/
theorem readSpacer_cases {ts : List Tok} {o : Tok} {r : List Tok} (h : (readSpacer ts).2 = o :: r) :
    ∃ sp, spOK sp = true ∧ ts = sp.toList ++ o :: r := by
  cases ts with
  | nil => simp [readSpacer] at h
  | cons t r' =>
    simp only [readSpacer] at h
    by_cases hs : (t.cat == TC.MergedSpacer) = true
    · rw [if_pos hs] at h
      simp only at h
      exact ⟨some t, by simpa [spOK] using hs, by simp [h]⟩
    · rw [if_neg hs] at h
      simp only [List.cons.injEq] at h
      exact ⟨none, rfl, by simp [h.1, h.2]⟩

theorem firstTok_of_toks {el : Elem} {rest : List Tok} {t : Tok} {r : List Tok}
    (h : toks el ++ rest = t :: r) : firstTok el = t := by
  obtain ⟨r', hr⟩ := toks_cons el
  rw [hr] at h
  exact (List.cons.inj h).1

end TexSoup.Gram
