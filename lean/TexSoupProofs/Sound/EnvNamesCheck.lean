import TexSoupProofs.Sound.FromTokens
/-!
# A decidable, token-level sufficient condition for `EnvNamesSimple`

After every `\begin` / `\end`: an optional spacer, `{`, one leaf token that is not `}`, `}`.
-/
namespace TexSoup.Gram
open TexSoup

def nameGroupB (r : List Tok) : Bool :=
  match (readSpacer r).2 with
  | o :: nt :: c :: _ => o.cat == .GroupBegin && isLeafTok nt && nt.cat != .GroupEnd && c.cat == .GroupEnd
  | _ => false

def envNamesShapeB : List Tok → Bool
  | esc :: n :: r =>
      (!(esc.cat == .Escape && (n.text == sBegin || n.text == sEnd)) || nameGroupB r) &&
        envNamesShapeB (n :: r)
  | _ => true

theorem envNamesShapeB_sound : ∀ ts, envNamesShapeB ts = true → ∀ pre esc n r, ts = pre ++ esc :: n :: r →
    esc.cat = .Escape → (n.text = sBegin ∨ n.text = sEnd) → nameGroupB r = true := by
  intro ts
  induction ts with
  | nil => intro _ pre esc n r h; cases pre <;> simp at h
  | cons t r ih =>
    intro hb pre esc n r' h hesc hn
    cases r with
    | nil =>
      cases pre with
      | nil => simp at h
      | cons p pre' => cases pre' <;> simp at h
    | cons t2 r2 =>
      simp only [envNamesShapeB, Bool.and_eq_true, Bool.or_eq_true, Bool.not_eq_true',
        Bool.and_eq_false_iff, beq_eq_false_iff_ne, ne_eq, Bool.or_eq_false_iff] at hb
      cases pre with
      | nil =>
        simp only [List.nil_append, List.cons.injEq] at h
        obtain ⟨rfl, rfl, rfl⟩ := h
        rcases hb.1 with h1 | h1
        · rcases h1 with h1 | h1
          · exact absurd hesc h1
          · rcases hn with hn | hn
            · exact absurd hn h1.1
            · exact absurd hn h1.2
        · exact h1
      | cons p pre' =>
        simp only [List.cons_append, List.cons.injEq] at h
        exact ih hb.2 pre' esc n r' h.2 hesc hn

/-- what `read_arg` returns on `{`, one leaf token, `}` -/
theorem readArg_name {g : Nat} {tol : Bool} {mode : Mode} {o nt c : Tok} {r' : List Tok} {a0 : Expr}
    {ts' : List Tok} (h : readArg g .brace o.pos tol mode (nt :: c :: r') = .ok (a0, ts'))
    (hl : isLeafTok nt = true) (hne : nt.cat ≠ .GroupEnd) (hc : c.cat = .GroupEnd) :
    a0 = .group .brace [.text nt.text nt.pos] o.pos := by
  have h2 := group_of_leaves .brace o.pos tol mode [nt] c r' 0
    (by intro t ht; simp only [List.mem_singleton] at ht; subst ht
        exact ⟨hl, by simpa [GKind.tokEnd] using hne⟩)
    (by simp [GKind.tokEnd, hc])
  have := readArg_fuel_det h h2
  simp only [Prod.mk.injEq] at this
  rw [this.1]; rfl

/-- the first argument that `read_args` with signature `(1, 0)` reads in front of a `{` -/
theorem readArgs10_first {g : Nat} {tol : Bool} {mode : Mode} {r : List Tok} {a0 : Expr}
    {as : List Expr} {rest : List Tok} {o : Tok} {r3 : List Tok}
    (h : readArgs g 1 0 tol mode r = .ok (a0 :: as, rest)) (hs : (readSpacer r).2 = o :: r3)
    (ho : o.cat = .GroupBegin) : ∃ g' ts', readArg g' .brace o.pos tol mode r3 = .ok (a0, ts') := by
  cases g with
  | zero => simp [readArgs] at h
  | succ g1 =>
    unfold readArgs at h
    rw [if_neg (by decide)] at h
    obtain ⟨an1, ts1, h1, h⟩ := Res.bind_eq_ok.mp h
    obtain ⟨an2, ts2, h2, h⟩ := Res.bind_eq_ok.mp h
    obtain ⟨an3, ts3, h3, h⟩ := Res.bind_eq_ok.mp h
    obtain ⟨an4, ts4, h4, h⟩ := Res.bind_eq_ok.mp h
    simp only [Except.ok.injEq, Prod.mk.injEq] at h
    obtain ⟨hargs, _⟩ := h
    obtain ⟨gs1, n1⟩ := an1
    have hz1 := readArgOpt_zero h1
    simp only [Prod.mk.injEq] at hz1
    obtain ⟨⟨e1, _⟩, et1⟩ := hz1
    subst et1 e1
    cases g1 with
    | zero => simp [readArgReq] at h2
    | succ g2 =>
      unfold readArgReq at h2
      rw [if_neg (by decide), hs] at h2
      simp only at h2
      rw [if_pos (by simp [ho])] at h2
      obtain ⟨gA, tsA, hA, h2⟩ := Res.bind_eq_ok.mp h2
      obtain ⟨gn, tsB, _, h2⟩ := Res.bind_eq_ok.mp h2
      simp only [Except.ok.injEq, Prod.mk.injEq] at h2
      obtain ⟨hgs, _⟩ := h2
      refine ⟨g2, tsA, ?_⟩
      rw [← hgs] at hargs
      simp only [List.nil_append, List.cons_append, List.cons.injEq] at hargs
      rw [← hargs.1]; exact hA

/-- **The token-level check implies the condition on environment names.** -/
theorem envNamesSimple_of_shape {ts : List Tok} (h : envNamesShapeB ts = true) : EnvNamesSimple ts := by
  intro pre esc n r he hesc g tol mode a0 as rest hcase
  have hng := envNamesShapeB_sound ts h pre esc n r he hesc
    (hcase.elim (fun h => .inl h.1) (fun h => .inr h.1))
  unfold nameGroupB at hng
  cases hs : (readSpacer r).2 with
  | nil => rw [hs] at hng; cases hng
  | cons o r1 =>
    cases r1 with
    | nil => rw [hs] at hng; cases hng
    | cons nt r2 =>
      cases r2 with
      | nil => rw [hs] at hng; cases hng
      | cons c r' =>
        rw [hs] at hng
        simp only [Bool.and_eq_true, beq_iff_eq, bne_iff_ne, ne_eq] at hng
        obtain ⟨⟨⟨ho, hl⟩, hne⟩, hc⟩ := hng
        rcases hcase with ⟨_, hr⟩ | ⟨_, hr⟩
        · obtain ⟨o', r3, k, g', ts', hs', hk, ha⟩ := readArgs_first hr
          rw [hs] at hs'
          simp only [List.cons.injEq] at hs'
          obtain ⟨rfl, rfl⟩ := hs'
          rw [ho] at hk
          simp only [gkindOfBegin, Option.some.injEq] at hk
          subst hk
          exact ⟨nt.text, nt.pos, o.pos, readArg_name ha hl hne hc, by omega⟩
        · obtain ⟨g', ts', ha⟩ := readArgs10_first hr hs ho
          exact ⟨nt.text, nt.pos, o.pos, readArg_name ha hl hne hc, by omega⟩

end TexSoup.Gram
