import TexSoupProofs.Sound.ArgsMain
/-!
# Soundness, part 5: the contents of an `\item`
-/
namespace TexSoup.Gram
open TexSoup

/-- `read_command` returns the first token as the name -/
theorem readCommand_head {g : Nat} {nreq nopt : Int} {tol : Bool} {mode : Mode} {n : Tok} {r : List Tok}
    {na : Tok × List Expr} {rest : List Tok}
    (h : readCommand g nreq nopt tol mode (n :: r) = .ok (na, rest)) : na.1 = n := by
  cases g with
  | zero => simp [readCommand] at h
  | succ g =>
    unfold readCommand at h
    simp only at h
    obtain ⟨args, ts2, _, h⟩ := Res.bind_eq_ok.mp h
    simp only [Except.ok.injEq, Prod.mk.injEq] at h
    rw [← h.1]

theorem readCommand_nil_name {g : Nat} {nreq nopt : Int} {tol : Bool} {mode : Mode}
    {na : Tok × List Expr} {rest : List Tok}
    (h : readCommand g nreq nopt tol mode [] = .ok (na, rest)) : na.1.text = [] := by
  cases g with
  | zero => simp [readCommand] at h
  | succ g =>
    unfold readCommand at h
    simp only at h
    obtain ⟨args, ts2, _, h⟩ := Res.bind_eq_ok.mp h
    simp only [Except.ok.injEq, Prod.mk.injEq] at h
    rw [← h.1]

/-- a well-formed element that does not start with a backslash has no name token -/
theorem nameText_none {skip : List Str} {m : Mode} {nx : List Tok} {e : Elem}
    (hwf : WF skip m nx e = true) (h : (firstTok e).cat ≠ .Escape) : nameText e = none := by
  cases e with
  | leaf t => rfl
  | group o b c => rfl
  | math k o b c => rfl
  | cmd esc name a1 a2 a3 a4 =>
    simp only [WF, Bool.and_eq_true, beq_iff_eq] at hwf
    exact absurd hwf.1.1.1.1.1.1.1 h
  | item esc name a1 a2 a3 a4 b =>
    simp only [WF, Bool.and_eq_true, beq_iff_eq] at hwf
    exact absurd hwf.1.1.1.1.1.1.1.1.1 h
  | env esc bgn nm a2 a3 a4 b esc2 en nm2 =>
    simp only [WF, Bool.and_eq_true, beq_iff_eq] at hwf
    exact absurd hwf.1.1.1.1.1.1.1.1.1.1.1.1.1 h
  | venv esc bgn nm a2 a3 a4 vb e5 =>
    simp only [WF, Bool.and_eq_true, beq_iff_eq] at hwf
    exact absurd hwf.1.1.1.1.1.1.1.1.1.1.1 h

/-- the name token of an element that starts with a backslash is the second token read -/
theorem nameText_of_toks {skip : List Str} {m : Mode} {nx : List Tok} {el : Elem} {t : Tok}
    {r rest : List Tok} (hwf : WF skip m nx el = true) (htk : toks el ++ rest = t :: r)
    (hesc : t.cat = .Escape) : ∃ n r', r = n :: r' ∧ nameText el = some n.text := by
  have hft := firstTok_of_toks htk
  obtain ⟨n, r0, h1, h2⟩ := toks_esc hwf (by rw [hft]; exact hesc)
  rw [h1, hft] at htk
  simp only [List.cons_append, List.cons.injEq, true_and] at htk
  exact ⟨n, r0 ++ rest, htk.symm, h2⟩

section
variable (skip0 : List Str) (f : Nat) (ih : SoundAt skip0 f)
include ih

theorem sd_readItem : ∀ ts es rest, readItem (f+1) ts = .ok (es, rest) → SHyp skip0 ts →
    repL .nonMath es = true →
    ∃ b, toksS b ++ rest = ts ∧ trees b = es ∧ WFs [] .nonMath .item (win rest) b = true ∧
      itemStop rest = true := by
  intro ts es rest h hy hrep
  obtain ⟨hE, hI, -, -, -, -, -, -, -, -, -, -⟩ := ih
  unfold readItem at h
  cases ts with
  | nil =>
    simp only [Except.ok.injEq, Prod.mk.injEq] at h
    obtain ⟨rfl, rfl⟩ := h
    exact ⟨[], by simp, by simp, by simp [WFs], rfl⟩
  | cons t r =>
    simp only at h
    -- the step shared by both continuing branches
    have step : ((readExpr f [] false Mode.nonMath (t :: r)).bind fun e ts1 =>
        (readItem f ts1).bind fun es ts2 => Except.ok (e :: es, ts2)) = .ok (es, rest) →
        (t.cat ≠ .GroupEnd) →
        (∀ el : Elem, ∀ rest' : List Tok, WF [] .nonMath (win rest') el = true → toks el ++ rest' = t :: r →
          nameText el ≠ some sEnd ∧ nameText el ≠ some sItem) →
        ∃ b, toksS b ++ rest = t :: r ∧ trees b = es ∧ WFs [] .nonMath .item (win rest) b = true ∧
          itemStop rest = true := by
      intro h hge hname
      obtain ⟨e, ts1, he, h⟩ := Res.bind_eq_ok.mp h
      obtain ⟨es', ts2, hb, h⟩ := Res.bind_eq_ok.mp h
      simp only [Except.ok.injEq, Prod.mk.injEq] at h
      obtain ⟨rfl, rfl⟩ := h
      obtain ⟨hr1, hr2⟩ := repL_cons.1 hrep
      obtain ⟨el, htk, htr, hwf⟩ := hE [] .nonMath _ e ts1 he hy (skipSub_nil _) hr1
      obtain ⟨b, htk2, htr2, hwfs, hstop⟩ := hI ts1 es' ts2 hb (hy.ofSuf (readExpr_ssuf he).suf) hr2
      refine ⟨el :: b, ?_, by simp [htr, htr2], ?_, hstop⟩
      · simp only [toksS_cons, List.append_assoc]
        rw [htk2, htk]
      · refine WFs_cons_intro ?_ ?_ hwfs (peekCond_not_env (by simp))
        · rw [← win_append, htk2]; exact hwf
        · have hn := hname el ts1 hwf htk
          simp only [startOK, Bool.and_eq_true, bne_iff_ne, ne_eq]
          rw [firstTok_of_toks htk]
          exact ⟨⟨hge, hn.1⟩, hn.2⟩
    by_cases hesc : (t.cat == TC.Escape) = true
    · rw [if_pos hesc] at h
      have hE' : t.cat = .Escape := by simpa using hesc
      obtain ⟨na, ts', hc, h⟩ := Res.bind_eq_ok.mp h
      by_cases hend : (na.1.text == sEnd || na.1.text == sItem) = true
      · rw [if_pos hend] at h
        simp only [Except.ok.injEq, Prod.mk.injEq] at h
        obtain ⟨rfl, rfl⟩ := h
        refine ⟨[], by simp, by simp, by simp [WFs], ?_⟩
        cases r with
        | nil =>
          have := readCommand_nil_name hc
          rw [this] at hend
          simp [sEnd, sItem] at hend
        | cons n r' =>
          have := readCommand_head hc
          rw [this] at hend
          simp only [itemStop, hE', beq_self_eq_true, Bool.true_and, Bool.or_eq_true]
          right; simpa using hend
      · rw [if_neg hend] at h
        refine step h (by rw [hE']; decide) ?_
        intro el rest' hwf htk
        obtain ⟨n, r', hr, hnt⟩ := nameText_of_toks hwf htk hE'
        subst hr
        have hn := readCommand_head hc
        rw [hnt]
        simp only [Bool.or_eq_true, beq_iff_eq, not_or, hn] at hend
        exact ⟨fun h => hend.1 (Option.some.inj h), fun h => hend.2 (Option.some.inj h)⟩
    · rw [if_neg hesc] at h
      by_cases hge : (t.cat == TC.GroupEnd) = true
      · rw [if_pos hge] at h
        simp only [Except.ok.injEq, Prod.mk.injEq] at h
        obtain ⟨rfl, rfl⟩ := h
        exact ⟨[], by simp, by simp, by simp [WFs], by simp [itemStop, hge]⟩
      · rw [if_neg hge] at h
        refine step h (by simpa using hge) ?_
        intro el rest' hwf htk
        have : nameText el = none := nameText_none hwf (by rw [firstTok_of_toks htk]; simpa using hesc)
        rw [this]; simp

end

end TexSoup.Gram
