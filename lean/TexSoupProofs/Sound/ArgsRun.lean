import TexSoupProofs.Sound.Args
/-!
# Soundness, part 3: `read_args` – the four phases give a run that satisfies `runOK`
-/
namespace TexSoup.Gram
open TexSoup

theorem treesA_bracket_all (as : List Arg) : ∀ x ∈ treesA .bracket as, isBracketG x = true := by
  induction as with
  | nil => intro x hx; simp at hx
  | cons a as ih =>
    intro x hx
    cases a
    simp only [treesA_cons, treeArg, List.mem_cons] at hx
    rcases hx with rfl | hx
    · rfl
    · exact ih x hx

theorem treesA_brace_all (as : List Arg) : ∀ x ∈ treesA .brace as, isBraceG x = true ∧ isBracketG x = false := by
  induction as with
  | nil => intro x hx; simp at hx
  | cons a as ih =>
    intro x hx
    cases a
    simp only [treesA_cons, treeArg, List.mem_cons] at hx
    rcases hx with rfl | hx
    · exact ⟨rfl, rfl⟩
    · exact ih x hx

theorem dropWhile_append_all {p : Expr → Bool} : ∀ (A B : List Expr), (∀ x ∈ A, p x = true) →
    (∀ x ∈ B.head?, p x = false) → (A ++ B).dropWhile p = B ∧ (A ++ B).takeWhile p = A := by
  intro A
  induction A with
  | nil =>
    intro B _ hB
    cases B with
    | nil => simp
    | cons b B => simp [hB b rfl]
  | cons a A ih =>
    intro B hA hB
    have := ih B (fun x hx => hA x (by simp [hx])) hB
    simp [hA a (by simp), this.1, this.2]

/-- a run that starts directly with its opener has no spacer in front of its first group -/
theorem tight_of_nextIs {m : Mode} {k : GKind} {as : List Arg} {Y : List Tok}
    (hw : WFa m k as = true) (hn : nextIs k.tokBegin (toksA as ++ Y) = true) : tight as = true := by
  cases as with
  | nil => rfl
  | cons a as =>
    obtain ⟨ha, _⟩ := WFa_cons hw
    cases a with
    | mk sp o b c =>
      obtain ⟨hs, _, _, _⟩ := WFarg_unfold ha
      cases sp with
      | none => rfl
      | some s =>
        exfalso
        simp only [spOK, beq_iff_eq] at hs
        simp only [toksA_cons, toksArg, Option.toList, List.cons_append, List.nil_append, nextIs, hs,
          beq_iff_eq] at hn
        exact tokBegin_ne_sp k hn.symm

theorem nextIs_true_afterSp {c : TC} {ts : List Tok} (hc : c ≠ .MergedSpacer) (h : nextIs c ts = true) :
    hdCat (afterSp ts) = some c := by
  obtain ⟨o, r, hs, ho⟩ := nextIs_readSpacer hc h
  simp [afterSp, hs, hdCat, ho]

theorem hdCat_ne_of_nextIs_false {c : TC} {ts : List Tok} (h : nextIs c ts = false) :
    (hdCat ts != some c) = true := by
  cases ts with
  | nil => rfl
  | cons t r => simpa [nextIs, hdCat] using h

theorem nextIs_false_of_afterSp_nil {c : TC} {ts : List Tok} (hc : c ≠ .MergedSpacer) (h : afterSp ts = []) :
    nextIs c ts = false := by
  cases hn : nextIs c ts with
  | false => rfl
  | true =>
    obtain ⟨o, r, hs, _⟩ := nextIs_readSpacer hc hn
    simp [afterSp, hs] at h

theorem countP_treesA_bracket (as : List Arg) : (treesA .bracket as).countP isBraceG = 0 := by
  rw [List.countP_eq_zero]
  intro x hx
  have := treesA_bracket_all as x hx
  cases x <;> simp_all [isBracketG, isBraceG]
  rename_i k _ _
  cases k <;> simp_all [isBracketG, isBraceG]

theorem countP_treesA_brace (as : List Arg) : (treesA .brace as).countP isBraceG = as.length := by
  rw [List.countP_eq_length.2 (fun x hx => (treesA_brace_all as x hx).1), treesA_length]

section
variable (skip0 : List Str) (f : Nat) (ih : SoundAt skip0 f)
include ih

/-- the third phase: more brackets only directly after what was read -/
theorem sd_phase3 (mode : Mode) (c1 : Int) (ts2 : List Tok) (gs : List Expr) (n3 : Int) (ts3 : List Tok)
    (h : (if nextIs .BracketBegin ts2 = true then readArgOpt f c1 false mode ts2
      else .ok (([], c1), ts2)) = .ok ((gs, n3), ts3))
    (hy : SHyp skip0 ts2) (hrep : repA mode gs = true) :
    ∃ a3, toksA a3 ++ ts3 = ts2 ∧ treesA .bracket a3 = gs ∧ WFa mode .bracket a3 = true ∧
      tight a3 = true ∧ n3 = c1 - a3.length ∧
      (a3 = [] → ts3 = ts2 ∧ (nextIs .BracketBegin ts2 = false ∨ c1 = 0)) ∧
      (a3 ≠ [] → nextIs .BracketBegin ts2 = true ∧ c1 ≠ 0 ∧
        (n3 = 0 ∨ (hdCat (afterSp ts3) != some .BracketBegin) = true)) ∧
      (0 ≤ c1 → 0 ≤ n3) := by
  obtain ⟨-, -, -, -, -, -, -, -, hAO, -, -, -⟩ := ih
  by_cases hn : nextIs .BracketBegin ts2 = true
  · rw [if_pos hn] at h
    obtain ⟨a3, htk, htr, hwf, hn3, hstop, h0, hpos⟩ := hAO c1 mode ts2 gs n3 ts3 h hy hrep
    refine ⟨a3, htk, htr, hwf, tight_of_nextIs (k := .bracket) hwf (by rw [htk]; exact hn), hn3, ?_, ?_, hpos⟩
    · intro he
      subst he
      simp only [toksA_nil, List.nil_append] at htk
      subst htk
      refine ⟨rfl, .inr ?_⟩
      simp only [List.length_nil, Int.natCast_zero, Int.sub_zero] at hn3
      rcases hstop with hs | hs
      · rw [← hn3]; exact hs
      · rw [nextIs_true_afterSp (by decide) hn] at hs; simp at hs
    · intro hne
      refine ⟨hn, fun hc => hne (h0 hc), hstop⟩
  · rw [if_neg hn] at h
    simp only [Except.ok.injEq, Prod.mk.injEq] at h
    obtain ⟨⟨rfl, rfl⟩, rfl⟩ := h
    exact ⟨[], by simp, by simp, by simp [WFa], rfl, by simp, fun _ => ⟨rfl, .inl (by simpa using hn)⟩,
      fun h => absurd rfl h, fun h => h⟩

/-- the fourth phase -/
theorem sd_phase4 (mode : Mode) (c2 : Int) (ts3 : List Tok) (gs : List Expr) (n4 : Int) (ts4 : List Tok)
    (h : (if nextIs .GroupBegin ts3 = true then readArgReq f c2 false mode ts3
      else .ok (([], c2), ts3)) = .ok ((gs, n4), ts4))
    (hy : SHyp skip0 ts3) (hrep : repA mode gs = true) :
    ∃ a4, toksA a4 ++ ts4 = ts3 ∧ treesA .brace a4 = gs ∧ WFa mode .brace a4 = true ∧
      tight a4 = true ∧ n4 = c2 - a4.length ∧
      (a4 = [] → ts4 = ts3 ∧ (nextIs .GroupBegin ts3 = false ∨ c2 = 0)) ∧
      (a4 ≠ [] → nextIs .GroupBegin ts3 = true ∧ c2 ≠ 0 ∧
        (n4 = 0 ∨ (n4 < 0 ∧ (hdCat (afterSp ts4) != some .GroupBegin) = true) ∨
          (0 < n4 ∧ afterSp ts4 = []))) := by
  obtain ⟨-, -, -, -, -, -, -, -, -, hAR, -, -⟩ := ih
  by_cases hn : nextIs .GroupBegin ts3 = true
  · rw [if_pos hn] at h
    obtain ⟨a4, htk, htr, hwf, hn4, hstop, h0, _⟩ := hAR c2 mode ts3 gs n4 ts4 h hy hrep
    refine ⟨a4, htk, htr, hwf, tight_of_nextIs (k := .brace) hwf (by rw [htk]; exact hn), hn4, ?_, ?_⟩
    · intro he
      subst he
      simp only [toksA_nil, List.nil_append] at htk
      subst htk
      refine ⟨rfl, .inr ?_⟩
      simp only [List.length_nil, Int.natCast_zero, Int.sub_zero] at hn4
      rcases hstop with hs | hs | hs
      · rw [← hn4]; exact hs
      · rw [nextIs_true_afterSp (by decide) hn] at hs; simp at hs
      · rw [nextIs_false_of_afterSp_nil (by decide) hs.2] at hn; cases hn
    · intro hne
      exact ⟨hn, fun hc => hne (h0 hc), hstop⟩
  · rw [if_neg hn] at h
    simp only [Except.ok.injEq, Prod.mk.injEq] at h
    obtain ⟨⟨rfl, rfl⟩, rfl⟩ := h
    exact ⟨[], by simp, by simp, by simp [WFa], rfl, by simp, fun _ => ⟨rfl, .inl (by simpa using hn)⟩,
      fun h => absurd rfl h⟩

end

end TexSoup.Gram
