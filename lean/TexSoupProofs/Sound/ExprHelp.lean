import TexSoupProofs.Sound.Env
import TexSoupProofs.Complete.Verb
/-!
# Soundness, part 7: helper lemmas for `read_expr`
-/
namespace TexSoup.Gram
open TexSoup

theorem signatureOf_cases (x : Str) : ∀ tbl : List (Str × (Int × Int)),
    signatureOf x tbl = (-1, -1) ∨ ∃ e ∈ tbl, signatureOf x tbl = e.2 := by
  intro tbl
  induction tbl with
  | nil => exact .inl rfl
  | cons e r ih =>
    obtain ⟨n, sg⟩ := e
    simp only [signatureOf]
    by_cases h : (x == n) = true
    · rw [if_pos h]; exact .inr ⟨(n, sg), by simp, rfl⟩
    · rw [if_neg h]
      rcases ih with h' | ⟨e', he', h'⟩
      · exact .inl h'
      · exact .inr ⟨e', by simp [he'], h'⟩

/-- every signature is open or has two non-negative counts -/
theorem cmdSig_signOK (x : Str) : signOK (cmdSig (-1) (-1) x) := by
  have key : ∀ e ∈ Tables.signatures, 0 ≤ e.2.1 ∧ 0 ≤ e.2.2 := by decide
  have : cmdSig (-1) (-1) x = signatureOf x Tables.signatures := by
    unfold cmdSig; rw [if_pos (by decide)]
  rw [this]
  rcases signatureOf_cases x Tables.signatures with h | ⟨e, he, h⟩
  · rw [h]; left; decide
  · rw [h]; right; exact key e he

theorem cmdSig_item' : cmdSig (-1) (-1) sItem = (-1, -1) := by decide

/-- the window in front of a raw body and its five-token terminator -/
theorem win_raw_five (vb e5 r : List Tok) (h5 : e5.length = 5) : win (vb ++ (e5 ++ r)) = win (vb ++ e5) := by
  rw [win_append vb (e5 ++ r), win_append vb e5]
  congr 2
  cases e5 with
  | nil => simp at h5
  | cons t r1 =>
    cases r1 with
    | nil => simp at h5
    | cons u r2 => simp [win]

/-- `forward_until` stops at the first boundary where the marker starts -/
theorem skipBody_noEarly (mk : Str) (e5 r'' : List Tok) (hfl : flat e5 = mk) :
    ∀ (ts b : List Tok), skipBody mk ts = (b, e5 ++ r'') → noEarly mk e5 b = true := by
  intro ts
  induction ts with
  | nil => intro b h; simp [skipBody] at h; rw [h.1]; rfl
  | cons t r ih =>
    intro b h
    unfold skipBody at h
    by_cases hs : bufStartsWith mk (t :: r) = true
    · rw [if_pos hs] at h
      simp only [Prod.mk.injEq] at h
      rw [← h.1]; rfl
    · rw [if_neg hs] at h
      cases hb : skipBody mk r with
      | mk b' rest' =>
        rw [hb] at h
        simp only [Prod.mk.injEq] at h
        obtain ⟨rfl, rfl⟩ := h
        have hsplit := skipBody_split _ _ _ _ hb
        simp only [noEarly, Bool.and_eq_true, Bool.not_eq_true']
        refine ⟨?_, ih b' hb⟩
        have hs' : bufStartsWith mk (t :: r) = false := by simpa using hs
        rw [hsplit] at hs'
        rw [show t :: (b' ++ (e5 ++ r'')) = (t :: b' ++ e5) ++ r'' by simp] at hs'
        rw [bufStartsWith_ext _ _ _ (by
          rw [show t :: b' ++ e5 = (t :: b') ++ e5 by simp, flat_append, List.length_append, hfl]
          omega)] at hs'
        exact hs'

theorem readMathEnv_shape {f : Nat} {k : MKind} {pos : Int} {tol : Bool} {ts : List Tok} {e : Expr}
    {rest : List Tok} (h : readMathEnv f k pos tol ts = .ok (e, rest)) : ∃ body, e = .math k body pos := by
  cases f with
  | zero => simp [readMathEnv] at h
  | succ g =>
    unfold readMathEnv at h
    obtain ⟨body, ts1, _, h⟩ := Res.bind_eq_ok.mp h
    cases ts1 with
    | nil => simp at h
    | cons t r =>
      simp only at h
      split at h
      · simp only [Except.ok.injEq, Prod.mk.injEq] at h
        exact ⟨body, h.1.symm⟩
      · cases h

theorem readArg_shape {f : Nat} {k : GKind} {pos : Int} {tol : Bool} {mode : Mode} {ts : List Tok}
    {e : Expr} {rest : List Tok} (h : readArg f k pos tol mode ts = .ok (e, rest)) :
    ∃ body, e = .group k body pos := by
  cases f with
  | zero => simp [readArg] at h
  | succ g =>
    unfold readArg at h
    obtain ⟨body, ts1, _, h⟩ := Res.bind_eq_ok.mp h
    simp only [Except.ok.injEq, Prod.mk.injEq] at h
    exact ⟨body, h.1.symm⟩

/-- the run that `\begin` reads starts with the name group -/
theorem begin_run_shape {m : Mode} {sg : Int × Int} {a1 a2 a3 a4 : List Arg} {nx : List Tok}
    {s : Str} {p q : Int} {as : List Expr}
    (htr : treesA .bracket a1 ++ (treesA .brace a2 ++ (treesA .bracket a3 ++ treesA .brace a4)) =
      .group .brace [.text s p] q :: as)
    (hrun : runOK sg a1 a2 a3 a4 nx = true) (w2 : WFa m .brace a2 = true) :
    ∃ sp o t c a2', a1 = [] ∧ a2 = .mk sp o [.leaf t] c :: a2' ∧ t.text = s ∧
      as = treesA .brace a2' ++ (treesA .bracket a3 ++ treesA .brace a4) ∧
      (⟨sp, o, t, c⟩ : NameArg).ok = true := by
  cases a1 with
  | cons x xs => cases x; simp [treeArg] at htr
  | nil =>
    cases a2 with
    | nil =>
      obtain ⟨rfl, rfl⟩ := runOK_noargs hrun
      simp at htr
    | cons x a2' =>
      cases x with
      | mk sp o bb c =>
        simp only [treesA_nil, List.nil_append, treesA_cons, treeArg, List.cons_append, List.cons.injEq,
          Expr.group.injEq, true_and] at htr
        obtain ⟨⟨hbb, _⟩, has⟩ := htr
        obtain ⟨t, rfl, hts⟩ := trees_single_text hbb
        obtain ⟨hwa, _⟩ := WFa_cons w2
        obtain ⟨hsp, ho, hcc, hwbb⟩ := WFarg_unfold hwa
        obtain ⟨hwl, hst, _, _⟩ := WFs_cons hwbb
        refine ⟨sp, o, t, c, a2', rfl, rfl, hts, has.symm, ?_⟩
        simp only [NameArg.ok, Bool.and_eq_true, beq_iff_eq, bne_iff_ne, ne_eq]
        refine ⟨⟨⟨⟨hsp, ho⟩, hcc⟩, by simpa [WF] using hwl⟩, ?_⟩
        simpa [startOK, firstTok, GKind.tokEnd] using hst

end TexSoup.Gram
