import TexSoupProofs.Sound.Item
import TexSoupProofs.Reader.HypCheck
import TexSoupProofs.Sound.PeekGroup
/-!
# Soundness, part 6: environment bodies and `read_env`
-/
namespace TexSoup.Gram
open TexSoup

theorem trees_single_text {bb : List Elem} {s : Str} {p : Int} (h : trees bb = [.text s p]) :
    ∃ t, bb = [.leaf t] ∧ t.text = s := by
  cases bb with
  | nil => simp at h
  | cons e es =>
    cases es with
    | cons _ _ => simp at h
    | nil =>
      simp only [trees_cons, trees_nil, List.cons.injEq, and_true] at h
      cases e <;> simp [tree] at h
      exact ⟨_, rfl, h.1⟩

theorem string_group_text (s : Str) (p q : Int) : (Expr.group .brace [.text s p] q).string = s := by
  simp [Expr.string, Expr.body, serL, ser]

section
variable (skip0 : List Str) (f : Nat) (ih : SoundAt skip0 f)
include ih

theorem sd_readEnvBody : ∀ skip mode ts es ea rest,
    readEnvBody (f+1) skip false mode ts = .ok ((es, ea), rest) →
    SHyp skip0 ts → SkipSub skip skip0 → mode ≠ .special → repL mode es = true →
    ∃ b, toksS b ++ rest = ts ∧ trees b = es ∧ WFs skip mode .env (win rest) b = true ∧
      (∀ eargs, ea = some eargs → ∃ esc n r g rest', rest = esc :: n :: r ∧ esc.cat = .Escape ∧
        n.text = sEnd ∧ readCommand g 1 0 false mode (n :: r) = .ok ((n, eargs), rest')) := by
  intro skip mode ts es ea rest h hy hsub hmode hrep
  have ih0 := ih
  obtain ⟨hE, -, -, -, -, hEB, -, -, -, -, -, -⟩ := ih
  unfold readEnvBody at h
  cases ts with
  | nil =>
    simp only [Except.ok.injEq, Prod.mk.injEq] at h
    obtain ⟨⟨rfl, rfl⟩, rfl⟩ := h
    exact ⟨[], by simp, by simp, by simp [WFs], by intro _ h; cases h⟩
  | cons t r =>
    simp only at h
    have step : ((readExpr f skip false mode (t :: r)).bind fun e ts1 =>
        (readEnvBody f skip false mode ts1).bind fun be ts2 => Except.ok ((e :: be.1, be.2), ts2)) =
          .ok ((es, ea), rest) →
        (∀ el : Elem, ∀ rest' : List Tok, WF skip mode (win rest') el = true → toks el ++ rest' = t :: r →
          nameText el ≠ some sEnd ∧
          (noArgName el ≠ none → ∃ na ts', readCommand f 1 0 false mode r = .ok (na, ts'))) →
        ∃ b, toksS b ++ rest = t :: r ∧ trees b = es ∧ WFs skip mode .env (win rest) b = true ∧
          (∀ eargs, ea = some eargs → ∃ esc n r g rest', rest = esc :: n :: r ∧ esc.cat = .Escape ∧
            n.text = sEnd ∧ readCommand g 1 0 false mode (n :: r) = .ok ((n, eargs), rest')) := by
      intro h hname
      obtain ⟨e, ts1, he, h⟩ := Res.bind_eq_ok.mp h
      obtain ⟨be, ts2, hb, h⟩ := Res.bind_eq_ok.mp h
      simp only [Except.ok.injEq, Prod.mk.injEq] at h
      obtain ⟨⟨rfl, rfl⟩, rfl⟩ := h
      obtain ⟨hr1, hr2⟩ := repL_cons.1 hrep
      obtain ⟨el, htk, htr, hwf⟩ := hE skip mode _ e ts1 he hy hsub hr1
      obtain ⟨b, htk2, htr2, hwfs, hlast⟩ := hEB skip mode ts1 be.1 be.2 ts2 hb
        (hy.ofSuf (readExpr_ssuf he).suf) hsub hmode hr2
      have hwf' : WF skip mode (win (toksS b ++ ts2)) el = true := by rw [htk2]; exact hwf
      obtain ⟨hnm, hpk⟩ := hname el ts1 hwf htk
      obtain ⟨b', e1, e2, hwfs', hpc⟩ := peekCond_of_peek skip0 f ih0 hmode hwf' hwfs
        (by rw [htk2]; exact htk) hy (by rw [htr2]; exact hr2) hpk
      refine ⟨el :: b', ?_, by simp [htr, htr2, e2], ?_, hlast⟩
      · simp only [toksS_cons, List.append_assoc]
        rw [e1, htk2, htk]
      · refine WFs_cons_intro ?_ ?_ hwfs' hpc
        · rw [e1, ← win_append]; exact hwf'
        · simpa [startOK] using hnm
    by_cases hesc : (t.cat == TC.Escape) = true
    · rw [if_pos hesc] at h
      have hE' : t.cat = .Escape := by simpa using hesc
      obtain ⟨na, ts', hc, h⟩ := Res.bind_eq_ok.mp h
      by_cases hend : (na.1.text == sEnd) = true
      · rw [if_pos hend] at h
        simp only [Except.ok.injEq, Prod.mk.injEq] at h
        obtain ⟨⟨rfl, rfl⟩, rfl⟩ := h
        refine ⟨[], by simp, by simp, by simp [WFs], ?_⟩
        intro eargs he
        cases he
        cases r with
        | nil =>
          have := readCommand_nil_name hc
          rw [this] at hend
          simp [sEnd] at hend
        | cons n r' =>
          have hn := readCommand_head hc
          obtain ⟨n', args'⟩ := na
          simp only at hn hend
          subst hn
          exact ⟨t, n', r', f, ts', rfl, hE', by simpa using hend, hc⟩
      · rw [if_neg hend] at h
        refine step h ?_
        intro el rest' hwf htk
        refine ⟨?_, fun _ => ⟨na, ts', hc⟩⟩
        obtain ⟨n, r', hr, hnt⟩ := nameText_of_toks hwf htk hE'
        subst hr
        have hn := readCommand_head hc
        rw [hnt]
        intro hx
        rw [hn] at hend
        exact hend (by simpa using Option.some.inj hx)
    · rw [if_neg hesc] at h
      refine step h ?_
      intro el rest' hwf htk
      have : nameText el = none := nameText_none hwf (by rw [firstTok_of_toks htk]; simpa using hesc)
      refine ⟨by rw [this]; simp, ?_⟩
      intro hne
      exfalso
      cases el <;> simp [noArgName, nameText] at hne this

theorem sd_readEnv : ∀ name args pos skip mode ts e rest,
    readEnv (f+1) name args pos skip false mode ts = .ok (e, rest) →
    SHyp skip0 ts → SkipSub skip skip0 → mode ≠ .special →
    (∀ body, e = .nenv name args body pos → repL mode body = true) →
    ∃ (b : List Elem) (esc2 en : Tok) (nm2 : NameArg),
      toksS b ++ esc2 :: en :: (nm2.toks ++ rest) = ts ∧ e = .nenv name args (trees b) pos ∧
      WFs skip mode .env [esc2, en] b = true ∧ esc2.cat = .Escape ∧ en.text = sEnd ∧ nm2.ok = true ∧
      nm2.nt.text = name := by
  intro name args pos skip mode ts e rest h hy hsub hmode hrep
  obtain ⟨-, -, -, -, -, hEB, hC, -, -, -, -, -⟩ := ih
  unfold readEnv at h
  obtain ⟨⟨body, ea⟩, ts1, hb, h⟩ := Res.bind_eq_ok.mp h
  by_cases herr : envError name ea = true
  · rw [if_pos herr] at h; simp at h
  · rw [if_neg herr] at h
    cases ts1 with
    | nil => cases h
    | cons t0 r0 =>
      simp only at h
      obtain ⟨na2, ts2, hc2, h⟩ := Res.bind_eq_ok.mp h
      simp only [Except.ok.injEq, Prod.mk.injEq] at h
      obtain ⟨rfl, rfl⟩ := h
      have hrb := hrep body rfl
      obtain ⟨b, htk, htr, hwfs, hlast⟩ := hEB skip mode ts body ea (t0 :: r0) hb hy hsub hmode hrb
      obtain ⟨a0, as, hea, hname⟩ := envError_false (by simpa using herr)
      obtain ⟨esc, n, r', g, rest', hts1, hescc, hnend, hcg⟩ := hlast (a0 :: as) hea
      simp only [List.cons.injEq] at hts1
      obtain ⟨rfl, rfl⟩ := hts1
      -- the consuming call returns what the look-ahead returned
      have hdet := readCommand_fuel_det hc2 hcg
      simp only [Prod.mk.injEq] at hdet
      obtain ⟨rfl, rfl⟩ := hdet
      have hy1 : SHyp skip0 (t0 :: n :: r') := hy.ofSuf (readEnvBody_suf hb)
      obtain ⟨r1, g1, hr1, hargs⟩ := readCommand_end hc2 hnend
      simp only [List.cons.injEq, true_and] at hr1
      subst hr1
      obtain ⟨s, p, q, ha0, hq⟩ := hy1.envNames [] t0 n r' rfl hescc g1 false mode a0 as ts2 (.inr ⟨hnend, hargs⟩)
      have hlen := readArgs_one hargs
      have has : as = [] := by
        cases as with
        | nil => rfl
        | cons _ _ => simp at hlen
      subst has ha0
      obtain ⟨r2, a1, a2, a3, a4, hr2, htk2, htr2, w1, w2, w3, w4, hrun⟩ :=
        hC 1 0 mode (n :: r') n _ ts2 hc2 hy1.tail (by simp)
          (by rw [cmdSig_given 1 0 (by omega)]; right; simp)
          (by simp [repA, repL, rep, hq])
          (by rw [cmdSig_given 1 0 (by omega)]; simp [argShape, isBracketG, isBraceG])
      simp only [List.cons.injEq, true_and] at hr2
      subst hr2
      rw [cmdSig_given 1 0 (by omega)] at hrun
      unfold runOK at hrun
      rw [if_neg (by decide), if_pos (by decide)] at hrun
      simp only [Bool.and_eq_true, List.isEmpty_iff, decide_eq_true_eq] at hrun
      obtain ⟨⟨⟨⟨⟨e4, _⟩, _⟩, hl1⟩, hl2⟩, _⟩ := hrun
      subst e4
      have e1 : a1 = [] := List.eq_nil_of_length_eq_zero (by omega)
      have e3 : a3 = [] := List.eq_nil_of_length_eq_zero (by omega)
      subst e1 e3
      cases a2 with
      | nil => simp at hl2
      | cons x xs =>
        cases xs with
        | cons _ _ => simp only [List.length_cons] at hl2; omega
        | nil =>
          cases x with
          | mk sp o bb c =>
            simp only [treesA_nil, treesA_cons, treeArg, List.nil_append, List.append_nil,
              List.cons.injEq, Expr.group.injEq, true_and, and_true] at htr2
            obtain ⟨t', rfl, ht's⟩ := trees_single_text htr2.1
            obtain ⟨hwa, _⟩ := WFa_cons w2
            obtain ⟨hsp, ho, hcc, hwbb⟩ := WFarg_unfold hwa
            obtain ⟨hwl, hst, _, _⟩ := WFs_cons hwbb
            refine ⟨b, t0, n, ⟨sp, o, t', c⟩, ?_, by rw [htr], ?_, hescc, hnend, ?_, ?_⟩
            · rw [← htk]
              congr 3
              simp only [toksA_nil, toksA_cons, toksArg, toksS_cons, toksS_nil, toks, List.nil_append,
                List.append_nil, List.append_assoc, List.cons_append] at htk2
              simp only [NameArg.toks, List.append_assoc, List.cons_append, List.nil_append]
              exact htk2
            · rw [win_esc _ _ hescc] at hwfs; exact hwfs
            · simp only [NameArg.ok, Bool.and_eq_true, beq_iff_eq, bne_iff_ne, ne_eq]
              refine ⟨⟨⟨⟨hsp, ho⟩, hcc⟩, by simpa [WF] using hwl⟩, ?_⟩
              simpa [startOK, firstTok, GKind.tokEnd] using hst
            · rw [← hname, string_group_text]; exact ht's

end

end TexSoup.Gram
