import TexSoupProofs.NavLemmas
/-!
# Lemmas about the path-annotated views (`TexSoupModel/NavPath.lean`)
-/
namespace TexSoup

/-! ## One step: `allP`, `contentsP` -/

theorem mem_idxP {mk : Nat → Step} {j0 : Nat} {l : List Expr} {st : Step} {x : Expr} :
    (st, x) ∈ idxP mk j0 l ↔ ∃ j, st = mk (j0 + j) ∧ l[j]? = some x := by
  induction l generalizing j0 with
  | nil => simp [idxP]
  | cons y ys ih =>
    simp only [idxP, List.mem_cons, Prod.mk.injEq, ih]
    constructor
    · rintro (⟨rfl, rfl⟩ | ⟨j, rfl, hj⟩)
      · exact ⟨0, rfl, rfl⟩
      · exact ⟨j + 1, by congr 1; omega, by simpa using hj⟩
    · rintro ⟨j, rfl, hj⟩
      cases j with
      | zero => left; simpa using hj.symm
      | succ j => right; exact ⟨j, by congr 1; omega, by simpa using hj⟩

theorem idxP_map_snd (mk : Nat → Step) (j0 : Nat) (l : List Expr) :
    (idxP mk j0 l).map Prod.snd = l := by
  induction l generalizing j0 with
  | nil => rfl
  | cons y ys ih => simp [idxP, ih]

theorem idxP_nodup (mk : Nat → Step) (hmk : ∀ a b, mk a = mk b → a = b) (j0 : Nat) (l : List Expr) :
    ((idxP mk j0 l).map Prod.fst).Nodup := by
  induction l generalizing j0 with
  | nil => simp [idxP]
  | cons y ys ih =>
    simp only [idxP, List.map_cons, List.nodup_cons]
    refine ⟨?_, ih _⟩
    intro h
    obtain ⟨⟨st, x⟩, hm, hst⟩ := List.mem_map.1 h
    obtain ⟨j, h1, _⟩ := mem_idxP.1 hm
    have := hmk _ _ (show mk (j0 + 1 + j) = mk j0 by rw [← h1]; exact hst)
    omega

theorem mem_allArgsP {i0 : Nat} {as : List Expr} {st : Step} {x : Expr} :
    (st, x) ∈ allArgsP i0 as ↔
      ∃ i j a, st = .arg (i0 + i) j ∧ as[i]? = some a ∧ a.body[j]? = some x := by
  induction as generalizing i0 with
  | nil => simp [allArgsP]
  | cons b bs ih =>
    simp only [allArgsP, List.mem_append, mem_idxP, ih]
    constructor
    · rintro (⟨j, rfl, hj⟩ | ⟨i, j, a, rfl, hi, hj⟩)
      · exact ⟨0, j, b, by simp, rfl, hj⟩
      · exact ⟨i + 1, j, a, by congr 1; omega, by simpa using hi, hj⟩
    · rintro ⟨i, j, a, rfl, hi, hj⟩
      cases i with
      | zero =>
        left
        simp at hi
        subst hi
        exact ⟨j, by simp, hj⟩
      | succ i => right; exact ⟨i, j, a, by congr 1; omega, by simpa using hi, hj⟩

theorem allArgsP_map_snd (i0 : Nat) (as : List Expr) :
    (allArgsP i0 as).map Prod.snd = as.flatMap Expr.body := by
  induction as generalizing i0 with
  | nil => rfl
  | cons b bs ih => simp [allArgsP, idxP_map_snd, ih]

theorem allArgsP_nodup (i0 : Nat) (as : List Expr) : ((allArgsP i0 as).map Prod.fst).Nodup := by
  induction as generalizing i0 with
  | nil => simp [allArgsP]
  | cons b bs ih =>
    simp only [allArgsP, List.map_append, List.nodup_append]
    refine ⟨idxP_nodup _ (fun a b h => by injection h) _ _, ih _, ?_⟩
    intro s hs t ht
    obtain ⟨⟨st, x⟩, hm, rfl⟩ := List.mem_map.1 hs
    obtain ⟨⟨st', x'⟩, hm', rfl⟩ := List.mem_map.1 ht
    obtain ⟨j, h1, _⟩ := mem_idxP.1 hm
    obtain ⟨i, j', a, h2, _⟩ := mem_allArgsP.1 hm'
    simp only at *
    subst h1 h2
    intro h
    injection h with h _
    omega

/-- `allP e` lists exactly the nodes one step below `e`. -/
theorem mem_allP {e : Expr} {st : Step} {x : Expr} : (st, x) ∈ allP e ↔ stepGet e st = some x := by
  simp only [allP, List.mem_append, mem_allArgsP, mem_idxP]
  cases st with
  | arg i j =>
    rw [nav_stepGet_arg]
    constructor
    · rintro (⟨i', j', a, h, hi, hj⟩ | ⟨j', h, _⟩)
      · injection h with h1 h2
        subst h1 h2
        exact ⟨a, by simpa using hi, hj⟩
      · exact absurd h (by simp)
    · rintro ⟨a, hi, hj⟩
      exact Or.inl ⟨i, j, a, by simp, hi, hj⟩
  | body j =>
    rw [nav_stepGet_body]
    constructor
    · rintro (⟨i', j', a, h, _⟩ | ⟨j', h, hj⟩)
      · exact absurd h (by simp)
      · injection h with h
        subst h
        simpa using hj
    · intro hj
      exact Or.inr ⟨j, by simp, hj⟩

theorem allP_nodup (e : Expr) : ((allP e).map Prod.fst).Nodup := by
  simp only [allP, List.map_append, List.nodup_append]
  refine ⟨allArgsP_nodup _ _, idxP_nodup _ (fun a b h => by injection h) _ _, ?_⟩
  intro s hs t ht
  obtain ⟨⟨st, x⟩, hm, rfl⟩ := List.mem_map.1 hs
  obtain ⟨⟨st', x'⟩, hm', rfl⟩ := List.mem_map.1 ht
  obtain ⟨i, j', a, h2, _⟩ := mem_allArgsP.1 hm
  obtain ⟨j, h1, _⟩ := mem_idxP.1 hm'
  simp only at *
  subst h1 h2
  simp

theorem allP_map_snd (e : Expr) : (allP e).map Prod.snd = e.args.flatMap Expr.body ++ e.body := by
  simp [allP, allArgsP_map_snd, idxP_map_snd]

/-- `contentsP e` lists exactly the non-blank nodes one step below `e`. -/
theorem mem_contentsP {e : Expr} {st : Step} {x : Expr} :
    (st, x) ∈ contentsP e ↔ stepGet e st = some x ∧ x.isBlankText = false := by
  simp [contentsP, mem_allP]

theorem contentsP_nodup (e : Expr) : ((contentsP e).map Prod.fst).Nodup :=
  List.Nodup.sublist (List.Sublist.map _ List.filter_sublist) (allP_nodup e)

theorem contentsOf_of_args_nil {a : Expr} (h : a.args = []) : contentsOf a = dropBlank a.body := by
  rw [contentsOf_eq, h]; rfl

/-- The annotated `contents` is `contents`, provided the arguments of `e` have no arguments
of their own. -/
theorem contentsP_map_snd {e : Expr} (h : ∀ a ∈ e.args, a.args = []) :
    (contentsP e).map Prod.snd = contentsOf e := by
  have : (contentsP e).map Prod.snd = dropBlank ((allP e).map Prod.snd) := by
    simp [contentsP, dropBlank, List.filter_map, Function.comp_def]
  rw [this, allP_map_snd, dropBlank_append, contentsOf_eq, dropBlank_flatMap]
  congr 1
  exact flatMap_congr' (fun a ha => (contentsOf_of_args_nil (h a ha)).symm)

theorem childrenP_map_snd {e : Expr} (h : ∀ a ∈ e.args, a.args = []) :
    (childrenP e).map Prod.snd = childrenOf e := by
  rw [childrenOf, ← contentsP_map_snd h]
  simp [childrenP, List.filter_map, Function.comp_def]

/-! ## `flatArgs` -/

theorem flatArgsL_mem {l : List Expr} (h : flatArgsL l = true) {x : Expr} (hx : x ∈ l) :
    x.flatArgs = true := by
  induction l with
  | nil => simp at hx
  | cons y ys ih =>
    simp only [flatArgsL, Bool.and_eq_true] at h
    rcases List.mem_cons.1 hx with rfl | hx
    · exact h.1
    · exact ih h.2 hx

theorem flatArgsA_mem {l : List Expr} (h : flatArgsA l = true) {a : Expr} (ha : a ∈ l) :
    a.args = [] ∧ a.flatArgs = true := by
  induction l with
  | nil => simp at ha
  | cons y ys ih =>
    simp only [flatArgsA, Bool.and_eq_true, List.isEmpty_iff] at h
    rcases List.mem_cons.1 ha with rfl | ha
    · exact h.1
    · exact ih h.2 ha

theorem flatArgs_args {e : Expr} (h : e.flatArgs = true) {a : Expr} (ha : a ∈ e.args) :
    a.args = [] ∧ a.flatArgs = true := by
  cases e <;> simp_all [Expr.flatArgs, Expr.args]
  all_goals exact flatArgsA_mem h.1 ha

theorem flatArgs_body {e : Expr} (h : e.flatArgs = true) {x : Expr} (hx : x ∈ e.body) :
    x.flatArgs = true := by
  cases e <;> simp_all [Expr.flatArgs, Expr.body]
  · exact flatArgsL_mem h.2 hx
  · exact flatArgsL_mem h.2 hx
  · exact flatArgsL_mem h hx
  · exact flatArgsL_mem h hx

theorem flatArgs_step {e : Expr} (h : e.flatArgs = true) {st : Step} {y : Expr}
    (hy : stepGet e st = some y) : y.flatArgs = true := by
  cases st with
  | arg i j =>
    obtain ⟨a, h1, h2⟩ := nav_stepGet_arg.1 hy
    exact flatArgs_body (flatArgs_args h (List.mem_of_getElem? h1)).2 (List.mem_of_getElem? h2)
  | body j => exact flatArgs_body h (List.mem_of_getElem? (nav_stepGet_body.1 hy))

theorem flatArgs_rootWrap {es : List Expr} : (rootWrap es).flatArgs = flatArgsL es := by
  simp [rootWrap, Expr.flatArgs, flatArgsA]

/-! ## `descP` as a one-layer recursion -/

theorem descP_of_isText {x : Expr} (h : x.isText = true) (pre : Path) : descP pre x = [] := by
  cases x <;> simp_all [Expr.isText, descP]

theorem descListP_eq (pre : Path) (mk : Nat → Step) (j0 : Nat) (l : List Expr) :
    descListP pre mk j0 l = (idxP mk j0 l).flatMap (fun sx => descP (pre ++ [sx.1]) sx.2) := by
  induction l generalizing j0 with
  | nil => simp [descListP, idxP]
  | cons y ys ih => simp [descListP, idxP, ih]

theorem descInnerP_eq (pre : Path) (i : Nat) (a : Expr) :
    descInnerP pre i a = descListP pre (Step.arg i) 0 a.body := by
  cases a <;> simp [descInnerP, Expr.body, descListP]

theorem descArgsP_eq (pre : Path) (i0 : Nat) (as : List Expr) :
    descArgsP pre i0 as = (allArgsP i0 as).flatMap (fun sx => descP (pre ++ [sx.1]) sx.2) := by
  induction as generalizing i0 with
  | nil => simp [descArgsP, allArgsP]
  | cons b bs ih => simp [descArgsP, allArgsP, ih, descInnerP_eq, descListP_eq]

theorem nav_flatMap_filter_of_nil {α β : Type} (p : α → Bool) (f : α → List β)
    (hf : ∀ a, p a = false → f a = []) (l : List α) :
    (l.filter p).flatMap f = l.flatMap f := by
  induction l with
  | nil => rfl
  | cons a l ih =>
    by_cases ha : p a = true
    · simp [ha, ih]
    · simp [ha, ih, hf a (by simpa using ha)]

/-- `descendants` with paths: the contents of the node, then the descendants of each. -/
theorem descP_eq (pre : Path) (e : Expr) :
    descP pre e = tagP pre (contentsP e) ++
      (contentsP e).flatMap (fun sx => descP (pre ++ [sx.1]) sx.2) := by
  have h : (contentsP e).flatMap (fun sx => descP (pre ++ [sx.1]) sx.2)
      = (allP e).flatMap (fun sx => descP (pre ++ [sx.1]) sx.2) := by
    refine nav_flatMap_filter_of_nil _ _ (fun sx hsx => ?_) _
    exact descP_of_isText (isText_of_isBlankText (by simpa using hsx)) _
  rw [h]
  cases e <;>
    simp [descP, allP, Expr.args, Expr.body, descArgsP_eq, descListP_eq, allArgsP, contentsP, idxP,
      tagP]

/-- Moving the start node: paths are relative to the prefix. -/
theorem descP_prefix (pre : Path) (e : Expr) :
    descP pre e = (descP [] e).map (fun px => (pre ++ px.1, px.2)) := by
  induction e using Expr.stepInd generalizing pre with
  | h e ih =>
    rw [descP_eq pre, descP_eq []]
    simp only [List.map_append, tagP, List.map_map, List.map_flatMap, List.nil_append]
    congr 1
    refine flatMap_congr' (fun sx hsx => ?_)
    have hs := (mem_contentsP.1 (show (sx.1, sx.2) ∈ contentsP e from hsx)).1
    rw [ih _ _ hs (pre ++ [sx.1]), ih _ _ hs [sx.1]]
    simp [List.map_map, Function.comp_def]

/-! ## The annotated closure and the occurrences of a name -/

mutual
/-- Pre-order transitive closure of `contentsP`: every node reachable from `e` through
argument contents and bodies, with its path (prefix `pre`). -/
def closureP (pre : Path) : Expr → List (Path × Expr)
  | .text _ _ => []
  | .cmd _ a b _ => closureArgsP pre 0 a ++ closureListP pre Step.body 0 b
  | .nenv _ a b _ => closureArgsP pre 0 a ++ closureListP pre Step.body 0 b
  | .math _ b _ => closureListP pre Step.body 0 b
  | .group _ b _ => closureListP pre Step.body 0 b
def closureListP (pre : Path) (mk : Nat → Step) : Nat → List Expr → List (Path × Expr)
  | _, [] => []
  | j, e :: es =>
    (if e.isBlankText then [] else (pre ++ [mk j], e) :: closureP (pre ++ [mk j]) e)
      ++ closureListP pre mk (j + 1) es
def closureArgsP (pre : Path) : Nat → List Expr → List (Path × Expr)
  | _, [] => []
  | i, a :: as => closureInnerP pre i a ++ closureArgsP pre (i + 1) as
def closureInnerP (pre : Path) (i : Nat) : Expr → List (Path × Expr)
  | .text _ _ => []
  | .cmd _ _ b _ => closureListP pre (Step.arg i) 0 b
  | .nenv _ _ b _ => closureListP pre (Step.arg i) 0 b
  | .math _ b _ => closureListP pre (Step.arg i) 0 b
  | .group _ b _ => closureListP pre (Step.arg i) 0 b
end

/-- `x` is a command or environment called `n` (`TexText` has no `__match__`). -/
def Expr.named (n : Str) (x : Expr) : Bool := !x.isText && x.name == n

mutual
/-- All commands and environments named `n` strictly below `e`, with their paths, in
pre-order over argument-group contents and bodies. -/
def occFrom (n : Str) (pre : Path) : Expr → List (Path × Expr)
  | .text _ _ => []
  | .cmd _ a b _ => occArgs n pre 0 a ++ occList n pre Step.body 0 b
  | .nenv _ a b _ => occArgs n pre 0 a ++ occList n pre Step.body 0 b
  | .math _ b _ => occList n pre Step.body 0 b
  | .group _ b _ => occList n pre Step.body 0 b
def occList (n : Str) (pre : Path) (mk : Nat → Step) : Nat → List Expr → List (Path × Expr)
  | _, [] => []
  | j, e :: es =>
    ((if e.named n then [(pre ++ [mk j], e)] else []) ++ occFrom n (pre ++ [mk j]) e)
      ++ occList n pre mk (j + 1) es
def occArgs (n : Str) (pre : Path) : Nat → List Expr → List (Path × Expr)
  | _, [] => []
  | i, a :: as => occInner n pre i a ++ occArgs n pre (i + 1) as
def occInner (n : Str) (pre : Path) (i : Nat) : Expr → List (Path × Expr)
  | .text _ _ => []
  | .cmd _ _ b _ => occList n pre (Step.arg i) 0 b
  | .nenv _ _ b _ => occList n pre (Step.arg i) 0 b
  | .math _ b _ => occList n pre (Step.arg i) 0 b
  | .group _ b _ => occList n pre (Step.arg i) 0 b
end

/-- occurrences of the name `n` below `e` -/
def occ (n : Str) (e : Expr) : List (Path × Expr) := occFrom n [] e
/-- occurrences of the name `n` in a document -/
def occRoot (n : Str) (es : List Expr) : List (Path × Expr) := occFrom n [] (rootWrap es)

theorem closureP_of_isText {x : Expr} (h : x.isText = true) (pre : Path) : closureP pre x = [] := by
  cases x <;> simp_all [Expr.isText, closureP]

theorem occFrom_of_isText {x : Expr} (h : x.isText = true) (n : Str) (pre : Path) :
    occFrom n pre x = [] := by
  cases x <;> simp_all [Expr.isText, occFrom]

mutual
theorem occFrom_eq_filter (n : Str) : ∀ (e : Expr) (pre : Path),
    occFrom n pre e = (closureP pre e).filter (fun px => px.2.named n)
  | .text _ _, _ => by simp [occFrom, closureP]
  | .cmd _ a b _, pre => by
    simp [occFrom, closureP, occArgs_eq_filter n a pre 0, occList_eq_filter n b pre Step.body 0]
  | .nenv _ a b _, pre => by
    simp [occFrom, closureP, occArgs_eq_filter n a pre 0, occList_eq_filter n b pre Step.body 0]
  | .math _ b _, pre => by simp [occFrom, closureP, occList_eq_filter n b pre Step.body 0]
  | .group _ b _, pre => by simp [occFrom, closureP, occList_eq_filter n b pre Step.body 0]
theorem occList_eq_filter (n : Str) : ∀ (es : List Expr) (pre : Path) (mk : Nat → Step) (j : Nat),
    occList n pre mk j es = (closureListP pre mk j es).filter (fun px => px.2.named n)
  | [], _, _, _ => by simp [occList, closureListP]
  | e :: es, pre, mk, j => by
    rw [occList, closureListP, List.filter_append, occList_eq_filter n es pre mk (j + 1),
      occFrom_eq_filter n e (pre ++ [mk j])]
    congr 1
    by_cases hb : e.isBlankText = true
    · have ht := isText_of_isBlankText hb
      simp [hb, Expr.named, ht, closureP_of_isText ht]
    · by_cases hn : e.named n = true <;> simp [hb, hn]
theorem occArgs_eq_filter (n : Str) : ∀ (as : List Expr) (pre : Path) (i : Nat),
    occArgs n pre i as = (closureArgsP pre i as).filter (fun px => px.2.named n)
  | [], _, _ => by simp [occArgs, closureArgsP]
  | a :: as, pre, i => by
    rw [occArgs, closureArgsP, List.filter_append, occArgs_eq_filter n as pre (i + 1),
      occInner_eq_filter n a pre i]
theorem occInner_eq_filter (n : Str) : ∀ (a : Expr) (pre : Path) (i : Nat),
    occInner n pre i a = (closureInnerP pre i a).filter (fun px => px.2.named n)
  | .text _ _, _, _ => by simp [occInner, closureInnerP]
  | .cmd _ _ b _, pre, i => by simp [occInner, closureInnerP, occList_eq_filter n b pre (Step.arg i) 0]
  | .nenv _ _ b _, pre, i => by simp [occInner, closureInnerP, occList_eq_filter n b pre (Step.arg i) 0]
  | .math _ b _, pre, i => by simp [occInner, closureInnerP, occList_eq_filter n b pre (Step.arg i) 0]
  | .group _ b _, pre, i => by simp [occInner, closureInnerP, occList_eq_filter n b pre (Step.arg i) 0]
end

/-- `occ` is the part of the annotated closure that carries the name. -/
theorem occ_eq_filter (n : Str) (e : Expr) :
    occ n e = (closureP [] e).filter (fun px => px.2.named n) := occFrom_eq_filter n e []

theorem closureListP_eq (pre : Path) (mk : Nat → Step) (j0 : Nat) (l : List Expr) :
    closureListP pre mk j0 l = ((idxP mk j0 l).filter (fun sx => !sx.2.isBlankText)).flatMap
      (fun sx => (pre ++ [sx.1], sx.2) :: closureP (pre ++ [sx.1]) sx.2) := by
  induction l generalizing j0 with
  | nil => simp [closureListP, idxP]
  | cons y ys ih =>
    by_cases hy : y.isBlankText = true <;> simp [closureListP, idxP, ih, hy]

theorem closureInnerP_eq (pre : Path) (i : Nat) (a : Expr) :
    closureInnerP pre i a = closureListP pre (Step.arg i) 0 a.body := by
  cases a <;> simp [closureInnerP, Expr.body, closureListP]

theorem closureArgsP_eq (pre : Path) (i0 : Nat) (as : List Expr) :
    closureArgsP pre i0 as = ((allArgsP i0 as).filter (fun sx => !sx.2.isBlankText)).flatMap
      (fun sx => (pre ++ [sx.1], sx.2) :: closureP (pre ++ [sx.1]) sx.2) := by
  induction as generalizing i0 with
  | nil => simp [closureArgsP, allArgsP]
  | cons b bs ih => simp [closureArgsP, allArgsP, ih, closureInnerP_eq, closureListP_eq]

/-- `closureP` is the pre-order transitive closure of `contentsP`. -/
theorem closureP_eq (pre : Path) (e : Expr) :
    closureP pre e = (contentsP e).flatMap
      (fun sx => (pre ++ [sx.1], sx.2) :: closureP (pre ++ [sx.1]) sx.2) := by
  cases e <;>
    simp [closureP, allP, Expr.args, Expr.body, closureArgsP_eq, closureListP_eq, allArgsP,
      contentsP, idxP]

theorem descP_perm_closureP (pre : Path) (e : Expr) : (descP pre e).Perm (closureP pre e) := by
  induction e using Expr.stepInd generalizing pre with
  | h e ih =>
    rw [descP_eq, closureP_eq]
    exact perm_layer (fun sx => (pre ++ [sx.1], sx.2)) _ _ (contentsP e)
      (fun sx hsx => ih _ _ (mem_contentsP.1 (show (sx.1, sx.2) ∈ contentsP e from hsx)).1 _)

theorem closureP_prefix (pre : Path) (e : Expr) :
    closureP pre e = (closureP [] e).map (fun px => (pre ++ px.1, px.2)) := by
  induction e using Expr.stepInd generalizing pre with
  | h e ih =>
    rw [closureP_eq pre, closureP_eq []]
    simp only [List.map_flatMap, List.nil_append, List.map_cons]
    refine flatMap_congr' (fun sx hsx => ?_)
    have hs := (mem_contentsP.1 (show (sx.1, sx.2) ∈ contentsP e from hsx)).1
    rw [ih _ _ hs (pre ++ [sx.1]), ih _ _ hs [sx.1]]
    simp [List.map_map, Function.comp_def]

/-- relative form of `closureP_eq` -/
theorem closureP_nil_eq (e : Expr) :
    closureP [] e = (contentsP e).flatMap
      (fun sx => ([sx.1], sx.2) :: (closureP [] sx.2).map (fun px => (sx.1 :: px.1, px.2))) := by
  rw [closureP_eq []]
  refine flatMap_congr' (fun sx _ => ?_)
  rw [closureP_prefix ([] ++ [sx.1])]
  simp

/-! ## Paths and `getAt` -/

theorem nav_getAt_cons (e : Expr) (st : Step) (p : Path) :
    getAt e (st :: p) = (stepGet e st).bind (fun y => getAt y p) := by
  simp only [getAt]
  cases stepGet e st <;> rfl

theorem nav_getAt_append (e : Expr) (p q : Path) :
    getAt e (p ++ q) = (getAt e p).bind (fun y => getAt y q) := by
  induction p generalizing e with
  | nil => simp [getAt]
  | cons st p ih =>
    simp only [List.cons_append, nav_getAt_cons]
    cases stepGet e st with
    | none => rfl
    | some y => simpa using ih y

theorem nav_stepGet_of_isText {x : Expr} (h : x.isText = true) (st : Step) : stepGet x st = none := by
  cases x <;> simp_all [Expr.isText]
  cases st <;> simp [stepGet, Expr.args, Expr.body]

/-- a node with something below it is not text -/
theorem not_isText_of_getAt {y x : Expr} {q : Path} (hq : q ≠ []) (h : getAt y q = some x) :
    y.isText = false := by
  cases q with
  | nil => exact absurd rfl hq
  | cons st q =>
    cases hy : y.isText with
    | false => rfl
    | true => simp [nav_getAt_cons, nav_stepGet_of_isText hy] at h

/-- **Completeness and soundness of the closure**: the entries of `closureP [] e` are exactly
the non-blank nodes at the non-empty paths below `e`. -/
theorem mem_closureP_iff {e : Expr} {p : Path} {x : Expr} :
    (p, x) ∈ closureP [] e ↔ p ≠ [] ∧ getAt e p = some x ∧ x.isBlankText = false := by
  induction e using Expr.stepInd generalizing p x with
  | h e ih =>
    rw [closureP_nil_eq, List.mem_flatMap]
    constructor
    · rintro ⟨⟨st, y⟩, hm, hx⟩
      obtain ⟨hs, hb⟩ := mem_contentsP.1 hm
      rcases List.mem_cons.1 hx with hx | hx
      · injection hx with h1 h2
        subst h1 h2
        exact ⟨by simp, by simp [hs, getAt], hb⟩
      · obtain ⟨⟨q, x'⟩, hq, heq⟩ := List.mem_map.1 hx
        injection heq with h1 h2
        subst h1 h2
        obtain ⟨_, hg, hxb⟩ := (ih st y hs).1 hq
        exact ⟨by simp, by simp [nav_getAt_cons, hs, hg], hxb⟩
    · rintro ⟨hp, hg, hb⟩
      cases p with
      | nil => exact absurd rfl hp
      | cons st q =>
        rw [nav_getAt_cons] at hg
        cases hs : stepGet e st with
        | none => simp [hs] at hg
        | some y =>
          simp only [hs, Option.bind_some] at hg
          by_cases hq : q = []
          · subst hq
            simp only [getAt, Option.some.injEq] at hg
            subst hg
            exact ⟨(st, y), mem_contentsP.2 ⟨hs, hb⟩, by simp⟩
          · have hyb : y.isBlankText = false := by
              cases h : y.isBlankText with
              | false => rfl
              | true =>
                have := not_isText_of_getAt hq hg
                rw [isText_of_isBlankText h] at this
                cases this
            refine ⟨(st, y), mem_contentsP.2 ⟨hs, hyb⟩, ?_⟩
            refine List.mem_cons_of_mem _ (List.mem_map.2 ⟨(q, x), ?_, rfl⟩)
            exact (ih st y hs).2 ⟨hq, hg, hb⟩

theorem mem_descP_iff {e : Expr} {p : Path} {x : Expr} :
    (p, x) ∈ descP [] e ↔ p ≠ [] ∧ getAt e p = some x ∧ x.isBlankText = false := by
  rw [(descP_perm_closureP [] e).mem_iff, mem_closureP_iff]

/-- Every path occurs once in the closure. -/
theorem closureP_nodup (e : Expr) : ((closureP [] e).map Prod.fst).Nodup := by
  induction e using Expr.stepInd with
  | h e ih =>
    rw [closureP_nil_eq, List.map_flatMap, List.Nodup, List.pairwise_flatMap]
    constructor
    · rintro ⟨st, y⟩ hm
      have hs := (mem_contentsP.1 hm).1
      simp only [List.map_cons, List.map_map]
      rw [← List.Nodup, List.nodup_cons]
      constructor
      · intro h
        obtain ⟨⟨q, x⟩, hq, heq⟩ := List.mem_map.1 h
        have hq' := (mem_closureP_iff.1 hq).1
        simp only [Function.comp_apply, List.cons.injEq, true_and] at heq
        exact hq' heq
      · have := ih st y hs
        have h2 : (List.map (Prod.fst ∘ fun px : Path × Expr => (st :: px.1, px.2)) (closureP [] y))
            = ((closureP [] y).map Prod.fst).map (fun q => st :: q) := by
          simp [List.map_map, Function.comp_def]
        rw [h2]
        exact (List.pairwise_map.2 (List.Pairwise.imp (fun hne h => hne (by injection h)) this))
    · have hnd := contentsP_nodup e
      rw [List.Nodup, List.pairwise_map] at hnd
      refine List.Pairwise.imp ?_ hnd
      rintro ⟨st, y⟩ ⟨st', y'⟩ hne p hp q hq
      have hhead : ∀ {s : Step} {z : Expr} {r : Path},
          r ∈ List.map Prod.fst (([s], z) :: (closureP [] z).map (fun px => (s :: px.1, px.2))) →
          r.head? = some s := by
        intro s z r hr
        simp only [List.map_cons, List.map_map, List.mem_cons, List.mem_map, Function.comp_apply] at hr
        rcases hr with rfl | ⟨a, _, rfl⟩ <;> rfl
      intro hpq
      have h1 := hhead hp
      have h2 := hhead hq
      rw [hpq, h2] at h1
      exact hne (by injection h1 with h1; exact h1.symm)

theorem descP_nodup (e : Expr) : ((descP [] e).map Prod.fst).Nodup :=
  ((descP_perm_closureP [] e).map Prod.fst).nodup_iff.2 (closureP_nodup e)

theorem occ_nodup (n : Str) (e : Expr) : ((occ n e).map Prod.fst).Nodup := by
  rw [occ_eq_filter]
  exact List.Nodup.sublist (List.Sublist.map _ List.filter_sublist) (closureP_nodup e)

/-! ## The annotated views are the plain views -/

theorem closureP_map_snd {e : Expr} (h : e.flatArgs = true) (pre : Path) :
    (closureP pre e).map Prod.snd = closure e := by
  induction e using Expr.stepInd generalizing pre with
  | h e ih =>
    rw [closureP_eq, closure_eq, ← contentsP_map_snd (fun a ha => (flatArgs_args h ha).1),
      List.map_flatMap, List.flatMap_map]
    refine flatMap_congr' (fun sx hsx => ?_)
    have hs := (mem_contentsP.1 (show (sx.1, sx.2) ∈ contentsP e from hsx)).1
    simp [ih _ _ hs (flatArgs_step h hs)]

/-- The annotated `descendants` is `descendants`. -/
theorem descP_map_snd {e : Expr} (h : e.flatArgs = true) (pre : Path) :
    (descP pre e).map Prod.snd = descOf e := by
  induction e using Expr.stepInd generalizing pre with
  | h e ih =>
    rw [descP_eq, descOf_eq, ← contentsP_map_snd (fun a ha => (flatArgs_args h ha).1),
      List.map_append, List.map_flatMap, List.flatMap_map]
    congr 1
    · simp [tagP, List.map_map, Function.comp_def]
    · refine flatMap_congr' (fun sx hsx => ?_)
      have hs := (mem_contentsP.1 (show (sx.1, sx.2) ∈ contentsP e from hsx)).1
      exact ih _ _ hs (flatArgs_step h hs) _

theorem descRootP_map_snd {es : List Expr} (h : flatArgsL es = true) :
    (descRootP es).map Prod.snd = descRoot es := by
  rw [descRootP, descRoot_eq_wrap]
  exact descP_map_snd (by rw [flatArgs_rootWrap]; exact h) []

/-! ## Parents -/

/-- `k` steps up the parent links -/
def ancestorPath (k : Nat) (p : Path) : Path := Nat.repeat parentPath k p

theorem ancestorPath_eq_take (k : Nat) (p : Path) : ancestorPath k p = p.take (p.length - k) := by
  induction k with
  | zero => simp [ancestorPath, Nat.repeat]
  | succ k ih =>
    have : ancestorPath (k + 1) p = parentPath (ancestorPath k p) := rfl
    rw [this, ih, parentPath, List.dropLast_eq_take, List.take_take, List.length_take]
    congr 1
    omega

theorem ancestorPath_length (p : Path) : ancestorPath p.length p = [] := by
  simp [ancestorPath_eq_take]

theorem nav_getAt_take {e x : Expr} {p : Path} (h : getAt e p = some x) (k : Nat) :
    ∃ y, getAt e (p.take k) = some y ∧ getAt y (p.drop k) = some x := by
  rw [← List.take_append_drop k p, nav_getAt_append] at h
  cases hy : getAt e (p.take k) with
  | none => simp [hy] at h
  | some y =>
    refine ⟨y, by simp, ?_⟩
    simpa [hy] using h

/-- The node at `q ++ [st]` is produced by `contents` of the node at `q`. -/
theorem parent_of_mem_descP {e x : Expr} {q : Path} {st : Step} (h : (q ++ [st], x) ∈ descP [] e) :
    ∃ y, getAt e q = some y ∧ (st, x) ∈ contentsP y := by
  obtain ⟨_, hg, hb⟩ := mem_descP_iff.1 h
  rw [nav_getAt_append] at hg
  cases hy : getAt e q with
  | none => simp [hy] at hg
  | some y =>
    refine ⟨y, rfl, mem_contentsP.2 ⟨?_, hb⟩⟩
    simp only [hy, Option.bind_some, nav_getAt_cons] at hg
    cases hs : stepGet y st with
    | none => simp [hs] at hg
    | some z => simpa [hs, getAt] using hg

end TexSoup
