import TexSoupModel.Pos
/-!
# Lemmas about `lineBreaks`, the `bisect` loops and `lineColOf`

Used by `TexSoupProofs/Properties/C13Lines.lean`.
-/
namespace TexSoup
namespace PosLemmas

/-! ## The break list -/

theorem lineBreaksFrom_append (i : Nat) (a b : Str) :
    lineBreaksFrom i (a ++ b) = lineBreaksFrom i a ++ lineBreaksFrom (i + a.length) b := by
  induction a generalizing i with
  | nil => simp [lineBreaksFrom]
  | cons c r ih =>
    have h : i + 1 + r.length = i + (r.length + 1) := by omega
    by_cases hc : c = 10 <;> simp [lineBreaksFrom, hc, ih, h]

theorem mem_lineBreaksFrom {i x : Nat} {s : Str} (h : x ∈ lineBreaksFrom i s) :
    i ≤ x ∧ x < i + s.length := by
  induction s generalizing i with
  | nil => simp [lineBreaksFrom] at h
  | cons c r ih =>
    simp only [lineBreaksFrom] at h
    split at h
    · rcases List.mem_cons.mp h with h | h
      · subst h; simp
      · have := ih h; simp; omega
    · have := ih h; simp; omega

theorem lineBreaksFrom_pairwise (i : Nat) (s : Str) :
    (lineBreaksFrom i s).Pairwise (· < ·) := by
  induction s generalizing i with
  | nil => simp [lineBreaksFrom]
  | cons c r ih =>
    simp only [lineBreaksFrom]
    split
    · refine List.pairwise_cons.mpr ⟨?_, ih _⟩
      intro x hx
      have := mem_lineBreaksFrom hx
      omega
    · exact ih _

theorem length_lineBreaksFrom (i : Nat) (s : Str) :
    (lineBreaksFrom i s).length = s.count 10 := by
  induction s generalizing i with
  | nil => simp [lineBreaksFrom]
  | cons c r ih =>
    by_cases hc : c = 10 <;> simp [lineBreaksFrom, hc, ih]

/-- If the LF-free segment `seg` follows the last line break, that break is the last entry. -/
theorem lineBreaksFrom_last (i : Nat) (pre seg : Str) (hseg : 10 ∉ seg) :
    lineBreaksFrom i (pre ++ 10 :: seg) = lineBreaksFrom i pre ++ [i + pre.length] := by
  have hnone : ∀ (j : Nat) (t : Str), 10 ∉ t → lineBreaksFrom j t = [] := by
    intro j t ht
    induction t generalizing j with
    | nil => rfl
    | cons c r ih =>
      have hc : c ≠ 10 := fun h => ht (by simp [h])
      have hr : 10 ∉ r := fun h => ht (by simp [h])
      simp [lineBreaksFrom, hc, ih _ hr]
  rw [lineBreaksFrom_append]
  simp [lineBreaksFrom, hnone _ _ hseg]

/-- The breaks before offset `p` are the breaks of the prefix of length `p`. -/
theorem filter_lt_lineBreaks (s : Str) (p : Nat) :
    (lineBreaks s).filter (· < p) = lineBreaks (s.take p) := by
  have hs : lineBreaks s = lineBreaks (s.take p) ++ lineBreaksFrom (s.take p).length (s.drop p) := by
    conv => lhs; rw [← List.take_append_drop p s]
    simp only [lineBreaks]
    rw [lineBreaksFrom_append]
    simp
  rw [hs, List.filter_append]
  have h1 : (lineBreaks (s.take p)).filter (· < p) = lineBreaks (s.take p) := by
    apply List.filter_eq_self.mpr
    intro x hx
    have := mem_lineBreaksFrom hx
    simp at this
    simp; omega
  have h2 : (lineBreaksFrom (s.take p).length (s.drop p)).filter (· < p) = [] := by
    apply List.filter_eq_nil_iff.mpr
    intro x hx
    have := mem_lineBreaksFrom hx
    by_cases hp : p ≤ s.length
    · simp [Nat.min_eq_left hp] at this; simp; omega
    · have hd : s.drop p = [] := List.drop_eq_nil_of_le (by omega)
      rw [hd] at hx
      simp [lineBreaksFrom] at hx
  rw [h1, h2]; simp

/-- Same for `≤` (what `bisect_right` counts): the breaks of the prefix of length `p + 1`. -/
theorem filter_le_lineBreaks (s : Str) (p : Nat) :
    (lineBreaks s).filter (· ≤ p) = lineBreaks (s.take (p + 1)) := by
  rw [← filter_lt_lineBreaks]
  congr 1
  funext x
  simp [Nat.lt_succ_iff]

/-! ## Binary search on a sorted list -/

theorem getD_mono {a : List Nat} (hs : a.Pairwise (· < ·)) {i j : Nat} (hij : i ≤ j)
    (hj : j < a.length) : a.getD i 0 ≤ a.getD j 0 := by
  rcases Nat.lt_or_eq_of_le hij with h | h
  · have := List.pairwise_iff_getElem.mp hs i j (by omega) hj h
    simp [List.getD_eq_getElem?_getD, hj, (by omega : i < a.length)]
    omega
  · subst h; exact Nat.le_refl _

/-- A split point `k` with everything before it `< x` and everything from it on `≥ x`
is the number of elements `< x`. -/
theorem length_filter_lt_of_split (a : List Nat) (x k : Nat) (hk : k ≤ a.length)
    (hlo : ∀ i, i < k → a.getD i 0 < x) (hhi : ∀ i, k ≤ i → i < a.length → x ≤ a.getD i 0) :
    (a.filter (· < x)).length = k := by
  induction a generalizing k with
  | nil => simp at hk; simp [hk]
  | cons h t ih =>
    cases k with
    | zero =>
      have h0 := hhi 0 (by omega) (by simp)
      simp at h0
      have := ih 0 (by omega) (by intro i hi; omega)
        (by intro i _ hi; have := hhi (i + 1) (by omega) (by simp; omega); simpa using this)
      simp [Nat.not_lt.mpr h0, this]
    | succ k =>
      have h0 := hlo 0 (by omega)
      simp at h0
      have := ih k (by simp at hk; omega)
        (by intro i hi; have := hlo (i + 1) (by omega); simpa using this)
        (by intro i hki hi; have := hhi (i + 1) (by omega) (by simp; omega); simpa using this)
      simp [h0, this]

theorem length_filter_le_of_split (a : List Nat) (x k : Nat) (hk : k ≤ a.length)
    (hlo : ∀ i, i < k → a.getD i 0 ≤ x) (hhi : ∀ i, k ≤ i → i < a.length → x < a.getD i 0) :
    (a.filter (· ≤ x)).length = k := by
  have := length_filter_lt_of_split a (x + 1) k hk
    (by intro i hi; have := hlo i hi; omega)
    (by intro i h1 h2; have := hhi i h1 h2; omega)
  rw [← this]
  congr 2
  funext y
  simp [Nat.lt_succ_iff]

theorem bisectLeftGo_eq (a : List Nat) (x : Nat) (hs : a.Pairwise (· < ·)) :
    ∀ fuel lo hi, lo ≤ hi → hi ≤ a.length → hi - lo < fuel →
      (∀ i, i < lo → a.getD i 0 < x) →
      (∀ i, hi ≤ i → i < a.length → x ≤ a.getD i 0) →
      bisectLeftGo a x fuel lo hi = (a.filter (· < x)).length := by
  intro fuel
  induction fuel with
  | zero => intro lo hi _ _ h; omega
  | succ f ih =>
    intro lo hi hle hhi hf hlo hup
    simp only [bisectLeftGo]
    split
    · next hlt =>
      have hm1 : lo ≤ (lo + hi) / 2 := by omega
      have hm2 : (lo + hi) / 2 < hi := by omega
      split
      · next hmid =>
        apply ih _ _ (by omega) hhi (by omega) _ hup
        intro i hi'
        have := getD_mono hs (i := i) (j := (lo + hi) / 2) (by omega) (by omega)
        omega
      · next hmid =>
        apply ih _ _ hm1 (by omega) (by omega) hlo
        intro i h1 h2
        have := getD_mono hs (i := (lo + hi) / 2) (j := i) h1 h2
        omega
    · next hge =>
      have : lo = hi := by omega
      subst this
      exact (length_filter_lt_of_split a x lo hhi hlo hup).symm

theorem bisectRightGo_eq (a : List Nat) (x : Nat) (hs : a.Pairwise (· < ·)) :
    ∀ fuel lo hi, lo ≤ hi → hi ≤ a.length → hi - lo < fuel →
      (∀ i, i < lo → a.getD i 0 ≤ x) →
      (∀ i, hi ≤ i → i < a.length → x < a.getD i 0) →
      bisectRightGo a x fuel lo hi = (a.filter (· ≤ x)).length := by
  intro fuel
  induction fuel with
  | zero => intro lo hi _ _ h; omega
  | succ f ih =>
    intro lo hi hle hhi hf hlo hup
    simp only [bisectRightGo]
    split
    · next hlt =>
      have hm1 : lo ≤ (lo + hi) / 2 := by omega
      have hm2 : (lo + hi) / 2 < hi := by omega
      split
      · next hmid =>
        apply ih _ _ hm1 (by omega) (by omega) hlo
        intro i h1 h2
        have := getD_mono hs (i := (lo + hi) / 2) (j := i) h1 h2
        omega
      · next hmid =>
        apply ih _ _ (by omega) hhi (by omega) _ hup
        intro i hi'
        have := getD_mono hs (i := i) (j := (lo + hi) / 2) (by omega) (by omega)
        omega
    · next hge =>
      have : lo = hi := by omega
      subst this
      exact (length_filter_le_of_split a x lo hhi hlo hup).symm

/-- On a strictly increasing list `bisect_left` counts the elements `< x`. -/
theorem bisectLeft_eq (a : List Nat) (x : Nat) (hs : a.Pairwise (· < ·)) :
    bisectLeft a x = (a.filter (· < x)).length :=
  bisectLeftGo_eq a x hs _ _ _ (Nat.zero_le _) (Nat.le_refl _) (by omega)
    (by intro i hi; omega) (by intro i h1 h2; omega)

/-- On a strictly increasing list `bisect_right` counts the elements `≤ x`. -/
theorem bisectRight_eq (a : List Nat) (x : Nat) (hs : a.Pairwise (· < ·)) :
    bisectRight a x = (a.filter (· ≤ x)).length :=
  bisectRightGo_eq a x hs _ _ _ (Nat.zero_le _) (Nat.le_refl _) (by omega)
    (by intro i hi; omega) (by intro i h1 h2; omega)

/-- `line_no` of the repaired code: the number of line breaks strictly before `p`. -/
theorem bisectLeft_lineBreaks (s : Str) (p : Nat) :
    bisectLeft (lineBreaks s) p = (s.take p).count 10 := by
  rw [bisectLeft_eq _ _ (show (lineBreaks s).Pairwise (· < ·) from lineBreaksFrom_pairwise 0 s),
    filter_lt_lineBreaks]
  exact length_lineBreaksFrom 0 _

/-! ## Decomposing a prefix at its last line break -/

/-- Every string either has no LF or splits at its last LF. -/
theorem split_last_lf (t : Str) :
    10 ∉ t ∨ ∃ pre seg, t = pre ++ 10 :: seg ∧ 10 ∉ seg := by
  induction t with
  | nil => left; simp
  | cons c r ih =>
    rcases ih with h | ⟨pre, seg, h, hs⟩
    · by_cases hc : c = 10
      · right; exact ⟨[], r, by simp [hc], h⟩
      · left; simp [h]; exact fun e => hc e.symm
    · right; exact ⟨c :: pre, seg, by simp [h], hs⟩

/-- The break list of `s` starts with the break list of any prefix of `s`. -/
theorem lineBreaks_take_append (s : Str) (p : Nat) :
    lineBreaks s = lineBreaks (s.take p) ++ lineBreaksFrom (s.take p).length (s.drop p) := by
  conv => lhs; rw [← List.take_append_drop p s]
  simp only [lineBreaks]
  rw [lineBreaksFrom_append]
  simp

/-- If the prefix of length `p` ends in `.. LF seg` with `seg` LF-free, the entry of the
break list just below the bisection point is the position of that LF. -/
theorem lineBreaks_getD_pred (s : Str) (p : Nat) (pre seg : Str) (ht : s.take p = pre ++ 10 :: seg)
    (hseg : 10 ∉ seg) :
    (lineBreaks s).getD ((s.take p).count 10 - 1) 0 = pre.length := by
  have h1 : lineBreaks (s.take p) = lineBreaks pre ++ [pre.length] := by
    rw [ht]; simpa [lineBreaks] using lineBreaksFrom_last 0 pre seg hseg
  have hlen : (lineBreaks pre).length = (s.take p).count 10 - 1 := by
    have h2 := length_lineBreaksFrom 0 (s.take p)
    have h3 : (lineBreaks (s.take p)).length = (lineBreaks pre).length + 1 := by rw [h1]; simp
    simp only [lineBreaks] at h3 ⊢
    omega
  rw [lineBreaks_take_append s p, h1, ← hlen]
  simp [List.getD_eq_getElem?_getD]

theorem takeWhile_ne_lf_of_not_mem (t : Str) (h : 10 ∉ t) : t.takeWhile (· != 10) = t := by
  induction t with
  | nil => rfl
  | cons c r ih =>
    have hc : c ≠ 10 := fun e => h (by simp [e])
    have hr : 10 ∉ r := fun e => h (by simp [e])
    simp [hc, ih hr]

end PosLemmas
end TexSoup
