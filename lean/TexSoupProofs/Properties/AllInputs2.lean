import TexSoupProofs.Properties.AllInputs
import TexSoupProofs.Properties.C12Grammar
import TexSoupProofs.NavLemmas
/-!
# More corollaries for ALL strictly parsing representable inputs: nodes anywhere in the tree

`Sub x e`: `x` is `e` or lies inside it (in an argument or in the contents, at any depth);
`SubL x es`: inside one of `es`. `good_all`: for a strictly parsing representable input
(`AllInputs.StrictInput`) every node anywhere in the tree that is neither an argument group nor a
text leaf is the tree of a well-formed element of the grammar witness whose tokens are a
contiguous part of the token list of the source (`Good`). From it, on the source / tree level:

 * **C12** `C12.math_node_all`: every math node `.math k body pos` anywhere in the tree is spelled
   in the source by an opener `o` of kind `k` at offset `pos`, tokens `bs`, a closer `c` of kind
   `k` (contiguous in `tokenize s`); `body` is exactly what the math-body reader makes of `bs`
   whatever follows the closer, and the node is what `read_expr` makes of `o bs c` in every mode,
   with every skip list, whatever follows.
   `C12.math_environment_node_all`: a named environment whose name is a math environment name
   (and not in the skip list in force at its place) has a body that is well-formed in math mode
   – stated on the tree: it contains no `\item` at its top level (an `\item` there is an
   assertion error of the reader).
   `C12.no_free_bracket_group_all`: no content list anywhere in the tree contains a bracket
   group: `[`, `]` that are not the optional argument of a command are text leaves, in math as
   elsewhere, and need no partner.
   `C12.command_node_all`: every command node anywhere is spelled `\`, ONE name token: for a
   sizing command (`\left[`, `\big(` …) the delimiter is part of that token, not a bracket.
   `C12.command_found_all`: a command among the descendants is found by `find_all(name)`.
 * **C09** `C09.command_args_shape_anywhere`: `C09.command_args_shape_all` for command nodes
   anywhere in the tree.
 * **C11** is *not* generalised to "anywhere": inside a brace group, an argument, a math region or
   the contents of an `\item` no skip list is in force (`read_arg`, `read_math_env`, `read_item`
   call `read_expr` without `skip_envs`), so `{\begin{verbatim}$\end{verbatim}}` is read as an
   ordinary environment (`verbatim_in_group_is_interpreted`).
 * **C14** `set_args_command_reparse_all` / `set_args_environment_reparse_all`: `.args =` for
   every input; the two hypotheses about the re-argumented document (it is well-formed, its
   squeezed token list is a tokenizer output) are stated for a grammar witness of the input
   (`∃ d`), see there; the counterexample is `C14G.interleaved_args_not_read_back`.
-/
namespace TexSoup.AllInputs
open TexSoup TexSoup.Gram

/-- `x` is `e` or lies inside it. -/
inductive Sub : Expr → Expr → Prop
  | refl (e : Expr) : Sub e e
  | arg {x a e : Expr} : a ∈ e.args → Sub x a → Sub x e
  | body {x y e : Expr} : y ∈ e.body → Sub x y → Sub x e

/-- `x` lies in the document `es`. -/
def SubL (x : Expr) (es : List Expr) : Prop := ∃ e ∈ es, Sub x e

theorem sub_cases {x e : Expr} (h : Sub x e) :
    x = e ∨ (∃ a ∈ e.args, Sub x a) ∨ (∃ y ∈ e.body, Sub x y) := by
  cases h with
  | refl => exact .inl rfl
  | arg ha hs => exact .inr (.inl ⟨_, ha, hs⟩)
  | body hy hs => exact .inr (.inr ⟨_, hy, hs⟩)

/-- `x` is accounted for in the token list `T`: an argument group, a text leaf, or the tree of a
well-formed element whose tokens are a contiguous part of `T`. -/
def Good (x : Expr) (T : List Tok) : Prop :=
  (∃ k b p, x = .group k b p) ∨ (∃ s p, x = .text s p) ∨
  ∃ (e : Elem) (skip : List Str) (m : Mode) (nx : List Tok),
    WF skip m nx e = true ∧ tree e = x ∧ toks e <:+: T

theorem Good.mono {x : Expr} {T T' : List Tok} (h : Good x T) (hi : T <:+: T') : Good x T' := by
  rcases h with h | h | ⟨e, skip, m, nx, hw, ht, hinf⟩
  · exact .inl h
  · exact .inr (.inl h)
  · exact .inr (.inr ⟨e, skip, m, nx, hw, ht, hinf.trans hi⟩)

theorem infix_mid {α : Type} (A l B : List α) : l <:+: A ++ (l ++ B) := ⟨A, B, by simp⟩

mutual
theorem good_elem : ∀ (e : Elem) (skip : List Str) (m : Mode) (nx : List Tok),
    WF skip m nx e = true → ∀ x, Sub x (tree e) → Good x (toks e)
  | .leaf t, skip, m, nx, h, x, hx => by
      rcases sub_cases hx with rfl | ⟨a, ha, _⟩ | ⟨y, hy, _⟩
      · exact .inr (.inl ⟨_, _, rfl⟩)
      · simp [tree, Expr.args] at ha
      · simp [tree, Expr.body] at hy
  | .group o b c, skip, m, nx, h, x, hx => by
      rcases sub_cases hx with rfl | ⟨a, ha, _⟩ | ⟨y, hy, hs⟩
      · exact .inl ⟨_, _, _, rfl⟩
      · simp [tree, Expr.args] at ha
      · simp only [WF, Bool.and_eq_true] at h
        simp only [tree, Expr.body] at hy
        exact (good_list b _ _ _ _ h.2 x ⟨y, hy, hs⟩).mono ⟨[o], [c], by simp [toks]⟩
  | .math k o b c, skip, m, nx, h, x, hx => by
      rcases sub_cases hx with rfl | ⟨a, ha, _⟩ | ⟨y, hy, hs⟩
      · exact .inr (.inr ⟨_, skip, m, nx, h, rfl, List.infix_refl _⟩)
      · simp [tree, Expr.args] at ha
      · have h' := h
        simp only [WF, Bool.and_eq_true] at h'
        simp only [tree, Expr.body] at hy
        exact (good_list b _ _ _ _ h'.2 x ⟨y, hy, hs⟩).mono ⟨[o], [c], by simp [toks]⟩
  | .cmd e n a1 a2 a3 a4, skip, m, nx, h, x, hx => by
      rcases sub_cases hx with rfl | ⟨a, ha, hs⟩ | ⟨y, hy, _⟩
      · exact .inr (.inr ⟨_, skip, m, nx, h, rfl, List.infix_refl _⟩)
      · simp only [WF, Bool.and_eq_true] at h
        obtain ⟨⟨⟨⟨⟨_, w1⟩, w2⟩, w3⟩, w4⟩, _⟩ := h
        simp only [tree, Expr.args, List.mem_append] at ha
        rcases ha with ha | ha | ha | ha
        · exact (good_args a1 _ _ _ w1 x ⟨a, ha, hs⟩).mono ⟨[e, n], toksA a2 ++ (toksA a3 ++ toksA a4), by simp [toks]⟩
        · exact (good_args a2 _ _ _ w2 x ⟨a, ha, hs⟩).mono
            ⟨e :: n :: toksA a1, toksA a3 ++ toksA a4, by simp [toks]⟩
        · exact (good_args a3 _ _ _ w3 x ⟨a, ha, hs⟩).mono
            ⟨e :: n :: (toksA a1 ++ toksA a2), toksA a4, by simp [toks]⟩
        · exact (good_args a4 _ _ _ w4 x ⟨a, ha, hs⟩).mono
            ⟨e :: n :: (toksA a1 ++ (toksA a2 ++ toksA a3)), [], by simp [toks]⟩
      · simp [tree, Expr.body] at hy
  | .item e n a1 a2 a3 a4 b, skip, m, nx, h, x, hx => by
      rcases sub_cases hx with rfl | ⟨a, ha, hs⟩ | ⟨y, hy, hs⟩
      · exact .inr (.inr ⟨_, skip, m, nx, h, rfl, List.infix_refl _⟩)
      · simp only [WF, Bool.and_eq_true] at h
        obtain ⟨⟨⟨⟨⟨⟨⟨_, w1⟩, w2⟩, w3⟩, w4⟩, _⟩, _⟩, _⟩ := h
        simp only [tree, Expr.args, List.mem_append] at ha
        rcases ha with ha | ha | ha | ha
        · exact (good_args a1 _ _ _ w1 x ⟨a, ha, hs⟩).mono
            ⟨[e, n], toksA a2 ++ (toksA a3 ++ (toksA a4 ++ toksS b)), by simp [toks]⟩
        · exact (good_args a2 _ _ _ w2 x ⟨a, ha, hs⟩).mono
            ⟨e :: n :: toksA a1, toksA a3 ++ (toksA a4 ++ toksS b), by simp [toks]⟩
        · exact (good_args a3 _ _ _ w3 x ⟨a, ha, hs⟩).mono
            ⟨e :: n :: (toksA a1 ++ toksA a2), toksA a4 ++ toksS b, by simp [toks]⟩
        · exact (good_args a4 _ _ _ w4 x ⟨a, ha, hs⟩).mono
            ⟨e :: n :: (toksA a1 ++ (toksA a2 ++ toksA a3)), toksS b, by simp [toks]⟩
      · simp only [WF, Bool.and_eq_true] at h
        obtain ⟨⟨_, hb⟩, _⟩ := h
        simp only [tree, Expr.body] at hy
        exact (good_list b _ _ _ _ hb x ⟨y, hy, hs⟩).mono
          ⟨e :: n :: (toksA a1 ++ (toksA a2 ++ (toksA a3 ++ toksA a4))), [], by simp [toks]⟩
  | .env e bg nm a2 a3 a4 b e2 en nm2, skip, m, nx, h, x, hx => by
      rcases sub_cases hx with rfl | ⟨a, ha, hs⟩ | ⟨y, hy, hs⟩
      · exact .inr (.inr ⟨_, skip, m, nx, h, rfl, List.infix_refl _⟩)
      · simp only [WF, Bool.and_eq_true] at h
        obtain ⟨⟨⟨⟨⟨⟨⟨⟨⟨⟨⟨_, _⟩, w2⟩, w3⟩, w4⟩, _⟩, _⟩, _⟩, _⟩, _⟩, _⟩, _⟩ := h
        simp only [tree, Expr.args, List.mem_append] at ha
        rcases ha with ha | ha | ha
        · exact (good_args a2 _ _ _ w2 x ⟨a, ha, hs⟩).mono
            ⟨e :: bg :: nm.toks, toksA a3 ++ (toksA a4 ++ (toksS b ++ (e2 :: en :: nm2.toks))), by simp [toks]⟩
        · exact (good_args a3 _ _ _ w3 x ⟨a, ha, hs⟩).mono
            ⟨e :: bg :: (nm.toks ++ toksA a2), toksA a4 ++ (toksS b ++ (e2 :: en :: nm2.toks)), by simp [toks]⟩
        · exact (good_args a4 _ _ _ w4 x ⟨a, ha, hs⟩).mono
            ⟨e :: bg :: (nm.toks ++ (toksA a2 ++ toksA a3)), toksS b ++ (e2 :: en :: nm2.toks), by simp [toks]⟩
      · simp only [WF, Bool.and_eq_true] at h
        obtain ⟨⟨⟨⟨⟨_, hb⟩, _⟩, _⟩, _⟩, _⟩ := h
        simp only [tree, Expr.body] at hy
        exact (good_list b _ _ _ _ hb x ⟨y, hy, hs⟩).mono
          ⟨e :: bg :: (nm.toks ++ (toksA a2 ++ (toksA a3 ++ toksA a4))), e2 :: en :: nm2.toks, by simp [toks]⟩
  | .venv e bg nm a2 a3 a4 vb e5, skip, m, nx, h, x, hx => by
      rcases sub_cases hx with rfl | ⟨a, ha, hs⟩ | ⟨y, hy, hs⟩
      · exact .inr (.inr ⟨_, skip, m, nx, h, rfl, List.infix_refl _⟩)
      · simp only [WF, Bool.and_eq_true] at h
        obtain ⟨⟨⟨⟨⟨⟨⟨⟨⟨_, _⟩, w2⟩, w3⟩, w4⟩, _⟩, _⟩, _⟩, _⟩, _⟩ := h
        simp only [tree, Expr.args, List.mem_append] at ha
        rcases ha with ha | ha | ha
        · exact (good_args a2 _ _ _ w2 x ⟨a, ha, hs⟩).mono
            ⟨e :: bg :: nm.toks, toksA a3 ++ (toksA a4 ++ (vb ++ e5)), by simp [toks]⟩
        · exact (good_args a3 _ _ _ w3 x ⟨a, ha, hs⟩).mono
            ⟨e :: bg :: (nm.toks ++ toksA a2), toksA a4 ++ (vb ++ e5), by simp [toks]⟩
        · exact (good_args a4 _ _ _ w4 x ⟨a, ha, hs⟩).mono
            ⟨e :: bg :: (nm.toks ++ (toksA a2 ++ toksA a3)), vb ++ e5, by simp [toks]⟩
      · simp only [tree, Expr.body, List.mem_singleton] at hy
        subst hy
        rcases sub_cases hs with rfl | ⟨a, ha, _⟩ | ⟨y, hy, _⟩
        · exact .inr (.inl ⟨_, _, rfl⟩)
        · simp [Expr.args] at ha
        · simp [Expr.body] at hy
theorem good_list : ∀ (es : List Elem) (skip : List Str) (m : Mode) (ctx : Ctx) (nx : List Tok),
    WFs skip m ctx nx es = true → ∀ x, SubL x (trees es) → Good x (toksS es)
  | [], _, _, _, _, _, x, ⟨y, hy, _⟩ => by simp at hy
  | e :: es, skip, m, ctx, nx, h, x, ⟨y, hy, hs⟩ => by
      obtain ⟨h1, _, h3, _⟩ := WFs_cons h
      simp only [trees_cons, List.mem_cons] at hy
      rcases hy with rfl | hy
      · exact (good_elem e _ _ _ h1 x hs).mono ⟨[], toksS es, by simp⟩
      · exact (good_list es _ _ _ _ h3 x ⟨y, hy, hs⟩).mono ⟨toks e, [], by simp⟩
theorem good_arg : ∀ (a : Arg) (m : Mode) (k gk : GKind),
    WFarg m k a = true → ∀ x, Sub x (treeArg gk a) → Good x (toksArg a)
  | .mk sp o b c, m, k, gk, h, x, hx => by
      rcases sub_cases hx with rfl | ⟨a, ha, _⟩ | ⟨y, hy, hs⟩
      · exact .inl ⟨_, _, _, rfl⟩
      · simp [treeArg, Expr.args] at ha
      · simp only [WFarg, Bool.and_eq_true] at h
        simp only [treeArg, Expr.body] at hy
        exact (good_list b _ _ _ _ h.2 x ⟨y, hy, hs⟩).mono ⟨sp.toList ++ [o], [c], by simp [toksArg]⟩
theorem good_args : ∀ (as : List Arg) (m : Mode) (k gk : GKind),
    WFa m k as = true → ∀ x, SubL x (treesA gk as) → Good x (toksA as)
  | [], _, _, _, _, x, ⟨y, hy, _⟩ => by simp at hy
  | a :: as, m, k, gk, h, x, ⟨y, hy, hs⟩ => by
      obtain ⟨h1, h2⟩ := WFa_cons h
      simp only [treesA_cons, List.mem_cons] at hy
      rcases hy with rfl | hy
      · exact (good_arg a _ _ gk h1 x hs).mono ⟨[], toksA as, by simp⟩
      · exact (good_args as _ _ gk h2 x ⟨y, hy, hs⟩).mono ⟨toksArg a, [], by simp⟩
end

/-- **Every node anywhere in the parse of a strictly parsing representable input is accounted
for in the token list of the source.** -/
theorem good_all {skip : List Str} {s : Str} {es : List Expr} (hin : StrictInput skip s es)
    {x : Expr} (hx : SubL x es) : ∃ ts, tokenize s = some ts ∧ Good x ts := by
  obtain ⟨d, ht, -, hwf, rfl, -, -⟩ := hin.doc
  exact ⟨_, ht, good_list d _ _ _ _ hwf x hx⟩

/-! ### descendants are inside -/

theorem sub_trans {x y z : Expr} (h1 : Sub x y) (h2 : Sub y z) : Sub x z := by
  induction h2 with
  | refl => exact h1
  | arg ha _ ih => exact .arg ha ih
  | body hy _ ih => exact .body hy ih

theorem sub_of_mem_contents (e : Expr) : ∀ x, x ∈ contentsOf e → Sub x e := by
  induction e using Expr.ind with
  | h e ha _ =>
    intro x hx
    rw [contentsOf_eq] at hx
    rcases List.mem_append.1 hx with hx | hx
    · obtain ⟨a, haa, hxa⟩ := List.mem_flatMap.1 hx
      exact .arg haa (ha a haa x hxa)
    · exact .body (mem_dropBlank.1 hx).1 (.refl x)

theorem sub_of_mem_desc (e : Expr) : ∀ x, x ∈ descOf e → Sub x e := by
  induction e using Expr.contentsInd with
  | h e ih =>
    intro x hx
    rw [descOf_eq] at hx
    rcases List.mem_append.1 hx with hx | hx
    · exact sub_of_mem_contents e x hx
    · obtain ⟨y, hy, hxy⟩ := List.mem_flatMap.1 hx
      exact sub_trans (ih y hy x hxy) (sub_of_mem_contents e y hy)

/-- what `soup.descendants` lists lies in the document -/
theorem subL_of_mem_descRoot {x : Expr} {es : List Expr} (h : x ∈ descRoot es) : SubL x es := by
  simp only [descRoot, List.mem_append] at h
  rcases h with h | h
  · exact ⟨x, (mem_dropBlank.1 h).1, .refl x⟩
  · rw [descList_eq] at h
    obtain ⟨y, hy, hxy⟩ := List.mem_flatMap.1 h
    exact ⟨y, hy, sub_of_mem_desc y x hxy⟩

end TexSoup.AllInputs

/-! ## C12 -/
namespace TexSoup.C12
open TexSoup TexSoup.Gram TexSoup.AllInputs

/-- **Every math node, anywhere in the tree, is one region of the source and its body is exactly
what the enclosed tokens are read to.** -/
theorem math_node_all (skip : List Str) (s : Str) (es : List Expr) (hin : StrictInput skip s es)
    (k : MKind) (body : List Expr) (pos : Int) (hx : SubL (.math k body pos) es) :
    ∃ (ts : List Tok) (o c : Tok) (bs : List Tok), tokenize s = some ts ∧ (o :: (bs ++ [c])) <:+: ts ∧
      mkindOfBegin o.cat = some k ∧ c.cat = k.tokEnd ∧ (o.pos : Int) = pos ∧
      (∀ (tol : Bool) (rest : List Tok) (f : Nat), 3 * (bs ++ c :: rest).length + 2 ≤ f →
        readMathBody f k tol (bs ++ c :: rest) = .ok (body, c :: rest)) ∧
      (∀ (sk : List Str) (tol : Bool) (m : Mode) (rest : List Tok) (f : Nat),
        3 * (o :: (bs ++ c :: rest)).length + 1 ≤ f →
        readExpr f sk tol m (o :: (bs ++ c :: rest)) = .ok (.math k body pos, rest)) := by
  obtain ⟨ts, hts, hg⟩ := good_all hin hx
  rcases hg with ⟨_, _, _, h⟩ | ⟨_, _, h⟩ | ⟨e, sk0, m0, nx0, hw, ht, hinf⟩
  · cases h
  · cases h
  · cases e with
    | math k' o b c =>
      simp only [tree, Expr.math.injEq] at ht
      obtain ⟨rfl, rfl, rfl⟩ := ht
      have hw' := hw
      rw [C12G.math_region_wf] at hw'
      simp only [Bool.and_eq_true, beq_iff_eq] at hw'
      obtain ⟨⟨ho, hc⟩, hb⟩ := hw'
      refine ⟨ts, o, c, toksS b, hts, by simpa [toks] using hinf, ho, hc, rfl, ?_, ?_⟩
      · intro tol rest f hf
        exact math_body_complete k' tol c hc b hb rest f hf
      · intro sk tol m rest f hf
        have hwf : WF sk m (win rest) (.math k' o b c) = true := by
          rw [C12G.math_region_wf]; simp [ho, hc, hb]
        have := readExpr_complete (.math k' o b c) sk tol m rest f hwf (by simpa [toks] using hf)
        simpa [toks, tree] using this
    | leaf t => simp [tree] at ht
    | group o b c => simp [tree] at ht
    | cmd _ _ _ _ _ _ => simp [tree] at ht
    | item _ _ _ _ _ _ _ => simp [tree] at ht
    | env _ _ _ _ _ _ _ _ _ _ => simp [tree] at ht
    | venv _ _ _ _ _ _ _ _ => simp [tree] at ht

/-- **A named math environment, anywhere in the tree**: it is a verbatim-like environment (one
text, if its name is in the skip list in force at its place) or its body is exactly what the
environment-body reader makes IN MATH MODE of the tokens `bs` between `\begin{name}…` and the
`\end{name}` (`tail`), whatever follows. -/
theorem math_environment_node_all (skip : List Str) (s : Str) (es : List Expr)
    (hin : StrictInput skip s es) (name : Str) (args body : List Expr) (pos : Int)
    (hx : SubL (.nenv name args body pos) es) (hmath : memStr name Tables.mathEnvNames = true) :
    (∃ u q, body = [.text u q]) ∨
    ∃ (ts : List Tok) (sk : List Str) (bs tail : List Tok) (g : List Expr), tokenize s = some ts ∧
      (bs ++ tail) <:+: ts ∧
      ∀ (tol : Bool) (rest : List Tok) (f : Nat), 3 * (bs ++ (tail ++ rest)).length + 2 ≤ f →
        readEnvBody f sk tol .math (bs ++ (tail ++ rest)) = .ok ((body, some g), tail ++ rest) := by
  obtain ⟨ts, hts, hg⟩ := good_all hin hx
  rcases hg with ⟨_, _, _, h⟩ | ⟨_, _, h⟩ | ⟨e, sk0, m0, nx0, hw, hte, hinf⟩
  · cases h
  · cases h
  · cases e with
    | env e bg nm a2 a3 a4 b e2 en nm2 =>
      right
      simp only [tree, Expr.nenv.injEq] at hte
      obtain ⟨hn, _, hb, _⟩ := hte
      simp only [WF, Bool.and_eq_true, beq_iff_eq] at hw
      obtain ⟨⟨⟨⟨⟨_, hbw⟩, hesc2⟩, hen⟩, hnm2⟩, _⟩ := hw
      rw [hn, C12G.math_environment_body_mode _ _ hmath] at hbw
      subst hb
      refine ⟨ts, sk0, toksS b, e2 :: en :: nm2.toks, [nm2.tree], hts, ?_, ?_⟩
      · refine List.IsInfix.trans ?_ hinf
        exact ⟨e :: bg :: (nm.toks ++ (toksA a2 ++ (toksA a3 ++ toksA a4))), [], by simp [toks]⟩
      · intro tol rest f hf
        have := env_body_complete sk0 tol .math e2 en nm2 hesc2 hen hnm2 b hbw rest f
          (by simpa using hf)
        simpa using this
    | venv e bg nm a2 a3 a4 vb e5 =>
      left
      simp only [tree, Expr.nenv.injEq] at hte
      exact ⟨_, _, hte.2.2.1.symm⟩
    | leaf t => simp [tree] at hte
    | group o b c => simp [tree] at hte
    | math _ o b c => simp [tree] at hte
    | cmd _ _ _ _ _ _ => simp [tree] at hte
    | item _ _ _ _ _ _ _ => simp [tree] at hte

/-! ### brackets -/

mutual
/-- no content list at or below the node contains a bracket group -/
def nfb : Expr → Bool
  | .text _ _ => true
  | .cmd _ a b _ => nfbL a && nfbL b && b.all (fun x => !isGroupOf .bracket x)
  | .nenv _ a b _ => nfbL a && nfbL b && b.all (fun x => !isGroupOf .bracket x)
  | .math _ b _ => nfbL b && b.all (fun x => !isGroupOf .bracket x)
  | .group _ b _ => nfbL b && b.all (fun x => !isGroupOf .bracket x)
def nfbL : List Expr → Bool
  | [] => true
  | e :: es => nfb e && nfbL es
end

theorem nfbL_append (a b : List Expr) : nfbL (a ++ b) = (nfbL a && nfbL b) := by
  induction a with
  | nil => simp [nfbL]
  | cons e es ih => simp [nfbL, ih, Bool.and_assoc]

theorem tree_not_bracket (e : Elem) : isGroupOf .bracket (tree e) = false := by
  cases e <;> simp [tree, isGroupOf]

theorem trees_no_bracket : ∀ es : List Elem, (trees es).all (fun x => !isGroupOf .bracket x) = true
  | [] => by simp
  | e :: es => by simp [tree_not_bracket e, trees_no_bracket es]

mutual
theorem nfb_tree : ∀ e : Elem, nfb (tree e) = true
  | .leaf t => by simp [tree, nfb]
  | .group o b c => by simp [tree, nfb, nfbL_trees b, trees_no_bracket b]
  | .math k o b c => by simp [tree, nfb, nfbL_trees b, trees_no_bracket b]
  | .cmd e n a1 a2 a3 a4 => by
      simp [tree, nfb, nfbL, nfbL_append, nfbL_treesA _ a1, nfbL_treesA _ a2, nfbL_treesA _ a3, nfbL_treesA _ a4]
  | .item e n a1 a2 a3 a4 b => by
      simp [tree, nfb, nfbL_append, nfbL_treesA _ a1, nfbL_treesA _ a2, nfbL_treesA _ a3, nfbL_treesA _ a4,
        nfbL_trees b, trees_no_bracket b]
  | .env e bg nm a2 a3 a4 b e2 en nm2 => by
      simp [tree, nfb, nfbL_append, nfbL_treesA _ a2, nfbL_treesA _ a3, nfbL_treesA _ a4,
        nfbL_trees b, trees_no_bracket b]
  | .venv e bg nm a2 a3 a4 vb e5 => by
      simp [tree, nfb, nfbL, nfbL_append, nfbL_treesA _ a2, nfbL_treesA _ a3, nfbL_treesA _ a4, isGroupOf]
theorem nfbL_trees : ∀ es : List Elem, nfbL (trees es) = true
  | [] => by simp [nfbL]
  | e :: es => by simp [nfbL, nfb_tree e, nfbL_trees es]
theorem nfb_treeArg (k : GKind) : ∀ a : Arg, nfb (treeArg k a) = true
  | .mk sp o b c => by simp [treeArg, nfb, nfbL_trees b, trees_no_bracket b]
theorem nfbL_treesA (k : GKind) : ∀ as : List Arg, nfbL (treesA k as) = true
  | [] => by simp [nfbL]
  | a :: as => by simp [nfbL, nfb_treeArg k a, nfbL_treesA k as]
end

/-- **Square brackets that are no optional argument are text, everywhere** (in math regions,
environments, groups, the contents of `\item`, the document itself): no content list of the tree
contains a bracket group, so an unbalanced `[` or `]` is a text leaf that needs no partner. -/
theorem no_free_bracket_group_all (skip : List Str) (s : Str) (es : List Expr)
    (hin : StrictInput skip s es) :
    nfbL es = true ∧ es.all (fun x => !isGroupOf .bracket x) = true := by
  obtain ⟨d, -, -, -, rfl, -, -⟩ := hin.doc
  exact ⟨nfbL_trees d, trees_no_bracket d⟩

/-- **Every command node, anywhere in the tree, is spelled by a backslash and ONE name token** (at
the node's position): the delimiter of a sizing command (`\left[`, `\big(` …) is part of that
token (`C12.sizing_command_is_one_token`), not a bracket of its own. -/
theorem command_node_all (skip : List Str) (s : Str) (es : List Expr) (hin : StrictInput skip s es)
    (n : Str) (args body : List Expr) (pos : Int) (hx : SubL (.cmd n args body pos) es) :
    ∃ (ts : List Tok) (esc name : Tok), tokenize s = some ts ∧ [esc, name] <:+: ts ∧
      esc.cat = .Escape ∧ (esc.pos : Int) = pos ∧ strip name.text = n := by
  obtain ⟨ts, hts, hg⟩ := good_all hin hx
  rcases hg with ⟨_, _, _, h⟩ | ⟨_, _, h⟩ | ⟨e, sk0, m0, nx0, hw, hte, hinf⟩
  · cases h
  · cases h
  · cases e with
    | cmd e nm a1 a2 a3 a4 =>
      simp only [tree, Expr.cmd.injEq] at hte
      simp only [WF, Bool.and_eq_true, beq_iff_eq] at hw
      exact ⟨ts, e, nm, hts, List.IsInfix.trans ⟨[], _, by simp only [toks]; rfl⟩ hinf,
        hw.1.1.1.1.1.1.1, hte.2.2.2, hte.1⟩
    | item e nm a1 a2 a3 a4 b =>
      simp only [tree, Expr.cmd.injEq] at hte
      simp only [WF, Bool.and_eq_true, beq_iff_eq] at hw
      exact ⟨ts, e, nm, hts, List.IsInfix.trans ⟨[], _, by simp only [toks]; rfl⟩ hinf,
        hw.1.1.1.1.1.1.1.1.1, hte.2.2.2, hte.1⟩
    | leaf t => simp [tree] at hte
    | group o b c => simp [tree] at hte
    | math _ o b c => simp [tree] at hte
    | env _ _ _ _ _ _ _ _ _ _ => simp [tree] at hte
    | venv _ _ _ _ _ _ _ _ => simp [tree] at hte

/-- **Commands inside math (or anywhere among the descendants) stay searchable**: a command
node among `soup.descendants` whose name contains neither `{` nor `[` is among
`soup.find_all(name)`. (Pure tree algebra, for every tree.) -/
theorem command_found_all (es : List Expr) (n : Str) (args body : List Expr) (pos : Int)
    (hmem : Expr.cmd n args body pos ∈ descRoot es)
    (h1 : n.contains 123 = false) (h2 : n.contains 91 = false) :
    Expr.cmd n args body pos ∈ findAllRoot (.name n) es := by
  simp only [findAllRoot, findAllIn, List.mem_filter]
  refine ⟨hmem, ?_⟩
  have h1' : ¬ 123 ∈ n := by simpa using h1
  have h2' : ¬ 91 ∈ n := by simpa using h2
  simp [Expr.isText, matchesQ, Expr.isEnv, Expr.name, h1', h2']

end TexSoup.C12

/-! ## C09 -/
namespace TexSoup.C09
open TexSoup TexSoup.Gram TexSoup.AllInputs

/-- **C09 for command nodes anywhere in the tree** (`command_args_shape_all` was top level). -/
theorem command_args_shape_anywhere (skip : List Str) (s : Str) (es : List Expr)
    (hin : StrictInput skip s es) (name : Str) (args body : List Expr) (pos : Int)
    (hx : SubL (.cmd name args body pos) es) :
    ∃ g1 g2 g3 g4, args = g1 ++ (g2 ++ (g3 ++ g4)) ∧
      (∀ x ∈ g1, isBracketG x = true) ∧ (∀ x ∈ g2, isBraceG x = true) ∧
      (∀ x ∈ g3, isBracketG x = true) ∧ (∀ x ∈ g4, isBraceG x = true) := by
  obtain ⟨ts, hts, hg⟩ := good_all hin hx
  rcases hg with ⟨_, _, _, h⟩ | ⟨_, _, h⟩ | ⟨e, sk0, m0, nx0, hw, ht, hinf⟩
  · cases h
  · cases h
  · cases e with
    | leaf t => simp [tree] at ht
    | group o b c => simp [tree] at ht
    | math k o b c => simp [tree] at ht
    | env _ _ _ _ _ _ _ _ _ _ => simp [tree] at ht
    | venv _ _ _ _ _ _ _ _ => simp [tree] at ht
    | cmd esc n a1 a2 a3 a4 =>
      simp only [tree, Expr.cmd.injEq] at ht
      exact ⟨_, _, _, _, ht.2.1.symm, treesA_bracket_all a1, fun x hx => (treesA_brace_all a2 x hx).1,
        treesA_bracket_all a3, fun x hx => (treesA_brace_all a4 x hx).1⟩
    | item esc n a1 a2 a3 a4 b =>
      simp only [tree, Expr.cmd.injEq] at ht
      exact ⟨_, _, _, _, ht.2.1.symm, treesA_bracket_all a1, fun x hx => (treesA_brace_all a2 x hx).1,
        treesA_bracket_all a3, fun x hx => (treesA_brace_all a4 x hx).1⟩

end TexSoup.C09

/-! ## C14 `.args =` -/
namespace TexSoup.C14
open TexSoup TexSoup.Gram TexSoup.AllInputs TexSoup.C14G

/-- **`node.args = [args[i] for i in i1 ++ i2 ++ i3 ++ i4]` on a command, for every strictly parsing
input.** The picked groups are brackets, braces, brackets, braces (`hk`, on the tree). The two
conditions that concern what follows the node in the source and the name's signature are stated
for a grammar witness `d` of the input (`hd`): the re-argumented document is well-formed
(`Gram.runOK` at the node) and its squeezed token list is a tokenizer output. They cannot be
dropped: `C14G.interleaved_args_not_read_back`, `C14G.exGlue`. -/
theorem set_args_command_reparse_all (tol : Bool) (skip : List Str) (s : Str) (es : List Expr)
    (hin : StrictInput skip s es) (p : Path) (old : Str) (a b : List Expr) (pos : Int)
    (i1 i2 i3 i4 : List Nat) (hp : p ≠ [])
    (hget : getAtRoot es p = some (.cmd old a b pos)) (hold : (old == sItem) = false)
    (hk : ((pick i1 a).all (isGroupOf .bracket) && (pick i2 a).all (isGroupOf .brace)
      && (pick i3 a).all (isGroupOf .bracket) && (pick i4 a).all (isGroupOf .brace)) = true)
    (huniq : cntSelL (argSel (qAt old pos) qNone i1 i2 i3 i4) es = 1)
    (hd : ∃ d : Doc, tokenize s = some (toksD d) ∧ WFD (Tables.skipEnvNames ++ skip) d = true ∧
      treeD d = es ∧ envNamesPlainS d = true ∧
      WFD (Tables.skipEnvNames ++ skip) (setArgsD (SetA.ofQ (qAt old pos) qNone i1 i2 i3 i4) d) = true ∧
      Separated none (toksD (squeezeD (setArgsD (SetA.ofQ (qAt old pos) qNone i1 i2 i3 i4) d)))) :
    ∃ t2, parse tol skip (serL (applyEdit es (.setArgs p (pick (i1 ++ (i2 ++ (i3 ++ i4))) a)))) = .ok t2 ∧
      shapeL t2 = shapeL (applyEdit es (.setArgs p (pick (i1 ++ (i2 ++ (i3 ++ i4))) a))) ∧
      serL t2 = serL (applyEdit es (.setArgs p (pick (i1 ++ (i2 ++ (i3 ++ i4))) a))) := by
  obtain ⟨d, ht, hwf, rfl, hen, hwf', hsq⟩ := hd
  have hsep := (tokenize_separated hin.chars ht).1
  exact set_args_command_reparse tol skip d p old a b pos i1 i2 i3 i4 hwf hen
    (cmdNamesPlainS_of_separated hwf hsep hen) hp hget hold hk huniq hwf' hsq

theorem set_args_environment_reparse_all (tol : Bool) (skip : List Str) (s : Str) (es : List Expr)
    (hin : StrictInput skip s es) (p : Path) (old : Str) (a b : List Expr) (pos : Int)
    (i2 i3 i4 : List Nat) (hp : p ≠ [])
    (hget : getAtRoot es p = some (.nenv old a b pos)) (hpos : pos ≠ -1)
    (hold : memStr old (Tables.skipEnvNames ++ skip) = false)
    (hk : ((pick i2 a).all (isGroupOf .brace) && (pick i3 a).all (isGroupOf .bracket)
      && (pick i4 a).all (isGroupOf .brace)) = true)
    (huniq : cntSelL (argSel qNone (qAt old pos) [] i2 i3 i4) es = 1)
    (hd : ∃ d : Doc, tokenize s = some (toksD d) ∧ WFD (Tables.skipEnvNames ++ skip) d = true ∧
      treeD d = es ∧ envNamesPlainS d = true ∧
      WFD (Tables.skipEnvNames ++ skip) (setArgsD (SetA.ofQ qNone (qAt old pos) [] i2 i3 i4) d) = true ∧
      Separated none (toksD (squeezeD (setArgsD (SetA.ofQ qNone (qAt old pos) [] i2 i3 i4) d)))) :
    ∃ t2, parse tol skip (serL (applyEdit es (.setArgs p (pick (i2 ++ (i3 ++ i4)) a)))) = .ok t2 ∧
      shapeL t2 = shapeL (applyEdit es (.setArgs p (pick (i2 ++ (i3 ++ i4)) a))) ∧
      serL t2 = serL (applyEdit es (.setArgs p (pick (i2 ++ (i3 ++ i4)) a))) := by
  obtain ⟨d, ht, hwf, rfl, hen, hwf', hsq⟩ := hd
  have hsep := (tokenize_separated hin.chars ht).1
  exact set_args_environment_reparse tol skip d p old a b pos i2 i3 i4 hwf hen
    (cmdNamesPlainS_of_separated hwf hsep hen) hp hget hpos hold hk huniq hwf' hsq

end TexSoup.C14

/-! ## Non-vacuity -/
namespace TexSoup.AllInputs
open TexSoup TexSoup.Gram

private def t (s : Str) (p : Nat) (c : TC) : Tok := ⟨s, p, c⟩

/-- `{$[\left[$}` – a math region inside a group, with an unbalanced bracket and a sizing command -/
def exNested : Doc :=
  [.group (t [123] 0 .GroupBegin)
     [.math .dollar (t [36] 1 .MathSwitch)
        [.leaf (t [91] 2 .BracketBegin),
         .cmd (t [92] 3 .Escape) (t [108, 101, 102, 116, 91] 4 .PunctuationCommandName) [] [] [] []]
        (t [36] 9 .MathSwitch)]
     (t [125] 10 .GroupEnd)]

def srcNested : Str := [123, 36, 91, 92, 108, 101, 102, 116, 91, 36, 125]

theorem tokNested : tokenize srcNested = some (toksD exNested) := by rfl

theorem inNested : StrictInput [] srcNested (treeD exNested) :=
  strictInput_of_doc [] srcNested exNested (by decide) tokNested (by decide)
    (by intro n hn; simp [memStr] at hn) (by decide +kernel) (by decide)

example : treeD exNested =
    [.group .brace [.math .dollar [.text [91] 2, .cmd [108, 101, 102, 116, 91] [] [] 3] 1] 0] := by rfl

/-- the math node lies inside the group -/
theorem subNested : SubL (.math .dollar [.text [91] 2, .cmd [108, 101, 102, 116, 91] [] [] 3] 1)
    (treeD exNested) :=
  ⟨_, List.mem_cons_self, .body (e := .group .brace _ 0) List.mem_cons_self (.refl _)⟩

example : ∃ (ts : List Tok) (o c : Tok) (bs : List Tok), tokenize srcNested = some ts ∧
    (o :: (bs ++ [c])) <:+: ts ∧ mkindOfBegin o.cat = some .dollar ∧ c.cat = MKind.dollar.tokEnd ∧
    (o.pos : Int) = 1 ∧
    (∀ (tol : Bool) (rest : List Tok) (f : Nat), 3 * (bs ++ c :: rest).length + 2 ≤ f →
      readMathBody f .dollar tol (bs ++ c :: rest) =
        .ok ([.text [91] 2, .cmd [108, 101, 102, 116, 91] [] [] 3], c :: rest)) ∧ True := by
  obtain ⟨ts, o, c, bs, h1, h2, h3, h4, h5, h6, _⟩ := C12.math_node_all [] srcNested _ inNested _ _ _ subNested
  exact ⟨ts, o, c, bs, h1, h2, h3, h4, h5, h6, trivial⟩

example : C12.nfbL (treeD exNested) = true := (C12.no_free_bracket_group_all [] srcNested _ inNested).1

/-- the sizing command `\left[` inside: one name token `left[` -/
example : ∃ (ts : List Tok) (esc name : Tok), tokenize srcNested = some ts ∧ [esc, name] <:+: ts ∧
    esc.cat = .Escape ∧ (esc.pos : Int) = 3 ∧ strip name.text = [108, 101, 102, 116, 91] :=
  C12.command_node_all [] srcNested _ inNested _ [] [] 3
    ⟨_, List.mem_cons_self, .body (e := .group .brace _ 0) List.mem_cons_self
      (.body (e := .math .dollar _ 1) (List.mem_cons_of_mem _ List.mem_cons_self) (.refl _))⟩

example : ∃ g1 g2 g3 g4, ([] : List Expr) = g1 ++ (g2 ++ (g3 ++ g4)) ∧
    (∀ x ∈ g1, isBracketG x = true) ∧ (∀ x ∈ g2, isBraceG x = true) ∧
    (∀ x ∈ g3, isBracketG x = true) ∧ (∀ x ∈ g4, isBraceG x = true) :=
  C09.command_args_shape_anywhere [] srcNested _ inNested [108, 101, 102, 116, 91] [] [] 3
    ⟨_, List.mem_cons_self, .body (e := .group .brace _ 0) List.mem_cons_self
      (.body (e := .math .dollar _ 1) (List.mem_cons_of_mem _ List.mem_cons_self) (.refl _))⟩

/-- the command inside the math region inside the group is a descendant and is found -/
example : Expr.cmd [120] [] [] 3 ∈ findAllRoot (.name [120])
    [.group .brace [.math .dollar [.text [91] 2, .cmd [120] [] [] 3] 1] 0] :=
  C12.command_found_all _ [120] [] [] 3
    (by
      have h : descRoot [.group .brace [.math .dollar [.text [91] 2, .cmd [120] [] [] 3] 1] 0] =
          [.group .brace [.math .dollar [.text [91] 2, .cmd [120] [] [] 3] 1] 0,
           .math .dollar [.text [91] 2, .cmd [120] [] [] 3] 1, .text [91] 2, .cmd [120] [] [] 3] := by rfl
      rw [h]; simp)
    (by decide) (by decide)

/-- **C11 does not hold "anywhere"**: inside a brace group no skip list is in force –
`{\begin{verbatim}\x\end{verbatim}}` has an interpreted body (a command node), while at top level
the body of `verbatim` is one text. -/
theorem verbatim_in_group_is_interpreted :
    (match parse false [] [123, 92, 98, 101, 103, 105, 110, 123, 118, 101, 114, 98, 97, 116, 105, 109, 125,
        92, 120, 92, 101, 110, 100, 123, 118, 101, 114, 98, 97, 116, 105, 109, 125, 125] with
      | .ok [.group _ [.nenv n _ [.cmd c _ _ _] _] _] => (n, c)
      | _ => ([], [])) = ([118, 101, 114, 98, 97, 116, 105, 109], [120]) ∧
    (match parse false [] [92, 98, 101, 103, 105, 110, 123, 118, 101, 114, 98, 97, 116, 105, 109, 125,
        92, 120, 92, 101, 110, 100, 123, 118, 101, 114, 98, 97, 116, 105, 109, 125] with
      | .ok [.nenv n _ [.text u _] _] => (n, u)
      | _ => ([], [])) = ([118, 101, 114, 98, 97, 116, 105, 109], [92, 120]) := by
  decide +kernel

/-- `.args =` for all inputs: `\x[b][d]{a}{c}` (`C14G.exArgs`), the reversal `{c}{a}[d][b]` -/
def srcArgs : Str := [92, 120, 91, 98, 93, 91, 100, 93, 123, 97, 125, 123, 99, 125]

theorem tokArgs : tokenize srcArgs = some (toksD C14G.exArgs) := by rfl

theorem inArgs : StrictInput [] srcArgs (treeD C14G.exArgs) :=
  strictInput_of_doc [] srcArgs C14G.exArgs (by decide) tokArgs (by decide)
    (by intro n hn; simp [memStr] at hn) (by decide +kernel) (by decide)

example : ∃ t2, parse false [] (serL (applyEdit (treeD C14G.exArgs) (.setArgs [.body 0]
      (pick ([] ++ ([3, 2] ++ ([1, 0] ++ []))) [.group .bracket [.text [98] 3] 2, .group .bracket [.text [100] 6] 5,
        .group .brace [.text [97] 9] 8, .group .brace [.text [99] 12] 11])))) = .ok t2 ∧ True :=
  let ⟨t2, h, _⟩ := C14.set_args_command_reparse_all false [] srcArgs _ inArgs [.body 0] [120] _ [] 0
    [] [3, 2] [1, 0] [] (by decide) (by rfl) (by decide) (by decide) (by decide)
    ⟨C14G.exArgs, tokArgs, by decide, rfl, by decide, by decide, by decide +kernel⟩
  ⟨t2, h, trivial⟩

end TexSoup.AllInputs
