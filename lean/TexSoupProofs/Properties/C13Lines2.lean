import TexSoupModel.Pos
import TexSoupProofs.PosSpec
import TexSoupProofs.PosLemmas
import TexSoupProofs.Properties.C13Lines
/-!
# C13, clause "char_pos_to_line": the map is injective and invertible on the offsets of a string

`C13Lines.charPosToLine_correct_le` says that the model of `CharToLineOffset.__call__` equals the
specification `lineCol`. This file adds what a user of line/column pairs relies on and what the
specification alone does not make obvious: two different offsets of one string never share a
line/column pair (`charPosToLine_injective`), the offset is recovered from the pair by adding the
column to the start of its line (`charPosToLine_recover`), and the start of a line depends only on the
line number (`lineStart_eq_of_same_line`). So a wrong pair can never be "right for another
character": a change of `__call__` that keeps the pair plausible for some other offset is still a
change of the function proved here.
-/
namespace TexSoup
namespace C13Lines
open PosLemmas PosSpec

/-- The start of the last line lies inside the string. -/
theorem lineStart_le (t : Str) : lineStart t ≤ t.length := by
  unfold lineStart; omega

/-- Appending characters that are not line breaks does not move the start of the last line. -/
theorem lineStart_append_no_lf (t seg : Str) (h : 10 ∉ seg) : lineStart (t ++ seg) = lineStart t := by
  have h1 : seg.reverse.takeWhile (· != 10) = seg.reverse :=
    takeWhile_ne_lf_of_not_mem _ (by simpa using h)
  have hall : ∀ x ∈ seg.reverse, (x != 10) = true := by
    intro x hx
    have : x ∈ seg := by simpa using hx
    simp only [bne_iff_ne, ne_eq]
    intro hx10; exact h (hx10 ▸ this)
  have htw : (t ++ seg).reverse.takeWhile (· != 10)
      = seg.reverse ++ t.reverse.takeWhile (· != 10) := by
    rw [List.reverse_append, List.takeWhile_append_of_pos hall]
  have hle : (t.reverse.takeWhile (· != 10)).length ≤ t.length := by
    have := (List.takeWhile_sublist (· != 10) (l := t.reverse)).length_le
    simpa using this
  unfold lineStart
  rw [htw]
  simp only [List.length_append, List.length_reverse]
  omega
example : lineStart ([97, 10, 98] ++ [99, 100]) = lineStart [97, 10, 98] := by decide

/-- The offset is the start of its line plus its column. -/
theorem lineCol_recover (s : Str) (p : Nat) (hp : p ≤ s.length) :
    lineStart (s.take p) + (lineCol s p).2 = p := by
  have h := lineStart_le (s.take p)
  have hlen : (s.take p).length = p := by simp [Nat.min_eq_left hp]
  simp only [lineCol]
  omega

/-- Offsets on the same line have the same line start: the start depends on the line number only. -/
theorem lineStart_eq_of_same_line (s : Str) (p q : Nat) (hpq : p ≤ q)
    (hline : (lineCol s p).1 = (lineCol s q).1) :
    lineStart (s.take q) = lineStart (s.take p) := by
  have hsplit : s.take q = s.take p ++ (s.drop p).take (q - p) := by
    have : q = p + (q - p) := by omega
    conv => lhs; rw [this]
    exact List.take_add
  simp only [lineCol] at hline
  rw [hsplit, List.count_append] at hline
  have hc : ((s.drop p).take (q - p)).count 10 = 0 := by omega
  have hno : 10 ∉ (s.drop p).take (q - p) := List.count_eq_zero.mp hc
  rw [hsplit]
  exact lineStart_append_no_lf _ _ hno

/-- **Injectivity of the specification:** two offsets of a string (the end offset included) with the
same line and column are the same offset. -/
theorem lineCol_injective (s : Str) (p q : Nat) (hp : p ≤ s.length) (hq : q ≤ s.length)
    (h : lineCol s p = lineCol s q) : p = q := by
  have h1 : (lineCol s p).1 = (lineCol s q).1 := by rw [h]
  have h2 : (lineCol s p).2 = (lineCol s q).2 := by rw [h]
  have rp := lineCol_recover s p hp
  have rq := lineCol_recover s q hq
  rcases Nat.le_total p q with hpq | hqp
  · have := lineStart_eq_of_same_line s p q hpq h1
    omega
  · have := lineStart_eq_of_same_line s q p hqp h1.symm
    omega

/-- **C13 (line/column clause), injectivity of the code's map:** `char_pos_to_line` never gives two
different offsets of a document the same line/column pair. -/
theorem charPosToLine_injective (s : Str) (p q : Nat) (hp : p ≤ s.length) (hq : q ≤ s.length)
    (h : charPosToLine s p = charPosToLine s q) : p = q := by
  rw [charPosToLine_correct_le s p hp, charPosToLine_correct_le s q hq] at h
  have h1 : (lineCol s p).1 = (lineCol s q).1 := (Prod.mk.inj h).1
  have h2 : ((lineCol s p).2 : Int) = ((lineCol s q).2 : Int) := (Prod.mk.inj h).2
  have h2' : (lineCol s p).2 = (lineCol s q).2 := by exact_mod_cast h2
  exact lineCol_injective s p q hp hq (Prod.ext h1 h2')
-- non-vacuity: in "ab\ncd" the offsets 0 and 3 both have column 0, but on different lines
example : charPosToLine [97, 98, 10, 99, 100] 0 = (0, 0) ∧ charPosToLine [97, 98, 10, 99, 100] 3 = (1, 0) := by
  decide

/-- **Inverse:** the offset is recovered from the result of `char_pos_to_line` as start of the line
plus column. -/
theorem charPosToLine_recover (s : Str) (p : Nat) (hp : p ≤ s.length) :
    (lineStart (s.take p) : Int) + (charPosToLine s p).2 = p := by
  rw [charPosToLine_correct_le s p hp]
  have := lineCol_recover s p hp
  simp only
  exact_mod_cast this

/-- The character that stands at the reported place: counting `col` characters from the start of the
reported line reaches the character at offset `p`, and no line break lies in between. -/
theorem lineCol_no_lf_between (s : Str) (p : Nat) :
    10 ∉ (s.take p).drop (lineStart (s.take p)) := by
  rcases split_last_lf (s.take p) with h | ⟨pre, seg, ht, hseg⟩
  · intro hm; exact h (List.mem_of_mem_drop hm)
  · have hst : lineStart (s.take p) = pre.length + 1 := by
      rw [ht]; exact lineStart_after_lf pre seg hseg
    rw [hst, ht]
    have : (pre ++ 10 :: seg).drop (pre.length + 1) = seg := by
      rw [show pre ++ 10 :: seg = (pre ++ [10]) ++ seg by simp]
      rw [List.drop_append_of_le_length (by simp)]
      simp
    rw [this]; exact hseg

/-- ... and the character just before the start of the reported line is a line break (unless the
line is the first one, which starts at offset 0). -/
theorem lineCol_lf_before_start (s : Str) (p : Nat) :
    lineStart (s.take p) = 0 ∨ (s.take p)[lineStart (s.take p) - 1]? = some 10 := by
  rcases split_last_lf (s.take p) with h | ⟨pre, seg, ht, hseg⟩
  · left; exact lineStart_no_lf _ h
  · right
    have hst : lineStart (s.take p) = pre.length + 1 := by
      rw [ht]; exact lineStart_after_lf pre seg hseg
    rw [hst, ht]
    simp

end C13Lines
end TexSoup
