import TexSoupProofs.Reader.NoInternal
import TexSoupProofs.Reader.FuelEnough
import TexSoupProofs.Reader.Classify
/-!
# C06 – Parsing is total

"For every input string, every skip list and both tolerance settings, parsing terminates with
a tree or with one of the three diagnostic errors (`EOFError`, `TypeError`, `AssertionError`).
It never hangs and never leaks an internal exception (`StopIteration`, `KeyError`,
`IndexError`, ...)."

In the model, "hangs" is `Err.fuel` (the fuel bounds the depth of the call chain, and
`parseFuel` is what `parse` supplies) and "leaks an internal exception" is `Err.internal`.
Helper lemmas live in `TexSoupProofs/Reader/{Progress,NoInternal,FuelEnough,Classify}.lean`;
this file contains only the property theorems.
-/
namespace TexSoup.C06

/-! ## 1. Totality -/

/-- The tokenizer terminates on every input (its fuel always suffices). -/
theorem tokenize_never_hangs (s : Str) : ∃ ts, tokenize s = some ts := tokenize_total s

/-- Every successful `read_expr` consumes at least one token and returns a suffix of its
input: the loops of the reader make progress. -/
theorem reader_progress (f : Nat) (skip : List Str) (tol : Bool) (mode : Mode) (ts : List Tok)
    (e : Expr) (rest : List Tok) (h : readExpr f skip tol mode ts = .ok (e, rest)) :
    (∃ c, c ≠ [] ∧ ts = c ++ rest) ∧ rest.length < ts.length := by
  have hs := readExpr_ssuf h
  refine ⟨?_, hs.length_lt⟩
  obtain ⟨t, c, hc⟩ := hs
  exact ⟨t :: c, List.cons_ne_nil _ _, hc⟩

/-- Every reader function returns a suffix of its input, at every fuel. -/
theorem reader_progress_all (f : Nat) : ProgressAt f := progressAt f

/-- `parse` never leaks an internal exception: the model's `Err.internal` (empty buffer in
`read_expr`, exhausted buffer where a matched `\end` is to be consumed) is unreachable. -/
theorem parse_no_internal (tol : Bool) (skip : List Str) (s : Str) :
    parse tol skip s ≠ .error .internal := TexSoup.parse_no_internal tol skip s

/-- No reader function returns `Err.internal`, at every fuel (`readExpr`: on a non-empty
buffer, which is how all its callers use it). -/
theorem reader_no_internal (f : Nat) : NoInternalAt f := noInternalAt f

/-- `parse` never hangs: `parseFuel ts = 4 * ts.length + 8` always suffices. -/
theorem parse_no_fuel (tol : Bool) (skip : List Str) (s : Str) :
    parse tol skip s ≠ .error .fuel := TexSoup.parse_no_fuel tol skip s

/-- Fuel `3 * (number of tokens) + 3` suffices for every reader function. -/
theorem reader_fuel_enough (f : Nat) : FuelEnoughAt f := fuelEnoughAt f

/-- Parsing is total: the result is a tree or one of the three diagnostic errors. -/
theorem parse_total (tol : Bool) (skip : List Str) (s : Str) :
    (∃ es, parse tol skip s = .ok es) ∨ parse tol skip s = .error .eof ∨
    parse tol skip s = .error .type ∨ parse tol skip s = .error .assertion := by
  cases h : parse tol skip s with
  | ok es => exact .inl ⟨es, rfl⟩
  | error e =>
    cases e with
    | eof => exact .inr (.inl rfl)
    | type => exact .inr (.inr (.inl rfl))
    | assertion => exact .inr (.inr (.inr rfl))
    | internal => exact absurd h (TexSoup.parse_no_internal tol skip s)
    | fuel => exact absurd h (TexSoup.parse_no_fuel tol skip s)

/-! ## 2. Where the diagnostic errors come from -/

/-- `AssertionError` comes only from `\item` (in math mode) and `\begin` (without argument):
if no escape token is directly followed by a token spelling `item` or `begin`, parsing does
not end in `AssertionError`. -/
theorem assertion_origin (tol : Bool) (skip : List Str) (s : Str) (ts : List Tok)
    (ht : tokenize s = some ts)
    (hy : ∀ pre esc n r, ts = pre ++ esc :: n :: r → esc.cat = TC.Escape →
      n.text ≠ sItem ∧ n.text ≠ sBegin) :
    parse tol skip s ≠ .error .assertion :=
  parse_assertion_origin tol skip s ts ht hy

/-- The same for every reader function at every fuel. -/
theorem reader_assertion_origin (f : Nat) : AssertFreeAt f := assertFreeAt f

/-- In tolerant mode `TypeError` comes only from the contents of an `\item`, which are always
read strictly: if no escape token is directly followed by a token spelling `item`, tolerant
parsing does not end in `TypeError`. -/
theorem type_origin (skip : List Str) (s : Str) (ts : List Tok) (ht : tokenize s = some ts)
    (hy : ∀ pre esc n r, ts = pre ++ esc :: n :: r → esc.cat = TC.Escape → n.text ≠ sItem) :
    parse true skip s ≠ .error .type :=
  parse_type_origin skip s ts ht hy

/-- In particular when no token at all spells `item`. -/
theorem type_origin' (skip : List Str) (s : Str) (ts : List Tok) (ht : tokenize s = some ts)
    (hy : ∀ t ∈ ts, t.text ≠ sItem) : parse true skip s ≠ .error .type :=
  parse_type_origin skip s ts ht (EscNext.of_forall hy)

/-- The same for every reader function with `tol = true` (except `readItem`, which is never
called) at every fuel. -/
theorem reader_type_origin (f : Nat) : TypeFreeAt f := typeFreeAt f

/-- `EOFError` comes only from math regions and environments: if no token opens a math region
(`$`, `$$`, `\(`, `\[`) and no escape token is directly followed by a token spelling `begin`,
parsing does not end in `EOFError`. -/
theorem eof_origin (tol : Bool) (skip : List Str) (s : Str) (ts : List Tok)
    (ht : tokenize s = some ts) (hm : ∀ t ∈ ts, mkindOfBegin t.cat = none)
    (hb : ∀ pre esc n r, ts = pre ++ esc :: n :: r → esc.cat = TC.Escape → n.text ≠ sBegin) :
    parse tol skip s ≠ .error .eof :=
  parse_eof_origin tol skip s ts ht ⟨hm, hb⟩

/-- The same for the reader functions that can be reached under this hypothesis, at every
fuel. -/
theorem reader_eof_origin (f : Nat) : EofFreeAt f := eofFreeAt f

/-! ## 3. Non-vacuity: each of the four outcomes occurs, and the hypotheses of the
classification theorems cannot be dropped -/
section
/-- a tree: `\a{b}` -/
example : parse false [] [92, 97, 123, 98, 125] =
    .ok [.cmd [97] [.group .brace [.text [98] 3] 2] [] 0] := by rfl
/-- `EOFError`: `$` (strict and tolerant), `\begin{a}` (strict) -/
example : parse false [] [36] = .error .eof := by rfl
example : parse true [] [36] = .error .eof := by rfl
example : parse false [] [92, 98, 101, 103, 105, 110, 123, 97, 125] = .error .eof := by rfl
/-- `TypeError`: `{a` (strict) -/
example : parse false [] [123, 97] = .error .type := by rfl
/-- `TypeError` in tolerant mode needs `\item`: `\item a{` fails, `a{` does not -/
example : parse true [] [92, 105, 116, 101, 109, 32, 97, 123] = .error .type := by rfl
example : parse true [] [97, 123] = .ok [.text [97] 0, .group .brace [] 1] := by rfl
/-- `AssertionError`: `\begin` and `$\item$` -/
example : parse false [] [92, 98, 101, 103, 105, 110] = .error .assertion := by rfl
example : parse false [] [36, 92, 105, 116, 101, 109, 36] = .error .assertion := by rfl
/-- the hypothesis of `assertion_origin`/`type_origin`/`eof_origin` holds for `\a{b}` -/
example : ∃ ts, tokenize [92, 97, 123, 98, 125] = some ts ∧ NoItemBegin ts ∧ NoItem ts ∧
    NoEofSource ts := by
  refine ⟨[⟨[92], 0, .Escape⟩, ⟨[97], 1, .CommandName⟩, ⟨[123], 2, .GroupBegin⟩,
    ⟨[98], 3, .Text⟩, ⟨[125], 4, .GroupEnd⟩], by rfl, ?_, ?_, ?_, ?_⟩
  · exact (escNextB_sound (fun s => s != sItem && s != sBegin) _ (by rfl)).mono
      (fun s h => by simpa using h)
  · exact (escNextB_sound (fun s => s != sItem) _ (by rfl)).mono (fun s h => by simpa using h)
  · intro t ht
    simp only [List.mem_cons, List.not_mem_nil, or_false] at ht
    rcases ht with rfl | rfl | rfl | rfl | rfl <;> rfl
  · exact (escNextB_sound (fun s => s != sBegin) _ (by rfl)).mono (fun s h => by simpa using h)
end

end TexSoup.C06
