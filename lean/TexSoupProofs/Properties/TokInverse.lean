import TexSoupProofs.TokLemmas.InverseConv
import TexSoupProofs.TokLemmas.Shaped
/-!
# The tokenizer inverse

A token list that is *separated* – every token satisfies a local, syntactic condition `TokOK`
relative to the character before it and the text after it – tokenizes back to itself:
`tokenize (flat ts) = some ts` (up to recomputing positions).  Conversely the output of the
tokenizer on a string without ignored characters is separated, so `Separated` characterises
tokenizer outputs exactly.

Definitions (`TokOK'`, `TokOK`, `Separated`, `reposition`, `Positioned`, `textSpacerOK`,
`prevEsc`, `headIsLO`, `liveCat`, `stopCat`) and helper lemmas live in
`TexSoupProofs/TokLemmas/Inverse{First,OK,Conv}.lean`.
-/
namespace TexSoup

/-! ## 1. The two remaining first-token lemmas, and the live categories -/

/-- `first_text`: a non-empty run of non-stop characters whose first character is not ignored,
which `tokenize_spacers` leaves alone (`textSpacerOK`: no leading blank run, or the run is
followed inside the text by a `Letter`/`Other` character), which is not claimed by the name
tokenizers (not: `prev` an escape character and first character a letter), and which is
maximal (`w` is empty or starts with a stop character), is exactly one `Text` token. -/
theorem first_text (pt : Option TC) (prev : Option Ch) (pos : Nat) {text : Str} (w : Str)
    (hne : text ≠ []) (hall : ∀ c ∈ text, isStringStop (catOf c) = false)
    (hign : ∀ c ∈ text.head?, isIgnored (catOf c) = false)
    (hsp : textSpacerOK text = true)
    (hprev : prevEsc prev = true → ∀ c ∈ text.head?, catOf c ≠ .Letter)
    (hw : ∀ c ∈ w.head?, isStringStop (catOf c) = true) :
    pass Tables.tokenizerOrder pt ⟨prev, pos, text ++ w⟩ =
      .tok ⟨text, pos, .Text⟩ ⟨lastD text prev, pos + text.length, w⟩ :=
  pass_text pt prev pos w hne hall hign hsp hprev hw

/-- `x y` after `\\` (so `prev` is an escape character but the text starts with a digit),
followed by `{`. -/
example : ([49, 32, 121] : Str) ≠ [] ∧
    (∀ c ∈ ([49, 32, 121] : Str), isStringStop (catOf c) = false) ∧
    (∀ c ∈ ([49, 32, 121] : Str).head?, isIgnored (catOf c) = false) ∧
    textSpacerOK [49, 32, 121] = true ∧
    (prevEsc (some 92) = true → ∀ c ∈ ([49, 32, 121] : Str).head?, catOf c ≠ .Letter) ∧
    (∀ c ∈ ([123] : Str).head?, isStringStop (catOf c) = true) := by decide

/-- `first_spacer`: a non-empty text that is exactly what `tokenize_spacers` walks over
(blanks, at most one end of line, blanks: `spacerRun (text ++ w) = text.length`) and is not
followed by a `Letter`/`Other` character is exactly one `MergedSpacer` token. -/
theorem first_spacer (pt : Option TC) (prev : Option Ch) (pos : Nat) {text : Str} (w : Str)
    (hne : text ≠ []) (hrun : spacerRun (text ++ w) = text.length)
    (hw : ∀ c ∈ w.head?, catOf c ≠ .Letter ∧ catOf c ≠ .Other) :
    pass Tables.tokenizerOrder pt ⟨prev, pos, text ++ w⟩ =
      .tok ⟨text, pos, .MergedSpacer⟩ ⟨lastD text prev, pos + text.length, w⟩ :=
  pass_spacer pt prev pos w hne hrun hw

/-- blank, newline, tab in front of `\n{`: the second newline is not part of the run. -/
example : ([32, 10, 9] : Str) ≠ [] ∧
    spacerRun (([32, 10, 9] : Str) ++ [10, 123]) = ([32, 10, 9] : Str).length ∧
    (∀ c ∈ ([10, 123] : Str).head?, catOf c ≠ .Letter ∧ catOf c ≠ .Other) := by decide

/-- The sixteen token categories the tokenizer can emit. -/
def liveCats : List TC :=
  [.Escape, .GroupBegin, .GroupEnd, .BracketBegin, .BracketEnd, .MathSwitch, .DisplayMathSwitch,
   .MathGroupBegin, .MathGroupEnd, .DisplayMathGroupBegin, .DisplayMathGroupEnd, .EscapedComment,
   .Comment, .MergedSpacer, .CommandName, .PunctuationCommandName, .Text]

/-- Every token of every tokenizer output (no assumption on the input) has one of the live
categories: `LineBreak` (dead code – `\\` is claimed by `escaped_symbols` first),
`SizeCommand`, `Spacer`, `ParenBegin`, `ParenEnd` never occur. -/
theorem tokens_live {s : Str} {ts : List Tok} (h : tokenize s = some ts) :
    ∀ t ∈ ts, t.cat ∈ liveCats := by
  intro t ht
  have hl : liveCat t.cat = true :=
    tokLoop_forall (P := fun t => liveCat t.cat = true) (fun _ _ _ _ hp => pass_live hp) _ _ _ h t ht
  revert hl
  cases t.cat <;> simp [liveCat, liveCats]

/-! ## 2. The local condition -/

/-- Under `TokOK prev t w` a pass of `next_token` on `t.text ++ w`, with `prev` before the
cursor, returns exactly `t` (at the current offset) and leaves `w` – for every category of the
previous token and every offset. -/
theorem tokOK_pass (pt : Option TC) (prev : Option Ch) (pos : Nat) {t : Tok} {w : Str}
    (h : TokOK prev t w) :
    pass Tables.tokenizerOrder pt ⟨prev, pos, t.text ++ w⟩ =
      .tok ⟨t.text, pos, t.cat⟩ ⟨lastD t.text prev, pos + t.text.length, w⟩ :=
  TokOK.pass_eq pt prev pos h

/-- One instance per live category (`w` chosen so that the side conditions are non-trivial). -/
example :
    TokOK none ⟨[92], 0, .Escape⟩ [97] ∧ TokOK none ⟨[123], 0, .GroupBegin⟩ [123] ∧
    TokOK none ⟨[125], 0, .GroupEnd⟩ [] ∧ TokOK none ⟨[91], 0, .BracketBegin⟩ [93] ∧
    TokOK none ⟨[93], 0, .BracketEnd⟩ [32] ∧ TokOK none ⟨[36], 0, .MathSwitch⟩ [120, 36] ∧
    TokOK none ⟨[36, 36], 0, .DisplayMathSwitch⟩ [36] ∧
    TokOK none ⟨[92, 40], 0, .MathGroupBegin⟩ [] ∧ TokOK none ⟨[92, 41], 0, .MathGroupEnd⟩ [] ∧
    TokOK none ⟨[92, 91], 0, .DisplayMathGroupBegin⟩ [] ∧
    TokOK none ⟨[92, 93], 0, .DisplayMathGroupEnd⟩ [] ∧
    TokOK none ⟨[92, 37], 0, .EscapedComment⟩ [37] ∧
    TokOK none ⟨[37, 97, 125], 0, .Comment⟩ [10, 98] ∧
    TokOK none ⟨[32, 10], 0, .MergedSpacer⟩ [123] ∧
    TokOK (some 92) ⟨[98, 102, 42], 0, .CommandName⟩ [123] ∧
    TokOK (some 92) ⟨[108, 101, 102, 116, 40], 0, .PunctuationCommandName⟩ [120] ∧
    TokOK (some 125) ⟨[32, 97, 32], 0, .Text⟩ [36] := by decide +kernel

/-! ## 3. The inverse theorem and its converse -/

/-- **Tokenizer inverse.**  A separated token list tokenizes back to itself, with positions
recomputed as running offsets. -/
theorem tokenize_inverse {ts : List Tok} (h : Separated none ts) :
    tokenize (flat ts) = some (reposition 0 ts) :=
  tokLoop_inverse h _ none 0 (by simp [tokFuel])

/-- If the positions already are the running offsets, the list tokenizes back to itself
exactly. -/
theorem tokenize_inverse_positioned {ts : List Tok} (h : Separated none ts)
    (hp : Positioned 0 ts) : tokenize (flat ts) = some ts := by
  rw [tokenize_inverse h, reposition_of_positioned hp]

/-- `\bf{a b} $x$%c` as a token list: separated and positioned. -/
example :
    Separated none
      [⟨[92], 0, .Escape⟩, ⟨[98, 102], 1, .CommandName⟩, ⟨[123], 3, .GroupBegin⟩,
       ⟨[97, 32, 98], 4, .Text⟩, ⟨[125], 7, .GroupEnd⟩, ⟨[32], 8, .MergedSpacer⟩,
       ⟨[36], 9, .MathSwitch⟩, ⟨[120], 10, .Text⟩, ⟨[36], 11, .MathSwitch⟩,
       ⟨[37, 99], 12, .Comment⟩] ∧
    Positioned 0
      [⟨[92], 0, .Escape⟩, ⟨[98, 102], 1, .CommandName⟩, ⟨[123], 3, .GroupBegin⟩,
       ⟨[97, 32, 98], 4, .Text⟩, ⟨[125], 7, .GroupEnd⟩, ⟨[32], 8, .MergedSpacer⟩,
       ⟨[36], 9, .MathSwitch⟩, ⟨[120], 10, .Text⟩, ⟨[36], 11, .MathSwitch⟩,
       ⟨[37, 99], 12, .Comment⟩] := by decide +kernel

/-- **Converse.**  On a string without ignored characters, the tokenizer output is separated,
positioned, and spells the input. -/
theorem tokenize_separated {s : Str} {ts : List Tok}
    (hs : ∀ c ∈ s, isIgnored (catOf c) = false) (h : tokenize s = some ts) :
    Separated none ts ∧ Positioned 0 ts := by
  have := tokLoop_separated _ none ⟨none, 0, s⟩ h hs
  exact ⟨this.1, this.2.2⟩

/-- **Characterisation.**  For a string without ignored characters, `ts` is the tokenizer
output iff it spells the string, is separated and carries the running offsets. -/
theorem tokenize_iff {s : Str} {ts : List Tok} (hs : ∀ c ∈ s, isIgnored (catOf c) = false) :
    tokenize s = some ts ↔ flat ts = s ∧ Separated none ts ∧ Positioned 0 ts := by
  constructor
  · intro h
    have := tokLoop_separated _ none ⟨none, 0, s⟩ h hs
    exact ⟨this.2.1, this.1, this.2.2⟩
  · rintro ⟨rfl, h1, h2⟩
    exact tokenize_inverse_positioned h1 h2

/-- The hypothesis of `tokenize_separated` cannot be dropped: `\`, NUL, `a` gives the tokens
`\` and `a` (Text, because the character before `a` was the NUL), which are not separated –
`\a` tokenizes to `\` and the command name `a`. -/
example : tokenize [92, 0, 97] = some [⟨[92], 0, .Escape⟩, ⟨[97], 2, .Text⟩] ∧
    ¬ Separated none [⟨[92], 0, .Escape⟩, ⟨[97], 2, .Text⟩] ∧
    tokenize [92, 97] = some [⟨[92], 0, .Escape⟩, ⟨[97], 1, .CommandName⟩] := by
  decide +kernel

/-! ## 4. Neighbour corollaries -/

/-- Categories of tokens that start with a stop character of `tokenize_string`: the escape,
braces, brackets, math switches (all six), escaped symbols and comments. -/
example : [TC.Escape, .GroupBegin, .GroupEnd, .BracketBegin, .BracketEnd, .MathSwitch,
    .DisplayMathSwitch, .EscapedComment, .MathGroupBegin, .MathGroupEnd, .DisplayMathGroupBegin,
    .DisplayMathGroupEnd, .Comment].all stopCat = true := by decide

/-- A well-formed token of a `stopCat` category starts with a stop character: this is the
"what follows" condition of `Text` and (sufficient for) `MergedSpacer` tokens. -/
theorem next_starts_with_stop {prev : Option Ch} {u : Tok} {r : List Tok}
    (hu : TokOK prev u (flat r)) (hcat : stopCat u.cat = true) :
    ∀ c ∈ (flat (u :: r)).head?, isStringStop (catOf c) = true :=
  head_stop_of_next hu hcat

/-- A `Text` token directly followed by a `{`, `}`, `[`, `]`, `$`, `$$`, `\`, `\x`, `\(`, … or `%`
token (or by nothing) is always fine: only the conditions on the text itself and on `prev`
remain. -/
theorem text_before_stop {prev : Option Ch} {text : Str} (p : Nat) {w : Str} (hne : text ≠ [])
    (hall : ∀ c ∈ text, isStringStop (catOf c) = false)
    (hign : ∀ c ∈ text.head?, isIgnored (catOf c) = false)
    (hsp : textSpacerOK text = true)
    (hprev : prevEsc prev = true → ∀ c ∈ text.head?, catOf c ≠ .Letter)
    (hw : ∀ c ∈ w.head?, isStringStop (catOf c) = true) :
    TokOK prev ⟨text, p, .Text⟩ w :=
  tokOK_text p hne hall hign hsp hprev hw

/-- A `MergedSpacer` token whose text is a complete blank run is fine in front of a `{`, `[`,
`\`, … token (anything starting with a stop character) or at the end of the input. -/
theorem spacer_before_stop {prev : Option Ch} {text : Str} (p : Nat) {w : Str} (hne : text ≠ [])
    (hrun : spacerRun text = text.length)
    (hw : ∀ c ∈ w.head?, isStringStop (catOf c) = true) :
    TokOK prev ⟨text, p, .MergedSpacer⟩ w :=
  tokOK_spacer p hne hrun hw

example : ([32, 10, 32] : Str) ≠ [] ∧ spacerRun [32, 10, 32] = ([32, 10, 32] : Str).length ∧
    (∀ c ∈ ([91] : Str).head?, isStringStop (catOf c) = true) := by decide

/-- Two adjacent `Text` tokens are never separated (the tokenizer would have produced one). -/
theorem text_text_not_separated {prev : Option Ch} {pre : List Tok} {a b : Tok} {r : List Tok}
    (ha : a.cat = .Text) (hb : b.cat = .Text) : ¬ Separated prev (pre ++ a :: b :: r) :=
  not_separated_text_text ha hb

end TexSoup
