import TexSoupProofs.Reader.HypCheck
/-!
# C07 – Tolerant mode is a conservative extension that only inserts closers

(a) Whenever strict parsing succeeds, tolerant parsing returns an identical tree and text.
(c) Whenever tolerant parsing succeeds, its output is the input with nothing changed except
inserted closing delimiters (`}`, `]`, `\end{name}`) – and the spacer removal of C08.
(b) "a well-formed document that lost one closer fails strictly and parses tolerantly" needs
the completeness of the reader on the grammar (Core C); it is carried by the oracle and
listed as partial.
-/
namespace TexSoup.C07

/-- (a) for every reader function at every fuel. -/
theorem reader_strict_tolerant (f : Nat) : StrictTolerantAt f := strictTolerantAt f

/-- (a) Strict success implies identical tolerant success, for every input and skip list. -/
theorem strict_implies_tolerant (skip : List Str) (s : Str) (es : List Expr)
    (h : parse false skip s = .ok es) : parse true skip s = .ok es :=
  parse_strict_tolerant skip s es h

/-- (c) Tolerant output = token text, minus spacers before openers, plus inserted closers.
`Del true` has exactly these two liberties (constructors `drop` and `ins`). -/
theorem tolerant_only_inserts (skip : List Str) (s : Str) (ts : List Tok) (es : List Expr)
    (ht : tokenize s = some ts) (h : parse true skip s = .ok es)
    (hy : Hyp (Tables.skipEnvNames ++ skip) ts) (hnb : noBareL es = true) :
    Del true ts (serL es) :=
  parse_cons true skip s ts es ht h hy hnb

/-- What may be inserted. -/
theorem inserted_are_closers (s : Str) : IsCloser s ↔ s = [125] ∨ s = [93] ∨ ∃ name, s = endMarker name :=
  Iff.rfl

/-! Non-vacuity: `{a` fails strictly, parses tolerantly, and the output has one inserted `}`. -/
section
def ex1 : Str := [123, 97]
example : parse false [] ex1 = .error .type := by rfl
example : ∃ ts es, tokenize ex1 = some ts ∧ parse true [] ex1 = .ok es ∧
    Hyp (Tables.skipEnvNames ++ []) ts ∧ noBareL es = true ∧ serL es = [123, 97, 125] := by
  refine ⟨[⟨[123], 0, .GroupBegin⟩, ⟨[97], 1, .Text⟩], [.group .brace [.text [97] 1] 0],
    by decide +kernel, by rfl,
    Hyp.ofChecks (by decide +kernel) (by decide +kernel) (by decide +kernel) (by decide +kernel),
    by decide +kernel, by decide +kernel⟩
/-- (a) is not vacuous: `\a{b}` parses strictly. -/
example : parse false [] [92, 97, 123, 98, 125] = .ok [.cmd [97] [.group .brace [.text [98] 3] 2] [] 0] := by rfl
end

end TexSoup.C07
