import TexSoupProofs.Reader.Leaves
import TexSoupProofs.Properties.TokFacts
import TexSoupProofs.Properties.C03
/-!
# C10 – Comments are inert

Proved here: (tokenizer, all inputs) a comment character starts one `Comment` token that
extends to – and excludes – the next end-of-line character, whatever it contains; an escape
followed by `%` is claimed first as an escaped symbol, so it never starts a comment;
(reader) a `Comment` token is a text leaf in every mode and context, so nothing inside it
can open or close anything; (search) text leaves are never search results. The statement
"the tree around a comment does not depend on its payload" as a two-run parametricity
theorem is not proved; it is explored by the oracle (payload substitution) and listed as
partial.
-/
namespace TexSoup.C10

/-- One token from `%` up to (excluding) the next end-of-line character. -/
theorem comment_token (pt : Option TC) (prev : Option Ch) (pos : Nat) (c0 : Ch) (r : Str)
    (h0 : catOf c0 = .Comment) :
    pass Tables.tokenizerOrder pt ⟨prev, pos, c0 :: r⟩ =
      .tok ⟨c0 :: r.takeWhile (fun c => catOf c != .EndOfLine), pos, .Comment⟩
        ⟨lastD (r.takeWhile (fun c => catOf c != .EndOfLine)) (some c0),
         pos + (1 + (r.takeWhile (fun c => catOf c != .EndOfLine)).length),
         r.dropWhile (fun c => catOf c != .EndOfLine)⟩ :=
  first_comment pt prev pos c0 r h0

/-- `\%` (and `\\`, `\$`, `\{` …) is one escaped-symbol token: the percent sign after an odd
backslash is not a comment. After `\\` the next character starts a fresh token, so an even
number of backslashes leaves the `%` a comment (`comment_token`). -/
theorem escaped_percent_token (pt : Option TC) (prev : Option Ch) (pos : Nat) (c0 c1 : Ch) (r : Str)
    (h0 : catOf c0 = .Escape) (h1 : isEscapable (catOf c1) = true) :
    pass Tables.tokenizerOrder pt ⟨prev, pos, c0 :: c1 :: r⟩ =
      .tok ⟨[c0, c1], pos, .EscapedComment⟩ ⟨some c1, pos + 2, r⟩ :=
  first_escaped pt prev pos c0 c1 r h0 h1

theorem percent_is_comment_char : catOf 37 = .Comment ∧ isEscapable (catOf 37) = true ∧
    catOf 92 = .Escape ∧ isEscapable (catOf 92) = true := by decide

/-- A comment token is a text leaf wherever an expression is read (body, argument, group,
item, every math kind): the reader never looks inside it. -/
theorem comment_is_leaf (f : Nat) (skip : List Str) (tol : Bool) (mode : Mode) (c : Tok)
    (ts : List Tok) (h : c.cat = .Comment) :
    readExpr (f + 1) skip tol mode (c :: ts) = .ok (.text c.text c.pos, ts) :=
  readExpr_leaf f skip tol mode c ts (by unfold isLeafTok; rw [h]; rfl)

/-- … and it never closes a group or math region: closers are recognised by category. -/
theorem comment_closes_nothing (c : Tok) (h : c.cat = .Comment) :
    (∀ k : GKind, (c.cat == k.tokEnd) = false) ∧ (∀ k : MKind, (c.cat == k.tokEnd) = false) := by
  rw [h]
  exact ⟨fun k => by cases k <;> rfl, fun k => by cases k <;> rfl⟩

/-- Search results are never text leaves: nothing inside a comment can be found. -/
theorem comments_not_searchable (q : Query) (e x : Expr) (h : x ∈ findAll q e) : x.isText = false := by
  rw [C03.findAll_spec] at h
  simp only [List.mem_filter, Bool.and_eq_true, Bool.not_eq_true'] at h
  exact h.2.1

end TexSoup.C10
