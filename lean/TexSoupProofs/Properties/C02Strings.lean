import TexSoupProofs.Properties.C02
import TexSoupProofs.Properties.TokInverse
import TexSoupProofs.Properties.C01
/-!
# C01 / C02 at the level of source strings

Token-level completeness of the reader (`C02.parse_complete`) composed with the tokenizer
inverse (`tokenize_inverse_positioned`): the source text of a well-formed, well-separated
document of the grammar parses – in both tolerance modes – to exactly the generating tree.
`Separated` is the exact characterisation of token lists that are tokenizer outputs
(`tokenize_iff`): each token, followed by the text of the remaining tokens, is tokenized back
as itself (a command name is not followed by a letter, two text tokens are not adjacent, `$`
is not followed by `$`, …).
-/
namespace TexSoup.C02
open TexSoup TexSoup.Gram

/-- **Well-formed documents parse to their generating tree** (string level, every nesting
depth and length, both tolerance modes, any additional verbatim-like names). -/
theorem document_parses (tol : Bool) (skip : List Str) (d : Doc)
    (hwf : WFD (Tables.skipEnvNames ++ skip) d = true)
    (hsep : Separated none (toksD d)) (hpos : Positioned 0 (toksD d)) :
    parse tol skip (flat (toksD d)) = .ok (treeD d) :=
  parse_complete tol skip (flat (toksD d)) d (tokenize_inverse_positioned hsep hpos) hwf

/-- … and strict and tolerant parsing agree on them (no closer is ever invented). -/
theorem document_parses_both (skip : List Str) (d : Doc)
    (hwf : WFD (Tables.skipEnvNames ++ skip) d = true)
    (hsep : Separated none (toksD d)) (hpos : Positioned 0 (toksD d)) :
    parse false skip (flat (toksD d)) = .ok (treeD d) ∧ parse true skip (flat (toksD d)) = .ok (treeD d) :=
  ⟨document_parses false skip d hwf hsep hpos, document_parses true skip d hwf hsep hpos⟩

/-- C01 for grammar documents: the document parses, and – under the side conditions of the
round-trip theorem – serialising the tree gives back the source. -/
theorem document_roundtrip (skip : List Str) (d : Doc)
    (hwf : WFD (Tables.skipEnvNames ++ skip) d = true)
    (hsep : Separated none (toksD d)) (hpos : Positioned 0 (toksD d))
    (hs : ∀ c ∈ flat (toksD d), isIgnored (catOf c) = false)
    (hskip : ∀ n, memStr n skip = true → PlainEnvName n)
    (henv : C08.EnvNamesPlain (toksD d)) (hnb : noBareL (treeD d) = true)
    (hadj : noSpacerBeforeOpener (toksD d) = true) :
    parse false skip (flat (toksD d)) = .ok (treeD d) ∧ serL (treeD d) = flat (toksD d) := by
  have hp := document_parses false skip d hwf hsep hpos
  have ht := tokenize_inverse_positioned hsep hpos
  refine ⟨hp, C01.roundtrip skip _ _ hs hp hskip ?_ hnb ?_⟩
  · intro ts hts; rw [ht] at hts; cases hts; exact henv
  · intro ts hts; rw [ht] at hts; cases hts; exact hadj

/-- **Meaning of a certificate** (driver request `cert`): if the candidate document `d` found
for the source `s` reproduces the tokens of `s` and is well-formed – two Boolean checks evaluated
by the compiled definitions – then `parse` returns exactly `treeD d` on `s`, in both tolerance
modes. Nothing is assumed about how `d` was found. -/
theorem cert_sound (tol : Bool) (skip : List Str) (s : Str) (ts : List Tok) (d : Doc)
    (ht : tokenize s = some ts) (htoks : (toksD d == ts) = true)
    (hwf : WFD (Tables.skipEnvNames ++ skip) d = true) :
    parse tol skip s = .ok (treeD d) := by
  have h : toksD d = ts := eq_of_beq htoks
  exact parse_complete tol skip s d (by rw [h]; exact ht) hwf

end TexSoup.C02
