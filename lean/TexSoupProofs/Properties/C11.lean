import TexSoupProofs.Reader.Leaves
import TexSoupProofs.Properties.TokHyp
/-!
# C11 – Verbatim-like environments are opaque

Proved here: (reader, all token lists) the body is read as a single uninterpreted text up to
the first token boundary where `\end{name}` starts, whatever the body contains, and no error
is possible; without a marker the result is the unclosed-environment diagnostic; the name
enters only through the marker, so user-supplied and built-in names are indistinguishable;
(tokenizer, all inputs without NUL/DEL) for a plain name, `\end{name}` at a token boundary is
spelled by exactly five tokens – in particular for all built-in names. The character-level
premise "a token boundary stands before `\end{name}` when the body does not end in a
backslash and no `%` precedes it on its line" is explored by the oracle, listed as partial.
-/
namespace TexSoup.C11

theorem body_is_opaque (name : Str) (args : List Expr) (pos : Int) (body e5 rest : List Tok)
    (hno : ∀ pre suf, body = pre ++ suf → suf ≠ [] →
      bufStartsWith (endMarker name) (suf ++ (e5 ++ rest)) = false)
    (h5 : e5.length = 5) (hend : bufStartsWith (endMarker name) (e5 ++ rest) = true) :
    readSkipEnv name args pos (body ++ (e5 ++ rest)) =
      .ok (.nenv name args [.text (flat body) (match body ++ (e5 ++ rest) with
        | t :: _ => (t.pos : Int)
        | [] => -1)] pos, rest) :=
  skip_env_opaque name args pos body e5 rest hno h5 hend

theorem unclosed_is_diagnostic (name : Str) (args : List Expr) (pos : Int) (ts : List Tok)
    (hno : ∀ pre suf, ts = pre ++ suf → suf ≠ [] → bufStartsWith (endMarker name) suf = false) :
    readSkipEnv name args pos ts = .error .eof :=
  skip_env_unclosed name args pos ts hno

/-- the end marker of a plain name occupies exactly five tokens -/
theorem end_marker_is_five_tokens {s : Str} {ts : List Tok}
    (hs : ∀ c ∈ s, isIgnored (catOf c) = false) (h : tokenize s = some ts) {name : Str}
    (hpl : PlainEnvName name) : ∀ pre rest, ts = pre ++ rest →
      bufStartsWith (endMarker name) rest = true → flat (rest.take 5) = endMarker name :=
  tokens_skipPlain hs h hpl

theorem builtin_names_plain : ∀ n ∈ Tables.skipEnvNames, PlainEnvName n := skipEnvNames_plainEnvName

/-! Non-vacuity: a body with unbalanced delimiters and a math switch. -/
example : readSkipEnv [118] [] 0
    ([⟨[123], 3, .GroupBegin⟩, ⟨[36], 4, .MathSwitch⟩] ++
      ([⟨[92], 5, .Escape⟩, ⟨[101, 110, 100], 6, .CommandName⟩, ⟨[123], 9, .GroupBegin⟩,
        ⟨[118], 10, .Text⟩, ⟨[125], 11, .GroupEnd⟩] ++ [⟨[120], 12, .Text⟩])) =
    .ok (.nenv [118] [] [.text [123, 36] 3] 0, [⟨[120], 12, .Text⟩]) := by rfl

end TexSoup.C11
