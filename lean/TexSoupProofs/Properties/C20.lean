import TexSoupProofs.BufLemmas
/-!
# C20 – the look-ahead buffer is a faithful cursor over its sequence

Model: `TexSoupModel/Buf.lean` (`BufState = (queue, i, rest)`, lazily filled).
Specification: `TexSoupProofs/BufSpec.lean` (`Spec = (items, idx)`, a plain list with an index).
`abs (queue, i, rest) = (queue ++ rest, i)`; `Inv` = "everything before the cursor is
materialised unless the iterator is exhausted".

The refinement needs **no** restriction to in-range moves: the specification's index is a bare
natural number and `forward` past the end / `backward` past the start behave in the model as
they do on the list (`scope_keeps_cursor_in_range` shows the property's in-range operations
never take the index out of `[0, length]`).
-/
namespace TexSoup
namespace C20
open Buf

/-- Every public operation, from every reachable-shaped state (`Inv`), with any argument:
the model's output is the list+index output, `abs` commutes, and `Inv` is kept. -/
theorem step_refines (s : BufState) (op : BufOp) (hinv : Inv s) :
    Spec.step (abs s) op = (abs (step s op).1, (step s op).2) ∧ Inv (step s op).1 := by
  obtain ⟨h1, h2, h3⟩ := step_refines_aux s op hinv
  exact ⟨by rw [h1, h2], h3⟩

example : Inv ⟨[[97], [98, 99]], 1, [[100]]⟩ ∧ Inv ⟨[[97]], 4, []⟩ := by decide

/-- `Inv` is not decoration: in a state that violates it (unreachable, see `run_refines`) indexing
before the cursor skips the fill loop and misses an element the list has. -/
example : ¬ Inv ⟨[], 2, [[97], [98], [99]]⟩ ∧
    (step ⟨[], 2, [[97], [98], [99]]⟩ (.getItem 0)).2 = .indexError ∧
    (Spec.step (abs ⟨[], 2, [[97], [98], [99]]⟩) (.getItem 0)).2 = .elem [97] := by decide

/-- The same for every history (any length), from any state with `Inv`. -/
theorem run_refines_from (s : BufState) (ops : List BufOp) (hinv : Inv s) :
    Spec.run (abs s) ops = (abs (run s ops).1, (run s ops).2) ∧ Inv (run s ops).1 := by
  induction ops generalizing s with
  | nil => exact ⟨rfl, hinv⟩
  | cons op ops ih =>
    obtain ⟨h1, h2⟩ := step_refines s op hinv
    obtain ⟨h3, h4⟩ := ih (step s op).1 h2
    simp only [Spec.run, run, h1, h3]
    exact ⟨trivial, h4⟩

example : Inv ⟨[[97, 98]], 0, [[99], [100]]⟩ := by decide

/-- Every history on a fresh buffer over any sequence `src` (token-backed: `src` are the token
texts) produces the outputs and the final cursor of the list `src` with index 0. -/
theorem run_refines (src : List Str) (ops : List BufOp) :
    Spec.run ⟨src, 0⟩ ops = (abs (run (init src) ops).1, (run (init src) ops).2) ∧
      Inv (run (init src) ops).1 :=
  run_refines_from (init src) ops (init_inv src)

example : (run (init [[97, 98], [99]]) [.next, .peek (-1), .forward 3, .next]).2 =
    [.elem [97, 98], .elem [97, 98], .joined [99], .stopIteration] := by decide

/-- What the differential harness observes – every output together with the cursor after the
operation – is what the list with index 0 gives, for every history on a fresh buffer. -/
theorem trace_refines (src : List Str) (ops : List BufOp) :
    trace (init src) ops = Spec.trace ⟨src, 0⟩ ops := by
  have key : ∀ (ops : List BufOp) (s : BufState), Inv s →
      trace s ops = Spec.trace (abs s) ops := by
    intro ops
    induction ops with
    | nil => intro s _; rfl
    | cons op ops ih =>
      intro s hinv
      obtain ⟨h1, h2⟩ := step_refines s op hinv
      simp only [trace, Spec.trace, h1, ih _ h2]
      rfl
  exact key ops (init src) (init_inv src)

example : trace (init [[97, 98], [99]]) [.forward 1, .peek 5, .backward 2] =
    [(.joined [97, 98], 1), (.none, 1), (.assertionError, 1)] := by decide

/-- String-backed buffers (`Buffer('abc')`): the elements are the characters. -/
theorem run_refines_string (str : Str) (ops : List BufOp) :
    Spec.run ⟨str.map fun c => [c], 0⟩ ops =
        (abs (run (ofString str) ops).1, (run (ofString str) ops).2) ∧
      Inv (run (ofString str) ops).1 :=
  run_refines (str.map fun c => [c]) ops

example : (run (ofString [97, 98, 99]) [.startswith [97, 98], .forwardUntil [[99]], .position]).2 =
    [.bool true, .joined [97, 98], .nat 2] := by decide

/-- Peeking, slicing, indexing and the tests (and `num_forward_until`, which moves and comes
back) leave the sequence and the cursor as they were. -/
theorem observers_keep_cursor (s : BufState) (op : BufOp) (hinv : Inv s)
    (hop : Spec.IsObserver op) :
    abs (step s op).1 = abs s := by
  have h := (step_refines s op hinv).1
  have h' : (Spec.step (abs s) op).1 = abs (step s op).1 := by rw [h]
  rw [← h']
  cases op <;> simp only [Spec.IsObserver] at hop <;> simp only [Spec.step] <;>
    (try split) <;> rfl

example : Inv ⟨[[97]], 1, [[98], [99]]⟩ ∧ Spec.IsObserver (.peekRange (-1) 2) ∧
    (step ⟨[[97]], 1, [[98], [99]]⟩ (.peekRange (-1) 2)).1 ≠ ⟨[[97]], 1, [[98], [99]]⟩ := by
  decide

/-- Reading or peeking past the end (or before the start) reports exhaustion:
`next` raises `StopIteration` and stays, `peek` gives `None`, `hasNext` is `False`, slices and
range peeks give the (shorter) part of the window that exists. -/
theorem past_end_reports_exhaustion (s : BufState) (hinv : Inv s) :
    (total s ≤ s.i → (step s .next).2 = .stopIteration ∧ abs (step s .next).1 = abs s) ∧
    (∀ j : Int, (s.i : Int) + j < 0 ∨ (total s : Int) ≤ (s.i : Int) + j →
      (step s (.peek j)).2 = .none) ∧
    (∀ n : Int, (s.i : Int) + (n - 1) < 0 ∨ (total s : Int) ≤ (s.i : Int) + (n - 1) →
      (step s (.hasNext n)).2 = .bool false) ∧
    (∀ a b, (step s (.slice a b)).2 = .joined (join (pySlice (s.queue ++ s.rest) a b))) ∧
    (∀ a b : Int, (step s (.peekRange a b)).2 =
      .joined (join (pySlice (s.queue ++ s.rest) (some ((s.i : Int) + a).toNat)
        (some ((s.i : Int) + b).toNat)))) := by
  have hat : ∀ j : Int, (s.i : Int) + j < 0 ∨ (total s : Int) ≤ (s.i : Int) + j →
      Spec.at? (abs s) j = none := by
    intro j hj
    rw [Spec.at?_abs]
    split
    · rfl
    · apply List.getElem?_eq_none_iff.mpr
      have : (items s).length = total s := by simp [items, total]
      omega
  refine ⟨?_, ?_, ?_, ?_, ?_⟩
  · intro h
    have h1 := (step_refines s .next hinv).1
    have hn : (abs s).items[(abs s).idx]? = none := by
      apply List.getElem?_eq_none_iff.mpr
      simpa [abs, total] using h
    simp only [Spec.step, hn] at h1
    have := congrArg Prod.snd h1
    have := congrArg Prod.fst h1
    simp_all
  · intro j hj
    have h1 := (step_refines s (.peek j) hinv).1
    simp only [Spec.step, hat j hj] at h1
    exact (congrArg Prod.snd h1).symm
  · intro n hn
    have h1 := (step_refines s (.hasNext n) hinv).1
    simp only [Spec.step, hat (n - 1) hn] at h1
    exact (congrArg Prod.snd h1).symm
  · intro a b
    exact (congrArg Prod.snd (step_refines s (.slice a b) hinv).1).symm
  · intro a b
    exact (congrArg Prod.snd (step_refines s (.peekRange a b) hinv).1).symm

example : Inv ⟨[[97]], 3, []⟩ ∧ total ⟨[[97]], 3, []⟩ ≤ 3 ∧
    Inv ⟨[], 0, [[97], [98]]⟩ ∧ ((0 : Int) + 5 < 0 ∨ ((2 : Nat) : Int) ≤ (0 : Int) + 5) := by
  decide

/-- No operation fails in any other way: the model's loops never run out of fuel, `IndexError`
comes only from indexing (`b[k]`) at or past the end, `AssertionError` only from moving back
past the start. -/
theorem only_documented_errors (s : BufState) (op : BufOp) (hinv : Inv s) :
    (step s op).2 ≠ .fuel ∧
    ((step s op).2 = .indexError → ∃ k, op = .getItem k ∧ total s ≤ k) ∧
    ((step s op).2 = .assertionError →
      ∃ j : Int, (s.i : Int) < j ∧ (op = .backward j ∨ op = .forward (-j))) := by
  have h := congrArg Prod.snd (step_refines s op hinv).1
  simp only at h
  rw [← h]
  have hlen : (abs s).items.length = total s := by simp [abs, total]
  have hidx : (abs s).idx = s.i := rfl
  rw [← hlen, ← hidx]
  exact Spec.errors (abs s) op

example : Inv ⟨[[97]], 1, [[98]]⟩ ∧ (step ⟨[[97]], 1, [[98]]⟩ (.backward 2)).2 = .assertionError ∧
    (step ⟨[[97]], 1, [[98]]⟩ (.getItem 2)).2 = .indexError := by decide

/-- Laziness is unobservable: two buffers over the same sequence at the same cursor, however
much of it each has materialised, answer every history identically. -/
theorem laziness_unobservable (s₁ s₂ : BufState) (h₁ : Inv s₁) (h₂ : Inv s₂)
    (habs : abs s₁ = abs s₂) (ops : List BufOp) :
    (run s₁ ops).2 = (run s₂ ops).2 ∧ abs (run s₁ ops).1 = abs (run s₂ ops).1 := by
  have e₁ := (run_refines_from s₁ ops h₁).1
  have e₂ := (run_refines_from s₂ ops h₂).1
  rw [habs, e₂] at e₁
  exact ⟨(congrArg Prod.snd e₁).symm, (congrArg Prod.fst e₁).symm⟩

example : Inv ⟨[], 0, [[97], [98], [99]]⟩ ∧ Inv ⟨[[97], [98]], 0, [[99]]⟩ ∧
    abs ⟨[], 0, [[97], [98], [99]]⟩ = abs ⟨[[97], [98]], 0, [[99]]⟩ ∧
    (⟨[], 0, [[97], [98], [99]]⟩ : BufState) ≠ ⟨[[97], [98]], 0, [[99]]⟩ := by decide

/-- In-scope operations (`Spec.InScope`: moves that stay inside the list, everything else
unrestricted) never change the list and keep the index within `[0, length]`, so the
specification's treatment of an index past the end is not exercised inside the property. -/
theorem scope_keeps_cursor_in_range (sp : Spec) (op : BufOp) (hsp : sp.idx ≤ sp.items.length)
    (hop : Spec.InScope sp op) :
    (Spec.step sp op).1.items = sp.items ∧ (Spec.step sp op).1.idx ≤ sp.items.length :=
  Spec.scope_in_range sp op hsp hop

example : (⟨[[97], [98]], 1⟩ : Spec).idx ≤ (⟨[[97], [98]], 1⟩ : Spec).items.length ∧
    Spec.InScope ⟨[[97], [98]], 1⟩ (.forward 1) ∧ Spec.InScope ⟨[[97], [98]], 1⟩ (.backward 1) ∧
    ¬ Spec.InScope ⟨[[97], [98]], 1⟩ (.forward 2) := by decide

namespace Legacy

/-- The defect repaired in `peek` (F10): before the repair a peek before the start fell
through to Python's negative indexing on the *materialised* queue, so two buffers over the
same sequence at the same cursor – here a fresh `Buffer('abc')` and the same buffer after
`peek(2)` – answered `peek(-1)` differently (`None` vs `'c'`). -/
theorem peek_leaks_laziness :
    ∃ s₁ s₂ : BufState, Inv s₁ ∧ Inv s₂ ∧ abs s₁ = abs s₂ ∧
      (Buf.Legacy.peek s₁ (-1)).2 ≠ (Buf.Legacy.peek s₂ (-1)).2 ∧
      (Buf.peek s₁ (-1)).2 = (Buf.peek s₂ (-1)).2 :=
  ⟨ofString [97, 98, 99], (step (ofString [97, 98, 99]) (.peek 2)).1, by decide⟩

example : (Buf.Legacy.peek (ofString [97, 98, 99]) (-1)).2 = .none ∧
    (Buf.Legacy.peek (step (ofString [97, 98, 99]) (.peek 2)).1 (-1)).2 = .elem [99] := by decide

end Legacy

end C20
end TexSoup
